// Conformance driver for spec/huffman and spec/marcus (property C14): a dumb executor of
// text commands against the real xtp code, which is compiled INTO this executable
// (gnode.cc, rate_engine.cc, qmpair.cc, segment.cc, ..., kmccalculator.cc).
//
//   huff <n> r1..rn      GNode::AddEvent x n, InitEscapeRate, MakeHuffTree; prints
//                        "esc <escape rate>" and "thr <node thresholds in htree order>"
//   new | hop <r> | decay <r> | init | make | sit
//                        call histories on ONE GNode: fresh node, GNode::AddEvent,
//                        GNode::AddDecayEvent, InitEscapeRate (prints "esc"), MakeHuffTree
//                        (prints "thr" and the tree's own normalisation "sov")
//   probe <m> p1..pm     GNode::findHoppingDestination(p) -> "sel i1..im" (event index, 0-based)
//   cells                partition of [0,1] by the tree's own thresholds: for every cell between
//                        consecutive thresholds the event selected at its midpoint, the cell ends
//                        as integer numerators llround(t*S) (S = the tree's sum of rates, integer valued);
//                        also probes p=0, p=1 and every threshold itself
//   graph ...            builds a Topology (segments + neighbour list) and runs the real
//                        KMCCalculator::LoadGraph on it; prints the direct Rate_Engine rates per
//                        pair and, per node, injectable flag, escape rate, tree flag and events
//   place i | tick dt | jump k | reset   one Chargecarrier on the nodes of the last graph
//                        (settoNote / updateLifetime+updateSteps+updateOccupationtime /
//                        jumpAccordingEvent); each prints the carrier's and the nodes' bookkeeping
//   lifeload / liferun   the real KMCLifetime (LoadGraph, ReadLifetimeFile, RunVSSM) with the random
//                        numbers scripted through the votca/tools/random.h shim in huffman_shim/
//   marcus ...           Rate_Engine::Rate on constructed Segment/QMPair objects (the carrier
//                        slots of the OTHER three carrier types are filled with decoy values)
//   promote <raw> <k>    KMCCalculator::Promotetime(k) with the uniform variate scripted to raw
//   choose <raw>         KMCCalculator::ChooseHoppingDest(node) with the uniform scripted to raw
//
// The file is compiled with -fno-access-control (this translation unit only) so that the
// thresholds stored in the private huffmanTree::htree and the private random generator of
// KMCCalculator can be read / scripted without touching the repository sources.
#include <algorithm>
#include <cmath>
#include <iostream>
#include <memory>
#include <random>
#include <sstream>
#include <stdexcept>
#include <string>
#include <vector>

#include <votca/tools/types.h>

#include "votca/xtp/gnode.h"
#include "votca/xtp/kmccalculator.h"
#include "votca/xtp/qmpair.h"
#include "votca/xtp/rate_engine.h"
#include "votca/xtp/segment.h"
#include "votca/xtp/chargecarrier.h"
#include "votca/xtp/topology.h"
#include "calculators/kmclifetime.h"
#include <fstream>
#include <unistd.h>

using namespace votca;
using namespace votca::xtp;

// QMCalculator's two out-of-line members live in qmcalculator.cc, which needs libint2 (not
// available here).  Neither is under test; these stand-ins only satisfy the linker (Initialize
// is the key function that anchors QMCalculator's vtable).
namespace votca {
namespace xtp {
void QMCalculator::Initialize(const tools::Property& opt) { ParseOptions(opt); }
bool QMCalculator::EvaluateFrame(Topology& top) { return Evaluate(top); }
}  // namespace xtp
}  // namespace votca

namespace {

// the real Promotetime / ChooseHoppingDest are protected members of the abstract
// KMCCalculator; this subclass only fills in the pure virtuals and exposes them
class KmcProbe : public KMCCalculator {
 public:
  std::string Identify() const override { return "verifprobe"; }
  bool WriteToStateFile() const override { return false; }
  void script(double raw) {
    // uniform_real_distribution(a, a) returns a: the next rand_uniform() is exactly `raw`
    RandomVariable_.distribution_ = std::uniform_real_distribution<double>(raw, raw);
  }
  double promote(double k) { return Promotetime(k); }
  void configure(QMStateType c, double kT, const Eigen::Vector3d& F, const std::string& inj,
                 const std::string& ign) {
    carriertype_ = c;
    temperature_ = kT;
    field_ = F;
    injection_name_ = inj;
    ignoresegments_ = ign;
    ratefile_ = "/dev/null";
    numberofcarriers_ = 1;
    log_.setReportLevel(Log::error);
  }
  void load(Topology& top) { LoadGraph(top); }
  std::vector<GNode>& nodes() { return nodes_; }
  const GLink& choose(const GNode& n) { return ChooseHoppingDest(n); }

 protected:
  void ParseSpecificOptions(const tools::Property&) override {}
  void RunVSSM() override {}
  bool Evaluate(Topology&) override { return true; }
};

QMStateType carrier(const std::string& c) {
  if (c == "e") return QMStateType(QMStateType::Electron);
  if (c == "h") return QMStateType(QMStateType::Hole);
  if (c == "s") return QMStateType(QMStateType::Singlet);
  if (c == "t") return QMStateType(QMStateType::Triplet);
  throw std::runtime_error("unknown carrier " + c);
}

long index_of(const GNode& node, const GLink* l) {
  const std::vector<GLink>& ev = node.Events();
  if (ev.empty() || l < ev.data() || l >= ev.data() + ev.size()) return -1;
  return long(l - ev.data());
}

// graph description shared by the graph / lifeload / liferun commands:
//   c kT Fx Fy Fz inj ign u J0 n {type E}*n np {a b Rx Ry Rz jm}*np
struct GraphIn {
  std::string c, inj, ign;
  double kT = 0, F[3] = {0, 0, 0}, u = 0, J0 = 0;
  long n = 0, np = 0;
  std::vector<std::string> types;
  std::vector<double> E;
};
std::unique_ptr<Topology> read_graph(std::istringstream& in, GraphIn& g) {
  in >> g.c >> g.kT >> g.F[0] >> g.F[1] >> g.F[2] >> g.inj >> g.ign >> g.u >> g.J0 >> g.n;
  QMStateType st = carrier(g.c);
  std::unique_ptr<Topology> top(new Topology());
  top->setBox(Eigen::Matrix3d::Identity() * 100.0);
  g.E.resize(g.n);
  g.types.resize(g.n);
  for (long i = 0; i < g.n; ++i) {
    in >> g.types[i] >> g.E[i];
    top->AddSegment(g.types[i]);
  }
  for (long i = 0; i < g.n; ++i) {
    Segment& sg = top->getSegment(i);
    sg.setEMpoles(st, g.E[i]);
    sg.setU_nX_nN(g.u, st);
    sg.setU_xN_xX(g.u, st);
  }
  in >> g.np;
  for (long k = 0; k < g.np; ++k) {
    long a, b;
    double R[3], jm;
    in >> a >> b >> R[0] >> R[1] >> R[2] >> jm;
    QMPair& pr = top->NBList().Add(top->getSegment(a), top->getSegment(b),
                                   Eigen::Vector3d(R[0], R[1], R[2]));
    pr.setJeff2(jm * g.J0, st);
  }
  if (!in) throw std::runtime_error("bad graph description");
  return top;
}

void print_nodes(const std::vector<GNode>& nodes) {
  for (const GNode& nd : nodes) {
    std::cout << "node " << nd.getId() << " inj " << (nd.isInjectable() ? 1 : 0) << " esc "
              << nd.getEscapeRate() << " tree " << (nd.hTree.treeIsMade ? 1 : 0) << " nev "
              << nd.Events().size();
    for (const GLink& l : nd.Events()) {
      std::cout << " " << (l.isDecayEvent() ? -1 : l.getDestination()->getId()) << " "
                << l.getRate() << " " << l.getDeltaR().x() << " " << l.getDeltaR().y() << " "
                << l.getDeltaR().z();
    }
    std::cout << std::endl;
  }
}

// the real KMCLifetime (calculators/kmclifetime.cc) prepared without option parsing
void setup_lifetime(KMCLifetime& k, const GraphIn& g, long ncarriers, unsigned long insertions,
                    const std::string& base) {
  k.carriertype_ = carrier(g.c);
  k.temperature_ = g.kT;
  k.field_ = Eigen::Vector3d(g.F[0], g.F[1], g.F[2]);
  k.injection_name_ = g.inj;
  k.ignoresegments_ = g.ign == "-" ? std::string("") : g.ign;
  k.injectionmethod_ = "random";
  k.ratefile_ = "/dev/null";
  k.trajectoryfile_ = base + ".traj";
  k.occfile_ = base + ".occ";
  k.lifetimefile_ = base + ".xml";
  k.numberofcarriers_ = ncarriers;
  k.insertions_ = insertions;
  k.maxrealtime_ = 1.0;
  k.do_carrierenergy_ = false;
  k.seed_ = 1;
  k.log_.setReportLevel(Log::error);
}

// findHoppingDestination on a legal p must select an event; an exception of the real code is a
// RESULT (-3 = "selects no event, threw"), the first message is kept for the report
std::string g_find_exc;
long find_index(const GNode& node, double p) {
  try {
    return index_of(node, node.findHoppingDestination(p));
  } catch (const std::exception& e) {
    if (g_find_exc.empty()) g_find_exc = e.what();
    return -3;
  }
}
void report_find_exc() {
  if (!g_find_exc.empty()) {
    std::string m = g_find_exc;
    for (char& ch : m) if (ch == '\n') ch = ' ';
    std::cout << "findexc " << m << std::endl;
    g_find_exc.clear();
  }
}

}  // namespace

int main() {
  std::string line;
  long seq = 0;
  std::cout.precision(17);
  Segment seg0("site", 0);
  std::unique_ptr<GNode> node;
  std::vector<GNode> dests;  // destinations of the events (never dereferenced by the tree)
  KmcProbe kmc;
  std::unique_ptr<Topology> top;
  std::unique_ptr<KmcProbe> gk;
  std::unique_ptr<Chargecarrier> walker;
  std::unique_ptr<Chargecarrier> hcar;  // carrier sitting on the history node
  while (std::getline(std::cin, line)) {
    ++seq;
    std::istringstream in(line);
    std::string cmd;
    in >> cmd;
    std::cout << "cmd " << seq << " " << line << std::endl;
    try {
      if (cmd == "huff") {
        long n;
        in >> n;
        std::vector<double> r(n);
        for (double& x : r) in >> x;
        if (!in) throw std::runtime_error("bad huff command");
        node.reset(new GNode(seg0, QMStateType(QMStateType::Electron), true));
        dests.assign(1, GNode(seg0, QMStateType(QMStateType::Electron), true));
        for (long i = 0; i < n; ++i) {
          node->AddEvent(&dests[0], Eigen::Vector3d(double(i), 0, 0), r[i]);
        }
        node->InitEscapeRate();
        node->MakeHuffTree();
        std::cout << "esc " << node->getEscapeRate() << std::endl;
        std::cout << "thr";
        for (const auto& hn : node->hTree.htree) std::cout << " " << hn.probability;
        std::cout << std::endl;
      } else if (cmd == "new") {
        node.reset(new GNode(seg0, QMStateType(QMStateType::Electron), true));
        dests.assign(1, GNode(seg0, QMStateType(QMStateType::Electron), true));
        hcar.reset(new Chargecarrier(0));
        std::cout << "ok" << std::endl;
      } else if (cmd == "sit") {
        hcar->settoNote(node.get());
        std::cout << "ok" << std::endl;
      } else if (cmd == "hop" || cmd == "decay") {
        double r;
        in >> r;
        if (!in || !node) throw std::runtime_error("bad hop/decay command");
        if (cmd == "hop") {
          node->AddEvent(&dests[0], Eigen::Vector3d(double(node->Events().size()), 0, 0), r);
        } else {
          node->AddDecayEvent(r);
        }
        std::cout << "ok " << node->Events().size() << std::endl;
      } else if (cmd == "init") {
        node->InitEscapeRate();
        std::cout << "esc " << node->getEscapeRate() << " car "
                  << (hcar && hcar->hasNode() ? hcar->getCurrentEscapeRate() : -1.0) << std::endl;
      } else if (cmd == "make") {
        node->MakeHuffTree();
        std::cout << "thr";
        for (const auto& hn : node->hTree.htree) std::cout << " " << hn.probability;
        std::cout << std::endl;
        std::cout << "sov " << node->hTree.sum_of_values << " esc " << node->getEscapeRate() << " car "
                  << (hcar && hcar->hasNode() ? hcar->getCurrentEscapeRate() : -1.0) << std::endl;
      } else if (cmd == "probe") {
        long m;
        in >> m;
        std::cout << "sel";
        for (long i = 0; i < m; ++i) {
          double p;
          in >> p;
          if (!in) throw std::runtime_error("bad probe command");
          std::cout << " " << find_index(*node, p);
        }
        std::cout << std::endl;
        report_find_exc();
      } else if (cmd == "cells") {
        // numerators over the tree's own normalisation (huffmanTree::sum_of_values); that the
        // escape rate equals the sum is checked separately
        const double S = node->hTree.sum_of_values;
        std::vector<double> t{0.0, 1.0};
        bool inrange = true;
        for (const auto& hn : node->hTree.htree) {
          double p = hn.probability;
          if (!(p >= -1e-9 && p <= 1.0 + 1e-9)) inrange = false;
          if (p > 0.0 && p < 1.0) t.push_back(p);
        }
        std::sort(t.begin(), t.end());
        t.erase(std::unique(t.begin(), t.end()), t.end());
        bool total = true;
        for (double p : t) {
          if (find_index(*node, p) < 0) total = false;
        }
        std::cout << "cells " << (t.size() - 1) << " total " << (total ? 1 : 0) << " inrange "
                  << (inrange ? 1 : 0);
        for (std::size_t k = 0; k + 1 < t.size(); ++k) {
          double mid = 0.5 * (t[k] + t[k + 1]);
          long ev = find_index(*node, mid);
          // one quarter / three quarters must agree with the midpoint (constant on the cell);
          // cells only a few ulp wide (two thresholds that coincide up to rounding) have no
          // distinct interior points and carry no measure
          double q1 = t[k] + 0.25 * (t[k + 1] - t[k]);
          double q3 = t[k] + 0.75 * (t[k + 1] - t[k]);
          if (q1 > t[k] && q1 < mid && q3 > mid && q3 < t[k + 1]) {
            long e1 = find_index(*node, q1);
            long e3 = find_index(*node, q3);
            if (e1 != ev || e3 != ev) ev = -2;
          }
          std::cout << " " << ev << " " << std::llround(t[k] * S) << " " << std::llround(t[k + 1] * S);
        }
        std::cout << std::endl;
        report_find_exc();
      } else if (cmd == "graph") {
        GraphIn g;
        top = read_graph(in, g);
        QMStateType st = carrier(g.c);
        const double kT = g.kT;
        const double* F = g.F;
        const long np = g.np;
        const std::string &inj = g.inj, &ign = g.ign;
        Rate_Engine eng(kT, Eigen::Vector3d(F[0], F[1], F[2]));
        for (long k = 0; k < np; ++k) {
          Rate_Engine::PairRates pr = eng.Rate(*top->NBList()[k], st);
          std::cout << "pair " << k << " " << pr.rate12 << " " << pr.rate21 << std::endl;
        }
        walker.reset(new Chargecarrier(0));
        gk.reset(new KmcProbe());
        gk->configure(st, kT, Eigen::Vector3d(F[0], F[1], F[2]), inj, ign == "-" ? std::string("") : ign);
        std::string failed;
        try {
          gk->load(*top);
        } catch (const std::exception& e) {
          failed = e.what();
        }
        print_nodes(gk->nodes());
        if (!failed.empty()) std::cout << "loadfailed " << failed << std::endl;
        std::cout << "loaded " << gk->nodes().size() << std::endl;
      } else if (cmd == "place" || cmd == "tick" || cmd == "jump" || cmd == "reset") {
        if (!gk || !walker) throw std::runtime_error("no graph");
        if (cmd == "place") {
          long i;
          in >> i;
          if (walker->hasNode()) walker->ReleaseNode();   // as RandomlyAssignCarriertoSite does
          walker->settoNote(&gk->nodes().at(i));
        } else if (cmd == "tick") {
          double dt;
          in >> dt;
          walker->updateLifetime(dt);
          walker->updateSteps(1);
          walker->updateOccupationtime(dt);
        } else if (cmd == "reset") {
          walker->resetCarrier();
        } else {
          long k;
          in >> k;
          walker->jumpAccordingEvent(walker->getCurrentNode().Events().at(k));
        }
        if (!in) throw std::runtime_error("bad walk command");
        const Eigen::Vector3d& d = walker->get_dRtravelled();
        std::cout << "carrier " << walker->getCurrentNodeId() << " " << walker->getLifetime() << " "
                  << walker->getSteps() << " " << d.x() << " " << d.y() << " " << d.z();
        for (const GNode& nd : gk->nodes())
          std::cout << " " << (nd.isOccupied() ? 1 : 0) << " " << nd.OccupationTime();
        std::cout << std::endl;
      } else if (cmd == "lifeload" || cmd == "liferun") {
        // lifeload <graph> {lifetime}*n
        //   real KMCLifetime: LoadGraph + ReadLifetimeFile; prints the nodes, for every node the
        //   partition of [0,1] by its tree (event, lo, hi) and the range configured for site draws
        // liferun <graph> {lifetime}*n ncarriers insertions nscript {i v | u r}*nscript
        //   the same, then the real RunVSSM with the scripted random numbers; prints the trajectory
        //   file, the nodes' occupation times and how much of the script was consumed
        GraphIn g;
        std::unique_ptr<Topology> ltop = read_graph(in, g);
        std::vector<double> lifetimes(g.n);
        for (double& x : lifetimes) in >> x;
        long ncar = 1, nscript = 0;
        unsigned long ins = 1;
        tools::VerifRandomScript& script = tools::verif_random_script();
        script = tools::VerifRandomScript();
        if (cmd == "liferun") {
          in >> ncar >> ins >> nscript;
          for (long k = 0; k < nscript; ++k) {
            std::string kind;
            double v;
            in >> kind >> v;
            script.q.emplace_back(kind[0], v);
          }
        }
        if (!in) throw std::runtime_error("bad life command");
        std::string base = "/tmp/drv_huffman_" + std::to_string(getpid());
        {
          std::ofstream xml(base + ".xml");
          xml.precision(17);
          xml << "<lifetimes>\n";
          for (long i = 0; i < g.n; ++i) xml << "<site id=\"" << i << "\">" << lifetimes[i] << "</site>\n";
          xml << "</lifetimes>\n";
        }
        KMCLifetime life;
        setup_lifetime(life, g, ncar, ins, base);
        std::string failed;
        std::ostringstream sink;
        std::streambuf* old = std::cout.rdbuf(sink.rdbuf());   // progress bar / log of the real code
        try {
          life.LoadGraph(*ltop);
          life.ReadLifetimeFile(base + ".xml");
          if (cmd == "liferun") {
            script.active = true;
            life.RunVSSM();
          }
        } catch (const std::exception& e) {
          failed = e.what();
        }
        script.active = false;
        std::cout.rdbuf(old);
        std::cout << "maxint " << script.maxint << " nodes " << life.nodes_.size() << std::endl;
        print_nodes(life.nodes_);
        if (cmd == "lifeload") {
          for (const GNode& nd : life.nodes_) {
            std::vector<double> t{0.0, 1.0};
            for (const auto& hn : nd.hTree.htree)
              if (hn.probability > 0.0 && hn.probability < 1.0) t.push_back(hn.probability);
            std::sort(t.begin(), t.end());
            t.erase(std::unique(t.begin(), t.end()), t.end());
            std::cout << "part " << nd.getId() << " " << (t.size() - 1);
            for (std::size_t k = 0; k + 1 < t.size(); ++k)
              std::cout << " " << find_index(nd, 0.5 * (t[k] + t[k + 1])) << " " << t[k] << " " << t[k + 1];
            std::cout << std::endl;
          }
          report_find_exc();
        } else {
          std::ifstream tr(base + ".traj");
          std::string l;
          while (std::getline(tr, l)) {
            if (!l.empty() && l[0] != '#') std::cout << "traj " << l << std::endl;
          }
          std::cout << "occt";
          for (const GNode& nd : life.nodes_) std::cout << " " << nd.OccupationTime();
          std::cout << std::endl;
          std::cout << "carriers";
          for (Chargecarrier& cc : life.carriers_)
            std::cout << " " << cc.getId() << " " << (cc.hasNode() ? cc.getCurrentNodeId() : -1) << " "
                      << cc.getLifetime() << " " << cc.getSteps();
          std::cout << std::endl;
          std::cout << "script consumed " << script.consumed << " left " << script.q.size() << std::endl;
        }
        if (!failed.empty()) {
          for (char& ch : failed) if (ch == '\n') ch = ' ';
          std::cout << "runfailed " << failed << std::endl;
        }
        for (const char* ext : {".xml", ".traj", ".occ"}) std::remove((base + ext).c_str());
      } else if (cmd == "marcus") {
        // marcus c kT Fx Fy Fz Rx Ry Rz em1 ux1 n1 x1 em2 ux2 n2 x2 lo J2   (Hartree, bohr)
        std::string c;
        double kT, F[3], R[3], em1, ux1, n1, x1, em2, ux2, n2, x2, lo, J2;
        in >> c >> kT >> F[0] >> F[1] >> F[2] >> R[0] >> R[1] >> R[2] >> em1 >> ux1 >> n1 >> x1 >>
            em2 >> ux2 >> n2 >> x2 >> lo >> J2;
        if (!in) throw std::runtime_error("bad marcus command");
        QMStateType st = carrier(c);
        Segment s1("one", 0), s2("two", 1);
        QMPair pair(0, &s1, &s2, Eigen::Vector3d(R[0], R[1], R[2]));
        // decoys: the slots of the other carrier types must not leak into this carrier's rate
        int slot = 0;
        for (const char* oc : {"e", "h", "s", "t"}) {
          ++slot;
          if (c == oc) continue;
          QMStateType o = carrier(oc);
          double d = 0.37 * slot;
          s1.setEMpoles(o, 3 * d); s1.setU_xX_nN(-d, o); s1.setU_nX_nN(5 * d, o); s1.setU_xN_xX(7 * d, o);
          s2.setEMpoles(o, -2 * d); s2.setU_xX_nN(d, o); s2.setU_nX_nN(11 * d, o); s2.setU_xN_xX(13 * d, o);
          pair.setLambdaO(17 * d, o);
          pair.setJeff2(19 * d, o);
        }
        s1.setEMpoles(st, em1);
        s1.setU_xX_nN(ux1, st);
        s1.setU_nX_nN(n1, st);
        s1.setU_xN_xX(x1, st);
        s2.setEMpoles(st, em2);
        s2.setU_xX_nN(ux2, st);
        s2.setU_nX_nN(n2, st);
        s2.setU_xN_xX(x2, st);
        pair.setLambdaO(lo, st);
        pair.setJeff2(J2, st);
        Rate_Engine eng(kT, Eigen::Vector3d(F[0], F[1], F[2]));
        Rate_Engine::PairRates pr = eng.Rate(pair, st);
        std::cout << "rates " << pr.rate12 << " " << pr.rate21 << std::endl;
      } else if (cmd == "promote") {
        double raw, k;
        in >> raw >> k;
        if (!in) throw std::runtime_error("bad promote command");
        kmc.script(raw);
        std::cout << "dt " << kmc.promote(k) << std::endl;
      } else if (cmd == "choose") {
        double raw;
        in >> raw;
        if (!in) throw std::runtime_error("bad choose command");
        kmc.script(raw);
        const GLink& l = kmc.choose(*node);
        std::cout << "sel " << index_of(*node, &l) << " direct "
                  << find_index(*node, 1.0 - raw) << std::endl;
        report_find_exc();
      } else {
        std::cout << "err unknown command" << std::endl;
      }
    } catch (const std::exception& e) {
      std::cout << "exc " << e.what() << std::endl;
    }
  }
  return 0;
}
