// force-included (-include) before everything else: Eigen index assertions throw
#pragma once
#include <stdexcept>
#define eigen_assert(x)                                              \
  do {                                                               \
    if (!(x)) throw std::out_of_range("eigen_assert: " #x);          \
  } while (0)
