# --- C10 shared job file protocol: real ProgObserver/Job code in worker processes
verif_xtp_driver(drv_jobfile ${D}/jobfile.cc ${XTP_SRC}/progressobserver.cc ${XTP_SRC}/job.cc)
target_link_libraries(drv_jobfile PRIVATE Boost::program_options)
