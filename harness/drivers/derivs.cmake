# --- C07 analytic derivatives: Interaction::EvaluateVar/Grad (IBond, IAngle, IDihedral),
# PotentialFunction{LJ126,LJG,CBSPL}::CalculateF/DF/D2F/SavePotTab, Spline::Calculate/
# CalculateDerivative (see drivers/derivs.cc)
verif_driver(drv_derivs ${D}/derivs.cc)
