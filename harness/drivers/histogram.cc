// Conformance driver for spec/histogram: executes commands against the real
// votca::tools::HistogramNew / Histogram and prints what it observes.
// Built with -UNDEBUG, Eigen assertions throwing, and ASan+UBSan, and with
// histogramnew.cc/histogram.cc compiled into this executable, so that an
// out-of-range bin access is reported instead of silently corrupting memory.
#include <cstdio>
#include <iostream>
#include <memory>
#include <sstream>
#include <stdexcept>
#include <string>
#include <vector>

#include <votca/tools/datacollection.h>
#include <votca/tools/histogram.h>
#include <votca/tools/histogramnew.h>

using namespace votca;
using namespace votca::tools;

int main() {
  std::string line;
  std::unique_ptr<HistogramNew> h;
  long seq = 0;
  std::cout.precision(17);
  while (std::getline(std::cin, line)) {
    ++seq;
    std::istringstream in(line);
    std::string cmd;
    in >> cmd;
    std::cout << "cmd " << seq << " " << line << std::endl;  // echoed first: a crash is attributable
    try {
      if (cmd == "new") {
        double mn, mx;
        long n;
        int per;
        in >> mn >> mx >> n >> per;
        h.reset(new HistogramNew());
        if (per) h->setPeriodic(true);
        h->Initialize(mn, mx, n);
        std::cout << "ok step " << h->getStep() << " nbins " << h->getNBins() << std::endl;
      } else if (cmd == "reinit") {
        // the SAME object is initialised again (object reuse)
        double mn, mx;
        long n;
        int per;
        in >> mn >> mx >> n >> per;
        h->setPeriodic(per != 0);
        h->Initialize(mn, mx, n);
        std::cout << "ok step " << h->getStep() << " nbins " << h->getNBins() << std::endl;
      } else if (cmd == "proc") {
        double v, w;
        in >> v >> w;
        h->Process(v, w);
        std::cout << "ok" << std::endl;
      } else if (cmd == "norm") {
        h->Normalize();
        std::cout << "ok" << std::endl;
      } else if (cmd == "clear") {
        h->Clear();
        std::cout << "ok" << std::endl;
      } else if (cmd == "dump") {
        std::cout << "bins";
        for (Index i = 0; i < h->getNBins(); ++i) std::cout << " " << h->data().y(i);
        std::cout << " x";
        for (Index i = 0; i < h->getNBins(); ++i) std::cout << " " << h->data().x(i);
        std::cout << std::endl;
      } else if (cmd == "legacyx") {
        // legacyx <n> <periodic> <normalize> <scale> <cnt2> v2... <cnt> v...
        // one legacy Histogram object with automatic range; if cnt2 > 0 it first processes the data v2 (object reuse)
        Histogram::options_t op;
        int per, norm;
        long cnt2, cnt;
        std::string scale;
        in >> op.n_ >> per >> norm >> scale >> cnt2;
        op.auto_interval_ = true;
        op.periodic_ = per;
        op.normalize_ = norm;
        op.scale_ = scale;
        DataCollection<double> dc;
        DataCollection<double>::array *a2 = dc.CreateArray("a2");
        for (long i = 0; i < cnt2; ++i) {
          double v;
          in >> v;
          a2->push_back(v);
        }
        in >> cnt;
        DataCollection<double>::array *a = dc.CreateArray("a");
        for (long i = 0; i < cnt; ++i) {
          double v;
          in >> v;
          a->push_back(v);
        }
        Histogram hist(op);
        if (cnt2 > 0) {
          DataCollection<double>::selection sel2;
          sel2.push_back(a2);
          hist.ProcessData(&sel2);
        }
        DataCollection<double>::selection sel;
        sel.push_back(a);
        hist.ProcessData(&sel);
        std::cout << "legacy " << hist.getMin() << " " << hist.getMax() << " " << hist.getInterval();
        for (double p : hist.getPdf()) std::cout << " " << p;
        std::cout << std::endl;
      } else if (cmd == "legacym") {
        // legacym <n> <normalize> <k> <stale> <cnt> v...   the selection holds, besides the data array, k EMPTY arrays in
        // front of and behind it; an empty array was filled with <stale> before and then clear()ed (capacity kept)
        Histogram::options_t op;
        int norm, k;
        long cnt;
        double stale;
        in >> op.n_ >> norm >> k >> stale >> cnt;
        op.auto_interval_ = true;
        op.normalize_ = norm;
        DataCollection<double> dc;
        DataCollection<double>::selection sel;
        for (int j = 0; j < k; ++j) {
          DataCollection<double>::array *e = dc.CreateArray("e" + std::to_string(j));
          for (int q = 0; q < 4; ++q) e->push_back(stale);
          e->clear();
          sel.push_back(e);
        }
        DataCollection<double>::array *a = dc.CreateArray("a");
        for (long i = 0; i < cnt; ++i) {
          double v;
          in >> v;
          a->push_back(v);
        }
        sel.push_back(a);
        for (int j = 0; j < k; ++j) {
          DataCollection<double>::array *e = dc.CreateArray("f" + std::to_string(j));
          for (int q = 0; q < 4; ++q) e->push_back(stale);
          e->clear();
          sel.push_back(e);
        }
        Histogram hist(op);
        hist.ProcessData(&sel);
        std::cout << "legacy " << hist.getMin() << " " << hist.getMax() << " " << hist.getInterval();
        for (double p : hist.getPdf()) std::cout << " " << p;
        std::cout << std::endl;
      } else if (cmd == "legacyd") {
        // legacyd <cnt> v...   a DEFAULT-constructed legacy Histogram (options_t defaults) processes the data
        long cnt;
        in >> cnt;
        DataCollection<double> dc;
        DataCollection<double>::array *a = dc.CreateArray("a");
        for (long i = 0; i < cnt; ++i) {
          double v;
          in >> v;
          a->push_back(v);
        }
        DataCollection<double>::selection sel;
        sel.push_back(a);
        Histogram hist;
        hist.ProcessData(&sel);
        std::cout << "legacy " << hist.getMin() << " " << hist.getMax() << " " << hist.getInterval();
        for (double p : hist.getPdf()) std::cout << " " << p;
        std::cout << std::endl;
      } else if (cmd == "legacy") {
        // legacy <n> <auto> <min> <max> <periodic> <normalize> <count> v...
        Histogram::options_t op;
        int au, per, norm;
        long cnt;
        in >> op.n_ >> au >> op.min_ >> op.max_ >> per >> norm >> cnt;
        op.auto_interval_ = au;
        op.periodic_ = per;
        op.normalize_ = norm;
        op.scale_ = "no";
        DataCollection<double> dc;
        DataCollection<double>::array *a = dc.CreateArray("a");
        for (long i = 0; i < cnt; ++i) {
          double v;
          in >> v;
          a->push_back(v);
        }
        DataCollection<double>::selection sel;
        sel.push_back(a);
        Histogram hist(op);
        hist.ProcessData(&sel);
        std::cout << "legacy " << hist.getMin() << " " << hist.getMax() << " " << hist.getInterval();
        for (double p : hist.getPdf()) std::cout << " " << p;
        std::cout << std::endl;
      } else {
        std::cout << "err unknown command" << std::endl;
      }
    } catch (const std::exception &e) {
      std::cout << "exc " << e.what() << std::endl;
    }
  }
  return 0;
}
