# --- C15 classical multipole interactions (partial): eeInteractor on StaticSite/PolarSite/
# ClassicalSegment objects; the three xtp sources under test are compiled into the driver
# (classicalsegment.cc is not needed: only header templates of ClassicalSegment/AtomContainer are used).
verif_xtp_driver(drv_multipole ${D}/multipole.cc
  ${XTP_SRC}/eeinteractor.cc ${XTP_SRC}/staticsite.cc ${XTP_SRC}/polarsite.cc)
