// Conformance driver for spec/rangeglob (C18): a dumb executor of text commands
// against the real votca code:
//   tools::wildcmp (both overloads), csg::BeadList::Generate / GenerateInSphericalSubvolume,
//   csg::imcio_write_index / imcio_read_index, tools::Property::Select,
//   tools::RangeParser (Parse, iteration, operator<<), xtp::IndexParser.
// tokenizer.cc, rangeparser.cc and IndexParser.cc are compiled into this executable
// with assertions and ASan/UBSan on (see rangeglob.cmake); the const char* overload of
// wildcmp is called on exact-size heap buffers so that a read beyond the terminating
// NUL is reported.  Range iteration runs under a step budget: non-termination is
// reported as "nonterm", never a hang.
//
// Strings that may be empty are passed as tokens with a leading '='.
#include <cstring>
#include <iostream>
#include <memory>
#include <sstream>
#include <stdexcept>
#include <string>
#include <vector>

#include <votca/csg/beadlist.h>
#include <votca/csg/imcio.h>
#include <votca/csg/topology.h>
#include <votca/tools/property.h>
#include <votca/tools/rangeparser.h>
#include <votca/tools/tokenizer.h>
#include <votca/xtp/IndexParser.h>

using namespace votca;

static std::string Tok(const std::string &t) {
  if (t.empty() || t[0] != '=') throw std::runtime_error("driver: token without '=': " + t);
  return t.substr(1);
}

static std::unique_ptr<char[]> Exact(const std::string &s) {
  std::unique_ptr<char[]> b(new char[s.size() + 1]);
  std::memcpy(b.get(), s.c_str(), s.size() + 1);
  return b;
}

// iterate exactly like `for (Index i : rp)` but give up after `budget` values
static bool Iterate(tools::RangeParser &rp, long budget, std::vector<Index> &out) {
  tools::RangeParser::iterator it = rp.begin();
  while (it != rp.end()) {
    if (long(out.size()) >= budget) return false;
    out.push_back(*it);
    ++it;
  }
  return true;
}

static void PrintSeq(const char *tag, const std::vector<Index> &v, size_t limit) {
  std::cout << tag;
  for (size_t i = 0; i < v.size() && i < limit; ++i) std::cout << " " << v[i];
  std::cout << std::endl;
}

int main() {
  std::string line;
  long seq = 0;
  // objects that live across commands ("same object used twice"): the RangeParser of the
  // history commands hnew/hparse/hadd/hiter, and ONE IndexParser for all idx* commands
  std::unique_ptr<tools::RangeParser> hrp(new tools::RangeParser());
  xtp::IndexParser ip;
  while (std::getline(std::cin, line)) {
    ++seq;
    std::istringstream in(line);
    std::string cmd;
    in >> cmd;
    std::cout << "cmd " << seq << " " << line << std::endl;
    try {
      if (cmd == "wild") {
        // wild =<pattern> =<string> ...
        std::string t;
        in >> t;
        std::string pat = Tok(t);
        std::string c, s;
        while (in >> t) {
          std::string str = Tok(t);
          auto pb = Exact(pat);
          auto sb = Exact(str);
          c += tools::wildcmp(pb.get(), sb.get()) ? '1' : '0';
          s += tools::wildcmp(pat, str) ? '1' : '0';
        }
        std::cout << "c " << c << std::endl;
        std::cout << "s " << s << std::endl;
      } else if (cmd == "beads") {
        // beads =<select> =<type> =<name> =<type> =<name> ...
        std::string t, u;
        in >> t;
        std::string select = Tok(t);
        csg::Topology top;
        while (in >> t >> u) {
          std::string type = Tok(t), name = Tok(u);
          if (!top.BeadTypeExist(type)) top.RegisterBeadType(type);
          top.CreateBead(csg::Bead::spherical, name, type, 0, 1.0, 0.0);
        }
        csg::BeadList bl;
        Index n = bl.Generate(top, select);
        std::cout << "sel";
        for (const auto &b : bl) std::cout << " " << b->getId();
        std::cout << std::endl;
        std::cout << "count " << n << " " << bl.size() << std::endl;
      } else if (cmd == "beadsph") {
        // beadsph =<select> <L> <rx> <ry> <rz> <radius> then per bead: =<type> =<name> <x> <y> <z>
        std::string t, u;
        in >> t;
        std::string select = Tok(t);
        double L, radius;
        Eigen::Vector3d ref;
        in >> L >> ref[0] >> ref[1] >> ref[2] >> radius;
        csg::Topology top;
        top.setBox(L * Eigen::Matrix3d::Identity());
        double x, y, z;
        while (in >> t >> u >> x >> y >> z) {
          std::string type = Tok(t), name = Tok(u);
          if (!top.BeadTypeExist(type)) top.RegisterBeadType(type);
          csg::Bead *b = top.CreateBead(csg::Bead::spherical, name, type, 0, 1.0, 0.0);
          b->setPos(Eigen::Vector3d(x, y, z));
        }
        csg::BeadList bl;
        Index n = bl.GenerateInSphericalSubvolume(top, select, ref, radius);
        std::cout << "sel";
        for (const auto &b : bl) std::cout << " " << b->getId();
        std::cout << std::endl;
        std::cout << "count " << n << " " << bl.size() << std::endl;
      } else if (cmd == "imcwrite") {
        // imcwrite <file> <name> <expression without blanks> ...  : Parse each, imcio_write_index
        std::string file, name, expr;
        in >> file;
        std::vector<std::pair<std::string, tools::RangeParser>> ranges;
        while (in >> name >> expr) {
          tools::RangeParser rp;
          rp.Parse(expr);
          ranges.push_back(std::make_pair(name, rp));
        }
        csg::imcio_write_index(file, ranges);
        std::cout << "ok " << ranges.size() << std::endl;
      } else if (cmd == "imcread") {
        // imcread <budget> <file> : imcio_read_index, then every entry iterated to the end
        long budget;
        std::string file;
        in >> budget >> file;
        auto ranges = csg::imcio_read_index(file);
        std::cout << "entries " << ranges.size() << std::endl;
        for (auto &r : ranges) {
          std::vector<Index> out;
          bool done = Iterate(r.second, budget, out);
          std::cout << "entry " << r.first << (done ? " seq" : " nonterm");
          for (size_t i = 0; i < out.size() && (done || i < 12); ++i) std::cout << " " << out[i];
          std::cout << std::endl;
        }
      } else if (cmd == "propsel") {
        // propsel =<filter> C=<child> G=<grandchild> ... ; node values are their paths
        std::string t;
        in >> t;
        std::string filter = Tok(t);
        tools::Property root;
        tools::Property *child = nullptr;
        int ci = 0, gi = 0;
        while (in >> t) {
          if (t.size() < 2 || t[1] != '=') throw std::runtime_error("driver: bad tree token " + t);
          std::string name = t.substr(2);
          if (t[0] == 'C') {
            ++ci;
            gi = 0;
            child = &root.add(name, std::to_string(ci));
          } else {
            ++gi;
            if (!child) throw std::runtime_error("driver: grandchild without child");
            child->add(name, std::to_string(ci) + "." + std::to_string(gi));
          }
        }
        std::cout << "paths";
        for (tools::Property *p : root.Select(filter)) std::cout << " " << p->value();
        std::cout << std::endl;
        const tools::Property &croot = root;
        std::cout << "cpaths";
        for (const tools::Property *p : croot.Select(filter)) std::cout << " " << p->value();
        std::cout << std::endl;
      } else if (cmd == "range") {
        // range <budget> <expression, may contain blanks>
        long budget;
        in >> budget;
        std::string expr;
        std::getline(in, expr);
        if (!expr.empty() && expr[0] == ' ') expr.erase(0, 1);
        tools::RangeParser rp;
        bool accepted = true;
        try {
          rp.Parse(expr);
        } catch (const std::exception &e) {
          accepted = false;
          std::cout << "rejected " << e.what() << std::endl;
        }
        if (accepted) {
          std::vector<Index> out;
          if (!Iterate(rp, budget, out)) {
            PrintSeq("nonterm", out, 12);
          } else {
            PrintSeq("seq", out, out.size());
            std::ostringstream os;
            os << rp;
            std::cout << "printed " << os.str() << std::endl;
            tools::RangeParser rp2;
            try {
              rp2.Parse(os.str());
              std::vector<Index> out2;
              if (!Iterate(rp2, budget, out2)) {
                PrintSeq("renonterm", out2, 12);
              } else {
                PrintSeq("reseq", out2, out2.size());
              }
            } catch (const std::exception &e) {
              std::cout << "rerejected " << e.what() << std::endl;
            }
          }
        }
      } else if (cmd == "hnew") {
        hrp.reset(new tools::RangeParser());
        std::cout << "ok" << std::endl;
      } else if (cmd == "hparse") {
        // hparse <expression>   on the persistent object
        std::string expr;
        std::getline(in, expr);
        try {
          hrp->Parse(expr);
          std::cout << "accepted" << std::endl;
        } catch (const std::exception &e) {
          std::cout << "rejected " << e.what() << std::endl;
        }
      } else if (cmd == "hadd") {
        // hadd <begin> <end> <stride>   RangeParser::Add on the persistent object
        Index b, e, st;
        in >> b >> e >> st;
        try {
          hrp->Add(b, e, st);
          std::cout << "accepted" << std::endl;
        } catch (const std::exception &ex) {
          std::cout << "rejected " << ex.what() << std::endl;
        }
      } else if (cmd == "hiter") {
        // hiter <budget>: iterate the persistent object, print it, parse the text into a FRESH object
        long budget;
        in >> budget;
        std::vector<Index> out;
        if (!Iterate(*hrp, budget, out)) {
          PrintSeq("nonterm", out, 12);
        } else {
          PrintSeq("seq", out, out.size());
        }
        std::ostringstream os;
        os << *hrp;
        std::cout << "printed " << os.str() << std::endl;
        tools::RangeParser fresh;
        try {
          fresh.Parse(os.str());
          std::vector<Index> out2;
          if (!Iterate(fresh, budget, out2)) {
            PrintSeq("renonterm", out2, 12);
          } else {
            PrintSeq("reseq", out2, out2.size());
          }
        } catch (const std::exception &e) {
          std::cout << "rerejected " << e.what() << std::endl;
        }
      } else if (cmd == "idxstr") {
        // idxstr v1 v2 ...  -> CreateIndexString
        std::vector<Index> v;
        Index x;
        while (in >> x) v.push_back(x);
        std::cout << "str " << ip.CreateIndexString(v) << std::endl;
      } else if (cmd == "idxvec") {
        // idxvec <index string>  -> CreateIndexVector
        std::string text;
        std::getline(in, text);
        std::vector<Index> v = ip.CreateIndexVector(text);
        PrintSeq("vec", v, v.size());
      } else {
        std::cout << "err unknown command" << std::endl;
      }
    } catch (const std::exception &e) {
      std::cout << "exc " << e.what() << std::endl;
    }
  }
  return 0;
}
