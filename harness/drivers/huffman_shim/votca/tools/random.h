// C14 harness shim, placed BEFORE the repository's include directories for the drv_huffman
// target only: a drop-in votca::tools::Random whose draws can be scripted.  While no script is
// active it behaves exactly like the repository's class (std::mt19937 + the same
// distributions, same member names).  With an active script every rand_uniform() /
// rand_uniform_int() pops the next scripted value; a draw of the wrong kind or past the end of
// the script throws (reported by the driver as a result, it means the real code consumed
// random numbers in another order than the specification).
#ifndef VOTCA_TOOLS_RANDOM_H
#define VOTCA_TOOLS_RANDOM_H

#include <deque>
#include <random>
#include <stdexcept>
#include <string>
#include <utility>

#include <votca/tools/types.h>

namespace votca {
namespace tools {

struct VerifRandomScript {
  bool active = false;
  std::deque<std::pair<char, double>> q;  // ('u', value in [0,1)) or ('i', integer)
  long consumed = 0;
  Index maxint = -1;  // last setMaxInt argument
};
inline VerifRandomScript& verif_random_script() {
  static VerifRandomScript s;
  return s;
}

class Random {
 public:
  void init(Index seed) {
    if (seed < 0) {
      throw std::runtime_error("seed integer must be positive.");
    }
    mt_ = std::mt19937(unsigned(seed));
  }
  double rand_uniform() {
    VerifRandomScript& s = verif_random_script();
    if (!s.active) return distribution_(mt_);
    return pop('u');
  }
  void setMaxInt(Index maxint) {
    verif_random_script().maxint = maxint;
    int_distribution_ = std::uniform_int_distribution<Index>{0, maxint};
  }
  Index rand_uniform_int() {
    VerifRandomScript& s = verif_random_script();
    if (!s.active) return int_distribution_(mt_);
    return Index(pop('i'));
  }

 private:
  static double pop(char kind) {
    VerifRandomScript& s = verif_random_script();
    if (s.q.empty()) {
      throw std::runtime_error("verif-script: exhausted at draw " + std::to_string(s.consumed + 1) +
                               " (wanted " + std::string(1, kind) + ")");
    }
    if (s.q.front().first != kind) {
      throw std::runtime_error("verif-script: draw " + std::to_string(s.consumed + 1) + " is of kind " +
                               std::string(1, kind) + ", script has " + std::string(1, s.q.front().first));
    }
    double v = s.q.front().second;
    s.q.pop_front();
    ++s.consumed;
    return v;
  }
  std::mt19937 mt_;
  std::uniform_real_distribution<double> distribution_{0.0, 1.0};
  std::uniform_int_distribution<Index> int_distribution_;
};

}  // namespace tools
}  // namespace votca

#endif  // VOTCA_TOOLS_RANDOM_H
