// Conformance driver for spec/spline (property C12): a dumb executor of text commands
// against the real votca::tools::LinSpline / CubicSpline / AkimaSpline and Table.
// It keeps a table of spline objects ("slots") so that the output of one spline can
// be fed into another one (fit of sampled spline values) without leaving the real code.
//
//   new <slot> <lin|cubic|akima> <e0|e1|e2|i0|i1|i2>   e = setBC(enum), i = setBCInt(int)
//   bc <slot> <e0|e1|e2|i0|i1|i2>                      setBC / setBCInt on an EXISTING object (call histories)
//   interp <slot> <n> x1..xn y1..yn                    Spline::Interpolate
//   grid <slot> <min> <max> <h>                        Spline::GenerateGrid -> "grid n r0.."
//   setgrid <slot> <n> r1..rn                          getX() = r (non-uniform fit grids)
//   fit <slot> <n> x1..xn y1..yn                       Spline::Fit
//   fitfrom <slot> <src> <n> x1..xn                    y = src.Calculate(x); slot.Fit(x, y)
//   calc|der <slot> <n> r1..rn                         scalar Calculate/CalculateDerivative
//   calcv|derv <slot> <n> r1..rn                       Eigen::VectorXd overloads
//   ivl <slot> <n> r1..rn                              Spline::getInterval
//   tnew <n> x.. y.. flags(string of n chars)          Table::resize + set
//   tnewe <n> x.. y.. yerr.. flags                     the same with an error column (SetHasYErr)
//   tgrid <min> <max> <spacing>                        Table::GenerateGridSpacing
//   tsmooth <k> | tsave <path> | tload <path> | tdump  Table::Smooth/Save/Load, contents
#include <iostream>
#include <map>
#include <memory>
#include <sstream>
#include <stdexcept>
#include <string>
#include <vector>

#include <votca/tools/akimaspline.h>
#include <votca/tools/cubicspline.h>
#include <votca/tools/linspline.h>
#include <votca/tools/table.h>

using namespace votca;
using namespace votca::tools;

static Eigen::VectorXd readvec(std::istream &in, long n) {
  Eigen::VectorXd v(n);
  for (long i = 0; i < n; ++i) {
    double d;
    if (!(in >> d)) throw std::runtime_error("driver: short vector");
    v(i) = d;
  }
  return v;
}

static void printvec(const char *tag, const Eigen::VectorXd &v) {
  std::cout << tag;
  for (Index i = 0; i < v.size(); ++i) std::cout << " " << v(i);
  std::cout << std::endl;
}

int main() {
  std::map<std::string, std::unique_ptr<Spline>> slots;
  // slots whose last Interpolate/Fit threw: evaluating them would read unset coefficients
  std::map<std::string, bool> broken;
  Table tab;
  std::string line;
  long seq = 0;
  std::cout.precision(17);
  auto get = [&](const std::string &s) -> Spline & {
    auto it = slots.find(s);
    if (it == slots.end()) throw std::runtime_error("driver: no such slot " + s);
    return *it->second;
  };
  while (std::getline(std::cin, line)) {
    ++seq;
    std::istringstream in(line);
    std::string cmd;
    in >> cmd;
    std::cout << "cmd " << seq << " " << line << std::endl;
    try {
      if (cmd == "new") {
        std::string slot, type, bc;
        in >> slot >> type >> bc;
        std::unique_ptr<Spline> s;
        if (type == "lin") {
          s = std::make_unique<LinSpline>();
        } else if (type == "cubic") {
          s = std::make_unique<CubicSpline>();
        } else if (type == "akima") {
          s = std::make_unique<AkimaSpline>();
        } else {
          throw std::runtime_error("driver: unknown type");
        }
        int b = bc.at(1) - '0';
        if (bc[0] == 'e') {
          s->setBC(static_cast<Spline::eBoundary>(b));
        } else {
          s->setBCInt(b);
        }
        slots[slot] = std::move(s);
        std::cout << "ok" << std::endl;
      } else if (cmd == "bc") {
        std::string slot, bc;
        in >> slot >> bc;
        int b = bc.at(1) - '0';
        if (bc[0] == 'e') {
          get(slot).setBC(static_cast<Spline::eBoundary>(b));
        } else {
          get(slot).setBCInt(b);
        }
        std::cout << "ok" << std::endl;
      } else if (cmd == "interp" || cmd == "fit") {
        std::string slot;
        long n;
        in >> slot >> n;
        Eigen::VectorXd x = readvec(in, n), y = readvec(in, n);
        broken[slot] = true;
        if (cmd == "interp") {
          get(slot).Interpolate(x, y);
        } else {
          get(slot).Fit(x, y);
        }
        broken[slot] = false;
        std::cout << "ok" << std::endl;
      } else if (cmd == "fitfrom") {
        std::string slot, src;
        long n;
        in >> slot >> src >> n;
        Eigen::VectorXd x = readvec(in, n);
        if (broken[src]) throw std::runtime_error("driver: source spline was not built (its last call threw)");
        Eigen::VectorXd y = get(src).Calculate(x);
        broken[slot] = true;
        get(slot).Fit(x, y);
        broken[slot] = false;
        std::cout << "ok" << std::endl;
      } else if (cmd == "grid") {
        std::string slot;
        double mn, mx, h;
        in >> slot >> mn >> mx >> h;
        Index n = get(slot).GenerateGrid(mn, mx, h);
        std::cout << "grid " << n;
        const Eigen::VectorXd &r = get(slot).getX();
        for (Index i = 0; i < r.size(); ++i) std::cout << " " << r(i);
        std::cout << std::endl;
      } else if (cmd == "setgrid") {
        std::string slot;
        long n;
        in >> slot >> n;
        get(slot).getX() = readvec(in, n);
        std::cout << "ok" << std::endl;
      } else if (cmd == "calc" || cmd == "der" || cmd == "calcv" || cmd == "derv" || cmd == "ivl") {
        std::string slot;
        long n;
        in >> slot >> n;
        Eigen::VectorXd r = readvec(in, n);
        Spline &s = get(slot);
        if (broken[slot]) throw std::runtime_error("driver: spline was not built (its last call threw)");
        Eigen::VectorXd out(n);
        if (cmd == "calcv") {
          out = s.Calculate(r);
        } else if (cmd == "derv") {
          out = s.CalculateDerivative(r);
        } else {
          for (long i = 0; i < n; ++i) {
            if (cmd == "calc") {
              out(i) = s.Calculate(r(i));
            } else if (cmd == "der") {
              out(i) = s.CalculateDerivative(r(i));
            } else {
              out(i) = double(s.getInterval(r(i)));
            }
          }
        }
        printvec("val", out);
      } else if (cmd == "tnew") {
        long n;
        in >> n;
        Eigen::VectorXd x = readvec(in, n), y = readvec(in, n);
        std::string fl;
        in >> fl;
        tab = Table();
        tab.resize(n);
        for (long i = 0; i < n; ++i) tab.set(i, x(i), y(i), fl.at(i));
        std::cout << "ok" << std::endl;
      } else if (cmd == "tnewe") {
        long n;
        in >> n;
        Eigen::VectorXd x = readvec(in, n), y = readvec(in, n), e = readvec(in, n);
        std::string fl;
        in >> fl;
        tab = Table();
        tab.SetHasYErr(true);
        tab.resize(n);
        for (long i = 0; i < n; ++i) tab.set(i, x(i), y(i), fl.at(i), e(i));
        std::cout << "ok" << std::endl;
      } else if (cmd == "tgrid") {
        double mn, mx, sp;
        in >> mn >> mx >> sp;
        tab = Table();
        tab.GenerateGridSpacing(mn, mx, sp);
        std::cout << "grid " << tab.size();
        for (Index i = 0; i < tab.size(); ++i) std::cout << " " << tab.x(i);
        std::cout << std::endl;
      } else if (cmd == "tsmooth") {
        long k;
        in >> k;
        tab.Smooth(k);
        std::cout << "ok" << std::endl;
      } else if (cmd == "tsave") {
        std::string p;
        in >> p;
        tab.Save(p);
        std::cout << "ok" << std::endl;
      } else if (cmd == "tload") {
        std::string p;
        in >> p;
        tab = Table();
        tab.Load(p);
        std::cout << "ok" << std::endl;
      } else if (cmd == "tdump") {
        std::cout << "tab " << tab.size() << " x";
        for (Index i = 0; i < tab.size(); ++i) std::cout << " " << tab.x(i);
        std::cout << " y";
        for (Index i = 0; i < tab.size(); ++i) std::cout << " " << tab.y(i);
        std::cout << " f ";
        for (Index i = 0; i < tab.size(); ++i) {
          char c = tab.flags(i);
          std::cout << ((c == '\0' || c == ' ') ? '_' : c);
        }
        if (tab.GetHasYErr()) {
          std::cout << " e";
          for (Index i = 0; i < tab.size(); ++i) std::cout << " " << tab.yerr(i);
        }
        std::cout << std::endl;
      } else {
        std::cout << "err unknown command" << std::endl;
      }
    } catch (const std::exception &e) {
      std::cout << "exc " << e.what() << std::endl;
    } catch (const char *msg) {
      std::cout << "exc " << msg << std::endl;
    }
  }
  return 0;
}
