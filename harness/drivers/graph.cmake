# --- C16 graph algorithms / BeadStructure: the sources under test are compiled into the
# driver with assertions + sanitizers on (asserts in Graph::Graph/setNode, .at() range checks)
set(_T ${VERIF_REPO}/tools/src/libtools)
set(_C ${VERIF_REPO}/csg/src/libcsg)
verif_driver(drv_graph ${D}/graph.cc
  ${_T}/graph.cc ${_T}/graphalgorithm.cc ${_T}/graphvisitor.cc ${_T}/graph_bf_visitor.cc
  ${_T}/graph_df_visitor.cc ${_T}/graphdistvisitor.cc ${_T}/reducedgraph.cc ${_T}/reducededge.cc
  ${_T}/edgecontainer.cc ${_T}/edge.cc ${_T}/graphnode.cc
  ${_C}/beadstructure.cc ${_C}/beadstructurealgorithms.cc
  ${_C}/beadmotif.cc ${_C}/beadmotifalgorithms.cc ${_C}/beadmotifconnector.cc)
verif_sanitize(drv_graph)
