# --- C09 Davidson eigensolver: the real DavidsonSolver (davidsonsolver.cc) and MatrixFreeOperator
# (matrixfreeoperator.cc) are compiled into the driver; HamiltonianOperator is header code
# (bseoperator_btda.h; its include of bse_operator.h, which needs libint, is skipped by
# pre-defining that header's guard in the driver).  Same flags as the verif build (-O3 -DNDEBUG).
verif_xtp_driver(drv_davidson ${D}/davidson.cc ${XTP_SRC}/davidsonsolver.cc ${XTP_SRC}/matrixfreeoperator.cc)
