// Conformance driver for spec/pbc (C02): executes text commands against the real
// votca::csg::Topology boundary-condition entry points and prints what it observes.
//   box <auto|tric|ortho|open> m00 m01 m02 m10 m11 m12 m20 m21 m22   (row major; columns = box vectors)
//        -> Topology::setBox(m, type);  prints getBoxType(), BoxVolume(), getBox()
//   newtop -> a fresh Topology (two beads);  setbox <type> <9 reals> -> setBox on the CURRENT
//        Topology (histories of setBox calls on one object);  box = newtop + setbox
//   cleanup -> Topology::Cleanup() (drops beads, boundary becomes open); the two beads are re-created
//   copies p1 p2 -> the same probe answered by (1) the Topology, (2) a BoundaryCondition::Clone()
//        of its boundary, (3) a second Topology filled by CopyTopologyData: type, volume, stored
//        matrix, shortest height (periodic types) and BCShortestConnection(p1,p2)
//   bcnew <open|ortho|tric> <new|top> <9 reals> -> a held BoundaryCondition object `o` of that class:
//        constructed directly and setBox(m), or Clone() of the boundary of a Topology given the box
//   bcset <o|c> <9 reals> -> BoundaryCondition::setBox(m) on the held object;  bcclone -> c = o->Clone()
//   bcquery <o|c> <n> {p1 p2}*n -> getBoxType, BoxVolume, getBox, getShortestBoxDimension (periodic
//        classes) and BCShortestConnection(p1,p2) / (p2,p1) of the held object
//   short -> Topology::ShortestBoxSize()
//   pair x1 y1 z1 x2 y2 z2
//        -> f = BCShortestConnection(p1,p2), b = BCShortestConnection(p2,p1),
//           g = getDist(bead0,bead1) with the two beads placed at p1,p2
// No expectation is computed here.
#include <cstring>
#include <iostream>
#include <memory>
#include <sstream>
#include <stdexcept>
#include <string>

#include <votca/csg/bead.h>
#include <votca/csg/boundarycondition.h>
#include <votca/csg/molecule.h>
#include <votca/csg/topology.h>

using namespace votca;
using namespace votca::csg;

static const char *tname(BoundaryCondition::eBoxtype t) {
  switch (t) {
    case BoundaryCondition::typeAuto:
      return "auto";
    case BoundaryCondition::typeTriclinic:
      return "tric";
    case BoundaryCondition::typeOrthorhombic:
      return "ortho";
    case BoundaryCondition::typeOpen:
      return "open";
  }
  return "?";
}

int main() {
  std::string line;
  long seq = 0;
  std::cout.precision(17);
  std::unique_ptr<Topology> top;
  Bead *b0 = nullptr, *b1 = nullptr;
  std::unique_ptr<BoundaryCondition> bco, bcc;
  auto readm = [](std::istringstream &is) {
    Eigen::Matrix3d m;
    for (int i = 0; i < 3; ++i)
      for (int j = 0; j < 3; ++j) is >> m(i, j);
    if (!is) throw std::runtime_error("driver: short matrix");
    return m;
  };
  // beads 2,3 in one molecule, bead 4 in another: getDist must not depend on molecule membership
  auto mkmols = [](Topology &t) {
    Bead *m0 = t.CreateBead(Bead::spherical, "m0", "A", 1, 1.0, 0.0);
    Bead *m1 = t.CreateBead(Bead::spherical, "m1", "A", 1, 1.0, 0.0);
    Bead *n0 = t.CreateBead(Bead::spherical, "n0", "A", 2, 1.0, 0.0);
    Molecule *ma = t.CreateMolecule("MA");
    ma->AddBead(m0, "m0");
    ma->AddBead(m1, "m1");
    Molecule *mb = t.CreateMolecule("MB");
    mb->AddBead(n0, "n0");
  };
  while (std::getline(std::cin, line)) {
    ++seq;
    std::istringstream in(line);
    std::string cmd;
    in >> cmd;
    std::cout << "cmd " << seq << " " << line << std::endl;
    try {
      if (cmd == "newtop") {
        top.reset(new Topology());
        top->RegisterBeadType("A");
        b0 = top->CreateBead(Bead::spherical, "a0", "A", 0, 1.0, 0.0);
        b1 = top->CreateBead(Bead::spherical, "a1", "A", 0, 1.0, 0.0);
        mkmols(*top);
        std::cout << "ok" << std::endl;
      } else if (cmd == "box" || cmd == "setbox") {
        std::string req;
        in >> req;
        Eigen::Matrix3d m;
        for (int i = 0; i < 3; ++i)
          for (int j = 0; j < 3; ++j) in >> m(i, j);
        BoundaryCondition::eBoxtype t;
        if (req == "auto")
          t = BoundaryCondition::typeAuto;
        else if (req == "tric")
          t = BoundaryCondition::typeTriclinic;
        else if (req == "ortho")
          t = BoundaryCondition::typeOrthorhombic;
        else if (req == "open")
          t = BoundaryCondition::typeOpen;
        else
          throw std::runtime_error("driver: unknown box type " + req);
        if (cmd == "box" || !top) {
          top.reset(new Topology());
          top->RegisterBeadType("A");
          b0 = top->CreateBead(Bead::spherical, "a0", "A", 0, 1.0, 0.0);
          b1 = top->CreateBead(Bead::spherical, "a1", "A", 0, 1.0, 0.0);
          mkmols(*top);
        }
        if (req == "auto")
          top->setBox(m);  // default argument = typeAuto
        else
          top->setBox(m, t);
        std::cout << "type " << tname(top->getBoxType()) << " vol " << top->BoxVolume() << " box";
        const Eigen::Matrix3d &g = top->getBox();
        for (int i = 0; i < 3; ++i)
          for (int j = 0; j < 3; ++j) std::cout << " " << g(i, j);
        std::cout << std::endl;
      } else if (cmd == "cleanup") {
        top->Cleanup();
        top->RegisterBeadType("A");
        b0 = top->CreateBead(Bead::spherical, "a0", "A", 0, 1.0, 0.0);
        b1 = top->CreateBead(Bead::spherical, "a1", "A", 0, 1.0, 0.0);
        mkmols(*top);
        std::cout << "type " << tname(top->getBoxType()) << std::endl;
      } else if (cmd == "copies") {
        Eigen::Vector3d p1, p2;
        int withbox = 1;
        in >> p1[0] >> p1[1] >> p1[2] >> p2[0] >> p2[1] >> p2[2] >> withbox;
        auto show = [&](const char *who, BoundaryCondition::eBoxtype t, double vol, const Eigen::Matrix3d &g,
                        double sh, const Eigen::Vector3d &f) {
          std::cout << who << " " << tname(t);
          if (withbox) {
            std::cout << " " << vol;
            for (int i = 0; i < 3; ++i)
              for (int j = 0; j < 3; ++j) std::cout << " " << g(i, j);
            std::cout << " " << sh;
          }
          std::cout << " " << f[0] << " " << f[1] << " " << f[2] << std::endl;
        };
        bool per = top->getBoxType() != BoundaryCondition::typeOpen;
        show("orig", top->getBoxType(), top->BoxVolume(), top->getBox(), per ? top->ShortestBoxSize() : 0.0,
             top->BCShortestConnection(p1, p2));
        std::unique_ptr<BoundaryCondition> c = top->getBoundary().Clone();
        bool cper = c->getBoxType() != BoundaryCondition::typeOpen;
        show("clone", c->getBoxType(), c->BoxVolume(), c->getBox(), cper ? c->getShortestBoxDimension() : 0.0,
             c->BCShortestConnection(p1, p2));
        Topology t2;
        t2.CopyTopologyData(top.get());
        bool tper = t2.getBoxType() != BoundaryCondition::typeOpen;
        show("copy", t2.getBoxType(), t2.BoxVolume(), t2.getBox(), tper ? t2.ShortestBoxSize() : 0.0,
             t2.BCShortestConnection(p1, p2));
        std::cout << "copybeads " << t2.BeadCount() << std::endl;
      } else if (cmd == "bcnew") {
        std::string cls, how;
        in >> cls >> how;
        Eigen::Matrix3d m = readm(in);
        bcc.reset();
        if (how == "new") {
          if (cls == "open")
            bco.reset(new OpenBox());
          else if (cls == "ortho")
            bco.reset(new OrthorhombicBox());
          else if (cls == "tric")
            bco.reset(new TriclinicBox());
          else
            throw std::runtime_error("driver: unknown class " + cls);
          bco->setBox(m);
        } else {
          Topology t;
          t.setBox(m, cls == "open" ? BoundaryCondition::typeOpen
                                    : cls == "ortho" ? BoundaryCondition::typeOrthorhombic
                                                     : BoundaryCondition::typeTriclinic);
          bco = t.getBoundary().Clone();
        }
        std::cout << "ok" << std::endl;
      } else if (cmd == "bcset") {
        std::string x;
        in >> x;
        Eigen::Matrix3d m = readm(in);
        BoundaryCondition *bc = x == "o" ? bco.get() : bcc.get();
        if (!bc) throw std::runtime_error("driver: no such object");
        bc->setBox(m);
        std::cout << "ok" << std::endl;
      } else if (cmd == "bcclone") {
        if (!bco) throw std::runtime_error("driver: no object");
        bcc = bco->Clone();
        std::cout << "ok" << std::endl;
      } else if (cmd == "bcquery") {
        std::string x;
        int n;
        in >> x >> n;
        BoundaryCondition *bc = x == "o" ? bco.get() : bcc.get();
        if (!bc) throw std::runtime_error("driver: no such object");
        std::cout << "type " << tname(bc->getBoxType()) << " vol " << bc->BoxVolume() << " box";
        const Eigen::Matrix3d &g = bc->getBox();
        for (int i = 0; i < 3; ++i)
          for (int j = 0; j < 3; ++j) std::cout << " " << g(i, j);
        std::cout << std::endl;
        if (bc->getBoxType() != BoundaryCondition::typeOpen)
          std::cout << "short " << bc->getShortestBoxDimension() << std::endl;
        for (int k = 0; k < n; ++k) {
          Eigen::Vector3d p1, p2;
          in >> p1[0] >> p1[1] >> p1[2] >> p2[0] >> p2[1] >> p2[2];
          if (!in) throw std::runtime_error("driver: short probe list");
          Eigen::Vector3d f = bc->BCShortestConnection(p1, p2);
          Eigen::Vector3d b = bc->BCShortestConnection(p2, p1);
          std::cout << "f " << f[0] << " " << f[1] << " " << f[2] << " b " << b[0] << " " << b[1] << " " << b[2]
                    << " g " << f[0] << " " << f[1] << " " << f[2] << std::endl;
        }
      } else if (cmd == "short") {
        std::cout << "short " << top->ShortestBoxSize() << std::endl;
      } else if (cmd == "pair") {
        Eigen::Vector3d p1, p2;
        in >> p1[0] >> p1[1] >> p1[2] >> p2[0] >> p2[1] >> p2[2];
        Eigen::Vector3d f = top->BCShortestConnection(p1, p2);
        Eigen::Vector3d b = top->BCShortestConnection(p2, p1);
        b0->setPos(p1);
        b1->setPos(p2);
        Eigen::Vector3d g = top->getDist(0, 1);
        // the same two points as beads of ONE molecule (2,3) and of two different molecules (2,4): the first answer
        // that differs bitwise from the free beads' one is reported in its place, with its name as a trailing token
        const char *who = "free";
        top->getBead(2)->setPos(p1);
        top->getBead(3)->setPos(p2);
        top->getBead(4)->setPos(p2);
        Eigen::Vector3d gm = top->getDist(2, 3), gx = top->getDist(2, 4);
        auto same = [](const Eigen::Vector3d &u, const Eigen::Vector3d &v) {
          return std::memcmp(u.data(), v.data(), 3 * sizeof(double)) == 0;
        };
        if (!same(gm, g)) {
          g = gm;
          who = "same-molecule";
        } else if (!same(gx, g)) {
          g = gx;
          who = "two-molecules";
        }
        std::cout << "f " << f[0] << " " << f[1] << " " << f[2] << " b " << b[0] << " " << b[1] << " " << b[2]
                  << " g " << g[0] << " " << g[1] << " " << g[2] << " beads " << who << std::endl;
      } else {
        std::cout << "err unknown command" << std::endl;
      }
    } catch (const std::exception &e) {
      std::cout << "exc " << e.what() << std::endl;
    }
  }
  return 0;
}
