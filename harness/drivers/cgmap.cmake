# --- C01 coarse-grained mapping: CGEngine::LoadMoleculeType/CreateCGTopology + TopologyMap::Apply
# (see drivers/cgmap.cc)
verif_driver(drv_cgmap ${D}/cgmap.cc)
