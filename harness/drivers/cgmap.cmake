# --- C01 coarse-grained mapping: CGEngine::LoadMoleculeType/CreateCGTopology + TopologyMap::Apply
# (see drivers/cgmap.cc)
verif_driver(drv_cgmap ${D}/cgmap.cc)
# executable-level: a minimal threaded CsgApplication with mapping that dumps what every worker
# evaluates (see drivers/cgapp.cc)
verif_driver(drv_cgapp ${D}/cgapp.cc)
