// Conformance driver for spec/nbgrid (property C03): a dumb executor of text commands against
// the real csg::Topology / BeadList / NBListGrid / NBList / NBListGrid_3Body / NBList_3Body /
// ExclusionList.  All coordinates come in as lattice integers (units of 1/8 nm, exactly
// representable), the cutoff as rc^2 in lattice units^2 (cutoff = sqrt(rc2)/8 nm).
//
//   top ax bx by cx cy cz         new topology, box columns a=(ax,0,0) b=(bx,by,0) c=(cx,cy,cz)
//   bead <type> <mol> x y z       add a bead (ids 0,1,..) of type A|B|C to molecule <mol> (0-based)
//   ia <k> i1 .. ik               add a bonded interaction (k=2 bond, 3 angle, 4 dihedral), 0-based ids
//   rebuild                       Topology::RebuildExclusions()
//   pair <grid|simple> <rc2> <excl> <sel1> [<sel2>]     pair search; one list (Generate(list)) or two
//   tri  <grid|simple> <rc2> <excl> <sel1> [<sel2> [<sel3>]]
//   grid <rc2>                    cells per direction and cell index of every bead (NBListGrid internals)
//   xins i j | xrem i j | xexl i.. | xreml i.. | xinsl b i.. | xcreate | xq     ExclusionList calls
//
// pair prints  "calls <n> f s rx ry rz d ..."  (every invocation of the match callback, in order)
//         and  "stored <n> f s rx ry rz d ..." (the pair list afterwards);
// tri  prints  "calls <n>" and "stored <n> i j k d12 d13 ...".
// The neighbour-list sources are compiled into this executable with assertions and sanitizers.
#include <cmath>
#include <iostream>
#include <list>
#include <memory>
#include <sstream>
#include <stdexcept>
#include <string>
#include <vector>

#include <votca/csg/bead.h>
#include <votca/csg/beadlist.h>
#include <votca/csg/exclusionlist.h>
#include <votca/csg/interaction.h>
#include <votca/csg/molecule.h>
#include <votca/csg/nblist.h>
#include <votca/csg/nblist_3body.h>
#include <votca/csg/nblistgrid.h>
#include <votca/csg/nblistgrid_3body.h>
#include <votca/csg/topology.h>

using namespace votca;
using namespace votca::csg;

namespace {

struct PairCall {
  Index f, s;
  Eigen::Vector3d r;
  double d;
};

struct PairCounter {
  std::vector<PairCall> calls;
  bool Found(Bead *b1, Bead *b2, const Eigen::Vector3d &r, double d) {
    calls.push_back({b1->getId(), b2->getId(), r, d});
    return true;
  }
};

struct TripleCounter {
  long calls = 0;
  bool Found(Bead *, Bead *, Bead *, const Eigen::Vector3d &,
             const Eigen::Vector3d &, const Eigen::Vector3d &, const double,
             const double, const double) {
    ++calls;
    return true;
  }
};

// exposes the grid geometry of NBListGrid (protected members) for the transcription check
class GridProbe : public NBListGrid {
 public:
  void Probe(Topology &top, std::ostream &out) {
    InitializeGrid(top.getBox());
    out << "grid " << box_Na_ << " " << box_Nb_ << " " << box_Nc_;
    for (auto &bead : top.Beads()) {
      cell_t *c = &getCell(bead.getPos());
      Index found = -1;
      for (Index a = 0; a < box_Na_; ++a)
        for (Index b = 0; b < box_Nb_; ++b)
          for (Index cc = 0; cc < box_Nc_; ++cc)
            if (&grid_(a, b, cc) == c) found = a + 10 * b + 100 * cc;
      out << " " << found;
    }
    out << std::endl;
  }
};

void printVec(std::ostream &out, const Eigen::Vector3d &r) {
  out << " " << r.x() << " " << r.y() << " " << r.z();
}

}  // namespace

int main() {
  std::string line;
  std::unique_ptr<Topology> top;
  std::vector<Molecule *> mols;
  long seq = 0;
  std::cout.precision(17);
  while (std::getline(std::cin, line)) {
    ++seq;
    std::istringstream in(line);
    std::string cmd;
    in >> cmd;
    std::cout << "cmd " << seq << " " << line << std::endl;
    try {
      if (cmd == "top") {
        double ax, bx, by, cx, cy, cz;
        in >> ax >> bx >> by >> cx >> cy >> cz;
        top.reset(new Topology());
        mols.clear();
        Eigen::Matrix3d box = Eigen::Matrix3d::Zero();
        box(0, 0) = ax / 8.0;
        box(0, 1) = bx / 8.0;
        box(1, 1) = by / 8.0;
        box(0, 2) = cx / 8.0;
        box(1, 2) = cy / 8.0;
        box(2, 2) = cz / 8.0;
        top->setBox(box);
        top->RegisterBeadType("A");
        top->RegisterBeadType("B");
        top->RegisterBeadType("C");
        top->CreateResidue("RES");
        std::cout << "ok boxtype " << int(top->getBoxType()) << std::endl;
      } else if (cmd == "bead") {
        std::string type;
        Index mol;
        double x, y, z;
        in >> type >> mol >> x >> y >> z;
        while (Index(mols.size()) <= mol) {
          mols.push_back(top->CreateMolecule("M" + std::to_string(mols.size())));
        }
        Bead *b = top->CreateBead(Bead::spherical, "b" + std::to_string(top->BeadCount()), type, 0, 1.0, 0.0);
        b->setPos(Eigen::Vector3d(x / 8.0, y / 8.0, z / 8.0));
        mols[mol]->AddBead(b, b->getName());
        std::cout << "ok " << b->getId() << " mol " << b->getMoleculeId() << std::endl;
      } else if (cmd == "ia") {
        Index k;
        in >> k;
        std::list<Index> ids;
        for (Index i = 0; i < k; ++i) {
          Index id;
          in >> id;
          ids.push_back(id);
        }
        Interaction *ia = nullptr;
        if (k == 2) {
          ia = new IBond(ids);
        } else if (k == 3) {
          ia = new IAngle(ids);
        } else if (k == 4) {
          ia = new IDihedral(ids);
        } else {
          throw std::runtime_error("driver: interaction size");
        }
        ia->setGroup("g" + std::to_string(k));
        ia->setIndex(top->BondedInteractions().size());
        ia->setMolecule(top->getBead(ids.front())->getMoleculeId());
        top->AddBondedInteraction(ia);
        std::cout << "ok" << std::endl;
      } else if (cmd == "rebuild" || cmd == "xcreate") {
        top->RebuildExclusions();
        std::cout << "ok" << std::endl;
      } else if (cmd == "pair") {
        std::string algo;
        long rc2;
        int excl;
        in >> algo >> rc2 >> excl;
        std::vector<std::string> sel;
        std::string s;
        while (in >> s) sel.push_back(s);
        std::unique_ptr<NBList> nb;
        if (algo == "grid") {
          nb.reset(new NBListGrid());
        } else {
          nb.reset(new NBList());
        }
        nb->setCutoff(std::sqrt(double(rc2)) / 8.0);
        PairCounter cnt;
        nb->SetMatchFunction(&cnt, &PairCounter::Found);
        BeadList l1, l2;
        l1.Generate(*top, sel.at(0));
        if (sel.size() == 1) {
          nb->Generate(l1, excl != 0);
        } else {
          l2.Generate(*top, sel.at(1));
          nb->Generate(l1, l2, excl != 0);
        }
        std::cout << "calls " << cnt.calls.size();
        for (auto &c : cnt.calls) {
          std::cout << " " << c.f << " " << c.s;
          printVec(std::cout, c.r);
          std::cout << " " << c.d;
        }
        std::cout << std::endl;
        std::cout << "stored " << nb->size();
        for (BeadPair *p : *nb) {
          std::cout << " " << p->first()->getId() << " " << p->second()->getId();
          printVec(std::cout, p->r());
          std::cout << " " << p->dist();
        }
        std::cout << std::endl;
      } else if (cmd == "tri") {
        std::string algo;
        long rc2;
        int excl;
        in >> algo >> rc2 >> excl;
        std::vector<std::string> sel;
        std::string s;
        while (in >> s) sel.push_back(s);
        std::unique_ptr<NBList_3Body> nb;
        if (algo == "grid") {
          nb.reset(new NBListGrid_3Body());
        } else {
          nb.reset(new NBList_3Body());
        }
        nb->setCutoff(std::sqrt(double(rc2)) / 8.0);
        TripleCounter cnt;
        nb->SetMatchFunction(&cnt, &TripleCounter::Found);
        BeadList l1, l2, l3;
        l1.Generate(*top, sel.at(0));
        if (sel.size() == 1) {
          nb->Generate(l1, excl != 0);
        } else if (sel.size() == 2) {
          l2.Generate(*top, sel.at(1));
          nb->Generate(l1, l2, excl != 0);
        } else {
          l2.Generate(*top, sel.at(1));
          l3.Generate(*top, sel.at(2));
          nb->Generate(l1, l2, l3, excl != 0);
        }
        std::cout << "calls " << cnt.calls << std::endl;
        std::cout << "stored " << nb->size();
        for (BeadTriple *t : *nb) {
          std::cout << " " << t->bead1()->getId() << " " << t->bead2()->getId() << " " << t->bead3()->getId() << " "
                    << t->dist12() << " " << t->dist13();
        }
        std::cout << std::endl;
      } else if (cmd == "grid") {
        long rc2;
        in >> rc2;
        GridProbe g;
        g.setCutoff(std::sqrt(double(rc2)) / 8.0);
        g.Probe(*top, std::cout);
      } else if (cmd == "xins" || cmd == "xrem") {
        Index i, j;
        in >> i >> j;
        if (cmd == "xins") {
          top->getExclusions().InsertExclusion(top->getBead(i), top->getBead(j));
        } else {
          top->getExclusions().RemoveExclusion(top->getBead(i), top->getBead(j));
        }
        std::cout << "ok" << std::endl;
      } else if (cmd == "xexl" || cmd == "xreml" || cmd == "xinsl") {
        std::list<Bead *> l;
        Index i;
        while (in >> i) l.push_back(top->getBead(i));
        if (cmd == "xexl") {
          top->getExclusions().ExcludeList(l);
        } else if (cmd == "xreml") {
          top->getExclusions().Remove(l);
        } else {
          Bead *b = l.front();
          l.pop_front();
          top->InsertExclusion(b, l);
        }
        std::cout << "ok" << std::endl;
      } else if (cmd == "xq") {
        // the whole IsExcluded relation, both argument orders and the diagonal
        std::cout << "excl";
        Index n = top->BeadCount();
        for (Index i = 0; i < n; ++i) {
          for (Index j = 0; j < n; ++j) {
            if (top->getExclusions().IsExcluded(top->getBead(i), top->getBead(j))) {
              std::cout << " " << i << " " << j;
            }
          }
        }
        std::cout << std::endl;
      } else {
        std::cout << "err unknown command" << std::endl;
      }
    } catch (const std::exception &e) {
      std::cout << "exc " << e.what() << std::endl;
    }
  }
  return 0;
}
