// Conformance driver for spec/nbgrid (property C03): a dumb executor of text commands against
// the real csg::Topology / BeadList / NBListGrid / NBList / NBListGrid_3Body / NBList_3Body /
// ExclusionList.  All coordinates come in as lattice integers (units of 1/8 nm, exactly
// representable), the cutoff as rc^2 in lattice units^2 (cutoff = sqrt(rc2)/8 nm).
//
//   top ax bx by cx cy cz         new topology, box columns a=(ax,0,0) b=(bx,by,0) c=(cx,cy,cz)
//   bead <type> <mol> x y z       add a bead (ids 0,1,..) of type A|B|C to molecule <mol> (0-based)
//   ia <k> i1 .. ik               add a bonded interaction (k=2 bond, 3 angle, 4 dihedral), 0-based ids
//   rebuild                       Topology::RebuildExclusions()
//   pair <grid|simple> <rc2> <excl> <sel1> [<sel2>]     pair search; one list (Generate(list)) or two
//   tri  <grid|simple> <rc2> <excl> <sel1> [<sel2> [<sel3>]]
//   grid <rc2>                    cells per direction and cell index of every bead (NBListGrid internals)
//   xins i j | xrem i j | xexl i.. | xreml i.. | xinsl b i.. | xcreate | xq     ExclusionList calls
// object re-use (spec/nbgrid/NbHist.tla): ONE list object lives across commands
//   obj new <pair|tri> <grid|simple> | obj cut <rc2> | obj gen <excl> <sel1> [<sel2> [<sel3>]] | obj clean
//   setbox ax bx by cx cy cz | setpos i x y z          change the frame of the current topology
// topology substrate (spec/topology/Topology.tla): two topologies, w = 0 (under test) / 1 (copy source)
//   t <w> new | res <name> | bead <name> <type> <resnr> | mol <name> | add <mol> <bead> | ia <grp> <k> ids..
//   t <w> rebuild | box ax bx by cx cy cz <auto|ortho|tric|open> | cleanup | copy | rename <range> <name> | q
//   q prints the whole observable state as one JSON object
//
// pair prints  "calls <n> f s rx ry rz d ..."  (every invocation of the match callback, in order)
//         and  "stored <n> f s rx ry rz d ..." (the pair list afterwards);
// tri  prints  "calls <n>" and "stored <n> i j k d12 d13 ...".
// The neighbour-list sources are compiled into this executable with assertions and sanitizers.
#include <cmath>
#include <iostream>
#include <list>
#include <memory>
#include <sstream>
#include <stdexcept>
#include <string>
#include <vector>

#include <votca/csg/bead.h>
#include <votca/csg/beadlist.h>
#include <votca/csg/exclusionlist.h>
#include <votca/csg/interaction.h>
#include <votca/csg/molecule.h>
#include <votca/csg/nblist.h>
#include <votca/csg/nblist_3body.h>
#include <votca/csg/nblistgrid.h>
#include <votca/csg/nblistgrid_3body.h>
#include <votca/csg/topology.h>

using namespace votca;
using namespace votca::csg;

namespace {

struct PairCall {
  Index f, s;
  Eigen::Vector3d r;
  double d;
};

struct PairCounter {
  std::vector<PairCall> calls;
  bool Found(Bead *b1, Bead *b2, const Eigen::Vector3d &r, double d) {
    calls.push_back({b1->getId(), b2->getId(), r, d});
    return true;
  }
};

struct TripleCounter {
  long calls = 0;
  bool Found(Bead *, Bead *, Bead *, const Eigen::Vector3d &,
             const Eigen::Vector3d &, const Eigen::Vector3d &, const double,
             const double, const double) {
    ++calls;
    return true;
  }
};

// exposes the grid geometry of NBListGrid (protected members) for the transcription check
class GridProbe : public NBListGrid {
 public:
  void Probe(Topology &top, std::ostream &out) {
    InitializeGrid(top.getBox());
    out << "grid " << box_Na_ << " " << box_Nb_ << " " << box_Nc_;
    for (auto &bead : top.Beads()) {
      cell_t *c = &getCell(bead.getPos());
      Index found = -1;
      for (Index a = 0; a < box_Na_; ++a)
        for (Index b = 0; b < box_Nb_; ++b)
          for (Index cc = 0; cc < box_Nc_; ++cc)
            if (&grid_(a, b, cc) == c) found = a + 10 * b + 100 * cc;
      out << " " << found;
    }
    out << std::endl;
  }
};

void printVec(std::ostream &out, const Eigen::Vector3d &r) {
  out << " " << r.x() << " " << r.y() << " " << r.z();
}

}  // namespace

int main() {
  std::string line;
  std::unique_ptr<Topology> top;
  std::vector<Molecule *> mols;
  long seq = 0;
  // the re-used list object and its counters
  std::unique_ptr<NBList> pobj;
  std::unique_ptr<NBList_3Body> tobj;
  PairCounter pcnt;
  TripleCounter tcnt;
  // second topology (source of CopyTopologyData)
  std::unique_ptr<Topology> src;
  std::cout.precision(17);
  while (std::getline(std::cin, line)) {
    ++seq;
    std::istringstream in(line);
    std::string cmd;
    in >> cmd;
    std::cout << "cmd " << seq << " " << line << std::endl;
    try {
      if (cmd == "top") {
        double ax, bx, by, cx, cy, cz;
        in >> ax >> bx >> by >> cx >> cy >> cz;
        pobj.reset();
        tobj.reset();
        top.reset(new Topology());
        mols.clear();
        Eigen::Matrix3d box = Eigen::Matrix3d::Zero();
        box(0, 0) = ax / 8.0;
        box(0, 1) = bx / 8.0;
        box(1, 1) = by / 8.0;
        box(0, 2) = cx / 8.0;
        box(1, 2) = cy / 8.0;
        box(2, 2) = cz / 8.0;
        top->setBox(box);
        top->RegisterBeadType("A");
        top->RegisterBeadType("B");
        top->RegisterBeadType("C");
        top->CreateResidue("RES");
        std::cout << "ok boxtype " << int(top->getBoxType()) << std::endl;
      } else if (cmd == "bead") {
        std::string type;
        Index mol;
        double x, y, z;
        in >> type >> mol >> x >> y >> z;
        while (Index(mols.size()) <= mol) {
          mols.push_back(top->CreateMolecule("M" + std::to_string(mols.size())));
        }
        Bead *b = top->CreateBead(Bead::spherical, "b" + std::to_string(top->BeadCount()), type, 0, 1.0, 0.0);
        b->setPos(Eigen::Vector3d(x / 8.0, y / 8.0, z / 8.0));
        mols[mol]->AddBead(b, b->getName());
        std::cout << "ok " << b->getId() << " mol " << b->getMoleculeId() << std::endl;
      } else if (cmd == "ia") {
        Index k;
        in >> k;
        std::list<Index> ids;
        for (Index i = 0; i < k; ++i) {
          Index id;
          in >> id;
          ids.push_back(id);
        }
        Interaction *ia = nullptr;
        if (k == 2) {
          ia = new IBond(ids);
        } else if (k == 3) {
          ia = new IAngle(ids);
        } else if (k == 4) {
          ia = new IDihedral(ids);
        } else {
          throw std::runtime_error("driver: interaction size");
        }
        ia->setGroup("g" + std::to_string(k));
        ia->setIndex(top->BondedInteractions().size());
        ia->setMolecule(top->getBead(ids.front())->getMoleculeId());
        top->AddBondedInteraction(ia);
        std::cout << "ok" << std::endl;
      } else if (cmd == "rebuild" || cmd == "xcreate") {
        top->RebuildExclusions();
        std::cout << "ok" << std::endl;
      } else if (cmd == "pair") {
        std::string algo;
        long rc2;
        int excl;
        in >> algo >> rc2 >> excl;
        std::vector<std::string> sel;
        std::string s;
        while (in >> s) sel.push_back(s);
        std::unique_ptr<NBList> nb;
        if (algo == "grid") {
          nb.reset(new NBListGrid());
        } else {
          nb.reset(new NBList());
        }
        nb->setCutoff(std::sqrt(double(rc2)) / 8.0);
        PairCounter cnt;
        nb->SetMatchFunction(&cnt, &PairCounter::Found);
        BeadList l1, l2;
        l1.Generate(*top, sel.at(0));
        if (sel.size() == 1) {
          nb->Generate(l1, excl != 0);
        } else {
          l2.Generate(*top, sel.at(1));
          nb->Generate(l1, l2, excl != 0);
        }
        std::cout << "calls " << cnt.calls.size();
        for (auto &c : cnt.calls) {
          std::cout << " " << c.f << " " << c.s;
          printVec(std::cout, c.r);
          std::cout << " " << c.d;
        }
        std::cout << std::endl;
        std::cout << "stored " << nb->size();
        for (BeadPair *p : *nb) {
          std::cout << " " << p->first()->getId() << " " << p->second()->getId();
          printVec(std::cout, p->r());
          std::cout << " " << p->dist();
        }
        std::cout << std::endl;
      } else if (cmd == "tri") {
        std::string algo;
        long rc2;
        int excl;
        in >> algo >> rc2 >> excl;
        std::vector<std::string> sel;
        std::string s;
        while (in >> s) sel.push_back(s);
        std::unique_ptr<NBList_3Body> nb;
        if (algo == "grid") {
          nb.reset(new NBListGrid_3Body());
        } else {
          nb.reset(new NBList_3Body());
        }
        nb->setCutoff(std::sqrt(double(rc2)) / 8.0);
        TripleCounter cnt;
        nb->SetMatchFunction(&cnt, &TripleCounter::Found);
        BeadList l1, l2, l3;
        l1.Generate(*top, sel.at(0));
        if (sel.size() == 1) {
          nb->Generate(l1, excl != 0);
        } else if (sel.size() == 2) {
          l2.Generate(*top, sel.at(1));
          nb->Generate(l1, l2, excl != 0);
        } else {
          l2.Generate(*top, sel.at(1));
          l3.Generate(*top, sel.at(2));
          nb->Generate(l1, l2, l3, excl != 0);
        }
        std::cout << "calls " << cnt.calls << std::endl;
        std::cout << "stored " << nb->size();
        for (BeadTriple *t : *nb) {
          std::cout << " " << t->bead1()->getId() << " " << t->bead2()->getId() << " " << t->bead3()->getId() << " "
                    << t->dist12() << " " << t->dist13();
        }
        std::cout << std::endl;
      } else if (cmd == "setbox") {
        double ax, bx, by, cx, cy, cz;
        in >> ax >> bx >> by >> cx >> cy >> cz;
        Eigen::Matrix3d box = Eigen::Matrix3d::Zero();
        box(0, 0) = ax / 8.0;
        box(0, 1) = bx / 8.0;
        box(1, 1) = by / 8.0;
        box(0, 2) = cx / 8.0;
        box(1, 2) = cy / 8.0;
        box(2, 2) = cz / 8.0;
        top->setBox(box);
        std::cout << "ok boxtype " << int(top->getBoxType()) << std::endl;
      } else if (cmd == "setpos") {
        Index i;
        double x, y, z;
        in >> i >> x >> y >> z;
        top->getBead(i)->setPos(Eigen::Vector3d(x / 8.0, y / 8.0, z / 8.0));
        std::cout << "ok" << std::endl;
      } else if (cmd == "obj") {
        std::string sub;
        in >> sub;
        if (sub == "new") {
          std::string kind, algo;
          in >> kind >> algo;
          pobj.reset();
          tobj.reset();
          if (kind == "pair") {
            if (algo == "grid") {
              pobj.reset(new NBListGrid());
            } else {
              pobj.reset(new NBList());
            }
            pobj->SetMatchFunction(&pcnt, &PairCounter::Found);
          } else {
            if (algo == "grid") {
              tobj.reset(new NBListGrid_3Body());
            } else {
              tobj.reset(new NBList_3Body());
            }
            tobj->SetMatchFunction(&tcnt, &TripleCounter::Found);
          }
          std::cout << "ok" << std::endl;
        } else if (sub == "cut") {
          long rc2;
          in >> rc2;
          if (pobj) pobj->setCutoff(std::sqrt(double(rc2)) / 8.0);
          if (tobj) tobj->setCutoff(std::sqrt(double(rc2)) / 8.0);
          std::cout << "ok" << std::endl;
        } else if (sub == "clean") {
          if (pobj) pobj->Cleanup();
          if (tobj) tobj->Cleanup();
          std::cout << "ok" << std::endl;
        } else if (sub == "gen") {
          int excl;
          in >> excl;
          std::vector<std::string> sel;
          std::string w;
          while (in >> w) sel.push_back(w);
          BeadList l1, l2, l3;
          l1.Generate(*top, sel.at(0));
          if (sel.size() > 1) l2.Generate(*top, sel.at(1));
          if (sel.size() > 2) l3.Generate(*top, sel.at(2));
          if (pobj) {
            pcnt.calls.clear();
            if (sel.size() == 1) {
              pobj->Generate(l1, excl != 0);
            } else {
              pobj->Generate(l1, l2, excl != 0);
            }
            std::cout << "calls " << pcnt.calls.size();
            for (auto &c : pcnt.calls) {
              std::cout << " " << c.f << " " << c.s;
              printVec(std::cout, c.r);
              std::cout << " " << c.d;
            }
            std::cout << std::endl;
            std::cout << "stored " << pobj->size();
            for (BeadPair *p : *pobj) {
              std::cout << " " << p->first()->getId() << " " << p->second()->getId();
              printVec(std::cout, p->r());
              std::cout << " " << p->dist();
            }
            std::cout << std::endl;
          } else if (tobj) {
            tcnt.calls = 0;
            if (sel.size() == 1) {
              tobj->Generate(l1, excl != 0);
            } else if (sel.size() == 2) {
              tobj->Generate(l1, l2, excl != 0);
            } else {
              tobj->Generate(l1, l2, l3, excl != 0);
            }
            std::cout << "calls " << tcnt.calls << std::endl;
            std::cout << "stored " << tobj->size();
            for (BeadTriple *t : *tobj) {
              std::cout << " " << t->bead1()->getId() << " " << t->bead2()->getId() << " " << t->bead3()->getId()
                        << " " << t->dist12() << " " << t->dist13();
            }
            std::cout << std::endl;
          } else {
            throw std::runtime_error("driver: no object");
          }
        } else {
          std::cout << "err unknown obj command" << std::endl;
        }
      } else if (cmd == "t") {
        int w;
        std::string op;
        in >> w >> op;
        std::unique_ptr<Topology> &tp = (w == 0) ? top : src;
        if (op == "new") {
          if (w == 0) {
            pobj.reset();
            tobj.reset();
            mols.clear();
          }
          tp.reset(new Topology());
          std::cout << "ok" << std::endl;
        } else if (op == "res") {
          std::string name;
          in >> name;
          tp->CreateResidue(name);
          std::cout << "ok" << std::endl;
        } else if (op == "bead") {
          std::string name, type;
          Index resnr;
          in >> name >> type >> resnr;
          tp->CreateBead(Bead::spherical, name, type, resnr, 1.0, 0.0);
          std::cout << "ok" << std::endl;
        } else if (op == "mol") {
          std::string name;
          in >> name;
          tp->CreateMolecule(name);
          std::cout << "ok" << std::endl;
        } else if (op == "add") {
          Index m, b;
          in >> m >> b;
          tp->getMolecule(m)->AddBead(tp->getBead(b), tp->getBead(b)->getName());
          std::cout << "ok" << std::endl;
        } else if (op == "ia") {
          std::string grp;
          Index k;
          in >> grp >> k;
          std::list<Index> ids;
          for (Index i = 0; i < k; ++i) {
            Index id;
            in >> id;
            ids.push_back(id);
          }
          Interaction *ia = (k == 2) ? static_cast<Interaction *>(new IBond(ids))
                                     : static_cast<Interaction *>(new IAngle(ids));
          ia->setGroup(grp);
          ia->setIndex(tp->BondedInteractions().size());
          ia->setMolecule(0);
          tp->AddBondedInteraction(ia);
          std::cout << "ok" << std::endl;
        } else if (op == "rebuild") {
          tp->RebuildExclusions();
          std::cout << "ok" << std::endl;
        } else if (op == "box") {
          double ax, bx, by, cx, cy, cz;
          std::string as;
          in >> ax >> bx >> by >> cx >> cy >> cz >> as;
          Eigen::Matrix3d box = Eigen::Matrix3d::Zero();
          box(0, 0) = ax / 8.0;
          box(0, 1) = bx / 8.0;
          box(1, 1) = by / 8.0;
          box(0, 2) = cx / 8.0;
          box(1, 2) = cy / 8.0;
          box(2, 2) = cz / 8.0;
          BoundaryCondition::eBoxtype bt = BoundaryCondition::typeAuto;
          if (as == "ortho") bt = BoundaryCondition::typeOrthorhombic;
          if (as == "tric") bt = BoundaryCondition::typeTriclinic;
          if (as == "open") bt = BoundaryCondition::typeOpen;
          tp->setBox(box, bt);
          std::cout << "ok" << std::endl;
        } else if (op == "cleanup") {
          tp->Cleanup();
          std::cout << "ok" << std::endl;
        } else if (op == "copy") {
          top->CopyTopologyData(src.get());
          std::cout << "ok" << std::endl;
        } else if (op == "rename") {
          std::string range, name;
          in >> range >> name;
          tp->RenameMolecules(range, name);
          std::cout << "ok" << std::endl;
        } else if (op == "q") {
          std::ostream &o = std::cout;
          o << "{\"res\":[";
          for (Index i = 0; i < tp->ResidueCount(); ++i) {
            o << (i ? "," : "") << "[" << tp->getResidue(i).getId() << ",\"" << tp->getResidue(i).getName() << "\"]";
          }
          o << "],\"beads\":[";
          for (Index i = 0; i < tp->BeadCount(); ++i) {
            Bead *b = tp->getBead(i);
            o << (i ? "," : "") << "[" << b->getId() << ",\"" << b->getName() << "\",\"" << b->getType() << "\","
              << b->getResnr() << "," << b->getMoleculeId() + 1 << "]";
          }
          o << "],\"mols\":[";
          for (Index i = 0; i < tp->MoleculeCount(); ++i) {
            Molecule *m = tp->getMolecule(i);
            o << (i ? "," : "") << "[" << m->getId() << ",\"" << m->getName() << "\",[";
            for (Index k = 0; k < m->BeadCount(); ++k) o << (k ? "," : "") << m->getBead(k)->getId() + 1;
            o << "],[";
            for (Index k = 0; k < m->BeadCount(); ++k) o << (k ? "," : "") << "\"" << m->getBeadName(k) << "\"";
            o << "]]";
          }
          InteractionContainer &ic = tp->BondedInteractions();
          o << "],\"nia\":" << ic.size() << ",\"gid\":[";
          for (size_t k = 0; k < ic.size(); ++k) o << (k ? "," : "") << ic[k]->getGroupId();
          o << "],\"ialist\":[";
          for (size_t k = 0; k < ic.size(); ++k) {
            o << (k ? "," : "") << "[";
            for (Index q = 0; q < ic[k]->BeadCount(); ++q) o << (q ? "," : "") << ic[k]->getBeadId(q) + 1;
            o << "]";
          }
          o << "],\"grp\":{";
          bool firstg = true;
          for (std::string g : {"g1", "g2"}) {
            o << (firstg ? "" : ",") << "\"" << g << "\":[";
            firstg = false;
            std::vector<Interaction *> v = tp->InteractionsInGroup(g);
            for (size_t k = 0; k < v.size(); ++k) {
              Index idx = 0;     // position (1-based) among the current interactions; 0 = not one of them (stale pointer)
              for (size_t q = 0; q < ic.size(); ++q) {
                if (ic[q] == v[k]) idx = Index(q) + 1;
              }
              o << (k ? "," : "") << idx;
            }
            o << "]";
          }
          const Eigen::Matrix3d &bx = tp->getBox();
          o << "},\"box\":[" << bx(0, 0) * 8 << "," << bx(0, 1) * 8 << "," << bx(1, 1) * 8 << "," << bx(0, 2) * 8 << ","
            << bx(1, 2) * 8 << "," << bx(2, 2) * 8 << "],\"low\":[" << bx(1, 0) << "," << bx(2, 0) << "," << bx(2, 1) << "]";
          BoundaryCondition::eBoxtype bt = tp->getBoxType();
          o << ",\"bt\":\""
            << (bt == BoundaryCondition::typeOpen ? "open" : bt == BoundaryCondition::typeOrthorhombic ? "ortho"
                : bt == BoundaryCondition::typeTriclinic ? "tric" : "auto")
            << "\",\"excl\":[";
          bool firste = true;
          for (Index i = 0; i < tp->BeadCount(); ++i) {
            for (Index j = 0; j < tp->BeadCount(); ++j) {
              if (tp->getExclusions().IsExcluded(tp->getBead(i), tp->getBead(j))) {
                o << (firste ? "" : ",") << "[" << i + 1 << "," << j + 1 << "]";
                firste = false;
              }
            }
          }
          o << "],\"sel\":{";
          bool firsts = true;
          for (std::string sel : {"*", "A", "B"}) {
            BeadList bl;
            bl.Generate(*tp, sel);
            o << (firsts ? "" : ",") << "\"" << sel << "\":[";
            firsts = false;
            bool f2 = true;
            for (Bead *b : bl) {
              o << (f2 ? "" : ",") << b->getId() + 1;
              f2 = false;
            }
            o << "]";
          }
          o << "}}" << std::endl;
        } else {
          std::cout << "err unknown t command" << std::endl;
        }
      } else if (cmd == "grid") {
        long rc2;
        in >> rc2;
        GridProbe g;
        g.setCutoff(std::sqrt(double(rc2)) / 8.0);
        g.Probe(*top, std::cout);
      } else if (cmd == "xins" || cmd == "xrem") {
        Index i, j;
        in >> i >> j;
        if (cmd == "xins") {
          top->getExclusions().InsertExclusion(top->getBead(i), top->getBead(j));
        } else {
          top->getExclusions().RemoveExclusion(top->getBead(i), top->getBead(j));
        }
        std::cout << "ok" << std::endl;
      } else if (cmd == "xexl" || cmd == "xreml" || cmd == "xinsl") {
        std::list<Bead *> l;
        Index i;
        while (in >> i) l.push_back(top->getBead(i));
        if (cmd == "xexl") {
          top->getExclusions().ExcludeList(l);
        } else if (cmd == "xreml") {
          top->getExclusions().Remove(l);
        } else {
          Bead *b = l.front();
          l.pop_front();
          top->InsertExclusion(b, l);
        }
        std::cout << "ok" << std::endl;
      } else if (cmd == "xq") {
        // the whole IsExcluded relation, both argument orders and the diagonal
        std::cout << "excl";
        Index n = top->BeadCount();
        for (Index i = 0; i < n; ++i) {
          for (Index j = 0; j < n; ++j) {
            if (top->getExclusions().IsExcluded(top->getBead(i), top->getBead(j))) {
              std::cout << " " << i << " " << j;
            }
          }
        }
        std::cout << std::endl;
      } else {
        std::cout << "err unknown command" << std::endl;
      }
    } catch (const std::exception &e) {
      std::cout << "exc " << e.what() << std::endl;
    }
  }
  return 0;
}
