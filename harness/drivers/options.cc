// Conformance driver for spec/options and spec/proptree (property C11).
// A dumb executor: one command per line "<verb> <json>", executed against the real
// votca::tools::OptionsHandler / Property; the observation is printed as one JSON line.
//   process   {dir,calc,user:[[d,n,v]..],via}   OptionsHandler::ProcessUserInput
//   calcopts  {dir,calc}                        OptionsHandler::CalculatorOptions
//   roundtrip {tree:[[d,n,v,{attr}]..],level}   operator<<(XML) to a file, LoadFromXML
//   lit       {s}                               Property::as<bool|Index|double|vectors>
//   pt        {op,...}                          one call on a persistent Property + full observation
// argv[1]: scratch directory for the XML files written on the way.
#include <fstream>
#include <iostream>
#include <memory>
#include <sstream>
#include <stdexcept>
#include <string>
#include <vector>

#include <nlohmann/json.hpp>
#include <unistd.h>

#include <votca/tools/eigen.h>
#include <votca/tools/optionshandler.h>
#include <votca/tools/property.h>
#include <votca/tools/propertyiomanipulator.h>

using namespace votca;
using namespace votca::tools;
using json = nlohmann::json;

static std::string scratch = "/tmp";

// ---- projection: Property -> flat pre-order list [depth,name,value,{attributes}] ----
// `want_path`: what path() must be by its documentation (property.h: "full path of property
// (including parents)", unit test: child of one.two has path "one.two"): the dotted names of the
// proper ancestors, the anonymous root contributing nothing.  Violations are counted.
static long path_errors = 0;
static std::string path_example;
static void Dump(const Property &p, long depth, json &out, bool with_index_check,
                 const std::string &want_path = "", bool check_path = false) {
  if (check_path && p.path() != want_path) {
    if (path_errors++ == 0) path_example = p.name() + ": path() = '" + p.path() + "', ancestors '" + want_path + "'";
  }
  std::string child_path = want_path;
  if (!p.name().empty() || depth > 0) {
    if (!child_path.empty()) child_path += ".";
    child_path += p.name();
  }
  json at = json::object();
  for (auto it = p.firstAttribute(); it != p.lastAttribute(); ++it) at[it->first] = it->second;
  json node = json::array({depth, p.name(), p.value(), at});
  if (with_index_check) {
    // the name index must agree with the ordered child list: get(name) is the LAST child
    // of that name, exists(name) is true exactly for names that occur
    bool ok = true;
    std::map<std::string, const Property *> last;
    for (const Property &c : p) last[c.name()] = &c;
    for (auto &kv : last) {
      if (kv.first.empty() || kv.first.find('.') != std::string::npos) continue;
      if (!p.exists(kv.first)) {
        ok = false;
      } else if (&p.get(kv.first) != kv.second) {
        ok = false;
      }
    }
    if (p.exists("zz_not_there")) ok = false;
    if (p.HasChildren() != (p.begin() != p.end())) ok = false;
    if (p.size() != Index(std::distance(p.begin(), p.end()))) ok = false;
    node.push_back(ok);
    node.push_back(p.path());
  }
  out.push_back(node);
  for (const Property &c : p) Dump(c, depth + 1, out, with_index_check, child_path, check_path);
}

// dump the children of an anonymous root with the path check on; appends "paths <n> <example>" info
static json DumpTop(const Property &root, bool with_index_check, json *pathinfo) {
  path_errors = 0;
  path_example.clear();
  json out = json::array();
  for (const Property &c : root) Dump(c, 0, out, with_index_check, "", true);
  if (pathinfo) *pathinfo = json::array({path_errors, path_example});
  return out;
}

// flat list -> Property children of `root` (entries [d,n,v] or [d,n,v,{attr}], first has d=0)
static void Build(Property &root, const json &flat) {
  // Property keeps children in a std::vector: pointers into it are invalidated by later
  // add() calls on the same parent, so the path is re-walked by index instead of cached.
  std::vector<Index> path;  // child positions from root
  auto node_at = [&](size_t depth) -> Property & {
    Property *p = &root;
    for (size_t k = 0; k < depth; ++k) p = &*(p->begin() + path[k]);
    return *p;
  };
  for (const json &e : flat) {
    size_t d = e[0].get<size_t>();
    if (d > path.size()) throw std::logic_error("driver: malformed flat tree");
    path.resize(d);
    Property &parent = node_at(d);
    Property &np = parent.add(e[1].get<std::string>(), e[2].get<std::string>());
    if (e.size() > 3 && e[3].is_object()) {
      for (auto it = e[3].begin(); it != e[3].end(); ++it)
        np.setAttribute(it.key(), it.value().get<std::string>());
    }
    path.push_back(parent.size() - 1);
  }
}

static std::string TmpName(const char *tag) {
  static long n = 0;
  std::ostringstream s;
  s << scratch << "/c11-" << getpid() << "-" << tag << "-" << (n++ % 4) << ".xml";
  return s.str();
}

static void WriteXml(const std::string &file, const Property &p, Index level) {
  std::ofstream out(file);
  PropertyIOManipulator iom(PropertyIOManipulator::XML, level, "");
  out << iom << p;
  out.close();
}

static std::string Slurp(const std::string &file) {
  std::ifstream in(file);
  std::stringstream s;
  s << in.rdbuf();
  return s.str();
}

// pre-order index (1-based, root = 1) of a node inside `root`
static bool IndexOf(const Property &cur, const Property *target, long &counter) {
  ++counter;
  if (&cur == target) return true;
  for (const Property &c : cur)
    if (IndexOf(c, target, counter)) return true;
  return false;
}
static long PreIndex(const Property &root, const Property *target) {
  long c = 0;
  return IndexOf(root, target, c) ? c : -1;
}

template <class T, class F>
static json TryCast(const Property &p, F tojson) {
  json r = json::object();
  try {
    T v = p.as<T>();
    r["ok"] = true;
    r["val"] = tojson(v);
  } catch (const std::runtime_error &e) {
    r["ok"] = false;
    r["msg"] = e.what();
  }
  return r;
}

static std::string D17(double x) {
  char buf[64];
  snprintf(buf, sizeof buf, "%.17g", x);
  return buf;
}

int main(int argc, char **argv) {
  if (argc > 1) scratch = argv[1];
  std::string line;
  long seq = 0;
  Property pt;  // persistent object of the "pt" commands
  while (std::getline(std::cin, line)) {
    ++seq;
    std::cout << "cmd " << seq << " " << line << std::endl;
    std::string verb = line.substr(0, line.find(' '));
    try {
      json j = line.find(' ') == std::string::npos ? json::object() : json::parse(line.substr(line.find(' ') + 1));
      if (verb == "process") {
        Property user;
        Build(user, j["user"]);
        Property loaded;
        const Property *input = &user;
        if (j.value("via", std::string("xml")) == "xml") {
          std::string f = TmpName("user");
          WriteXml(f, user, 1);  // level 1: skip the anonymous root
          loaded.LoadFromXML(f);
          input = &loaded;
        }
        OptionsHandler handler(j["dir"].get<std::string>());
        if (j.contains("extra")) handler.setAdditionalChoices(j["extra"].get<std::vector<std::string>>());
        Property result = handler.ProcessUserInput(*input, j["calc"].get<std::string>());
        json pinfo;
        json out = DumpTop(result, false, &pinfo);
        std::cout << "paths " << pinfo.dump() << std::endl;
        std::cout << "tree " << out.dump() << std::endl;
      } else if (verb == "calcopts") {
        OptionsHandler handler(j["dir"].get<std::string>());
        Property result = handler.CalculatorOptions(j["calc"].get<std::string>());
        json pinfo;
        json out = DumpTop(result, false, &pinfo);
        std::cout << "paths " << pinfo.dump() << std::endl;
        std::cout << "tree " << out.dump() << std::endl;
      } else if (verb == "roundtrip") {
        Property root;
        Build(root, j["tree"]);
        std::string f = TmpName("rt");
        Index level = j.value("level", 1);
        if (level == 1) {
          WriteXml(f, root, 1);
        } else {
          WriteXml(f, *root.begin(), 0);
        }
        std::cout << "xml " << json(Slurp(f)).dump() << std::endl;
        Property back;
        back.LoadFromXML(f);
        json pinfo;
        json out = DumpTop(back, true, &pinfo);
        std::cout << "paths " << pinfo.dump() << std::endl;
        std::cout << "tree " << out.dump() << std::endl;
        // second generation: print what was loaded, load again (same object type, second use)
        std::string f2 = TmpName("rt2");
        WriteXml(f2, back, 1);
        Property back2;
        back2.LoadFromXML(f2);
        json out2 = DumpTop(back2, true, nullptr);
        std::cout << "tree2 " << out2.dump() << std::endl;
      } else if (verb == "lit") {
        Property p("x", j["s"].get<std::string>(), "");
        json r = json::object();
        r["b"] = TryCast<bool>(p, [](bool v) { return json(v); });
        r["i"] = TryCast<Index>(p, [](Index v) { return json(v); });
        r["f"] = TryCast<double>(p, [](double v) { return json(D17(v)); });
        r["v"] = TryCast<std::vector<Index>>(p, [](const std::vector<Index> &v) { return json(v); });
        r["fv"] = TryCast<std::vector<double>>(p, [](const std::vector<double> &v) {
          json a = json::array();
          for (double x : v) a.push_back(D17(x));
          return a;
        });
        r["v3"] = TryCast<Eigen::Matrix<Index, 3, 1>>(p, [](const Eigen::Matrix<Index, 3, 1> &v) {
          return json::array({v[0], v[1], v[2]});
        });
        r["ev"] = TryCast<Eigen::VectorXd>(p, [](const Eigen::VectorXd &v) {
          json a = json::array();
          for (Index k = 0; k < v.size(); ++k) a.push_back(D17(v[k]));
          return a;
        });
        r["s"] = TryCast<std::string>(p, [](const std::string &v) { return json(v); });
        r["sv"] = TryCast<std::vector<std::string>>(p, [](const std::vector<std::string> &v) { return json(v); });
        r["d3"] = TryCast<Eigen::Vector3d>(p, [](const Eigen::Vector3d &v) {
          return json::array({D17(v[0]), D17(v[1]), D17(v[2])});
        });
        std::cout << "lit " << r.dump() << std::endl;
      } else if (verb == "load") {
        // {xml: text, crlf: bool, twice: bool}: LoadFromXML on a file with exactly these bytes
        std::string text = j["xml"].get<std::string>();
        if (j.value("crlf", false)) {
          std::string t2;
          for (char c : text) {
            if (c == '\n') t2 += '\r';
            t2 += c;
          }
          text = t2;
        }
        std::string f = TmpName("ld");
        {
          std::ofstream o(f, std::ios::binary);
          o << text;
        }
        Property back;
        back.LoadFromXML(f);
        if (j.value("twice", false)) back.LoadFromXML(f);  // same object a second time: appended
        json pinfo;
        json out = DumpTop(back, true, &pinfo);
        std::cout << "paths " << pinfo.dump() << std::endl;
        std::cout << "tree " << out.dump() << std::endl;
      } else if (verb == "hs") {
        // one OptionsHandler used repeatedly: {op:new,dir} {op:extra,list} {op:process,calc,user} {op:calcopts,calc}
        static std::unique_ptr<OptionsHandler> hs;
        std::string op = j["op"].get<std::string>();
        if (op == "new") {
          hs = std::make_unique<OptionsHandler>(j["dir"].get<std::string>());
          std::cout << "ok" << std::endl;
        } else if (op == "extra") {
          hs->setAdditionalChoices(j["list"].get<std::vector<std::string>>());
          std::cout << "ok" << std::endl;
        } else if (op == "process") {
          Property user;
          Build(user, j["user"]);
          Property result = hs->ProcessUserInput(user, j["calc"].get<std::string>());
          json pinfo;
          json out = DumpTop(result, false, &pinfo);
          std::cout << "paths " << pinfo.dump() << std::endl;
          std::cout << "tree " << out.dump() << std::endl;
        } else if (op == "calcopts") {
          Property result = hs->CalculatorOptions(j["calc"].get<std::string>());
          json pinfo;
          json out = DumpTop(result, false, &pinfo);
          std::cout << "paths " << pinfo.dump() << std::endl;
          std::cout << "tree " << out.dump() << std::endl;
        } else {
          throw std::logic_error("driver: unknown hs op " + op);
        }
      } else if (verb == "bulk") {
        // {n,k}: n children named c<i mod k> with value i under one node; closed-form observations
        Index n = j["n"].get<Index>(), k = j["k"].get<Index>();
        Property root;
        Property &top = root.add("top", "");
        for (Index i = 0; i < n; ++i) top.add("c" + std::to_string(i % k), std::to_string(i));
        json r = json::object();
        r["size"] = top.size();
        json last = json::array(), cnt = json::array();
        for (Index q = 0; q < k; ++q) {
          std::string nm = "c" + std::to_string(q);
          last.push_back(top.exists(nm) ? json(top.get(nm).value()) : json(nullptr));
          cnt.push_back(top.Select(nm).size());
        }
        r["last"] = last;
        r["count"] = cnt;
        r["star"] = root.Select("top.*").size();
        std::string f = TmpName("bulk");
        WriteXml(f, root, 1);
        Property back;
        back.LoadFromXML(f);
        r["rt_size"] = back.get("top").size();
        bool same = true;
        {
          auto a = top.begin();
          const Property &bt = back.get("top");
          auto b = bt.begin();
          for (; a != top.end() && b != bt.end(); ++a, ++b)
            if (a->name() != b->name() || a->value() != b->value() || b->path() != "top") same = false;
          if ((a != top.end()) != (b != bt.end())) same = false;
        }
        r["rt_same"] = same;
        top.deleteChildren([](const Property &c) { return c.name() == "c0"; });
        r["after_del"] = top.size();
        r["c0_gone"] = !top.exists("c0");
        json last2 = json::array();
        for (Index q = 1; q < k; ++q) {
          std::string nm = "c" + std::to_string(q);
          last2.push_back(top.exists(nm) ? json(top.get(nm).value()) : json(nullptr));
        }
        r["last_after_del"] = last2;
        std::cout << "bulk " << r.dump() << std::endl;
      } else if (verb == "pt") {
        std::string op = j["op"].get<std::string>();
        json r = json::object();
        try {
          if (op == "new") {
            pt = Property();
          } else if (op == "add") {
            Property &n = pt.get(j["p"].get<std::string>()).add(j["n"].get<std::string>(), j["v"].get<std::string>());
            r["ret"] = PreIndex(pt, &n);
          } else if (op == "addtree") {
            Property &n = pt.addTree(j["k"].get<std::string>(), j["v"].get<std::string>());
            r["ret"] = PreIndex(pt, &n);
          } else if (op == "getoradd") {
            Property &n = pt.getOradd(j["k"].get<std::string>());
            r["ret"] = PreIndex(pt, &n);
          } else if (op == "set") {
            Property &n = pt.set(j["k"].get<std::string>(), j["v"].get<std::string>());
            r["ret"] = PreIndex(pt, &n);
          } else if (op == "del") {
            std::string name = j["n"].get<std::string>();
            pt.get(j["p"].get<std::string>()).deleteChildren([&](const Property &c) { return c.name() == name; });
          } else if (op == "delval") {
            std::string val = j["v"].get<std::string>();
            pt.get(j["p"].get<std::string>()).deleteChildren([&](const Property &c) { return c.value() == val; });
          } else if (op == "copy") {
            Property tmp = pt.get(j["s"].get<std::string>());  // copy first: no aliasing with the target
            Property &n = pt.get(j["p"].get<std::string>()).add(tmp);
            r["ret"] = PreIndex(pt, &n);
          } else if (op == "setattr") {
            pt.get(j["p"].get<std::string>()).setAttribute(j["k"].get<std::string>(), j["v"].get<std::string>());
          } else if (op == "delattr") {
            pt.get(j["p"].get<std::string>()).deleteAttribute(j["k"].get<std::string>());
          } else {
            throw std::logic_error("driver: unknown pt op " + op);
          }
        } catch (const std::runtime_error &e) {
          r["exc"] = e.what();
        }
        // full observation after the call
        json g = json::object();
        if (j.contains("keys")) {
          for (const json &k : j["keys"]) {
            std::string key = k.get<std::string>();
            bool ex = pt.exists(key);
            long idx = 0;
            try {
              idx = PreIndex(pt, &pt.get(key));
              if (!ex) idx = -2;  // exists() and get() disagree
            } catch (const std::runtime_error &) {
              if (ex) idx = -3;
            }
            g[key] = idx;
          }
        }
        r["get"] = g;
        json s = json::object();
        if (j.contains("filters")) {
          for (const json &k : j["filters"]) {
            json a = json::array();
            for (Property *q : pt.Select(k.get<std::string>())) a.push_back(PreIndex(pt, q));
            const Property &cpt = pt;
            json b = json::array();
            for (const Property *q : cpt.Select(k.get<std::string>())) b.push_back(PreIndex(pt, q));
            if (a != b) a.push_back("const/non-const Select disagree");
            s[k.get<std::string>()] = a;
          }
        }
        r["sel"] = s;
        json at = json::object();
        if (j.contains("attrq")) {
          for (const json &q : j["attrq"]) {
            std::string key = q[0].get<std::string>(), a = q[1].get<std::string>();
            if (pt.exists(key)) {
              const Property &n = pt.get(key);
              at[key + "@" + a] = n.hasAttribute(a) ? json(n.getAttribute<std::string>(a)) : json(nullptr);
            }
          }
        }
        r["attr"] = at;
        json out = json::array();
        path_errors = 0;
        path_example.clear();
        Dump(pt, 0, out, true, "", true);
        r["tree"] = out;
        r["paths"] = json::array({path_errors, path_example});
        std::cout << "res " << r.dump() << std::endl;
      } else {
        std::cout << "err unknown command" << std::endl;
      }
    } catch (const std::logic_error &e) {
      std::cout << "err " << json(std::string(e.what())).dump() << std::endl;
    } catch (const std::exception &e) {
      std::cout << "exc " << json(std::string(e.what())).dump() << std::endl;
    }
  }
  return 0;
}
