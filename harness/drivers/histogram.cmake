# --- C13 histogram: the two sources under test are compiled into the driver with
# assertions + sanitizers on (see drivers/histogram.cc)
verif_driver(drv_histogram ${D}/histogram.cc
  ${VERIF_REPO}/tools/src/libtools/histogramnew.cc ${VERIF_REPO}/tools/src/libtools/histogram.cc)
verif_sanitize(drv_histogram)
