// Conformance driver for spec/graph and spec/beadstructure (property C16).
// A dumb executor: builds tools::Graph / csg::BeadStructure objects exactly as the
// command lines say (ids, insertion orders, attributes) and prints what the real
// code answers.  No expectation is computed here.
//
// Graph commands (one "current graph"):
//   g <nv> {id name mass}*nv <ne> {a b}*ne   nodes inserted in this order, edges in this order
//   dist <start>       exploreGraph with GraphDistVisitor        -> dist id:d ... | expl id ... | nolabel id ...
//   bfs <start>        exploreGraph with Graph_BF_Visitor        -> expl id ...
//   prelabel <v> <d>   give node v an int attribute "Dist" = d on the CURRENT graph object
//   hdist <start>      exploreGraph with GraphDistVisitor on the CURRENT graph object itself (no copy):
//                      a history of sweeps over one Graph                 -> same output as dist
//   single <start>     singleNetwork with Graph_BF_Visitor (start -1: getVertices().at(0))
//   decouple           decoupleIsolatedSubGraphs                  -> ncomp k / comp v.. | a-b ..
//   reduce             reduceGraph + expandGraph                  -> nchain k / chain v v .. / expv .. / expe a-b ..
//   sid                findStructureId<GraphDistVisitor>          -> sid <string>
// BeadStructure commands (slots 0..15):
//   bs_new s | bs_add s id name mass | bs_conn s a b | bs_single s | bs_equiv s t |
//   bs_graph s | bs_ids s | bs_sub s dst nv ids.. ne a b .. | bs_break s | bs_neigh s id
#include <algorithm>
#include <iostream>
#include <map>
#include <memory>
#include <set>
#include <sstream>
#include <stdexcept>
#include <string>
#include <unordered_map>
#include <vector>

#include <votca/csg/beadstructure.h>
#include <votca/csg/beadstructurealgorithms.h>
#include <votca/tools/edge.h>
#include <votca/tools/graph.h>
#include <votca/tools/graph_bf_visitor.h>
#include <votca/tools/graphalgorithm.h>
#include <votca/tools/graphdistvisitor.h>
#include <votca/tools/graphnode.h>
#include <votca/tools/reducedgraph.h>

using namespace votca;
using namespace votca::tools;
using votca::csg::BeadStructure;

namespace {

struct PlainBead {
  Index id;
  std::string name;
  double mass;
  Index getId() const { return id; }
  std::string getName() const { return name; }
  double getMass() const { return mass; }
};

GraphNode makeNode(const std::string &name, double mass) {
  std::unordered_map<std::string, double> d;
  std::unordered_map<std::string, std::string> s;
  d["Mass"] = mass;
  s["Name"] = name;
  GraphNode gn;
  gn.setDouble(d);
  gn.setStr(s);
  return gn;
}

void printEdges(std::ostream &os, const std::vector<Edge> &edges) {
  for (const Edge &e : edges) os << " " << e.getEndPoint1() << "-" << e.getEndPoint2();
}

void printGraphLine(std::ostream &os, Graph &g) {
  // vertices come from the edge container, attributes from the nodes
  os << "graph";
  for (Index v : g.getVertices()) os << " " << v;
  os << " | nodes";
  for (auto &p : g.getNodes()) {
    GraphNode gn = p.second;
    os << " " << p.first << ":";
    try {
      os << gn.getStr("Name") << ":" << gn.getDouble("Mass");
    } catch (const std::exception &) {
      os << "?:?";
    }
  }
  os << " | edges";
  printEdges(os, g.getEdges());
  os << std::endl;
}

}  // namespace

int main() {
  std::string line;
  long seq = 0;
  std::cout.precision(17);
  std::unique_ptr<Graph> G;
  std::map<int, BeadStructure> bs;
  while (std::getline(std::cin, line)) {
    ++seq;
    std::istringstream in(line);
    std::string cmd;
    in >> cmd;
    std::cout << "cmd " << seq << " " << line << std::endl;
    try {
      if (cmd == "g") {
        long nv, ne;
        in >> nv;
        std::unordered_map<Index, GraphNode> nodes;
        for (long i = 0; i < nv; ++i) {
          Index id;
          std::string name;
          double mass;
          in >> id >> name >> mass;
          nodes[id] = makeNode(name, mass);
        }
        in >> ne;
        std::vector<Edge> edges;
        for (long i = 0; i < ne; ++i) {
          Index a, b;
          in >> a >> b;
          edges.push_back(Edge(a, b));
        }
        if (!in) throw std::runtime_error("driver: malformed g command");
        G.reset(new Graph(edges, nodes));
        std::cout << "ok nv " << G->getVertices().size() << " ne " << G->getEdges().size() << std::endl;
      } else if (cmd == "prelabel") {
        Index v, d;
        in >> v >> d;
        GraphNode gn = G->getNode(v);
        std::unordered_map<std::string, Index> iv;
        iv["Dist"] = d;
        gn.setInt(iv);
        G->setNode(v, gn);
        std::cout << "ok" << std::endl;
      } else if (cmd == "hdist") {
        Index start;
        in >> start;
        GraphDistVisitor gv;
        gv.setStartingVertex(start);
        exploreGraph(*G, gv);
        std::set<Index> expl = gv.getExploredVertices();
        std::cout << "dist";
        std::vector<Index> nolabel;
        for (auto &p : G->getNodes()) {
          GraphNode gn = p.second;
          try {
            Index d = gn.getInt("Dist");
            std::cout << " " << p.first << ":" << d;
          } catch (const std::invalid_argument &) {
            nolabel.push_back(p.first);
          }
        }
        std::cout << " | expl";
        for (Index v : expl) std::cout << " " << v;
        std::cout << " | nolabel";
        for (Index v : nolabel) std::cout << " " << v;
        std::cout << std::endl;
      } else if (cmd == "dist" || cmd == "bfs") {
        Index start;
        in >> start;
        Graph g = *G;
        std::set<Index> expl;
        if (cmd == "dist") {
          GraphDistVisitor gv;
          gv.setStartingVertex(start);
          exploreGraph(g, gv);
          expl = gv.getExploredVertices();
          std::cout << "dist";
          std::vector<Index> nolabel;
          for (auto &p : g.getNodes()) {
            GraphNode gn = p.second;
            try {
              Index d = gn.getInt("Dist");
              std::cout << " " << p.first << ":" << d;
            } catch (const std::invalid_argument &) {
              nolabel.push_back(p.first);
            }
          }
          std::cout << " | expl";
          for (Index v : expl) std::cout << " " << v;
          std::cout << " | nolabel";
          for (Index v : nolabel) std::cout << " " << v;
          std::cout << std::endl;
        } else {
          Graph_BF_Visitor gv;
          gv.setStartingVertex(start);
          exploreGraph(g, gv);
          expl = gv.getExploredVertices();
          std::cout << "expl";
          for (Index v : expl) std::cout << " " << v;
          std::cout << std::endl;
        }
      } else if (cmd == "single") {
        Index start;
        in >> start;
        Graph g = *G;
        if (start < 0) {
          std::vector<Index> vs = g.getVertices();
          if (vs.empty()) {
            std::cout << "single novertex" << std::endl;
            continue;
          }
          start = vs.at(0);
        }
        Graph_BF_Visitor gv;
        gv.setStartingVertex(start);
        bool s = singleNetwork(g, gv);
        std::cout << "single " << (s ? 1 : 0) << " start " << start << std::endl;
      } else if (cmd == "decouple") {
        std::vector<Graph> parts = decoupleIsolatedSubGraphs(*G);
        std::cout << "ncomp " << parts.size() << std::endl;
        for (Graph &p : parts) {
          std::cout << "comp";
          for (Index v : p.getVertices()) std::cout << " " << v;
          std::cout << " | nodes";
          for (auto &n : p.getNodes()) {
            GraphNode gn = n.second;
            std::cout << " " << n.first << ":" << gn.getStr("Name") << ":" << gn.getDouble("Mass");
          }
          std::cout << " | edges";
          printEdges(std::cout, p.getEdges());
          std::cout << std::endl;
        }
      } else if (cmd == "reduce") {
        ReducedGraph rg = reduceGraph(*G);
        // chains: every distinct reduced edge expands into one or more chains
        std::vector<Edge> red = rg.getEdges();
        std::set<Edge> distinct(red.begin(), red.end());
        std::vector<std::vector<Edge>> chains;
        for (const Edge &e : distinct) {
          for (auto &c : rg.expandEdge(e)) chains.push_back(c);
        }
        std::cout << "nchain " << chains.size() << " nred " << red.size() << std::endl;
        std::cout << "red";
        printEdges(std::cout, red);
        std::cout << std::endl;
        for (auto &c : chains) {
          std::cout << "chain";
          printEdges(std::cout, c);
          std::cout << std::endl;
        }
        std::cout << "redv";
        for (Index v : rg.getVertices()) std::cout << " " << v;
        std::cout << std::endl;
        Graph ex = rg.expandGraph();
        std::cout << "expv";
        for (Index v : ex.getVertices()) std::cout << " " << v;
        std::cout << std::endl;
        std::cout << "expe";
        printEdges(std::cout, ex.getEdges());
        std::cout << std::endl;
        std::cout << "expn";
        for (auto &n : ex.getNodes()) {
          GraphNode gn = n.second;
          std::cout << " " << n.first << ":" << gn.getStr("Name") << ":" << gn.getDouble("Mass");
        }
        std::cout << std::endl;
      } else if (cmd == "sid") {
        Graph g = *G;
        std::string id = findStructureId<GraphDistVisitor>(g);
        std::cout << "sid " << id << std::endl;
      } else if (cmd == "bs_new") {
        int s;
        in >> s;
        bs[s] = BeadStructure();
        std::cout << "ok" << std::endl;
      } else if (cmd == "bs_add") {
        int s;
        PlainBead b;
        in >> s >> b.id >> b.name >> b.mass;
        bs.at(s).AddBead(b);
        std::cout << "ok count " << bs.at(s).BeadCount() << std::endl;
      } else if (cmd == "bs_conn") {
        int s;
        Index a, b;
        in >> s >> a >> b;
        bs.at(s).ConnectBeads(a, b);
        std::cout << "ok" << std::endl;
      } else if (cmd == "bs_single") {
        int s;
        in >> s;
        std::cout << "single " << (bs.at(s).isSingleStructure() ? 1 : 0) << std::endl;
      } else if (cmd == "bs_equiv") {
        int s, t;
        in >> s >> t;
        std::cout << "equiv " << (bs.at(s).isStructureEquivalent(bs.at(t)) ? 1 : 0) << std::endl;
      } else if (cmd == "bs_graph") {
        int s;
        in >> s;
        Graph g = bs.at(s).getGraph();
        printGraphLine(std::cout, g);
      } else if (cmd == "bs_ids") {
        int s;
        in >> s;
        std::cout << "ids";
        for (Index v : bs.at(s).getBeadIds()) std::cout << " " << v;
        std::cout << " | count " << bs.at(s).BeadCount() << std::endl;
      } else if (cmd == "bs_neigh") {
        int s;
        Index v;
        in >> s >> v;
        std::cout << "neigh";
        for (Index w : bs.at(s).getNeighBeadIds(v)) std::cout << " " << w;
        std::cout << std::endl;
      } else if (cmd == "bs_sub") {
        int s, dst;
        long nv, ne;
        in >> s >> dst >> nv;
        std::vector<Index> ids;
        for (long i = 0; i < nv; ++i) {
          Index v;
          in >> v;
          ids.push_back(v);
        }
        in >> ne;
        std::vector<Edge> edges;
        for (long i = 0; i < ne; ++i) {
          Index a, b;
          in >> a >> b;
          edges.push_back(Edge(a, b));
        }
        BeadStructure sub = bs.at(s).getSubStructure(ids, edges);
        bs[dst] = sub;
        Graph g = bs.at(dst).getGraph();
        printGraphLine(std::cout, g);
      } else if (cmd == "bs_break") {
        int s;
        in >> s;
        std::vector<BeadStructure> parts = csg::breakIntoStructures(bs.at(s));
        std::cout << "nparts " << parts.size() << std::endl;
        for (BeadStructure &p : parts) {
          Graph g = p.getGraph();
          std::cout << "part ids";
          for (Index v : p.getBeadIds()) std::cout << " " << v;
          std::cout << " | ";
          printGraphLine(std::cout, g);
        }
      } else {
        std::cout << "err unknown command" << std::endl;
      }
    } catch (const std::exception &e) {
      std::string w = e.what();
      std::replace(w.begin(), w.end(), '\n', ' ');
      std::cout << "exc " << w << std::endl;
    }
  }
  return 0;
}
