// Conformance driver for spec/graph and spec/beadstructure (property C16).
// A dumb executor: builds tools::Graph / csg::BeadStructure objects exactly as the
// command lines say (ids, insertion orders, attributes) and prints what the real
// code answers.  No expectation is computed here.
//
// Graph commands (one "current graph"):
//   g <nv> {id name mass}*nv <ne> {a b}*ne   nodes inserted in this order, edges in this order
//   dist <start>       exploreGraph with GraphDistVisitor        -> dist id:d ... | expl id ... | nolabel id ...
//   bfs <start>        exploreGraph with Graph_BF_Visitor        -> expl id ...
//   prelabel <v> <d>   give node v an int attribute "Dist" = d on the CURRENT graph object
//   hdist <start>      exploreGraph with GraphDistVisitor on the CURRENT graph object itself (no copy):
//                      a history of sweeps over one Graph                 -> same output as dist
//   dfs <start>        exploreGraph with Graph_DF_Visitor                -> expl id ...
//   branch <s> <a> <b> exploreBranch(G, s, Edge(a,b))                     -> branch a-b ...
//   gcopy <mode>       mode 0: copy-construct, 1: assign into a default graph, 2: assign into a used graph;
//                      the copy becomes the current graph, the previous object is kept as "old"
//   gold               print the labels of the kept old object (same format as dist)
//   single <start>     singleNetwork with Graph_BF_Visitor (start -1: getVertices().at(0))
//   decouple           decoupleIsolatedSubGraphs                  -> ncomp k / comp v.. | a-b ..
//   reduce             reduceGraph + expandGraph                  -> nchain k / chain v v .. / expv .. / expe a-b ..
//   sid                findStructureId<GraphDistVisitor>          -> sid <string>
// BeadStructure commands (slots 0..15):
//   bs_new s | bs_add s id name mass | bs_conn s a b | bs_single s | bs_equiv s t |
//   bs_copy src dst mode (0 copy-construct, 1 copy-assign into existing dst) | bs_motifs s
//   bs_graph s | bs_ids s | bs_sub s dst nv ids.. ne a b .. | bs_break s | bs_neigh s id
#include <algorithm>
#include <iostream>
#include <map>
#include <memory>
#include <set>
#include <sstream>
#include <stdexcept>
#include <string>
#include <unordered_map>
#include <vector>

#include <votca/csg/beadmotif.h>
#include <votca/csg/beadmotifalgorithms.h>
#include <votca/csg/beadmotifconnector.h>
#include <votca/csg/beadstructure.h>
#include <votca/csg/beadstructurealgorithms.h>
#include <votca/tools/edge.h>
#include <votca/tools/graph.h>
#include <votca/tools/graph_bf_visitor.h>
#include <votca/tools/graph_df_visitor.h>
#include <votca/tools/graphalgorithm.h>
#include <votca/tools/graphdistvisitor.h>
#include <votca/tools/graphnode.h>
#include <votca/tools/reducedgraph.h>

using namespace votca;
using namespace votca::tools;
using votca::csg::BeadStructure;

namespace {

struct PlainBead {
  Index id;
  std::string name;
  double mass;
  Index getId() const { return id; }
  std::string getName() const { return name; }
  double getMass() const { return mass; }
};

GraphNode makeNode(const std::string &name, double mass) {
  std::unordered_map<std::string, double> d;
  std::unordered_map<std::string, std::string> s;
  d["Mass"] = mass;
  s["Name"] = name;
  GraphNode gn;
  gn.setDouble(d);
  gn.setStr(s);
  return gn;
}

void printEdges(std::ostream &os, const std::vector<Edge> &edges) {
  for (const Edge &e : edges) os << " " << e.getEndPoint1() << "-" << e.getEndPoint2();
}

void printGraphLine(std::ostream &os, Graph &g) {
  // vertices come from the edge container, attributes from the nodes
  os << "graph";
  for (Index v : g.getVertices()) os << " " << v;
  os << " | nodes";
  for (auto &p : g.getNodes()) {
    GraphNode gn = p.second;
    os << " " << p.first << ":";
    try {
      os << gn.getStr("Name") << ":" << gn.getDouble("Mass");
    } catch (const std::exception &) {
      os << "?:?";
    }
  }
  os << " | edges";
  printEdges(os, g.getEdges());
  os << std::endl;
}

void printLabels(std::ostream &os, Graph &g, const std::set<Index> &expl) {
  os << "dist";
  std::vector<Index> nolabel;
  for (auto &p : g.getNodes()) {
    GraphNode gn = p.second;
    try {
      Index d = gn.getInt("Dist");
      os << " " << p.first << ":" << d;
    } catch (const std::invalid_argument &) {
      nolabel.push_back(p.first);
    }
  }
  os << " | expl";
  for (Index v : expl) os << " " << v;
  os << " | nolabel";
  for (Index v : nolabel) os << " " << v;
  os << std::endl;
}

const char *motifTypeName(csg::BeadMotif::MotifType t) {
  switch (t) {
    case csg::BeadMotif::empty: return "empty";
    case csg::BeadMotif::single_bead: return "single_bead";
    case csg::BeadMotif::line: return "line";
    case csg::BeadMotif::loop: return "loop";
    case csg::BeadMotif::fused_ring: return "fused_ring";
    case csg::BeadMotif::single_structure: return "single_structure";
    case csg::BeadMotif::multiple_structures: return "multiple_structures";
    default: return "undefined";
  }
}

}  // namespace

int main() {
  std::string line;
  long seq = 0;
  std::cout.precision(17);
  std::unique_ptr<Graph> G;
  std::unique_ptr<Graph> Gold;
  std::map<int, BeadStructure> bs;
  while (std::getline(std::cin, line)) {
    ++seq;
    std::istringstream in(line);
    std::string cmd;
    in >> cmd;
    std::cout << "cmd " << seq << " " << line << std::endl;
    try {
      if (cmd == "g") {
        long nv, ne;
        in >> nv;
        std::unordered_map<Index, GraphNode> nodes;
        for (long i = 0; i < nv; ++i) {
          Index id;
          std::string name;
          double mass;
          in >> id >> name >> mass;
          nodes[id] = makeNode(name, mass);
        }
        in >> ne;
        std::vector<Edge> edges;
        for (long i = 0; i < ne; ++i) {
          Index a, b;
          in >> a >> b;
          edges.push_back(Edge(a, b));
        }
        if (!in) throw std::runtime_error("driver: malformed g command");
        G.reset(new Graph(edges, nodes));
        std::cout << "ok nv " << G->getVertices().size() << " ne " << G->getEdges().size() << std::endl;
      } else if (cmd == "prelabel") {
        Index v, d;
        in >> v >> d;
        GraphNode gn = G->getNode(v);
        std::unordered_map<std::string, Index> iv;
        iv["Dist"] = d;
        gn.setInt(iv);
        G->setNode(v, gn);
        std::cout << "ok" << std::endl;
      } else if (cmd == "hdist") {
        Index start;
        in >> start;
        GraphDistVisitor gv;
        gv.setStartingVertex(start);
        exploreGraph(*G, gv);
        std::set<Index> expl = gv.getExploredVertices();
        std::cout << "dist";
        std::vector<Index> nolabel;
        for (auto &p : G->getNodes()) {
          GraphNode gn = p.second;
          try {
            Index d = gn.getInt("Dist");
            std::cout << " " << p.first << ":" << d;
          } catch (const std::invalid_argument &) {
            nolabel.push_back(p.first);
          }
        }
        std::cout << " | expl";
        for (Index v : expl) std::cout << " " << v;
        std::cout << " | nolabel";
        for (Index v : nolabel) std::cout << " " << v;
        std::cout << std::endl;
      } else if (cmd == "dfs") {
        Index start;
        in >> start;
        Graph g = *G;
        Graph_DF_Visitor gv;
        gv.setStartingVertex(start);
        exploreGraph(g, gv);
        std::cout << "expl";
        for (Index v : gv.getExploredVertices()) std::cout << " " << v;
        std::cout << std::endl;
      } else if (cmd == "branch") {
        Index st, a, b;
        in >> st >> a >> b;
        std::set<Edge> br = exploreBranch(*G, st, Edge(a, b));
        std::cout << "branch";
        printEdges(std::cout, std::vector<Edge>(br.begin(), br.end()));
        std::cout << std::endl;
      } else if (cmd == "gcopy") {
        int mode;
        in >> mode;
        std::unique_ptr<Graph> c;
        if (mode == 0) {
          c.reset(new Graph(*G));
        } else if (mode == 1) {
          c.reset(new Graph());
          *c = *G;
        } else {
          std::unordered_map<Index, GraphNode> nodes;
          nodes[1] = makeNode("X", 1.0);
          nodes[2] = makeNode("Y", 2.0);
          c.reset(new Graph(std::vector<Edge>{Edge(1, 2)}, nodes));
          GraphDistVisitor gv;
          gv.setStartingVertex(1);
          exploreGraph(*c, gv);
          *c = *G;
        }
        Gold = std::move(G);
        G = std::move(c);
        std::cout << "ok" << std::endl;
      } else if (cmd == "gold") {
        printLabels(std::cout, *Gold, std::set<Index>());
        printGraphLine(std::cout, *Gold);
      } else if (cmd == "dist" || cmd == "bfs") {
        Index start;
        in >> start;
        Graph g = *G;
        std::set<Index> expl;
        if (cmd == "dist") {
          GraphDistVisitor gv;
          gv.setStartingVertex(start);
          exploreGraph(g, gv);
          expl = gv.getExploredVertices();
          std::cout << "dist";
          std::vector<Index> nolabel;
          for (auto &p : g.getNodes()) {
            GraphNode gn = p.second;
            try {
              Index d = gn.getInt("Dist");
              std::cout << " " << p.first << ":" << d;
            } catch (const std::invalid_argument &) {
              nolabel.push_back(p.first);
            }
          }
          std::cout << " | expl";
          for (Index v : expl) std::cout << " " << v;
          std::cout << " | nolabel";
          for (Index v : nolabel) std::cout << " " << v;
          std::cout << std::endl;
        } else {
          Graph_BF_Visitor gv;
          gv.setStartingVertex(start);
          exploreGraph(g, gv);
          expl = gv.getExploredVertices();
          std::cout << "expl";
          for (Index v : expl) std::cout << " " << v;
          std::cout << std::endl;
        }
      } else if (cmd == "single") {
        Index start;
        in >> start;
        Graph g = *G;
        if (start < 0) {
          std::vector<Index> vs = g.getVertices();
          if (vs.empty()) {
            std::cout << "single novertex" << std::endl;
            continue;
          }
          start = vs.at(0);
        }
        Graph_BF_Visitor gv;
        gv.setStartingVertex(start);
        bool s = singleNetwork(g, gv);
        std::cout << "single " << (s ? 1 : 0) << " start " << start << std::endl;
      } else if (cmd == "decouple") {
        std::vector<Graph> parts = decoupleIsolatedSubGraphs(*G);
        std::cout << "ncomp " << parts.size() << std::endl;
        for (Graph &p : parts) {
          std::cout << "comp";
          for (Index v : p.getVertices()) std::cout << " " << v;
          std::cout << " | nodes";
          for (auto &n : p.getNodes()) {
            GraphNode gn = n.second;
            std::cout << " " << n.first << ":" << gn.getStr("Name") << ":" << gn.getDouble("Mass");
          }
          std::cout << " | edges";
          printEdges(std::cout, p.getEdges());
          std::cout << std::endl;
        }
      } else if (cmd == "reduce") {
        ReducedGraph rg = reduceGraph(*G);
        // chains: every distinct reduced edge expands into one or more chains
        std::vector<Edge> red = rg.getEdges();
        std::set<Edge> distinct(red.begin(), red.end());
        std::vector<std::vector<Edge>> chains;
        for (const Edge &e : distinct) {
          for (auto &c : rg.expandEdge(e)) chains.push_back(c);
        }
        std::cout << "nchain " << chains.size() << " nred " << red.size() << std::endl;
        std::cout << "red";
        printEdges(std::cout, red);
        std::cout << std::endl;
        for (auto &c : chains) {
          std::cout << "chain";
          printEdges(std::cout, c);
          std::cout << std::endl;
        }
        std::cout << "redv";
        for (Index v : rg.getVertices()) std::cout << " " << v;
        std::cout << std::endl;
        Graph ex = rg.expandGraph();
        std::cout << "expv";
        for (Index v : ex.getVertices()) std::cout << " " << v;
        std::cout << std::endl;
        std::cout << "expe";
        printEdges(std::cout, ex.getEdges());
        std::cout << std::endl;
        std::cout << "expn";
        for (auto &n : ex.getNodes()) {
          GraphNode gn = n.second;
          std::cout << " " << n.first << ":" << gn.getStr("Name") << ":" << gn.getDouble("Mass");
        }
        std::cout << std::endl;
      } else if (cmd == "sid") {
        Graph g = *G;
        std::string id = findStructureId<GraphDistVisitor>(g);
        std::cout << "sid " << id << std::endl;
      } else if (cmd == "bs_new") {
        int s;
        in >> s;
        bs[s] = BeadStructure();
        std::cout << "ok" << std::endl;
      } else if (cmd == "bs_add") {
        int s;
        PlainBead b;
        in >> s >> b.id >> b.name >> b.mass;
        bs.at(s).AddBead(b);
        std::cout << "ok count " << bs.at(s).BeadCount() << std::endl;
      } else if (cmd == "bs_conn") {
        int s;
        Index a, b;
        in >> s >> a >> b;
        bs.at(s).ConnectBeads(a, b);
        std::cout << "ok" << std::endl;
      } else if (cmd == "bs_single") {
        int s;
        in >> s;
        std::cout << "single " << (bs.at(s).isSingleStructure() ? 1 : 0) << std::endl;
      } else if (cmd == "bs_equiv") {
        int s, t;
        in >> s >> t;
        std::cout << "equiv " << (bs.at(s).isStructureEquivalent(bs.at(t)) ? 1 : 0) << std::endl;
      } else if (cmd == "bs_copy") {
        int src, dst, mode;
        in >> src >> dst >> mode;
        if (mode == 0) {
          BeadStructure c(bs.at(src));
          bs.erase(dst);
          bs.emplace(dst, c);
        } else {
          bs.at(dst) = bs.at(src);
        }
        std::cout << "ok" << std::endl;
      } else if (cmd == "bs_motifs") {
        int sl;
        in >> sl;
        // breakIntoMotifs, then breakIntoSimpleMotifs of every independent motif
        std::vector<csg::BeadMotif> tops = csg::breakIntoMotifs<std::vector<csg::BeadMotif>>(bs.at(sl));
        std::cout << "ntop " << tops.size() << std::endl;
        for (csg::BeadMotif &top : tops) {
          std::cout << "top " << motifTypeName(top.getType()) << " ids";
          for (Index v : top.getBeadIds()) std::cout << " " << v;
          std::cout << std::endl;
          auto res = csg::breakIntoSimpleMotifs(top);
          for (auto &im : res.first) {
            Graph g = im.second.getGraph();
            std::cout << "motif " << im.first << " " << motifTypeName(im.second.getType()) << " ids";
            for (Index v : im.second.getBeadIds()) std::cout << " " << v;
            std::cout << " | edges";
            printEdges(std::cout, g.getEdges());
            std::cout << std::endl;
          }
          for (const Edge &be : res.second.getBeadEdges()) {
            Edge me = res.second.getMotifEdge(be);
            std::cout << "conn " << be.getEndPoint1() << "-" << be.getEndPoint2() << " motifs " << me.getEndPoint1()
                      << " " << me.getEndPoint2() << std::endl;
          }
        }
      } else if (cmd == "bs_graph") {
        int s;
        in >> s;
        Graph g = bs.at(s).getGraph();
        printGraphLine(std::cout, g);
      } else if (cmd == "bs_ids") {
        int s;
        in >> s;
        std::cout << "ids";
        for (Index v : bs.at(s).getBeadIds()) std::cout << " " << v;
        std::cout << " | count " << bs.at(s).BeadCount() << std::endl;
      } else if (cmd == "bs_neigh") {
        int s;
        Index v;
        in >> s >> v;
        std::cout << "neigh";
        for (Index w : bs.at(s).getNeighBeadIds(v)) std::cout << " " << w;
        std::cout << std::endl;
      } else if (cmd == "bs_sub") {
        int s, dst;
        long nv, ne;
        in >> s >> dst >> nv;
        std::vector<Index> ids;
        for (long i = 0; i < nv; ++i) {
          Index v;
          in >> v;
          ids.push_back(v);
        }
        in >> ne;
        std::vector<Edge> edges;
        for (long i = 0; i < ne; ++i) {
          Index a, b;
          in >> a >> b;
          edges.push_back(Edge(a, b));
        }
        BeadStructure sub = bs.at(s).getSubStructure(ids, edges);
        bs[dst] = sub;
        Graph g = bs.at(dst).getGraph();
        printGraphLine(std::cout, g);
      } else if (cmd == "bs_break") {
        int s;
        in >> s;
        std::vector<BeadStructure> parts = csg::breakIntoStructures(bs.at(s));
        std::cout << "nparts " << parts.size() << std::endl;
        for (BeadStructure &p : parts) {
          Graph g = p.getGraph();
          std::cout << "part ids";
          for (Index v : p.getBeadIds()) std::cout << " " << v;
          std::cout << " | ";
          printGraphLine(std::cout, g);
        }
      } else {
        std::cout << "err unknown command" << std::endl;
      }
    } catch (const std::exception &e) {
      std::string w = e.what();
      std::replace(w.begin(), w.end(), '\n', ' ');
      std::cout << "exc " << w << std::endl;
    }
  }
  return 0;
}
