# --- C06 least squares: tools::linalg_constrained_qrsolve, linalg.cc compiled into the driver with
# assertions + sanitizers on (see drivers/lsq.cc).  csg_imc_solve is a target of the repository itself.
verif_driver(drv_lsq ${D}/lsq.cc ${VERIF_REPO}/tools/src/libtools/linalg.cc)
verif_sanitize(drv_lsq)
