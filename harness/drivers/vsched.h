// Baton scheduler for the VOTCA_VERIF hooks (DESIGN.md Appendix A.1).
// Exactly one application thread runs at a time.  A thread arriving at a yield
// point (a hook event) publishes its pending operation and parks; the scheduler
// picks one *enabled* pending operation (a lock request is enabled iff the
// scheduler's model of that mutex is unlocked, a join iff the target is done),
// applies it to its model, and lets that thread run to its next yield point.
// "Blocked", "runnable" and "deadlock" are therefore known exactly, never
// inferred from timing.
#pragma once
#include <pthread.h>

#include <condition_variable>
#include <functional>
#include <map>
#include <mutex>
#include <random>
#include <sstream>
#include <string>
#include <vector>

#include <votca/tools/verif_hook.h>

namespace vsched {

enum UserKind { U_READ = VV_USER + 1, U_EVAL = VV_USER + 2, U_MERGE = VV_USER + 3, U_MMERGE = VV_USER + 4 };

struct Op {
  std::string k, o;
  long i = 0;
  std::string str() const { return k + ":" + o + ":" + std::to_string(i); }
};

struct ThreadRec {
  pthread_t os{};
  const void *obj = nullptr;  // tools::Thread* for workers
  bool arrived = false;       // os thread exists and is parked at THREAD_BEGIN
  bool visible = false;       // parent's "start" step has been executed
  bool parked = false;
  bool go = false;            // granted: may run to its next yield point
  bool done = false;
  int kind = 0;
  const void *pobj = nullptr;
  long parg = 0;
  Op pending;
};

struct Step {
  int thread;
  Op op;
  std::vector<int> enabled;  // enabled threads when the choice was made
  std::string before, after; // projected state keys / json
};

class Scheduler {
 public:
  // configuration
  bool active = false;
  std::vector<int> script;          // imposed choices (thread ids), then fallback
  int fallback = 0;                 // 0: lowest enabled id, 1: random
  std::mt19937_64 rng;
  std::function<std::string()> snapshot;      // projected state as JSON (called with all threads parked)
  std::function<Op(int, int, const void *, long)> naming;  // (thread, kind, obj, arg) -> Op
  // called (with every thread parked) when no thread is enabled or the script cannot be followed; the
  // drivers print what they have and _exit: continuing in-process after tearing threads down is fragile
  std::function<void()> on_abort;
  // results
  std::vector<Step> steps;
  bool deadlock = false, script_mismatch = false, bad_unlock = false;
  std::string error;

  std::map<const void *, bool> locked;

  void reset() {
    std::lock_guard<std::mutex> g(mu);
    threads.clear();
    steps.clear();
    // 'locked' is NOT cleared: mutex objects may outlive a pass; their lifetime is tracked by INIT/DESTROY events
    deadlock = script_mismatch = bad_unlock = false;
    aborted = false;
    error.clear();
    baton = 0;
    pending_after = -1;
    spos = 0;
    ThreadRec m;
    m.os = pthread_self();
    m.arrived = m.visible = true;
    threads.push_back(m);
  }

  int nthreads() { return (int)threads.size(); }
  // controlled threads other than main that have not run to their end (still parked somewhere)
  int unfinished() {
    std::lock_guard<std::mutex> g(mu);
    int n = 0;
    for (size_t i = 1; i < threads.size(); ++i)
      if (threads[i].arrived && !threads[i].done) ++n;
    return n;
  }
  const ThreadRec &thread(int i) { return threads[i]; }
  int index_of_obj(const void *obj) {
    for (size_t i = 0; i < threads.size(); ++i)
      if (threads[i].obj == obj) return (int)i;
    return -1;
  }

  // called from votca_verif_event
  void event(int kind, const void *obj, long arg) {
    std::unique_lock<std::mutex> g(mu);
    // construction / destruction of a mutex keep the model exact across passes on one application object
    // (they are not yield points and are tracked even while the scheduler is not stepping threads)
    if (kind == VV_MUTEX_INIT) {
      locked[obj] = false;
      return;
    }
    if (kind == VV_MUTEX_DESTROY) {
      locked.erase(obj);
      return;
    }
    if (!active) return;
    int me = self();
    if (kind == VV_THREAD_BEGIN && me < 0) {
      // a new OS thread announces itself; its record was created by the parent or is created now
      int idx = index_of_obj(obj);
      if (idx < 0) {
        ThreadRec r;
        r.obj = obj;
        threads.push_back(r);
        idx = (int)threads.size() - 1;
      }
      threads[idx].os = pthread_self();
      threads[idx].arrived = true;
      me = idx;
      set_pending(me, kind, obj, arg);
      threads[me].parked = true;
      cv.notify_all();
      cv.wait(g, [&] { return threads[me].go || aborted; });
      if (!threads[me].go) {
        g.unlock();
        pthread_exit(nullptr);
      }
      threads[me].go = false;
      return;
    }
    if (me < 0) return;  // a thread we do not control (none in these drivers)
    if (kind == VV_THREAD_START) {
      // parent side, after pthread_create: wait until the child is parked at THREAD_BEGIN
      int idx = index_of_obj(obj);
      if (idx < 0) {
        ThreadRec r;
        r.obj = obj;
        threads.push_back(r);
        idx = (int)threads.size() - 1;
      }
      cv.wait(g, [&] { return threads[idx].arrived; });
    }
    set_pending(me, kind, obj, arg);
    threads[me].parked = true;
    finish_step();
    pick_next();
    cv.wait(g, [&] { return threads[me].go || aborted; });
    if (!threads[me].go) {
      // deadlock or script mismatch: let every thread die quietly
      g.unlock();
      if (me == 0) throw std::runtime_error("vsched: " + error);
      pthread_exit(nullptr);
    }
    threads[me].go = false;
  }

  // main thread: the controlled part is over (all workers joined)
  void finish() {
    std::unique_lock<std::mutex> g(mu);
    if (!active) return;
    threads[0].done = true;
    threads[0].pending = Op{"done", "", 0};
    finish_step();
    active = false;
  }

  bool aborted = false;

 private:
  std::mutex mu;
  std::condition_variable cv;
  std::vector<ThreadRec> threads;
  int baton = 0;
  int pending_after = -1;  // index in steps whose 'after' snapshot is still missing
  size_t spos = 0;

  int self() {
    pthread_t s = pthread_self();
    for (size_t i = 0; i < threads.size(); ++i)
      if (threads[i].arrived && pthread_equal(threads[i].os, s)) return (int)i;
    return -1;
  }
  void set_pending(int t, int kind, const void *obj, long arg) {
    threads[t].kind = kind;
    threads[t].pobj = obj;
    threads[t].parg = arg;
    threads[t].pending = naming(t, kind, obj, arg);
  }
  void finish_step() {
    if (pending_after >= 0) {
      steps[pending_after].after = snapshot();
      pending_after = -1;
    }
  }
  bool enabled(int t) {
    ThreadRec &r = threads[t];
    if (!r.visible || !r.parked || r.done) return false;
    if (r.kind == VV_LOCK_REQ) return !locked[r.pobj];
    if (r.kind == VV_JOIN_REQ) {
      int idx = index_of_obj(r.pobj);
      return idx >= 0 && threads[idx].done;
    }
    return true;
  }
  void pick_next() {
    for (;;) {
      std::vector<int> en;
      for (int t = 0; t < (int)threads.size(); ++t)
        if (enabled(t)) en.push_back(t);
      if (en.empty()) {
        bool all_done = true;
        for (auto &r : threads)
          if (r.visible && !r.done) all_done = false;
        if (!all_done) {
          deadlock = true;
          error = "deadlock: no enabled thread";
          if (on_abort) on_abort();
          aborted = true;
          cv.notify_all();
        }
        return;
      }
      int c;
      if (spos < script.size()) {
        c = script[spos++];
        bool ok = false;
        for (int e : en) ok = ok || e == c;
        if (!ok) {
          script_mismatch = true;
          error = "script step " + std::to_string(spos - 1) + ": thread " + std::to_string(c) + " is not enabled";
          if (on_abort) on_abort();
          aborted = true;
          cv.notify_all();
          return;
        }
      } else if (fallback == 1) {
        c = en[rng() % en.size()];
      } else {
        c = en[0];
      }
      ThreadRec &r = threads[c];
      Step s;
      s.thread = c;
      s.op = r.pending;
      s.enabled = en;
      s.before = snapshot();
      // apply to the model
      if (r.kind == VV_LOCK_REQ) locked[r.pobj] = true;
      if (r.kind == VV_UNLOCK) {
        if (!locked[r.pobj]) bad_unlock = true;
        locked[r.pobj] = false;
      }
      if (r.kind == VV_THREAD_START) {
        int idx = index_of_obj(r.pobj);
        threads[idx].visible = true;
      }
      steps.push_back(s);
      if (r.kind == VV_THREAD_END) {
        r.done = true;
        r.parked = false;
        r.pending = Op{"done", "", 0};
        steps.back().after = snapshot();
        r.go = true;  // let it run out; it touches nothing shared any more
        r.kind = -1;
        cv.notify_all();
        continue;  // choose again on behalf of the finished thread
      }
      pending_after = (int)steps.size() - 1;
      r.parked = false;
      r.go = true;
      baton = c;
      cv.notify_all();
      return;
    }
  }
};

}  // namespace vsched
