// C10 driver: the real ProgObserver<std::vector<Job>> + LOAD_JOBS/WRITE_JOBS/UPDATE_JOBS
// (xtp/src/libxtp/progressobserver.cc, job.cc compiled into this executable) driven by a
// stub job calculator that reproduces the thread loop of ParallelXJobCalc::Evaluate /
// JobOperator::Run.  Modes:
//
//   drv_jobfile load FILE          one JSON line: {"ok":true,"jobs":[{id,st,host,out}..]} | {"ok":false}
//   drv_jobfile loadserver         the same for every file name read from stdin (one per line)
//   drv_jobfile worker --alias N --jobfile F --file LOCKFILE --cache C --maxjobs M --restart PAT
//                      --threads T --fail 2,3 [--sleep-us S --seed X]
//
// worker: with VERIF_SOCK set, every hook event of every thread is sent to the coordinator
// (harness/python/engines/c10_coord.py) over its own unix-socket connection and the thread
// blocks until the reply ("go" | "crash"); "crash" = _exit(137) on the spot (stdio/ofstream
// buffers are discarded, so a file being written stays a strict prefix).  Without VERIF_SOCK
// the process runs free and prints "exec <job>" lines.
#include <sys/socket.h>
#include <sys/syscall.h>
#include <sys/un.h>
#include <unistd.h>

#include <atomic>
#include <cstdio>
#include <cstdlib>
#include <cstring>
#include <iostream>
#include <map>
#include <memory>
#include <mutex>
#include <random>
#include <sstream>
#include <string>
#include <vector>

#include <boost/program_options.hpp>

#include <votca/tools/verif_hook.h>

#include "votca/xtp/job.h"
#include "votca/xtp/progressobserver.h"
#include "votca/xtp/qmthread.h"

using votca::Index;
using votca::xtp::Job;
using votca::xtp::QMThread;
using PO = votca::xtp::ProgObserver<std::vector<Job>>;

// hook kinds (>= 200: owned by this engine; 201..211 are raised from the xtp sources)
enum {
  K_LOCKREQ = 201, K_LOCKED = 202, K_LOADED = 203, K_BWRITTEN = 204, K_ASSIGNED = 205, K_FWRITTEN = 206,
  K_RELEASED = 207, K_WOPEN = 210, K_WREC = 211,
  // raised by this driver
  K_START = 219, K_REQ = 220, K_TOOK = 221, K_EVALED = 222, K_JOIN = 223, K_ENDED = 224, K_DONE = 225, K_ABORT = 226,
  K_SPAWN = 227  // master is about to start worker thread arg
};

// ---- read-only access to the observer's private state (explicit-instantiation idiom) -------------
template <typename Tag, typename Tag::type M>
struct Rob {
  friend typename Tag::type get(Tag) { return M; }
};
#define ROB(tag, T, member)                  \
  struct tag {                               \
    using type = T PO::*;                    \
    friend type get(tag);                    \
  };                                         \
  template struct Rob<tag, &PO::member>;
ROB(TJobs, std::vector<Job>, jobs_)
ROB(TMeta, std::vector<Job>::iterator, metajit_)
ROB(TToProc, std::vector<Job *>, jobsToProc_)
ROB(TNext, std::vector<Job *>::iterator, nextjit_)
ROB(TMore, bool, moreJobsAvailable_)
ROB(TStarted, Index, startJobsCount_)

static std::string jesc(const std::string &s) {
  std::string o;
  for (char ch : s) {
    if (ch == '"' || ch == '\\') {
      o += '\\';
      o += ch;
    } else if ((unsigned char)ch < 0x20) {
      char b[8];
      snprintf(b, sizeof b, "\\u%04x", ch);
      o += b;
    } else
      o += ch;
  }
  return o;
}

static std::string job_json(const Job &j) {
  std::ostringstream o;
  o << "{\"id\":" << j.getId() << ",\"st\":\"" << j.getStatusStr() << "\",\"host\":\""
    << (j.hasHost() ? jesc(j.getHost()) : std::string()) << "\",\"out\":\""
    << (j.hasOutput() ? jesc(j.getOutput().value()) : std::string()) << "\"}";
  return o.str();
}

static std::string jobs_json(const std::vector<Job> &jobs) {
  std::string o = "[";
  for (size_t i = 0; i < jobs.size(); ++i) {
    if (i) o += ",";
    o += job_json(jobs[i]);
  }
  return o + "]";
}

static std::string load_digest(const std::string &file) {
  try {
    std::vector<Job> jobs = votca::xtp::LOAD_JOBS(file);
    return "{\"ok\":true,\"jobs\":" + jobs_json(jobs) + "}";
  } catch (std::exception &e) {
    return "{\"ok\":false,\"why\":\"" + jesc(e.what()) + "\"}";
  }
}

// ---- worker ---------------------------------------------------------------------------------------
static PO *g_obs = nullptr;
static int g_alias = 0;
static std::string g_sock;
static std::atomic<bool> g_stale_next{false};  // jobsToProc_ cleared, nextjit_ not yet reset
static thread_local int t_index = 0;           // 0 = master, 1.. = workers
static thread_local int t_fd = -1;
static std::mutex g_out;

static std::string obs_json() {
  if (!g_obs) return "null";
  PO &o = *g_obs;
  const std::vector<Job> &jobs = o.*get(TJobs());
  const std::vector<Job *> &tp = o.*get(TToProc());
  std::ostringstream s;
  s << "{\"mem\":" << jobs_json(jobs);
  s << ",\"meta\":" << (jobs.empty() ? 1 : (o.*get(TMeta()) - const_cast<std::vector<Job> &>(jobs).begin()) + 1);
  s << ",\"toProc\":[";
  for (size_t i = 0; i < tp.size(); ++i) s << (i ? "," : "") << tp[i]->getId();
  s << "]";
  long next = 0;
  if (!g_stale_next) next = tp.empty() ? 1 : (o.*get(TNext()) - const_cast<std::vector<Job *> &>(tp).begin()) + 1;
  s << ",\"next\":" << next << ",\"more\":" << ((o.*get(TMore())) ? "true" : "false")
    << ",\"started\":" << o.*get(TStarted()) << "}";
  return s.str();
}

static void die(const char *what) {
  fprintf(stderr, "drv_jobfile[%d]: %s\n", g_alias, what);
  _exit(98);
}

static void connect_thread() {
  t_fd = socket(AF_UNIX, SOCK_STREAM, 0);
  if (t_fd < 0) die("socket");
  sockaddr_un a{};
  a.sun_family = AF_UNIX;
  strncpy(a.sun_path, g_sock.c_str(), sizeof(a.sun_path) - 1);
  if (connect(t_fd, (sockaddr *)&a, sizeof a) != 0) die("connect to coordinator failed");
}

extern "C" void votca_verif_event(int kind, const void *obj, long arg) {
  // tools::Mutex lock request / unlock (the observer's thread mutex) are forwarded so that the coordinator's mutex
  // model follows the real events; the tools::Thread yield points are not used by this engine
  bool mutex_ev = (kind == VV_LOCK_REQ || kind == VV_UNLOCK);
  if (kind < 200 && !mutex_ev) return;
  if (kind == K_ASSIGNED) g_stale_next = true;
  if (kind == K_TOOK || kind == K_ENDED) g_stale_next = false;
  if (g_sock.empty()) return;
  if (t_fd < 0) connect_thread();
  std::ostringstream m;
  m << "{\"p\":" << g_alias << ",\"t\":" << t_index << ",\"pid\":" << getpid() << ",\"tid\":" << (long)syscall(SYS_gettid) << ",\"k\":" << kind << ",\"a\":" << arg;
  if (mutex_ev) m << ",\"m\":\"" << obj << "\"";
  if (kind == K_WOPEN || kind == K_WREC) {
    std::string f = (const char *)obj;
    m << ",\"bak\":" << ((!f.empty() && f.back() == '~') ? "true" : "false");
  }
  if (kind != K_WREC && !mutex_ev) m << ",\"s\":" << obs_json();
  m << "}\n";
  std::string msg = m.str();
  size_t off = 0;
  while (off < msg.size()) {
    ssize_t n = write(t_fd, msg.data() + off, msg.size() - off);
    if (n <= 0) die("write to coordinator failed");
    off += (size_t)n;
  }
  std::string reply;
  char ch;
  while (true) {
    ssize_t n = read(t_fd, &ch, 1);
    if (n <= 0) _exit(97);  // coordinator went away: stop quietly
    if (ch == '\n') break;
    reply += ch;
  }
  if (reply == "crash") _exit(137);
  if (reply != "go") die("bad reply from coordinator");
}

struct Calc {
  std::vector<Index> fail;
  std::map<Index, int> seen;
  long sleep_us = 0;
  Job::JobResult Eval(const Job &job, std::mt19937_64 &rng) {
    if (sleep_us > 0) usleep((useconds_t)(rng() % (unsigned long)sleep_us));
    if (g_sock.empty()) {
      std::lock_guard<std::mutex> g(g_out);
      printf("\nexec %ld\n", (long)job.getId());
      fflush(stdout);
      // free running: a process that is handed the same job a third time will most likely go on for ever
      if (++seen[job.getId()] >= 3) {
        printf("\nreexec %ld\n", (long)job.getId());
        fflush(stdout);
        _exit(4);
      }
    }
    Job::JobResult res;
    bool f = false;
    for (Index x : fail) f = f || x == job.getId();
    res.setStatus(f ? Job::FAILED : Job::COMPLETE);
    res.setOutput(std::string("r") + std::to_string(g_alias));
    return res;
  }
};

[[noreturn]] static void aborted(const char *what) {
  try {
    votca_verif_event(K_ABORT, nullptr, 0);
  } catch (...) {
  }
  {
    std::lock_guard<std::mutex> g(g_out);
    printf("\naborted %s\n", what);
    fflush(stdout);
  }
  _exit(3);
}

// ParallelXJobCalc::JobOperator::Run
class Worker : public QMThread {
 public:
  Worker(int idx, bool maverick, Calc &calc, unsigned long seed) : QMThread(maverick), idx_(idx), calc_(calc), rng_(seed) {
    setId(idx);
  }
  void Run() override {
    t_index = idx_;
    try {
      while (true) {
        votca_verif_event(K_REQ, this, 0);
        Job *job = g_obs->RequestNextJob(*this);
        if (job == nullptr) {
          votca_verif_event(K_ENDED, this, 0);
          break;
        }
        votca_verif_event(K_TOOK, this, job->getId());
        Job::JobResult res = calc_.Eval(*job, rng_);
        votca_verif_event(K_EVALED, this, job->getId());
        g_obs->ReportJobDone(*job, res, *this);
      }
    } catch (std::exception &e) {
      aborted(e.what());
    }
  }

 private:
  int idx_;
  Calc &calc_;
  std::mt19937_64 rng_;
};

static int worker_main(int argc, char **argv) {
  namespace po = boost::program_options;
  po::options_description desc("worker");
  std::string jobfile, failstr;
  int threads = 1;
  unsigned long seed = 1;
  Calc calc;
  desc.add_options()("alias", po::value<int>(&g_alias)->default_value(1), "")("jobfile", po::value<std::string>(&jobfile), "")(
      "file", po::value<std::string>(), "")(
      "cache", po::value<Index>()->default_value(1), "")("maxjobs", po::value<Index>()->default_value(1000000), "")(
      "restart", po::value<std::string>()->default_value(""), "")("threads", po::value<int>(&threads)->default_value(1), "")(
      "fail", po::value<std::string>(&failstr)->default_value(""), "")("sleep-us", po::value<long>(&calc.sleep_us)->default_value(0), "")(
      "seed", po::value<unsigned long>(&seed)->default_value(1), "");
  po::variables_map vm;
  po::store(po::parse_command_line(argc, argv, desc), vm);
  // (ProgObserver::InitCmdLineOpts reads the lock file name from option "file")
  po::notify(vm);
  {
    std::stringstream ss(failstr);
    std::string tok;
    while (std::getline(ss, tok, ','))
      if (!tok.empty()) calc.fail.push_back(std::stol(tok));
  }
  const char *sock = getenv("VERIF_SOCK");
  if (sock && *sock) g_sock = sock;

  PO obs;
  g_obs = &obs;
  bool maverick = (threads == 1);
  try {
    obs.InitCmdLineOpts(vm);
    // ParallelXJobCalc::Evaluate
    QMThread master(true);
    master.getLogger().setReportLevel(votca::Log::error);
    votca_verif_event(K_START, nullptr, 0);
    obs.InitFromProgFile(jobfile, master);
    std::vector<std::unique_ptr<Worker>> ops;
    for (int i = 0; i < threads; ++i) {
      ops.push_back(std::make_unique<Worker>(i + 1, maverick, calc, seed * 1000 + (unsigned long)i));
      ops.back()->getLogger().setReportLevel(votca::Log::error);
    }
    for (size_t i = 0; i < ops.size(); ++i) {
      votca_verif_event(K_SPAWN, nullptr, (long)i + 1);
      ops[i]->Start();
    }
    votca_verif_event(K_JOIN, nullptr, 0);
    for (auto &w : ops) w->WaitDone();
    ops.clear();
    obs.SyncWithProgFile(master);
    votca_verif_event(K_DONE, nullptr, 0);
  } catch (std::exception &e) {
    aborted(e.what());
  }
  {
    std::lock_guard<std::mutex> g(g_out);
    printf("\nfinished\n");
    fflush(stdout);
  }
  _exit(0);  // skip static destructors: other threads are gone, nothing left to flush
}

int main(int argc, char **argv) {
  std::string mode = argc > 1 ? argv[1] : "";
  if (mode == "load" && argc > 2) {
    std::cout << load_digest(argv[2]) << std::endl;
    return 0;
  }
  if (mode == "loadserver") {
    std::string line;
    while (std::getline(std::cin, line)) std::cout << load_digest(line) << std::endl;
    return 0;
  }
  if (mode == "worker") return worker_main(argc - 1, argv + 1);
  std::cerr << "usage: drv_jobfile load FILE | loadserver | worker ..." << std::endl;
  return 2;
}
