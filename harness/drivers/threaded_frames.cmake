# --- C05 threaded frame dispatcher under the baton scheduler
verif_driver(drv_threaded_frames ${D}/threaded_frames.cc)
target_link_libraries(drv_threaded_frames PRIVATE Threads::Threads)
target_link_options(drv_threaded_frames PRIVATE -rdynamic)
