// Conformance driver for spec/multipole (property C15, partial): a dumb executor of text
// commands against the real votca::xtp::eeInteractor / StaticSite / PolarSite /
// ClassicalSegment code (eeinteractor.cc, staticsite.cc, polarsite.cc are compiled into this
// executable).  No physics in here: it builds the sites it is told to build, calls the
// public API and prints what comes back with 17 significant digits.
//
//   clear
//   site <idx> <kind 0|1> x y z rank q dx dy dz Q20 Q21c Q21s Q22c Q22s axx ayy azz ix iy iz
//        kind 0 StaticSite, 1 PolarSite (diagonal polarisability a, induced dipole i)
//   obs <damp> <tgt> <nsrc> src.. <nobs> o..     damp = 0: eeInteractor(), else eeInteractor(damp)
//        observation numbers (see spec/multipole/Multipole.tla):
//        0 CalcStaticEnergy_site(src1, tgt)         9 CalcStaticEnergy(seg{src..}, seg{tgt})
//        1..3 V after ApplyStaticField<.., V>        4 its return value
//        5..7 V_noE after ApplyStaticField<.., noE_V>  8 its return value
//        10..18 FillTholeInteraction(src1, tgt) row-major
//        19..21 V after ApplyInducedField<V>         22 / 23 CalcPolarEnergy E_indu_indu / E_indu_stat
//        24..32 DipoleDipoleInteraction over {seg{src1}, seg{tgt}}: operator()(i, 3 + j), 33..41 (3 + i, j)
//        42..44 DipoleDipoleInteraction::multiply(induced dipoles)[3..5]
//        -> "val <o> <value> ..."
//   rot <idx> g11 g12 .. g33 cx cy cz tx ty tz     copy of the site, Rotate(g, c), Translate(t)
//        -> "site x y z rank Q0..Q8 pxx pyy pzz pxy pxz pyz"  (polarisability of the copy; zeros for a static site)
//
// Mode H (spec/multipole/SiteHist.tla): two LONG-LIVED site objects, each the only member of its own
// segment (ApplyStaticField/ApplyInducedField work on segments), driven through call histories:
//   hnew <x 1|2> <kind> x y z rank Q(9) a(3) i(3)
//   hcall <x> setMultipole rank Q(9) | setCharge q | setPos x y z | translate x y z | reset
//   hcall <x> rotate g(9) value cx cy cz | own | partner      own/partner: the centre argument is the REFERENCE
//                                                              returned by getPos() of the object itself / of the other object
//   hcall <x> sfield <V|N> obj|site <id>       ApplyStaticField<.., V|noE_V>(segment of the source, segment of x)
//   hcall <x> ifield <V|N> obj|site <id>       ApplyInducedField<V|noE_V>
//   hobs <probe site idx>  -> "o <x> pos(3) rank Q(9) getDipole(3) V(3) V_noE(3)" per object and
//                             "e E(1,2) E(2,1) E(1,P) E(P,1) E(2,P) E(P,2)"  (CalcStaticEnergy_site on the objects themselves)
//
// Many-site operator (spec/multipole/DdiFamily.tla):
//   ddim <damp> <N> <reps> <T> t1..tT  pos(3N) pol(N) x(3N) y(3N)
//        N PolarSites (isotropic polarisability) in segments of 8; DipoleDipoleInteraction::multiply with
//        omp_set_num_threads(1) is the reference; -> "ddim team <threads seen inside a parallel region>
//        ref <max|op x|> thr <t> <max over reps of max|op_t x - ref|> ... dense <max|D x - ref|>
//        sym <y.(op x)> <x.(op y)>"; D is assembled from FillTholeInteraction(site_i, site_j) for every
//        ordered pair and getPInv() (plain matrix-vector sum of real outputs, no physics here)
#include <omp.h>

#include <algorithm>
#include <cstdio>
#include <iostream>
#include <map>
#include <memory>
#include <sstream>
#include <stdexcept>
#include <string>
#include <vector>

#include <votca/xtp/classicalsegment.h>
#include <votca/xtp/dipoledipoleinteraction.h>
#include <votca/xtp/eeinteractor.h>
#include <votca/xtp/polarsite.h>
#include <votca/xtp/staticsite.h>

using namespace votca;
using namespace votca::xtp;

struct Entry {
  int kind = 0;
  std::unique_ptr<StaticSite> s;  // kind 0
  std::unique_ptr<PolarSite> p;   // kind 1
  const StaticSite& st() const { return kind ? static_cast<const StaticSite&>(*p) : *s; }
};

static std::map<int, Entry> sites;

// long-lived objects of the history layer
struct HObj {
  int kind = -1;
  std::unique_ptr<StaticSegment> s;
  std::unique_ptr<PolarSegment> p;
  StaticSite& site() { return kind ? static_cast<StaticSite&>((*p)[0]) : (*s)[0]; }
};
static HObj hobj[3];
static HObj& hget(int x) {
  if (x < 1 || x > 2 || hobj[x].kind < 0) throw std::runtime_error("no such object " + std::to_string(x));
  return hobj[x];
}

static const Entry& get(int idx) {
  auto it = sites.find(idx);
  if (it == sites.end()) throw std::runtime_error("no such site " + std::to_string(idx));
  return it->second;
}

static StaticSegment sseg(const std::vector<int>& idx) {
  StaticSegment seg("s", 0);
  for (int i : idx) seg.push_back(*get(i).s);
  return seg;
}
static PolarSegment pseg(const std::vector<int>& idx) {
  PolarSegment seg("p", 0);
  for (int i : idx) seg.push_back(*get(i).p);
  return seg;
}

template <enum Estatic CE>
static void static_field(const eeInteractor& ee, const std::vector<int>& src, int tgt, double* out4) {
  if (get(tgt).kind != 1) throw std::runtime_error("field target must be a PolarSite");
  PolarSegment t = pseg({tgt});
  for (PolarSite& x : t) x.Reset();
  double e;
  if (get(src[0]).kind == 1) {
    PolarSegment s = pseg(src);
    e = ee.ApplyStaticField<PolarSegment, CE>(s, t);
  } else {
    StaticSegment s = sseg(src);
    e = ee.ApplyStaticField<StaticSegment, CE>(s, t);
  }
  const Eigen::Vector3d& v = (CE == Estatic::noE_V) ? t[0].V_noE() : t[0].V();
  const Eigen::Vector3d& other = (CE == Estatic::noE_V) ? t[0].V() : t[0].V_noE();
  if (other.norm() != 0.0) throw std::runtime_error("the other accumulator was touched");
  out4[0] = v.x();
  out4[1] = v.y();
  out4[2] = v.z();
  out4[3] = e;
}

int main() {
  std::string line;
  long seq = 0;
  std::cout.precision(17);
  while (std::getline(std::cin, line)) {
    ++seq;
    std::istringstream in(line);
    std::string cmd;
    in >> cmd;
    std::cout << "cmd " << seq << " " << line << std::endl;
    try {
      if (cmd == "clear") {
        sites.clear();
        std::cout << "ok" << std::endl;
      } else if (cmd == "site") {
        int idx, kind;
        Index rank;
        Eigen::Vector3d pos, a, ind;
        Vector9d Q;
        in >> idx >> kind >> pos[0] >> pos[1] >> pos[2] >> rank;
        for (int i = 0; i < 9; ++i) in >> Q[i];
        in >> a[0] >> a[1] >> a[2] >> ind[0] >> ind[1] >> ind[2];
        if (!in) throw std::runtime_error("bad site line");
        Entry e;
        e.kind = kind;
        if (kind == 0) {
          e.s.reset(new StaticSite(idx, "C", pos));
          e.s->setMultipole(Q, rank);
        } else {
          e.p.reset(new PolarSite(idx, "C", pos));
          e.p->setMultipole(Q, rank);
          e.p->setpolarization(a.asDiagonal());
          e.p->setInduced_Dipole(ind);
        }
        sites[idx] = std::move(e);
        std::cout << "ok" << std::endl;
      } else if (cmd == "obs") {
        double damp;
        int tgt, nsrc, nobs;
        in >> damp >> tgt >> nsrc;
        std::vector<int> src(nsrc);
        for (int& s : src) in >> s;
        in >> nobs;
        std::vector<int> obs(nobs);
        for (int& o : obs) in >> o;
        if (!in) throw std::runtime_error("bad obs line");
        eeInteractor ee_default;
        eeInteractor ee_damped(damp);
        const eeInteractor& ee = (damp == 0.0) ? ee_default : ee_damped;
        const Entry& T = get(tgt);
        const Entry& S = get(src[0]);
        for (int s : src)
          if (get(s).kind != S.kind) throw std::runtime_error("sources of one segment must have one kind");
        std::map<int, double> val;
        bool doneV = false, doneVn = false, doneT = false, doneI = false, doneP = false, doneD = false;
        for (int o : obs) {
          if (o == 0) {
            val[0] = ee.CalcStaticEnergy_site(S.st(), T.st());
          } else if (o >= 1 && o <= 4) {
            if (!doneV) {
              double r[4];
              static_field<Estatic::V>(ee, src, tgt, r);
              for (int k = 0; k < 4; ++k) val[1 + k] = r[k];
              doneV = true;
            }
          } else if (o >= 5 && o <= 8) {
            if (!doneVn) {
              double r[4];
              static_field<Estatic::noE_V>(ee, src, tgt, r);
              for (int k = 0; k < 4; ++k) val[5 + k] = r[k];
              doneVn = true;
            }
          } else if (o == 9) {
            double e;
            if (S.kind == 0 && T.kind == 0) {
              e = ee.CalcStaticEnergy(sseg(src), sseg({tgt}));
            } else if (S.kind == 0 && T.kind == 1) {
              e = ee.CalcStaticEnergy(sseg(src), pseg({tgt}));
            } else if (S.kind == 1 && T.kind == 1) {
              e = ee.CalcStaticEnergy(pseg(src), pseg({tgt}));
            } else {
              e = ee.CalcStaticEnergy(pseg(src), sseg({tgt}));
            }
            val[9] = e;
          } else if (o >= 10 && o <= 18) {
            if (!doneT) {
              if (S.kind != 1 || T.kind != 1) throw std::runtime_error("thole needs two PolarSites");
              Eigen::Matrix3d t = ee.FillTholeInteraction(*S.p, *T.p);
              for (int i = 0; i < 3; ++i)
                for (int j = 0; j < 3; ++j) val[10 + 3 * i + j] = t(i, j);
              doneT = true;
            }
          } else if (o >= 19 && o <= 21) {
            if (!doneI) {
              if (S.kind != 1 || T.kind != 1) throw std::runtime_error("induced field needs PolarSites");
              PolarSegment s = pseg(src);
              PolarSegment t = pseg({tgt});
              for (PolarSite& x : t) x.Reset();
              ee.ApplyInducedField<Estatic::V>(s, t);
              for (int k = 0; k < 3; ++k) val[19 + k] = t[0].V()[k];
              doneI = true;
            }
          } else if (o == 22 || o == 23) {
            if (!doneP) {
              if (S.kind != 1 || T.kind != 1) throw std::runtime_error("polar energy needs PolarSites");
              PolarSegment s = pseg(src);
              PolarSegment t = pseg({tgt});
              eeInteractor::E_terms e = ee.CalcPolarEnergy(s, t);
              val[22] = e.E_indu_indu();
              val[23] = e.E_indu_stat();
              doneP = true;
            }
          } else if (o >= 24 && o <= 44) {
            if (!doneD) {
              if (S.kind != 1 || T.kind != 1) throw std::runtime_error("DipoleDipoleInteraction needs PolarSites");
              std::vector<PolarSegment> segs;
              segs.push_back(pseg({src[0]}));
              segs.push_back(pseg({tgt}));
              DipoleDipoleInteraction A(ee, segs);
              for (int i = 0; i < 3; ++i)
                for (int j = 0; j < 3; ++j) {
                  val[24 + 3 * i + j] = A(i, 3 + j);
                  val[33 + 3 * i + j] = A(3 + i, j);
                }
              Eigen::VectorXd x(6);
              x.head<3>() = S.p->Induced_Dipole();
              x.tail<3>() = Eigen::Vector3d::Zero();
              Eigen::VectorXd y = A.multiply(x);  // target part of x is zero: y.tail = T^T * dipole of src1
              for (int k = 0; k < 3; ++k) val[42 + k] = y[3 + k];
              doneD = true;
            }
          } else {
            throw std::runtime_error("unknown observation " + std::to_string(o));
          }
        }
        std::cout << "val";
        for (int o : obs) std::cout << " " << o << " " << val.at(o);
        std::cout << std::endl;
      } else if (cmd == "rot") {
        int idx;
        Eigen::Matrix3d g;
        Eigen::Vector3d c, t;
        in >> idx;
        for (int i = 0; i < 3; ++i)
          for (int j = 0; j < 3; ++j) in >> g(i, j);
        in >> c[0] >> c[1] >> c[2] >> t[0] >> t[1] >> t[2];
        if (!in) throw std::runtime_error("bad rot line");
        const Entry& e = get(idx);
        std::unique_ptr<StaticSite> cp;
        Eigen::Matrix3d pol = Eigen::Matrix3d::Zero();
        if (e.kind == 1) {
          auto pp = std::make_unique<PolarSite>(*e.p);
          StaticSite* base = pp.get();  // through the virtual interface, as AtomContainer/SegmentMapper do
          base->Rotate(g, c);
          base->Translate(t);
          pol = pp->getpolarization();
          cp = std::move(pp);
        } else {
          cp = std::make_unique<StaticSite>(*e.s);
          cp->Rotate(g, c);
          cp->Translate(t);
        }
        std::cout << "site " << cp->getPos()[0] << " " << cp->getPos()[1] << " " << cp->getPos()[2] << " "
                  << cp->getRank();
        for (int i = 0; i < 9; ++i) std::cout << " " << cp->Q()[i];
        std::cout << " " << pol(0, 0) << " " << pol(1, 1) << " " << pol(2, 2) << " " << pol(0, 1) << " " << pol(0, 2)
                  << " " << pol(1, 2) << std::endl;
      } else if (cmd == "hnew") {
        int x, kind;
        Index rank;
        Eigen::Vector3d pos, a, ind;
        Vector9d Q;
        in >> x >> kind >> pos[0] >> pos[1] >> pos[2] >> rank;
        for (int i = 0; i < 9; ++i) in >> Q[i];
        in >> a[0] >> a[1] >> a[2] >> ind[0] >> ind[1] >> ind[2];
        if (!in || x < 1 || x > 2) throw std::runtime_error("bad hnew line");
        HObj& o = hobj[x];
        o.kind = kind;
        o.s.reset();
        o.p.reset();
        if (kind == 0) {
          StaticSite st(x, "C", pos);
          st.setMultipole(Q, rank);
          o.s.reset(new StaticSegment("h", x));
          o.s->push_back(st);
        } else {
          PolarSite ps(x, "C", pos);
          ps.setMultipole(Q, rank);
          ps.setpolarization(a.asDiagonal());
          ps.setInduced_Dipole(ind);
          o.p.reset(new PolarSegment("h", x));
          o.p->push_back(ps);
        }
        std::cout << "ok" << std::endl;
      } else if (cmd == "hcall") {
        int x;
        std::string op;
        in >> x >> op;
        HObj& o = hget(x);
        StaticSite& st = o.site();  // through the base-class interface, virtual Rotate
        if (op == "setMultipole") {
          Index rank;
          Vector9d Q;
          in >> rank;
          for (int i = 0; i < 9; ++i) in >> Q[i];
          if (!in) throw std::runtime_error("bad hcall line");
          st.setMultipole(Q, rank);
        } else if (op == "setCharge") {
          double q;
          in >> q;
          st.setCharge(q);
        } else if (op == "setPos") {
          Eigen::Vector3d p;
          in >> p[0] >> p[1] >> p[2];
          st.setPos(p);
        } else if (op == "translate") {
          Eigen::Vector3d p;
          in >> p[0] >> p[1] >> p[2];
          st.Translate(p);
        } else if (op == "rotate") {
          Eigen::Matrix3d g;
          for (int i = 0; i < 3; ++i)
            for (int j = 0; j < 3; ++j) in >> g(i, j);
          std::string cm;
          in >> cm;
          if (cm == "value") {
            Eigen::Vector3d c;
            in >> c[0] >> c[1] >> c[2];
            if (!in) throw std::runtime_error("bad hcall line");
            st.Rotate(g, c);
          } else if (cm == "own") {
            st.Rotate(g, st.getPos());  // the reference itself, not a copy
          } else if (cm == "partner") {
            st.Rotate(g, hget(3 - x).site().getPos());
          } else {
            throw std::runtime_error("bad centre mode " + cm);
          }
        } else if (op == "reset") {
          if (o.kind != 1) throw std::runtime_error("Reset needs a PolarSite");
          (*o.p)[0].Reset();
        } else if (op == "sfield" || op == "ifield") {
          std::string mode, what;
          int id;
          in >> mode >> what >> id;
          if (!in || o.kind != 1) throw std::runtime_error("bad field call");
          eeInteractor ee;
          const bool noE = (mode == "N");
          // the source segment: the partner object's own segment, or a one-site segment of a fresh site
          std::unique_ptr<StaticSegment> ts;
          std::unique_ptr<PolarSegment> tp;
          const StaticSegment* ss = nullptr;
          const PolarSegment* sp = nullptr;
          if (what == "obj") {
            HObj& src = hget(id);
            if (src.kind == 1) sp = src.p.get(); else ss = src.s.get();
          } else {
            const Entry& e = get(id);
            if (e.kind == 1) { tp.reset(new PolarSegment(pseg({id}))); sp = tp.get(); }
            else { ts.reset(new StaticSegment(sseg({id}))); ss = ts.get(); }
          }
          if (op == "sfield") {
            if (sp) {
              if (noE) ee.ApplyStaticField<PolarSegment, Estatic::noE_V>(*sp, *o.p);
              else ee.ApplyStaticField<PolarSegment, Estatic::V>(*sp, *o.p);
            } else {
              if (noE) ee.ApplyStaticField<StaticSegment, Estatic::noE_V>(*ss, *o.p);
              else ee.ApplyStaticField<StaticSegment, Estatic::V>(*ss, *o.p);
            }
          } else {
            if (!sp) throw std::runtime_error("induced field needs a polar source");
            if (noE) ee.ApplyInducedField<Estatic::noE_V>(*sp, *o.p);
            else ee.ApplyInducedField<Estatic::V>(*sp, *o.p);
          }
        } else {
          throw std::runtime_error("unknown call " + op);
        }
        std::cout << "ok" << std::endl;
      } else if (cmd == "hobs") {
        int pidx;
        in >> pidx;
        const StaticSite& P = get(pidx).st();
        eeInteractor ee;
        for (int x = 1; x <= 2; ++x) {
          HObj& o = hget(x);
          const StaticSite& st = o.site();
          std::cout << "o " << x << " " << st.getPos()[0] << " " << st.getPos()[1] << " " << st.getPos()[2] << " "
                    << st.getRank();
          for (int i = 0; i < 9; ++i) std::cout << " " << st.Q()[i];
          Eigen::Vector3d dip = o.kind ? (*o.p)[0].getDipole() - (*o.p)[0].Induced_Dipole() : st.getDipole();
          Eigen::Vector3d V = Eigen::Vector3d::Zero(), Vn = Eigen::Vector3d::Zero();
          if (o.kind) {
            V = (*o.p)[0].V();
            Vn = (*o.p)[0].V_noE();
          }
          std::cout << " " << dip[0] << " " << dip[1] << " " << dip[2] << " " << V[0] << " " << V[1] << " " << V[2] << " "
                    << Vn[0] << " " << Vn[1] << " " << Vn[2] << std::endl;
        }
        const StaticSite& a = hget(1).site();
        const StaticSite& b = hget(2).site();
        std::cout << "e " << ee.CalcStaticEnergy_site(a, b) << " " << ee.CalcStaticEnergy_site(b, a) << " "
                  << ee.CalcStaticEnergy_site(a, P) << " " << ee.CalcStaticEnergy_site(P, a) << " "
                  << ee.CalcStaticEnergy_site(b, P) << " " << ee.CalcStaticEnergy_site(P, b) << std::endl;
      } else if (cmd == "ddim") {
        double damp;
        int N, reps, T;
        in >> damp >> N >> reps >> T;
        std::vector<int> threads(T);
        for (int& x : threads) in >> x;
        std::vector<double> pos(3 * N), pol(N);
        Eigen::VectorXd x(3 * N), y(3 * N);
        for (double& v : pos) in >> v;
        for (double& v : pol) in >> v;
        for (int i = 0; i < 3 * N; ++i) in >> x[i];
        for (int i = 0; i < 3 * N; ++i) in >> y[i];
        if (!in) throw std::runtime_error("bad ddim line");
        std::vector<PolarSegment> segs;
        for (int i = 0; i < N; ++i) {
          if (i % 8 == 0) segs.emplace_back("d", i / 8);
          PolarSite ps(i, "C", Eigen::Vector3d(pos[3 * i], pos[3 * i + 1], pos[3 * i + 2]));
          ps.setpolarization(pol[i] * Eigen::Matrix3d::Identity());
          segs.back().push_back(ps);
        }
        eeInteractor ee(damp);
        DipoleDipoleInteraction A(ee, segs);
        omp_set_dynamic(0);
        int team = 1;
        omp_set_num_threads(*std::max_element(threads.begin(), threads.end()));
#pragma omp parallel
        {
#pragma omp single
          team = omp_get_num_threads();
        }
        omp_set_num_threads(1);
        const Eigen::VectorXd ref = A.multiply(x);
        const Eigen::VectorXd refy = A.multiply(y);
        std::cout << "ddim team " << team << " ref " << ref.cwiseAbs().maxCoeff();
        for (int tcount : threads) {
          omp_set_num_threads(tcount);
          double worst = 0;
          for (int r = 0; r < reps; ++r) {
            Eigen::VectorXd v = A.multiply(x);
            worst = std::max(worst, (v - ref).cwiseAbs().maxCoeff());
          }
          std::cout << " thr " << tcount << " " << worst;
        }
        omp_set_num_threads(1);
        std::vector<const PolarSite*> all;
        for (const PolarSegment& s : segs)
          for (const PolarSite& ps : s) all.push_back(&ps);
        Eigen::VectorXd dense = Eigen::VectorXd::Zero(3 * N);
        for (int i = 0; i < N; ++i)
          for (int j = 0; j < N; ++j) {
            if (i == j) dense.segment<3>(3 * i) += all[i]->getPInv() * x.segment<3>(3 * i);
            else dense.segment<3>(3 * i) += ee.FillTholeInteraction(*all[i], *all[j]) * x.segment<3>(3 * j);
          }
        std::cout << " dense " << (dense - ref).cwiseAbs().maxCoeff() << " sym " << y.dot(ref) << " " << x.dot(refy)
                  << std::endl;
      } else if (cmd.empty()) {
        std::cout << "ok" << std::endl;
      } else {
        throw std::runtime_error("unknown command " + cmd);
      }
    } catch (const std::exception& ex) {
      std::cout << "exc " << ex.what() << std::endl;
    }
  }
  return 0;
}
