# --- C18 rangeglob: wildcmp / RangeParser / IndexParser are compiled into the driver with
# assertions + sanitizers on (a read beyond a terminating NUL or an endless iteration is
# attributed to its input); BeadList/Topology/Property come from the verif build of csg/tools.
find_package(Threads REQUIRED)   # imported targets of the votca sub-project are not visible up here
verif_xtp_driver(drv_rangeglob ${D}/rangeglob.cc
  ${VERIF_REPO}/tools/src/libtools/tokenizer.cc ${VERIF_REPO}/tools/src/libtools/rangeparser.cc
  ${XTP_SRC}/IndexParser.cc)
target_link_libraries(drv_rangeglob PRIVATE VOTCA::votca_csg)
verif_sanitize(drv_rangeglob)
