# --- C17 checkpoint files: checkpoint.cc (CheckpointFile) is compiled into the driver, the
# writer/reader/table are header code; system HDF5.  Assertions + sanitizers on, so that a
# read past the end of a caller's buffer (overwrite with a shorter vector) is attributed.
find_package(Threads REQUIRED)   # verif_xtp_driver links Threads::Threads
verif_xtp_driver(drv_checkpoint ${D}/checkpoint.cc ${XTP_SRC}/checkpoint.cc)
verif_sanitize(drv_checkpoint)
