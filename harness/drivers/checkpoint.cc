// Conformance driver for spec/checkpoint (property C17): a dumb executor of text
// commands against the real votca::xtp::CheckpointFile / CheckpointWriter /
// CheckpointReader / CptTable (checkpoint.cc compiled into this executable, the rest
// is header code), linked against the system HDF5.
//
// The driver owns a catalogue of concrete values per kind ("value ids" of the spec are
// mapped to <kind> <index> by the Python side).  Every read is done through a FRESH
// CheckpointFile opened with CheckpointAccessLevel::READ and compared here, bit by bit
// (shape + memcmp of the payload), against the catalogue entry the spec expects.
//
// commands (names are percent-encoded, paths are /-separated group paths):
//   file <fs-path>                       select the checkpoint file
//   rm                                   remove it
//   open <slot> READ|MODIFY|CREATE       (re)open the CheckpointFile in handle slot <slot> -> ok | exc
//                                        (several slots can hold the SAME file open at once)
//   close <slot>                         drop that CheckpointFile
//   write <slot> <via> <path> <name> <kind> <i>   write catalogue value i through that slot
//   read  <via> <path> <name> <kind> <i|-|?> <prefill>   read from a fresh READ handle
//                                        -> match | mismatch got=.. want=.. | value .. | is <i> | other .. | exc ..
//   backdoor <slot> loc|handle|raw <via> <path> <name> <kind> <i>   try to write through another accessor
//                                        (CheckpointWriter on reader.getLoc() / on getHandle().openGroup(),
//                                        raw HDF5 calls on getHandle())
//   xprobe                               can another process open the file with READ now? -> ok | exc ..
//   fresh / endfresh                     bracket the reads of one observation: they share ONE fresh READ
//                                        handle (opened after the call under test) instead of one each
//   fhash                                checksum of the file bytes
//   catalog                              list kinds/values
// <via>: g = getWriter("/first") + openChild(rest), r = getWriter() + openChild(all)
#include <unistd.h>

#include <cstdint>
#include <cstdio>
#include <cstring>
#include <fstream>
#include <functional>
#include <iostream>
#include <limits>
#include <map>
#include <memory>
#include <sstream>
#include <stdexcept>
#include <string>
#include <vector>

#include <votca/tools/eigensystem.h>
#include <votca/xtp/checkpoint.h>
#include <votca/xtp/checkpointreader.h>
#include <votca/xtp/checkpointtable.h>
#include <votca/xtp/checkpointwriter.h>

using namespace votca;
using namespace votca::xtp;

// ---------------------------------------------------------------- canonical form
struct Blob {
  std::vector<long> shape;
  std::string bytes;
  bool operator==(const Blob& o) const { return shape == o.shape && bytes == o.bytes; }
};

static std::string Describe(const Blob& b) {
  std::ostringstream s;
  s << "[";
  for (size_t i = 0; i < b.shape.size(); ++i) s << (i ? "x" : "") << b.shape[i];
  s << "]:";
  static const char* hx = "0123456789abcdef";
  size_t n = std::min<size_t>(b.bytes.size(), 48);
  for (size_t i = 0; i < n; ++i) {
    unsigned char c = static_cast<unsigned char>(b.bytes[i]);
    s << hx[c >> 4] << hx[c & 15];
  }
  if (b.bytes.size() > n) s << "..(" << b.bytes.size() << "B)";
  return s.str();
}

template <class T>
static void Put(Blob& b, const T& v) {
  b.bytes.append(reinterpret_cast<const char*>(&v), sizeof(T));
}
template <class T>
static Blob BlobScalar(const T& v) {
  Blob b;
  Put(b, v);
  return b;
}
static Blob BlobBool(const bool& v) {
  Blob b;
  b.bytes.push_back(v ? 1 : 0);
  return b;
}
static Blob BlobStr(const std::string& v) {
  Blob b;
  b.shape = {static_cast<long>(v.size())};
  b.bytes = v;
  return b;
}
template <class T>
static Blob BlobVec(const std::vector<T>& v) {
  Blob b;
  b.shape = {static_cast<long>(v.size())};
  for (const T& x : v) Put(b, x);
  return b;
}
static Blob BlobVStr(const std::vector<std::string>& v) {
  Blob b;
  b.shape = {static_cast<long>(v.size())};
  for (const std::string& s : v) {
    b.shape.push_back(static_cast<long>(s.size()));
    b.bytes += s;
  }
  return b;
}
template <class M>
static Blob BlobMat(const M& m) {
  Blob b;
  b.shape = {static_cast<long>(m.rows()), static_cast<long>(m.cols())};
  if (m.size() == 0) return b;  // (a garbage dimension next to a zero one must not make us loop)
  for (Eigen::Index j = 0; j < m.cols(); ++j)
    for (Eigen::Index i = 0; i < m.rows(); ++i) Put(b, m(i, j));
  return b;
}
static Blob BlobL3(const std::vector<Eigen::Vector3d>& v) {
  Blob b;
  b.shape = {static_cast<long>(v.size()), 3};
  for (const auto& x : v)
    for (int i = 0; i < 3; ++i) Put(b, x[i]);
  return b;
}
static Blob BlobESys(const tools::EigenSystem& s) {
  Blob b;
  Blob v = BlobMat(s.eigenvalues()), a = BlobMat(s.eigenvectors()), c = BlobMat(s.eigenvectors2());
  for (const Blob* p : {&v, &a, &c}) {
    b.shape.insert(b.shape.end(), p->shape.begin(), p->shape.end());
    b.bytes += p->bytes;
  }
  b.shape.push_back(static_cast<long>(s.info()));
  return b;
}

// a structured table row, set up the way QMPair/StaticSite do it
struct RowVal {
  Index id;
  double x;
  std::string label;
  float f;
};
struct VRow {
  struct data {
    Index id;
    double x;
    char* label;
    float f;
  };
  static void SetupCptTable(CptTable& table) {
    table.addCol<Index>("id", HOFFSET(data, id));
    table.addCol<double>("x", HOFFSET(data, x));
    table.addCol<std::string>("label", HOFFSET(data, label));
    table.addCol<float>("f", HOFFSET(data, f));
  }
};
static Blob BlobTab(const std::vector<RowVal>& rows) {
  Blob b;
  b.shape = {static_cast<long>(rows.size())};
  for (const RowVal& r : rows) {
    Put(b, r.id);
    Put(b, r.x);
    Put(b, r.f);
    b.shape.push_back(static_cast<long>(r.label.size()));
    b.bytes += r.label;
  }
  return b;
}

// ---------------------------------------------------------------- kinds
struct KindBase {
  virtual ~KindBase() = default;
  virtual size_t n() const = 0;
  virtual void write(CheckpointWriter& w, const std::string& name, size_t i) = 0;
  virtual Blob read(CheckpointReader& r, const std::string& name, bool prefill) = 0;
  virtual Blob blob(size_t i) const = 0;
};

template <class T>
struct Kind : KindBase {
  std::vector<T> vals;
  T fresh;  // what a caller's default-constructed target looks like
  T junk;   // a target that already holds something else
  std::function<Blob(const T&)> bl;
  Kind(std::vector<T> v, T fr, T j, std::function<Blob(const T&)> b)
      : vals(std::move(v)), fresh(std::move(fr)), junk(std::move(j)), bl(std::move(b)) {}
  size_t n() const override { return vals.size(); }
  void write(CheckpointWriter& w, const std::string& name, size_t i) override {
    const T v = vals.at(i);  // (vector<bool> has proxy references)
    w(v, name);
  }
  Blob read(CheckpointReader& r, const std::string& name, bool prefill) override {
    T t = prefill ? junk : fresh;
    r(t, name);
    return bl(t);
  }
  Blob blob(size_t i) const override {
    const T v = vals.at(i);
    return bl(v);
  }
};

// a block of a larger matrix (outer stride != rows) written, a plain matrix read
struct BlockKind : KindBase {
  struct Item {
    Eigen::MatrixXd big;
    Index r0, c0, nr, nc;
  };
  std::vector<Item> vals;
  size_t n() const override { return vals.size(); }
  void write(CheckpointWriter& w, const std::string& name, size_t i) override {
    Item& it = vals.at(i);
    w(it.big.block(it.r0, it.c0, it.nr, it.nc), name);
  }
  Blob read(CheckpointReader& r, const std::string& name, bool prefill) override {
    Eigen::MatrixXd t;
    if (prefill) t = Eigen::MatrixXd::Constant(2, 5, 77.0);
    r(t, name);
    return BlobMat(t);
  }
  Blob blob(size_t i) const override {
    const Item& it = vals.at(i);
    Eigen::MatrixXd m = it.big.block(it.r0, it.c0, it.nr, it.nc);
    return BlobMat(m);
  }
};

struct TableKind : KindBase {
  bool compact = false;  // the optional third argument of CheckpointWriter::openTable
  bool rowwise = false;  // writeToRow/readFromRow per row instead of write(vector)/read(vector)
  std::vector<std::vector<RowVal>> vals;
  size_t n() const override { return vals.size(); }
  void write(CheckpointWriter& w, const std::string& name, size_t i) override {
    // the way QMNBList / AtomContainer / AOBasis use it
    const std::vector<RowVal>& rows = vals.at(i);
    CptTable table = compact ? w.openTable<VRow>(name, rows.size(), true) : w.openTable<VRow>(name, rows.size());
    std::vector<VRow::data> dv(rows.size());
    for (size_t k = 0; k < rows.size(); ++k) {
      dv[k].id = rows[k].id;
      dv[k].x = rows[k].x;
      dv[k].f = rows[k].f;
      dv[k].label = const_cast<char*>(rows[k].label.c_str());
    }
    if (rowwise) {
      for (size_t k = 0; k < dv.size(); ++k) table.writeToRow(&dv[k], k);
    } else {
      table.write(dv);
    }
  }
  Blob read(CheckpointReader& r, const std::string& name, bool) override {
    CptTable table = r.openTable<VRow>(name);
    std::vector<VRow::data> dv(table.numRows());
    for (auto& d : dv) d.label = nullptr;
    if (rowwise) {
      for (size_t k = 0; k < dv.size(); ++k) table.readFromRow(&dv[k], k);
    } else {
      table.read(dv);
    }
    std::vector<RowVal> rows;
    for (auto& d : dv) {
      RowVal rv;
      rv.id = d.id;
      rv.x = d.x;
      rv.f = d.f;
      rv.label = d.label ? std::string(d.label) : std::string();
      free(d.label);
      rows.push_back(rv);
    }
    return BlobTab(rows);
  }
  Blob blob(size_t i) const override { return BlobTab(vals.at(i)); }
};

static double Bits(uint64_t u) {
  double d;
  std::memcpy(&d, &u, 8);
  return d;
}
static float BitsF(uint32_t u) {
  float f;
  std::memcpy(&f, &u, 4);
  return f;
}

template <class M>
static M Seq(Index r, Index c, double start) {
  M m(r, c);
  double v = start;
  for (Index j = 0; j < c; ++j)
    for (Index i = 0; i < r; ++i) {
      m(i, j) = static_cast<typename M::Scalar>(v);
      v += 1.25;
    }
  return m;
}

static std::map<std::string, std::unique_ptr<KindBase>> MakeKinds() {
  std::map<std::string, std::unique_ptr<KindBase>> K;
  const double nan1 = Bits(0x7ff8000000000abcULL);  // quiet NaN with payload
  const double nan2 = Bits(0xfff4000000000001ULL);  // negative signalling NaN with payload
  const double den = Bits(0x0000000000000003ULL);   // denormal
  const double inf = std::numeric_limits<double>::infinity();
  using std::string;
  using std::vector;

  K["int"].reset(new Kind<int>({0, -1, 2147483647, std::numeric_limits<int>::min()}, 0, 12345,
                               BlobScalar<int>));
  K["long"].reset(new Kind<Index>({0, -1, 2147483647L, 9223372036854775807L,
                                   std::numeric_limits<Index>::min(), 4294967296L},
                                  0, 54321, BlobScalar<Index>));
  K["uns"].reset(new Kind<unsigned>({0u, 1u, 4294967295u}, 0u, 99u, BlobScalar<unsigned>));
  K["dbl"].reset(new Kind<double>({0.0, -0.0, den, 1e308, nan1, nan2, -inf, -1.5, 4.9406564584124654e-324},
                                  0.0, 3.25, BlobScalar<double>));
  K["flt"].reset(new Kind<float>({0.0f, -0.0f, 1.5f, BitsF(0x7fc00123u), BitsF(0x00000001u), 3.4e38f}, 0.0f,
                                 9.5f, BlobScalar<float>));
  K["bool"].reset(new Kind<bool>({false, true}, false, true, BlobBool));
  // strings around the only string-length constant of the checkpoint headers (CptTable::MaxStringSize),
  // with embedded UTF-8 (2- and 3-byte sequences; the lengths are byte counts)
  const size_t M = CptTable::MaxStringSize;
  auto lenstr = [](size_t n) {
    const std::string unit = "a\xc3\xa9 \xe2\x9c\x93z";  // 8 bytes
    std::string r;
    while (r.size() + unit.size() <= n) r += unit;
    while (r.size() < n) r += static_cast<char>('0' + r.size() % 10);
    return r;
  };
  const vector<string> edge = {lenstr(M - 1), lenstr(M), lenstr(M + 1), lenstr(5000)};
  {
    string longs;
    for (int i = 0; i < 1500; ++i) longs += static_cast<char>('a' + i % 26);
    K["str"].reset(new Kind<string>({"", "hello", "h\xc3\xa9llo w\xc3\xb6rld \xe2\x9c\x93 \xf0\x9f\x98\x80",
                                     "  two  spaces ", " ", longs, "line\nbreak\ttab", "x", edge[0], edge[1],
                                     edge[2], edge[3]},
                                    "", "previous content", BlobStr));
  }
  K["vint"].reset(new Kind<vector<int>>({{}, {7}, {0, -1, 2147483647, std::numeric_limits<int>::min(), 5},
                                         {1, 2}},
                                        {}, {9, 9, 9}, BlobVec<int>));
  K["vlong"].reset(new Kind<vector<Index>>(
      {{}, {-1}, {0, -1, 2147483647L, 9223372036854775807L, std::numeric_limits<Index>::min()}, {3, 4, 5}}, {},
      {8, 8}, BlobVec<Index>));
  K["vuns"].reset(new Kind<vector<unsigned>>({{}, {4294967295u}, {1u, 2u, 3u}}, {}, {6u}, BlobVec<unsigned>));
  vector<double> bigv(10000);
  for (size_t i = 0; i < bigv.size(); ++i) bigv[i] = 0.25 * static_cast<double>(i) - 7.0;
  K["vdbl"].reset(new Kind<vector<double>>(
      {{}, {-0.0}, {0.0, -0.0, den, 1e308, nan1, nan2, inf}, {1.5, 2.5}, {nan1}, bigv /* 80 kB */}, {},
      {4.0, 4.0, 4.0, 4.0}, BlobVec<double>));
  K["vstr"].reset(new Kind<vector<string>>({{},
                                            {""},
                                            {"a"},
                                            {"", "h\xc3\xa9llo", " x y ", ""},
                                            {"alpha", "beta", "gamma", "delta", "epsilon with spaces"},
                                            {"one", "two"},
                                            {edge[2]},
                                            {"", "x", edge[0], edge[1], edge[2], edge[3], "tail"}},
                                           {}, {"old", "stuff"}, BlobVStr));
  {
    using M = Eigen::MatrixXd;
    M sp = Seq<M>(3, 3, 0.0);
    sp(0, 0) = -0.0;
    sp(1, 0) = nan1;
    sp(2, 1) = den;
    sp(0, 2) = 1e308;
    sp(1, 2) = nan2;
    K["matd"].reset(new Kind<M>({M(0, 0), M(3, 0), M(0, 3), Seq<M>(1, 4, 1.0), Seq<M>(4, 1, 2.0),
                                 Seq<M>(3, 2, 3.0), Seq<M>(2, 3, 4.0), Seq<M>(5, 5, 5.0), sp, Seq<M>(1, 1, 6.0),
                                 Seq<M>(17, 9, -40.0), M(1, 0), M(0, 1), Seq<M>(100, 100, 0.5) /* 80 kB */},
                                M(), M::Constant(2, 5, 77.0), BlobMat<M>));
  }
  {
    using V = Eigen::VectorXd;
    V sp(4);
    sp << -0.0, nan1, den, -inf;
    K["vecd"].reset(new Kind<V>({V(0), Seq<V>(1, 1, 1.0), Seq<V>(5, 1, 2.0), sp, Seq<V>(3, 1, 7.0)}, V(),
                                V::Constant(6, 55.0), BlobMat<V>));
  }
  {
    using R = Eigen::RowVectorXd;
    K["rowd"].reset(new Kind<R>({R(0), Seq<R>(1, 1, 1.0), Seq<R>(1, 5, 2.0)}, R(), R::Constant(4, 55.0),
                                BlobMat<R>));
  }
  {
    using M = Eigen::MatrixXf;
    K["matf"].reset(new Kind<M>({M(0, 0), M(2, 0), Seq<M>(2, 3, 1.0), Seq<M>(3, 2, 1.0), Seq<M>(4, 4, 3.0)}, M(),
                                M::Constant(3, 3, 7.0f), BlobMat<M>));
  }
  {
    using M = Eigen::Matrix<Index, Eigen::Dynamic, Eigen::Dynamic>;
    M big = Seq<M>(2, 2, 0.0);
    big(0, 0) = 9223372036854775807L;
    big(1, 0) = std::numeric_limits<Index>::min();
    big(0, 1) = -1;
    K["matl"].reset(new Kind<M>({M(0, 0), M(0, 2), Seq<M>(3, 2, 1.0), big, Seq<M>(2, 3, 1.0)}, M(),
                                M::Constant(1, 4, 3), BlobMat<M>));
  }
  {
    using V = Eigen::Vector3d;
    V sp(nan1, -0.0, den);
    K["v3"].reset(new Kind<V>({V::Zero(), V(1.0, -2.0, 3.5), sp, V(1e308, -1e308, inf)}, V::Zero(),
                              V(11.0, 12.0, 13.0), BlobMat<V>));
  }
  {
    using M = Eigen::Matrix3d;
    M a = Seq<M>(3, 3, 1.0), b = Seq<M>(3, 3, -7.0);
    b(0, 1) = nan1;
    b(2, 0) = -0.0;
    K["m3"].reset(new Kind<M>({M::Zero(), a, b}, M::Zero(), M::Constant(21.0), BlobMat<M>));
  }
  {
    auto* bk = new BlockKind();
    Eigen::MatrixXd big = Seq<Eigen::MatrixXd>(6, 7, 100.0);
    bk->vals = {{big, 1, 2, 3, 2}, {big, 0, 0, 6, 7}, {big, 2, 1, 1, 5}, {big, 1, 3, 4, 1}, {big, 0, 0, 0, 0},
                {big, 1, 1, 2, 0}, {big, 3, 3, 0, 2}};
    K["blk"].reset(bk);
  }
  {
    using V = Eigen::Vector3d;
    using L = vector<V>;
    L many;
    for (int i = 0; i < 12; ++i) many.push_back(V(i, -i * 0.5, i * i));  // > 10: ind10, ind11 sort before ind2
    K["l3"].reset(new Kind<L>({L{}, L{V(1, 2, 3)}, many, L{V(nan1, -0.0, den), V(4, 5, 6)},
                               L{V(7, 8, 9), V(1, 1, 1), V(2, 2, 2)}},
                              L{}, L{V(5, 5, 5), V(6, 6, 6)}, BlobL3));
  }
  {
    auto mk = [](Index n, Index m, double s, Index info) {
      tools::EigenSystem e;
      e.eigenvalues() = Seq<Eigen::VectorXd>(n, 1, s);
      e.eigenvectors() = Seq<Eigen::MatrixXd>(n, m, s + 10);
      e.eigenvectors2() = Seq<Eigen::MatrixXd>(m ? n : 0, m ? (m > 1 ? m - 1 : 1) : 0, s + 20);
      e.info() = static_cast<Eigen::ComputationInfo>(info);
      return e;
    };
    tools::EigenSystem fr;
    K["esys"].reset(new Kind<tools::EigenSystem>({mk(3, 3, 1.0, 0), mk(2, 4, 5.0, 2), mk(0, 0, 0.0, 1),
                                                  mk(4, 2, -3.0, 0)},
                                                 fr, mk(1, 1, 9.0, 3), BlobESys));
  }
  {
    auto* tk = new TableKind();
    tk->vals = {{{1, 0.5, "one", 1.5f}},
                {{0, -0.0, "", 0.0f}, {-1, nan1, "h\xc3\xa9llo w\xc3\xb6rld", -0.0f}, {9223372036854775807L, den, " s p ", 2.5f}},
                {{5, 1.0, "a", 1.0f}, {6, 2.0, "bb", 2.0f}},
                {{7, 3.0, "r1", 1.0f}, {8, 4.0, "r2", 2.0f}, {9, 5.0, "r3", 3.0f}, {10, 6.0, "r4", 4.0f},
                 {11, 7.0, "r5", 5.0f}},
                {}};
    std::vector<RowVal> bigt;  // 3500 rows of 32 bytes: 112 kB
    for (Index i = 0; i < 3500; ++i) bigt.push_back({i, 0.5 * static_cast<double>(i), "r" + std::to_string(i % 7), 1.0f});
    tk->vals.push_back(bigt);
    tk->vals.push_back({{1, 1.0, edge[0], 1.0f}, {2, 2.0, edge[1], 2.0f}, {3, 3.0, edge[2], 3.0f},
                        {4, 4.0, edge[3], 4.0f}, {5, 5.0, "x", 5.0f}});
    K["tab"].reset(tk);
    // the same tables written and read ROW BY ROW (CptTable::writeToRow / readFromRow)
    auto* tr = new TableKind();
    tr->rowwise = true;
    tr->vals = {tk->vals[0], tk->vals[1], tk->vals[2], tk->vals[3], tk->vals[4], tk->vals[6]};
    K["tabr"].reset(tr);
    // the same (small) tables written with openTable(name, rows, compact = true)
    auto* tc = new TableKind();
    tc->compact = true;
    tc->vals.assign(tk->vals.begin(), tk->vals.begin() + 5);
    K["tabc"].reset(tc);
  }
  return K;
}

// ---------------------------------------------------------------- plumbing
static std::string PctDecode(const std::string& s) {
  std::string o;
  for (size_t i = 0; i < s.size(); ++i) {
    if (s[i] == '%' && i + 2 < s.size()) {
      o.push_back(static_cast<char>(std::stoi(s.substr(i + 1, 2), nullptr, 16)));
      i += 2;
    } else {
      o.push_back(s[i]);
    }
  }
  return o;
}

static std::vector<std::string> Split(const std::string& path) {
  std::vector<std::string> c;
  std::string cur;
  for (char ch : path) {
    if (ch == '/') {
      if (!cur.empty()) c.push_back(cur);
      cur.clear();
    } else {
      cur.push_back(ch);
    }
  }
  if (!cur.empty()) c.push_back(cur);
  return c;
}

static CheckpointWriter WriterFor(CheckpointFile& f, const std::string& via, const std::string& path) {
  std::vector<std::string> c = Split(path);
  if (c.empty()) return via == "r" ? f.getWriter() : f.getWriter("/");
  size_t start = via == "r" ? 0 : 1;
  std::unique_ptr<CheckpointWriter> w(new CheckpointWriter(via == "r" ? f.getWriter() : f.getWriter("/" + c[0])));
  for (size_t i = start; i < c.size(); ++i) w.reset(new CheckpointWriter(w->openChild(c[i])));
  return *w;
}

static CheckpointReader ReaderFor(CheckpointFile& f, const std::string& via, const std::string& path) {
  std::vector<std::string> c = Split(path);
  if (c.empty()) return via == "r" ? f.getReader() : f.getReader("/");
  size_t start = via == "r" ? 0 : 1;
  std::unique_ptr<CheckpointReader> r(new CheckpointReader(via == "r" ? f.getReader() : f.getReader("/" + c[0])));
  for (size_t i = start; i < c.size(); ++i) r.reset(new CheckpointReader(r->openChild(c[i])));
  return *r;
}

static CheckpointAccessLevel Level(const std::string& s) {
  if (s == "READ") return CheckpointAccessLevel::READ;
  if (s == "MODIFY") return CheckpointAccessLevel::MODIFY;
  if (s == "CREATE") return CheckpointAccessLevel::CREATE;
  throw std::invalid_argument("driver: bad level " + s);
}

static std::string OneLine(std::string s) {
  for (char& c : s)
    if (c == '\n' || c == '\r') c = ' ';
  return s;
}

int main(int argc, char** argv) {
  H5::Exception::dontPrint();
  if (argc == 3 && std::string(argv[1]) == "--probe-read") {
    try {
      CheckpointFile f(argv[2], CheckpointAccessLevel::READ);
      CheckpointReader r = f.getReader();
      std::cout << "ok" << std::endl;
    } catch (const std::exception& e) {
      std::cout << "exc " << OneLine(e.what()) << std::endl;
    }
    return 0;
  }
  auto kinds = MakeKinds();
  std::string fname;
  std::map<std::string, std::unique_ptr<CheckpointFile>> session;  // handle slot -> open file object
  std::unique_ptr<CheckpointFile> observer;
  std::string line;
  long seq = 0;
  while (std::getline(std::cin, line)) {
    ++seq;
    std::istringstream in(line);
    std::string cmd;
    in >> cmd;
    std::cout << "cmd " << seq << " " << line << std::endl;
    try {
      if (cmd != "read") observer.reset();  // an observation is a run of consecutive reads
      if (cmd == "file") {
        session.clear();
        in >> fname;
        std::cout << "ok" << std::endl;
      } else if (cmd == "rm") {
        session.clear();
        std::remove(fname.c_str());
        std::cout << "ok" << std::endl;
      } else if (cmd == "open") {
        std::string slot, lv;
        in >> slot >> lv;
        session.erase(slot);  // Reopen = close, then open
        session[slot].reset(new CheckpointFile(fname, Level(lv)));
        std::cout << "ok" << std::endl;
      } else if (cmd == "openmod") {  // the one-argument constructor (documented default: MODIFY)
        std::string slot;
        in >> slot;
        session.erase(slot);
        session[slot].reset(new CheckpointFile(fname));
        std::cout << "ok" << std::endl;
      } else if (cmd == "close") {
        std::string slot;
        in >> slot;
        session.erase(slot);
        std::cout << "ok" << std::endl;
      } else if (cmd == "write") {
        std::string slot, via, path, name, kind;
        size_t idx;
        in >> slot >> via >> path >> name >> kind >> idx;
        auto it = session.find(slot);
        if (it == session.end() || !it->second) throw std::logic_error("driver: no session handle");
        KindBase& k = *kinds.at(kind);
        {
          CheckpointWriter w = WriterFor(*it->second, via, path);
          k.write(w, PctDecode(name), idx);
        }
        std::cout << "ok" << std::endl;
      } else if (cmd == "backdoor") {
        // try to modify the file through an accessor other than getWriter
        std::string slot, door, via, path, name, kind;
        size_t idx;
        in >> slot >> door >> via >> path >> name >> kind >> idx;
        auto it = session.find(slot);
        if (it == session.end() || !it->second) throw std::logic_error("driver: no session handle");
        CheckpointFile& f = *it->second;
        KindBase& k = *kinds.at(kind);
        if (door == "loc") {
          CheckpointReader r = ReaderFor(f, via, path);
          CheckpointWriter w(r.getLoc(), path);
          k.write(w, PctDecode(name), idx);
        } else if (door == "handle") {
          CheckpointWriter w(f.getHandle().openGroup(path), path);
          k.write(w, PctDecode(name), idx);
        } else if (door == "raw") {
          H5::H5File h5 = f.getHandle();
          H5::Group g;
          try {
            g = h5.openGroup(path);
          } catch (H5::Exception&) {
            g = h5.createGroup(path);
          }
          // (object creation/deletion, which HDF5 checks against the file's intent; H5Awrite on an existing
          // attribute is not used here: HDF5 1.10 refuses it only after changing its cached copy)
          hsize_t d[2] = {1, 1};
          H5::DataSpace dp(2, d);
          long v = static_cast<long>(idx) + 4711;
          std::string dn = PctDecode(name);
          if (H5Lexists(g.getId(), dn.c_str(), H5P_DEFAULT) > 0) g.unlink(dn);
          H5::DataSet ds = g.createDataSet(dn, H5::PredType::NATIVE_LONG, dp);
          ds.write(&v, H5::PredType::NATIVE_LONG);
          h5.flush(H5F_SCOPE_GLOBAL);
        } else {
          throw std::logic_error("driver: unknown door");
        }
        std::cout << "ok" << std::endl;
      } else if (cmd == "xprobe") {
        // can ANOTHER PROCESS open the file with CheckpointAccessLevel::READ right now?
        char self[4096] = {0};
        if (readlink("/proc/self/exe", self, sizeof(self) - 1) <= 0) throw std::runtime_error("driver: readlink");
        std::string c = std::string("'") + self + "' --probe-read '" + fname + "' 2>/dev/null";
        FILE* pp = popen(c.c_str(), "r");
        char buf[512] = {0};
        std::string out;
        if (pp) {
          if (fgets(buf, sizeof(buf), pp)) out = buf;
          pclose(pp);
        }
        std::cout << (out.empty() ? "err no answer from the probe process" : OneLine(out)) << std::endl;
      } else if (cmd == "read") {
        std::string via, path, name, kind, want;
        int prefill;
        in >> via >> path >> name >> kind >> want >> prefill;
        KindBase& k = *kinds.at(kind);
        Blob got;
        if (observer) {  // the fresh handle opened by `fresh` for this observation
          CheckpointReader r = ReaderFor(*observer, via, path);
          got = k.read(r, PctDecode(name), prefill != 0);
        } else {
          CheckpointFile fresh(fname, CheckpointAccessLevel::READ);
          CheckpointReader r = ReaderFor(fresh, via, path);
          got = k.read(r, PctDecode(name), prefill != 0);
        }
        if (want == "-") {
          std::cout << "value " << Describe(got) << std::endl;
        } else if (want == "?") {  // which catalogue value is it?
          long found = -1;
          for (size_t i = 0; i < k.n() && found < 0; ++i)
            if (got == k.blob(i)) found = static_cast<long>(i);
          if (found >= 0) {
            std::cout << "is " << found << std::endl;
          } else {
            std::cout << "other " << Describe(got) << std::endl;
          }
        } else {
          Blob exp = k.blob(std::stoul(want));
          if (got == exp) {
            std::cout << "match" << std::endl;
          } else {
            std::cout << "mismatch got=" << Describe(got) << " want=" << Describe(exp) << std::endl;
          }
        }
      } else if (cmd == "fresh") {  // one fresh READ handle for the reads of one observation
        observer.reset(new CheckpointFile(fname, CheckpointAccessLevel::READ));
        std::cout << "ok" << std::endl;
      } else if (cmd == "endfresh") {
        std::cout << "ok" << std::endl;
      } else if (cmd == "fhash") {
        std::ifstream f(fname, std::ios::binary);
        if (!f) {
          std::cout << "hash absent" << std::endl;
        } else {
          uint64_t h = 1469598103934665603ULL;
          size_t n = 0;
          char c;
          while (f.get(c)) {
            h = (h ^ static_cast<unsigned char>(c)) * 1099511628211ULL;
            ++n;
          }
          std::cout << "hash " << std::hex << h << std::dec << " " << n << std::endl;
        }
      } else if (cmd == "catalog") {
        for (auto& kv : kinds)
          for (size_t i = 0; i < kv.second->n(); ++i) {
            Blob b = kv.second->blob(i);
            std::cout << "val " << kv.first << " " << i << " ";
            for (size_t d = 0; d < b.shape.size(); ++d) std::cout << (d ? "x" : "") << b.shape[d];
            if (b.shape.empty()) std::cout << "scalar";
            std::cout << " " << b.bytes.size() << " " << Describe(b) << std::endl;
          }
        std::cout << "ok" << std::endl;
      } else {
        std::cout << "err unknown command" << std::endl;
      }
    } catch (const std::exception& e) {
      std::cout << "exc " << OneLine(e.what()) << std::endl;
    } catch (const H5::Exception& e) {
      // H5::Exception is not a std::exception: an HDF5 error that escaped the wrappers
      std::cout << "exc h5:" << OneLine(e.getDetailMsg()) << std::endl;
    }
  }
  return 0;
}
