# --- C08 trajio: writers/readers/topology readers/Table/imcio from the real libraries
verif_driver(drv_trajio ${D}/trajio.cc)
# same driver with the trajectory READER sources compiled in with assertions + sanitizers
# (memory-safety clause: "a bead-count mismatch is reported, the frame is not used")
set(_io ${VERIF_REPO}/csg/src/libcsg/modules/io)
verif_driver(drv_trajio_chk ${D}/trajio.cc ${_io}/pdbreader.cc ${_io}/groreader.cc ${_io}/xyzreader.cc
  ${_io}/lammpsdumpreader.cc ${_io}/dlpolytrajectoryreader.cc)
target_compile_definitions(drv_trajio_chk PRIVATE TRAJIO_CHECKED)
target_include_directories(drv_trajio_chk PRIVATE ${VERIF_REPO}/csg/src/libcsg)
verif_sanitize(drv_trajio_chk)
