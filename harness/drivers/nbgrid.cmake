# --- C03 neighbour search: the searches and the exclusion list are compiled into the driver
# with assertions + sanitizers on (a cell index outside the grid aborts instead of silently
# reading a neighbouring cell); see drivers/nbgrid.cc
set(_csg ${VERIF_REPO}/csg/src/libcsg)
verif_driver(drv_nbgrid ${D}/nbgrid.cc
  ${_csg}/nblistgrid.cc ${_csg}/nblist.cc ${_csg}/nblistgrid_3body.cc ${_csg}/nblist_3body.cc
  ${_csg}/exclusionlist.cc)
verif_sanitize(drv_nbgrid)
