// Conformance driver for spec/threaded_frames: runs the real CsgApplication frame
// dispatcher (Run / Worker::Run / ProcessData) with an in-memory trajectory under
// the baton scheduler, and prints every scheduling step with the projected state.
//
//   drv_threaded_frames run  <nw> <k> <budget> <ordered> <mode> <arg>
//        mode script: arg = comma separated thread ids ("-" = none), fallback lowest id
//        mode random: arg = seed
//   drv_threaded_frames explore <nw> <k> <budget> <ordered> [maxruns]
//        depth-first enumeration of all schedules, pruned on projected states;
//        prints every distinct transition {from,t,op,to}
//   drv_threaded_frames batch   (stdin: one "run ..." argument line per execution)
//   drv_threaded_frames seek <ktotal> <first_frame> <nframes> <nw> <ordered>
//        full Exec including the seek loop; prints the evaluated absolute frames
#include <fstream>
#include <functional>
#include <unistd.h>
#include <iostream>
#include <set>
#include <sstream>

#include <votca/csg/csgapplication.h>
#include <votca/csg/interaction.h>
#include <votca/csg/molecule.h>
#include <votca/csg/topologyreader.h>
#include <votca/csg/trajectoryreader.h>

#include "vsched.h"

using namespace votca;
using namespace votca::csg;

static vsched::Scheduler S;
extern "C" void votca_verif_event(int kind, const void *obj, long arg) { S.event(kind, obj, arg); }

struct Shared {
  int ktotal = 0;          // frames in the "file"
  int pos = 0;             // last absolute frame handed out
  int base = 0;            // absolute number of (first selected frame - 1)
  int in_reader = 0, in_merge = 0;   // only one thread runs at a time (baton)
  int max_in_reader = 0, max_in_merge = 0;
  std::vector<long> readSeq;                    // relative frames returned by NextFrame after the seek
  std::vector<std::pair<long, long>> evalLog;   // (worker, relative frame)
  std::vector<long> mergeLog;
  std::vector<long> evalAbs;
  long topo_fp = -1;
  bool topo_differs = false;
};
static Shared G;

class VTopReader : public TopologyReader {
 public:
  bool ReadTopology(std::string, Topology &top) override {
    top.Cleanup();
    top.CreateResidue("R");
    top.RegisterBeadType("A");
    Bead *b0 = top.CreateBead(Bead::spherical, "a", "A", 0, 1.0, 0.0);
    Bead *b1 = top.CreateBead(Bead::spherical, "b", "A", 0, 1.0, 0.0);
    Molecule *mol = top.CreateMolecule("M");
    mol->AddBead(b0, "a");
    mol->AddBead(b1, "b");
    // one bond, so that every worker's topology must carry bonded interactions and exclusions
    IBond *ib = new IBond(0, 1);
    ib->setGroup("bond");
    ib->setIndex(0);
    ib->setMolecule(0);
    top.AddBondedInteraction(ib);
    mol->AddInteraction(ib);
    top.RebuildExclusions();
    top.setStep(0);
    return true;
  }
};

// fault injection (FaultTF.tla): an exception leaves the reader / EvalConfiguration for frame g_fail_frame
static int g_fail_frame = 0;
static int g_fail_where = 0;   // 0 none, 1 read, 2 eval

class VTrjReader : public TrajectoryReader {
 public:
  bool Open(const std::string &) override { return true; }
  bool FirstFrame(Topology &top) override {
    G.pos = 0;
    return NextFrame(top);
  }
  bool NextFrame(Topology &top) override {
    int n = ++G.in_reader;
    if (n > G.max_in_reader) G.max_in_reader = n;
    votca_verif_event(vsched::U_READ, this, 0);   // yield point inside the reader
    bool ok = false;
    if (g_fail_where == 1 && G.pos < G.ktotal && G.pos + 1 - G.base == g_fail_frame) {
      --G.in_reader;
      throw std::runtime_error("verif: unexpected end of trajectory file");
    }
    if (G.pos < G.ktotal) {
      ++G.pos;
      top.setStep(G.pos);
      top.setTime(double(G.pos));
      if (S.active) G.readSeq.push_back(G.pos - G.base);
      ok = true;
    } else {
      ++G.pos;  // the spec counts the failed attempt too
    }
    --G.in_reader;
    return ok;
  }
};

class App : public CsgApplication {
 public:
  bool ordered = true;
  std::string ProgramName() override { return "drv_threaded_frames"; }
  void HelpText(std::ostream &) override {}
  bool DoTrajectory() override { return true; }
  bool DoMapping() override { return false; }
  bool DoThreaded() override { return true; }
  bool SynchronizeThreads() override { return ordered; }
  void Initialize() override {
    CsgApplication::Initialize();
    TopReaderFactory().Register<VTopReader>("vtop");
    TrjReaderFactory().Register<VTrjReader>("vtrj");
  }
  class W : public CsgApplication::Worker {
   public:
    long frame = 0;
    void EvalConfiguration(Topology *top, Topology *) override {
      votca_verif_event(vsched::U_EVAL, this, 0);
      frame = top->getStep() - G.base;
      if (g_fail_where == 2 && frame == g_fail_frame) throw std::runtime_error("verif: analysis failed");
      G.evalLog.emplace_back(getId(), frame);
      G.evalAbs.push_back(top->getStep());
      // every worker must analyse the frame on an equivalent topology (same beads, bonded interactions, exclusions)
      long fp = top->BeadCount() * 10000 + long(top->BondedInteractions().size()) * 100 +
                (top->BeadCount() >= 2 && top->getExclusions().IsExcluded(top->getBead(0), top->getBead(1)) ? 1 : 0);
      if (G.topo_fp == -1) G.topo_fp = fp;
      if (fp != G.topo_fp) G.topo_differs = true;
    }
  };
  std::unique_ptr<Worker> ForkWorker() override { return std::make_unique<W>(); }
  void MergeWorker(Worker *w) override {
    int n = ++G.in_merge;
    if (n > G.max_in_merge) G.max_in_merge = n;
    bool by_main = pthread_equal(pthread_self(), main_thread);
    votca_verif_event(by_main ? vsched::U_MMERGE : vsched::U_MERGE, w, w->getId());
    G.mergeLog.push_back(by_main ? w->getId() : static_cast<W *>(w)->frame);
    --G.in_merge;
  }
  void BeginEvaluate(Topology *top, Topology *) override {
    // the seek loop is over: 'top' (worker 0's topology) holds the first selected frame
    G.base = int(top->getStep()) - 1;
    main_thread = pthread_self();
    S.reset();
    S.active = true;
  }
  void EndEvaluate() override { S.finish(); }
  pthread_t main_thread;

  // ---- projection (called by the scheduler while every other thread is parked) ----
  const void *rdr() { return &traj_readerMutex_; }
  std::string alias_of(const void *m) {
    if (m == &traj_readerMutex_) return "rdr:0";
    for (size_t i = 0; i < threadsMutexesIn_.size(); ++i)
      if (threadsMutexesIn_[i].get() == m) return "in:" + std::to_string(i);
    for (size_t i = 0; i < threadsMutexesOut_.size(); ++i)
      if (threadsMutexesOut_[i].get() == m) return "out:" + std::to_string(i);
    return "mm:0";
  }
  long worker_index(const void *thread_obj) {
    for (auto &w : myWorkers_)
      if (static_cast<const tools::Thread *>(w.get()) == thread_obj) return w->getId();
    return -1;
  }
  vsched::Op naming(int, int kind, const void *obj, long arg) {
    vsched::Op op;
    switch (kind) {
      case VV_LOCK_REQ:
      case VV_UNLOCK: {
        op.k = kind == VV_LOCK_REQ ? "lock" : "unlock";
        std::string a = alias_of(obj);
        op.o = a.substr(0, a.find(':'));
        op.i = std::stol(a.substr(a.find(':') + 1));
        break;
      }
      case VV_THREAD_START: op = {"start", "w", worker_index(obj)}; break;
      case VV_THREAD_BEGIN: op = {"begin", "", 0}; break;
      case VV_THREAD_END: op = {"end", "", 0}; break;
      case VV_JOIN_REQ: op = {"join", "w", worker_index(obj)}; break;
      case vsched::U_READ: op = {"user", "read", 0}; break;
      case vsched::U_EVAL: op = {"user", "eval", 0}; break;
      case vsched::U_MERGE: op = {"user", "merge", 0}; break;
      case vsched::U_MMERGE: op = {"user", "mmerge", arg}; break;
      default: op = {"?", "", kind};
    }
    return op;
  }
  std::string snapshot(int nw) {
    std::ostringstream o;
    o << "{\"pc\":[";
    for (int t = 0; t <= nw; ++t) {
      vsched::Op p{"unborn", "", 0};
      if (t == 0) p = S.thread(0).pending;
      else {
        // worker t-1
        for (int j = 1; j < S.nthreads(); ++j)
          if (S.thread(j).visible && worker_index(S.thread(j).obj) == t - 1) p = S.thread(j).pending;
      }
      o << (t ? "," : "") << "{\"k\":\"" << p.k << "\",\"o\":\"" << p.o << "\",\"i\":" << p.i << "}";
    }
    o << "],\"sem\":{";
    bool firsts = true;
    auto sem = [&](const std::string &name, const void *m) {
      o << (firsts ? "" : ",") << "\"" << name << "\":" << (m && S.locked.count(m) && S.locked[m] ? "true" : "false");
      firsts = false;
    };
    sem("rdr:0", &traj_readerMutex_);
    for (int w = 0; w < nw; ++w) {
      sem("in:" + std::to_string(w), (size_t)w < threadsMutexesIn_.size() ? threadsMutexesIn_[w].get() : nullptr);
      sem("out:" + std::to_string(w), (size_t)w < threadsMutexesOut_.size() ? threadsMutexesOut_[w].get() : nullptr);
    }
    bool mm = false;
    for (auto &kv : S.locked)
      if (kv.second && alias_of(kv.first) == "mm:0") mm = true;
    o << ",\"mm:0\":" << (mm ? "true" : "false");
    o << "},\"nframes\":" << nframes_ << ",\"first\":" << (is_first_frame_ ? "true" : "false")
      << ",\"pos\":" << (G.pos - G.base) << ",\"frameOf\":[";
    for (int w = 0; w < nw; ++w) {
      long f = 0;
      for (auto &wk : myWorkers_)
        if (wk->getId() == w) f = top_step(wk.get()) - G.base;
      if (f < 0) f = 0;
      o << (w ? "," : "") << f;
    }
    o << "],\"readSeq\":[";
    for (size_t i = 0; i < G.readSeq.size(); ++i) o << (i ? "," : "") << G.readSeq[i];
    o << "],\"evalLog\":[";
    for (size_t i = 0; i < G.evalLog.size(); ++i)
      o << (i ? "," : "") << "[" << G.evalLog[i].first << "," << G.evalLog[i].second << "]";
    o << "],\"mergeLog\":[";
    for (size_t i = 0; i < G.mergeLog.size(); ++i) o << (i ? "," : "") << G.mergeLog[i];
    o << "],\"bad\":" << (S.bad_unlock ? "true" : "false") << "}";
    return o.str();
  }
  // Worker::top_ is protected; App is a friend of Worker through CsgApplication only, so read the step
  // through a tiny accessor subclass
  struct Peek : public CsgApplication::Worker {
    static long step(CsgApplication::Worker *w) { return static_cast<Peek *>(w)->top_.getStep(); }
    void EvalConfiguration(Topology *, Topology *) override {}
  };
  long top_step(Worker *w) { return Peek::step(w); }
};

struct RunResult {
  int rc = 0;
  std::vector<vsched::Step> steps;
  bool deadlock = false, mismatch = false, bad = false;
  int max_rdr = 0, max_merge = 0;
  std::string error;
  std::vector<long> evalAbs;
  bool topo_differs = false;
  int leftover = 0;   // worker threads still parked when Exec returned
};

static void print_run(const struct RunResult &r, std::ostream &out, bool with_steps);
static std::function<void(const struct RunResult &)> g_abort_printer;   // set by the mode (batch / explore)
static std::function<void(const struct RunResult &)> g_pass_printer;    // called after the first pass of a two-pass run
static int g_passes = 1;   // 2: Run() is called a second time on the same application object

static RunResult collect(int rc, const std::string &err);
static std::streambuf *g_old_cout = nullptr, *g_old_cerr = nullptr;
static bool g_terminated = false;
// an exception left a thread function: the C++ runtime ends the process here; report the run first
static void on_terminate() {
  if (g_old_cout) std::cout.rdbuf(g_old_cout);
  if (g_old_cerr) std::cerr.rdbuf(g_old_cerr);
  g_terminated = true;
  RunResult r = collect(-2, "std::terminate");
  if (g_abort_printer) g_abort_printer(r);
  std::cout.flush();
  _exit(0);
}

static RunResult run_once(int nw, int ktotal, int first_frame, long budget, bool ordered,
                          const std::vector<int> &script, int fallback, unsigned long seed, long begin = 0) {
  G = Shared();
  G.ktotal = ktotal;
  App app;
  app.ordered = ordered;
  S.script = script;
  S.fallback = fallback;
  S.rng.seed(seed);
  S.active = false;
  S.naming = [&](int t, int k, const void *o, long a) { return app.naming(t, k, o, a); };
  S.snapshot = [&]() { return app.snapshot(nw); };
  std::streambuf *old = std::cout.rdbuf();
  std::streambuf *olde = std::cerr.rdbuf();
  g_old_cout = old;
  g_old_cerr = olde;
  S.on_abort = [&]() {
    // deadlock / script mismatch: every thread is parked; report and leave the process
    std::cout.rdbuf(old);
    std::cerr.rdbuf(olde);
    RunResult r = collect(-1, S.error);
    if (g_abort_printer) g_abort_printer(r);
    std::cout.flush();
    _exit(0);
  };
  std::vector<std::string> args = {"drv", "--top", "x.vtop", "--trj", "x.vtrj", "--nt", std::to_string(nw),
                                   "--first-frame", std::to_string(first_frame)};
  if (begin > 0) {
    args.push_back("--begin");
    args.push_back(std::to_string(begin));
  }
  if (budget >= 0) {
    args.push_back("--nframes");
    args.push_back(std::to_string(budget));
  }
  std::vector<char *> argv;
  for (auto &a : args) argv.push_back(const_cast<char *>(a.c_str()));
  std::ostringstream sink, esink;
  std::cout.rdbuf(sink.rdbuf());
  std::cerr.rdbuf(esink.rdbuf());
  int rc = app.Exec((int)argv.size(), argv.data());
  if (int left = S.unfinished()) {
    // Exec came back (an exception reached the main thread) while worker threads are still parked in the scheduler:
    // nothing can be run in this process any more (they would wake up on the next run's batons); report and leave
    std::cout.rdbuf(old);
    std::cerr.rdbuf(olde);
    RunResult r = collect(rc, esink.str());
    r.leftover = left;
    if (g_abort_printer) g_abort_printer(r);
    std::cout.flush();
    _exit(0);
  }
  if (g_passes == 2 && rc == 0) {
    // the same application object runs a second time (object reuse): report the first pass, then Run() again
    std::cout.rdbuf(old);
    RunResult r1 = collect(rc, "");
    if (g_pass_printer) g_pass_printer(r1);
    std::cout.rdbuf(sink.rdbuf());
    G.readSeq.clear();
    G.evalLog.clear();
    G.mergeLog.clear();
    G.evalAbs.clear();
    G.max_in_reader = G.max_in_merge = 0;
    try {
      app.Run();
    } catch (std::exception &e) {
      rc = -1;
      esink << e.what();
    }
  }
  std::cout.rdbuf(old);
  std::cerr.rdbuf(olde);
  S.active = false;
  return collect(rc, S.error.empty() ? esink.str() : S.error);
}

static RunResult collect(int rc, const std::string &err) {
  RunResult r;
  r.rc = rc;
  r.steps = S.steps;
  r.deadlock = S.deadlock;
  r.mismatch = S.script_mismatch;
  r.bad = S.bad_unlock;
  r.error = err;
  r.max_rdr = G.max_in_reader;
  r.max_merge = G.max_in_merge;
  r.evalAbs = G.evalAbs;
  r.topo_differs = G.topo_differs;
  return r;
}

static void print_run(const RunResult &r, std::ostream &out, bool with_steps) {
  for (size_t i = 0; with_steps && i < r.steps.size(); ++i) {
    const auto &s = r.steps[i];
    out << "{\"e\":\"step\",\"n\":" << i << ",\"t\":" << s.thread << ",\"op\":{\"k\":\"" << s.op.k << "\",\"o\":\""
        << s.op.o << "\",\"i\":" << s.op.i << "},\"en\":[";
    for (size_t j = 0; j < s.enabled.size(); ++j) out << (j ? "," : "") << s.enabled[j];
    out << "],\"s\":" << (s.after.empty() ? "null" : s.after) << "}\n";
  }
  std::string err = r.error;
  for (auto &ch : err)
    if (ch == '"' || ch == '\n' || ch == '\\') ch = ' ';
  out << "{\"e\":\"end\",\"rc\":" << r.rc << ",\"deadlock\":" << (r.deadlock ? "true" : "false")
      << ",\"terminated\":" << (g_terminated ? "true" : "false") << ",\"mismatch\":" << (r.mismatch ? "true" : "false") << ",\"bad_unlock\":" << (r.bad ? "true" : "false")
      << ",\"max_in_reader\":" << r.max_rdr << ",\"max_in_merge\":" << r.max_merge << ",\"topo_differs\":" << (r.topo_differs ? "true" : "false") << ",\"leftover\":" << r.leftover << ",\"steps\":" << r.steps.size()
      << ",\"evalAbs\":[";
  for (size_t i = 0; i < r.evalAbs.size(); ++i) out << (i ? "," : "") << r.evalAbs[i];
  out << "],\"error\":\"" << err << "\"}" << std::endl;
}

static std::vector<int> parse_script(const std::string &s) {
  std::vector<int> v;
  if (s == "-" || s.empty()) return v;
  std::stringstream ss(s);
  std::string tok;
  while (std::getline(ss, tok, ',')) v.push_back(std::stoi(tok));
  return v;
}

static int do_run_line(std::istringstream &in) {
  int nw, k, ordered;
  long budget;
  std::string mode, arg;
  in >> nw >> k >> budget >> ordered >> mode >> arg;
  std::vector<int> script;
  int fallback = 0;
  unsigned long seed = 0;
  if (mode == "script") script = parse_script(arg);
  else {
    fallback = 1;
    seed = std::stoul(arg);
  }
  std::cout << "{\"e\":\"begin\",\"nw\":" << nw << ",\"k\":" << k << ",\"b\":" << budget << ",\"ord\":"
            << (ordered ? "true" : "false") << "}\n";
  g_abort_printer = [](const RunResult &r) { print_run(r, std::cout, true); };
  RunResult r = run_once(nw, k, 0, budget, ordered != 0, script, fallback, seed);
  print_run(r, std::cout, true);
  return 0;
}

int main(int argc, char **argv) {
  std::string cmd = argc > 1 ? argv[1] : "";
  if (cmd == "run") {
    std::string line;
    for (int i = 2; i < argc; ++i) line += std::string(argv[i]) + " ";
    std::istringstream in(line);
    return do_run_line(in);
  }
  if (cmd == "batch") {
    std::set_terminate(on_terminate);
    std::string line;
    while (std::getline(std::cin, line)) {
      std::istringstream in(line);
      std::string w;
      in >> w;
      if (w == "run") do_run_line(in);
      if (w == "run2") {
        // "run2 nw k budget ordered random seed": two passes on one application object
        std::string rest;
        std::getline(in, rest);
        std::istringstream in2(rest);
        int nw, k, ordered;
        long budget;
        std::string mode, arg;
        in2 >> nw >> k >> budget >> ordered >> mode >> arg;
        std::string beginrec = "{\"e\":\"begin\",\"nw\":" + std::to_string(nw) + ",\"k\":" + std::to_string(k) + ",\"b\":" +
                               std::to_string(budget) + ",\"ord\":" + (ordered ? "true" : "false") + ",\"pass\":";
        std::cout << beginrec << "1}\n";
        g_abort_printer = [](const RunResult &r) { print_run(r, std::cout, true); };
        g_pass_printer = [beginrec](const RunResult &r) {
          print_run(r, std::cout, true);
          std::cout << beginrec << "2}\n";
        };
        g_passes = 2;
        RunResult r = run_once(nw, k, 0, budget, ordered != 0, {}, 1, std::stoul(arg));
        g_passes = 1;
        print_run(r, std::cout, true);
      }
      if (w == "fault") {
        // "fault nw k budget ordered seed f read|eval": random schedule, an exception for frame f
        int nw, k, ordered, f;
        long budget;
        unsigned long seed;
        std::string at;
        in >> nw >> k >> budget >> ordered >> seed >> f >> at;
        std::cout << "{\"e\":\"begin\",\"nw\":" << nw << ",\"k\":" << k << ",\"b\":" << budget << ",\"ord\":"
                  << (ordered ? "true" : "false") << ",\"f\":" << f << ",\"at\":\"" << at << "\",\"seed\":" << seed << "}\n";
        g_abort_printer = [](const RunResult &r) { print_run(r, std::cout, false); };
        g_fail_frame = f;
        g_fail_where = at == "read" ? 1 : 2;
        RunResult r = run_once(nw, k, 0, budget, ordered != 0, {}, 1, seed);
        g_fail_where = 0;
        print_run(r, std::cout, false);
      }
      if (w == "seek") {
        int ktotal, ff, nw, ordered;
        long budget;
        unsigned long seed;
        long begin = 0;
        in >> ktotal >> ff >> budget >> nw >> ordered >> seed >> begin;
        g_abort_printer = [](const RunResult &r) { print_run(r, std::cout, false); };
        std::cout << "{\"e\":\"seek\",\"total\":" << ktotal << ",\"ff\":" << ff << ",\"b\":" << budget << ",\"nw\":" << nw
                  << ",\"ord\":" << (ordered ? "true" : "false") << "}\n";
        RunResult r = run_once(nw, ktotal, ff, budget, ordered != 0, {}, 1, seed, begin);
        print_run(r, std::cout, false);
      }
    }
    return 0;
  }
  if (cmd == "seek") {
    int ktotal = std::stoi(argv[2]), ff = std::stoi(argv[3]), nw = std::stoi(argv[5]), ordered = std::stoi(argv[6]);
    long budget = std::stol(argv[4]);
    unsigned long seed = argc > 7 ? std::stoul(argv[7]) : 1;
    RunResult r = run_once(nw, ktotal, ff, budget, ordered != 0, {}, 1, seed);
    print_run(r, std::cout, true);
    return 0;
  }
  if (cmd == "explore") {
    int nw = std::stoi(argv[2]), k = std::stoi(argv[3]), ordered = std::stoi(argv[5]);
    long budget = std::stol(argv[4]);
    long maxruns = argc > 6 ? std::stol(argv[6]) : 2000000;
    std::set<std::string> visited, printed, states;
    std::vector<std::vector<int>> stack;
    stack.push_back({});
    long runs = 0, transitions = 0;
    bool trouble = false;
    while (!stack.empty() && runs < maxruns && !trouble) {
      std::vector<int> prefix = stack.back();
      stack.pop_back();
      g_abort_printer = [](const RunResult &r) {
        std::cout << "{\"e\":\"trouble\",\"prefix\":[";
        for (size_t i = 0; i < r.steps.size(); ++i) std::cout << (i ? "," : "") << r.steps[i].thread;
        std::cout << "]}\n";
        print_run(r, std::cout, true);
        std::cout << "{\"e\":\"explored\",\"runs\":0,\"states\":0,\"transitions\":0,\"complete\":false}" << std::endl;
      };
      RunResult r = run_once(nw, k, 0, budget, ordered != 0, prefix, 0, 0);
      ++runs;
      std::vector<int> choices;
      for (size_t i = 0; i < r.steps.size(); ++i) {
        const auto &s = r.steps[i];
        if (i >= prefix.size() || i + 1 == prefix.size()) {
          // states at or after the end of the prefix may be new
        }
        states.insert(s.before);
        if (visited.insert(s.before).second) {
          for (int e : s.enabled)
            if (e != s.thread) {
              std::vector<int> p = choices;
              p.push_back(e);
              stack.push_back(p);
            }
        }
        choices.push_back(s.thread);
        if (!s.after.empty()) {
          std::string key = s.before + "|" + std::to_string(s.thread) + "|" + s.after;
          if (printed.insert(key).second) {
            ++transitions;
            std::cout << "{\"e\":\"tr\",\"from\":" << s.before << ",\"t\":" << s.thread << ",\"op\":{\"k\":\"" << s.op.k
                      << "\",\"o\":\"" << s.op.o << "\",\"i\":" << s.op.i << "},\"to\":" << s.after << "}\n";
          }
          states.insert(s.after);
        }
      }
      if (r.rc != 0 || r.deadlock || r.mismatch || r.bad || r.max_rdr > 1 || r.max_merge > 1) {
        trouble = true;
        std::cout << "{\"e\":\"trouble\",\"prefix\":[";
        for (size_t i = 0; i < choices.size(); ++i) std::cout << (i ? "," : "") << choices[i];
        std::cout << "]}\n";
        print_run(r, std::cout, true);
      }
    }
    std::cout << "{\"e\":\"explored\",\"runs\":" << runs << ",\"states\":" << states.size() << ",\"transitions\":"
              << transitions << ",\"complete\":" << (stack.empty() && !trouble ? "true" : "false") << "}" << std::endl;
    return 0;
  }
  std::cerr << "usage: see source\n";
  return 2;
}
