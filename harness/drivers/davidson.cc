// Conformance driver for spec/davidson (property C09).
//
// Executes `solve key=value ...` commands against the REAL votca::xtp::DavidsonSolver
// (davidsonsolver.cc and matrixfreeoperator.cc are compiled into this executable; the
// HamiltonianOperator template of bseoperator_btda.h is used as it is) and prints one
// ndjson record per event:
//
//   {"e":"begin", ...the command...}
//   {"e":"opts",  ...what the solver printed about its options...}
//   {"e":"iter",  "i","space","rm","rx","pct"}   one per iteration line of the solver's log
//   {"e":"end",   status, final message, and OBSERVATIONS computed independently of the solver
//                 with Eigen's dense solvers}
//
// No source hook: iteration number, search space, residual and "% converged" are parsed from
// the solver's own Logger output.  The driver takes no decision about pass/fail; the numeric
// observations are handed to spec/davidson/TraceDavidson.tla as integers:
//   resq[i]   true residual |A v_i - lambda_i v_i|_2 of the RETURNED pair, in 1/1000 of the selected
//             tolerance (ceil, capped at CAP)
//   floorq    rounding floor 64*eps*|A|_F in 1/1000 of the tolerance
//   normq[i]  | |v_i| - 1 | * 1e12 (capped)
//   orthq     max_{i<j} |v_i . v_j| * 1e12 over the non-zeroed returned vectors (capped)
//   desc      number of positions with lambda_i > lambda_{i+1}
//   lowq[i]   |sorted lambda_i - mu_i| in 1/1000 of kappa*sqrt(neigen)*tol (+floor), mu = lowest
//             (lowest positive in HAM mode) dense eigenvalues; kappa = 1 (SYMM) or
//             sqrt(cond([[A,B],[B,A]])) (HAM, Bauer-Fike for H = J*M)
//   rank[i]   index of the dense eigenvalue nearest to lambda_i
//   zero[i]   returned vector is exactly zero
//   famok     the generated matrix really is in the family that was asked for (strict diagonal
//             dominance / A+B and A-B positive definite), decided from the matrix itself
#include <algorithm>
#include <cmath>
#include <cstdint>
#include <fstream>
#include <iostream>
#include <map>
#include <memory>
#include <random>
#include <regex>
#include <sstream>
#include <stdexcept>
#include <string>
#include <vector>

#include <omp.h>

#include <votca/xtp/eigen.h>
// bse_operator.h (included by bseoperator_btda.h) needs libint; the HamiltonianOperator
// template itself does not: mark that header as already seen.
#define VOTCA_XTP_BSE_OPERATOR_H
#include <votca/xtp/bseoperator_btda.h>
#include <votca/xtp/davidsonsolver.h>
#include <votca/xtp/logger.h>
#include <votca/xtp/matrixfreeoperator.h>

using namespace votca;
using namespace votca::xtp;
using Eigen::MatrixXd;
using Eigen::VectorXd;

static const double CAP = 2.0e9;

// ---------------------------------------------------------------------------------------
// matrix-free wrapper (what BSE hands to the solver is always derived from MatrixFreeOperator)
class DenseOperator final : public MatrixFreeOperator {
 public:
  void attach(const MatrixXd &m) {
    mat_ = m;
    set_size(m.rows());
  }
  MatrixXd matmul(const MatrixXd &input) const override { return mat_ * input; }
  VectorXd diagonal() const override { return mat_.diagonal(); }

 private:
  MatrixXd mat_;
};

// ---------------------------------------------------------------------------------------
static double pick3(double a, double b, double c, long i) { return i == 0 ? a : (i == 1 ? b : c); }

struct Rng {
  std::mt19937_64 g;
  explicit Rng(std::uint64_t s) : g(s * 0x9E3779B97F4A7C15ULL + 12345) {}
  double u() { return double(g() >> 11) * (1.0 / 9007199254740992.0); }  // [0,1)
  double s() { return 2.0 * u() - 1.0; }                                    // [-1,1)
  long below(long n) { return long(g() % std::uint64_t(n)); }
};

static std::vector<long> permutation(long n, Rng &r, bool shuffle) {
  std::vector<long> p(n);
  for (long i = 0; i < n; ++i) p[i] = i;
  if (shuffle)
    for (long i = n - 1; i > 0; --i) std::swap(p[i], p[r.below(i + 1)]);
  return p;
}

static MatrixXd random_orthogonal(long n, Rng &r) {
  MatrixXd m(n, n);
  for (long j = 0; j < n; ++j)
    for (long i = 0; i < n; ++i) m(i, j) = r.s();
  Eigen::HouseholderQR<MatrixXd> qr(m);
  MatrixXd q = qr.householderQ();
  return q;
}

// symmetric coupling with unit scale: r_ij / (1+|i-j|)^2  (decaying) or r_ij / n (dense)
static MatrixXd coupling(long n, Rng &r, bool decaying) {
  MatrixXd c = MatrixXd::Zero(n, n);
  for (long i = 0; i < n; ++i)
    for (long j = i + 1; j < n; ++j) {
      double v = r.s();
      v = decaying ? v / double((1 + j - i) * (1 + j - i)) : v / double(n);
      c(i, j) = v;
      c(j, i) = v;
    }
  return c;
}

// increasing diagonal values with minimal gap; profile 0: gaps in [0.5,1); 1: sqrt(1+i) as in the
// upstream tests; 2: geometrically growing gaps (widely spread spectrum)
static VectorXd diag_profile(long n, int profile, Rng &r) {
  VectorXd d(n);
  double x = 1.0;
  for (long i = 0; i < n; ++i) {
    if (profile == 1) {
      d(i) = std::sqrt(double(1 + i));
    } else {
      d(i) = x;
      double gap = 0.5 * (1.0 + r.u());
      if (profile == 2) gap *= std::pow(1.02, double(i));
      x += gap;
    }
  }
  return d;
}

static double dominance_margin(const MatrixXd &a) {  // min_i |a_ii| - sum_{j!=i}|a_ij|
  double m = 1e300;
  for (long i = 0; i < a.rows(); ++i) {
    double off = a.row(i).cwiseAbs().sum() - std::abs(a(i, i));
    m = std::min(m, std::abs(a(i, i)) - off);
  }
  return m;
}

// diagonally dominant symmetric matrix with well separated diagonal.  var selects
// sign/profile/shuffle/coupling strength.
static MatrixXd make_dd(long n, int var, Rng &r, bool positive_only, double eps_override = 0.0) {
  int profile = var % 3;
  int sign = positive_only ? 0 : (var / 3) % 3;  // 0 positive, 1 negative, 2 both signs
  bool shuffle = (var / 9) % 2 == 1;
  double eps = pick3(0.001, 0.01, 0.03, (var / 18) % 3);
  bool decaying = (var / 54) % 2 == 0;
  if (eps_override > 0.0) eps = eps_override;
  VectorXd d = diag_profile(n, profile, r);
  if (sign == 1) {
    // all negative, the lowest (most negative) end keeps the gaps of the profile's low end
    VectorXd e(n);
    for (long i = 0; i < n; ++i) e(i) = -(d(n - 1) + 1.0) + (d(i) - d(0));
    d = e;
  } else if (sign == 2) {
    double mid = d(n / 2);
    for (long i = 0; i < n; ++i) {
      d(i) -= mid;
      d(i) += (d(i) >= 0 ? 0.25 : -0.25);
    }
  }
  MatrixXd c = coupling(n, r, decaying);
  double rowsum = 0;
  for (long i = 0; i < n; ++i) rowsum = std::max(rowsum, c.row(i).cwiseAbs().sum());
  double scale = eps;
  double dmin = d.cwiseAbs().minCoeff();
  if (rowsum > 0) scale = std::min(scale, 0.45 * dmin / rowsum);
  std::vector<long> p = permutation(n, r, shuffle);
  MatrixXd a = scale * c;
  for (long i = 0; i < n; ++i) a(p[i], p[i]) = d(i);
  return a;
}

struct Problem {
  std::string mode, fam;
  long N = 0;
  MatrixXd H;      // the dense operator (symmetric in SYMM mode, [[A,B],[-B,-A]] in HAM mode)
  MatrixXd A, B;   // HAM blocks
  bool famok = false;
  bool denseok = false;
  VectorXd mu;     // reference eigenvalues, ascending (HAM: the positive ones)
  double kappa = 1.0;
  double normF = 0.0;
};

static void build_symm(Problem &p, long n, const std::string &fam, int var, Rng &r, long nstart) {
  MatrixXd a;
  p.famok = true;
  if (fam == "dd") {
    a = make_dd(n, var, r, false);
    p.famok = dominance_margin(a) > 0.0;
  } else if (fam == "ddweak") {
    // nearly diagonal: the most benign diagonally dominant matrices, coupling 3e-9 .. 1e-7 (a Ritz
    // value can coincide with a diagonal element in floating point); profiles 0/1 only
    a = make_dd(n, var - (var % 3 == 2 ? 1 : 0), r, false, 3e-9 * double(1 + (var / 7) % 30));
    p.famok = dominance_margin(a) > 0.0;
  } else if (fam == "ddsparse" || fam == "ddshared") {
    // SPARSE strictly diagonally dominant matrix, well separated diagonal, whose nstart lowest diagonal
    // states (the unit start vectors of the solver: nstart = size of the initial guess) are NOT coupled
    // to each other: in iteration 0 every Ritz vector is a unit vector e_j and D_jj - lambda = 0 exactly.
    // ddsparse, var%3: 0 banded (i <-> i+nstart: decoupled chains, one start state per chain),
    //   1 purely diagonal, 2 every start state coupled to exactly one higher state OF ITS OWN, rest
    //   diagonal - the correction vectors of different roots are linearly independent by construction;
    // ddshared: random sparse, 2 partners per row among the higher states: several start states may
    //   share their only partners, then their first correction vectors are linearly dependent
    int kind = fam == "ddshared" ? 3 : var % 3;
    int sign = (var / 3) % 2;                       // positive / negative diagonal
    bool shuffle = (var / 6) % 2 == 1;
    double eps = pick3(0.01, 0.05, 0.2, (var / 12) % 3);
    VectorXd d = diag_profile(n, (var / 36) % 2, r);
    if (sign == 1) {
      VectorXd e(n);
      for (long i = 0; i < n; ++i) e(i) = -(d(n - 1) + 1.0) + (d(i) - d(0));
      d = e;
    }
    long k = std::max<long>(1, std::min<long>(nstart, n - 1));
    MatrixXd c = MatrixXd::Zero(n, n);              // indices in diagonal order, 0..k-1 = start states
    auto put = [&](long i, long j) {
      if (i == j || (i < k && j < k)) return;
      double v = r.s();
      c(i, j) = v;
      c(j, i) = v;
    };
    if (kind == 0) {
      for (long i = 0; i + k < n; ++i) put(i, i + k);
    } else if (kind == 3) {
      for (long i = 0; i < n; ++i)
        for (int t = 0; t < 2; ++t) put(i, k + r.below(n - k));
    } else if (kind == 2) {
      for (long i = 0; i < std::min(k, n - k); ++i) put(i, k + i);
    }
    double rowsum = 0;
    for (long i = 0; i < n; ++i) rowsum = std::max(rowsum, c.row(i).cwiseAbs().sum());
    double scale = eps;
    if (rowsum > 0) scale = std::min(scale, 0.45 * d.cwiseAbs().minCoeff() / rowsum);
    std::vector<long> perm = permutation(n, r, shuffle);
    a = MatrixXd::Zero(n, n);
    for (long i = 0; i < n; ++i)
      for (long j = 0; j < n; ++j) a(perm[i], perm[j]) = (i == j) ? d(i) : scale * c(i, j);
    bool uncoupled = true;
    for (long i = 0; i < k; ++i)
      for (long j = 0; j < k; ++j)
        if (i != j && a(perm[i], perm[j]) != 0.0) uncoupled = false;
    p.famok = uncoupled && (kind == 1 ? d.cwiseAbs().minCoeff() > 0.0 : dominance_margin(a) > 0.0);
  } else if (fam == "ddtie") {
    // strictly diagonally dominant, well separated diagonal EXCEPT for 2-3 exactly equal entries that are
    // coupled to each other; everything else weakly coupled (dense decaying), so no state is isolated.
    // var%4: 0 two equal smallest entries, 3 three equal smallest entries (with a one-vector start space
    //   lambda = D_jj exactly and the tied partner has D_ii - lambda = 0 with r_i != 0),
    // 1 tie across the boundary of the start space (states nstart-1 and nstart equal and coupled, the
    //   start states mutually uncoupled -> exact tie also with the default initial guess),
    // 2 tie among higher states
    int kind = var % 4;
    bool neg = (var / 4) % 2 == 1, shuffle = (var / 8) % 2 == 1;
    double eps = pick3(0.01, 0.03, 0.003, (var / 16) % 3);
    double ctie = pick3(0.05, 0.2, 0.1, (var / 48) % 3);
    VectorXd d = diag_profile(n, (var / 2) % 2, r);
    if (neg) {
      VectorXd e(n);
      for (long i = 0; i < n; ++i) e(i) = -(d(n - 1) + 1.0) + (d(i) - d(0));
      d = e;
    }
    long k = std::max<long>(1, std::min<long>(nstart, n - 1));
    std::vector<long> tied;
    if (kind == 0) tied = {0, 1};
    if (kind == 3) tied = {0, 1, 2};
    if (kind == 1) tied = {k - 1, k};
    if (kind == 2) tied = {n / 2, n / 2 + 1};
    for (long t : tied)
      if (t >= n) tied.clear();
    for (size_t t = 1; t < tied.size(); ++t) d(tied[t]) = d(tied[0]);
    MatrixXd c = eps * coupling(n, r, true);
    if (kind == 1)
      for (long i = 0; i < k; ++i)
        for (long j = 0; j < k; ++j)
          if (i != j) c(i, j) = 0.0;
    for (size_t t = 0; t < tied.size(); ++t)
      for (size_t u = t + 1; u < tied.size(); ++u) {
        double v = ctie * (r.u() < 0.5 ? -1.0 : 1.0) * (0.5 + 0.5 * r.u());
        c(tied[t], tied[u]) = v;
        c(tied[u], tied[t]) = v;
      }
    double rowsum = 0;
    for (long i = 0; i < n; ++i) rowsum = std::max(rowsum, c.row(i).cwiseAbs().sum());
    double scale = 1.0;
    if (rowsum > 0) scale = std::min(1.0, 0.45 * d.cwiseAbs().minCoeff() / rowsum);
    std::vector<long> perm = permutation(n, r, shuffle);
    a = MatrixXd::Zero(n, n);
    for (long i = 0; i < n; ++i)
      for (long j = 0; j < n; ++j) a(perm[i], perm[j]) = (i == j) ? d(i) : scale * c(i, j);
    p.famok = dominance_margin(a) > 0.0;
  } else if (fam == "ddflat") {
    // strictly diagonally dominant, but the diagonal is (nearly) constant: the diagonal
    // preconditioner carries no information
    MatrixXd c = coupling(n, r, var % 2 == 0);
    a = 0.3 * c;
    double base = (var / 2) % 2 == 0 ? 10.0 : -10.0;
    for (long i = 0; i < n; ++i) a(i, i) = base + 1e-3 * r.s();
    p.famok = dominance_margin(a) > 0.0;
  } else if (fam == "rand") {
    double scale = pick3(1.0, 100.0, 0.01, var % 3);
    double shift = pick3(0.0, -50.0, 50.0, (var / 3) % 3);
    a = MatrixXd::Zero(n, n);
    for (long i = 0; i < n; ++i)
      for (long j = i; j < n; ++j) {
        double v = scale * r.s();
        a(i, j) = v;
        a(j, i) = v;
      }
    a.diagonal().array() += shift * scale;
  } else if (fam == "neardeg") {
    // clustered spectrum: groups of eigenvalues 1e-7 .. 1e-10 apart; var odd: rotated by a random
    // orthogonal matrix (diagonal carries no information), var even: near-duplicate diagonal with
    // weak coupling
    double split = pick3(1e-7, 1e-10, 1e-4, (var / 2) % 3);
    long cl = 2 + (var / 6) % 3;
    VectorXd m(n);
    for (long i = 0; i < n; ++i) m(i) = 1.0 + double(i / cl) + split * double(i % cl) * (1.0 + r.u());
    if (var % 2 == 1) {
      MatrixXd q = random_orthogonal(n, r);
      a = q * m.asDiagonal() * q.transpose();
      a = (0.5 * (a + a.transpose())).eval();
    } else {
      std::vector<long> perm = permutation(n, r, true);
      a = 0.01 * coupling(n, r, true);
      for (long i = 0; i < n; ++i) a(perm[i], perm[i]) = m(i);
    }
  } else if (fam == "block") {
    // block-decoupled BY CONSTRUCTION: block 1 holds the smallest diagonal entries, block 2 has
    // larger diagonal entries but a strong negative all-to-all coupling, so the lowest
    // eigenvalue of the whole matrix lives in block 2 and unit start vectors (all in block 1)
    // never see it.
    long n1 = n / 2 + (var % 2) * (n / 4), n2 = n - n1;
    if (n2 < 2) {
      n2 = 2;
      n1 = n - 2;
    }
    a = MatrixXd::Zero(n, n);
    MatrixXd c1 = 0.01 * coupling(n1, r, true);
    VectorXd d1 = diag_profile(n1, 0, r);
    MatrixXd b2 = MatrixXd::Constant(n2, n2, -(d1(n1 - 1) + 3.0) / double(n2 - 1) * 2.0);
    std::vector<long> perm = permutation(n, r, (var / 2) % 2 == 1);
    for (long i = 0; i < n1; ++i)
      for (long j = 0; j < n1; ++j) a(perm[i], perm[j]) = (i == j) ? d1(i) : c1(i, j);
    for (long i = 0; i < n2; ++i)
      for (long j = 0; j < n2; ++j)
        a(perm[n1 + i], perm[n1 + j]) = (i == j) ? d1(n1 - 1) + 1.0 + 0.1 * double(i) : b2(i, j);
  } else if (fam == "intruder") {
    // diagonal 1,2,3,.. with weak decaying coupling, plus a strongly coupled 2x2 block far down the
    // diagonal whose lower eigenvalue lies BELOW the first diagonal entries and which is reached
    // from the unit-vector start space only through a weak link: the lowest root enters the Ritz
    // spectrum late and pushes already converged roots one position up (non-monotone convergence)
    a = pick3(0.01, 0.03, 0.002, var % 3) * coupling(n, r, true);
    for (long i = 0; i < n; ++i) a(i, i) = double(i + 1);
    long lo = std::min<long>(n - 2, std::max<long>(n / 2, 8));
    long pos = lo + (n - 2 > lo ? r.below(n - 1 - lo) : 0);  // block at (pos, pos+1), behind the start space
    if (pos < 0) pos = 0;
    double target = pick3(0.4, -1.5, 0.85, (var / 3) % 3);     // lower eigenvalue of the block
    double mid = double(pos) + 1.5;
    double b = std::sqrt((mid - target) * (mid - target) - 0.25);
    a(pos, pos + 1) = b;
    a(pos + 1, pos) = b;
    double link = pick3(1e-2, 1e-1, 1e-3, (var / 9) % 3) * (1.0 + r.u());
    long nlinks = 1 + (var / 27) % 2;                          // linked to one or two leading rows
    for (long k = 0; k < nlinks; ++k) {
      long j = r.below(std::min<long>(n / 4 > 0 ? n / 4 : 1, 6));
      if (j == pos || j == pos + 1) continue;
      a(j, pos) = link;
      a(pos, j) = link;
      if ((var / 54) % 2 == 1) {
        a(j, pos + 1) = -link;
        a(pos + 1, j) = -link;
      }
    }
  } else if (fam == "exactdeg") {
    // every eigenvalue exactly twice: two interleaved copies of one matrix
    long h = n / 2;
    MatrixXd m = make_dd(h, var, r, false);
    a = MatrixXd::Zero(n, n);
    for (long i = 0; i < h; ++i)
      for (long j = 0; j < h; ++j) {
        a(2 * i, 2 * j) = m(i, j);
        a(2 * i + 1, 2 * j + 1) = m(i, j);
      }
    if (n % 2 == 1) a(n - 1, n - 1) = m.diagonal().cwiseAbs().maxCoeff() + 5.0;
  } else {
    throw std::runtime_error("unknown SYMM family " + fam);
  }
  p.H = a;
  Eigen::SelfAdjointEigenSolver<MatrixXd> es(a, Eigen::EigenvaluesOnly);
  p.denseok = es.info() == Eigen::Success;
  p.mu = es.eigenvalues();
  p.kappa = 1.0;
}

static void build_ham(Problem &p, long n2, const std::string &fam, int var, Rng &r) {
  long n = n2 / 2;
  MatrixXd a, b;
  if (fam == "bse") {
    // A diagonally dominant positive, B weak symmetric coupling
    a = make_dd(n, var, r, true);
    double eb = pick3(0.001, 0.01, 0.03, (var / 5) % 3);
    b = eb * coupling(n, r, (var / 2) % 2 == 0) * ((var / 3) % 2 == 0 ? 1.0 : double(n) / 4.0);
    b.diagonal() = eb * VectorXd::NullaryExpr(n, [&]() { return r.s(); });
  } else if (fam == "bsehard") {
    // A symmetric positive definite without dominant diagonal, B so large that A-B or A+B is
    // close to singular (but still positive definite)
    MatrixXd q = random_orthogonal(n, r);
    VectorXd m(n);
    for (long i = 0; i < n; ++i) m(i) = 1.0 + 2.0 * double(i) / double(n);
    a = q * m.asDiagonal() * q.transpose();
    a = (0.5 * (a + a.transpose())).eval();
    MatrixXd c = coupling(n, r, false);
    c.diagonal() = VectorXd::NullaryExpr(n, [&]() { return r.s() / double(n); });
    Eigen::SelfAdjointEigenSolver<MatrixXd> ec(c, Eigen::EigenvaluesOnly);
    double cn = std::max(std::abs(ec.eigenvalues()(0)), std::abs(ec.eigenvalues()(n - 1)));
    double frac = pick3(0.5, 0.9, 0.99, var % 3);
    b = (cn > 0 ? frac / cn : 0.0) * c;  // |B|_2 = frac * lambda_min(A)
  } else {
    throw std::runtime_error("unknown HAM family " + fam);
  }
  p.A = a;
  p.B = b;
  p.H = MatrixXd(n2, n2);
  p.H.topLeftCorner(n, n) = a;
  p.H.topRightCorner(n, n) = b;
  p.H.bottomLeftCorner(n, n) = -b;
  p.H.bottomRightCorner(n, n) = -a;
  Eigen::SelfAdjointEigenSolver<MatrixXd> ep(a + b, Eigen::EigenvaluesOnly), em(a - b, Eigen::EigenvaluesOnly);
  double lo = std::min(ep.eigenvalues()(0), em.eigenvalues()(0));
  double hi = std::max(ep.eigenvalues()(n - 1), em.eigenvalues()(n - 1));
  p.famok = ep.info() == Eigen::Success && em.info() == Eigen::Success && lo > 0.0;
  if (fam == "bse") p.famok = p.famok && dominance_margin(a) > 0.0;
  p.kappa = lo > 0.0 ? std::sqrt(hi / lo) : 1e300;
  Eigen::EigenSolver<MatrixXd> es(p.H, false);
  p.denseok = es.info() == Eigen::Success;
  std::vector<double> pos;
  double scale = p.H.cwiseAbs().maxCoeff();
  for (long i = 0; i < n2; ++i) {
    std::complex<double> z = es.eigenvalues()(i);
    if (std::abs(z.imag()) > 1e-9 * scale) p.denseok = false;
    if (z.real() > 0) pos.push_back(z.real());
  }
  if (long(pos.size()) != n) p.denseok = false;
  std::sort(pos.begin(), pos.end());
  p.mu = Eigen::Map<VectorXd>(pos.data(), long(pos.size()));
}

static Problem build(const std::string &mode, const std::string &fam, long n, int var, std::uint64_t seed, long nstart) {
  Problem p;
  p.mode = mode;
  p.fam = fam;
  p.N = n;
  Rng r(seed);
  if (mode == "SYMM")
    build_symm(p, n, fam, var, r, nstart);
  else if (mode == "HAM")
    build_ham(p, n, fam, var, r);
  else
    throw std::runtime_error("unknown mode " + mode);
  p.normF = p.H.norm();
  return p;
}

// ---------------------------------------------------------------------------------------
static std::string jstr(const std::string &s) {
  std::string o = "\"";
  for (char c : s) {
    if (c == '"' || c == '\\')
      o += '\\', o += c;
    else if (static_cast<unsigned char>(c) < 0x20)
      o += ' ';
    else
      o += c;
  }
  return o + "\"";
}

static long capq(double x) {
  if (!(x == x)) return long(CAP);  // NaN
  if (x >= CAP) return long(CAP);
  if (x < 0) return 0;
  return long(std::ceil(x));
}

template <class V>
static std::string jarr(const V &v) {
  std::ostringstream o;
  o << "[";
  for (size_t i = 0; i < v.size(); ++i) o << (i ? "," : "") << v[i];
  o << "]";
  return o.str();
}

static double tol_of(const std::string &t) {
  if (t == "loose") return 1e-3;
  if (t == "normal") return 1e-4;
  if (t == "strict") return 1e-5;
  if (t == "lapack") return 1e-9;
  throw std::runtime_error("unknown tolerance name " + t);
}

// one solver object with its logger and the option values the harness has set on it so far
// (defaults of DavidsonSolver: tolerance normal, DPR, safe, max_search_space 0, iter_max 50, SYMM)
static const std::string SEP = "\n@@";
struct SolverObject {
  Logger log;
  DavidsonSolver ds;
  std::string mode = "SYMM", corr = "DPR", upd = "safe", tol = "normal";
  long mss = 0, itermax = 50;
  SolverObject() : log(Log::Level::warning), ds(log) {
    log.setMultithreading(false);  // collect messages in the logger's buffer
    log.setCommonPreface(SEP);
  }
  void set(const std::string &what, const std::string &v) {
    if (what == "corr") {
      ds.set_correction(v);
      corr = v;
    } else if (what == "upd") {
      ds.set_size_update(v);
      upd = v;
    } else if (what == "tol") {
      ds.set_tolerance(v);
      tol = v;
    } else if (what == "itermax") {
      ds.set_iter_max(std::stol(v));
      itermax = std::stol(v);
    } else if (what == "mode") {
      ds.set_matrix_type(v);
      mode = v;
    } else if (what == "mss") {
      ds.set_max_search_space(std::stol(v));
      mss = std::stol(v);
    } else {
      throw std::runtime_error("unknown option " + what);
    }
  }
};

int main() {
  omp_set_num_threads(1);
  Eigen::setNbThreads(1);
  std::string line;
  long seq = 0;
  std::cout.precision(17);
  std::string cached_key;
  Problem prob;
  std::unique_ptr<SolverObject> hobj;
  const std::regex re_iter(R"(\s(\d+)\s+(\d+)\s+\t\s*([0-9.]+)e([-+]\d+)\s+\t\s*([0-9.]+)% converged\s*$)");
  const std::regex re_conv(R"(Davidson converged after (\d+) iterations\.)");
  const std::regex re_warn(R"(Warning : Davidson\s+([0-9.]+)% converged after (\d+) iterations\.)");
  const std::regex re_tol(R"(Tolerance : ([0-9.eE+-]+))");
  const std::regex re_size(R"(Matrix size : (\d+)x(\d+))");
  const std::regex re_mss(R"(Max search space set to (\d+))");
  while (std::getline(std::cin, line)) {
    ++seq;
    std::cout << "cmd " << seq << " " << line << std::endl;
    std::istringstream in(line);
    std::string cmd;
    in >> cmd;
    try {
      // histories on ONE solver object:  obj id=<h> | set <what>=<value> | hsolve id=.. fam=.. N=.. neigen=..
      if (cmd == "obj") {
        std::string tok;
        in >> tok;
        hobj.reset(new SolverObject());
        std::cout << "{\"e\":\"obj\",\"id\":" << std::stol(tok.substr(tok.find('=') + 1)) << "}" << std::endl;
        continue;
      }
      if (cmd == "set") {
        std::string tok;
        in >> tok;
        auto eq = tok.find('=');
        if (!hobj || eq == std::string::npos) throw std::runtime_error("bad set command");
        const std::string what = tok.substr(0, eq), v = tok.substr(eq + 1);
        hobj->set(what, v);
        bool num = what == "itermax" || what == "mss";
        std::cout << "{\"e\":\"set\",\"what\":" << jstr(what) << ",\"v\":" << (num ? v : jstr(v)) << "}" << std::endl;
        continue;
      }
      if (cmd != "solve" && cmd != "hsolve") {
        std::cout << "err unknown command" << std::endl;
        continue;
      }
      const bool fresh = cmd == "solve";
      if (!fresh && !hobj) throw std::runtime_error("hsolve without obj");
      std::map<std::string, std::string> kv;
      std::string tok;
      while (in >> tok) {
        auto eq = tok.find('=');
        if (eq == std::string::npos) throw std::runtime_error("bad token " + tok);
        kv[tok.substr(0, eq)] = tok.substr(eq + 1);
      }
      auto S = [&](const char *k) -> std::string {
        auto it = kv.find(k);
        if (it == kv.end()) throw std::runtime_error(std::string("missing ") + k);
        return it->second;
      };
      auto I = [&](const char *k) -> long { return std::stol(S(k)); };
      // a fresh object per `solve` (all options set from the command); `hsolve` uses the history's
      // object as it is, the option values echoed in the begin record are the ones set so far
      std::unique_ptr<SolverObject> fobj;
      if (fresh) {
        fobj.reset(new SolverObject());
        fobj->set("corr", S("corr"));
        fobj->set("upd", S("upd"));
        fobj->set("tol", S("tol"));
        fobj->set("itermax", S("itermax"));
        fobj->set("mode", S("mode"));
        if (I("mss") >= 0) fobj->set("mss", S("mss"));
      }
      SolverObject &ob = fresh ? *fobj : *hobj;
      DavidsonSolver &ds = ob.ds;
      const long id = I("id"), N = I("N"), neigen = I("neigen"), mss = ob.mss, itermax = ob.itermax,
                 sig = I("sig"), mf = I("mf"), var = I("var");
      const std::uint64_t seed = std::stoull(S("seed"));
      const std::string mode = ob.mode, fam = S("fam"), corr = ob.corr, upd = ob.upd, tol = ob.tol;
      const double tolv = tol_of(tol);

      std::string key = mode + "/" + fam + "/" + std::to_string(N) + "/" + std::to_string(var) + "/" + std::to_string(seed);
      const long nstart = sig > 0 ? sig : 2 * neigen;   // size of the solver's initial guess
      if (fam == "ddsparse" || fam == "ddshared" || fam == "ddtie") key += "/" + std::to_string(nstart);
      if (key != cached_key) {
        prob = build(mode, fam, N, int(var), seed, nstart);
        cached_key = key;
      }
      const Problem &p = prob;
      if (kv.count("dump")) {  // optional: write the generated matrix (N, then rows) for reproduction by hand
        std::ofstream f(kv["dump"]);
        f.precision(17);
        f << p.H.rows() << "\n" << p.H << "\n";
      }

      std::cout << "{\"e\":\"begin\",\"id\":" << id << ",\"mode\":" << jstr(mode) << ",\"fam\":" << jstr(fam)
                << ",\"N\":" << N << ",\"neigen\":" << neigen << ",\"corr\":" << jstr(corr) << ",\"upd\":" << jstr(upd)
                << ",\"tol\":" << jstr(tol) << ",\"mss\":" << mss << ",\"itermax\":" << itermax << ",\"sig\":" << sig
                << ",\"mf\":" << mf << ",\"var\":" << var << ",\"seed\":" << seed << "}" << std::endl;

      // ---- run the real solver -------------------------------------------------------------
      std::string exc;
      try {
        if (mode == "SYMM") {
          if (mf) {
            DenseOperator op;
            op.attach(p.H);
            ds.solve(op, neigen, sig);
          } else {
            ds.solve(p.H, neigen, sig);
          }
        } else {
          if (mf) {
            DenseOperator oa, ob;
            oa.attach(p.A);
            ob.attach(p.B);
            HamiltonianOperator<DenseOperator, DenseOperator> hop(oa, ob);
            ds.solve(hop, neigen, sig);
          } else {
            ds.solve(p.H, neigen, sig);
          }
        }
      } catch (const std::exception &e) {
        exc = e.what();
        if (exc.empty()) exc = "exception";
      }
      std::ostringstream os;
      os << ob.log;
      std::string text = os.str();

      // ---- parse the solver's log -------------------------------------------------------------
      std::vector<std::string> msgs;
      {
        size_t pos = 0;
        while (true) {
          size_t nx = text.find(SEP, pos);
          if (nx == std::string::npos) {
            if (pos < text.size()) msgs.push_back(text.substr(pos));
            break;
          }
          if (nx > pos) msgs.push_back(text.substr(pos, nx - pos));
          pos = nx + SEP.size();
        }
      }
      long tolx = 0, lsize = -1, mssset = -1, ncomplex = 0;
      std::string lcorr = "?";
      std::string msg = "none";
      long msgiter = -1, msgpct = -1;
      std::vector<std::string> iters;
      for (const std::string &m : msgs) {
        std::smatch sm;
        if (std::regex_search(m, sm, re_iter)) {
          std::string mant = sm[3];
          mant.erase(std::remove(mant.begin(), mant.end(), '.'), mant.end());
          std::ostringstream o;
          o << "{\"e\":\"iter\",\"id\":" << id << ",\"i\":" << sm[1] << ",\"space\":" << sm[2] << ",\"rm\":" << std::stol(mant)
            << ",\"rx\":" << std::stol(sm[4]) << ",\"pct\":" << std::lround(std::stod(sm[5]) * 100.0) << "}";
          iters.push_back(o.str());
        } else if (std::regex_search(m, sm, re_conv)) {
          msg = "converged";
          msgiter = std::stol(sm[1]);
        } else if (std::regex_search(m, sm, re_warn)) {
          msg = "warning";
          msgpct = std::lround(std::stod(sm[1]) * 100.0);
          msgiter = std::stol(sm[2]);
        } else if (std::regex_search(m, sm, re_tol)) {
          tolx = std::lround(std::log10(std::stod(sm[1])));
        } else if (std::regex_search(m, sm, re_size)) {
          lsize = std::stol(sm[1]);
        } else if (std::regex_search(m, sm, re_mss)) {
          mssset = std::stol(sm[1]);
        } else if (m.find("DPR Correction") != std::string::npos) {
          lcorr = "DPR";
        } else if (m.find("Olsen Correction") != std::string::npos) {
          lcorr = "OLSEN";
        } else if (m.find("complex pairs") != std::string::npos) {
          ++ncomplex;
        }
      }
      std::cout << "{\"e\":\"opts\",\"id\":" << id << ",\"tolx\":" << tolx << ",\"corr\":" << jstr(lcorr) << ",\"size\":" << lsize
                << ",\"mssset\":" << mssset << "}" << std::endl;
      for (const std::string &s : iters) std::cout << s << std::endl;

      // ---- independent observations ----------------------------------------------------------
      std::string status = ds.info() == Eigen::Success
                               ? "Success"
                               : (ds.info() == Eigen::NoConvergence ? "NoConvergence" : "Other");
      VectorXd lam = ds.eigenvalues();
      MatrixXd vec = ds.eigenvectors();
      long nret = lam.size();
      bool shape = vec.cols() == nret && (nret == 0 || vec.rows() == N);
      std::vector<long> zero, resq, normq, lowq, rank;
      long orthq = 0, desc = 0;
      const double floorv = 64.0 * 2.220446049250313e-16 * p.normF;
      double maxres = 0, maxorth = 0;
      if (shape) {
        for (long i = 0; i < nret; ++i) {
          VectorXd v = vec.col(i);
          bool z = (v.array() == 0.0).all();
          zero.push_back(z ? 1 : 0);
          double res = (p.H * v - lam(i) * v).norm();
          if (!z) maxres = std::max(maxres, res);
          resq.push_back(capq(1000.0 * res / tolv));
          normq.push_back(capq(std::abs(v.norm() - 1.0) * 1e12));
          long best = 0;
          for (long k = 1; k < p.mu.size(); ++k)
            if (std::abs(p.mu(k) - lam(i)) < std::abs(p.mu(best) - lam(i))) best = k;
          rank.push_back(p.mu.size() ? best : -1);
        }
        for (long i = 0; i < nret; ++i)
          for (long j = i + 1; j < nret; ++j)
            if (!zero[i] && !zero[j]) maxorth = std::max(maxorth, std::abs(vec.col(i).dot(vec.col(j))));
        orthq = capq(maxorth * 1e12);
        for (long i = 0; i + 1 < nret; ++i)
          if (lam(i) > lam(i + 1)) ++desc;
        std::vector<double> sl(lam.data(), lam.data() + nret);
        std::sort(sl.begin(), sl.end());
        double bound = p.kappa * std::sqrt(double(std::max<long>(neigen, 1))) * tolv + floorv * p.kappa;
        for (long i = 0; i < nret; ++i) {
          if (i < p.mu.size())
            lowq.push_back(capq(1000.0 * std::abs(sl[i] - p.mu(i)) / bound));
          else
            lowq.push_back(long(CAP));
        }
      }
      std::cout << "{\"e\":\"end\",\"id\":" << id << ",\"status\":" << jstr(status) << ",\"exc\":" << jstr(exc)
                << ",\"msg\":" << jstr(msg) << ",\"msgiter\":" << msgiter << ",\"msgpct\":" << msgpct
                << ",\"niterapi\":" << ds.num_iterations() << ",\"nret\":" << nret << ",\"shape\":" << (shape ? 1 : 0)
                << ",\"zero\":" << jarr(zero) << ",\"resq\":" << jarr(resq) << ",\"floorq\":" << capq(1000.0 * floorv / tolv)
                << ",\"normq\":" << jarr(normq) << ",\"orthq\":" << orthq << ",\"desc\":" << desc << ",\"lowq\":" << jarr(lowq)
                << ",\"rank\":" << jarr(rank) << ",\"famok\":" << (p.famok ? 1 : 0) << ",\"denseok\":" << (p.denseok ? 1 : 0)
                << ",\"kappaq\":" << capq(1000.0 * p.kappa) << ",\"ncomplex\":" << ncomplex << "}" << std::endl;
      // human-readable extras (ignored by the trace spec, kept in replay artefacts)
      std::cout << "info maxres " << maxres << " maxorth " << maxorth << " normF " << p.normF << " lambda";
      for (long i = 0; i < nret; ++i) std::cout << " " << lam(i);
      std::cout << " mu";
      for (long i = 0; i < std::min<long>(p.mu.size(), neigen + 2); ++i) std::cout << " " << p.mu(i);
      std::cout << std::endl;
    } catch (const std::exception &e) {
      std::cout << "exc " << e.what() << std::endl;
    }
  }
  return 0;
}
