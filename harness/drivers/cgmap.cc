// Conformance driver for spec/cgmap (C01): executes text commands against the real
// coarse-graining entry points and prints what it observes.
//   top <nmol> <n> m1 .. mn       atomistic Topology: nmol molecules "M" with atoms A1..An
//   topx <nmol> {<name> <n> m1 .. mn}*   atomistic Topology with molecules of several types
//   map <file.xml[;file2.xml]> [<pattern>]   CGEngine::LoadMoleculeType (';'-separated list), optional
//                                 CGEngine::AddIgnore(pattern), CreateCGTopology
//   mass m1 .. mn                 Bead::setMass on atom i of EVERY molecule (all molecules have n atoms):
//                                 a mass changed through the public API after the map was created
//   remap                         a second CG topology + map created by the SAME CGEngine
//   frame b00 .. b22  then per atom (molecule by molecule):
//         hp x y z hv vx vy vz hf fx fy fz
//                                 Topology::setBox(matrix) (auto type), bead data, TopologyMap::Apply()
//                                 prints the CG box/type and every CG bead (mass, flags, pos, vel, f)
// No expectation is computed here.
#include <iostream>
#include <memory>
#include <sstream>
#include <stdexcept>
#include <string>
#include <vector>

#include <votca/csg/bead.h>
#include <votca/csg/cgengine.h>
#include <votca/csg/molecule.h>
#include <votca/csg/topology.h>
#include <votca/csg/topologymap.h>

using namespace votca;
using namespace votca::csg;

static const char *tname(BoundaryCondition::eBoxtype t) {
  switch (t) {
    case BoundaryCondition::typeAuto:
      return "auto";
    case BoundaryCondition::typeTriclinic:
      return "tric";
    case BoundaryCondition::typeOrthorhombic:
      return "ortho";
    case BoundaryCondition::typeOpen:
      return "open";
  }
  return "?";
}

int main() {
  std::string line;
  long seq = 0;
  std::cout.precision(17);
  std::unique_ptr<Topology> top, cgtop;
  std::unique_ptr<CGEngine> engine;
  std::unique_ptr<TopologyMap> tmap;
  while (std::getline(std::cin, line)) {
    ++seq;
    std::istringstream in(line);
    std::string cmd;
    in >> cmd;
    std::cout << "cmd " << seq << " " << line.substr(0, 60) << std::endl;
    try {
      if (cmd == "top") {
        long nmol, n;
        in >> nmol >> n;
        std::vector<double> mass(n);
        for (auto &m : mass) in >> m;
        tmap.reset();
        engine.reset();
        cgtop.reset();
        top.reset(new Topology());
        top->RegisterBeadType("T");
        for (long k = 0; k < nmol; ++k) {
          const Residue &res = top->CreateResidue("R");
          Molecule *mol = top->CreateMolecule("M");
          for (long i = 0; i < n; ++i) {
            std::string name = "A" + std::to_string(i + 1);
            Bead *b = top->CreateBead(Bead::spherical, name, "T", res.getId(), mass[i], 0.0);
            mol->AddBead(b, name);
          }
        }
        std::cout << "ok " << top->BeadCount() << std::endl;
      } else if (cmd == "topx") {
        long nmol;
        in >> nmol;
        tmap.reset();
        engine.reset();
        cgtop.reset();
        top.reset(new Topology());
        top->RegisterBeadType("T");
        for (long k = 0; k < nmol; ++k) {
          std::string mname;
          long n;
          in >> mname >> n;
          const Residue &res = top->CreateResidue("R");
          Molecule *mol = top->CreateMolecule(mname);
          for (long i = 0; i < n; ++i) {
            double m;
            in >> m;
            std::string name = "A" + std::to_string(i + 1);
            Bead *b = top->CreateBead(Bead::spherical, name, "T", res.getId(), m, 0.0);
            mol->AddBead(b, name);
          }
        }
        if (!in) throw std::runtime_error("driver: short topx line");
        std::cout << "ok " << top->BeadCount() << std::endl;
      } else if (cmd == "map") {
        std::string file, ignore;
        in >> file >> ignore;
        tmap.reset();
        cgtop.reset(new Topology());
        engine.reset(new CGEngine());
        engine->LoadMoleculeType(file);
        if (!ignore.empty()) engine->AddIgnore(ignore);
        tmap = engine->CreateCGTopology(*top, *cgtop);
        std::cout << "\nok " << cgtop->BeadCount() << " molecules " << cgtop->MoleculeCount() << std::endl;
      } else if (cmd == "mass") {
        std::vector<double> mm;
        double m;
        while (in >> m) mm.push_back(m);
        if (mm.empty() || top->BeadCount() % Index(mm.size()) != 0) throw std::runtime_error("driver: bad mass line");
        for (Index i = 0; i < top->BeadCount(); ++i) top->getBead(i)->setMass(mm[i % mm.size()]);
        std::cout << "ok" << std::endl;
      } else if (cmd == "remap") {
        if (!engine) throw std::runtime_error("driver: no engine");
        tmap.reset();
        cgtop.reset(new Topology());
        tmap = engine->CreateCGTopology(*top, *cgtop);
        std::cout << "\nok " << cgtop->BeadCount() << " molecules " << cgtop->MoleculeCount() << std::endl;
      } else if (cmd == "frame") {
        if (!tmap) throw std::runtime_error("driver: no map");
        Eigen::Matrix3d m;
        for (int i = 0; i < 3; ++i)
          for (int j = 0; j < 3; ++j) in >> m(i, j);
        top->setBox(m);
        for (Index i = 0; i < top->BeadCount(); ++i) {
          Bead *b = top->getBead(i);
          int hp, hv, hf;
          Eigen::Vector3d p, v, f;
          in >> hp >> p[0] >> p[1] >> p[2] >> hv >> v[0] >> v[1] >> v[2] >> hf >> f[0] >> f[1] >> f[2];
          if (!in) throw std::runtime_error("driver: short frame line");
          if (hp) b->setPos(p); else b->HasPos(false);
          if (hv) b->setVel(v); else b->HasVel(false);
          if (hf) b->setF(f); else b->HasF(false);
        }
        tmap->Apply();
        std::ostringstream out;
        out.precision(17);
        out << "cg type " << tname(cgtop->getBoxType()) << " box";
        const Eigen::Matrix3d &g = cgtop->getBox();
        for (int i = 0; i < 3; ++i)
          for (int j = 0; j < 3; ++j) out << " " << g(i, j);
        out << "\n";
        for (Index i = 0; i < cgtop->BeadCount(); ++i) {
          Bead *b = cgtop->getBead(i);
          out << "bead " << i << " " << b->getName() << " mol " << b->getMoleculeId() << " mass " << b->getMass();
          Eigen::Vector3d z = Eigen::Vector3d::Zero();
          Eigen::Vector3d p = b->HasPos() ? b->getPos() : z;
          Eigen::Vector3d v = b->HasVel() ? b->getVel() : z;
          Eigen::Vector3d f = b->HasF() ? b->getF() : z;
          out << " hp " << b->HasPos() << " " << p[0] << " " << p[1] << " " << p[2];
          out << " hv " << b->HasVel() << " " << v[0] << " " << v[1] << " " << v[2];
          out << " hf " << b->HasF() << " " << f[0] << " " << f[1] << " " << f[2];
          bool ell = b->getSymmetry() == Bead::ellipsoidal && b->HasU() && b->HasV() && b->HasW();
          Eigen::Vector3d eu = ell ? b->getU() : z, ev = ell ? b->getV() : z, ew = ell ? b->getW() : z;
          out << " uvw " << ell << " " << eu[0] << " " << eu[1] << " " << eu[2] << " " << ev[0] << " " << ev[1] << " "
              << ev[2] << " " << ew[0] << " " << ew[1] << " " << ew[2] << "\n";
        }
        std::cout << out.str() << "end" << std::endl;
      } else {
        std::cout << "err unknown command" << std::endl;
      }
    } catch (const std::exception &e) {
      std::cout << "\nexc " << e.what() << std::endl;
    }
  }
  return 0;
}
