// Conformance driver for spec/derivs (C07): a dumb executor of text commands against the real
// votca code; no expectation is computed here.
//
//   ia <bond|angle|dih> <auto|tric|ortho|open> m00 .. m22  x0 y0 z0  x1 y1 z1 ...
//        fresh Topology, setBox(m[, type]) (row major; columns = box vectors), beads at the
//        given positions, IBond/IAngle/IDihedral on beads 0..n-1
//        -> "res <EvaluateVar> <Grad(0)> <Grad(1)> ..."   (3 numbers per bead)
//   pf <lj126|ljg|cbspl> <min> <cut> <nlam> l0 l1 ...       construct + setParam(vector)
//        -> "ok nlam <getParamSize> nopt <getOptParamSize>"
//   F r | DF i r | D2F i j r            -> "v <number>"
//   setopt i v | getopt i | params      -> setOptParam / getOptParam / Params()
//   tab step            -> SavePotTab(file, step)               -> "rows n" + "row x y" lines (as written to the file)
//   tab2 step rmin rcut -> SavePotTab(file, step, rmin, rcut)
//   spl <lin|cubic|akima> <bc> n x1..xn y1..yn   -> Interpolate
//   splfit <lin|cubic> <bc> gmin gmax h n x.. y..  -> GenerateGrid + Fit
//   sv x                -> "v <Calculate(x)> <CalculateDerivative(x)>"
#include <cstdio>
#include <cstdlib>
#include <fstream>
#include <iostream>
#include <memory>
#include <sstream>
#include <stdexcept>
#include <string>
#include <unistd.h>
#include <vector>

#include <votca/csg/bead.h>
#include <votca/csg/boundarycondition.h>
#include <votca/csg/interaction.h>
#include <votca/csg/potentialfunctions/potentialfunction.h>
#include <votca/csg/potentialfunctions/potentialfunctioncbspl.h>
#include <votca/csg/potentialfunctions/potentialfunctionlj126.h>
#include <votca/csg/potentialfunctions/potentialfunctionljg.h>
#include <votca/csg/topology.h>
#include <votca/tools/akimaspline.h>
#include <votca/tools/cubicspline.h>
#include <votca/tools/linspline.h>

using namespace votca;
using namespace votca::csg;

static std::string tmpname() {
  const char *d = std::getenv("VERIF_SCRATCH");
  std::string p = std::string(d ? d : "/tmp") + "/drv_derivs_" + std::to_string(getpid()) + ".tab";
  return p;
}

static void print_table_file(const std::string &fn) {
  std::ifstream in(fn);
  if (!in) throw std::runtime_error("driver: table file not written");
  std::vector<std::string> rows;
  std::string l;
  while (std::getline(in, l)) {
    if (l.empty() || l[0] == '#') continue;
    rows.push_back(l);
  }
  std::cout << "rows " << rows.size() << std::endl;
  for (auto &r : rows) std::cout << "row " << r << std::endl;
  std::remove(fn.c_str());
}

int main() {
  std::string line;
  long seq = 0;
  std::cout.precision(17);
  std::unique_ptr<PotentialFunction> pf;
  std::unique_ptr<tools::Spline> spl;
  while (std::getline(std::cin, line)) {
    ++seq;
    std::istringstream in(line);
    std::string cmd;
    in >> cmd;
    std::cout << "cmd " << seq << " " << line << std::endl;
    try {
      if (cmd == "ia") {
        std::string kind, req;
        in >> kind >> req;
        Eigen::Matrix3d m;
        for (int i = 0; i < 3; ++i)
          for (int j = 0; j < 3; ++j) in >> m(i, j);
        int n = kind == "bond" ? 2 : (kind == "angle" ? 3 : 4);
        Topology top;
        top.RegisterBeadType("A");
        if (req == "auto")
          top.setBox(m);
        else if (req == "tric")
          top.setBox(m, BoundaryCondition::typeTriclinic);
        else if (req == "ortho")
          top.setBox(m, BoundaryCondition::typeOrthorhombic);
        else if (req == "open")
          top.setBox(m, BoundaryCondition::typeOpen);
        else
          throw std::runtime_error("driver: unknown box type " + req);
        for (int i = 0; i < n; ++i) {
          Eigen::Vector3d p;
          in >> p[0] >> p[1] >> p[2];
          Bead *b = top.CreateBead(Bead::spherical, "b" + std::to_string(i), "A", 0, 1.0, 0.0);
          b->setPos(p);
        }
        if (!in) throw std::runtime_error("driver: short ia command");
        std::unique_ptr<Interaction> ia;
        if (kind == "bond")
          ia.reset(new IBond(0, 1));
        else if (kind == "angle")
          ia.reset(new IAngle(0, 1, 2));
        else if (kind == "dih")
          ia.reset(new IDihedral(0, 1, 2, 3));
        else
          throw std::runtime_error("driver: unknown interaction " + kind);
        std::cout << "res " << ia->EvaluateVar(top);
        for (int i = 0; i < n; ++i) {
          Eigen::Vector3d g = ia->Grad(top, i);
          std::cout << " " << g[0] << " " << g[1] << " " << g[2];
        }
        std::cout << std::endl;
      } else if (cmd == "pf") {
        std::string kind;
        double mn, cut;
        long nlam;
        in >> kind >> mn >> cut >> nlam;
        Eigen::VectorXd lam(nlam);
        for (long i = 0; i < nlam; ++i) in >> lam(i);
        if (!in) throw std::runtime_error("driver: short pf command");
        if (kind == "lj126")
          pf.reset(new PotentialFunctionLJ126("drv", mn, cut));
        else if (kind == "ljg")
          pf.reset(new PotentialFunctionLJG("drv", mn, cut));
        else if (kind == "cbspl")
          pf.reset(new PotentialFunctionCBSPL("drv", nlam, mn, cut));
        else
          throw std::runtime_error("driver: unknown potential " + kind);
        if (pf->getParamSize() != nlam) throw std::runtime_error("driver: parameter count");
        pf->setParam(lam);
        std::cout << "ok nlam " << pf->getParamSize() << " nopt " << pf->getOptParamSize() << std::endl;
      } else if (cmd == "F") {
        double r;
        in >> r;
        std::cout << "v " << pf->CalculateF(r) << std::endl;
      } else if (cmd == "DF") {
        long i;
        double r;
        in >> i >> r;
        std::cout << "v " << pf->CalculateDF(i, r) << std::endl;
      } else if (cmd == "D2F") {
        long i, j;
        double r;
        in >> i >> j >> r;
        std::cout << "v " << pf->CalculateD2F(i, j, r) << std::endl;
      } else if (cmd == "setopt") {
        long i;
        double v;
        in >> i >> v;
        pf->setOptParam(i, v);
        std::cout << "ok" << std::endl;
      } else if (cmd == "getopt") {
        long i;
        in >> i;
        std::cout << "v " << pf->getOptParam(i) << std::endl;
      } else if (cmd == "params") {
        std::cout << "params";
        for (long i = 0; i < pf->getParamSize(); ++i) std::cout << " " << pf->getParam(i);
        std::cout << std::endl;
      } else if (cmd == "tab") {
        double step;
        in >> step;
        std::string fn = tmpname();
        pf->SavePotTab(fn, step);
        print_table_file(fn);
      } else if (cmd == "tab2") {
        double step, rmin, rcut;
        in >> step >> rmin >> rcut;
        std::string fn = tmpname();
        pf->SavePotTab(fn, step, rmin, rcut);
        print_table_file(fn);
      } else if (cmd == "spl" || cmd == "splfit") {
        std::string kind;
        long bc, n;
        in >> kind >> bc;
        double gmin = 0, gmax = 0, h = 0;
        if (cmd == "splfit") in >> gmin >> gmax >> h;
        in >> n;
        Eigen::VectorXd x(n), y(n);
        for (long i = 0; i < n; ++i) in >> x(i);
        for (long i = 0; i < n; ++i) in >> y(i);
        if (!in) throw std::runtime_error("driver: short spline command");
        if (kind == "lin")
          spl.reset(new tools::LinSpline());
        else if (kind == "cubic")
          spl.reset(new tools::CubicSpline());
        else if (kind == "akima")
          spl.reset(new tools::AkimaSpline());
        else
          throw std::runtime_error("driver: unknown spline " + kind);
        spl->setBCInt(bc);
        if (cmd == "spl") {
          spl->Interpolate(x, y);
        } else {
          spl->GenerateGrid(gmin, gmax, h);
          spl->Fit(x, y);
        }
        std::cout << "ok" << std::endl;
      } else if (cmd == "sv") {
        double x;
        in >> x;
        double v = spl->Calculate(x);
        double d = spl->CalculateDerivative(x);
        std::cout << "v " << v << " " << d << std::endl;
      } else {
        std::cout << "err unknown command" << std::endl;
      }
    } catch (const std::exception &e) {
      std::cout << "exc " << e.what() << std::endl;
    }
  }
  return 0;
}
