// Conformance driver for spec/derivs (C07): a dumb executor of text commands against the real
// votca code; no expectation is computed here.
//
//   ia <bond|angle|dih> <auto|tric|ortho|open> m00 .. m22  x0 y0 z0  x1 y1 z1 ...
//        fresh Topology, setBox(m[, type]) (row major; columns = box vectors), beads at the
//        given positions, IBond/IAngle/IDihedral on beads 0..n-1
//        -> "res <EvaluateVar> <Grad(0)> <Grad(1)> ..."   (3 numbers per bead)
//   top new            session Topology with 9 beads; IBond/IAngle/IDihedral constructed from ONE bead list
//                      {5,2,7,0,3,1,8,4,6} (the list constructors pop their beads, as the topology readers
//                      use them), setGroup/setIndex/setMolecule, Topology::AddBondedInteraction
//   tev <kind> <type> m00 .. m22 positions...   on the session topology: setBox again, move the beads of that
//                      interaction, evaluate through Topology::BondedInteractions() (base-class pointers)
//                      -> "res ..." as for ia
//   pf <lj126|ljg|cbspl> <min> <cut> <nlam> l0 l1 ...       construct + setParam(vector)
//   setvec n l0 ..     setParam(vector) on the existing object;  setpar i v -> setParam(i, v)
//   setmin v | setcut v  -> setMinDist / setCutOffDist
//   saveparam          -> SaveParam(file) -> "rows n" + "row x y flag" (file kept for loadfile)
//   loadfile           -> setParam(file) with the file of the last saveparam
//   loadparam n v0 ..  -> write "i v_i" lines to a file, setParam(file)
//        -> "ok nlam <getParamSize> nopt <getOptParamSize>"
//   F r | DF i r | D2F i j r            -> "v <number>"
//   setopt i v | getopt i | params      -> setOptParam / getOptParam / Params()
//   tab step            -> SavePotTab(file, step)               -> "rows n" + "row x y" lines (as written to the file)
//   tab2 step rmin rcut -> SavePotTab(file, step, rmin, rcut)
//   spl <lin|cubic|akima> <bc> n x1..xn y1..yn   -> Interpolate
//   splfit <lin|cubic> <bc> gmin gmax h n x.. y..  -> GenerateGrid + Fit
//   sv x                -> "v <Calculate(x)> <CalculateDerivative(x)>"
#include <cstdio>
#include <cstdlib>
#include <fstream>
#include <iostream>
#include <list>
#include <memory>
#include <sstream>
#include <stdexcept>
#include <string>
#include <unistd.h>
#include <vector>

#include <votca/csg/bead.h>
#include <votca/csg/boundarycondition.h>
#include <votca/csg/interaction.h>
#include <votca/csg/potentialfunctions/potentialfunction.h>
#include <votca/csg/potentialfunctions/potentialfunctioncbspl.h>
#include <votca/csg/potentialfunctions/potentialfunctionlj126.h>
#include <votca/csg/potentialfunctions/potentialfunctionljg.h>
#include <votca/csg/topology.h>
#include <votca/tools/akimaspline.h>
#include <votca/tools/cubicspline.h>
#include <votca/tools/linspline.h>

using namespace votca;
using namespace votca::csg;

static std::string tmpname() {
  const char *d = std::getenv("VERIF_SCRATCH");
  std::string p = std::string(d ? d : "/tmp") + "/drv_derivs_" + std::to_string(getpid()) + ".tab";
  return p;
}

static void print_table_file(const std::string &fn, bool keep = false) {
  std::ifstream in(fn);
  if (!in) throw std::runtime_error("driver: table file not written");
  std::vector<std::string> rows;
  std::string l;
  while (std::getline(in, l)) {
    if (l.empty() || l[0] == '#') continue;
    rows.push_back(l);
  }
  std::cout << "rows " << rows.size() << std::endl;
  for (auto &r : rows) std::cout << "row " << r << std::endl;
  if (!keep) std::remove(fn.c_str());
}

// beads of the three session interactions (bond, angle, dihedral), in the order of the bead list
static const int kSessionBeads[3][4] = {{5, 2, -1, -1}, {7, 0, 3, -1}, {1, 8, 4, 6}};

int main() {
  std::string line;
  long seq = 0;
  std::cout.precision(17);
  std::unique_ptr<PotentialFunction> pf;
  std::unique_ptr<tools::Spline> spl;
  std::unique_ptr<Topology> stop;
  std::string parfile;
  while (std::getline(std::cin, line)) {
    ++seq;
    std::istringstream in(line);
    std::string cmd;
    in >> cmd;
    std::cout << "cmd " << seq << " " << line << std::endl;
    try {
      if (cmd == "ia") {
        std::string kind, req;
        in >> kind >> req;
        Eigen::Matrix3d m;
        for (int i = 0; i < 3; ++i)
          for (int j = 0; j < 3; ++j) in >> m(i, j);
        int n = kind == "bond" ? 2 : (kind == "angle" ? 3 : 4);
        Topology top;
        top.RegisterBeadType("A");
        if (req == "auto")
          top.setBox(m);
        else if (req == "tric")
          top.setBox(m, BoundaryCondition::typeTriclinic);
        else if (req == "ortho")
          top.setBox(m, BoundaryCondition::typeOrthorhombic);
        else if (req == "open")
          top.setBox(m, BoundaryCondition::typeOpen);
        else
          throw std::runtime_error("driver: unknown box type " + req);
        for (int i = 0; i < n; ++i) {
          Eigen::Vector3d p;
          in >> p[0] >> p[1] >> p[2];
          Bead *b = top.CreateBead(Bead::spherical, "b" + std::to_string(i), "A", 0, 1.0, 0.0);
          b->setPos(p);
        }
        if (!in) throw std::runtime_error("driver: short ia command");
        std::unique_ptr<Interaction> ia;
        if (kind == "bond")
          ia.reset(new IBond(0, 1));
        else if (kind == "angle")
          ia.reset(new IAngle(0, 1, 2));
        else if (kind == "dih")
          ia.reset(new IDihedral(0, 1, 2, 3));
        else
          throw std::runtime_error("driver: unknown interaction " + kind);
        std::cout << "res " << ia->EvaluateVar(top);
        for (int i = 0; i < n; ++i) {
          Eigen::Vector3d g = ia->Grad(top, i);
          std::cout << " " << g[0] << " " << g[1] << " " << g[2];
        }
        std::cout << std::endl;
      } else if (cmd == "top") {
        stop.reset(new Topology());
        stop->RegisterBeadType("A");
        for (int i = 0; i < 9; ++i) {
          Bead *b = stop->CreateBead(Bead::spherical, "b" + std::to_string(i), "A", 0, 1.0, 0.0);
          b->setPos(Eigen::Vector3d(100.0 + 7.0 * i, -50.0 + 3.0 * i, 11.0 * i));
        }
        std::list<Index> l = {5, 2, 7, 0, 3, 1, 8, 4, 6};
        Interaction *ib = new IBond(l);
        Interaction *ia = new IAngle(l);
        Interaction *id = new IDihedral(l);
        if (!l.empty()) throw std::runtime_error("driver: bead list not consumed");
        int n = 0;
        for (Interaction *x : {ib, ia, id}) {
          x->setGroup(n == 0 ? "bond" : (n == 1 ? "angle" : "dihedral"));
          x->setIndex(n);
          x->setMolecule(0);
          stop->AddBondedInteraction(x);  // the topology owns it from here
          ++n;
        }
        std::cout << "ok " << stop->BondedInteractions().size();
        for (Interaction *x : stop->BondedInteractions()) std::cout << " [" << x->getName() << "]";
        std::cout << std::endl;
      } else if (cmd == "tev") {
        std::string kind, req;
        in >> kind >> req;
        Eigen::Matrix3d m;
        for (int i = 0; i < 3; ++i)
          for (int j = 0; j < 3; ++j) in >> m(i, j);
        int which = kind == "bond" ? 0 : (kind == "angle" ? 1 : 2);
        int n = which + 2;
        if (!stop) throw std::runtime_error("driver: no session topology");
        if (req == "auto")
          stop->setBox(m);
        else if (req == "tric")
          stop->setBox(m, BoundaryCondition::typeTriclinic);
        else if (req == "ortho")
          stop->setBox(m, BoundaryCondition::typeOrthorhombic);
        else if (req == "open")
          stop->setBox(m, BoundaryCondition::typeOpen);
        else
          throw std::runtime_error("driver: unknown box type " + req);
        for (int i = 0; i < n; ++i) {
          Eigen::Vector3d p;
          in >> p[0] >> p[1] >> p[2];
          stop->getBead(kSessionBeads[which][i])->setPos(p);
        }
        if (!in) throw std::runtime_error("driver: short tev command");
        Interaction *x = stop->BondedInteractions()[which];
        if (x->BeadCount() != n) throw std::runtime_error("driver: BeadCount mismatch");
        for (int i = 0; i < n; ++i)
          if (x->getBeadId(i) != kSessionBeads[which][i]) throw std::runtime_error("driver: bead ids of the list constructor");
        std::cout << "res " << x->EvaluateVar(*stop);
        for (int i = 0; i < n; ++i) {
          Eigen::Vector3d g = x->Grad(*stop, i);
          std::cout << " " << g[0] << " " << g[1] << " " << g[2];
        }
        std::cout << std::endl;
      } else if (cmd == "setvec") {
        long nlam;
        in >> nlam;
        Eigen::VectorXd lam(nlam);
        for (long i = 0; i < nlam; ++i) in >> lam(i);
        if (!in || pf->getParamSize() != nlam) throw std::runtime_error("driver: bad setvec");
        pf->setParam(lam);
        std::cout << "ok" << std::endl;
      } else if (cmd == "setpar") {
        long i;
        double v;
        in >> i >> v;
        pf->setParam(i, v);
        std::cout << "ok" << std::endl;
      } else if (cmd == "setmin") {
        double v;
        in >> v;
        pf->setMinDist(v);
        std::cout << "ok " << pf->getMinDist() << std::endl;
      } else if (cmd == "setcut") {
        double v;
        in >> v;
        pf->setCutOffDist(v);
        std::cout << "ok " << pf->getCutOff() << std::endl;
      } else if (cmd == "saveparam") {
        parfile = tmpname() + ".par";
        pf->SaveParam(parfile);
        print_table_file(parfile, true);
      } else if (cmd == "loadfile") {
        pf->setParam(parfile);
        std::cout << "ok" << std::endl;
      } else if (cmd == "loadparam") {
        long n;
        in >> n;
        std::string fn = tmpname() + ".in";
        {
          std::ofstream o(fn);
          o.precision(17);
          for (long i = 0; i < n; ++i) {
            double v;
            in >> v;
            o << i << " " << v << " i\n";
          }
        }
        try {
          pf->setParam(fn);
        } catch (...) {
          std::remove(fn.c_str());
          throw;
        }
        std::remove(fn.c_str());
        std::cout << "ok" << std::endl;
      } else if (cmd == "pf") {
        std::string kind;
        double mn, cut;
        long nlam;
        in >> kind >> mn >> cut >> nlam;
        Eigen::VectorXd lam(nlam);
        for (long i = 0; i < nlam; ++i) in >> lam(i);
        if (!in) throw std::runtime_error("driver: short pf command");
        if (kind == "lj126")
          pf.reset(new PotentialFunctionLJ126("drv", mn, cut));
        else if (kind == "ljg")
          pf.reset(new PotentialFunctionLJG("drv", mn, cut));
        else if (kind == "cbspl")
          pf.reset(new PotentialFunctionCBSPL("drv", nlam, mn, cut));
        else
          throw std::runtime_error("driver: unknown potential " + kind);
        if (pf->getParamSize() != nlam) throw std::runtime_error("driver: parameter count");
        pf->setParam(lam);
        std::cout << "ok nlam " << pf->getParamSize() << " nopt " << pf->getOptParamSize() << std::endl;
      } else if (cmd == "F") {
        double r;
        in >> r;
        std::cout << "v " << pf->CalculateF(r) << std::endl;
      } else if (cmd == "DF") {
        long i;
        double r;
        in >> i >> r;
        std::cout << "v " << pf->CalculateDF(i, r) << std::endl;
      } else if (cmd == "D2F") {
        long i, j;
        double r;
        in >> i >> j >> r;
        std::cout << "v " << pf->CalculateD2F(i, j, r) << std::endl;
      } else if (cmd == "setopt") {
        long i;
        double v;
        in >> i >> v;
        pf->setOptParam(i, v);
        std::cout << "ok" << std::endl;
      } else if (cmd == "getopt") {
        long i;
        in >> i;
        std::cout << "v " << pf->getOptParam(i) << std::endl;
      } else if (cmd == "params") {
        std::cout << "params";
        for (long i = 0; i < pf->getParamSize(); ++i) std::cout << " " << pf->getParam(i);
        std::cout << std::endl;
      } else if (cmd == "tab") {
        double step;
        in >> step;
        std::string fn = tmpname();
        pf->SavePotTab(fn, step);
        print_table_file(fn);
      } else if (cmd == "tab2") {
        double step, rmin, rcut;
        in >> step >> rmin >> rcut;
        std::string fn = tmpname();
        pf->SavePotTab(fn, step, rmin, rcut);
        print_table_file(fn);
      } else if (cmd == "spl" || cmd == "splfit") {
        std::string kind;
        long bc, n;
        in >> kind >> bc;
        double gmin = 0, gmax = 0, h = 0;
        if (cmd == "splfit") in >> gmin >> gmax >> h;
        in >> n;
        Eigen::VectorXd x(n), y(n);
        for (long i = 0; i < n; ++i) in >> x(i);
        for (long i = 0; i < n; ++i) in >> y(i);
        if (!in) throw std::runtime_error("driver: short spline command");
        if (kind == "lin")
          spl.reset(new tools::LinSpline());
        else if (kind == "cubic")
          spl.reset(new tools::CubicSpline());
        else if (kind == "akima")
          spl.reset(new tools::AkimaSpline());
        else
          throw std::runtime_error("driver: unknown spline " + kind);
        spl->setBCInt(bc);
        if (cmd == "spl") {
          spl->Interpolate(x, y);
        } else {
          spl->GenerateGrid(gmin, gmax, h);
          spl->Fit(x, y);
        }
        std::cout << "ok" << std::endl;
      } else if (cmd == "sv") {
        double x;
        in >> x;
        double v = spl->Calculate(x);
        double d = spl->CalculateDerivative(x);
        std::cout << "v " << v << " " << d << std::endl;
      } else {
        std::cout << "err unknown command" << std::endl;
      }
    } catch (const std::exception &e) {
      std::cout << "exc " << e.what() << std::endl;
    }
  }
  if (!parfile.empty()) std::remove(parfile.c_str());
  return 0;
}
