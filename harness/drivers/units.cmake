# --- C20 units: UnitConverter / tools::conv / Elements / LAMMPS reader+writer factors from the real libraries.
# The private reader/writer headers are needed for the units those classes declare.
verif_driver(drv_units ${D}/units.cc)
target_include_directories(drv_units PRIVATE ${VERIF_REPO}/csg/src/libcsg)
# a new enumerator in unitconverter.h must break the build of the name tables (spec tables would be stale)
target_compile_options(drv_units PRIVATE -Werror=switch)
# csg_boltzmann's BondedStatistics / TabulatedPotential (object library of the repository, as its unit test links it)
target_link_libraries(drv_units PRIVATE votca_csg_boltzmann)
target_include_directories(drv_units PRIVATE ${VERIF_REPO}/csg/src)
