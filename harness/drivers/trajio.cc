// Conformance driver for spec/trajio (property C08): a dumb executor of text
// commands against the real trajectory writers/readers, topology readers,
// tools::Table and imcio of libvotca_csg / libvotca_tools.  One JSON result
// line ("res {...}") per command; anything the library prints to std::cout is
// discarded (the pdb/lammps readers are chatty).
//
//   top <hasVel> <hasF> <n> {name type resnr resname mass q}*n     writer-side topology
//   frame <step> <time> <boxkind> b00..b22(row-major) {x y z [vx vy vz] [fx fy fz]}*n
//   wopen <file> <append> [reuse] | wwrite | wclose | wbox (PDBWriter::WriteBox)
//   rtop <n>                reader-side topology with n beads (sentinel coordinates)
//   ropen <file> [reuse] | rfirst | rnext | rclose      (reuse: same object as the closed one)
//   rtop2 ropen2 rfirst2 rnext2 rclose2                 a second reader + topology at the same time
//   readtop <file> [src]    TopReaderFactory (src 1/2: re-use the closed trajectory / topology reader object)
//   tsave <file> <hasYerr> <comment|-> <n> {x y yerr flag}*n   (flag: i o u _ 0)
//   tload <file>
//   mwrite <file> <r> <c> v*(r*c) <nlist> idx*           imcio_write_matrix (row-major values)
//   mread <file>
//   dswrite <file> <n> {x y}*n <nlist> idx*              imcio_write_dS
//   iwrite <file> <k> {name nblocks {b e s}*}*k          imcio_write_index
//   iread <file>
#include <cmath>
#include <cstdio>
#include <fstream>
#include <iostream>
#include <list>
#include <memory>
#include <sstream>
#include <stdexcept>
#include <string>
#include <vector>

#include <nlohmann/json.hpp>

#include <hdf5.h>

#include <votca/csg/bead.h>
#include <votca/csg/imcio.h>
#include <votca/csg/interaction.h>
#include <votca/csg/molecule.h>
#include <votca/csg/pdbwriter.h>
#include <votca/csg/topology.h>
#include <votca/csg/topologyreader.h>
#include <votca/csg/trajectoryreader.h>
#include <votca/csg/trajectorywriter.h>
#include <votca/tools/constants.h>
#include <votca/tools/rangeparser.h>
#include <votca/tools/table.h>

#ifdef TRAJIO_CHECKED
// drv_trajio_chk: the reader sources are compiled INTO this executable with assertions,
// ASan and UBSan (see trajio.cmake) and registered before the library's plugins, so that an
// out-of-range bead access on a bead-count mismatch aborts instead of corrupting memory.
#include <votca/csg/xyzreader.h>
#include "modules/io/dlpolytrajectoryreader.h"
#include "modules/io/groreader.h"
#include "modules/io/lammpsdumpreader.h"
#include "modules/io/pdbreader.h"
#endif

using namespace votca;
using namespace votca::csg;
using json = nlohmann::json;

namespace {

struct NullBuf : std::streambuf {
  int overflow(int c) override { return c; }
};

const double SENTINEL = 777.25;

json vec(const Eigen::Vector3d &v) { return json::array({v.x(), v.y(), v.z()}); }

json dumpTop(Topology &t, bool full) {
  json o;
  o["n"] = t.BeadCount();
  o["step"] = t.getStep();
  o["time"] = t.getTime();
  o["tophasvel"] = t.HasVel();
  o["tophasf"] = t.HasForce();
  int bt = int(t.getBoxType());
  o["boxtype"] = bt == int(BoundaryCondition::typeOpen)
                     ? "open"
                     : (bt == int(BoundaryCondition::typeOrthorhombic) ? "ortho" : "tric");
  const Eigen::Matrix3d &b = t.getBox();
  json bx = json::array();
  for (int i = 0; i < 3; ++i)
    for (int j = 0; j < 3; ++j) bx.push_back(b(i, j));
  o["box"] = bx;
  json beads = json::array();
  for (Index i = 0; i < t.BeadCount(); ++i) {
    Bead *bd = t.getBead(i);
    json jb;
    jb["haspos"] = bd->HasPos();
    if (bd->HasPos()) jb["pos"] = vec(bd->getPos());
    jb["hasvel"] = bd->HasVel();
    if (bd->HasVel()) jb["vel"] = vec(bd->getVel());
    jb["hasf"] = bd->HasF();
    if (bd->HasF()) jb["f"] = vec(bd->getF());
    if (full) {
      jb["name"] = bd->getName();
      jb["type"] = bd->getType();
      jb["mass"] = bd->getMass();
      jb["q"] = bd->getQ();
      jb["resnr"] = bd->getResnr();
      if (bd->getResnr() >= 0 && bd->getResnr() < t.ResidueCount())
        jb["resname"] = t.getResidue(bd->getResnr()).getName();
    }
    beads.push_back(jb);
  }
  o["beads"] = beads;
  if (full) {
    json mols = json::array();
    for (auto &m : t.Molecules()) {
      json jm;
      jm["name"] = m.getName();
      json ids = json::array();
      for (Index k = 0; k < m.BeadCount(); ++k) ids.push_back(m.getBead(k)->getId());
      jm["beads"] = ids;
      mols.push_back(jm);
    }
    o["molecules"] = mols;
    json ias = json::array();
    for (Interaction *ic : t.BondedInteractions()) {
      json ji;
      ji["group"] = ic->getGroup();
      ji["index"] = ic->getIndex();
      ji["mol"] = ic->getMolecule();
      json ids = json::array();
      for (Index k = 0; k < ic->BeadCount(); ++k) ids.push_back(ic->getBeadId(k));
      ji["beads"] = ids;
      ias.push_back(ji);
    }
    o["bonded"] = ias;
    o["nres"] = t.ResidueCount();
  }
  return o;
}

// JSON has no inf/nan: non-finite numbers are printed as strings
json jnum(double v) {
  if (std::isnan(v)) return json("nan");
  if (std::isinf(v)) return json(v > 0 ? "inf" : "-inf");
  return json(v);
}

// ---- H5MD files (votca has a reader only): written here through the HDF5 C API ------------
// layout as read by H5MDTrajectoryReader: /h5md (version 1.1) [/h5md/modules/units],
// /particles/atoms/{position,velocity,force}/value [T][N][3] (+ fixed-length string attribute
// "unit" on the dataset), /particles/atoms/box (attribute dimension = 3) with either a dataset
// edges[3] (time-independent box) or a group edges with value[T][3] (time-dependent box).
struct H5Frame {
  double box[3];
  std::vector<double> pos, vel, f;
};
struct H5Cfg {
  bool timedep = true;  // box
  bool angstrom = false;  // units module on, lengths stored in Angstrom ("A", "A ps-1")
};
static void h5check(hid_t id, const char *what) {
  if (id < 0) throw std::runtime_error(std::string("driver: hdf5 ") + what);
}
static void h5strattr(hid_t obj, const char *name, const std::string &v) {
  hid_t t = H5Tcopy(H5T_C_S1);
  H5Tset_size(t, v.size());
  H5Tset_strpad(t, H5T_STR_NULLPAD);
  hid_t sp = H5Screate(H5S_SCALAR);
  hid_t a = H5Acreate2(obj, name, t, sp, H5P_DEFAULT, H5P_DEFAULT);
  h5check(a, "attribute");
  H5Awrite(a, t, v.c_str());
  H5Aclose(a);
  H5Sclose(sp);
  H5Tclose(t);
}
static void h5vec(hid_t grp, const char *name, hsize_t T, hsize_t N, const std::vector<double> &data,
                  const std::string &unit) {
  hid_t g = H5Gcreate2(grp, name, H5P_DEFAULT, H5P_DEFAULT, H5P_DEFAULT);
  h5check(g, name);
  hsize_t dims[3] = {T, N, 3};
  hid_t sp = H5Screate_simple(3, dims, nullptr);
  hid_t ds = H5Dcreate2(g, "value", H5T_NATIVE_DOUBLE, sp, H5P_DEFAULT, H5P_DEFAULT, H5P_DEFAULT);
  h5check(ds, "dataset");
  H5Dwrite(ds, H5T_NATIVE_DOUBLE, H5S_ALL, H5S_ALL, H5P_DEFAULT, data.data());
  if (!unit.empty()) h5strattr(ds, "unit", unit);
  H5Dclose(ds);
  H5Sclose(sp);
  H5Gclose(g);
}
static void writeH5MD(const std::string &file, const H5Cfg &cfg, const std::vector<H5Frame> &fr, Index n,
                      bool hv, bool hf) {
  const double L = cfg.angstrom ? 10.0 : 1.0;  // nm -> file unit
  hid_t f = H5Fcreate(file.c_str(), H5F_ACC_TRUNC, H5P_DEFAULT, H5P_DEFAULT);
  h5check(f, "create");
  hid_t g = H5Gcreate2(f, "h5md", H5P_DEFAULT, H5P_DEFAULT, H5P_DEFAULT);
  int ver[2] = {1, 1};
  hsize_t two = 2;
  hid_t sp = H5Screate_simple(1, &two, nullptr);
  hid_t a = H5Acreate2(g, "version", H5T_NATIVE_INT, sp, H5P_DEFAULT, H5P_DEFAULT);
  H5Awrite(a, H5T_NATIVE_INT, ver);
  H5Aclose(a);
  H5Sclose(sp);
  if (cfg.angstrom) {
    hid_t m = H5Gcreate2(g, "modules", H5P_DEFAULT, H5P_DEFAULT, H5P_DEFAULT);
    hid_t u = H5Gcreate2(m, "units", H5P_DEFAULT, H5P_DEFAULT, H5P_DEFAULT);
    H5Gclose(u);
    H5Gclose(m);
  }
  H5Gclose(g);
  hid_t p = H5Gcreate2(f, "particles", H5P_DEFAULT, H5P_DEFAULT, H5P_DEFAULT);
  hid_t at = H5Gcreate2(p, "atoms", H5P_DEFAULT, H5P_DEFAULT, H5P_DEFAULT);
  hsize_t T = fr.size();
  std::vector<double> pos, vel, frc;
  for (const H5Frame &x : fr) {
    for (double v : x.pos) pos.push_back(v * L);
    for (double v : x.vel) vel.push_back(v * L);
    for (double v : x.f) frc.push_back(v);
  }
  h5vec(at, "position", T, hsize_t(n), pos, cfg.angstrom ? "A" : "nm");
  if (hv) h5vec(at, "velocity", T, hsize_t(n), vel, cfg.angstrom ? "A ps-1" : "nm ps-1");
  if (hf) h5vec(at, "force", T, hsize_t(n), frc, "kJ mol-1 nm-1");
  hid_t b = H5Gcreate2(at, "box", H5P_DEFAULT, H5P_DEFAULT, H5P_DEFAULT);
  int dim = 3;
  sp = H5Screate(H5S_SCALAR);
  a = H5Acreate2(b, "dimension", H5T_NATIVE_INT, sp, H5P_DEFAULT, H5P_DEFAULT);
  H5Awrite(a, H5T_NATIVE_INT, &dim);
  H5Aclose(a);
  H5Sclose(sp);
  if (cfg.timedep) {
    hid_t e = H5Gcreate2(b, "edges", H5P_DEFAULT, H5P_DEFAULT, H5P_DEFAULT);
    hsize_t d2[2] = {T, 3};
    sp = H5Screate_simple(2, d2, nullptr);
    hid_t ds = H5Dcreate2(e, "value", H5T_NATIVE_DOUBLE, sp, H5P_DEFAULT, H5P_DEFAULT, H5P_DEFAULT);
    std::vector<double> bx;
    for (const H5Frame &x : fr)
      for (int k = 0; k < 3; ++k) bx.push_back(x.box[k] * L);
    H5Dwrite(ds, H5T_NATIVE_DOUBLE, H5S_ALL, H5S_ALL, H5P_DEFAULT, bx.data());
    H5Dclose(ds);
    H5Sclose(sp);
    H5Gclose(e);
  } else {
    hsize_t three = 3;
    sp = H5Screate_simple(1, &three, nullptr);
    hid_t ds = H5Dcreate2(b, "edges", H5T_NATIVE_DOUBLE, sp, H5P_DEFAULT, H5P_DEFAULT, H5P_DEFAULT);
    double bx[3] = {fr.at(0).box[0] * L, fr.at(0).box[1] * L, fr.at(0).box[2] * L};
    H5Dwrite(ds, H5T_NATIVE_DOUBLE, H5S_ALL, H5S_ALL, H5P_DEFAULT, bx);
    H5Dclose(ds);
    H5Sclose(sp);
  }
  H5Gclose(b);
  H5Gclose(at);
  H5Gclose(p);
  H5Fclose(f);
}

// a reader object owned through whichever factory created it; classes implementing both
// interfaces (GROReader, PDBReader, XYZReader, LAMMPSDumpReader) can be used either way
struct RObj {
  std::unique_ptr<TrajectoryReader> tr;
  std::unique_ptr<TopologyReader> tp;
  explicit operator bool() const { return bool(tr) || bool(tp); }
  TrajectoryReader *traj() {
    TrajectoryReader *p = tr ? tr.get() : dynamic_cast<TrajectoryReader *>(tp.get());
    if (!p) throw std::runtime_error("driver: object is not a trajectory reader");
    return p;
  }
  TopologyReader *top() {
    TopologyReader *p = tp ? tp.get() : dynamic_cast<TopologyReader *>(tr.get());
    if (!p) throw std::runtime_error("driver: object is not a topology reader");
    return p;
  }
  void reset() {
    tr.reset();
    tp.reset();
  }
};

// %XX escapes in a token (comment texts with blanks and real newlines)
std::string unescape(const std::string &s) {
  std::string o;
  for (size_t i = 0; i < s.size(); ++i) {
    if (s[i] == '%' && i + 2 < s.size() + 1) {
      o.push_back(char(std::stoi(s.substr(i + 1, 2), nullptr, 16)));
      i += 2;
    } else {
      o.push_back(s[i]);
    }
  }
  return o;
}

char flagOf(const std::string &s) {
  if (s == "_") return ' ';
  if (s == "0") return '\0';
  return s[0];
}
std::string flagStr(char c) {
  if (c == ' ') return "_";
  if (c == '\0') return "0";
  return std::string(1, c);
}

}  // namespace

int main() {
  std::ostream out(std::cout.rdbuf());
  NullBuf nb;
  std::cout.rdbuf(&nb);
  out.precision(17);

#ifdef TRAJIO_CHECKED
  // ObjectFactory::Register does not overwrite: these entries win over the library's
  TrjReaderFactory().Register<PDBReader>("pdb");
  TrjReaderFactory().Register<GROReader>("gro");
  TrjReaderFactory().Register<XYZReader>("xyz");
  TrjReaderFactory().Register<LAMMPSDumpReader>("dump");
  TrjReaderFactory().Register<DLPOLYTrajectoryReader>("dlph");
  TrjReaderFactory().Register<DLPOLYTrajectoryReader>("dlpc");
#endif
  TrajectoryWriter::RegisterPlugins();
  TrajectoryReader::RegisterPlugins();
  TopologyReader::RegisterPlugins();

  std::unique_ptr<Topology> wt, rts[2];
  std::unique_ptr<TrajectoryWriter> writer, idleWriter;  // idle: closed object kept for re-use
  RObj readers[2], idleReaders[2];
  RObj idleTop;  // the object that served the last ReadTopology
  std::unique_ptr<Topology> tgts[3];  // further Topology objects a frame can be delivered into
  H5Cfg h5cfg;
  bool h5open = false;
  std::string h5file;
  std::vector<H5Frame> h5frames;
  bool hv = false, hf = false;

  std::string line;
  long seq = 0;
  while (std::getline(std::cin, line)) {
    ++seq;
    std::istringstream in(line);
    std::string cmd;
    in >> cmd;
    out << "cmd " << seq << " " << line << std::endl;
    json res;
    // reader commands with suffix 2 (rtop2 ropen2 rfirst2 rnext2 rclose2) act on a second,
    // independent reader + topology (two handles at once)
    int slot = 0;
    if (cmd.size() > 2 && cmd[0] == 'r' && cmd.back() == '2') {
      slot = 1;
      cmd.pop_back();
    }
    std::unique_ptr<Topology> &rt = rts[slot];
    RObj &reader = readers[slot];
    RObj &idleReader = idleReaders[slot];
    try {
      if (cmd == "top") {
        Index n;
        int v, f;
        in >> v >> f >> n;
        hv = v;
        hf = f;
        wt.reset(new Topology());
        for (Index i = 0; i < n; ++i) {
          std::string name, type, resname;
          Index resnr;
          double m, q;
          in >> name >> type >> resnr >> resname >> m >> q;
          while (wt->ResidueCount() <= resnr) wt->CreateResidue(resname);
          if (!wt->BeadTypeExist(type)) wt->RegisterBeadType(type);
          wt->CreateBead(Bead::spherical, name, type, resnr, m, q);
        }
        wt->SetHasVel(hv);
        wt->SetHasForce(hf);
        res["ok"] = true;
      } else if (cmd == "frame") {
        Index step;
        double time;
        std::string kind;
        in >> step >> time >> kind;
        Eigen::Matrix3d b;
        for (int i = 0; i < 3; ++i)
          for (int j = 0; j < 3; ++j) in >> b(i, j);
        wt->setStep(step);
        wt->setTime(time);
        wt->setBox(b);  // automatic detection, as every reader does
        for (Index i = 0; i < wt->BeadCount(); ++i) {
          Eigen::Vector3d p, v, f;
          in >> p.x() >> p.y() >> p.z();
          wt->getBead(i)->setPos(p);
          if (hv) {
            in >> v.x() >> v.y() >> v.z();
            wt->getBead(i)->setVel(v);
          }
          if (hf) {
            in >> f.x() >> f.y() >> f.z();
            wt->getBead(i)->setF(f);
          }
        }
        if (!in) throw std::runtime_error("driver: short frame command");
        res["ok"] = true;
      } else if (cmd == "wopen") {
        std::string file;
        int app, reuse = 0;
        in >> file >> app >> reuse;
        if (file.size() > 3 && file.substr(file.size() - 3) == ".h5") {
          if (app) throw std::runtime_error("driver: no append for h5md");
          h5open = true;
          h5file = file;
          h5frames.clear();
        } else if (reuse) {  // the SAME writer object that wrote (and closed) the previous file
          if (!idleWriter) throw std::runtime_error("driver: no writer object to re-use");
          writer = std::move(idleWriter);
        } else {
          writer = TrjWriterFactory().Create(file);
        }
        if (!h5open) {
          if (!writer) throw std::runtime_error("driver: no writer for " + file);
          writer->Open(file, app != 0);
        }
        res["ok"] = true;
      } else if (cmd == "h5mode") {
        std::string box;
        int ang;
        in >> box >> ang;
        h5cfg.timedep = (box == "timedep");
        h5cfg.angstrom = ang != 0;
        res["ok"] = true;
      } else if (cmd == "wwrite" && h5open) {
        H5Frame fr;
        for (int k = 0; k < 3; ++k) fr.box[k] = wt->getBox()(k, k);
        for (Index i = 0; i < wt->BeadCount(); ++i) {
          Bead *b = wt->getBead(i);
          for (int k = 0; k < 3; ++k) fr.pos.push_back(b->getPos()[k]);
          if (hv)
            for (int k = 0; k < 3; ++k) fr.vel.push_back(b->getVel()[k]);
          if (hf)
            for (int k = 0; k < 3; ++k) fr.f.push_back(b->getF()[k]);
        }
        h5frames.push_back(fr);
        res["ok"] = true;
      } else if (cmd == "wclose" && h5open) {
        writeH5MD(h5file, h5cfg, h5frames, wt->BeadCount(), hv, hf);
        h5open = false;
        res["ok"] = true;
      } else if (cmd == "wwrite") {
        writer->Write(wt.get());
        res["ok"] = true;
      } else if (cmd == "wclose") {
        writer->Close();
        idleWriter = std::move(writer);
        res["ok"] = true;
      } else if (cmd == "wbox") {
        // PDBWriter::WriteBox (CRYST1 record) - public entry point next to Write()
        PDBWriter *pw = dynamic_cast<PDBWriter *>(writer.get());
        if (!pw) throw std::runtime_error("driver: wbox needs a pdb writer");
        // WriteBox takes the box in Angstrom (its callers in xtp convert before the call)
        pw->WriteBox(wt->getBox() * tools::conv::nm2ang);
        res["ok"] = true;
      } else if (cmd == "rtop") {
        Index n;
        in >> n;
        rt.reset(new Topology());
        if (slot == 0) {
          tgts[1].reset();  // copies belong to the topology they were made from
          tgts[2].reset();
        }
        rt->setParticleGroup("atoms");  // needed by the h5md reader, ignored by the others
        rt->CreateResidue("RR");
        rt->RegisterBeadType("X");
        for (Index i = 0; i < n; ++i) {
          Bead *b = rt->CreateBead(Bead::spherical, "X", "X", 0, 1.0, 0.0);
          b->setPos(Eigen::Vector3d::Constant(SENTINEL));
        }
        res["ok"] = true;
      } else if (cmd == "ropen") {
        // src 0: new object from TrjReaderFactory; 1: the SAME reader object after Close() (possibly
        // after a reported error); 2: the object that served the last ReadTopology
        std::string file;
        int src = 0;
        in >> file >> src;
        if (src == 1) {
          if (!idleReader) throw std::runtime_error("driver: no reader object to re-use");
          reader = std::move(idleReader);
        } else if (src == 2) {
          if (!idleTop) throw std::runtime_error("driver: no topology reader object to re-use");
          reader = std::move(idleTop);
        } else {
          reader.reset();
          reader.tr = TrjReaderFactory().Create(file);
        }
        if (!reader) throw std::runtime_error("driver: no reader for " + file);
        res["ret"] = reader.traj()->Open(file);
      } else if (cmd == "rfirst" || cmd == "rnext") {
        bool r = (cmd == "rfirst") ? reader.traj()->FirstFrame(*rt) : reader.traj()->NextFrame(*rt);
        res = dumpTop(*rt, false);
        res["ret"] = r;
      } else if (cmd == "rcopy") {
        // another Topology object with the same beads, made as the threaded applications make the
        // topologies of their workers (no coordinates, box copied)
        int k;
        in >> k;
        if (k < 1 || k > 2 || !rts[0]) throw std::runtime_error("driver: bad rcopy");
        tgts[k].reset(new Topology());
        tgts[k]->CopyTopologyData(rts[0].get());
        tgts[k]->setParticleGroup(rts[0]->getParticleGroup());
        res["ok"] = true;
      } else if (cmd == "rfirstto" || cmd == "rnextto") {
        // deliver the frame into Topology object k (0: the reader's own topology, 1/2: copies);
        // all objects are dumped, so that a write into an object that was not passed is visible
        int k;
        in >> k;
        Topology *t = (k == 0) ? rts[0].get() : tgts[k].get();
        if (!t) throw std::runtime_error("driver: no such target topology");
        bool r = (cmd == "rfirstto") ? reader.traj()->FirstFrame(*t) : reader.traj()->NextFrame(*t);
        res = dumpTop(*t, false);
        res["ret"] = r;
        json all = json::array();
        for (int j = 0; j < 3; ++j) {
          Topology *o = (j == 0) ? rts[0].get() : tgts[j].get();
          all.push_back(o ? dumpTop(*o, false) : json());
        }
        res["all"] = all;
      } else if (cmd == "rclose") {
        reader.traj()->Close();
        idleReader = std::move(reader);
        res["ok"] = true;
      } else if (cmd == "readtop") {
        // src 0: new object from TopReaderFactory; 1: the closed trajectory reader object; 2: the
        // object of the previous ReadTopology
        std::string file;
        int src = 0;
        in >> file >> src;
        RObj o;
        if (src == 1) {
          if (!idleReaders[0]) throw std::runtime_error("driver: no reader object to re-use");
          o = std::move(idleReaders[0]);
        } else if (src == 2) {
          if (!idleTop) throw std::runtime_error("driver: no topology reader object to re-use");
          o = std::move(idleTop);
        } else {
          o.tp = TopReaderFactory().Create(file);
        }
        if (!o) throw std::runtime_error("driver: no topology reader for " + file);
        Topology tt;
        TopologyReader *tr = o.top();
        idleTop = std::move(o);   // kept also when ReadTopology throws
        bool r = tr->ReadTopology(file, tt);
        res = dumpTop(tt, true);
        res["ret"] = r;
      } else if (cmd == "tsave") {
        std::string file, comment;
        int hy;
        Index n;
        in >> file >> hy >> comment >> n;
        tools::Table t;
        t.SetHasYErr(hy != 0);
        t.resize(n);
        for (Index i = 0; i < n; ++i) {
          // numbers are read as tokens: operator>>(double) does not accept inf/nan
          std::string sx, sy, se, fl;
          in >> sx >> sy >> se >> fl;
          double x = std::stod(sx), y = std::stod(sy), e = std::stod(se);
          if (hy)
            t.set(i, x, y, flagOf(fl), e);
          else
            t.set(i, x, y, flagOf(fl));
        }
        if (comment != "-") t.set_comment(unescape(comment));
        t.Save(file);
        res["ok"] = true;
      } else if (cmd == "tload") {
        std::string file;
        in >> file;
        tools::Table t;
        t.Load(file);
        res["n"] = t.size();
        res["hasyerr"] = t.GetHasYErr();
        json x = json::array(), y = json::array(), e = json::array(), fl = json::array();
        for (Index i = 0; i < t.size(); ++i) {
          x.push_back(jnum(t.x(i)));
          y.push_back(jnum(t.y(i)));
          fl.push_back(flagStr(t.flags(i)));
        }
        for (Index i = 0; i < t.yerr().size(); ++i) e.push_back(jnum(t.yerr(i)));
        res["x"] = x;
        res["y"] = y;
        res["yerr"] = e;
        res["flags"] = fl;
      } else if (cmd == "mwrite") {
        std::string file;
        Index r, c, nl;
        in >> file >> r >> c;
        Eigen::MatrixXd m(r, c);
        for (Index i = 0; i < r; ++i)
          for (Index j = 0; j < c; ++j) in >> m(i, j);
        in >> nl;
        std::list<Index> lst;
        for (Index i = 0; i < nl; ++i) {
          Index k;
          in >> k;
          lst.push_back(k);
        }
        imcio_write_matrix(file, m, nl > 0 ? &lst : nullptr);
        res["ok"] = true;
      } else if (cmd == "mread") {
        std::string file;
        in >> file;
        Eigen::MatrixXd m = imcio_read_matrix(file);
        res["rows"] = m.rows();
        res["cols"] = m.cols();
        json d = json::array();
        for (Index i = 0; i < m.rows(); ++i)
          for (Index j = 0; j < m.cols(); ++j) d.push_back(m(i, j));
        res["data"] = d;
      } else if (cmd == "dswrite") {
        std::string file;
        Index n, nl;
        in >> file >> n;
        tools::Table t;
        t.resize(n);
        for (Index i = 0; i < n; ++i) {
          double x, y;
          in >> x >> y;
          t.set(i, x, y, 'i');
        }
        in >> nl;
        std::list<Index> lst;
        for (Index i = 0; i < nl; ++i) {
          Index k;
          in >> k;
          lst.push_back(k);
        }
        imcio_write_dS(file, t, nl > 0 ? &lst : nullptr);
        res["ok"] = true;
      } else if (cmd == "iwrite") {
        std::string file;
        Index k;
        in >> file >> k;
        std::vector<std::pair<std::string, tools::RangeParser>> ranges;
        for (Index i = 0; i < k; ++i) {
          std::string name;
          Index nbl;
          in >> name >> nbl;
          tools::RangeParser rp;
          for (Index j = 0; j < nbl; ++j) {
            Index b, e, s;
            in >> b >> e >> s;
            rp.Add(b, e, s);
          }
          ranges.push_back(std::make_pair(name, rp));
        }
        imcio_write_index(file, ranges);
        res["ok"] = true;
      } else if (cmd == "iread") {
        std::string file;
        in >> file;
        auto ranges = imcio_read_index(file);
        json arr = json::array();
        for (auto &r : ranges) {
          json jr;
          jr["name"] = r.first;
          json vals = json::array();
          long guard = 0;
          for (Index v : r.second) {
            vals.push_back(v);
            if (++guard > 10000) {
              jr["runaway"] = true;
              break;
            }
          }
          jr["values"] = vals;
          arr.push_back(jr);
        }
        res["ranges"] = arr;
      } else {
        res["driver_error"] = "unknown command";
      }
    } catch (std::exception &e) {
      res = json::object();
      res["exc"] = e.what();
    }
    out << "res " << res.dump() << std::endl;
  }
  writer.reset();
  idleWriter.reset();
  for (int k = 0; k < 2; ++k) {
    readers[k].reset();
    idleReaders[k].reset();
  }
  idleTop.reset();
  for (int k = 0; k < 3; ++k) tgts[k].reset();
  {
  }
  std::cout.rdbuf(out.rdbuf());
  return 0;
}
