# --- C11 options/property: optionshandler.cc, property.cc and tokenizer.cc are compiled
# into the driver with assertions + sanitizers on (see drivers/options.cc), so that a
# dangling reference into Property's child vector or an iterator misuse is attributed.
verif_driver(drv_options ${D}/options.cc
  ${VERIF_REPO}/tools/src/libtools/optionshandler.cc ${VERIF_REPO}/tools/src/libtools/property.cc
  ${VERIF_REPO}/tools/src/libtools/tokenizer.cc)
verif_sanitize(drv_options)
find_package(EXPAT REQUIRED)
target_link_libraries(drv_options PRIVATE EXPAT::EXPAT)
