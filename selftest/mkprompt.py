#!/usr/bin/env python3
"""print the adversary prompt for a property: mkprompt.py C05 /tmp/adv-C05 [N]"""
import json, sys
pid, wt = sys.argv[1], sys.argv[2]
n = sys.argv[3] if len(sys.argv) > 3 else "3"
p = [json.loads(l) for l in open('/verif/properties.jsonl') if json.loads(l)['id'] == pid][0]
t = open('/verif/selftest/adversary_prompt.md').read()
print(t.replace('{WT}', wt).replace('{PID}', pid).replace('{TITLE}', p['title']).replace('{STATEMENT}', p['statement']).replace('{N}', n))
