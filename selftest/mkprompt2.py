#!/usr/bin/env python3
"""second-wave adversary prompt: mkprompt2.py C05 /tmp/adv2-C05 [N] — like mkprompt.py, plus the list of first-wave
changes (one line each) so that the new ones are different in kind"""
import json, sys, glob, os, re
pid, wt = sys.argv[1], sys.argv[2]
n = sys.argv[3] if len(sys.argv) > 3 else "3"
p = [json.loads(l) for l in open('/verif/properties.jsonl') if json.loads(l)['id'] == pid][0]
t = open('/verif/selftest/adversary_prompt.md').read()
t = t.replace('{WT}', wt).replace('{PID}', pid).replace('{TITLE}', p['title']).replace('{STATEMENT}', p['statement']).replace('{N}', n)
prev = []
for d in sorted(glob.glob('/verif/seeded/%s-*' % pid)):
    pd = os.path.join(d, 'patch.diff')
    files = sorted(set(re.findall(r'^\+\+\+ b/(\S+)', open(pd).read(), re.M)))
    r = os.path.join(d, 'README.md')
    head = ''
    if os.path.exists(r):
        for ln in open(r):
            ln = ln.strip()
            if ln and not ln.startswith('#') and len(ln) > 40:
                head = ln[:300]
                break
    prev.append("- %s: %s" % (", ".join(files), head))
t += ("\n\nEarlier rounds already produced the following changes for this property (one line each). Do NOT repeat them or "
      "close variations of them; aim at OTHER mechanisms, other code sites, other kinds of trigger (multi-step object "
      "histories, rarely used options, unusual but legal inputs, interplay of two functions, error paths):\n" + "\n".join(prev) + "\n")
print(t)
