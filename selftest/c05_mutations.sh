#!/bin/bash
# Binding demo for C05: apply small mutations to a scratch worktree, run the quick check, expect exit 1.
WT=/tmp/wt-C05
F=$WT/csg/src/libcsg/csgapplication.cc
run() { # name, python-edit
  git -C $WT checkout -q -- .
  python3 - "$F" <<PY
import sys
p=sys.argv[1]; s=open(p).read()
$2
open(p,'w').write(s)
PY
  if git -C $WT diff --quiet; then echo "MUTATION $1: did not apply"; return; fi
  out=$(VERIF_REPO=$WT /verif/bin/vcheck C05 2>&1); rc=$?
  echo "MUTATION $1: rc=$rc $(echo "$out" | grep -o 'key=[^ ]*' | sort -u | tr '\n' ' ')"
}
run eof-path-no-unlock 's=s.replace("""      traj_readerMutex_.Unlock();
      if (SynchronizeThreads()) {
        threadsMutexesIn_[(id + 1) % nthreads_]->Unlock();
      }
      return false;""","""      traj_readerMutex_.Unlock();
      return false;""")'
run merge-ring-wrong-successor 's=s.replace("app_->threadsMutexesOut_[(id + 1) % app_->nthreads_]->Unlock();","app_->threadsMutexesOut_[(id + 2) % app_->nthreads_]->Unlock();")'
run reader-lock-only-when-ordered 's=s.replace("  traj_readerMutex_.Lock();\n  // worker 0","  if (SynchronizeThreads()) traj_readerMutex_.Lock();\n  // worker 0").replace("  traj_readerMutex_.Unlock();\n  if (SynchronizeThreads()) {\n    // unlock next frame","  if (SynchronizeThreads()) traj_readerMutex_.Unlock();\n  if (SynchronizeThreads()) {\n    // unlock next frame")'
run budget-off-by-one 's=s.replace("  if (nframes_ == 0 && !reuse_first_frame) {","  if (nframes_ < 0 && !reuse_first_frame) {")'
run unlock-in-before-reader-unlock 's=s.replace("""  traj_readerMutex_.Unlock();
  if (SynchronizeThreads()) {
    // unlock next frame for input
    threadsMutexesIn_[(id + 1) % nthreads_]->Unlock();
  }""","""  if (SynchronizeThreads()) {
    // unlock next frame for input
    threadsMutexesIn_[(id + 1) % nthreads_]->Unlock();
  }
  traj_readerMutex_.Unlock();""")'
run merge-without-out-lock-when-one-frame-left 's=s.replace("      app_->threadsMutexesOut_[id]->Lock();\n      app_->MergeWorker(this);","      if (app_->nframes_ != 0) app_->threadsMutexesOut_[id]->Lock();\n      app_->MergeWorker(this);")'
git -C $WT checkout -q -- .
