#!/bin/bash
# confirm_seeded.sh <PID> <adversary worktree> <variant n>
# Confirms an adversary's variant ourselves (applies, builds, full ctest, demo fails; reverted: demo passes),
# runs our quick check against it (VERIF_REPO=<worktree>), and stores it under /verif/seeded/<PID>-<n>/.
PID=$1; WT=$2; N=$3; SN=${4:-$N}   # SN: index under which the change is stored (second wave: 4..6)
D=$WT/out/$N
cd $WT || exit 2
git checkout -q -- . 2>/dev/null
git apply $D/patch.diff || { echo "RESULT $PID-$SN: patch does not apply"; exit 2; }
cmake --build build -j8 >/dev/null 2>&1 || { echo "RESULT $PID-$SN: does not build"; git checkout -q -- .; exit 2; }
ct=$(ctest --test-dir build -j8 --timeout 900 2>&1 | grep "tests passed\|tests failed" | tail -1)
nonmem=$(ctest --test-dir build -j8 --timeout 900 --rerun-failed 2>&1 | grep "Failed\|Timeout" | grep -v memory_test | wc -l)
bash $D/run_demo.sh $WT > /tmp/demo-$PID-$N-with.log 2>&1; rcw=$?
out=$(VERIF_REPO=$WT /verif/bin/vcheck $PID 2>&1); rcc=$?
keys=$(echo "$out" | grep '^VIOLATION' | grep -o 'key=[^ ]*' | sort -u | tr '\n' ' ')
git apply -R $D/patch.diff
cmake --build build -j8 >/dev/null 2>&1
bash $D/run_demo.sh $WT > /tmp/demo-$PID-$N-without.log 2>&1; rcwo=$?
S=/verif/seeded/$PID-$SN
mkdir -p $S
cp $D/patch.diff $S/; cp -r $D/demo* $D/run_demo.sh $D/README.md $S/ 2>/dev/null
python3 - "$S" "$PID" "$SN" "$ct" "$nonmem" "$rcw" "$rcwo" "$rcc" "$keys" <<'PY'
import json,sys
S,pid,n,ct,nonmem,rcw,rcwo,rcc,keys=sys.argv[1:]
readme=open(S+'/README.md').read() if __import__('os').path.exists(S+'/README.md') else ''
json.dump({"property":pid,"variant":int(n),"source":"independent sub-agent given only the property text and a scratch worktree",
  "needs_to_manifest":"see README.md (written by the sub-agent)",
  "confirmed":{"ctest_with_change":ct,"non_memory_test_failures_with_change":int(nonmem),
               "demo_exit_with_change":int(rcw),"demo_exit_without_change":int(rcwo)},
  "our_check":{"cmd":"VERIF_REPO=<worktree with patch> bin/vcheck %s --tier quick"%pid,"exit":int(rcc),"keys":keys.split()}},
  open(S+'/meta.json','w'),indent=1)
PY
echo "RESULT $PID-$SN: ctest[$ct] nonmem_fail=$nonmem demo_with=$rcw demo_without=$rcwo check_rc=$rcc $keys"
