#!/bin/bash
# recheck_seeded.sh <PID> <worktree at a HEAD the patch applies to> <n> [check id]: re-run our quick check against a stored
# seeded change after the check was strengthened; appends the result to seeded/<PID>-<n>/meta.json
PID=$1; WT=$2; N=$3; CHK=${4:-$PID}
S=/verif/seeded/$PID-$N
cd $WT || exit 2
git checkout -q -- . 2>/dev/null
git apply $S/patch.diff || { echo "RECHECK $PID-$N: patch does not apply"; exit 2; }
out=$(VERIF_REPO=$WT /verif/bin/vcheck $CHK 2>&1); rcc=$?
keys=$(echo "$out" | grep '^VIOLATION' | grep -o 'key=[^ ]*' | sort -u | tr '\n' ' ')
git apply -R $S/patch.diff
python3 - "$S" "$CHK" "$rcc" "$keys" <<'PY'
import json,sys
S,chk,rcc,keys=sys.argv[1:]
m=json.load(open(S+'/meta.json'))
m.setdefault('rechecks',[]).append({"check":chk,"cmd":"VERIF_REPO=<worktree with patch> bin/vcheck %s --tier quick"%chk,"exit":int(rcc),"keys":keys.split()})
json.dump(m,open(S+'/meta.json','w'),indent=1)
PY
echo "RECHECK $PID-$N with $CHK: rc=$rcc $keys"
