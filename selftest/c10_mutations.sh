#!/bin/bash
# Binding demo for C10: apply small mutations to a scratch worktree (HEAD + hook patch + lock fix), run the
# quick check, expect exit 1.  Results are listed in spec/jobfile/README.md.
#   git -C /repo worktree add --detach /tmp/wt-C10 HEAD   (once; remove it and /var/tmp/votca-verif-80f4d324 afterwards)
WT=/tmp/wt-C10
base() {
  git -C $WT checkout -q -- .
  # skip what is already committed in the repository
  git -C $WT apply /verif/pending_fixes/C10-hooks.patch 2>/dev/null
  (cd $WT && patch -s -N -p1 < /verif/pending_fixes/C10-filelock.patch >/dev/null 2>&1)
}
run() { # name, file, python-edit
  base
  before=$(git -C $WT diff | md5sum)
  python3 - "$WT/$2" <<PY
import sys
p=sys.argv[1]; s=open(p).read()
$3
open(p,'w').write(s)
PY
  if [ "$before" = "$(git -C $WT diff | md5sum)" ]; then echo "MUTATION $1: did not apply"; return; fi
  out=$(VERIF_REPO=$WT /verif/bin/vcheck C10 2>&1); rc=$?
  echo "MUTATION $1: rc=$rc $(echo "$out" | grep -o 'key=[^ ]*' | sort -u | tr '\n' ' ')"
}
PO=xtp/src/libxtp/progressobserver.cc
run sharable-lock $PO 's=s.replace("flock_->lock();","flock_->lock_sharable();").replace("flock_->unlock();","flock_->unlock_sharable();")'
run backup-after-file $PO 'blk="""  WRITE_JOBS(jobs_, progBackFile);
  VOTCA_VERIF_EVENT(204, this, 0);  // backup written
"""
old="""  WRITE_JOBS(jobs_, progFile);
  VOTCA_VERIF_EVENT(206, this, 0);  // job file written
"""
s=s.replace(blk,"").replace(old,old+blk)'
run merge-rule-inverted xtp/src/libxtp/job.cc 's=s.replace("job_ext.getHost() != thisHost","job_ext.getHost() == thisHost")'
run cache-off-by-one $PO 's=s.replace("while (int(jobsToProc_.size()) < cacheSize) {","while (int(jobsToProc_.size()) <= cacheSize) {")'
run restart-host-vs-status $PO 's=s.replace("restart_hosts_.count(metajit_->getHost())","restart_hosts_.count(metajit_->getStatusStr())")'
git -C $WT checkout -q -- .
