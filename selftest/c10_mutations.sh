#!/bin/bash
# Binding demo for C10: apply small mutations to a scratch worktree (HEAD, which has the hooks and the lock fix; the
# pending patches are applied if the worktree predates them), run the quick check.  Expect exit 1 with PROPERTY
# PREDICATE keys for the mutations that break a clause of C10, and exit 0 with SPEC-DRIFT for the property-preserving
# refactorings (negative controls; c10_assign_first_spec.patch is the TLA+ model of the first one, which satisfies
# every property in MCQuick/MCCrashQuick/MCT2Quick).  Results are listed in spec/jobfile/README.md.
#   git -C /repo worktree add --detach /tmp/wt-C10 HEAD   (once; remove it and /var/tmp/votca-verif-80f4d324 afterwards)
WT=/tmp/wt-C10
base() {
  git -C $WT checkout -q -- .
  # worktrees older than the hook / fix commits get the pending patches
  grep -q "VOTCA_VERIF_EVENT(201" $WT/xtp/src/libxtp/progressobserver.cc || git -C $WT apply /verif/pending_fixes/C10-hooks.patch
  grep -q "flock_->lock();" $WT/xtp/src/libxtp/progressobserver.cc || (cd $WT && patch -s -p1 < /verif/pending_fixes/C10-filelock.patch)
}
run() { # name, file, python-edit
  base
  before=$(git -C $WT diff | md5sum)
  python3 - "$WT/$2" <<PY
import sys
p=sys.argv[1]; s=open(p).read()
$3
open(p,'w').write(s)
PY
  if [ "$before" = "$(git -C $WT diff | md5sum)" ]; then echo "MUTATION $1: did not apply"; return; fi
  out=$(VERIF_REPO=$WT /verif/bin/vcheck C10 2>&1); rc=$?
  echo "MUTATION $1: rc=$rc $(echo "$out" | grep -o 'key=[^ ]*' | sort -u | tr '\n' ' ') drift=$(echo "$out" | grep -c 'SPEC-DRIFT')"
}
PO=xtp/src/libxtp/progressobserver.cc
run sharable-lock $PO 's=s.replace("flock_->lock();","flock_->lock_sharable();").replace("flock_->unlock();","flock_->unlock_sharable();")'
run backup-after-file $PO 'blk="""  WRITE_JOBS(jobs_, progBackFile);
  VOTCA_VERIF_EVENT(204, this, 0);  // backup written
"""
old="""  WRITE_JOBS(jobs_, progFile);
  VOTCA_VERIF_EVENT(206, this, 0);  // job file written
"""
s=s.replace(blk,"").replace(old,old+blk)'
run merge-rule-inverted xtp/src/libxtp/job.cc 's=s.replace("job_ext.getHost() != thisHost","job_ext.getHost() == thisHost")'
run restart-host-vs-status $PO 's=s.replace("restart_hosts_.count(metajit_->getHost())","restart_hosts_.count(metajit_->getStatusStr())")'
run assigned-job-without-host $PO 's=s.replace("      metajit_->setHost(GenerateHost());\n","")'
run init-release-before-backup $PO 'old="""  // RELEASE PROGRESS FILE
  this->ReleaseProgFile(thread);
  return;
}

// REGISTER"""
assert old in s
s=s.replace(old,"""  return;
}

// REGISTER""").replace("  VOTCA_VERIF_EVENT(203, this, 1);  // loaded\n","  VOTCA_VERIF_EVENT(203, this, 1);  // loaded\n  this->ReleaseProgFile(thread);\n")'
# (= seeded C10-6) needs a restart of a FINISHED run: no AVAILABLE job at start-up, matching pattern
run more-jobs-only-if-some-available $PO 's=s.replace("  if (jobs_.size() > 0) {\n    moreJobsAvailable_ = true;","  if (std::any_of(jobs_.begin(), jobs_.end(), [](const Job &j) { return j.isAvailable(); })) {\n    moreJobsAvailable_ = true;").replace("#include <fstream>\n","#include <algorithm>\n#include <fstream>\n",1)'
# (= seeded C10-8) visible only if a restart pattern names the CURRENT status of the last job of a full chunk:
# stat(FAILED) with a job failing in this run, or stat(ASSIGNED) with two worker threads
run cursor-stays-on-last-job-of-full-chunk $PO 's=s.replace("    ++metajit_;\n  }\n  VOTCA_VERIF_EVENT(205","    if (int(jobsToProc_.size()) < cacheSize) ++metajit_;\n  }\n  VOTCA_VERIF_EVENT(205")'
echo "--- negative controls: property-preserving changes, expected rc=0 and drift>0"
run NEG-cache-off-by-one-is-not-a-clause-of-C10 $PO 's=s.replace("while (int(jobsToProc_.size()) < cacheSize) {","while (int(jobsToProc_.size()) <= cacheSize) {")'
run NEG-assign-before-backup $PO 'a=s.index("  // ASSIGN NEW JOBS IF AVAILABLE")
b=s.index("  VOTCA_VERIF_EVENT(205, this, 0);  // jobs assigned\n")+len("  VOTCA_VERIF_EVENT(205, this, 0);  // jobs assigned\n")
blk=s[a:b]
s=s[:a]+s[b:]
k=s.index("  // GENERATE BACK-UP FOR SHARED XML")
s=s[:k]+blk+"\n"+s[k:]'
git -C $WT checkout -q -- .
