SPECIFICATION Spec
CONSTANTS
  PathSeq <- MCPaths
  NameSeq <- MCNames
  Values <- MCValues
  KindOf <- MCKindOf
  Depth = 5
  Emit = TRUE
  CrossKind = FALSE
INVARIANTS TypeOK ReadAfterWrite MissingFile Leaf
PROPERTIES ReadOnlyUnchanged SiblingsUndisturbed OnlyTruncRemoves ReopenKeeps
CHECK_DEADLOCK FALSE
