---- MODULE MCCrossQuick ----
(* a name rewritten with another kind (strict: must be replaced): all histories of 4 calls, 1 path x 2 names x 3 ids of 3 kinds *)
EXTENDS Checkpoint
MCPaths == <<"p1">>
MCNames == <<"n1", "n2">>
MCValues == {"a1", "b1", "c1"}
MCKindOf(v) == IF v \in {"a1"} THEN "A" ELSE IF v \in {"b1"} THEN "B" ELSE "C"
====
