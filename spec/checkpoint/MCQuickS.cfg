SPECIFICATION Spec
CONSTANTS
  PathSeq <- MCPaths
  NameSeq <- MCNames
  Values <- MCValues
  KindOf <- MCKindOf
  HSlots = {"s1"}
  Doors = {}
  BDValues = {}
  Depth = 4
  Emit = TRUE
  CrossKind = FALSE
INVARIANTS TypeOK ReadAfterWrite MissingFile Leaf
PROPERTIES ReadOnlyUnchanged OnlyWritersChange SiblingsUndisturbed OnlyTruncRemoves ReopenKeeps
CHECK_DEADLOCK FALSE
