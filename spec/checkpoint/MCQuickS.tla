---- MODULE MCQuickS ----
(* all histories of 4 calls over 2 paths x 2 names x 5 value ids (3+1+1 per kind) x 3 levels *)
EXTENDS Checkpoint
MCPaths == <<"p1", "p2">>
MCNames == <<"n1", "n2">>
MCValues == {"a1", "a2", "a3", "b1", "c1"}
MCKindOf(v) == IF v \in {"a1", "a2", "a3"} THEN "A" ELSE IF v \in {"b1"} THEN "B" ELSE "C"
====
