---- MODULE MCSim ----
(* simulation: 2 handle slots x 3 paths x 2 names x 8 ids, 12 calls *)
EXTENDS Checkpoint
MCPaths == <<"p1", "p2", "p3">>
MCNames == <<"n1", "n2">>
MCValues == {"a1", "a2", "a3", "a4", "b1", "b2", "b3", "c1"}
MCKindOf(v) == IF v \in {"a1", "a2", "a3", "a4"} THEN "A" ELSE IF v \in {"b1", "b2", "b3"} THEN "B" ELSE "C"
====
