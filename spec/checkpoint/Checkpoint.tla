----------------------------- MODULE Checkpoint -----------------------------
(* Mode H (DESIGN.md 2): an HDF5 checkpoint file of votca-xtp as a sequential object.

   Abstract state
     exists          the file is on disk
     file            path -> name -> value id | NoVal | Unk
     handle          the session handle: NoHandle or its access level
     h               history variable: every call with its expected result and the
                     expected content of every (path,name) slot afterwards
   A value id stands for one concrete value of one kind (integer, double, string,
   matrix of some shape, table, ...); the driver owns the concrete catalogue, the
   spec only needs to know which ids have the same kind (KindOf).

   One action per public call of CheckpointFile / CheckpointWriter:
     Open(l)      CheckpointFile(name, l); an open session handle is closed first
                  (Reopen).  CREATE truncates, MODIFY creates the file if it is
                  missing and keeps it otherwise, READ fails if it is missing.
     Close        the session handle goes out of scope
     Write(p,n,v) getWriter(p)[.openChild..](value, n) through the session handle;
                  with a READ handle getWriter is an error and nothing changes
     Read(p,n,k)  is not a step of the history: after every step the binding reads
                  EVERY slot with a FRESH CheckpointFile(name, READ) and
                  getReader(p)(target,n); ReadResult below is what it must see.

   CrossKind = FALSE: a name that holds a value is only rewritten with values of the
   same kind (other shape/length allowed - that is the point).  CrossKind = TRUE also
   rewrites with another kind; the statement ("writing a name again replaces the old
   value") is then read leniently: the write may be refused with an error, after which
   the slot is unspecified (Unk) until the next successful write; what is never
   admitted is a write that reports success and a later read that returns anything
   but the value written.                                                          *)
EXTENDS Naturals, Sequences, FiniteSets, TLC, Json

CONSTANTS PathSeq,      \* tuple of abstract group paths
          NameSeq,      \* tuple of abstract names
          Values,       \* set of value ids (strings)
          KindOf(_),    \* value id -> kind
          Depth, Emit, CrossKind

VARIABLES exists, file, handle, h
vars == <<exists, file, handle, h>>

Range(s) == {s[i] : i \in DOMAIN s}
Paths == Range(PathSeq)
Names == Range(NameSeq)
Levels == {"READ", "MODIFY", "CREATE"}
NoHandle == "closed"
NoVal == "none"        \* never written (since the file was last created/truncated)
Unk == "unknown"       \* a refused cross-kind write left the slot unspecified
Empty == [p \in Paths |-> [n \in Names |-> NoVal]]

\* what a fresh READ handle must observe for slot (p,n):
\*   "none"     -> reading any kind is an error
\*   "unknown"  -> nothing is asserted
\*   a value id -> reading with KindOf(id) returns exactly that value
ReadResult(f, p, n) == f[p][n]
Obs(f) == [i \in 1..Len(PathSeq) |-> [j \in 1..Len(NameSeq) |-> ReadResult(f, PathSeq[i], NameSeq[j])]]

TypeOK == /\ exists \in BOOLEAN
          /\ handle \in Levels \cup {NoHandle}
          /\ file \in [Paths -> [Names -> Values \cup {NoVal, Unk}]]

Init == exists = FALSE /\ file = Empty /\ handle = NoHandle /\ h = <<>>

\* ---- effects on the file (shared with TraceCheckpoint.tla) ---------------------
OpenOK(l) == (l # "READ") \/ exists
OpenTrunc(l) == l = "CREATE" \/ (l = "MODIFY" /\ ~exists)
OpenEffect(l) ==
  /\ handle' = IF OpenOK(l) THEN l ELSE NoHandle
  /\ exists' = (exists \/ l # "READ")
  /\ file' = IF OpenTrunc(l) THEN Empty ELSE file
CloseEffect ==
  /\ handle # NoHandle
  /\ handle' = NoHandle
  /\ UNCHANGED <<exists, file>>
SameKindOrFree(p, n, v) == IF file[p][n] = NoVal THEN TRUE
                           ELSE IF file[p][n] = Unk THEN FALSE
                           ELSE KindOf(file[p][n]) = KindOf(v)
\* getWriter through a READ handle must refuse; nothing changes
WriteRefused(p, n, v) ==
  /\ handle = "READ"
  /\ UNCHANGED <<exists, file, handle>>
WriteStored(p, n, v) ==
  /\ handle \in {"MODIFY", "CREATE"}
  /\ SameKindOrFree(p, n, v)
  /\ file' = [file EXCEPT ![p][n] = v]
  /\ UNCHANGED <<exists, handle>>
\* rewriting with another kind: stored, or refused with the slot left unspecified
WriteLoose(p, n, v, r) ==
  /\ handle \in {"MODIFY", "CREATE"}
  /\ CrossKind /\ ~SameKindOrFree(p, n, v)
  /\ file' = [file EXCEPT ![p][n] = IF r = "ok" THEN v ELSE Unk]
  /\ UNCHANGED <<exists, handle>>

\* ---- the calls, recorded in the history ---------------------------------------
Open(l) ==
  /\ OpenEffect(l)
  /\ h' = Append(h, [a |-> "open", l |-> l, res |-> IF OpenOK(l) THEN "ok" ELSE "err",
                     trunc |-> OpenTrunc(l), obs |-> Obs(file')])

Close ==
  /\ CloseEffect
  /\ h' = Append(h, [a |-> "close", res |-> "ok", obs |-> Obs(file)])

Write(p, n, v) ==
  \/ /\ WriteRefused(p, n, v)
     /\ h' = Append(h, [a |-> "write", p |-> p, n |-> n, v |-> v, res |-> "err",
                        loose |-> FALSE, ro |-> TRUE, obs |-> Obs(file)])
  \/ /\ WriteStored(p, n, v)
     /\ h' = Append(h, [a |-> "write", p |-> p, n |-> n, v |-> v, res |-> "ok",
                        loose |-> FALSE, ro |-> FALSE, obs |-> Obs(file')])
  \/ \E r \in {"ok", "err"} :
        /\ WriteLoose(p, n, v, r)
        /\ h' = Append(h, [a |-> "write", p |-> p, n |-> n, v |-> v, res |-> r,
                           loose |-> TRUE, ro |-> FALSE, obs |-> Obs(file')])

Next == /\ Len(h) < Depth
        /\ \/ \E l \in Levels : Open(l)
           \/ Close
           \/ \E p \in Paths, n \in Names, v \in Values : Write(p, n, v)
Spec == Init /\ [][Next]_vars

\* ---- the property, stated over the history -----------------------------------
\* index of the last step that emptied the file (0 if none)
LastTrunc == LET S == {i \in 1..Len(h) : h[i].a = "open" /\ h[i].trunc} IN
             IF S = {} THEN 0 ELSE CHOOSE i \in S : \A j \in S : j <= i
\* steps that stored something under (p,n) since then
Stores(p, n) == {i \in (LastTrunc + 1)..Len(h) : h[i].a = "write" /\ h[i].p = p /\ h[i].n = n /\ ~h[i].ro}
LastStore(p, n) == CHOOSE i \in Stores(p, n) : \A j \in Stores(p, n) : j <= i

\* read-after-write: a fresh reader sees the last value stored under (p,n) - whatever its
\* shape was before -; never written (or written only before a truncation) => error
ReadAfterWrite ==
  \A p \in Paths, n \in Names :
     IF Stores(p, n) = {} THEN ReadResult(file, p, n) = NoVal
     ELSE LET s == h[LastStore(p, n)] IN
          ReadResult(file, p, n) = IF s.res = "ok" THEN s.v ELSE Unk
\* a file that does not exist has no content and cannot be open
MissingFile == ~exists => (file = Empty /\ handle = NoHandle)
\* a READ session never changes anything (getWriter is an error)
ReadOnlyUnchanged == [][handle = "READ" /\ handle' = "READ" => file' = file /\ exists' = exists]_vars
\* a write touches exactly one slot: sibling names and sibling/parent/child groups undisturbed
SiblingsUndisturbed ==
  [][Len(h') > Len(h) /\ h'[Len(h')].a = "write" =>
       \A p \in Paths, n \in Names :
          (p # h'[Len(h')].p \/ n # h'[Len(h')].n) => file'[p][n] = file[p][n]]_vars
\* only a truncating open removes values
OnlyTruncRemoves ==
  [][\A p \in Paths, n \in Names :
        (file[p][n] # NoVal /\ file'[p][n] = NoVal) => (h'[Len(h')].a = "open" /\ h'[Len(h')].trunc)]_vars
\* reopening with MODIFY or READ keeps the content
ReopenKeeps ==
  [][Len(h') > Len(h) /\ h'[Len(h')].a = "open" /\ ~h'[Len(h')].trunc => file' = file]_vars

Leaf == (Emit /\ Len(h) = Depth) => PrintT(ToJson([h |-> h]))
=============================================================================
