----------------------------- MODULE Checkpoint -----------------------------
(* Mode H (DESIGN.md 2): an HDF5 checkpoint file of votca-xtp as a sequential object.

   Abstract state
     exists          the file is on disk
     file            path -> name -> value id | NoVal
     handle          handle slot -> NoHandle or its access level.  Several CheckpointFile
                     objects (HSlots, 1 or 2) can be open on the SAME file at once, each with
                     its own level (HDF5 shares one file object per process behind them)
     h               history variable: every call with its expected result and the
                     expected content of every (path,name) slot afterwards
   A value id stands for one concrete value of one kind (integer, double, string,
   matrix of some shape, table, ...); the driver owns the concrete catalogue, the
   spec only needs to know which ids have the same kind (KindOf).

   One action per public call of CheckpointFile / CheckpointWriter:
     Open(s,l)    CheckpointFile(name, l) into handle slot s; a handle already in s is
                  closed first (Reopen).  CREATE truncates, MODIFY creates the file if it is
                  missing and keeps it otherwise, READ fails if it is missing.
                  While ANOTHER slot holds the file open, HDF5's own rules interfere:
                  H5F_ACC_TRUNC on an open file is refused, RDWR on a file first opened
                  RDONLY is refused (depends on which handle came first).  The statement
                  says nothing about that, so for CREATE next to any open handle and for
                  MODIFY next to a READ handle both outcomes are admitted (OpenOutcomes):
                  refused -> slot closed, nothing changes; accepted -> as usual.
     Close(s)     the CheckpointFile in slot s goes out of scope
     Write(s,p,n,v) getWriter(p)[.openChild..](value, n) through slot s; if s was opened
                  with READ, getWriter is an error and nothing changes - WHATEVER the other
                  slot's level is ("a file opened read-only cannot be modified")
     Backdoor(s,door,p,n,v)  an attempt to write through another accessor of a file opened
                  with READ (Doors); must be refused, nothing changes
     Read(p,n,k)  is not a step of the history: after every step the binding reads
                  EVERY slot with a FRESH CheckpointFile(name, READ) and
                  getReader(p)(target,n); ReadResult below is what it must see.

   CrossKind = FALSE: a name that holds a value is only rewritten with values of the
   same kind (other shape/length allowed - that is the point; keeps the exhaustive
   configurations small).  CrossKind = TRUE: a name is also rewritten with a value of
   ANOTHER kind (scalar attribute <-> dataset <-> group-stored list/EigenSystem <-> table).
   "Writing a name again replaces the old value" is taken strictly: the write must succeed
   and a fresh reader asking for the NEW kind must get exactly the new value.  The only thing
   left unspecified is reading a name as another kind than it was last written with.   *)
EXTENDS Naturals, Sequences, FiniteSets, TLC, Json

CONSTANTS PathSeq,      \* tuple of abstract group paths
          NameSeq,      \* tuple of abstract names
          Values,       \* set of value ids (strings)
          KindOf(_),    \* value id -> kind
          HSlots,       \* set of handle slots (CheckpointFile objects that can coexist)
          Doors,        \* other accessors of a CheckpointFile through which a write can be ATTEMPTED:
                        \*   "loc"    CheckpointWriter(file.getReader(p).getLoc())(value, n)
                        \*   "handle" CheckpointWriter(file.getHandle().openGroup(p))(value, n)
                        \*   "raw"    plain HDF5 calls on file.getHandle() (create group p / attribute n)
          BDValues,     \* value ids used for such attempts
          Depth, Emit, CrossKind

VARIABLES exists, file, handle, h
vars == <<exists, file, handle, h>>

Range(s) == {s[i] : i \in DOMAIN s}
Paths == Range(PathSeq)
Names == Range(NameSeq)
Levels == {"READ", "MODIFY", "CREATE"}
NoHandle == "closed"
NoVal == "none"        \* never written (since the file was last created/truncated)
Empty == [p \in Paths |-> [n \in Names |-> NoVal]]

\* what a fresh READ handle must observe for slot (p,n):
\*   "none"     -> reading any kind is an error
\*   a value id -> reading with KindOf(id) returns exactly that value
ReadResult(f, p, n) == f[p][n]
Obs(f) == [i \in 1..Len(PathSeq) |-> [j \in 1..Len(NameSeq) |-> ReadResult(f, PathSeq[i], NameSeq[j])]]

TypeOK == /\ exists \in BOOLEAN
          /\ handle \in [HSlots -> Levels \cup {NoHandle}]
          /\ file \in [Paths -> [Names -> Values \cup {NoVal}]]

AllClosed == [s \in HSlots |-> NoHandle]
Init == exists = FALSE /\ file = Empty /\ handle = AllClosed /\ h = <<>>

\* ---- effects on the file (shared with TraceCheckpoint.tla) ---------------------
OthersOpen(s) == {o \in HSlots \ {s} : handle[o] # NoHandle}
\* admitted results of CheckpointFile(name, l) into slot s (the old occupant of s is gone by then)
OpenOutcomes(s, l) ==
  IF l = "READ" THEN (IF exists THEN {"ok"} ELSE {"err"})
  ELSE IF OthersOpen(s) = {} THEN {"ok"}
  ELSE IF l = "CREATE" THEN {"ok", "err"}                        \* HDF5 will not truncate an open file
  ELSE IF \E o \in OthersOpen(s) : handle[o] = "READ" THEN {"ok", "err"}  \* RDWR next to RDONLY
  ELSE {"ok"}
OpenTrunc(l) == l = "CREATE" \/ (l = "MODIFY" /\ ~exists)
OpenEffect(s, l, r) ==
  /\ r \in OpenOutcomes(s, l)
  /\ handle' = [handle EXCEPT ![s] = IF r = "ok" THEN l ELSE NoHandle]
  /\ exists' = (exists \/ (r = "ok" /\ l # "READ"))
  /\ file' = IF r = "ok" /\ OpenTrunc(l) THEN Empty ELSE file
CloseEffect(s) ==
  /\ handle[s] # NoHandle
  /\ handle' = [handle EXCEPT ![s] = NoHandle]
  /\ UNCHANGED <<exists, file>>
SameKindOrFree(p, n, v) == IF file[p][n] = NoVal THEN TRUE ELSE KindOf(file[p][n]) = KindOf(v)
\* getWriter through a slot opened with READ must refuse; nothing changes - independent of the other slots
WriteRefused(s, p, n, v) ==
  /\ handle[s] = "READ"
  /\ UNCHANGED <<exists, file, handle>>
\* stored: also over a value of another shape/length and (CrossKind) of another kind
WriteStored(s, p, n, v) ==
  /\ handle[s] \in {"MODIFY", "CREATE"}
  /\ CrossKind \/ SameKindOrFree(p, n, v)
  /\ file' = [file EXCEPT ![p][n] = v]
  /\ UNCHANGED <<exists, handle>>

\* any other door of a CheckpointFile opened with READ must be shut as well: the attempt is an error
\* and nothing changes.  (Only stated for a READ handle that is the ONLY handle of the process on the
\* file - configurations with Doors # {} have one slot: next to a writing handle HDF5 itself lets
\* every handle of the process write, see OpenOutcomes.)
BackdoorRefused(s) ==
  /\ handle[s] = "READ"
  /\ UNCHANGED <<exists, file, handle>>

\* ---- the calls, recorded in the history ---------------------------------------
\* hs = the handle slots after the call (the binding uses it to name the situation in its keys)
Open(s, l) ==
  \E r \in OpenOutcomes(s, l) :
    /\ OpenEffect(s, l, r)
    /\ h' = Append(h, [a |-> "open", s |-> s, l |-> l, res |-> r, adm |-> OpenOutcomes(s, l) = {"ok", "err"},
                       trunc |-> (r = "ok" /\ OpenTrunc(l)), hs |-> handle', obs |-> Obs(file'),
                       \* xr: the file is now held for READ only -> a second PROCESS can open it for READ too
                       \* (asserted by the binding in one-slot configurations only, as above)
                       xr |-> (r = "ok" /\ l = "READ" /\ \A o \in HSlots : handle'[o] \in {"READ", NoHandle})])

Close(s) ==
  /\ CloseEffect(s)
  /\ h' = Append(h, [a |-> "close", s |-> s, res |-> "ok", hs |-> handle', obs |-> Obs(file)])

\* kc = the slot held a value of another kind before (kind change)
Write(s, p, n, v) ==
  \/ /\ WriteRefused(s, p, n, v)
     /\ h' = Append(h, [a |-> "write", s |-> s, p |-> p, n |-> n, v |-> v, res |-> "err",
                        kc |-> FALSE, ro |-> TRUE, hs |-> handle, obs |-> Obs(file)])
  \/ /\ WriteStored(s, p, n, v)
     /\ h' = Append(h, [a |-> "write", s |-> s, p |-> p, n |-> n, v |-> v, res |-> "ok",
                        kc |-> ~SameKindOrFree(p, n, v), ro |-> FALSE, hs |-> handle, obs |-> Obs(file')])

\* (only attempts that would change something: storing the value a slot already holds need not touch the file)
Backdoor(s, d, p, n, v) ==
  /\ BackdoorRefused(s)
  /\ file[p][n] # v
  /\ h' = Append(h, [a |-> "backdoor", s |-> s, door |-> d, p |-> p, n |-> n, v |-> v, res |-> "err",
                     ro |-> TRUE, hs |-> handle, obs |-> Obs(file)])

Next == /\ Len(h) < Depth
        /\ \/ \E s \in HSlots, l \in Levels : Open(s, l)
           \/ \E s \in HSlots : Close(s)
           \/ \E s \in HSlots, p \in Paths, n \in Names, v \in Values : Write(s, p, n, v)
           \/ \E s \in HSlots, d \in Doors, p \in Paths, n \in Names, v \in BDValues : Backdoor(s, d, p, n, v)
Spec == Init /\ [][Next]_vars

\* ---- the property, stated over the history -----------------------------------
\* index of the last step that emptied the file (0 if none)
LastTrunc == LET S == {i \in 1..Len(h) : h[i].a = "open" /\ h[i].trunc} IN
             IF S = {} THEN 0 ELSE CHOOSE i \in S : \A j \in S : j <= i
\* steps that stored something under (p,n) since then
Stores(p, n) == {i \in (LastTrunc + 1)..Len(h) : h[i].a = "write" /\ h[i].p = p /\ h[i].n = n /\ ~h[i].ro}
LastStore(p, n) == CHOOSE i \in Stores(p, n) : \A j \in Stores(p, n) : j <= i

\* read-after-write: a fresh reader sees the last value stored under (p,n) - whatever its
\* shape was before -; never written (or written only before a truncation) => error
ReadAfterWrite ==
  \A p \in Paths, n \in Names :
     IF Stores(p, n) = {} THEN ReadResult(file, p, n) = NoVal
     ELSE ReadResult(file, p, n) = h[LastStore(p, n)].v
\* a file that does not exist has no content and cannot be open
MissingFile == ~exists => (file = Empty /\ handle = AllClosed)
\* a file opened read-only cannot be modified: a write through a slot opened with READ is an error and
\* leaves everything as it was, whatever level the other slots have
Last == h'[Len(h')]
ReadOnlyUnchanged ==
  [][(Len(h') > Len(h) /\ Last.a \in {"write", "backdoor"} /\ handle[Last.s] = "READ")
       => (Last.res = "err" /\ file' = file /\ exists' = exists /\ handle' = handle)]_vars
\* while every open slot is READ (or none is open) only a truncating/creating open changes the file
OnlyWritersChange ==
  [][(file' # file) => \/ (Last.a = "open" /\ Last.trunc)
                       \/ (Last.a = "write" /\ handle[Last.s] \in {"MODIFY", "CREATE"})]_vars
\* a write touches exactly one slot: sibling names and sibling/parent/child groups undisturbed
SiblingsUndisturbed ==
  [][Len(h') > Len(h) /\ h'[Len(h')].a = "write" =>
       \A p \in Paths, n \in Names :
          (p # h'[Len(h')].p \/ n # h'[Len(h')].n) => file'[p][n] = file[p][n]]_vars
\* only a truncating open removes values
OnlyTruncRemoves ==
  [][\A p \in Paths, n \in Names :
        (file[p][n] # NoVal /\ file'[p][n] = NoVal) => (h'[Len(h')].a = "open" /\ h'[Len(h')].trunc)]_vars
\* reopening with MODIFY or READ keeps the content
ReopenKeeps ==
  [][Len(h') > Len(h) /\ h'[Len(h')].a = "open" /\ ~h'[Len(h')].trunc => file' = file]_vars

Leaf == (Emit /\ Len(h) = Depth) => PrintT(ToJson([h |-> h]))
=============================================================================
