---- MODULE TraceCheckpoint_TTrace_1790640450 ----
EXTENDS Sequences, TraceCheckpoint, TLCExt, Toolbox, Naturals, TLC

_expression ==
    LET TraceCheckpoint_TEExpression == INSTANCE TraceCheckpoint_TEExpression
    IN TraceCheckpoint_TEExpression!expression
----

_trace ==
    LET TraceCheckpoint_TETrace == INSTANCE TraceCheckpoint_TETrace
    IN TraceCheckpoint_TETrace!trace
----

_inv ==
    ~(
        TLCGet("level") = Len(_TETrace)
        /\
        file = ([p1 |-> [n1 |-> "matd:1", n2 |-> "none", n3 |-> "none"], p2 |-> [n1 |-> "none", n2 |-> "none", n3 |-> "none"], p3 |-> [n1 |-> "none", n2 |-> "none", n3 |-> "none"]])
        /\
        h = (<<>>)
        /\
        i = (8)
        /\
        exists = (TRUE)
        /\
        handle = ("MODIFY")
    )
----

_init ==
    /\ h = _TETrace[1].h
    /\ i = _TETrace[1].i
    /\ exists = _TETrace[1].exists
    /\ file = _TETrace[1].file
    /\ handle = _TETrace[1].handle
----

_next ==
    /\ \E i,j \in DOMAIN _TETrace:
        /\ \/ /\ j = i + 1
              /\ i = TLCGet("level")
        /\ h  = _TETrace[i].h
        /\ h' = _TETrace[j].h
        /\ i  = _TETrace[i].i
        /\ i' = _TETrace[j].i
        /\ exists  = _TETrace[i].exists
        /\ exists' = _TETrace[j].exists
        /\ file  = _TETrace[i].file
        /\ file' = _TETrace[j].file
        /\ handle  = _TETrace[i].handle
        /\ handle' = _TETrace[j].handle

\* Uncomment the ASSUME below to write the states of the error trace
\* to the given file in Json format. Note that you can pass any tuple
\* to `JsonSerialize`. For example, a sub-sequence of _TETrace.
    \* ASSUME
    \*     LET J == INSTANCE Json
    \*         IN J!JsonSerialize("TraceCheckpoint_TTrace_1790640450.json", _TETrace)

=============================================================================

 Note that you can extract this module `TraceCheckpoint_TEExpression`
  to a dedicated file to reuse `expression` (the module in the 
  dedicated `TraceCheckpoint_TEExpression.tla` file takes precedence 
  over the module `TraceCheckpoint_TEExpression` below).

---- MODULE TraceCheckpoint_TEExpression ----
EXTENDS Sequences, TraceCheckpoint, TLCExt, Toolbox, Naturals, TLC

expression == 
    [
        \* To hide variables of the `TraceCheckpoint` spec from the error trace,
        \* remove the variables below.  The trace will be written in the order
        \* of the fields of this record.
        h |-> h
        ,i |-> i
        ,exists |-> exists
        ,file |-> file
        ,handle |-> handle
        
        \* Put additional constant-, state-, and action-level expressions here:
        \* ,_stateNumber |-> _TEPosition
        \* ,_hUnchanged |-> h = h'
        
        \* Format the `h` variable as Json value.
        \* ,_hJson |->
        \*     LET J == INSTANCE Json
        \*     IN J!ToJson(h)
        
        \* Lastly, you may build expressions over arbitrary sets of states by
        \* leveraging the _TETrace operator.  For example, this is how to
        \* count the number of times a spec variable changed up to the current
        \* state in the trace.
        \* ,_hModCount |->
        \*     LET F[s \in DOMAIN _TETrace] ==
        \*         IF s = 1 THEN 0
        \*         ELSE IF _TETrace[s].h # _TETrace[s-1].h
        \*             THEN 1 + F[s-1] ELSE F[s-1]
        \*     IN F[_TEPosition - 1]
    ]

=============================================================================



Parsing and semantic processing can take forever if the trace below is long.
 In this case, it is advised to uncomment the module below to deserialize the
 trace from a generated binary file.

\*
\*---- MODULE TraceCheckpoint_TETrace ----
\*EXTENDS IOUtils, TraceCheckpoint, TLC
\*
\*trace == IODeserialize("TraceCheckpoint_TTrace_1790640450.bin", TRUE)
\*
\*=============================================================================
\*

---- MODULE TraceCheckpoint_TETrace ----
EXTENDS TraceCheckpoint, TLC

trace == 
    <<
    ([file |-> [p1 |-> [n1 |-> "none", n2 |-> "none", n3 |-> "none"], p2 |-> [n1 |-> "none", n2 |-> "none", n3 |-> "none"], p3 |-> [n1 |-> "none", n2 |-> "none", n3 |-> "none"]],h |-> <<>>,i |-> 2,exists |-> FALSE,handle |-> "closed"]),
    ([file |-> [p1 |-> [n1 |-> "none", n2 |-> "none", n3 |-> "none"], p2 |-> [n1 |-> "none", n2 |-> "none", n3 |-> "none"], p3 |-> [n1 |-> "none", n2 |-> "none", n3 |-> "none"]],h |-> <<>>,i |-> 3,exists |-> FALSE,handle |-> "closed"]),
    ([file |-> [p1 |-> [n1 |-> "none", n2 |-> "none", n3 |-> "none"], p2 |-> [n1 |-> "none", n2 |-> "none", n3 |-> "none"], p3 |-> [n1 |-> "none", n2 |-> "none", n3 |-> "none"]],h |-> <<>>,i |-> 4,exists |-> FALSE,handle |-> "closed"]),
    ([file |-> [p1 |-> [n1 |-> "none", n2 |-> "none", n3 |-> "none"], p2 |-> [n1 |-> "none", n2 |-> "none", n3 |-> "none"], p3 |-> [n1 |-> "none", n2 |-> "none", n3 |-> "none"]],h |-> <<>>,i |-> 5,exists |-> TRUE,handle |-> "MODIFY"]),
    ([file |-> [p1 |-> [n1 |-> "matd:0", n2 |-> "none", n3 |-> "none"], p2 |-> [n1 |-> "none", n2 |-> "none", n3 |-> "none"], p3 |-> [n1 |-> "none", n2 |-> "none", n3 |-> "none"]],h |-> <<>>,i |-> 6,exists |-> TRUE,handle |-> "MODIFY"]),
    ([file |-> [p1 |-> [n1 |-> "matd:0", n2 |-> "none", n3 |-> "none"], p2 |-> [n1 |-> "none", n2 |-> "none", n3 |-> "none"], p3 |-> [n1 |-> "none", n2 |-> "none", n3 |-> "none"]],h |-> <<>>,i |-> 7,exists |-> TRUE,handle |-> "MODIFY"]),
    ([file |-> [p1 |-> [n1 |-> "matd:1", n2 |-> "none", n3 |-> "none"], p2 |-> [n1 |-> "none", n2 |-> "none", n3 |-> "none"], p3 |-> [n1 |-> "none", n2 |-> "none", n3 |-> "none"]],h |-> <<>>,i |-> 8,exists |-> TRUE,handle |-> "MODIFY"])
    >>
----


=============================================================================

---- CONFIG TraceCheckpoint_TTrace_1790640450 ----
CONSTANTS
    PathSeq <- TPaths
    NameSeq <- TNames
    Values <- TValues
    KindOf <- TKind
    Depth = 0
    Emit = FALSE
    CrossKind = FALSE

INVARIANT
    _inv

CHECK_DEADLOCK
    \* CHECK_DEADLOCK off because of PROPERTY or INVARIANT above.
    FALSE

INIT
    _init

NEXT
    _next

CONSTANT
    _TETrace <- _trace

ALIAS
    _expression
=============================================================================
\* Generated on Tue Sep 29 00:07:31 UTC 2026