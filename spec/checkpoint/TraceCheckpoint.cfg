SPECIFICATION TSpec
CONSTANTS
  PathSeq <- TPaths
  NameSeq <- TNames
  Values <- TValues
  KindOf <- TKind
  HSlots <- TSlots
  Depth = 0
  Emit = FALSE
  CrossKind = FALSE
INVARIANTS TInv
CHECK_DEADLOCK TRUE
