SPECIFICATION TSpec
CONSTANTS
  PathSeq <- TPaths
  NameSeq <- TNames
  Values <- TValues
  KindOf <- TKind
  HSlots <- TSlots
  Doors = {}
  BDValues = {}
  Depth = 0
  Emit = FALSE
  CrossKind = FALSE
INVARIANTS TInv
CHECK_DEADLOCK TRUE
