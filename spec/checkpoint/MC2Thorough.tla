---- MODULE MC2Thorough ----
(* TWO CheckpointFile objects open on the same file at once, independent levels: all histories of 5 calls, 1 path x 2 names x 2 ids *)
EXTENDS Checkpoint
MCPaths == <<"p1">>
MCNames == <<"n1", "n2">>
MCValues == {"a1", "a2"}
MCKindOf(v) == "A"
====
