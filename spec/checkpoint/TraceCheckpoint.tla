-------------------------- MODULE TraceCheckpoint --------------------------
(* Trace validation (DESIGN.md 2, mode H, opposite direction): long random call
   sequences were executed on the real CheckpointFile/Writer/Reader; the driver logged
   every call with what it observed.  The log is accepted iff it is a behaviour of
   Checkpoint.tla: each record must be explained by the corresponding effect of the
   spec with the logged result, each logged read must return what the spec's file
   holds.  A record that cannot be explained leaves TNext disabled -> TLC reports a
   deadlock at index i (= the rejected record).

   records: [a |-> "header", kinds |-> [value id |-> kind]]            (first)
            [a |-> "reset"]                                            new execution, file removed
            [a |-> "open", s, l, res]   [a |-> "close", s]        s = handle slot (two CheckpointFile
            [a |-> "write", s, p, n, v, res]                       objects may hold the file open at once)
            [a |-> "read", p, n, got]   got = value id | "error" | "other"            *)
EXTENDS Checkpoint, IOUtils

T == ndJsonDeserialize(IOEnv.TRACE)
TKind(v) == T[1].kinds[v]
TValues == DOMAIN T[1].kinds
TPaths == <<"p1", "p2", "p3">>
TNames == <<"n1", "n2", "n3">>
TSlots == {"s1", "s2"}

VARIABLE i
tvars == <<exists, file, handle, h, i>>

TInit == Init /\ i = 2

Explains(r) ==
  CASE r.a = "reset" -> exists' = FALSE /\ file' = Empty /\ handle' = AllClosed
    [] r.a = "open"  -> OpenEffect(r.s, r.l, r.res)      \* r.res must be one of the admitted outcomes
    [] r.a = "close" -> CloseEffect(r.s) \/ (handle[r.s] = NoHandle /\ UNCHANGED <<exists, file, handle>>)
    [] r.a = "write" -> \/ WriteRefused(r.s, r.p, r.n, r.v) /\ r.res = "err"
                        \/ WriteStored(r.s, r.p, r.n, r.v) /\ r.res = "ok"
    [] r.a = "read"  -> /\ UNCHANGED <<exists, file, handle>>
                        /\ r.got = (IF ReadResult(file, r.p, r.n) = NoVal THEN "error"
                                    ELSE ReadResult(file, r.p, r.n))
    [] OTHER -> FALSE

TNext == \/ /\ i <= Len(T)
            /\ Explains(T[i])
            /\ i' = i + 1
            /\ UNCHANGED h
         \/ /\ i > Len(T)
            /\ UNCHANGED tvars
TSpec == TInit /\ [][TNext]_tvars
\* the spec's invariants are evaluated along the way
TInv == TypeOK /\ MissingFile
=============================================================================
