---- MODULE MCQuickB ----
(* all histories of 5 calls over 2 paths x 1 name x 3 value ids x 3 levels *)
EXTENDS Checkpoint
MCPaths == <<"p1", "p2">>
MCNames == <<"n1">>
MCValues == {"a1", "a2", "b1"}
MCKindOf(v) == IF v \in {"a1", "a2"} THEN "A" ELSE "B"
====
