---- MODULE MCPairsQuick ----
(* one slot, two values of one kind, all histories of 3 calls; replayed once per ordered pair of concrete values of every kind *)
EXTENDS Checkpoint
MCPaths == <<"p1">>
MCNames == <<"n1">>
MCValues == {"a1", "a2"}
MCKindOf(v) == "A"
====
