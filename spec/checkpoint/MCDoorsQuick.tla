---- MODULE MCDoorsQuick ----
(* "a file opened for READ is never modified": ONE CheckpointFile; besides Open/Close/Write, every other door of a
   READ handle is tried (Doors): all histories of 4 calls, 1 path x 2 names x 2 ids *)
EXTENDS Checkpoint
MCPaths == <<"p1">>
MCNames == <<"n1", "n2">>
MCValues == {"a1", "a2"}
MCKindOf(v) == "A"
====
