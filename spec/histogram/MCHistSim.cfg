SPECIFICATION Spec
CONSTANTS
  One = 16
  NSet = {1, 2, 3, 4, 5, 6, 7}
  MSet <- MCM
  TSet = {1, 2, 3, 4, 8}
  Weights = {1, 2, 3}
  Depth = 8
  Emit = TRUE
  FewVals = FALSE
INVARIANTS Conservation NonNegative UnitIntegral Leaf
CHECK_DEADLOCK FALSE
