----------------------------- MODULE HistLegacy -----------------------------
(* Legacy votca::tools::Histogram with automatic range: the range is exactly
   [min data, max data] for any sign of the data, every datum lands in the bin with
   the nearest centre min + k*(max-min)/(n-1).  One initial state per (n, data).  *)
EXTENDS Integers, Sequences, FiniteSets, CArith, TLC, Json
CONSTANTS NSet, Data, Emit, Scales, Seconds
VARIABLES n, d, sc, d2    \* sc: scale option; d2: data the same object processed before (<<>> = fresh object)
Init == /\ n \in NSet
        /\ d \in (Data \X Data) \cup (Data \X Data \X Data)
        /\ \E i, j \in 1..Len(d) : d[i] # d[j]          \* a degenerate range has no bins
        /\ sc \in Scales /\ d2 \in Seconds
        \* bond / angle scaling divides by r^2 / sin(r): only for strictly positive data away from the singular points
        /\ (sc # "no" => \A i \in 1..Len(d) : d[i] > 0)
Next == UNCHANGED <<n, d, sc, d2>>
Spec == Init /\ [][Next]_<<n, d, sc, d2>>
SeqMin(s) == CHOOSE x \in {s[i] : i \in 1..Len(s)} : \A i \in 1..Len(s) : x <= s[i]
SeqMax(s) == CHOOSE x \in {s[i] : i \in 1..Len(s)} : \A i \in 1..Len(s) : x >= s[i]
Mn == SeqMin(d)
Mx == SeqMax(d)
Dd == Mx - Mn
Bin(v) == FloorDiv(2 * (v - Mn) * (n - 1) + Dd, 2 * Dd)
Tie(v) == (2 * (v - Mn) * (n - 1) + Dd) % (2 * Dd) = 0
Count(k) == Cardinality({i \in 1..Len(d) : Bin(d[i]) = k})
AllInside == \A i \in 1..Len(d) : Bin(d[i]) \in 0..(n - 1)
EndsHit == Bin(Mn) = 0 /\ Bin(Mx) = n - 1
\* relations stated for the real code's outputs on this instance (both sides are outputs of the real code):
\*  normalised: sum(pdf)*interval = 1 and pdf_norm[i]*pdf_raw[j] = pdf_norm[j]*pdf_raw[i]  (ratios unchanged)
\*  reuse:      an object that processed d2 before gives for d exactly what a fresh object gives
Vector == Emit => PrintT(ToJson([n |-> n, d |-> d, sc |-> sc, d2 |-> d2, mn |-> Mn, mx |-> Mx,
             bin |-> [i \in 1..Len(d) |-> Bin(d[i])], tie |-> [i \in 1..Len(d) |-> Tie(d[i])]]))
=============================================================================
