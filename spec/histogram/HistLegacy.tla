----------------------------- MODULE HistLegacy -----------------------------
(* Legacy votca::tools::Histogram with automatic range: the range is exactly
   [min data, max data] for any sign of the data, every datum lands in the bin with
   the nearest centre min + k*(max-min)/(n-1).  One initial state per (n, data).  *)
EXTENDS Integers, Sequences, FiniteSets, CArith, TLC, Json
CONSTANTS NSet, Data, Emit
VARIABLES n, d
Init == /\ n \in NSet
        /\ d \in (Data \X Data) \cup (Data \X Data \X Data)
        /\ \E i, j \in 1..Len(d) : d[i] # d[j]          \* a degenerate range has no bins
Next == UNCHANGED <<n, d>>
Spec == Init /\ [][Next]_<<n, d>>
SeqMin(s) == CHOOSE x \in {s[i] : i \in 1..Len(s)} : \A i \in 1..Len(s) : x <= s[i]
SeqMax(s) == CHOOSE x \in {s[i] : i \in 1..Len(s)} : \A i \in 1..Len(s) : x >= s[i]
Mn == SeqMin(d)
Mx == SeqMax(d)
Dd == Mx - Mn
Bin(v) == FloorDiv(2 * (v - Mn) * (n - 1) + Dd, 2 * Dd)
Tie(v) == (2 * (v - Mn) * (n - 1) + Dd) % (2 * Dd) = 0
Count(k) == Cardinality({i \in 1..Len(d) : Bin(d[i]) = k})
AllInside == \A i \in 1..Len(d) : Bin(d[i]) \in 0..(n - 1)
EndsHit == Bin(Mn) = 0 /\ Bin(Mx) = n - 1
Vector == Emit => PrintT(ToJson([n |-> n, d |-> d, mn |-> Mn, mx |-> Mx,
             bin |-> [i \in 1..Len(d) |-> Bin(d[i])], tie |-> [i \in 1..Len(d) |-> Tie(d[i])]]))
=============================================================================
