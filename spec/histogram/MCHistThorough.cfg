SPECIFICATION Spec
CONSTANTS
  One = 16
  NSet = {1, 2, 5}
  MSet <- MCM
  TSet = {3, 4}
  Weights = {1, 3}
  Depth = 3
  Emit = TRUE
  FewVals = FALSE
INVARIANTS Conservation NonNegative UnitIntegral Leaf
PROPERTY PeriodicAcceptsAll
CHECK_DEADLOCK FALSE
