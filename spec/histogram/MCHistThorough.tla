---- MODULE MCHistThorough ----
EXTENDS Histogram
MCM == {-40, 8}
====
