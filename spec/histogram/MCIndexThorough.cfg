SPECIFICATION Spec
CONSTANTS
  One = 16
  NSet = {1, 2, 3, 4, 5, 6, 7}
  MSet <- MCM
  TSet = {1, 2, 3, 4, 8}
  Reach = 4
  Emit = TRUE
INVARIANTS AlgoIsSpec LegacyIsSpec LegacyInRange InRange Unique PeriodicNeverDiscards ShiftInvariant Vector
CHECK_DEADLOCK FALSE
