---- MODULE MCHistScale ----
EXTENDS HistScale
MCM == {-40, 0, 24}
\* axis unit 2^ea, weight unit 2^ew: tiny axis, tiny weights (both make sum*step tiny), huge both, mixed
MCUnits == << <<-40, 0>>, <<0, -100>>, <<40, 40>>, <<-30, 70>>, <<-20, -20>> >>
====
