----------------------------- MODULE HistIndex -----------------------------
(* Mode L: every (configuration, value) point of the bounded lattice domain is one
   initial state; TLC checks Algo = Spec, index-in-range (design-level memory safety)
   and uniqueness of the owning cell, and prints one test vector per point.       *)
EXTENDS HistOps, TLC, Json

CONSTANTS NSet, MSet, TSet, Reach, Emit
VARIABLES c, v

Configs == [n : NSet, m : MSet, t : TSet, per : BOOLEAN]
Lo(cc) == cc.m - Reach * cc.n * Step(cc) - Step(cc)
Hi(cc) == MaxOf(cc) + Reach * cc.n * Step(cc) + Step(cc)

Init == /\ c \in Configs
        /\ v \in Lo(c)..Hi(c)
Next == UNCHANGED <<c, v>>
Spec == Init /\ [][Next]_<<c, v>>

AlgoIsSpec == AlgoBin(c, v) = SpecBin(c, v)
LegacyIsSpec == ~c.per => LegacyBin(c, v) = SpecBin(c, v)
LegacyInRange == LegacyBin(c, v) \in (0..(c.n - 1)) \cup {Discard}
InRange == AlgoBin(c, v) \in (0..(c.n - 1)) \cup {Discard}
Unique == SpecBinUnique(c, v, Reach + 2)
PeriodicNeverDiscards == c.per => SpecBin(c, v) # Discard
\* shifting by one period does not change the bin (periodic)
ShiftInvariant == c.per => SpecBin(c, v) = SpecBin(c, v + c.n * Step(c))
Vector == Emit => PrintT(ToJson([n |-> c.n, m |-> c.m, t |-> c.t, per |-> c.per, v |-> v,
                                  s |-> Step(c), mx |-> MaxOf(c), k |-> SpecBin(c, v)]))
=============================================================================
