---- MODULE MCHistSim ----
EXTENDS Histogram
MCM == {-48, -7, 0, 5, 32}
====
