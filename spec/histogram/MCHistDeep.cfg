SPECIFICATION Spec
CONSTANTS
  One = 16
  NSet = {3}
  MSet <- MCM
  TSet = {4}
  Weights = {2}
  Depth = 5
  Emit = TRUE
  FewVals = TRUE
INVARIANTS Conservation NonNegative UnitIntegral Leaf
CHECK_DEADLOCK FALSE
