---- MODULE MCLegacy ----
EXTENDS HistLegacy
MCData == {-12, -7, -4, -1, 0, 3, 8}
====
