---- MODULE MCLegacy ----
EXTENDS HistLegacy
MCData == {-12, -7, -4, -1, 0, 3, 8}
MCSeconds == {<<>>, <<-12, 8>>, <<3, 3, 0>>}
====
