SPECIFICATION Spec
CONSTANTS
  NSet = {2, 3, 4, 5}
  Data <- MCData
  Emit = TRUE
INVARIANTS AllInside EndsHit Vector
CHECK_DEADLOCK FALSE
