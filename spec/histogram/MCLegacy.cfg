SPECIFICATION Spec
CONSTANTS
  NSet = {2, 3, 4, 5}
  Data <- MCData
  Emit = TRUE
  Scales = {"no", "bond", "angle"}
  Seconds <- MCSeconds
INVARIANTS AllInside EndsHit Vector
CHECK_DEADLOCK FALSE
