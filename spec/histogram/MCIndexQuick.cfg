SPECIFICATION Spec
CONSTANTS
  One = 16
  NSet = {1, 2, 3, 5}
  MSet <- MCM
  TSet = {1, 4, 3}
  Reach = 3
  Emit = TRUE
INVARIANTS AlgoIsSpec LegacyIsSpec LegacyInRange InRange Unique PeriodicNeverDiscards ShiftInvariant Vector
CHECK_DEADLOCK FALSE
