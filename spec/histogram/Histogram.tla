----------------------------- MODULE Histogram -----------------------------
(* Mode H: HistogramNew as a state machine.  One action per public call.
   State: the configuration, the bin contents (integers: sums of integer weights),
   the total weight accepted so far, whether Normalize has been applied, and a
   history variable `h` that records every call with the expected observation so
   that the behaviour can be replayed into the real object.                        *)
EXTENDS HistOps, TLC, Json

CONSTANTS NSet, MSet, TSet, Weights, Depth, Emit, FewVals    \* FewVals: small value alphabet (deeper exhaustive histories)
VARIABLES c, c0, bins, acc, normed, h      \* c0: the configuration the object was created with
vars == <<c, c0, bins, acc, normed, h>>

Configs == [n : NSet, m : MSet, t : TSet, per : BOOLEAN]
\* configurations an object may be re-initialised with (kept small: it multiplies the branching)
ReConfigs == {cc \in Configs : cc.m = CHOOSE x \in MSet : TRUE}

\* interesting values for a configuration: edges, centres, far images, far outside
Vals(cc) == LET s == Step(cc)  L == cc.n * s  mx == MaxOf(cc) IN
  IF FewVals THEN {cc.m, mx, cc.m - L - s \div 2, mx + s} ELSE
  { cc.m, cc.m - s \div 2, cc.m - s \div 2 - 1, cc.m + s \div 2, cc.m + s \div 2 - 1,
    mx, mx + s \div 2, mx + s \div 2 - 1, mx - s \div 2,
    cc.m - L, cc.m - 2 * L, cc.m - 3 * L - 1, mx + L, mx + 2 * L + 1,
    cc.m - 1000 * L, mx + 1000 * L + s }

BinSeq(b) == [k \in 1..c.n |-> b[k - 1]]
Zero(cc) == [k \in 0..(cc.n - 1) |-> 0]
Total == SumSeq(bins, c.n)
Obs == [bins |-> [k \in 1..c.n |-> bins[k - 1]], acc |-> acc, normed |-> normed,
        num |-> One, den |-> Total * Step(c)]   \* after Normalize: value_k = bins[k]*num/den

Init == /\ c \in Configs /\ c0 = c
        /\ bins = Zero(c) /\ acc = 0 /\ normed = FALSE
        /\ h = <<>>

Process(v, w) ==
  /\ ~normed
  /\ LET k == SpecBin(c, v) IN
       /\ bins' = IF k = Discard THEN bins ELSE [bins EXCEPT ![k] = @ + w]
       /\ acc' = IF k = Discard THEN acc ELSE acc + w
  /\ UNCHANGED <<c, c0, normed>>
  /\ h' = Append(h, [a |-> "proc", v |-> v, w |-> w, k |-> SpecBin(c, v), b |-> BinSeq(bins')])

Normalize ==
  /\ ~normed /\ Total > 0
  /\ normed' = TRUE
  /\ UNCHANGED <<c, c0, bins, acc>>
  /\ h' = Append(h, [a |-> "norm", b |-> BinSeq(bins), den |-> Total * Step(c)])

Clear ==
  /\ bins' = Zero(c) /\ acc' = 0 /\ normed' = FALSE
  /\ UNCHANGED <<c, c0>>
  /\ h' = Append(h, [a |-> "clear", b |-> BinSeq(bins')])

\* the same object is initialised again (another or the SAME range / bin count / mode): it must behave like a fresh one
ReInit(cc) ==
  /\ c' = cc /\ bins' = Zero(cc) /\ acc' = 0 /\ normed' = FALSE /\ UNCHANGED c0
  /\ h' = Append(h, [a |-> "reinit", n |-> cc.n, m |-> cc.m, t |-> cc.t, per |-> cc.per,
                      s |-> Step(cc), mx |-> MaxOf(cc), b |-> [k \in 1..cc.n |-> 0]])

Next == /\ Len(h) < Depth
        /\ \/ \E v \in Vals(c), w \in Weights : Process(v, w)
           \/ Normalize
           \/ Clear
           \/ \E cc \in ReConfigs : ReInit(cc)
Spec == Init /\ [][Next]_vars

\* ---- properties --------------------------------------------------------------
Conservation == Total = acc                       \* sum of bins = weight of accepted values
NonNegative == \A k \in 0..(c.n - 1) : bins[k] >= 0
\* after Normalize the integral is one: sum_k bins[k]*One/(Total*s) * (s/One) = 1
UnitIntegral == normed => /\ Total > 0
                          /\ SumSeq([k \in 0..(c.n - 1) |-> bins[k] * One], c.n) * Step(c) = (Total * Step(c)) * One
\* periodic mode accepts everything
PeriodicAcceptsAll == [][c.per /\ Len(h') > Len(h) /\ h'[Len(h')].a = "proc"
                          => acc' = acc + h'[Len(h')].w]_vars
Leaf == (Emit /\ Len(h) = Depth) =>
          PrintT(ToJson([cfg |-> [n |-> c0.n, m |-> c0.m, t |-> c0.t, per |-> c0.per,
                                  s |-> Step(c0), mx |-> MaxOf(c0)],
                         h |-> h, final |-> Obs]))
=============================================================================
