---- MODULE MCIndexQuick ----
EXTENDS HistIndex
MCM == {-40, 0, 24}
====
