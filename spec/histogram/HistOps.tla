------------------------------ MODULE HistOps ------------------------------
(* Bin-index semantics of votca::tools::HistogramNew / Histogram on an integer
   lattice.  One lattice unit is 1/One of the real axis (One = 16 in all models),
   the bin width is s = 2*t lattice units so that every bin edge is a lattice point.
   A configuration is a record [n, m, t, per]:
       n   number of bins            m   lattice coordinate of the centre of bin 0
       t   half bin width            per periodic mode
   Two definitions are given: SpecBin, the meaning taken from the property statement
   (nearest centre; upper bin on an exact edge; discard / wrap), and AlgoBin, a
   transcription of HistogramNew::Process with C++ integer semantics.             *)
EXTENDS Integers, Sequences, FiniteSets, CArith

CONSTANT One          \* lattice units per 1.0

\* HistogramNew::Initialize_ forces step_ = 1 for a single bin
Step(c) == IF c.n = 1 THEN One ELSE 2 * c.t
Centre(c, k) == c.m + k * Step(c)
\* upper end of the range as handed to Initialize(min,max,nbins)
MaxOf(c) == IF c.per THEN c.m + c.n * (2 * c.t) ELSE c.m + (c.n - 1) * (2 * c.t)
Discard == -1

\* v lies in the cell centred at x:  x - s/2 <= v < x + s/2
InCell(c, v, x) == LET s == Step(c) IN 2 * (v - x) >= -s /\ 2 * (v - x) < s

\* ---- declarative meaning -------------------------------------------------
SpecBin(c, v) ==
  IF c.per
  THEN LET L == c.n * Step(c)                    \* period = n * step
           j == FloorDiv(2 * (v - c.m) + Step(c), 2 * L)   \* the image that brings v into the range
       IN  CHOOSE k \in 0..(c.n - 1) : InCell(c, v - j * L, Centre(c, k))
  ELSE IF \E k \in 0..(c.n - 1) : InCell(c, v, Centre(c, k))
       THEN CHOOSE k \in 0..(c.n - 1) : InCell(c, v, Centre(c, k))
       ELSE Discard

\* exactly one cell of exactly one image contains v (periodic), at most one (open)
SpecBinUnique(c, v, J) ==
  LET L == c.n * Step(c)
      hits == {<<k, j>> \in (0..(c.n - 1)) \X (-J..J) : InCell(c, v - j * L, Centre(c, k))}
  IN IF c.per THEN Cardinality(hits) = 1
              ELSE Cardinality({h \in hits : h[2] = 0}) <= 1

\* ---- transcription of HistogramNew::Process -------------------------------
AlgoBin(c, v) ==
  LET s == Step(c)
      i == FloorHalfUp(v - c.m, s)               \* (Index)floor((v-min)/step + 0.5)
  IN IF i < 0 \/ i >= c.n
     THEN IF c.per
          THEN IF i < 0 THEN CMod(c.n - CMod(-i, c.n), c.n)
                        ELSE CMod(i, c.n)
          ELSE Discard
     ELSE i

\* transcription of the legacy Histogram::ProcessData index rule
\* (while (ii<0) ii += n; ii = ii % n)
LegacyBin(c, v) ==
  LET i == FloorHalfUp(v - c.m, Step(c))
  IN IF i < 0 \/ i >= c.n
     THEN IF c.per THEN MathMod(i, c.n) ELSE Discard
     ELSE i

SumSeq(f, n) == LET RECURSIVE S(_)
                    S(k) == IF k < 0 THEN 0 ELSE f[k] + S(k - 1)
                IN S(n - 1)
=============================================================================
