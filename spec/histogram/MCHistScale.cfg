SPECIFICATION Spec
CONSTANTS
  One = 16
  NSet = {2, 3, 5}
  MSet <- MCM
  TSet = {1, 4, 3}
  Reach = 2
  Factors = {2, 3, 5}
  UnitExps <- MCUnits
INVARIANTS BinCovariant ContentCovariant NormCovariant
CHECK_DEADLOCK FALSE
