---- MODULE MCHistQuick ----
EXTENDS Histogram
MCM == {-40, 8}
====
