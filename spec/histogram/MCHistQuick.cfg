SPECIFICATION Spec
CONSTANTS
  One = 16
  NSet = {1, 3}
  MSet <- MCM
  TSet = {4}
  Weights = {2}
  Depth = 3
  Emit = TRUE
  FewVals = FALSE
INVARIANTS Conservation NonNegative UnitIntegral Leaf
PROPERTY PeriodicAcceptsAll
CHECK_DEADLOCK FALSE
