---- MODULE MCHistDeep ----
EXTENDS Histogram
MCM == {-40}
====
