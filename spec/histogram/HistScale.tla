----------------------------- MODULE HistScale -----------------------------
(* Unit covariance of the histogram semantics (the statement quantifies over EVERY range and
   value stream: nothing may depend on the absolute size of the abscissa or of the weights).
   Measuring the axis in other units (all of min, max, values times a > 0) and the weights in
   other units (times w > 0) must
       - leave the bin of every value unchanged                         (BinCovariant)
       - multiply every bin content by w                                (ContentCovariant)
       - after Normalize, divide every bin value by a: the integral
         sum * step stays one and the bin ratios stay what they were    (NormCovariant)
   TLC checks the three laws on the lattice for integer factors; the runner replays the call
   histories of Histogram.tla into the real classes in the units exported by `Units`
   (powers of two, so that every floating-point operation of the implementation scales
   exactly and the comparison stays bin-exact).  A single bin (n = 1) is excluded from the
   axis law: HistogramNew::Initialize_ then forces step_ = 1 in whatever unit.            *)
EXTENDS HistOps, TLC, Json

CONSTANTS NSet, MSet, TSet, Reach, Factors,
          UnitExps      \* sequence of <<ea, ew>>: axis unit 2^ea, weight unit 2^ew used by the replay
VARIABLES c, v, k

Configs == [n : NSet \ {1}, m : MSet, t : TSet, per : BOOLEAN]
Scaled(cc, a) == [cc EXCEPT !.m = a * @, !.t = a * @]
Lo(cc) == cc.m - Reach * cc.n * Step(cc) - Step(cc)
Hi(cc) == MaxOf(cc) + Reach * cc.n * Step(cc) + Step(cc)

Init == /\ c \in Configs /\ v \in Lo(c)..Hi(c) /\ k \in Factors
Next == UNCHANGED <<c, v, k>>
Spec == Init /\ [][Next]_<<c, v, k>>

BinCovariant == /\ SpecBin(Scaled(c, k), k * v) = SpecBin(c, v)
                /\ AlgoBin(Scaled(c, k), k * v) = AlgoBin(c, v)
\* one value of weight wt: content wt in its bin; in weight unit k the content is k * wt
Content(cc, x, wt) == [b \in 0..(cc.n - 1) |-> IF SpecBin(cc, x) = b THEN wt ELSE 0]
ContentCovariant == \A wt \in 1..2 :
   Content(Scaled(c, k), k * v, k * wt) = [b \in 0..(c.n - 1) |-> k * Content(c, v, wt)[b]]
\* normalised value of bin b is content[b] * One / (total * step): numerators and denominators
\* in axis unit a = k and weight unit w = k'
NormCovariant == \A kk \in Factors, wt \in 1..2 :
   LET b0 == Content(c, v, wt)  tot0 == SumSeq(b0, c.n)
       b1 == Content(Scaled(c, k), k * v, kk * wt)  tot1 == SumSeq(b1, c.n)
   IN tot0 > 0 =>
        /\ tot1 = kk * tot0
        /\ \A b \in 0..(c.n - 1) :      \* value1[b] * k = value0[b]
             (b1[b] * One) * k * (tot0 * Step(c)) = (b0[b] * One) * (tot1 * Step(Scaled(c, k)))

\* printed once: the units the runner replays the histories in
ASSUME PrintT(ToJson([units |-> UnitExps]))
=============================================================================
