---- MODULE MCIndexThorough ----
EXTENDS HistIndex
MCM == {-48, -7, 0, 5, 32}
====
