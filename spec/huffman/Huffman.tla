------------------------------ MODULE Huffman ------------------------------
(* C14, first half: KMC event selection is rate-proportional.

   Spec side (declarative, from the property statement): for positive rates r_1..r_n with
   S = r_1+...+r_n the selection sets Sel(i) = {p \in [0,1] : Find(p) = i} are unions of
   intervals of total length r_i/S, every p \in [0,1] selects some event, and the escape
   rate equals S.

   Algo side: a transcription of huffmanTree<GLink>::makeTree / findHoppingDestination
   (xtp/include/votca/xtp/huffmantree.h) and GNode::InitEscapeRate (gnode.cc), structured
   like the code.  Probabilities are integer numerators over S.  std::priority_queue does
   not define the order of equal keys, so `top()` is "any minimal element": the tree
   construction is a state machine whose Next explores every order a heap may produce.

   Exactness: the descent compares p only with node thresholds, so Find is constant on the
   open cells between consecutive thresholds.  Evaluating it at every threshold and at the
   midpoint of every cell gives the measure of Sel(i) exactly - no sampling.
   p is passed in half units: h stands for p = h/(2S); thresholds t are t/S = 2t/(2S).   *)
EXTENDS HuffOps, TLC, Json

CONSTANTS Vectors,   \* set of rate vectors (sequences of positive integers, length >= 1)
          SymEvents, \* TRUE: break ties between equal-rate EVENTS by lowest index only (symmetry
                     \* reduction: exchanging two events of equal rate is an automorphism of this
                     \* model and every property below is quantified over all events); ties between
                     \* equal-probability inner NODES (which differ in structure) are always explored
          Emit       \* print one vector per distinct final tree

VARIABLES rates,     \* the event rates of the node (GNode::events_)
          pc,        \* "pair" (first loop + odd leftover), "merge" (second loop), "done"
          eq,        \* eventQueue: event indices not yet popped
          nq,        \* queue: htree indices waiting to be merged
          tree,      \* htree[1..firstEmptyFieldIndex]: records [last, l, r, prob]
          out        \* result record once pc = "done"
vars == <<rates, pc, eq, nq, tree, out>>

N == Len(rates)

SpecSum == SumSeq(rates, N)

\* ---------------------------------------------------------------- Algo: escape rate
\* GNode::InitEscapeRate: escape_rate_ = 0; for event: escape_rate_ += rate
RECURSIVE AlgoEscapeFrom(_, _)
AlgoEscapeFrom(acc, k) == IF k > N THEN acc ELSE AlgoEscapeFrom(acc + rates[k], k + 1)
AlgoEscape == AlgoEscapeFrom(0, 1)

\* ---------------------------------------------------------------- Algo: makeTree
\* htree = vector(events.size() % 2 ? events.size() : events.size() - 1)
HSize == IF N % 2 = 1 THEN N ELSE N - 1

\* priority_queue::top() with comparator ">" : some element no other element is smaller than
MinEvents(S) == {a \in S : \A b \in S : rates[a] <= rates[b]}
TopEvents(S) == IF SymEvents
                THEN {CHOOSE a \in MinEvents(S) : \A b \in MinEvents(S) : a <= b}
                ELSE MinEvents(S)
MinNodes(S) == {a \in S : \A b \in S : tree[a].prob <= tree[b].prob}

Init == /\ rates \in Vectors
        /\ pc = "pair"
        /\ eq = 1..Len(rates)          \* for (T &e : *events) eventQueue.push(&e)
        /\ nq = {}
        /\ tree = <<>>
        /\ out = [done |-> FALSE]

\* while (eventQueue.size() > 1) { left = top; pop; right = top; pop; prob = (l+r)/sum }
PairLeaves ==
  /\ pc = "pair" /\ Cardinality(eq) > 1
  /\ \E a \in TopEvents(eq) : \E b \in TopEvents(eq \ {a}) :
       /\ tree' = Append(tree, [last |-> TRUE, l |-> a, r |-> b, prob |-> rates[a] + rates[b]])
       /\ eq' = eq \ {a, b}
  /\ nq' = nq \cup {Len(tree) + 1}
  /\ pc' = IF eq' = {} THEN "merge" ELSE "pair"
  /\ UNCHANGED <<rates, out>>

\* if (!eventQueue.empty()) { rightLeaf = leftLeaf = top; prob = left/sum }   (never popped)
OddLeaf ==
  /\ pc = "pair" /\ Cardinality(eq) = 1
  /\ \E e \in eq :
       tree' = Append(tree, [last |-> TRUE, l |-> e, r |-> e, prob |-> rates[e]])
  /\ eq' = {}
  /\ nq' = nq \cup {Len(tree) + 1}
  /\ pc' = "merge"
  /\ UNCHANGED <<rates, out>>

\* while (queue.size() > 1) { h1 = top; pop; h2 = top; pop; new node(left h1, right h2) }
Merge ==
  /\ pc = "merge" /\ Cardinality(nq) > 1
  /\ \E h1 \in MinNodes(nq) : \E h2 \in MinNodes(nq \ {h1}) :
       /\ tree' = Append(tree, [last |-> FALSE, l |-> h1, r |-> h2,
                                prob |-> tree[h1].prob + tree[h2].prob])
       /\ nq' = (nq \ {h1, h2}) \cup {Len(tree) + 1}
  /\ UNCHANGED <<rates, pc, eq, out>>

\* the two threshold passes (AddP, MovePR), the descent (FindIn) and the exact measure are in
\* HuffOps.tla, shared with the history layer HuffHist.tla
MoveP(t, k) == MovePR(rates, t, k)
AlgoFind(t, h) == FindIn(t, h)
Thresholds(t) == ThresholdsOf(t)
Points(t) == PointsOf(t, SpecSum)
Cells(t) == CellsOf(t, SpecSum)
AlgoMeasure(t, i) == MeasureOf(t, SpecSum, i)
Probes(t) == ProbesOf(t, SpecSum)

\* root = &htree[htree.size() - 1]; both passes; the observable part of the result
Finish ==
  /\ pc = "merge" /\ Cardinality(nq) = 1
  /\ LET root == HSize
         full == Len(tree) = HSize /\ nq = {HSize}
         Lt(a, b) == a < b
         t    == IF full THEN MoveP(AddP(tree, root, 0), root) ELSE tree
     IN  out' = [done |-> TRUE,
                 full |-> full,
                 thr  |-> SortSeq([k \in 1..Len(t) |-> t[k].prob], Lt),
                 meas |-> [i \in 1..N |-> IF full THEN AlgoMeasure(t, i) ELSE -1],
                 total |-> full /\ \A h \in Probes(t) : AlgoFind(t, h) \in 1..N,
                 esc  |-> AlgoEscape]
  /\ pc' = "done" /\ tree' = <<>> /\ nq' = {}
  /\ UNCHANGED <<rates, eq>>

Next == PairLeaves \/ OddLeaf \/ Merge \/ Finish \/ (pc = "done" /\ UNCHANGED vars)
Spec == Init /\ [][Next]_vars

\* ---------------------------------------------------------------- properties
TypeOK == /\ pc \in {"pair", "merge", "done"}
          /\ eq \subseteq 1..N /\ nq \subseteq 1..Len(tree)
          /\ Len(tree) <= HSize                       \* htree[firstEmptyFieldIndex] in range
\* the array is exactly filled and the root is its last element
TreeFilled == out.done => out.full
\* Sel(i) has total length rate_i / S   (the property)
MeasureIsRate == out.done => \A i \in 1..N : out.meas[i] = rates[i]
\* every p in [0,1] selects an event (thresholds, 0, 1 and all cells)
Total == out.done => out.total
\* all thresholds lie in [0,1]
ThresholdsInUnitInterval == out.done => \A k \in 1..Len(out.thr) : out.thr[k] \in 0..SpecSum
\* escape rate = sum of rates
EscapeIsSum == out.done => out.esc = SpecSum
\* progress: the construction never blocks before it is done
NoStall == pc # "done" => ENABLED (PairLeaves \/ OddLeaf \/ Merge \/ Finish)

Vector == (Emit /\ out.done) =>
  PrintT(ToJson([rates |-> rates, sum |-> SpecSum, thr |-> out.thr,
                 exp |-> [i \in 1..N |-> rates[i]], esc |-> SpecSum]))
=============================================================================
