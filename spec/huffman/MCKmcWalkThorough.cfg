SPECIFICATION Spec
CONSTANTS
  Graphs <- MCGraphs
  DtSet = {1, 3}
  Depth = 6
  Emit = TRUE
INVARIANTS TimeConserved Vector
CHECK_DEADLOCK FALSE
