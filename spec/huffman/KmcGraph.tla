------------------------------ MODULE KmcGraph ------------------------------
(* Mode L over small hopping graphs: what LoadGraph must leave in nodes_ (see KmcGraphOps).
   Also: a node is injectable iff its type matches the injection pattern; nodes whose type
   is listed in `ignoresegments` get no escape rate / tree; a pair with J^2 = 0 yields
   events of rate 0 (still events).  Graphs with an isolated segment (no pair) are exported
   with iso = TRUE: there the statement is silent and the harness only records what the code
   does.                                                                                    *)
EXTENDS KmcGraphOps, TLC, Json
CONSTANTS Graphs, Energies, Carriers, FSet, InjSet, IgnSet, Emit
VARIABLE v

Charge(c) == CASE c = "e" -> -1 [] c = "h" -> 1 [] OTHER -> 0
Init == v \in [g : Graphs, E : Energies, c : Carriers, F : FSet, inj : InjSet, ign : IgnSet]
Next == UNCHANGED v
Spec == Init /\ [][Next]_v

G == v.g
Nodes == 0..(G.n - 1)
Ev(i) == EventsOf(G, i)
LnRatio(p) == (v.E[p.a + 1] - v.E[p.b + 1]) + Charge(v.c) * Dot3(v.F, p.R)
Isolated == \E i \in Nodes : Ev(i) = <<>>

\* every pair appears exactly once in each of its two nodes, with opposite dr and directions
PairTwice == \A k \in 1..Len(G.pairs) :
  LET p == G.pairs[k]
      ea == {j \in 1..Len(Ev(p.a)) : Ev(p.a)[j].p = k - 1}
      eb == {j \in 1..Len(Ev(p.b)) : Ev(p.b)[j].p = k - 1}
  IN  /\ \E ja \in ea : \E jb \in eb :
            /\ ea = {ja} /\ eb = {jb}
            /\ Ev(p.a)[ja].dest = p.b /\ Ev(p.b)[jb].dest = p.a
            /\ Ev(p.a)[ja].dr = Neg(Ev(p.b)[jb].dr)
            /\ Ev(p.a)[ja].dir = 12 /\ Ev(p.b)[jb].dir = 21
\* the number of events is twice the number of pairs
EventCount == LET RECURSIVE Cnt(_)
                  Cnt(i) == IF i < 0 THEN 0 ELSE Len(Ev(i)) + Cnt(i - 1)
              IN  Cnt(G.n - 1) = 2 * Len(G.pairs)
\* hopping along an event and back along the partner event returns to the start
RoundTrip == \A i \in Nodes : \A j \in 1..Len(Ev(i)) :
  \E k \in 1..Len(Ev(Ev(i)[j].dest)) :
     LET back == Ev(Ev(i)[j].dest)[k]
     IN  back.dest = i /\ back.p = Ev(i)[j].p /\ back.dr = Neg(Ev(i)[j].dr)

Vector == Emit =>
  PrintT(ToJson([n |-> G.n, types |-> G.types, pairs |-> G.pairs, E |-> v.E, c |-> v.c,
                 q |-> Charge(v.c), F |-> v.F, inj |-> v.inj, ign |-> v.ign, iso |-> Isolated,
                 nodes |-> [i \in 1..G.n |-> [ev |-> Ev(i - 1),
                                              inj |-> Matches(v.inj, G.types[i]),
                                              tree |-> G.types[i] # v.ign]],
                 lnratio |-> [k \in 1..Len(G.pairs) |-> LnRatio(G.pairs[k])]]))
=============================================================================
