SPECIFICATION Spec
CONSTANTS
  Graphs <- MCGraphs
  NCarSet = {1}
  Insertions = 2
  JSet = {1, 3}
  Depth = 9
  Emit = TRUE
INVARIANTS SingleOccupation DoneHasDecay Vector
CHECK_DEADLOCK FALSE
