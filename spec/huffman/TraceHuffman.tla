---------------------------- MODULE TraceHuffman ----------------------------
(* Trace validation for large event lists (length <= 100, integer rates spanning 12 orders of
   magnitude).  The driver builds the real tree, partitions [0,1] by the tree's own thresholds
   and logs, per cell, the event selected there and the cell ends as integer numerators over
   S = sum of rates.  This module evaluates the SPEC side of Huffman.tla on each logged record:

     * the cells tile [0,S] without gap or overlap, every cell (and every threshold, 0 and 1)
       selects an event of the list                                      (totality)
     * for every event i the total length of its cells equals rate_i up to
       Tol = n * S * 1e-14 (+2 for the rounding of the logged numerators)  (measure)
     * the logged escape rate equals the sum of the rates exactly         (escape)

   TLC integers are 32 bit; numbers up to 2e18 are pairs <<hi, lo>> to base 10^9 and only
   added and compared.  One initial state per trace record; the verdict of every record is
   printed as JSON and read back by the harness (which only reports it).                 *)
EXTENDS Integers, Sequences, FiniteSets, TLC, Json, IOUtils

VARIABLE l
TrFile == ndJsonDeserialize(IOEnv.TRACE)
ASSUME TLCSet(2, TrFile)
Tr == TLCGet(2)

B == 1000000000
Add(a, b) == LET lo == a[2] + b[2]
             IN  IF lo >= B THEN <<a[1] + b[1] + 1, lo - B>> ELSE <<a[1] + b[1], lo>>
Leq(a, b) == a[1] < b[1] \/ (a[1] = b[1] /\ a[2] <= b[2])
Zero == <<0, 0>>
Num(x) == <<x[1], x[2]>>

\* sums by binary splitting: recursion depth log2(n), TLC evaluates on the Java stack
RECURSIVE SumRates(_, _, _)
SumRates(rs, lo, hi) ==
  IF lo > hi THEN Zero
  ELSE IF lo = hi THEN Num(rs[lo])
  ELSE LET mid == (lo + hi) \div 2 IN Add(SumRates(rs, lo, mid), SumRates(rs, mid + 1, hi))

\* <<sum of left ends, sum of right ends>> of the cells lo..hi owned by event i
RECURSIVE Ends(_, _, _, _)
Ends(cells, i, lo, hi) ==
  IF lo > hi THEN <<Zero, Zero>>
  ELSE IF lo = hi
       THEN (IF cells[lo][1] = i THEN <<Num(cells[lo][2]), Num(cells[lo][3])>> ELSE <<Zero, Zero>>)
  ELSE LET mid == (lo + hi) \div 2
           a == Ends(cells, i, lo, mid)
           b == Ends(cells, i, mid + 1, hi)
       IN  <<Add(a[1], b[1]), Add(a[2], b[2])>>

Verdict(r) ==
  LET n     == Len(r.rates)
      S     == SumRates(r.rates, 1, n)
      m     == Len(r.cells)
      tol   == <<0, n * ((S[1] \div 100000) + 1) + 2>>
      ends  == [i \in 1..n |-> Ends(r.cells, i, 1, m)]
      measOK(i) == /\ Leq(ends[i][2], Add(Add(ends[i][1], Num(r.rates[i])), tol))
                   /\ Leq(Add(ends[i][1], Num(r.rates[i])), Add(ends[i][2], tol))
  IN  [id    |-> r.id, n |-> n,
       esc   |-> Num(r.esc) = S,
       tile  |-> /\ m >= 1
                 /\ Num(r.cells[1][2]) = Zero
                 /\ Num(r.cells[m][3]) = S
                 /\ \A k \in 1..m : Leq(Num(r.cells[k][2]), Num(r.cells[k][3]))
                 /\ \A k \in 1..(m - 1) : Num(r.cells[k + 1][2]) = Num(r.cells[k][3]),
       total |-> r.total = 1 /\ \A k \in 1..m : r.cells[k][1] \in 1..n,
       inrange |-> r.inrange = 1,
       bad   |-> {i \in 1..n : ~measOK(i)}]

Init == l \in 1..Len(Tr)
Next == UNCHANGED l
Spec == Init /\ [][Next]_l
Report == PrintT(ToJson(Verdict(Tr[l])))
=============================================================================
