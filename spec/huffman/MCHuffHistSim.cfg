SPECIFICATION Spec
CONSTANTS
  RateSet = {1, 2, 3, 5, 8, 1000}
  Depth = 14
  ResetSum = TRUE
  Emit = TRUE
INVARIANTS HistMeasure HistNormalised HistTotal HistEscape Vector
CHECK_DEADLOCK FALSE
