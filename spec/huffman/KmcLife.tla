------------------------------- MODULE KmcLife -------------------------------
(* The VSSM loop of kmclifetime (KMCLifetime::RunVSSM with KMCCalculator::RandomlyCreateCharges,
   RandomlyAssignCarriertoSite, Promotetime, ChooseAffectedCarrier, ChooseHoppingDest), driven
   by SCRIPTED random numbers: every draw the code makes is one record of the history h, chosen
   nondeterministically by TLC, and the real RunVSSM is replayed with exactly these draws.

   Graph: KmcGraphOps (pairs -> hop events in neighbour-list order); ReadLifetimeFile appends
   one decay event to every node.  All sites injectable, NCar < number of sites.

   Time is symbolic: step k advances every clock by dt_k = j_k ln2 / K_k, where the draw was
   u = 2^-j_k and K_k = sum of the escape rates of the sites occupied AT THAT STEP (`at`, one
   entry per carrier).  The harness evaluates the sums with the escape rates of the loaded
   graph.  The property (C14, last clause, over a run): every waiting time is -ln(u)/K_k with
   the CURRENT K_k, also after a decay and re-injection; the trajectory line written at each
   decay (simulated time, carrier lifetime, steps, last site, travelled vector) and the
   occupation times of the sites are those of this walk.

   Draw kinds:  site v      rand_uniform_int() = v                (injection / re-injection)
                time j      rand_uniform() = 1 - 2^-j             (Promotetime)
                carrier c   rand_uniform() inside carrier c's share (ChooseAffectedCarrier, NCar > 1)
                event e     rand_uniform() inside the selection interval of event e of the
                            carrier's site (ChooseHoppingDest); e = Len+1-th is the decay event *)
EXTENDS KmcGraphOps, FiniteSets, TLC, Json
CONSTANTS Graphs, NCarSet, Insertions, JSet, Depth, Emit
VARIABLES g, N, pc, car, occ, clock, ins, traj, fbn, fbd, aff, h
vars == <<g, N, pc, car, occ, clock, ins, traj, fbn, fbd, aff, h>>

Sites == 0..(g.n - 1)
Hops(i) == EventsOf(g, i)
NEv(i) == Len(Hops(i)) + 1                    \* + the decay event, added last
At == [c \in 1..Len(car) |-> car[c].node]
Draw(r) == h' = Append(h, r)
Room == Len(h) < Depth

Init == /\ g \in Graphs /\ N \in NCarSet /\ N < g.n
        /\ pc = "create" /\ car = <<>> /\ occ = {} /\ clock = <<>> /\ ins = 0 /\ traj = <<>>
        /\ fbn = {} /\ fbd = {} /\ aff = 0 /\ h = <<>>

\* RandomlyCreateCharges: for each carrier RandomlyAssignCarriertoSite (redraw while occupied)
Create ==
  /\ pc = "create" /\ Room
  /\ \E v \in Sites :
       /\ Draw([k |-> "site", v |-> v])
       /\ IF v \in occ THEN UNCHANGED <<car, occ, pc>>
          ELSE /\ car' = Append(car, [id |-> Len(car), node |-> v, born |-> 0, steps |-> 0, trav |-> <<0, 0, 0>>])
               /\ occ' = occ \cup {v}
               /\ pc' = IF Len(car) + 1 = N THEN "loop" ELSE "create"
  /\ UNCHANGED <<g, N, clock, ins, traj, fbn, fbd, aff>>

\* while (insertioncount < insertions): cumulated rate over ALL carriers now, dt = Promotetime
Step ==
  /\ pc = "loop" /\ ins < Insertions /\ Room
  /\ \E j \in JSet :
       /\ Draw([k |-> "time", j |-> j])
       /\ clock' = Append(clock, [j |-> j, at |-> At])
  /\ car' = [c \in 1..Len(car) |-> [car[c] EXCEPT !.steps = @ + 1]]
  /\ fbn' = {} /\ pc' = "level1"
  /\ UNCHANGED <<g, N, occ, ins, traj, fbd, aff>>
Finish == /\ pc = "loop" /\ ins >= Insertions /\ pc' = "done"
          /\ UNCHANGED <<g, N, car, occ, clock, ins, traj, fbn, fbd, aff, h>>

\* LEVEL 1: ChooseAffectedCarrier (no draw for a single carrier); forbidden node -> choose again
Level1 ==
  /\ pc = "level1"
  /\ IF N = 1
     THEN /\ aff' = 1 /\ UNCHANGED h
          /\ pc' = "level2" /\ fbd' = {}       \* a single carrier's node is never forbidden here
     ELSE /\ Room
          /\ \E c \in 1..N :
               /\ Draw([k |-> "carrier", c |-> c, at |-> At])
               /\ aff' = c
               /\ IF car[c].node \in fbn THEN pc' = "level1" /\ UNCHANGED fbd
                  ELSE pc' = "level2" /\ fbd' = {}
  /\ UNCHANGED <<g, N, car, occ, clock, ins, traj, fbn>>

Surrounded(i) == FALSE   \* CheckSurrounded: the decay event of the site is always possible
\* LEVEL 2: ChooseHoppingDest
Level2 ==
  /\ pc = "level2" /\ Room
  /\ LET i == car[aff].node IN
     \E e \in 1..NEv(i) :
       /\ Draw([k |-> "event", node |-> i, e |-> e - 1])
       /\ IF e = NEv(i)
          THEN \* decay: trajectory line, then RandomlyAssignCarriertoSite
               /\ traj' = Append(traj, [sim |-> Len(clock), ins |-> ins, id |-> car[aff].id,
                                        born |-> car[aff].born, steps |-> car[aff].steps,
                                        last |-> i, trav |-> car[aff].trav])
               /\ pc' = "reinject"
               /\ UNCHANGED <<car, occ, fbn, fbd>>
          ELSE LET ev == Hops(i)[e] IN
               IF ev.dest \in fbd THEN UNCHANGED <<car, occ, traj, fbn, fbd, pc>>          \* continue
               ELSE IF ev.dest \in occ
               THEN IF Surrounded(i)
                    THEN /\ fbn' = fbn \cup {i} /\ pc' = "level1" /\ UNCHANGED <<car, occ, traj, fbd>>
                    ELSE /\ fbd' = fbd \cup {ev.dest} /\ UNCHANGED <<car, occ, traj, fbn, pc>>
               ELSE \* jumpAccordingEvent
                    /\ car' = [car EXCEPT ![aff].node = ev.dest,
                                          ![aff].trav = <<@[1] + ev.dr[1], @[2] + ev.dr[2], @[3] + ev.dr[3]>>]
                    /\ occ' = (occ \ {i}) \cup {ev.dest}
                    /\ pc' = "loop"
                    /\ UNCHANGED <<traj, fbn, fbd>>
  /\ UNCHANGED <<g, N, clock, ins, aff>>

\* RandomlyAssignCarriertoSite(affected) (its old site still counts as occupied), resetCarrier,
\* insertioncount++, new id
Reinject ==
  /\ pc = "reinject" /\ Room
  /\ \E v \in Sites :
       /\ Draw([k |-> "site", v |-> v])
       /\ IF v \in occ THEN UNCHANGED <<car, occ, ins, pc>>
          ELSE /\ occ' = (occ \ {car[aff].node}) \cup {v}
               /\ car' = [car EXCEPT ![aff] = [id |-> N - 1 + (ins + 1), node |-> v, born |-> Len(clock),
                                               steps |-> 0, trav |-> <<0, 0, 0>>]]
               /\ ins' = ins + 1
               /\ pc' = "loop"
  /\ UNCHANGED <<g, N, clock, traj, fbn, fbd, aff>>

Next == Create \/ Step \/ Finish \/ Level1 \/ Level2 \/ Reinject \/ (pc = "done" /\ UNCHANGED vars)
Spec == Init /\ [][Next]_vars

\* model-internal sanity: single occupation, carriers sit on occupied sites
SingleOccupation == /\ Cardinality(occ) = Len(car)
                    /\ \A c \in 1..Len(car) : car[c].node \in occ
                    /\ \A c, d \in 1..Len(car) : c # d => car[c].node # car[d].node
\* every finished run contains a decay followed by a re-injection and further steps
DoneHasDecay == pc = "done" => (Len(traj) = Insertions /\ Insertions >= 2 => traj[2].sim > traj[1].sim)

Vector == (Emit /\ pc = "done") =>
  PrintT(ToJson([n |-> g.n, types |-> g.types, pairs |-> g.pairs, ncar |-> N, insertions |-> Insertions,
                 h |-> h, traj |-> traj, clock |-> clock,
                 final |-> [c \in 1..Len(car) |-> [id |-> car[c].id, node |-> car[c].node,
                                                    born |-> car[c].born, steps |-> car[c].steps]]]))
=============================================================================
