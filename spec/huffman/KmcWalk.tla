------------------------------- MODULE KmcWalk -------------------------------
(* Mode H: bookkeeping of one charge carrier walking over the node graph built by LoadGraph
   (Chargecarrier + GNode occupation; the call order is the one of the VSSM loops in
   kmcmultiple/kmclifetime: advance the clocks by dt on the node the carrier sits on, then jump).

     Place(i)   Chargecarrier::settoNote(&nodes[i])        (after ReleaseNode if it had a node)
     Tick(dt)   updateLifetime(dt); updateSteps(1); updateOccupationtime(dt)
     Jump(k)    jumpAccordingEvent(node.Events()[k])
     Reset      resetCarrier(): lifetime, steps and travelled vector back to zero; the node and
                the nodes' occupation times are not touched

   Expected after every call: lifetime = sum of dt; steps = number of ticks; occupation time of
   node i = sum of the dt spent on i; exactly the carrier's node is occupied; the travelled
   vector = sum of the dr of the events taken (unwrapped displacement), and the carrier sits on
   the destination of the last event.  dt are dyadic (exact in double).                      *)
EXTENDS KmcGraphOps, TLC, Json
CONSTANTS Graphs, DtSet, Depth, Emit
VARIABLES g, cur, life, steps, occt, trav, h
vars == <<g, cur, life, steps, occt, trav, h>>
Nodes == 0..(g.n - 1)

Obs == [cur |-> cur, life |-> life, steps |-> steps,
        occt |-> [i \in 1..g.n |-> occt[i - 1]], trav |-> trav,
        occ |-> [i \in 1..g.n |-> (i - 1) = cur]]

Init == /\ g \in Graphs /\ cur = -1 /\ life = 0 /\ steps = 0
        /\ occt = [i \in 0..(g.n - 1) |-> 0] /\ trav = <<0, 0, 0>> /\ h = <<>>

Place(i) == /\ Len(h) < Depth /\ EventsOf(g, i) # <<>>
            /\ cur' = i /\ UNCHANGED <<g, life, steps, occt, trav>>
            /\ h' = Append(h, [a |-> "place", i |-> i,
                               o |-> [Obs EXCEPT !.cur = i, !.occ = [j \in 1..g.n |-> (j - 1) = i]]])
Tick(dt) == /\ Len(h) < Depth /\ cur >= 0
            /\ life' = life + dt /\ steps' = steps + 1
            /\ occt' = [occt EXCEPT ![cur] = @ + dt]
            /\ UNCHANGED <<g, cur, trav>>
            /\ h' = Append(h, [a |-> "tick", dt |-> dt,
                               o |-> [Obs EXCEPT !.life = life + dt, !.steps = steps + 1,
                                                 !.occt = [i \in 1..g.n |-> occt'[i - 1]]]])
Jump(k) == /\ Len(h) < Depth /\ cur >= 0 /\ k \in 1..Len(EventsOf(g, cur))
           /\ LET e == EventsOf(g, cur)[k]
                  t == <<trav[1] + e.dr[1], trav[2] + e.dr[2], trav[3] + e.dr[3]>>
              IN  /\ cur' = e.dest /\ trav' = t
                  /\ h' = Append(h, [a |-> "jump", k |-> k - 1,
                                     o |-> [Obs EXCEPT !.cur = e.dest, !.trav = t,
                                                       !.occ = [j \in 1..g.n |-> (j - 1) = e.dest]]])
           /\ UNCHANGED <<g, life, steps, occt>>

Reset == /\ Len(h) < Depth /\ cur >= 0 /\ (life > 0 \/ trav # <<0, 0, 0>>)
         /\ life' = 0 /\ steps' = 0 /\ trav' = <<0, 0, 0>>
         /\ UNCHANGED <<g, cur, occt>>
         /\ h' = Append(h, [a |-> "reset", o |-> [Obs EXCEPT !.life = 0, !.steps = 0, !.trav = <<0, 0, 0>>]])

Next == \/ Reset
        \/ (cur < 0 /\ \E i \in Nodes : Place(i))
        \/ \E dt \in DtSet : Tick(dt)
        \/ \E k \in 1..2 : Jump(k)
        \/ (cur >= 0 /\ Len(h) + 2 <= Depth /\ \E i \in Nodes : i # cur /\ Place(i))   \* re-injection
Spec == Init /\ [][Next]_vars

\* bookkeeping invariants of the model itself
RECURSIVE SumOcc(_)
SumOcc(i) == IF i < 0 THEN 0 ELSE occt[i] + SumOcc(i - 1)
\* (until the first resetCarrier, which only clears the carrier's own clock)
TimeConserved == (\A k \in 1..Len(h) : h[k].a # "reset") => SumOcc(g.n - 1) = life
Vector == (Emit /\ Len(h) = Depth) => PrintT(ToJson([n |-> g.n, types |-> g.types, pairs |-> g.pairs, h |-> h]))
=============================================================================
