SPECIFICATION Spec
CONSTANTS
  Graphs <- MCGraphs
  Energies <- MCEnergies
  Carriers = {"e", "h", "s"}
  FSet <- MCF
  InjSet = {"*", "A"}
  IgnSet = {"-", "B"}
  Emit = TRUE
INVARIANTS PairTwice EventCount RoundTrip Vector
CHECK_DEADLOCK FALSE
