---- MODULE MCHuffQuick ----
(* all rate vectors of length 1..4 over {1,2,3,5} plus wide-ratio vectors, every tie order *)
EXTENDS Huffman
RateSet == {1, 2, 3, 5}
MaxLen == 4
Wide == { <<1, 1000000>>, <<1000000, 1, 1000>>, <<1, 1, 1000000, 1000000>>,
          <<7, 700, 70000, 7000000, 1>>, <<1, 2, 4, 8, 16, 32, 64>>,
          <<100000000, 1, 1, 100000000, 3, 1000>> }
MCVectors == UNION {[1..k -> RateSet] : k \in 1..MaxLen} \cup Wide
====
