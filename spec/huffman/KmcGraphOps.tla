---------------------------- MODULE KmcGraphOps ----------------------------
(* How pair rates become node events (KMCCalculator::LoadGraph + GNode::AddEventfromQmPair).
   A graph g = [n, types, pairs]: segments 0..n-1 with a type name each; pairs is the
   neighbour list in list order, each [a, b, R, jm]: Seg1 = a, Seg2 = b, R = r_b - r_a (the
   minimum-image connection stored in the pair), jm = J^2 multiplier (0: no coupling).

   Declarative meaning: every pair is one reversible hop.  Node a gets the event "to b, by +R,
   with the forward rate k12"; node b gets "to a, by -R, with the backward rate k21"; events
   appear in neighbour-list order.  Forward and backward rate of a pair are tied by detailed
   balance, ln(k_ab/k_ba) = (E_a - E_b) + q F.R (equal reorganisation energies), so swapping
   the two rates between the nodes or flipping dr is observable.                           *)
EXTENDS Integers, Sequences

Neg(R) == <<-R[1], -R[2], -R[3]>>
Dot3(a, b) == a[1] * b[1] + a[2] * b[2] + a[3] * b[3]

\* the events of node i, in order; dir 12: forward rate of pair p, dir 21: backward rate
RECURSIVE EventsFrom(_, _, _)
EventsFrom(g, i, k) ==
  IF k > Len(g.pairs) THEN <<>>
  ELSE LET p == g.pairs[k]
           here == IF p.a = i THEN <<[dest |-> p.b, dr |-> p.R, dir |-> 12, p |-> k - 1]>>
                   ELSE IF p.b = i THEN <<[dest |-> p.a, dr |-> Neg(p.R), dir |-> 21, p |-> k - 1]>>
                   ELSE <<>>
       IN  here \o EventsFrom(g, i, k + 1)
EventsOf(g, i) == EventsFrom(g, i, 1)

\* tools::wildcmp for the patterns used here
Matches(pat, type) == pat = "*" \/ pat = type
=============================================================================
