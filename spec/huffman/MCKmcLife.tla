---- MODULE MCKmcLife ----
EXTENDS KmcLife
P(a, b, R, jm) == [a |-> a, b |-> b, R |-> R, jm |-> jm]
MCGraphs == {
  [n |-> 3, types |-> <<"A", "A", "A">>,
   pairs |-> <<P(0, 1, <<2, 0, 0>>, 1), P(1, 2, <<0, -1, 1>>, 4)>>] }
====
