SPECIFICATION Spec
CONSTANTS
  RateSet = {1, 2, 3, 5}
  Depth = 6
  ResetSum = FALSE
  Emit = FALSE
INVARIANTS HistMeasure HistNormalised HistTotal HistEscape Vector
CHECK_DEADLOCK FALSE
