SPECIFICATION Spec
INVARIANTS Report
CHECK_DEADLOCK FALSE
