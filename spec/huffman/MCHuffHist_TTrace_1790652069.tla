---- MODULE MCHuffHist_TTrace_1790652069 ----
EXTENDS Sequences, TLCExt, Toolbox, Naturals, TLC, MCHuffHist

_expression ==
    LET MCHuffHist_TEExpression == INSTANCE MCHuffHist_TEExpression
    IN MCHuffHist_TEExpression!expression
----

_trace ==
    LET MCHuffHist_TETrace == INSTANCE MCHuffHist_TETrace
    IN MCHuffHist_TETrace!trace
----

_inv ==
    ~(
        TLCGet("level") = Len(_TETrace)
        /\
        ev = (<<[r |-> 2, k |-> "hop"]>>)
        /\
        nb = (2)
        /\
        esc = (2)
        /\
        h = (<<[r |-> 2, a |-> "hop"], [esc |-> 2, a |-> "init"], [esc |-> 2, nb |-> 1, a |-> "make", sum |-> 2, rates |-> <<2>>, kinds |-> <<"hop">>, exp |-> <<2>>], [esc |-> 2, nb |-> 2, a |-> "make", sum |-> 2, rates |-> <<2>>, kinds |-> <<"hop">>, exp |-> <<2>>]>>)
        /\
        sov = (4)
        /\
        fresh = (TRUE)
        /\
        out = ([built |-> TRUE, sum |-> 4, meas |-> <<4>>, total |-> TRUE, inrange |-> TRUE])
    )
----

_init ==
    /\ fresh = _TETrace[1].fresh
    /\ nb = _TETrace[1].nb
    /\ h = _TETrace[1].h
    /\ out = _TETrace[1].out
    /\ ev = _TETrace[1].ev
    /\ sov = _TETrace[1].sov
    /\ esc = _TETrace[1].esc
----

_next ==
    /\ \E i,j \in DOMAIN _TETrace:
        /\ \/ /\ j = i + 1
              /\ i = TLCGet("level")
        /\ fresh  = _TETrace[i].fresh
        /\ fresh' = _TETrace[j].fresh
        /\ nb  = _TETrace[i].nb
        /\ nb' = _TETrace[j].nb
        /\ h  = _TETrace[i].h
        /\ h' = _TETrace[j].h
        /\ out  = _TETrace[i].out
        /\ out' = _TETrace[j].out
        /\ ev  = _TETrace[i].ev
        /\ ev' = _TETrace[j].ev
        /\ sov  = _TETrace[i].sov
        /\ sov' = _TETrace[j].sov
        /\ esc  = _TETrace[i].esc
        /\ esc' = _TETrace[j].esc

\* Uncomment the ASSUME below to write the states of the error trace
\* to the given file in Json format. Note that you can pass any tuple
\* to `JsonSerialize`. For example, a sub-sequence of _TETrace.
    \* ASSUME
    \*     LET J == INSTANCE Json
    \*         IN J!JsonSerialize("MCHuffHist_TTrace_1790652069.json", _TETrace)

=============================================================================

 Note that you can extract this module `MCHuffHist_TEExpression`
  to a dedicated file to reuse `expression` (the module in the 
  dedicated `MCHuffHist_TEExpression.tla` file takes precedence 
  over the module `MCHuffHist_TEExpression` below).

---- MODULE MCHuffHist_TEExpression ----
EXTENDS Sequences, TLCExt, Toolbox, Naturals, TLC, MCHuffHist

expression == 
    [
        \* To hide variables of the `MCHuffHist` spec from the error trace,
        \* remove the variables below.  The trace will be written in the order
        \* of the fields of this record.
        fresh |-> fresh
        ,nb |-> nb
        ,h |-> h
        ,out |-> out
        ,ev |-> ev
        ,sov |-> sov
        ,esc |-> esc
        
        \* Put additional constant-, state-, and action-level expressions here:
        \* ,_stateNumber |-> _TEPosition
        \* ,_freshUnchanged |-> fresh = fresh'
        
        \* Format the `fresh` variable as Json value.
        \* ,_freshJson |->
        \*     LET J == INSTANCE Json
        \*     IN J!ToJson(fresh)
        
        \* Lastly, you may build expressions over arbitrary sets of states by
        \* leveraging the _TETrace operator.  For example, this is how to
        \* count the number of times a spec variable changed up to the current
        \* state in the trace.
        \* ,_freshModCount |->
        \*     LET F[s \in DOMAIN _TETrace] ==
        \*         IF s = 1 THEN 0
        \*         ELSE IF _TETrace[s].fresh # _TETrace[s-1].fresh
        \*             THEN 1 + F[s-1] ELSE F[s-1]
        \*     IN F[_TEPosition - 1]
    ]

=============================================================================



Parsing and semantic processing can take forever if the trace below is long.
 In this case, it is advised to uncomment the module below to deserialize the
 trace from a generated binary file.

\*
\*---- MODULE MCHuffHist_TETrace ----
\*EXTENDS IOUtils, TLC, MCHuffHist
\*
\*trace == IODeserialize("MCHuffHist_TTrace_1790652069.bin", TRUE)
\*
\*=============================================================================
\*

---- MODULE MCHuffHist_TETrace ----
EXTENDS TLC, MCHuffHist

trace == 
    <<
    ([ev |-> <<>>,nb |-> 0,esc |-> 0,h |-> <<>>,sov |-> 0,fresh |-> FALSE,out |-> [built |-> FALSE]]),
    ([ev |-> <<[r |-> 2, k |-> "hop"]>>,nb |-> 0,esc |-> 0,h |-> <<[r |-> 2, a |-> "hop"]>>,sov |-> 0,fresh |-> FALSE,out |-> [built |-> FALSE]]),
    ([ev |-> <<[r |-> 2, k |-> "hop"]>>,nb |-> 0,esc |-> 2,h |-> <<[r |-> 2, a |-> "hop"], [esc |-> 2, a |-> "init"]>>,sov |-> 0,fresh |-> TRUE,out |-> [built |-> FALSE]]),
    ([ev |-> <<[r |-> 2, k |-> "hop"]>>,nb |-> 1,esc |-> 2,h |-> <<[r |-> 2, a |-> "hop"], [esc |-> 2, a |-> "init"], [esc |-> 2, nb |-> 1, a |-> "make", sum |-> 2, rates |-> <<2>>, kinds |-> <<"hop">>, exp |-> <<2>>]>>,sov |-> 2,fresh |-> TRUE,out |-> [built |-> TRUE, sum |-> 2, meas |-> <<2>>, total |-> TRUE, inrange |-> TRUE]]),
    ([ev |-> <<[r |-> 2, k |-> "hop"]>>,nb |-> 2,esc |-> 2,h |-> <<[r |-> 2, a |-> "hop"], [esc |-> 2, a |-> "init"], [esc |-> 2, nb |-> 1, a |-> "make", sum |-> 2, rates |-> <<2>>, kinds |-> <<"hop">>, exp |-> <<2>>], [esc |-> 2, nb |-> 2, a |-> "make", sum |-> 2, rates |-> <<2>>, kinds |-> <<"hop">>, exp |-> <<2>>]>>,sov |-> 4,fresh |-> TRUE,out |-> [built |-> TRUE, sum |-> 4, meas |-> <<4>>, total |-> TRUE, inrange |-> TRUE]])
    >>
----


=============================================================================

---- CONFIG MCHuffHist_TTrace_1790652069 ----
CONSTANTS
    RateSet = { 1 , 2 , 3 , 5 }
    Depth = 6
    ResetSum = FALSE
    Emit = FALSE

INVARIANT
    _inv

CHECK_DEADLOCK
    \* CHECK_DEADLOCK off because of PROPERTY or INVARIANT above.
    FALSE

INIT
    _init

NEXT
    _next

CONSTANT
    _TETrace <- _trace

ALIAS
    _expression
=============================================================================
\* Generated on Tue Sep 29 03:21:11 UTC 2026