------------------------------ MODULE HuffHist ------------------------------
(* C14 history layer (mode H): the selection property must hold after EVERY MakeHuffTree in
   every call history on one GNode, with both event kinds:

       AddEvent(rate) | AddDecayEvent(rate) | InitEscapeRate() | MakeHuffTree()

   (KMCCalculator::LoadGraph builds every node once; kmclifetime then adds a decay event per
   node and calls InitEscapeRate + MakeHuffTree a second time.)

   Abstract state: the current event list (rate, kind), the escape rate as last computed, and
   what the tree object keeps between builds (huffmanTree::sum_of_values, transcribed as the
   code does: reset to 0, then accumulated).  Property after every MakeHuffTree that was
   preceded by InitEscapeRate (as all callers do):
     * measure of Sel(i) = rate_i / S,  S = sum of ALL current rates, decay events included,
       independent of how many times and from which lists the tree was built before;
     * every p in [0,1] selects a current event; escape rate = S.
   Tie orders are explored by Huffman.tla; here the tree is built with one of them (HuffOps!
   BuildTree) because the question is history independence.  The harness only uses `sum`,
   `exp` and `esc` of each step (all thresholds of any admissible tree are multiples of 1/S).

   ResetSum = FALSE models a tree that forgets to reset sum_of_values: TLC then reports
   HistMeasure violated on hop 1, init, make, make (spec sensitivity, not part of the check). *)
EXTENDS HuffOps, TLC, Json

CONSTANTS RateSet,   \* rates of added events
          Depth,     \* maximal number of calls in a history
          ResetSum,  \* TRUE: makeTree starts with sum_of_values = 0.0 (the code)
          Emit
VARIABLES ev,        \* GNode::events_: sequence of [r |-> rate, k |-> "hop" | "decay"]
          esc,       \* GNode::escape_rate_
          fresh,     \* InitEscapeRate was called after the last change of events_
          sov,       \* huffmanTree::sum_of_values (persists between builds)
          nb,        \* number of MakeHuffTree calls so far
          out,       \* observable result of the last MakeHuffTree
          sat,       \* a Chargecarrier has been put on this node (Chargecarrier::settoNote)
          h          \* history: call records with the expected observation after each call
vars == <<ev, esc, fresh, sov, nb, out, sat, h>>

\* calls that count towards Depth (putting the carrier on the node is free, see Sit)
Calls == Len(h) - (IF sat THEN 1 ELSE 0)
\* what the carrier sitting on the node reports as its escape rate: the node's CURRENT one
CarView(e) == IF sat THEN e ELSE -1

Rates == [i \in 1..Len(ev) |-> ev[i].r]
SpecSum == SumSeq(Rates, Len(ev))

Init == /\ ev = <<>> /\ esc = 0 /\ fresh = FALSE /\ sov = 0 /\ nb = 0
        /\ out = [built |-> FALSE] /\ sat = FALSE /\ h = <<>>

\* room is kept for InitEscapeRate + MakeHuffTree, histories that cannot reach a build are pruned
Add(kind) ==
  /\ Calls + 3 <= Depth
  /\ \E r \in RateSet :
       /\ ev' = Append(ev, [r |-> r, k |-> kind])
       /\ h' = Append(h, [a |-> kind, r |-> r])
  /\ fresh' = FALSE
  /\ UNCHANGED <<esc, sov, nb, out, sat>>
AddHop == Add("hop")        \* GNode::AddEvent
AddDecay == Add("decay")    \* GNode::AddDecayEvent

\* escape_rate_ = 0; for (event : events_) escape_rate_ += event.getRate();   (every kind)
RECURSIVE EscapeFrom(_, _)
EscapeFrom(acc, k) == IF k > Len(ev) THEN acc ELSE EscapeFrom(acc + ev[k].r, k + 1)
InitEscape ==
  /\ Calls + 2 <= Depth /\ ev # <<>> /\ ~fresh
  /\ esc' = EscapeFrom(0, 1)
  /\ fresh' = TRUE
  /\ h' = Append(h, [a |-> "init", esc |-> SpecSum, car |-> CarView(SpecSum)])
  /\ UNCHANGED <<ev, sov, nb, out, sat>>

\* hTree.setEvents(&events_); hTree.makeTree()
MakeTree ==
  /\ Calls + 1 <= Depth /\ fresh
  /\ LET s == (IF ResetSum THEN 0 ELSE sov) + SumSeq(Rates, Len(ev))   \* sum_of_values
         t == BuildTree(Rates)
     IN  /\ sov' = s
         /\ out' = [built |-> TRUE, sum |-> s,
                    meas |-> [i \in 1..Len(ev) |-> MeasureOf(t, s, i)],
                    total |-> \A p \in ProbesOf(t, s) : FindIn(t, p) \in 1..Len(ev),
                    inrange |-> ThresholdsOf(t) \subseteq 0..s]
  /\ nb' = nb + 1
  /\ h' = Append(h, [a |-> "make", nb |-> nb + 1, rates |-> Rates,
                     kinds |-> [i \in 1..Len(ev) |-> ev[i].k],
                     sum |-> SpecSum, exp |-> Rates, esc |-> SpecSum, car |-> CarView(SpecSum)])
  /\ UNCHANGED <<ev, esc, fresh, sat>>

\* Chargecarrier::settoNote(&node): a carrier is injected on the node after a build; the node may be
\* modified and rebuilt afterwards (kmclifetime adds the decay events after LoadGraph).  From then on
\* Chargecarrier::getCurrentEscapeRate() must be the node's current escape rate after every
\* InitEscapeRate - waiting time and carrier choice use it while the destination lookup uses the tree.
Sit == /\ ~sat /\ Len(h) > 0 /\ h[Len(h)].a = "make" /\ Calls + 3 <= Depth
       /\ sat' = TRUE /\ h' = Append(h, [a |-> "sit"])
       /\ UNCHANGED <<ev, esc, fresh, sov, nb, out>>

Next == AddHop \/ AddDecay \/ InitEscape \/ MakeTree \/ Sit
Spec == Init /\ [][Next]_vars

LastIsMake == Len(h) > 0 /\ h[Len(h)].a = "make"
\* measure of event i as a fraction of [0,1] (= meas/sum) equals rate_i / S, whatever happened before
HistMeasure == LastIsMake => \A i \in 1..Len(ev) : out.meas[i] * SpecSum = ev[i].r * out.sum
HistNormalised == LastIsMake => out.sum = SpecSum
HistTotal == LastIsMake => out.total /\ out.inrange
\* escape rate = sum over all current events, decay events included
HistEscape == fresh => esc = SpecSum

Vector == (Emit /\ LastIsMake) => PrintT(ToJson([h |-> h]))
=============================================================================
