SPECIFICATION Spec
CONSTANTS
  Vectors <- MCVectors
  SymEvents = TRUE
  Emit = TRUE
INVARIANTS TypeOK TreeFilled MeasureIsRate Total ThresholdsInUnitInterval EscapeIsSum NoStall Vector
CHECK_DEADLOCK FALSE
