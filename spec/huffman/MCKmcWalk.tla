---- MODULE MCKmcWalk ----
EXTENDS KmcWalk
P(a, b, R, jm) == [a |-> a, b |-> b, R |-> R, jm |-> jm]
MCGraphs == {
  [n |-> 2, types |-> <<"A", "B">>, pairs |-> <<P(0, 1, <<2, 0, 0>>, 1)>>],
  [n |-> 3, types |-> <<"A", "B", "A">>,
   pairs |-> <<P(0, 1, <<2, 0, 0>>, 1), P(2, 1, <<0, -1, 1>>, 4), P(0, 2, <<-1, 1, 0>>, 1)>>] }
====
