SPECIFICATION Spec
CONSTANTS
  Graphs <- MCGraphs
  NCarSet = {2}
  Insertions = 2
  JSet = {2}
  Depth = 12
  Emit = TRUE
INVARIANTS SingleOccupation DoneHasDecay Vector
CHECK_DEADLOCK FALSE
