---- MODULE MCHuffHist ----
EXTENDS HuffHist
====
