SPECIFICATION Spec
CONSTANTS
  Vectors <- MCVectors
  SymEvents = FALSE
  Emit = TRUE
INVARIANTS TypeOK TreeFilled MeasureIsRate Total ThresholdsInUnitInterval EscapeIsSum NoStall Vector
CHECK_DEADLOCK FALSE
