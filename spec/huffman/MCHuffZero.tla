---- MODULE MCHuffZero ----
(* events of rate 0 (pairs without coupling): lists over {0,1,3} of length 1..4 with positive sum *)
EXTENDS Huffman
MCVectors == {r \in UNION {[1..k -> {0, 1, 3}] : k \in 1..4} : \E i \in 1..Len(r) : r[i] > 0}
====
