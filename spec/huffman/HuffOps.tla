------------------------------ MODULE HuffOps ------------------------------
(* Operators shared by Huffman.tla (single build, every tie order) and HuffHist.tla (call
   histories on one GNode): the two threshold passes, the threshold descent and the exact
   measure, all parametrised by the rate sequence r and the normalisation S the tree was
   built with (huffmanTree::sum_of_values).  Probabilities are integer numerators over S;
   p is passed in half units (h stands for p = h/(2S)).                                  *)
EXTENDS Integers, Sequences, FiniteSets

RECURSIVE SumSeq(_, _)
SumSeq(s, k) == IF k = 0 THEN 0 ELSE s[k] + SumSeq(s, k - 1)

\* addProbabilityFromRightSubtreeToLeftSubtree(n, add)
RECURSIVE AddP(_, _, _)
AddP(t, k, add) ==
  LET t1 == [t EXCEPT ![k].prob = @ + add]
  IN  IF t[k].last THEN t1
      ELSE LET t2 == AddP(t1, t[k].l, add + t1[t[k].r].prob)
           IN  AddP(t2, t[k].r, add)

\* moveProbabilitiesFromRightSubtreesOneLevelUp(n)
RECURSIVE MovePR(_, _, _)
MovePR(r, t, k) ==
  IF t[k].last THEN [t EXCEPT ![k].prob = @ - r[t[k].l]]
  ELSE LET t1 == [t EXCEPT ![k].prob = t[t[k].r].prob]
       IN  MovePR(r, MovePR(r, t1, t[k].r), t[k].l)

\* findHoppingDestination(p), p = h/(2S): "p > node->probability" is h > 2*prob
RECURSIVE Descend(_, _, _)
Descend(t, k, h) ==
  IF t[k].last THEN (IF h > 2 * t[k].prob THEN t[k].l ELSE t[k].r)
  ELSE IF h > 2 * t[k].prob THEN Descend(t, t[k].l, h) ELSE Descend(t, t[k].r, h)
\* node = &htree.back()
FindIn(t, h) == Descend(t, Len(t), h)

\* exact measure: Find is constant on the open cells between consecutive thresholds
ThresholdsOf(t) == {t[k].prob : k \in 1..Len(t)}
PointsOf(t, S) == (ThresholdsOf(t) \cap 0..S) \cup {0, S}
CellsOf(t, S) == {c \in PointsOf(t, S) \X PointsOf(t, S) :
                    c[1] < c[2] /\ ~\E x \in PointsOf(t, S) : c[1] < x /\ x < c[2]}
RECURSIVE SumLen(_)
SumLen(C) == IF C = {} THEN 0
             ELSE LET c == CHOOSE x \in C : TRUE IN (c[2] - c[1]) + SumLen(C \ {c})
\* numerator (over S) of the length of Sel(i)
MeasureOf(t, S, i) == SumLen({c \in CellsOf(t, S) : FindIn(t, c[1] + c[2]) = i})
\* probes: every threshold (incl. p = 0 and p = 1) and every cell midpoint
ProbesOf(t, S) == {2 * x : x \in PointsOf(t, S)} \cup {c[1] + c[2] : c \in CellsOf(t, S)}

\* ------------------------------------------------------------------ one admissible tree
\* makeTree with ties broken by lowest index (ONE of the orders a heap may produce; all of
\* them are explored by Huffman.tla).  Returns htree before the two passes.
LowestMin(S, val(_)) == CHOOSE a \in S : \A b \in S : val(a) < val(b) \/ (val(a) = val(b) /\ a <= b)
RECURSIVE PairPhase(_, _, _)
PairPhase(r, eq, tree) ==
  IF Cardinality(eq) > 1
  THEN LET Val(x) == r[x]
           a == LowestMin(eq, Val)
           b == LowestMin(eq \ {a}, Val)
       IN  PairPhase(r, eq \ {a, b}, Append(tree, [last |-> TRUE, l |-> a, r |-> b, prob |-> r[a] + r[b]]))
  ELSE IF Cardinality(eq) = 1
  THEN LET e == CHOOSE x \in eq : TRUE
       IN  Append(tree, [last |-> TRUE, l |-> e, r |-> e, prob |-> r[e]])
  ELSE tree
RECURSIVE MergePhase(_, _)
MergePhase(tree, nq) ==
  IF Cardinality(nq) > 1
  THEN LET Val(x) == tree[x].prob
           h1 == LowestMin(nq, Val)
           h2 == LowestMin(nq \ {h1}, Val)
       IN  MergePhase(Append(tree, [last |-> FALSE, l |-> h1, r |-> h2,
                                    prob |-> tree[h1].prob + tree[h2].prob]),
                      (nq \ {h1, h2}) \cup {Len(tree) + 1})
  ELSE tree
\* the finished tree (thresholds as numerators over the normalisation used by makeTree)
BuildTree(r) ==
  LET leaves == PairPhase(r, 1..Len(r), <<>>)
      t      == MergePhase(leaves, 1..Len(leaves))
  IN  MovePR(r, AddP(t, Len(t), 0), Len(t))
=============================================================================
