--------------------------- MODULE DavidsonObject ---------------------------
(* C09, history layer: ONE DavidsonSolver object used for several solves.
   State: the object (DavidsonOps: option members, info(), num_iterations(), whose roots are
   stored) + what the last solve was given and how it ended.  One step = the setter calls that
   precede a solve (set_iter_max, set_tolerance always; set_size_update/set_correction on the
   first step only - they must persist; set_matrix_type when the matrix needs the other mode;
   set_max_search_space or NOT, then the member keeps what the previous solve left there) and
   Solve(matrix, neigen) with a nondeterministic outcome class.
   TLC: `info() describes the last solve', stored roots are those of the last solve or none,
   num_iterations() < the iter_max of the last solve, the option members are the ones set last
   (max_search_space_: the value adjusted by the last solve).  ResetOnSolve = FALSE is the code
   as found (MCObjectUnfixed.cfg: expected counterexample - Success, then a solve that throws:
   info() still says Success and the roots of the previous matrix are still there).
   Record = TRUE: the history is kept in h and printed at Depth (mode H export; Outcomes is then a
   singleton so that every history is printed once).                                      *)
EXTENDS DavidsonOps, Json

CONSTANTS ResetOnSolve,
          Matrices,      \* set of [id, N, mode]: the matrix alphabet (concrete matrices: engine)
          NeigenSet, IterMaxSet, TolSet, UpdSet, CorrSet, MssKinds, \* "keep" | "set" (4*neigen)
          Outcomes, Depth, Record, Emit

VARIABLES o, last, h

ovars == <<o, last, h>>

NoLast == [outcome |-> "none", itermax |-> 0, N |-> 0, neigen |-> 0, mss |-> 0]

OInit == o = FreshObject /\ last = NoLast /\ h = <<>>

\* setters of one step, applied in the order the driver issues them
Configure(ob, first, im, tol, upd, corr, mk, m, n) ==
  LET a == ApplySet(ApplySet(ob, "itermax", im), "tol", tol)
      b == IF first THEN ApplySet(ApplySet(a, "upd", upd), "corr", corr) ELSE a
      d == IF b.opt.mode # m.mode THEN ApplySet(b, "mode", m.mode) ELSE b
  IN IF mk = "set" THEN ApplySet(d, "mss", 4 * n) ELSE d

Step(im, tol, upd, corr, mk, m, n, outcome, it) ==
  LET first == o.nsolves = 0
      ob == Configure(o, first, im, tol, upd, corr, mk, m, n)
      cf == CfgFor(ob, m.N, n, 0)
  IN /\ o.nsolves < Depth
     /\ WellFormed(cf) /\ n <= m.N \div 4
     /\ (outcome = "NoConvergence" => it = im - 1)       \* only the last iteration gives up
     /\ it \in 0..(im - 1)
     /\ o' = AfterSolve(ob, cf, outcome, it, ResetOnSolve)
     /\ last' = [outcome |-> outcome, itermax |-> im, N |-> m.N, neigen |-> n, mss |-> EffMaxSpace(cf)]
     /\ h' = IF Record
             THEN Append(h, [itermax |-> im, tol |-> tol, upd |-> IF first THEN upd ELSE "keep",
                             corr |-> IF first THEN corr ELSE "keep", mk |-> mk, m |-> m.id, N |-> m.N,
                             mode |-> m.mode, neigen |-> n,
                             expmss |-> cf.mss, expmaxspace |-> EffMaxSpace(cf)])
             ELSE h

ONext ==
  \E im \in IterMaxSet, tol \in TolSet, upd \in UpdSet, corr \in CorrSet, mk \in MssKinds,
     m \in Matrices, n \in NeigenSet, outcome \in Outcomes :
    \E it \in {0, im - 1} :
      /\ (o.nsolves > 0 => upd = CHOOSE u \in UpdSet : TRUE)      \* upd/corr only chosen on the first step
      /\ (o.nsolves > 0 => corr = CHOOSE u \in CorrSet : TRUE)
      /\ Step(im, tol, upd, corr, mk, m, n, outcome, it)

OSpec == OInit /\ [][ONext]_ovars

----------------------------------------------------------------------------
Used == o.nsolves > 0
\* info() describes the LAST solve
InfoDescribesLast == Used => ((o.info = "Success") <=> (last.outcome = "Success"))
InfoIsSet == Used => o.info \in {"Success", "NoConvergence"}
\* eigenvalues()/eigenvectors(): those of the last solve, nothing after an exception - never stale
ResultsBelongToLast ==
  Used => IF last.outcome = "Exception" THEN o.resultsOf = 0 ELSE o.resultsOf = o.nsolves
\* num_iterations(): of the last solve, below ITS iteration limit
IterationsOfLast == Used => o.iters < last.itermax /\ o.opt.itermax = last.itermax
\* the limit member after a solve is the effective limit of that solve: at least neigen, at most N
LimitMember == Used => o.opt.mss = last.mss /\ o.opt.mss >= last.neigen /\ o.opt.mss <= last.N
TypeOKObj == o.nsolves \in 0..Depth /\ o.opt.itermax \in IterMaxSet \cup {50} /\ o.opt.mode \in {"SYMM", "HAM"}

History ==
  (Emit /\ Len(h) >= 2 /\ Len(h) = o.nsolves) => PrintT(ToJson([steps |-> h]))
=============================================================================
