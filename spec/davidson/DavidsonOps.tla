---------------------------- MODULE DavidsonOps ----------------------------
(* Pure operators shared by the two layers of the C09 model:
   - option handling of one call of DavidsonSolver::solve (used by Davidson.tla), and
   - the state a DavidsonSolver OBJECT carries from one solve to the next (used by
     DavidsonObject.tla and TraceDavidsonObj.tla).                                   *)
EXTENDS Integers, Sequences, FiniteSets, TLC

Min(a, b) == IF a < b THEN a ELSE b
Max(a, b) == IF a > b THEN a ELSE b

Upds == {"min", "safe", "max"}
Corrs == {"DPR", "OLSEN"}
Tols == {"loose", "normal", "strict", "lapack"}
Modes == {"SYMM", "HAM"}

\* getSizeUpdate:  static_cast<Index>(1.5 * neigen) = floor(3n/2)
SizeUpdate(upd, n) ==
  CASE upd = "min" -> n
    [] upd = "safe" -> IF n < 20 THEN (3 * n) \div 2 ELSE n + 10
    [] upd = "max" -> 2 * n

\* set_tolerance: tol_ = 10^-TolExp
TolExp(tol) ==
  CASE tol = "loose" -> 3 [] tol = "normal" -> 4 [] tol = "strict" -> 5 [] tol = "lapack" -> 9

\* solve(): if (max_search_space_ < neigen) max_search_space_ = 5*neigen;  checkOptions: clamp to N
RequestedMaxSpace(mss, n) == IF mss < n THEN 5 * n ELSE mss
Clamped(cf) == RequestedMaxSpace(cf.mss, cf.neigen) > cf.N
EffMaxSpace(cf) == IF Clamped(cf) THEN cf.N ELSE RequestedMaxSpace(cf.mss, cf.neigen)

InitialGuess(cf) == IF cf.sig = 0 THEN 2 * cf.neigen ELSE cf.sig

\* Domain in which solve() is defined: the start vectors exist (setupInitialEigenvectors indexes
\* idx(j), resp. idx(N/2 + j) in HAM mode, for j < size_initial_guess) and the first
\* size_update Ritz pairs exist (checkConvergence takes res_norm().head(size_update)).
WellFormed(cf) ==
  /\ cf.N >= 1 /\ cf.neigen >= 1 /\ cf.itermax >= 1 /\ cf.mss >= 0 /\ cf.sig >= 0
  /\ cf.upd \in Upds /\ cf.corr \in Corrs /\ cf.tol \in Tols /\ cf.mode \in Modes
  /\ IF cf.mode = "HAM" THEN cf.N % 2 = 0 /\ cf.N \div 2 + InitialGuess(cf) <= cf.N
                        ELSE InitialGuess(cf) <= cf.N
  /\ SizeUpdate(cf.upd, cf.neigen) <= InitialGuess(cf)

----------------------------------------------------------------------------
(* The object layer.  o = [opt: the option members, info: what info() returns, iters: what
   num_iterations() returns, resultsOf: number of the solve whose roots eigenvalues()/eigenvectors()
   hold (0 = none), nsolves].  Member defaults from davidsonsolver.h.                             *)
Defaults == [upd |-> "safe", corr |-> "DPR", tol |-> "normal", mss |-> 0, itermax |-> 50, mode |-> "SYMM"]
FreshObject == [opt |-> Defaults, info |-> "NoConvergence", iters |-> 0, resultsOf |-> 0, nsolves |-> 0]

\* set_size_update / set_correction / set_tolerance / set_max_search_space / set_iter_max / set_matrix_type
OptionNames == {"upd", "corr", "tol", "mss", "itermax", "mode"}
ApplySet(o, what, v) == [o EXCEPT !.opt = [@ EXCEPT ![what] = v]]

\* the call that solve(A, neigen, sig) amounts to on object o
CfgFor(o, N, n, sig) ==
  [N |-> N, neigen |-> n, upd |-> o.opt.upd, corr |-> o.opt.corr, tol |-> o.opt.tol,
   mss |-> o.opt.mss, itermax |-> o.opt.itermax, sig |-> sig, mode |-> o.opt.mode]

(* What a solve leaves in the object.  outcome in {"Success","NoConvergence","Exception"}, it =
   i_iter_ when solve() was left.  solve() and checkOptions OVERWRITE the member
   max_search_space_ (5*neigen default, clamp to N): the adjusted value is what the next solve
   starts from.  reset = TRUE: solve() starts from info_ = NoConvergence and empty results
   (pending_fixes/C09-davidson-reset-on-solve.patch); FALSE = code as found: an exception
   leaves info_ and the stored roots of the previous solve in place.                        *)
AfterSolve(o, cf, outcome, it, reset) ==
  LET k == o.nsolves + 1
      infoIn == IF reset THEN "NoConvergence" ELSE o.info
      resIn == IF reset THEN 0 ELSE o.resultsOf
  IN [opt |-> [o.opt EXCEPT !.mss = EffMaxSpace(cf)],
      info |-> IF outcome = "Exception" THEN infoIn ELSE outcome,
      iters |-> it,
      resultsOf |-> IF outcome = "Exception" THEN resIn ELSE k,
      nsolves |-> k]
=============================================================================
