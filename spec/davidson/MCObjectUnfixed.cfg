SPECIFICATION OSpec
CONSTANTS
  ResetOnSolve = FALSE
  Matrices <- MCMatrices
  NeigenSet = {1, 3}
  IterMaxSet = {1, 50}
  TolSet = {"loose", "lapack"}
  UpdSet = {"min", "max"}
  CorrSet = {"DPR", "OLSEN"}
  MssKinds = {"keep", "set"}
  Outcomes = {"Success", "NoConvergence", "Exception"}
  Depth = 3
  Record = FALSE
  Emit = FALSE
INVARIANTS InfoDescribesLast ResultsBelongToLast
CHECK_DEADLOCK FALSE
