SPECIFICATION TSpec
CONSTANTS
  CapExtension = TRUE
  ResSlack = 10
  NormTol = 1000
  OrthTol = 10000
  LowSlack = 10
  PromiseIterMax = 50
  PromiseFloorMax = 100
INVARIANTS Accepted
CONSTRAINT Progress
POSTCONDITION Report
CHECK_DEADLOCK FALSE
