SPECIFICATION MCSpec
CONSTANTS
  CapExtension = TRUE
  Sizes = {5, 8, 13, 24, 40, 60, 100, 150, 200, 300, 400}
  Neigens = {1, 2, 3, 5, 8, 13, 20, 30, 50}
  UpdSet = {"min", "safe", "max"}
  CorrSet = {"DPR", "OLSEN"}
  TolSet = {"loose", "normal", "strict", "lapack"}
  MssKinds = {"default", "below", "tight", "mid", "bse", "huge"}
  IterMaxs = {50, 3}
  SigKinds = {"default", "wide", "tight"}
  ModeSet = {"SYMM", "HAM"}
  Explore = FALSE
  Emit = TRUE
INVARIANTS Vector TypeOK RitzPairsAvailable
CHECK_DEADLOCK FALSE
