SPECIFICATION MCSpec
CONSTANTS
  CapExtension = FALSE
  Sizes = {5, 8, 13, 24}
  Neigens = {1, 2, 3, 5}
  UpdSet = {"min", "safe", "max"}
  CorrSet = {"DPR"}
  TolSet = {"normal"}
  MssKinds = {"default", "huge"}
  IterMaxs = {5}
  SigKinds = {"default"}
  ModeSet = {"SYMM"}
  Explore = TRUE
  Emit = FALSE
INVARIANTS SpaceFitsOperator
CHECK_DEADLOCK FALSE
