SPECIFICATION MCSpec
CONSTANTS
  CapExtension = TRUE
  Sizes = {5, 8, 12, 16, 24, 40, 60}
  Neigens = {1, 2, 3, 4, 6, 10, 15}
  UpdSet = {"min", "safe", "max"}
  CorrSet = {"DPR", "OLSEN"}
  TolSet = {"loose", "normal", "strict", "lapack"}
  MssKinds = {"default", "below", "tight", "mid", "bse", "huge"}
  IterMaxs = {50, 3}
  SigKinds = {"default", "wide", "tight"}
  ModeSet = {"SYMM", "HAM"}
  Explore = FALSE
  Emit = TRUE
INVARIANTS Vector TypeOK RitzPairsAvailable
CHECK_DEADLOCK FALSE
