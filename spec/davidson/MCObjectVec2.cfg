SPECIFICATION OSpec
CONSTANTS
  ResetOnSolve = TRUE
  Matrices <- MCMatrices
  NeigenSet = {1, 3}
  IterMaxSet = {1, 50}
  TolSet = {"loose", "lapack"}
  UpdSet = {"min", "max"}
  CorrSet = {"DPR", "OLSEN"}
  MssKinds = {"keep", "set"}
  Outcomes = {"Success"}
  Depth = 2
  Record = TRUE
  Emit = TRUE
INVARIANTS History
CHECK_DEADLOCK FALSE
