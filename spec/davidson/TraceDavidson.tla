--------------------------- MODULE TraceDavidson ---------------------------
(* Trace validation for C09.  harness/drivers/davidson.cc runs the REAL DavidsonSolver and
   turns the solver's own Logger lines into ndjson events

     begin (the call)   opts (what the solver printed about its options)
     iter* (iteration, search space, max residual, % converged)   end (status, final message,
     + observations computed independently of the solver with Eigen's dense solvers)

   The engine concatenates many solves into one file (IOEnv.TRACE); every begin record carries
   `endl`, the line of its end record.  Two things are decided here:

   1. PROPERTY PREDICATES (Failed): evaluated once per solve at constant level and printed as
      {"id":..,"failed":[names]}.  Only these make a VIOLATION.  They are exactly the clauses of
      the statement of C09; the numeric observations are integers in units of the selected
      tolerance (see the driver), the thresholds are the constants below.
   2. PROTOCOL CONFORMANCE (TSpec): the logged sequence must be a behaviour of the skeleton
      Davidson.tla.  One initial state per solve; a solve whose end line is reached prints
      {"acc":id}.  A solve that is not accepted is reported by the engine as SPEC-DRIFT
      (DESIGN 12.2), not as a violation.                                                   *)
EXTENDS Davidson, Json, IOUtils

CONSTANTS
  ResSlack,        \* residual may exceed tol by ResSlack/1000 (+ rounding floor floorq)
  NormTol,         \* | |v|-1 | * 1e12
  OrthTol,         \* max |v_i.v_j| * 1e12
  LowSlack,        \* |lambda_i - mu_i| may exceed kappa*sqrt(neigen)*tol by LowSlack/1000
  PromiseIterMax,  \* "within the iteration limit": the promise is read for iter_max >= this
  PromiseFloorMax  \* ... and for tolerances that are attainable in double precision: the rounding
                   \* floor 64*eps*|A|_F is at most PromiseFloorMax/1000 of the tolerance

VARIABLES l, sid

TrFile == ndJsonDeserialize(IOEnv.TRACE)
ASSUME TLCSet(2, TrFile)          \* parse once
Tr == TLCGet(2)

CfgOf(r) == [N |-> r.N, neigen |-> r.neigen, upd |-> r.upd, corr |-> r.corr, tol |-> r.tol,
             mss |-> r.mss, itermax |-> r.itermax, sig |-> r.sig, mode |-> r.mode]
BeginIdx(t) == {i \in 1..Len(t) : t[i].e = "begin"}

\* the solver prints 100*k/neigen with two decimals; pct is that number times 100
NconvOf(pct, n) == (pct * n + 5000) \div 10000
PctMatches(pct, k, n) == (pct * n - 10000 * k) \in (0 - n)..n

----------------------------------------------------------------------------
(* 1. property predicates *)

SuccessFamilies == {"dd", "ddweak", "ddsparse", "ddshared", "ddtie", "ddflat"}      \* SYMM: diagonally dominant
LowestFamiliesSymm == {"dd", "ddweak", "ddsparse", "ddshared", "ddtie", "ddflat"}
LowestFamiliesHam == {"bse"}             \* HAM: [[A,B],[-B,-A]], A diagonally dominant, A+-B positive definite

PromisedSuccess(B, E) ==
  /\ B.mode = "SYMM" /\ B.fam \in SuccessFamilies /\ E.famok = 1
  /\ B.itermax >= PromiseIterMax /\ E.floorq <= PromiseFloorMax
PromisedLowest(B, E) ==
  /\ E.famok = 1 /\ E.denseok = 1
  /\ \/ B.mode = "SYMM" /\ B.fam \in LowestFamiliesSymm
     \/ B.mode = "HAM" /\ B.fam \in LowestFamiliesHam

ResOK(E, i) == E.resq[i] <= 1000 + ResSlack + E.floorq
Idx(s) == 1..Len(s)

PredNames == {"status-known", "iteration-limit", "result-shape",
              "success-all-converged", "success-returns-neigen", "success-residual",
              "success-normalised", "success-orthogonal", "success-ascending", "success-no-exception",
              "noconv-returned-roots-converged",
              "info-describes-last-solve", "results-belong-to-last-solve",
              "promised-success", "promised-lowest"}

Holds(name, B, E, m, last) ==
  LET succ == E.status = "Success"
      n == B.neigen
      symm == B.mode = "SYMM"
  IN CASE name = "status-known" -> E.status \in {"Success", "NoConvergence"}
       [] name = "iteration-limit" ->
            m <= B.itermax /\ (m >= 1 => last.i = m - 1) /\ E.niterapi < B.itermax /\ E.niterapi >= 0
       [] name = "result-shape" -> E.shape = 1
       \* Success => all neigen roots converged at the final iteration (the solver's own report)
       [] name = "success-all-converged" -> succ => (m >= 1 /\ last.pct = 10000)
       [] name = "success-returns-neigen" -> succ => (E.nret = n /\ \A i \in Idx(E.zero) : E.zero[i] = 0)
       \* Success => every TRUE residual |A v - lambda v| below the selected tolerance
       [] name = "success-residual" -> succ => \A i \in Idx(E.resq) : ResOK(E, i)
       [] name = "success-normalised" -> succ => \A i \in Idx(E.normq) : E.normq[i] <= NormTol
       [] name = "success-orthogonal" -> (succ /\ symm) => E.orthq <= OrthTol
       [] name = "success-ascending" -> (succ /\ symm) => E.desc = 0
       [] name = "success-no-exception" -> succ => E.exc = ""
       \* not converged => no unconverged root is handed back as if converged: whatever is not
       \* zeroed passes the residual test and is normalised
       [] name = "noconv-returned-roots-converged" ->
            (~succ /\ E.shape = 1) =>
               \A i \in Idx(E.zero) : E.zero[i] = 0 => (ResOK(E, i) /\ E.normq[i] <= NormTol)
       \* info() and num_iterations() describe THIS solve (its own final log message), also on an
       \* object that has been used before: Success <=> "Davidson converged after k iterations."
       [] name = "info-describes-last-solve" ->
            /\ (succ <=> (E.msg = "converged" /\ E.exc = ""))
            /\ (E.msg # "none" => E.niterapi = E.msgiter)
       \* eigenvalues()/eigenvectors() are the ones of this solve: nothing after an exception
       [] name = "results-belong-to-last-solve" ->
            /\ (E.exc # "" => E.nret = 0)
            /\ (E.exc = "" => E.nret = n)
       \* only where the statement promises it
       [] name = "promised-success" -> PromisedSuccess(B, E) => succ
       [] name = "promised-lowest" ->
            (PromisedLowest(B, E) /\ succ) => \A i \in Idx(E.lowq) : E.lowq[i] <= 1000 + LowSlack

Failed(t, b) ==
  LET B == t[b]
      E == t[B.endl]
      m == B.endl - b - 2              \* begin, opts, m iteration lines, end
      last == t[B.endl - 1]
  IN {name \in PredNames : ~Holds(name, B, E, m, last)}

ASSUME LET t == TLCGet(2) IN
         \A b \in BeginIdx(t) : PrintT(ToJson([id |-> t[b].id, failed |-> Failed(t, b)]))

----------------------------------------------------------------------------
(* 2. protocol conformance *)

\* printed max residual of the first neigen roots: mantissa rm (three digits) and exponent rx,
\* tol = 10^-k.  Below tol <=> all converged; a print of exactly 1.00e-k admits both.
ResidualAgrees(r, k) ==
  LET e == TolExp(c.tol)
      zero == r.rm = 0
      below == zero \/ r.rx < 0 - e
      above == ~zero /\ (r.rx > 0 - e \/ (r.rx = 0 - e /\ r.rm > 100))
  IN /\ (below => k = c.neigen)
     /\ (above => k < c.neigen)

OptsOK(o) ==
  /\ o.tolx = 0 - TolExp(c.tol) /\ o.corr = c.corr /\ o.size = c.N
  /\ o.mssset = (IF Clamped(c) THEN c.N ELSE 0 - 1)

TInit ==
  \E b \in BeginIdx(Tr) :
    /\ sid = b /\ l = b + 1
    /\ InitWith(CfgOf(Tr[b]))

TOpts ==
  /\ l = sid + 1 /\ Tr[l].e = "opts"
  /\ OptsOK(Tr[l])
  /\ l' = l + 1 /\ UNCHANGED <<vars, sid>>

TIter ==
  /\ l > sid + 1 /\ l < Tr[sid].endl /\ Tr[l].e = "iter"
  /\ pc = "ritz"
  /\ Tr[l].i = iter /\ Tr[l].space = space
  /\ LET k == NconvOf(Tr[l].pct, c.neigen) IN
       /\ PctMatches(Tr[l].pct, k, c.neigen)
       /\ ResidualAgrees(Tr[l], k)
       /\ \E kx \in 0..(update - c.neigen) : Iterate(k, kx)
  /\ l' = l + 1 /\ UNCHANGED sid

TSilent ==      \* not logged: extension, restart decision
  /\ l > sid + 1 /\ l < Tr[sid].endl
  /\ (Extend \/ Restart \/ Continue)
  /\ UNCHANGED <<l, sid>>

TEnd ==
  /\ l = Tr[sid].endl /\ Tr[l].e = "end"
  /\ LET e == Tr[l] IN
       \/ /\ e.exc = "" /\ e.msg = "converged" /\ e.status = "Success"
          /\ e.msgiter = iter /\ e.niterapi = iter
          /\ Converged
       \/ /\ e.exc = "" /\ e.msg = "warning" /\ e.status = "NoConvergence"
          /\ e.msgiter = iter /\ e.niterapi = iter /\ PctMatches(e.msgpct, nconv, c.neigen)
          /\ LastIter
       \/ /\ e.exc # "" /\ e.msg = "none" /\ e.status = "NoConvergence"
          /\ Throw
  /\ l' = l + 1 /\ UNCHANGED sid

TNext == TOpts \/ TIter \/ TSilent \/ TEnd
TSpec == TInit /\ [][TNext]_<<vars, l, sid>>

Accepted == (pc = "done" /\ l = Tr[sid].endl + 1) => PrintT(ToJson([acc |-> Tr[sid].id]))

\* progress of a single-solve trace (used to locate a rejection): highest line reached
ASSUME TLCSet(1, 0)
Progress == TLCSet(1, IF l > TLCGet(1) THEN l ELSE TLCGet(1))
Report == PrintT(<<"maxl", TLCGet(1), Len(Tr)>>)
=============================================================================
