SPECIFICATION MCSpec
CONSTANTS
  CapExtension = TRUE
  Sizes = {4, 5, 8, 13, 24, 40}
  Neigens = {1, 2, 3, 5, 10}
  UpdSet = {"min", "safe", "max"}
  CorrSet = {"DPR"}
  TolSet = {"normal"}
  MssKinds = {"default", "below", "tight", "mid", "bse", "huge"}
  IterMaxs = {1, 2, 4}
  SigKinds = {"default", "wide", "tight"}
  ModeSet = {"SYMM", "HAM"}
  Explore = TRUE
  Emit = FALSE
INVARIANTS TypeOK SpaceBound SpaceWhenSolving SpaceWithinLimit SpaceFitsOperator RitzPairsAvailable IterBound
  SuccessMeansAllConverged NotSuccessIsReported DoneHasStatus ExtensionMakesProgress
PROPERTIES RestartRule ExtendRule IterationsCount Termination
CHECK_DEADLOCK FALSE
