----------------------------- MODULE MCDavidson -----------------------------
(* Model-checking wrapper of Davidson.tla: the option domain of property C09.
   Explore = TRUE : TLC explores every behaviour of the skeleton for every option vector
                    (invariants, action properties, termination).
   Explore = FALSE: mode L - one initial state per option vector, printed as JSON (Emit);
                    the engine (harness/python/engines/c09.py) runs the real solver on them. *)
EXTENDS Davidson, Json

CONSTANTS Sizes, Neigens, UpdSet, CorrSet, TolSet, MssKinds, IterMaxs, SigKinds, ModeSet, Explore, Emit

VARIABLE tag     \* how mss/sig were chosen (ghost, for stratified sampling by the engine)

MssOf(kind, n, upd, N) ==
  CASE kind = "default" -> 0                          \* -> 5*neigen
    [] kind = "below" -> n                            \* accepted as it is, below the restart size
    [] kind = "tight" -> 2 * n + SizeUpdate(upd, n)   \* room for exactly one extension after a restart
    [] kind = "mid" -> 4 * n
    [] kind = "bse" -> 10 * n                         \* what BSE::solve_hermitian passes
    [] kind = "huge" -> N + 7                         \* clamped to N by checkOptions
SigOf(kind, n) == CASE kind = "default" -> 0 [] kind = "wide" -> 3 * n [] kind = "tight" -> n   \* solve(A, neigen, neigen)

\* quantifier of the property: neigen from 1 to size/4
InDomain(cf) == WellFormed(cf) /\ cf.neigen <= cf.N \div 4

MCInit ==
  \E N \in Sizes, n \in Neigens, upd \in UpdSet, corr \in CorrSet, tol \in TolSet,
     mk \in MssKinds, im \in IterMaxs, sk \in SigKinds, mode \in ModeSet :
    LET cf == [N |-> N, neigen |-> n, upd |-> upd, corr |-> corr, tol |-> tol,
               mss |-> MssOf(mk, n, upd, N), itermax |-> im, sig |-> SigOf(sk, n), mode |-> mode]
    IN /\ InDomain(cf)
       /\ InitWith(cf)
       /\ tag = [mk |-> mk, sk |-> sk]

MCNext == IF Explore THEN Next /\ UNCHANGED tag ELSE UNCHANGED <<vars, tag>>
MCSpec == MCInit /\ [][MCNext]_<<vars, tag>> /\ WF_<<vars, tag>>(MCNext)

Vector ==
  (Emit /\ pc = "ritz" /\ iter = 0) =>
     PrintT(ToJson([N |-> c.N, neigen |-> c.neigen, upd |-> c.upd, corr |-> c.corr, tol |-> c.tol,
                    mss |-> c.mss, itermax |-> c.itermax, sig |-> c.sig, mode |-> c.mode,
                    mk |-> tag.mk, sk |-> tag.sk,
                    update |-> update, restart |-> restartSize, maxspace |-> maxSpace,
                    tolexp |-> TolExp(c.tol), clamped |-> Clamped(c)]))
=============================================================================
