------------------------------ MODULE Davidson ------------------------------
(* C09 - control skeleton of votca::xtp::DavidsonSolver::solve
   (xtp/include/votca/xtp/davidsonsolver.h, xtp/src/libxtp/davidsonsolver.cc).

   What is modelled: the sizes and decisions of one call of solve(A, neigen, size_initial_guess)
   - option handling: max_search_space (default 5*neigen when smaller than neigen, clamped to the
     operator size by checkOptions), size_initial_guess (default 2*neigen) = restart size,
     size_update for min/safe/max (getSizeUpdate), the four tolerances, iter_max;
   - per iteration: the residual test (checkConvergence) has a NONDETERMINISTIC outcome - how
     many of the first neigen roots (nconv) and of the remaining size_update-neigen roots
     (nconvx) have residual norm < tol;  all neigen converged -> Success; last iteration ->
     NoConvergence; otherwise the search space is extended by one correction vector per
     unconverged root among the first size_update roots (extendProjection), and collapsed to
     restart size + new vectors when it exceeds max_search_space (restart);
   - an exception may leave solve() (Gram-Schmidt "Linear dependencies", failed small
     eigenproblem): status Exception, info() keeps its initial value NoConvergence.
   What is NOT modelled: the numbers (Ritz values, residuals, vectors).  They are observed on
   the real solver and judged in TraceDavidson.tla.

   CapExtension = TRUE models extendProjection with the repair of pending_fixes/
   C09-davidson-space-cap.patch (at most N - space vectors are added); FALSE is the code as
   found: the search space can then exceed the operator size N (invariant SpaceFitsOperator
   fails, MCDavidsonUnfixed.cfg), i.e. V gets more columns than rows and cannot be orthonormal. *)
EXTENDS DavidsonOps

CONSTANT CapExtension

VARIABLES
  c,            \* the call: [N, neigen, upd, corr, tol, mss, itermax, sig, mode]
  pc,           \* "ritz" (about to solve the projected problem and test residuals),
                \* "decide", "extended", "done"
  iter,         \* i_iter_
  space,        \* proj.search_space() = V.cols()
  nconv,        \* converged among the first neigen roots   (proj.root_converged.head(neigen))
  nconvx,       \* converged among roots neigen..size_update-1
  nupdate,      \* vectors added by the last extendProjection
  update,       \* proj.size_update
  restartSize,  \* restart_size_
  maxSpace,     \* max_search_space_ after solve()'s adjustment and checkOptions
  status,       \* "Running", "Success", "NoConvergence", "Exception"
  restarts      \* number of restarts so far (ghost)

vars == <<c, pc, iter, space, nconv, nconvx, nupdate, update, restartSize, maxSpace, status, restarts>>

InitWith(cf) ==
  /\ c = cf
  /\ pc = "ritz" /\ iter = 0 /\ status = "Running" /\ restarts = 0
  /\ space = InitialGuess(cf) /\ restartSize = InitialGuess(cf)
  /\ update = SizeUpdate(cf.upd, cf.neigen)
  /\ maxSpace = EffMaxSpace(cf)
  /\ nconv = 0 /\ nconvx = 0 /\ nupdate = 0

----------------------------------------------------------------------------
(* updateProjection + getRitzEigenPairs + checkConvergence + printIterationData: the outcome
   of the residual test.  With the full space (space = N) the Ritz pairs are exact.        *)
Iterate(k, kx) ==
  /\ pc = "ritz"
  /\ k \in 0..c.neigen /\ kx \in 0..(update - c.neigen)
  /\ (space >= c.N => k = c.neigen /\ kx = update - c.neigen)
  /\ nconv' = k /\ nconvx' = kx
  /\ pc' = "decide"
  /\ UNCHANGED <<c, iter, space, nupdate, update, restartSize, maxSpace, status, restarts>>

AllConverged == nconv = c.neigen
LastIteration == iter = c.itermax - 1

Converged ==            \* storeConvergedData
  /\ pc = "decide" /\ AllConverged
  /\ status' = "Success" /\ pc' = "done"
  /\ UNCHANGED <<c, iter, space, nconv, nconvx, nupdate, update, restartSize, maxSpace, restarts>>

LastIter ==             \* storeNotConvergedData
  /\ pc = "decide" /\ ~AllConverged /\ LastIteration
  /\ status' = "NoConvergence" /\ pc' = "done"
  /\ UNCHANGED <<c, iter, space, nconv, nconvx, nupdate, update, restartSize, maxSpace, restarts>>

Unconverged == update - nconv - nconvx          \* (proj.root_converged == false).count()
NextUpdate == IF CapExtension THEN Min(Unconverged, c.N - space) ELSE Unconverged

Extend ==               \* extendProjection
  /\ pc = "decide" /\ ~AllConverged /\ ~LastIteration
  /\ nupdate' = NextUpdate
  /\ space' = space + NextUpdate
  /\ pc' = "extended"
  /\ UNCHANGED <<c, iter, nconv, nconvx, update, restartSize, maxSpace, status, restarts>>

Restart ==              \* do_restart = search_space() > max_search_space_ ; restart()
  /\ pc = "extended" /\ space > maxSpace
  /\ space' = restartSize + nupdate
  /\ restarts' = restarts + 1
  /\ iter' = iter + 1 /\ pc' = "ritz"
  /\ UNCHANGED <<c, nconv, nconvx, nupdate, update, restartSize, maxSpace, status>>

Continue ==
  /\ pc = "extended" /\ space <= maxSpace
  /\ iter' = iter + 1 /\ pc' = "ritz"
  /\ UNCHANGED <<c, space, nconv, nconvx, nupdate, update, restartSize, maxSpace, status, restarts>>

(* A numerical failure throws out of solve(): in extendProjection (Gram-Schmidt) or in the
   projected eigenproblem of the next iteration.  info_ is untouched (NoConvergence).        *)
Throw ==
  /\ \/ pc = "decide" /\ ~AllConverged /\ ~LastIteration
     \/ pc = "ritz"
  /\ status' = "Exception" /\ pc' = "done"
  /\ UNCHANGED <<c, iter, space, nconv, nconvx, nupdate, update, restartSize, maxSpace, restarts>>

Next ==
  \/ \E k \in 0..c.neigen, kx \in 0..(update - c.neigen) : Iterate(k, kx)
  \/ Converged \/ LastIter \/ Extend \/ Restart \/ Continue \/ Throw

Fairness == WF_vars(Next)

----------------------------------------------------------------------------
(* Properties of the skeleton (checked by TLC over the option domain of MCDavidson*.cfg) *)

TypeOK ==
  /\ pc \in {"ritz", "decide", "extended", "done"}
  /\ status \in {"Running", "Success", "NoConvergence", "Exception"}
  /\ iter \in 0..(c.itermax - 1)
  /\ nconv \in 0..c.neigen /\ nconvx \in 0..(update - c.neigen)
  /\ space >= restartSize /\ nupdate >= 0 /\ restarts >= 0

\* the search space never exceeds its bound: whenever the projected problem is solved it is
\* within max(limit, restart size + update) - the second term matters when the limit is set
\* below restart size + update, then every iteration restarts -, and transiently (between
\* extension and restart check) at most one update above that
SpaceWhenSolving == pc \in {"ritz", "decide"} => space <= Max(maxSpace, restartSize + update)
SpaceBound == space <= Max(maxSpace, restartSize + update) + update
\* with a limit that leaves room for one restart (the sensible setting) the limit itself holds
SpaceWithinLimit ==
  (maxSpace >= restartSize + update /\ pc \in {"ritz", "decide"}) => space <= maxSpace
\* a basis of more vectors than the operator has rows cannot be orthonormal
SpaceFitsOperator == space <= c.N
\* the pairs used by checkConvergence (head(size_update)) and restart (leftCols(restart_size))
\* exist: getRitz keeps min(space, max(restart_size, size_update)) pairs
NeededPairs == Min(space, Max(restartSize, update))
RitzPairsAvailable == pc \in {"ritz", "decide"} => update <= NeededPairs /\ restartSize <= NeededPairs

IterBound == iter < c.itermax
SuccessMeansAllConverged == status = "Success" => pc = "done" /\ nconv = c.neigen
NotSuccessIsReported ==
  (pc = "done" /\ status # "Success") =>
     \/ status = "NoConvergence" /\ nconv < c.neigen /\ iter = c.itermax - 1
     \/ status = "Exception"
DoneHasStatus == (pc = "done") <=> (status # "Running")
ExtensionMakesProgress == pc = "extended" => nupdate >= 1

\* restart brings the space to restart size + the vectors just added; otherwise it is kept
RestartRule ==
  [][pc = "extended" =>
       /\ (space > maxSpace => space' = restartSize + nupdate /\ restarts' = restarts + 1)
       /\ (space <= maxSpace => space' = space /\ restarts' = restarts)]_vars
\* the space only grows by the number of unconverged roots
ExtendRule ==
  [][(pc = "decide" /\ pc' = "extended") =>
        space' - space = nupdate' /\ nupdate' <= update - nconv - nconvx /\ nupdate' >= 1]_vars
IterationsCount == [][iter' \in {iter, iter + 1}]_vars

Termination == <>(pc = "done")
=============================================================================
