SPECIFICATION OSpec
CONSTANTS
  ResetOnSolve = TRUE
  Matrices <- MCMatrices
  NeigenSet = {1, 3}
  IterMaxSet = {1, 50}
  TolSet = {"loose", "lapack"}
  UpdSet = {"min", "max"}
  CorrSet = {"DPR", "OLSEN"}
  MssKinds = {"keep", "set"}
  Outcomes = {"Success", "NoConvergence", "Exception"}
  Depth = 3
  Record = FALSE
  Emit = FALSE
INVARIANTS TypeOKObj InfoDescribesLast InfoIsSet ResultsBelongToLast IterationsOfLast LimitMember
CHECK_DEADLOCK FALSE
