-------------------------- MODULE TraceDavidsonObj --------------------------
(* Trace validation of HISTORIES on one DavidsonSolver object (C09 history layer).
   Trace: {"e":"obj","id":H,"endl":L}  then, repeated,  {"e":"set","what":..,"v":..}*  and one solve
   (begin, opts, iter*, end as in TraceDavidson.tla; the begin record echoes the option values the
   harness has set).  The property predicates are the per-solve ones of TraceDavidson.tla (printed by
   its ASSUME for every begin record, history or not) - they include `info() describes the last
   solve' and `results belong to the last solve'.
   The walk below is the conformance link to DavidsonObject.tla/DavidsonOps.tla: the object state o
   is carried through the history with ApplySet/CfgFor/AfterSolve; every solve is walked with the
   skeleton of Davidson.tla started from CfgFor(o,..) - in particular with the max_search_space_ the
   PREVIOUS solve left in the object (visible in the log: "Max search space set to", restart
   points) - and at the end event status/num_iterations()/number of stored roots must be the
   object state AfterSolve(..).  A history that is not accepted is SPEC-DRIFT, not a violation.   *)
EXTENDS TraceDavidson

CONSTANT ResetOnSolve
VARIABLES o, hid

hvars == <<vars, l, sid, o, hid>>
ObjIdx(t) == {i \in 1..Len(t) : t[i].e = "obj"}
Idle == [N |-> 0, neigen |-> 0, upd |-> "safe", corr |-> "DPR", tol |-> "normal", mss |-> 0,
         itermax |-> 0, sig |-> 0, mode |-> "SYMM"]

THInit ==
  \E b \in ObjIdx(Tr) :
    /\ hid = b /\ sid = b /\ l = b + 1 /\ o = FreshObject
    /\ c = Idle /\ pc = "done" /\ iter = 0 /\ status = "Running" /\ restarts = 0
    /\ space = 0 /\ restartSize = 0 /\ update = 0 /\ maxSpace = 0
    /\ nconv = 0 /\ nconvx = 0 /\ nupdate = 0

Between == pc = "done" /\ l <= Tr[hid].endl

THSet ==
  /\ Between /\ Tr[l].e = "set" /\ Tr[l].what \in OptionNames
  /\ o' = ApplySet(o, Tr[l].what, Tr[l].v)
  /\ l' = l + 1 /\ UNCHANGED <<vars, sid, hid>>

THBegin ==
  /\ Between /\ Tr[l].e = "begin"
  /\ LET b == Tr[l]
         cf == CfgFor(o, b.N, b.neigen, b.sig)
     IN /\ b.upd = cf.upd /\ b.corr = cf.corr /\ b.tol = cf.tol /\ b.itermax = cf.itermax /\ b.mode = cf.mode
        /\ WellFormed(cf)
        /\ c' = cf /\ pc' = "ritz" /\ iter' = 0 /\ status' = "Running" /\ restarts' = 0
        /\ space' = InitialGuess(cf) /\ restartSize' = InitialGuess(cf)
        /\ update' = SizeUpdate(cf.upd, cf.neigen)
        /\ maxSpace' = EffMaxSpace(cf)          \* from the member the previous solve left behind
        /\ nconv' = 0 /\ nconvx' = 0 /\ nupdate' = 0
  /\ sid' = l /\ l' = l + 1 /\ UNCHANGED <<o, hid>>

THInside == (TOpts \/ TIter \/ TSilent) /\ pc # "done" /\ UNCHANGED <<o, hid>>

THEnd ==
  /\ pc # "done" /\ TEnd
  /\ o' = AfterSolve(o, c, status', iter, ResetOnSolve)
  /\ LET e == Tr[l] IN
       /\ e.status = o'.info
       /\ e.niterapi = o'.iters
       /\ e.nret = (IF o'.resultsOf = o'.nsolves THEN c.neigen ELSE IF o'.resultsOf = 0 THEN 0 ELSE e.nret)
  /\ UNCHANGED hid

THNext == THSet \/ THBegin \/ THInside \/ THEnd
THSpec == THInit /\ [][THNext]_hvars

AcceptedHistory == (pc = "done" /\ l = Tr[hid].endl + 1) => PrintT(ToJson([hacc |-> Tr[hid].id]))
=============================================================================
