------------------------------ MODULE MCObject ------------------------------
EXTENDS DavidsonObject
\* the matrix alphabet; harness/python/engines/c09.py maps the ids to generated matrices
\* (ddS/ddL: diagonally dominant, blk: block-decoupled = exception prone, rnd: random symmetric =
\* rarely converging, bse: BSE form for HAM mode)
MCMatrices == {[id |-> "ddS", N |-> 12, mode |-> "SYMM"], [id |-> "ddL", N |-> 40, mode |-> "SYMM"],
               [id |-> "blk", N |-> 12, mode |-> "SYMM"], [id |-> "rnd", N |-> 24, mode |-> "SYMM"],
               [id |-> "bse", N |-> 24, mode |-> "HAM"]}
=============================================================================
