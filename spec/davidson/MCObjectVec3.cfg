SPECIFICATION OSpec
CONSTANTS
  ResetOnSolve = TRUE
  Matrices <- MCMatrices
  NeigenSet = {3}
  IterMaxSet = {1, 50}
  TolSet = {"lapack"}
  UpdSet = {"max"}
  CorrSet = {"DPR", "OLSEN"}
  MssKinds = {"keep"}
  Outcomes = {"Success"}
  Depth = 3
  Record = TRUE
  Emit = TRUE
INVARIANTS History
CHECK_DEADLOCK FALSE
