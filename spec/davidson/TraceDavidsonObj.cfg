SPECIFICATION THSpec
CONSTANTS
  CapExtension = TRUE
  ResetOnSolve = TRUE
  ResSlack = 10
  NormTol = 1000
  OrthTol = 10000
  LowSlack = 10
  PromiseIterMax = 50
  PromiseFloorMax = 100
INVARIANTS AcceptedHistory
CONSTRAINT Progress
POSTCONDITION Report
CHECK_DEADLOCK FALSE
