------------------------------- MODULE StatImc -------------------------------
(* Property C04, mode H: history specification of the class Imc (csg/src/tools/csg_stat_imc.cc/.h)
   as driven by csg_stat, together with the *stated* contents of every file it writes.

   One behaviour = one csg_stat run:  BeginEvaluate, then for every selected frame
   MergeFrame [-> WriteBlock -> ClearAverages when nframes % block = 0], finally EndEvaluate.
   EndEvaluate is enabled after every merge, so the prefixes of a trajectory (--nframes 1,2,3,...)
   are all behaviours: every intermediate state of the merge state machine is observable in files.

   State (mirrors Imc):  nfr = nframes_, nblk = nblock_, per interaction the frame sum sumS (the
   model keeps sums; avgN/avgD is the running mean updated the way the code does it, and the
   invariant RunningMean ties the two), per IMC group the sum of outer products sumSS (upper
   blocks only, like group_t::corr_) with its running mean corN/corD, the volume sum sumV over nV
   frames with running mean avgVN/avgVD (tools::Average), and `files`, everything written so far.

   File contents are exact: a value is a sequence of terms [n, d, p] meaning
   prod(n)/prod(d) * pi^p, summed.  All factors stay below 2^31.
     g_k   = (sumV/nV) * norm * (sumS_k/n) * 3 / (4 pi (x2^3 - x1^3)),  0 if x1 < 0
     p_k   = sumS_k / (sum_k sumS_k * step)        (bonded and three-body; 0 if nothing was counted)
     gmc   = -(sumSS_ij/n - sumS_i sumS_j/n^2), lower blocks mirrored
     dS_k  = sumS_k/n - tgt_k * 4 pi (x2^3 - x1^3) / (3 (sumV/nV) norm),  x1 = x2 = 0 if x1 < 0
   ClearVol = TRUE is the design (block output restarts *all* averages); ClearVol = FALSE models
   the shipped ClearAverages(), which leaves avg_vol_ running (used by MCStatBug to show that TLC
   finds the block-independence violation).                                                   *)
EXTENDS Integers, Sequences, FiniteSets, CArith, Lattice3, FrameHist, Scenarios, TLC, Json

CONSTANTS Kinds, Seeds, Blocks, Firsts, AltExtFirsts, ClearVol, Emit

VARIABLES sc,      \* the scenario (never changes)
          dv,      \* derived constants of the scenario: topology, per-frame histograms, volumes, norms
          opt,     \* [block, first, ext]  run options --block-length, --first-frame, --ext
          pc, fi, nproc, nfr, nblk,
          sumS, avgN, avgD, sumSS, corN, corD, sumV, nV, avgVN, avgVD,
          files, lastw, bstart
vars == <<sc, dv, opt, pc, fi, nproc, nfr, nblk, sumS, avgN, avgD, sumSS, corN, corD, sumV, nV, avgVN, avgVD,
          files, lastw, bstart>>

NI == Len(sc.inter)
Zeros(n) == [k \in 1..n |-> 0]
ZeroM(n) == [i \in 1..n |-> Zeros(n)]
SumSeq(s) == SumRange(s, 1, Len(s))

\* ---- IMC groups (std::map order is irrelevant: one set of files per group) -----------------------
\* static structure, computed once per scenario (Derive) and looked up through dv.grp
GroupNamesOf(s) == IF s.doimc THEN {s.inter[x].group : x \in 1..Len(s.inter)} \ {"none"} ELSE {}
GroupInfo(s, g) ==
  LET mem == SelectSeq([x \in 1..Len(s.inter) |-> x], LAMBDA x : s.inter[x].group = g)
      off == [a \in 1..Len(mem) |-> SumRange([b \in 1..Len(mem) |-> s.inter[mem[b]].n], 1, a - 1)]
      dim == SumRange([b \in 1..Len(mem) |-> s.inter[mem[b]].n], 1, Len(mem))
  IN [mem |-> mem, off |-> off, dim |-> dim,
      bof |-> [I \in 1..dim |-> CHOOSE a \in 1..Len(mem) : off[a] < I /\ I <= off[a] + s.inter[mem[a]].n]]
GroupNames == DOMAIN dv.grp
Members(g) == dv.grp[g].mem
Dim(g) == dv.grp[g].dim
Off(g, a) == dv.grp[g].off[a]                   \* offset of member a in the group vector
BlockOf(g, I) == dv.grp[g].bof[I]               \* member (position in the group) owning index I
\* the concatenated vector of a per-interaction family of histograms
Concat(g, H) == [I \in 1..Dim(g) |-> LET a == BlockOf(g, I) IN H[Members(g)[a]][I - Off(g, a)]]

\* ---- BeginEvaluate: pair normalisation -----------------------------------------------------------
\* norm = NormN / (N1 N2)
Derive(s) ==
  LET top == Beads(s.mols)
      ias == Instances(top, s.bonded)
      fd == [f \in 1..Len(s.frames) |-> FrameData(s, top, ias, f)]
  IN [top |-> top, ias |-> ias,
      grp |-> [g \in GroupNamesOf(s) |-> GroupInfo(s, g)],
      fh |-> [f \in 1..Len(s.frames) |-> fd[f].h],
      vol |-> [f \in 1..Len(s.frames) |-> s.frames[f].box[1] * s.frames[f].box[2] * s.frames[f].box[3]],
      n1 |-> [x \in 1..Len(s.inter) |-> IF s.inter[x].kind = "nb" THEN Cardinality(TypeSet(top, s.inter[x], 1)) ELSE 1],
      n2 |-> [x \in 1..Len(s.inter) |-> IF s.inter[x].kind = "nb" THEN Cardinality(TypeSet(top, s.inter[x], 2)) ELSE 1],
      nn |-> [x \in 1..Len(s.inter) |-> IF s.inter[x].kind = "nb" /\ s.inter[x].t[1] = s.inter[x].t[2] THEN 2 ELSE 1],
      ok |-> \A f \in 1..Len(s.frames) : fd[f].ok,
      tie |-> \E f \in 1..Len(s.frames) : fd[f].tie,
      win |-> \A f \in 1..Len(s.frames) : fd[f].win,
      skew |-> \A f \in 1..Len(s.frames) : fd[f].skew,
      dih |-> \A f \in 1..Len(s.frames) : fd[f].dih,
      desc |-> \A f \in 1..Len(s.frames) : fd[f].desc,
      outer |-> [f \in 1..Len(s.frames) |-> fd[f].outer],
      \* a distance exactly on a bin edge of a decimal layout (must not happen: rounding could go either way)
      dectie |-> \E f \in 1..Len(s.frames) : fd[f].dectie]

\* ---- exact values --------------------------------------------------------------------------------
Term(n, d, p) == [n |-> n, d |-> d, p |-> p]
ZeroVal == <<>>
\* x-coordinate (bin centre) in q
CentreQ(it, k) == it.mq + (k - 1) * it.sq
\* 8 den^3 (x2^3 - x1^3) with x in u (E2 = 2 den x), as two factors (b - a)(b^2 + ab + a^2) below 2^31
ShellF(it, k) == LET a == E2(it, k - 1) b == E2(it, k) IN <<b - a, b * b + a * b + a * a>>
Den3(it) == <<8, it.den, it.den, it.den>>
NegEdge(it, k) == E2(it, k - 1) < 0
\* volume average as a reduced fraction
VBar(sv, nv) == LET g == Gcd(sv, nv) IN <<sv \div g, nv \div g>>

DistRows(x, S, n, sv, nv) ==
  LET it == sc.inter[x]
      tot == SumSeq(S)
  IN [k \in 1..it.n |->
        IF it.kind = "nb"
        THEN IF NegEdge(it, k) \/ S[k] = 0 THEN ZeroVal
             ELSE <<Term(<<VBar(sv, nv)[1], dv.nn[x], S[k], 3>> \o Den3(it),
                         <<VBar(sv, nv)[2], dv.n1[x], dv.n2[x], n, 4>> \o ShellF(it, k), -1)>>
        ELSE IF tot = 0 \/ S[k] = 0 THEN ZeroVal
             ELSE <<Term(<<8, it.den, S[k]>>, <<tot, it.sq>>, 0)>>]        \* step = sq / (8 den)
\* x column: centre in q, and the number of q per nm (or per rad)
Xs(x) == [k \in 1..sc.inter[x].n |-> CentreQ(sc.inter[x], k)]
Xd(x) == [k \in 1..sc.inter[x].n |-> 8 * sc.inter[x].den]

DeltaSRows(x, S, n, sv, nv) ==
  LET it == sc.inter[x]
  IN [k \in 1..it.n |->
        (IF S[k] = 0 THEN <<>> ELSE <<Term(<<S[k]>>, <<n>>, 0)>>) \o
        (IF NegEdge(it, k) \/ it.tgt[k] = 0 THEN <<>>
         ELSE <<Term(<<-1, it.tgt[k], 4, VBar(sv, nv)[2], dv.n1[x], dv.n2[x]>> \o ShellF(it, k),
                     <<8, 3, VBar(sv, nv)[1], dv.nn[x]>> \o Den3(it), 1)>>)]

\* numerators of gmc (denominator n^2): upper blocks from the accumulated products, lower mirrored
GmcNum(g, S, SS, n) ==
  LET v == Concat(g, S)
      G(I, J) == v[I] * v[J] - n * SS[I][J]
  IN [I \in 1..Dim(g) |-> [J \in 1..Dim(g) |-> IF BlockOf(g, I) <= BlockOf(g, J) THEN G(I, J) ELSE G(J, I)]]

\* --ext replaces the default extension "dist.new" of the distribution (and block) files
Suffix(b) == IF b = 0 THEN "." \o opt.ext ELSE "_" \o ToString(b) \o "." \o opt.ext
ImcStem(g, b) == IF b = 0 THEN g ELSE g \o Suffix(b)

DistFile(x, b, S, n, sv, nv) ==
  [name |-> sc.inter[x].name \o Suffix(b), kind |-> "dist", ik |-> sc.inter[x].kind, blk |-> b,
   x |-> Xs(x), xd |-> Xd(x), y |-> DistRows(x, S, n, sv, nv)]
ImcFiles(g, b, S, SS, n, sv, nv) ==
  LET m == Members(g) IN
  <<[name |-> ImcStem(g, b) \o ".imc", kind |-> "imc", ik |-> "nb", blk |-> b,
     x |-> Concat(g, [x \in 1..NI |-> Xs(x)]), xd |-> Concat(g, [x \in 1..NI |-> Xd(x)]),
     \* dS of a bonded member is not defined by the statement: those rows are not compared (cmp = FALSE)
     cmp |-> Concat(g, [x \in 1..NI |-> [k \in 1..sc.inter[x].n |-> sc.inter[x].kind = "nb"]]),
     y |-> Concat(g, [x \in 1..NI |-> IF sc.inter[x].group = g /\ sc.inter[x].kind = "nb"
                                       THEN DeltaSRows(x, S[x], n, sv, nv) ELSE [k \in 1..sc.inter[x].n |-> <<>>]])],
    [name |-> ImcStem(g, b) \o ".gmc", kind |-> "gmc", ik |-> "nb", blk |-> b, num |-> GmcNum(g, S, SS[g], n), den |-> <<n, n>>],
    [name |-> ImcStem(g, b) \o ".idx", kind |-> "idx", ik |-> "nb", blk |-> b,
     rows |-> [a \in 1..Len(m) |-> [name |-> sc.inter[m[a]].name, lo |-> Off(g, a) + 1, hi |-> Off(g, a) + sc.inter[m[a]].n]]]>>
\* WriteIMCBlock: the averaged histogram (.S) and the raw correlation (.cor); the lower blocks of
\* .cor are not specified by the property (the code leaves them zero): entry (I,J) is compared iff blockof[I] <= blockof[J]
BlockRawFiles(g, b, S, SS, n) ==
  <<[name |-> ImcStem(g, b) \o ".S", kind |-> "S", ik |-> "nb", blk |-> b, x |-> Concat(g, [x \in 1..NI |-> Xs(x)]),
     xd |-> Concat(g, [x \in 1..NI |-> Xd(x)]),
     num |-> Concat(g, S), den |-> <<n>>],
    [name |-> ImcStem(g, b) \o ".cor", kind |-> "cor", ik |-> "nb", blk |-> b, num |-> SS[g], den |-> <<n>>,
     blockof |-> [I \in 1..Dim(g) |-> BlockOf(g, I)]]>>

RECURSIVE SetToSeq(_)
SetToSeq(S) == IF S = {} THEN <<>> ELSE LET m == CHOOSE m \in S : TRUE IN <<m>> \o SetToSeq(S \ {m})
RECURSIVE FlattenSeq(_)
FlattenSeq(ss) == IF ss = <<>> THEN <<>> ELSE Head(ss) \o FlattenSeq(Tail(ss))
GroupSeq == SetToSeq(GroupNames)

\* everything one WriteDist (+ WriteIMCData [+ WriteIMCBlock]) call writes, as a function of the sums
Written(b, S, SS, n, sv, nv) ==
  [x \in 1..NI |-> DistFile(x, b, S[x], n, sv, nv)]
  \o FlattenSeq([a \in 1..Len(GroupSeq) |-> ImcFiles(GroupSeq[a], b, S, SS, n, sv, nv)])
  \o (IF b = 0 THEN <<>> ELSE FlattenSeq([a \in 1..Len(GroupSeq) |-> BlockRawFiles(GroupSeq[a], b, S, SS, n)]))

\* ---- fresh sums over a range of frames (what a run on those frames alone accumulates) ------------
RECURSIVE FreshS(_, _)
FreshS(lo, hi) == IF lo > hi THEN [x \in 1..NI |-> Zeros(sc.inter[x].n)]
                  ELSE LET r == FreshS(lo + 1, hi) IN [x \in 1..NI |-> [k \in 1..sc.inter[x].n |-> dv.fh[lo][x][k] + r[x][k]]]
Outer(g, H) == LET v == Concat(g, H) IN
  [I \in 1..Dim(g) |-> [J \in 1..Dim(g) |-> IF BlockOf(g, I) <= BlockOf(g, J) THEN v[I] * v[J] ELSE 0]]
MAdd(A, B) == [I \in 1..Len(A) |-> [J \in 1..Len(A) |-> A[I][J] + B[I][J]]]
RECURSIVE FreshSS(_, _)
FreshSS(lo, hi) == IF lo > hi THEN [g \in GroupNames |-> ZeroM(Dim(g))]
                   ELSE LET r == FreshSS(lo + 1, hi) IN [g \in GroupNames |-> MAdd(Outer(g, dv.fh[lo]), r[g])]
FreshV(lo, hi) == SumRange(dv.vol, lo, hi)

\* ---- the state machine ---------------------------------------------------------------------------
FirstFrame == IF opt.first < 1 THEN 1 ELSE opt.first       \* --first-frame f starts at frame max(f,1)
NFramesTotal == Len(sc.frames)

\* Initial states only name the scenario; Load builds it and evaluates every frame (kept out of Init
\* because TLC computes initial states sequentially but successor states in parallel).
Init ==
  /\ sc \in [kind : Kinds, seed : Seeds]
  /\ dv = <<>>
  /\ opt = [block |-> 0, first |-> 0, ext |-> "dist.new"]
  /\ pc = "load" /\ fi = 0 /\ nproc = 0 /\ nfr = 0 /\ nblk = 0
  /\ sumS = <<>> /\ avgN = <<>> /\ avgD = <<>> /\ sumSS = <<>> /\ corN = <<>> /\ corD = <<>>
  /\ sumV = 0 /\ nV = 0 /\ avgVN = 0 /\ avgVD = 1
  /\ files = <<>> /\ lastw = <<>> /\ bstart = 0

Load ==
  /\ pc = "load"
  /\ sc' = Scenario(sc.kind, sc.seed)
  /\ dv' = Derive(sc')
  /\ pc' = "init"
  /\ UNCHANGED <<opt, fi, nproc, nfr, nblk, sumS, avgN, avgD, sumSS, corN, corD, sumV, nV, avgVN, avgVD, files, lastw, bstart>>

\* the run options are chosen here: --block-length, --first-frame
BeginEvaluate ==
  /\ pc = "init"
  \* --ext is a function of --first-frame here (AltExtFirsts) to keep the number of runs down; a first
  \* frame beyond the end of the trajectory is an error ("trajectory was too short"): nothing is written
  /\ opt' \in {o \in [block : Blocks, first : Firsts, ext : {"dist.new", "rdf"}] :
                 /\ (o.ext = "rdf") <=> (o.first \in AltExtFirsts)
                 /\ o.first > Len(sc.frames) => o.block = 0}
  /\ LET ff == IF opt'.first < 1 THEN 1 ELSE opt'.first IN fi' = ff /\ bstart' = ff
  /\ pc' = IF opt'.first > Len(sc.frames) THEN "failed" ELSE "run"
  /\ sumS' = [x \in 1..NI |-> Zeros(sc.inter[x].n)]
  /\ avgN' = [x \in 1..NI |-> Zeros(sc.inter[x].n)] /\ avgD' = [x \in 1..NI |-> 1]
  /\ sumSS' = [g \in GroupNames |-> ZeroM(Dim(g))]
  /\ corN' = [g \in GroupNames |-> ZeroM(Dim(g))] /\ corD' = [g \in GroupNames |-> 1]
  /\ UNCHANGED <<sc, dv, nproc, nfr, nblk, sumV, nV, avgVN, avgVD, files, lastw>>

\* MergeWorker up to the block test.  The running means are updated as in the code:
\* average = ((n-1) average + current)/n ;  Average::Process: av = av n/(n+1) + v/(n+1)
MergeFrame ==
  /\ pc = "run" /\ fi <= NFramesTotal
  /\ LET H == dv.fh[fi]
         n == nfr + 1
     IN /\ nfr' = n /\ nproc' = nproc + 1 /\ fi' = fi + 1
        /\ sumS' = [x \in 1..NI |-> [k \in 1..sc.inter[x].n |-> sumS[x][k] + H[x][k]]]
        /\ avgN' = [x \in 1..NI |-> [k \in 1..sc.inter[x].n |-> (n - 1) * avgN[x][k] + H[x][k] * avgD[x]]]
        /\ avgD' = [x \in 1..NI |-> avgD[x] * n]
        /\ sumSS' = [g \in GroupNames |-> MAdd(sumSS[g], Outer(g, H))]
        /\ corN' = [g \in GroupNames |->
                      LET o == Outer(g, H) IN
                      [I \in 1..Dim(g) |-> [J \in 1..Dim(g) |-> (n - 1) * corN[g][I][J] + o[I][J] * corD[g]]]]
        /\ corD' = [g \in GroupNames |-> corD[g] * n]
        /\ sumV' = sumV + dv.vol[fi] /\ nV' = nV + 1
        /\ LET an == avgVN * nV + dv.vol[fi] * avgVD
               ad == avgVD * (nV + 1)
               gg == Gcd(an, ad)
           IN avgVN' = an \div gg /\ avgVD' = ad \div gg
        /\ pc' = IF opt.block # 0 /\ n % opt.block = 0 THEN "merged" ELSE "run"
  /\ UNCHANGED <<sc, dv, opt, nblk, files, lastw, bstart>>

WriteBlock ==
  /\ pc = "merged"
  /\ nblk' = nblk + 1
  /\ lastw' = Written(nblk + 1, sumS, sumSS, nfr, sumV, nV)
  /\ files' = files \o lastw'
  /\ pc' = "written"
  /\ UNCHANGED <<sc, dv, opt, fi, nproc, nfr, sumS, avgN, avgD, sumSS, corN, corD, sumV, nV, avgVN, avgVD, bstart>>

ClearAverages ==
  /\ pc = "written"
  /\ nfr' = 0 /\ bstart' = fi
  /\ sumS' = [x \in 1..NI |-> Zeros(sc.inter[x].n)]
  /\ avgN' = [x \in 1..NI |-> Zeros(sc.inter[x].n)] /\ avgD' = [x \in 1..NI |-> 1]
  /\ sumSS' = [g \in GroupNames |-> ZeroM(Dim(g))]
  /\ corN' = [g \in GroupNames |-> ZeroM(Dim(g))] /\ corD' = [g \in GroupNames |-> 1]
  /\ IF ClearVol THEN sumV' = 0 /\ nV' = 0 /\ avgVN' = 0 /\ avgVD' = 1
                 ELSE UNCHANGED <<sumV, nV, avgVN, avgVD>>
  /\ pc' = "run"
  /\ UNCHANGED <<sc, dv, opt, fi, nproc, nblk, files, lastw>>

\* EndEvaluate after at least one frame (csg_stat --nframes nproc); without blocks the final files
EndEvaluate ==
  /\ pc = "run" /\ nproc >= 1
  /\ files' = IF opt.block = 0 THEN files \o Written(0, sumS, sumSS, nfr, sumV, nV) ELSE files
  /\ pc' = "done"
  /\ UNCHANGED <<sc, dv, opt, fi, nproc, nfr, nblk, sumS, avgN, avgD, sumSS, corN, corD, sumV, nV, avgVN, avgVD, lastw, bstart>>

Next == Load \/ BeginEvaluate \/ MergeFrame \/ WriteBlock \/ ClearAverages \/ EndEvaluate
        \/ (pc \in {"done", "failed"} /\ UNCHANGED vars)
Spec == Init /\ [][Next]_vars

\* ---- properties of the design, checked by TLC on every reachable state ------------------------------
\* the scenario generator stays inside the lattice assumptions (spec-internal)
ScenarioOK ==
  pc = "init" =>
  /\ dv.ok
  /\ \A x \in 1..NI : sc.inter[x].n >= 2
  \* non-bonded interactions come first (csg_stat adds them first; fixes the order inside an IMC group)
  /\ \A x \in 1..(NI - 1) : sc.inter[x].kind \in {"bond", "angle", "dihedral"} => sc.inter[x + 1].kind \in {"bond", "angle", "dihedral"}
  \* angle-valued layouts are in 1/32 rad; decimal layouts have no distance on an edge and no edge at 0
  /\ \A x \in 1..NI : sc.inter[x].kind \in {"3b", "angle", "dihedral"} => sc.inter[x].den = 4
  /\ ~dv.dectie
  /\ \A x \in 1..NI : sc.inter[x].den = 100 => E2(sc.inter[x], 0) # 0
  \* family 7: a negative and a positive dihedral are counted in every frame; the wildcard pattern really
  \* selects beads of two different types; a decimal layout and a bonded member of an IMC group are present
  \* descending bead lists: in every frame a pair that is excluded only through lines listing the higher
  \* bead first lies inside the range of a non-bonded interaction (it must NOT appear in g(r))
  /\ (sc.kind = 3 /\ ~sc.intra) => dv.desc
  /\ (sc.kind = 7 /\ sc.ord # 2) => dv.desc
  /\ sc.kind = 7 =>
        /\ dv.dih
        /\ \E x \in 1..NI : /\ sc.inter[x].kind = "nb" /\ Cardinality(sc.inter[x].sel[1]) >= 2
                             /\ \A t \in sc.inter[x].sel[1] : \E b \in 1..Len(dv.top) : dv.top[b].typ = t
        /\ \E x \in 1..NI : sc.inter[x].den = 100 /\ sc.inter[x].kind = "nb"
        /\ \E x \in 1..NI : sc.inter[x].den = 100 /\ sc.inter[x].kind = "bond"
        /\ \E x \in 1..NI : sc.inter[x].kind = "bond" /\ sc.inter[x].group \in GroupNames
  \* max <= half the smallest box height of every frame (BeginEvaluate's test on whichever frame is first)
  /\ \A x \in 1..NI : sc.inter[x].kind = "nb" =>
        \A f \in 1..Len(sc.frames) : HalfBoxOK(sc.inter[x], sc.frames[f].box)
  \* vacuity guards: every frame has distances just below a range with min > 0 (one that belongs to bin 0
  \* and one that is discarded); every frame of the triclinic family defeats a length-sized search grid
  /\ sc.kind \notin {8, 9} => dv.win
  \* families 8/9: the range as written in the options file lies within half the box as well, is not a
  \* multiple of the step, and the effective layout has the k + 1 bins of AddInteraction
  /\ sc.kind \in {8, 9} =>
        \A x \in 1..NI : LET it == sc.inter[x] IN
          /\ (it.umaxq - it.mq) % it.usq # 0 /\ it.n = (it.umaxq - it.mq) \div it.usq + 1
          /\ (sc.kind = 8 => it.sq = it.usq) /\ (sc.kind = 9 => it.mq + (it.n - 1) * it.sq = it.umaxq)
          /\ it.kind = "nb" => \A f \in 1..Len(sc.frames) : \A c \in 1..3 : 2 * it.umaxq <= it.den * sc.frames[f].box[c]
  /\ sc.kind = 6 => dv.skew
  /\ Len(dv.top) = Len(sc.frames[1].pos)

\* running-mean identity: the incrementally updated means equal sum / count
RunningMean ==
  pc \in {"run", "merged", "written"} =>
    /\ \A x \in 1..NI : \A k \in 1..sc.inter[x].n : avgN[x][k] * (IF nfr = 0 THEN 1 ELSE nfr) = sumS[x][k] * avgD[x]
    /\ \A g \in GroupNames : \A I \in 1..Dim(g) : \A J \in 1..Dim(g) :
          corN[g][I][J] * (IF nfr = 0 THEN 1 ELSE nfr) = sumSS[g][I][J] * corD[g]
    /\ avgVN * (IF nV = 0 THEN 1 ELSE nV) = sumV * avgVD

\* the written IMC matrix is symmetric
GmcSymmetric ==
  (pc \in {"run", "merged"} /\ nfr > 0) =>
    \A g \in GroupNames :
      LET M == GmcNum(g, sumS, sumSS[g], nfr) IN \A I \in 1..Dim(g) : \A J \in 1..Dim(g) : M[I][J] = M[J][I]

\* block independence: what block b contains is what a fresh run on that block's frames alone writes
BlockIndependent ==
  pc = "written" =>
    lastw = Written(nblk, FreshS(bstart, fi - 1), FreshSS(bstart, fi - 1), fi - bstart, FreshV(bstart, fi - 1), fi - bstart)
\* the same for the final files of a run without blocks: they depend on the selected frames only
FinalIsFresh ==
  (pc = "done" /\ opt.block = 0) =>
    files = Written(0, FreshS(FirstFrame, fi - 1), FreshSS(FirstFrame, fi - 1), nproc, FreshV(FirstFrame, fi - 1), nproc)

\* a frame histogram never counts more than the candidates there are (pairs / instances), and the
\* same-type pair count is bounded by N(N-1)/2: the factor 2 in norm makes g a per-ordered-pair density
CountsBounded ==
  pc = "init" =>
    \A f \in 1..Len(sc.frames) : \A x \in 1..NI :
      LET tot == SumSeq(dv.fh[f][x]) IN
      /\ tot >= 0
      /\ sc.inter[x].kind = "nb" => dv.nn[x] * tot <= dv.n1[x] * dv.n2[x]

\* ---- export: one record per finished run ----------------------------------------------------------
RunRecord ==
  [kind |-> sc.kind, seed |-> sc.seed, block |-> opt.block, first |-> opt.first, ext |-> opt.ext, nframes |-> nproc,
   err |-> pc = "failed",
   doimc |-> sc.doimc, intra |-> sc.intra, tie |-> dv.tie,
   outer |-> \E j \in 1..nproc : dv.outer[FirstFrame + j - 1],
   mols |-> sc.mols, bonded |-> sc.bonded, inter |-> sc.inter, frames |-> sc.frames,
   fh |-> [j \in 1..nproc |-> dv.fh[FirstFrame + j - 1]],
   files |-> files]
EmitRun == (Emit /\ pc \in {"done", "failed"}) => PrintT(ToJson(RunRecord))
=============================================================================
