------------------------------- MODULE MCStat -------------------------------
(* Model wrapper for StatImc: seeds come from the environment (C04_SEED0 = first seed,
   C04_NSEED = how many), kinds from C04_KINDS (digits, e.g. "12345"), C04_WIDE see below. *)
EXTENDS StatImc, IOUtils
EnvInt(name, dflt) == IF name \in DOMAIN IOEnv THEN atoi(IOEnv[name]) ELSE dflt
MCSeeds == LET s0 == EnvInt("C04_SEED0", 1) n == EnvInt("C04_NSEED", 2) IN s0..(s0 + n - 1)
MCKinds == LET k == EnvInt("C04_KINDS", 123456789)
               RECURSIVE Digits(_)
               Digits(x) == IF x = 0 THEN {} ELSE {x % 10} \cup Digits(x \div 10)
           IN Digits(k)
\* C04_WIDE = 1 (thorough tier): more --block-length / --first-frame values (0 and 1 both mean frame 1)
Wide == EnvInt("C04_WIDE", 0) = 1
MCBlocks == IF Wide THEN {0, 1, 2, 3, 4} ELSE {0, 1, 2, 3}
\* 9 lies beyond every trajectory (3..4 frames): the error path
MCFirsts == IF Wide THEN {0, 1, 2, 3, 9} ELSE {0, 2, 9}
MCAltFirsts == IF Wide THEN {1, 3} ELSE {2}
=============================================================================
