------------------------------ MODULE Scenarios ------------------------------
(* Property C04 - the input space: families of small csg_stat set-ups on the lattice of
   FrameHist (positions/boxes in u = 1/8 nm, bin layouts in q = 1/32 nm or 1/32 rad), each a
   deterministic function of (kind, seed); the pseudo-random choices come from the integer hash
   Rnd so that TLC, not the test runner, decides every coordinate.

   A scenario is a record
     kind, seed
     mols    sequence of [name, nmols, beads: sequence of [name, type]]      (XML topology)
     bonded  sequence of [kind "bond"|"angle", name, mol, beads: sequence of bead-name tuples]
     inter   sequence of interactions, non-bonded ones first (the order csg_stat adds them in):
             [name, kind "nb"|"3b"|"bond"|"angle", t: type names, mq, sq, n, decoy, group, cutq, tgt]
               decoy  number of bins of the *other* of max/max_intra (must not be used)
               tgt    target distribution in 1/8 (one value per bin), used with --do-imc
     frames  sequence of [box: <<Lx,Ly,Lz>>, pos: sequence of <<x,y,z>>]
     doimc, intra   --do-imc / --include-intra
   Families
     1 "same"  one bead type, g(r) of A-A, IMC group with target; beads partly outside the box
     2 "two"   two bead types, A-A / A-B / B-B with different bin layouts, two IMC groups
     3 "mol"   three-bead molecules A-B-A plus solvent: bond and angle distributions,
               non-bonded with exclusions or with --include-intra (max_intra)
     4 "3b"    compact cluster: angular three-body distributions (A,A,A) and (A,B,B), cut 0.1875
               or 0.15625 nm so that every neighbour vector is of type (1,0,0) or (1,1,0)
     5 "probe" the fixed hand-made trajectory of the first probe: 4 beads on a unit square,
               boxes 4^3 then 8^3 nm
     7 "chain" four-bead chains A1-B-B-A2 with bond, angle and dihedral distributions (negative minimum),
               non-bonded interactions selected by the wildcard pattern "A*", decimal bin steps, and a
               bonded interaction inside an IMC group
     8/9 "nc"  ranges that are not a multiple of the step, in the two admissible readings (see ScenNc)
     6 "tric"  strongly skewed triclinic boxes (a = (ax,0,0), b = (+-ax/2, by, 0), c = (0,0,cz),
               ax 19-22 nm, by 4-4.5 nm): |b| is more than twice the box width along b; the A-A range
               reaches 1.9375 nm with cutoff 2 nm = half the smallest height
   Planted beads (every family, every frame).  Three A beads at o + (-6,0,0), (-3,0,0), (-3,2,0) give
   the distances 3 u = 12 q and sqrt(13) u = 14.42 q; the "hi" layouts (16,4), (18,8), (17,8) have
   12 q in W1 = (min - 1.5 step, min - 0.5 step) and 14.42 q in W0 = [min - 0.5 step, min)
   (FrameHist.WindowExercised checks it).  Family 6 also plants a pair o + (-9,0,0), o + (-9,15,0)
   (15 u apart, counted in the last bin, more than two "length-sized" cells apart along b).     *)
EXTENDS Integers, Sequences, FiniteSets, CArith, Lattice3, TLC

\* ---- integer hash, all intermediates below 2^31 -------------------------------------------
Rnd(s, i) ==
  LET a == (s * 257 + i * 8191 + 13) % 32749
      b == (a * a + 7 * a + 11) % 32749
  IN (b * 3571 + a) % 32749
Pick(s, i, n) == Rnd(s, i) % n                     \* 0..n-1
PickSeq(s, i, q) == q[1 + Pick(s, i, Len(q))]

\* cnt distinct site numbers in 0..M-1 (linear probing on collision)
RECURSIVE Sites(_, _, _, _, _)
Sites(s, base, cnt, M, used) ==
  IF cnt = 0 THEN <<>>
  ELSE LET RECURSIVE probe(_)
           probe(x) == IF x \in used THEN probe((x + 1) % M) ELSE x
           x == probe(Pick(s, base + cnt, M))
       IN <<x>> \o Sites(s, base, cnt - 1, M, used \cup {x})
\* site number -> coordinates on a g[1] x g[2] x g[3] grid with spacing sp and origin off
Coord(x, g, sp, off) ==
  <<off[1] + sp * (x % g[1]), off[2] + sp * ((x \div g[1]) % g[2]), off[3] + sp * (x \div (g[1] * g[2]))>>

\* planted beads and the layouts that put their distances just below the range (see header)
Planted(off) == <<VAdd(off, <<-6, 0, 0>>), VAdd(off, <<-3, 0, 0>>), VAdd(off, <<-3, 2, 0>>)>>
HiLayout(s, i, n) == LET c == PickSeq(s, i, << <<16, 4>>, <<18, 8>>, <<17, 8>> >>) IN [den |-> 4, mq |-> c[1], sq |-> c[2], n |-> n]
\* largest n with max = mq + (n-1) sq <= 2 Lmin, at most `want`
CapN(mq, sq, want, Lmin) == Min2(want, (2 * Lmin - mq) \div sq + 1)

BoxSizes == <<32, 40, 48, 64>>                      \* 4, 5, 6, 8 nm
\* per-frame box: cubic or orthorhombic, changing from frame to frame
Box(s, f) ==
  IF Pick(s, 900 + f, 3) = 0
  THEN <<PickSeq(s, 910 + f, BoxSizes), PickSeq(s, 920 + f, BoxSizes), PickSeq(s, 930 + f, BoxSizes)>>
  ELSE LET L == PickSeq(s, 910 + f, BoxSizes) IN <<L, L, L>>
Offset(s, f, lo, hi) == <<lo + Pick(s, 940 + f, hi - lo + 1), lo + Pick(s, 950 + f, hi - lo + 1),
                          lo + Pick(s, 960 + f, hi - lo + 1)>>
NFrames(s) == 3 + Pick(s, 2, 2)                     \* 3..4 frames

\* bin layout of a distance distribution: max = mq + (n-1) sq <= 2 Lmin q (half the smallest box)
\* dyadic layouts (den = 4, q = 1/32 nm)
NbLayoutDy(s, i, Lmin) ==
  LET mq == PickSeq(s, i, <<0, 8, 4, 2, 0>>)
      sq == PickSeq(s, i + 1, <<4, 8, 2, 4>>)
      want == 5 + Pick(s, i + 2, 16)
      cap == (2 * Lmin - mq) \div sq + 1
  IN [den |-> 4, mq |-> mq, sq |-> sq, n |-> Min2(want, cap)]
\* decimal layouts (den = 100, q = 1/800 nm): (min, step) = (0.07, 0.05), (0.02, 0.1), (0.03375, 0.02) nm.
\* No bin edge (mq + (k - 1/2) sq)/100 u is a whole number of u (36+40k, -24+80k, 19+16k are never
\* multiples of 100), and a distance sqrt(d2) u can only equal a rational edge if that edge is an integer:
\* these layouts have no ties, and their lowest edge is not 0.
DecLayouts == << <<56, 40>>, <<16, 80>>, <<27, 16>> >>
NbLayoutDec(s, i, Lmin) ==
  LET c == PickSeq(s, i, DecLayouts)
      want == 5 + Pick(s, i + 2, 16)
      cap == (50 * Lmin - c[1]) \div c[2] + 1          \* 2 max <= den Lmin
  IN [den |-> 100, mq |-> c[1], sq |-> c[2], n |-> Min2(want, cap)]
NbLayout(s, i, Lmin) == IF Pick(s, i + 3, 4) = 0 THEN NbLayoutDec(s, i, Lmin) ELSE NbLayoutDy(s, i, Lmin)
Target(s, i, n) == [k \in 1..n |-> Pick(s, i + k, 17)]

Single(name, type, cnt) == [name |-> name, nmols |-> cnt, beads |-> <<[name |-> type \o "1", type |-> type]>>]
\* t: the type patterns written to the options file; sel: the type names each pattern matches
NbW(name, t, sel, lay, group, tgt) ==
  [name |-> name, kind |-> "nb", t |-> t, sel |-> sel, den |-> lay.den, mq |-> lay.mq, sq |-> lay.sq, n |-> lay.n,
   decoy |-> lay.n + 1, group |-> group, cutq |-> 0, tgt |-> tgt]
Nb(name, t1, t2, lay, group, tgt) == NbW(name, <<t1, t2>>, <<{t1}, {t2}>>, lay, group, tgt)
Bonded(name, kind, lay, group, tgt) ==
  [name |-> name, kind |-> kind, t |-> <<>>, sel |-> <<>>, den |-> lay.den, mq |-> lay.mq, sq |-> lay.sq, n |-> lay.n,
   decoy |-> lay.n, group |-> group, cutq |-> 0, tgt |-> tgt]
MinBox(frames) == MinOfSet(UNION {{frames[f].box[1], frames[f].box[2], frames[f].box[3]} : f \in 1..Len(frames)})

\* ---- family 1: one type ---------------------------------------------------------------------
ScenSame(s) ==
  LET NA == 4 + Pick(s, 1, 5)
      F == NFrames(s)
      frames == [f \in 1..F |->
                   LET st == Sites(s, 100 * f, NA, 1000, {})
                       off == Offset(s, f, -12, 50)
                   IN [box |-> Box(s, f), pos |-> [b \in 1..NA |-> Coord(st[b], <<10, 10, 10>>, 1, off)] \o Planted(off)]]
      lay == NbLayout(s, 20, MinBox(frames))
      h0 == HiLayout(s, 25, 2)
      hi == [h0 EXCEPT !.n = CapN(h0.mq, h0.sq, 4 + Pick(s, 26, 8), MinBox(frames))]
  IN [kind |-> 1, seed |-> s,
      mols |-> <<Single("MA", "A", NA + 3)>>, bonded |-> <<>>,
      inter |-> <<Nb("A-A", "A", "A", lay, "g1", Target(s, 30, lay.n)),
                  Nb("A-A-hi", "A", "A", hi, PickSeq(s, 27, <<"g1", "g2", "none">>), Target(s, 60, hi.n))>>,
      frames |-> frames, doimc |-> TRUE, intra |-> FALSE]

\* ---- family 2: two types, three interactions, two groups -----------------------------------------
ScenTwo(s) ==
  LET NA == 2 + Pick(s, 1, 3)
      NB == 1 + Pick(s, 3, 4)
      F == NFrames(s)
      frames == [f \in 1..F |->
                   LET st == Sites(s, 100 * f, NA + NB, 512, {})
                       off == Offset(s, f, -8, 40)
                       rnd == [b \in 1..(NA + NB) |-> Coord(st[b], <<8, 8, 8>>, 1, off)]
                   IN [box |-> Box(s, f), pos |-> SubSeq(rnd, 1, NA) \o Planted(off) \o SubSeq(rnd, NA + 1, NA + NB)]]
      Lm == MinBox(frames)
      h0 == HiLayout(s, 20, 2)
      l1 == [h0 EXCEPT !.n = CapN(h0.mq, h0.sq, 4 + Pick(s, 22, 8), Lm)]
      l2 == NbLayout(s, 24, Lm)
      l3 == NbLayout(s, 28, Lm)
      g3 == PickSeq(s, 5, <<"g2", "none", "g1">>)
  IN [kind |-> 2, seed |-> s,
      mols |-> <<Single("MA", "A", NA + 3), Single("MB", "B", NB)>>, bonded |-> <<>>,
      inter |-> <<Nb("A-A", "A", "A", l1, "g1", Target(s, 30, l1.n)),
                  Nb("A-B", "A", "B", l2, "g1", Target(s, 50, l2.n)),
                  Nb("B-B", "B", "B", l3, g3, Target(s, 70, l3.n))>>,
      frames |-> frames, doimc |-> TRUE, intra |-> FALSE]

\* ---- family 3: molecules with bonds and an angle --------------------------------------------
\* bond vectors: the 18 directions (1,0,0), (1,1,0) with signs and permutations, length factor 1 or 2
Dirs == {v \in (-1..1) \X (-1..1) \X (-1..1) : Norm2(v) \in {1, 2}}
DirSeq == LET RECURSIVE ToSeq(_)
              ToSeq(S) == IF S = {} THEN <<>> ELSE LET v == CHOOSE v \in S : TRUE IN <<v>> \o ToSeq(S \ {v})
          IN ToSeq(Dirs)
BondVec(s, i) == VScale(1 + Pick(s, i, 2), PickSeq(s, i + 1, DirSeq))
ScenMol(s) ==
  LET NT == 2 + Pick(s, 1, 2)                      \* 2..3 three-bead molecules
      NS == 1 + Pick(s, 3, 3)                      \* 1..3 solvent beads of type A
      F == NFrames(s)
      intra == Pick(s, 4, 3) = 0
      frames == [f \in 1..F |->
                   LET st == Sites(s, 100 * f, NT + NS, 64, {})
                       off == Offset(s, f, -6, 30)
                       c(m) == Coord(st[m], <<4, 4, 4>>, 5, off)
                       v1(m) == BondVec(s, 100 * f + 10 * m)
                       w(m) == BondVec(s, 100 * f + 10 * m + 2)
                       \* second bond vector must differ from the first
                       v2(m) == IF w(m) = v1(m) THEN VNeg(w(m)) ELSE w(m)
                       tri == [b \in 1..(3 * NT) |->
                                 LET m == (b - 1) \div 3 + 1
                                     r == (b - 1) % 3
                                 IN IF r = 0 THEN VAdd(c(m), v1(m)) ELSE IF r = 1 THEN c(m) ELSE VAdd(c(m), v2(m))]
                       sol == [b \in 1..NS |-> c(NT + b)]
                       \* planted solvent beads, clear of the molecules (their x >= off[1] - 2)
                   IN [box |-> Box(s, f), pos |-> tri \o sol \o Planted(VAdd(off, <<-3, 0, 0>>))]]
      Lm == MinBox(frames)
      h0 == HiLayout(s, 20, 2)
      l1 == [h0 EXCEPT !.n = CapN(h0.mq, h0.sq, 4 + Pick(s, 22, 8), Lm)]
      \* A-B range covers every bond length (1 .. 2.83 u = 4 .. 11.3 q): lowest edge <= 3 q, max >= 14 q
      l2 == [den |-> 4, mq |-> PickSeq(s, 24, <<0, 2, 4>>), sq |-> PickSeq(s, 25, <<2, 4>>), n |-> 8 + Pick(s, 26, 8)]
      \* order in which the bonded lines list their beads (ids ascend A1 < B1 < A2):
      \*   1 everything descending; 2 first bond and angle descending; 0 second bond and angle descending
      ord == s % 3
      lb == [den |-> 4, mq |-> PickSeq(s, 40, <<2, 1, 4, 3>>), sq |-> PickSeq(s, 41, <<2, 1, 2>>), n |-> 6 + Pick(s, 42, 6)]
      asq == PickSeq(s, 43, <<4, 2, 8>>)
      \* angle range up to pi (full) or cut short (values discarded)
      la == [den |-> 4, mq |-> 0, sq |-> asq, n |-> IF Pick(s, 44, 3) = 0 THEN 60 \div asq ELSE 100 \div asq + 2]
      grp == IF intra THEN "none" ELSE "g1"
  IN [kind |-> 3, seed |-> s,
      mols |-> <<[name |-> "TRI", nmols |-> NT,
                  beads |-> <<[name |-> "A1", type |-> "A"], [name |-> "B1", type |-> "B"], [name |-> "A2", type |-> "A"]>>],
                 Single("SOL", "A", NS + 3)>>,
      ord |-> ord,
      bonded |-> <<[kind |-> "bond", name |-> "bnd", mol |-> "TRI",
                    beads |-> << IF ord = 0 THEN <<"A1", "B1">> ELSE <<"B1", "A1">>,
                                 IF ord = 2 THEN <<"B1", "A2">> ELSE <<"A2", "B1">> >>],
                   [kind |-> "angle", name |-> "ang", mol |-> "TRI", beads |-> << <<"A2", "B1", "A1">> >>]>>,
      inter |-> <<Nb("A-A", "A", "A", l1, grp, Target(s, 30, l1.n)),
                  Nb("A-B", "A", "B", l2, grp, Target(s, 50, l2.n)),
                  Bonded("bnd", "bond", lb, "none", <<>>), Bonded("ang", "angle", la, "none", <<>>)>>,
      frames |-> frames, doimc |-> ~intra /\ Pick(s, 6, 2) = 0, intra |-> intra]

\* ---- family 4: angular three-body distributions ------------------------------------------------
ScenTb(s) ==
  LET NA == 5 + Pick(s, 1, 4)                      \* 5..8 beads A
      NB == 2 + Pick(s, 3, 3)                      \* 2..4 beads B
      F == NFrames(s)
      cutq == PickSeq(s, 7, <<6, 6, 5>>)
      frames == [f \in 1..F |->
                   LET st == Sites(s, 100 * f, NA + NB, 27, {})
                       off == Offset(s, f, -2, 30)
                       rnd == [b \in 1..(NA + NB) |-> Coord(st[b], <<3, 3, 3>>, 1, off)]
                       \* planted beads 3 u and 2 u apart and >= 3 u from the cluster: no three-body neighbours
                   IN [box |-> Box(s, f), pos |-> SubSeq(rnd, 1, NA) \o Planted(VAdd(off, <<-2, 0, 0>>)) \o SubSeq(rnd, NA + 1, NA + NB)]]
      h0 == HiLayout(s, 20, 2)
      l1 == [h0 EXCEPT !.n = CapN(h0.mq, h0.sq, 3 + Pick(s, 22, 5), MinBox(frames))]
      tb(name, t2) == [name |-> name, kind |-> "3b", t |-> <<"A", t2, t2>>, sel |-> <<{"A"}, {t2}, {t2}>>, den |-> 4, mq |-> 0, sq |-> 4,
                       n |-> IF Pick(s, 23, 4) = 0 THEN 20 ELSE 26, decoy |-> 26, group |-> "none", cutq |-> cutq, tgt |-> <<>>]
  IN [kind |-> 4, seed |-> s,
      mols |-> <<Single("MA", "A", NA + 3), Single("MB", "B", NB)>>, bonded |-> <<>>,
      inter |-> <<tb("A-A-A", "A"), tb("A-B-B", "B"), Nb("A-A", "A", "A", l1, "none", Target(s, 30, l1.n))>>,
      frames |-> frames, doimc |-> FALSE, intra |-> FALSE]

\* ---- family 5: the hand-made probe ---------------------------------------------------------------
ScenProbe(s) ==
  LET unit == << <<0, 0, 0>>, <<8, 0, 0>>, <<0, 8, 0>>, <<8, 8, 0>> >>
  IN [kind |-> 5, seed |-> s,
      mols |-> <<Single("MA", "A", 4)>>, bonded |-> <<>>,
      \* the side (32 q) lies in W1 and the diagonal (45.25 q) in W0 of the second layout
      inter |-> <<Nb("A-A", "A", "A", [den |-> 4, mq |-> 0, sq |-> 8, n |-> 7], "g1", [k \in 1..7 |-> 8]),
                  Nb("A-A-hi", "A", "A", [den |-> 4, mq |-> 48, sq |-> 16, n |-> 2], "g1", <<8, 4>>)>>,
      frames |-> << [box |-> <<32, 32, 32>>, pos |-> unit], [box |-> <<64, 64, 64>>, pos |-> unit],
                    [box |-> <<32, 64, 32>>, pos |-> unit] >>,
      doimc |-> TRUE, intra |-> FALSE]

\* ---- family 6: skewed triclinic boxes ----------------------------------------------------------------
TricBox(s, f) ==
  LET ax == PickSeq(s, 900 + f, <<152, 160, 176>>)
      sg == IF Pick(s, 910 + f, 2) = 0 THEN 1 ELSE -1
  IN <<ax, PickSeq(s, 920 + f, <<32, 34, 36>>), PickSeq(s, 930 + f, <<32, 40, 48>>), sg * (ax \div 2), 0, 0>>
ScenTric(s) ==
  LET NA == 4 + Pick(s, 1, 4)
      NB == 1 + Pick(s, 3, 3)
      F == NFrames(s)
      frames == [f \in 1..F |->
                   LET st == Sites(s, 100 * f, NA + NB, 1000, {})
                       off == Offset(s, f, -12, 60)
                       rnd == [b \in 1..(NA + NB) |-> Coord(st[b], <<10, 10, 10>>, 1, off)]
                   IN [box |-> TricBox(s, f),
                       pos |-> SubSeq(rnd, 1, NA) \o Planted(off) \o <<VAdd(off, <<-9, 0, 0>>), VAdd(off, <<-9, 15, 0>>)>>
                               \o SubSeq(rnd, NA + 1, NA + NB)]]
      l1 == [den |-> 4, mq |-> 16, sq |-> 4, n |-> 12]          \* 0.5 .. 1.875 nm, cutoff 2 nm
      b0 == NbLayoutDy(s, 24, 16)
      l2 == [b0 EXCEPT !.n = Min2(b0.n, (64 - b0.sq - b0.mq) \div b0.sq + 1)]   \* max + step <= 2 nm
  IN [kind |-> 6, seed |-> s,
      mols |-> <<Single("MA", "A", NA + 5), Single("MB", "B", NB)>>, bonded |-> <<>>,
      inter |-> <<Nb("A-A", "A", "A", l1, "g1", Target(s, 30, l1.n)),
                  Nb("A-B", "A", "B", l2, PickSeq(s, 5, <<"g1", "none">>), Target(s, 50, l2.n))>>,
      frames |-> frames, doimc |-> TRUE, intra |-> FALSE]

\* ---- family 7: four-bead chains: dihedrals, wildcard type patterns, decimal steps, bonded in an IMC group --
\* chain A1-B-B-A2 (types "A1","B","B","A2"): r2 - r1 = v1, r3 - r2 = v2 = (0,0,k), r4 - r3 = v3, where
\* v1, v3 have an xy part from the 8 lattice directions (z = -1..1 if it is axis-aligned, else 0): all bond
\* angles are 90 or 45/135 degrees, all dihedrals multiples of 45 degrees.  Molecule 1 always has a negative,
\* molecule 2 a positive dihedral of 45 or 90 degrees (IUPAC sign), further molecules are random.
XY8 == << <<1, 0>>, <<1, 1>>, <<0, 1>>, <<-1, 1>>, <<-1, 0>>, <<-1, -1>>, <<0, -1>>, <<1, -1>> >>
ArmVec(s, i) ==
  LET xy == PickSeq(s, i, XY8)
      z == IF xy[1] = 0 \/ xy[2] = 0 THEN Pick(s, i + 1, 3) - 1 ELSE 0
  IN <<xy[1], xy[2], z>>
ScenChain(s) ==
  LET NT == 2 + Pick(s, 1, 2)                      \* 2..3 chains
      NS == 1 + Pick(s, 3, 2)                      \* 1..2 random solvent beads (type A1) + 3 planted
      F == NFrames(s)
      frames == [f \in 1..F |->
                   LET st == Sites(s, 100 * f, NT + NS, 48, {})
                       off == Offset(s, f, -6, 30)
                       c(m) == Coord(st[m], <<3, 4, 4>>, 6, off)
                       k(m) == PickSeq(s, 100 * f + 10 * m, <<1, 2, -1, -2>>)
                       v1(m) == IF m <= 2 THEN <<1, 0, 0>> ELSE ArmVec(s, 100 * f + 10 * m + 1)
                       \* sign(phi) = sign(v1.(v2 x v3)) = -k (v1 x v3)_z
                       \* (x = -1 keeps |phi| = 45 rather than 135 degrees for either sign of k)
                       pl(w, sg) == <<w[1], sg * w[2], sg * w[3]>>
                       v3(m) == IF m = 1 THEN pl(PickSeq(s, 100 * f + 3, << <<0, 1, 0>>, <<-1, 1, 0>>, <<0, 1, 1>> >>), Sgn(k(m)))
                                ELSE IF m = 2 THEN pl(PickSeq(s, 100 * f + 4, << <<0, 1, 0>>, <<-1, 1, 0>>, <<0, 1, 1>> >>), -Sgn(k(m)))
                                ELSE ArmVec(s, 100 * f + 10 * m + 3)
                       ch == [b \in 1..(4 * NT) |->
                                LET m == (b - 1) \div 4 + 1
                                    r == (b - 1) % 4
                                    p2 == c(m)
                                    p3 == VAdd(c(m), <<0, 0, k(m)>>)
                                IN IF r = 0 THEN VSub(p2, v1(m)) ELSE IF r = 1 THEN p2 ELSE IF r = 2 THEN p3 ELSE VAdd(p3, v3(m))]
                       sol == [b \in 1..NS |-> c(NT + b)]
                   IN [box |-> Box(s, f), pos |-> ch \o sol \o Planted(VAdd(off, <<-6, 0, 0>>))]]
      Lm == MinBox(frames)
      h0 == HiLayout(s, 20, 2)
      l1 == [h0 EXCEPT !.n = CapN(h0.mq, h0.sq, 4 + Pick(s, 22, 8), Lm)]
      b2 == NbLayoutDec(s, 24, Lm)
      \* A*-B range reaches at least 2 u = 200 q, so every bonded A-B pair (1 .. 1.41 u) would be counted
      l2 == [b2 EXCEPT !.n = Max2(b2.n, (200 - b2.mq + b2.sq - 1) \div b2.sq + 1)]
      \* order of the bead lists (ids ascend A1 < B1 < B2 < A2); a ring-closure bond A2 A1 in every variant:
      \*   0 everything descending; 1 mixed, the A1 end descending in bond, angle and dihedral;
      \*   2 angles and dihedral ascending, bonds mixed
      ord == s % 3
      lb == [den |-> 100, mq |-> 24, sq |-> 16, n |-> 12 + Pick(s, 42, 7)]        \* min 0.03, step 0.02 nm
      asq == PickSeq(s, 43, <<4, 2, 8>>)
      la == [den |-> 4, mq |-> 0, sq |-> asq, n |-> 100 \div asq + 2]
      ld == PickSeq(s, 44, <<[den |-> 4, mq |-> -100, sq |-> 4, n |-> 51], [den |-> 4, mq |-> -104, sq |-> 8, n |-> 27],
                             [den |-> 4, mq |-> -72, sq |-> 4, n |-> 37]>>)             \* the last one discards |phi| > 2.31
      AA == {"A1", "A2"}
  IN [kind |-> 7, seed |-> s,
      mols |-> <<[name |-> "CH", nmols |-> NT,
                  beads |-> <<[name |-> "A1", type |-> "A1"], [name |-> "B1", type |-> "B"],
                              [name |-> "B2", type |-> "B"], [name |-> "A2", type |-> "A2"]>>],
                 [name |-> "SOL", nmols |-> NS + 3, beads |-> <<[name |-> "S1", type |-> "A1"]>>]>>,
      ord |-> ord,
      bonded |-> <<[kind |-> "bond", name |-> "bnd", mol |-> "CH",
                    beads |-> << <<"B1", "A1">>,
                                 IF ord = 0 THEN <<"B2", "B1">> ELSE <<"B1", "B2">>,
                                 IF ord = 1 THEN <<"B2", "A2">> ELSE <<"A2", "B2">>,
                                 <<"A2", "A1">> >>],
                   [kind |-> "angle", name |-> "ang", mol |-> "CH",
                    beads |-> << IF ord = 2 THEN <<"A1", "B1", "B2">> ELSE <<"B2", "B1", "A1">>,
                                 IF ord = 0 THEN <<"A2", "B2", "B1">> ELSE <<"B1", "B2", "A2">> >>],
                   [kind |-> "dihedral", name |-> "dih", mol |-> "CH",
                    beads |-> << IF ord = 2 THEN <<"A1", "B1", "B2", "A2">> ELSE <<"A2", "B2", "B1", "A1">> >>]>>,
      inter |-> <<NbW("AA", <<"A*", "A*">>, <<AA, AA>>, l1, "g1", Target(s, 30, l1.n)),
                  NbW("AB", <<"A*", "B">>, <<AA, {"B"}>>, l2, PickSeq(s, 5, <<"g1", "none">>), Target(s, 50, l2.n)),
                  Bonded("bnd", "bond", lb, "g1", Target(s, 70, lb.n)),
                  Bonded("ang", "angle", la, "none", <<>>),
                  Bonded("dih", "dihedral", ld, "none", <<>>)>>,
      frames |-> frames, doimc |-> TRUE, intra |-> FALSE]

\* ---- families 8 / 9: ranges whose length is not a multiple of the step ----------------------------------
\* The options file gives min, max = min + (k + f) step with f in {1/4, 1/2, 3/4} (umaxq), and step (usq).
\* The statement ("pairs nearest to the bin centre, exact shell volume, ideal gas gives 1"; "unit integral")
\* fixes the result once the bin centres are known, but not where k + 1 centres go in such a range.  Two
\* consistent readings exist and both are admitted (the engine accepts a run that agrees with either):
\*   family 8 "truncate": centres min + i step, i = 0..k  (the grid min:step:max used by all other VOTCA tools)
\*   family 9 "stretch":  centres min + i h, h = (max - min)/k, bins h wide (the layout HistogramNew builds)
\* Same seed => same topology, trajectory and options text; only the effective layout differs.  The numbers
\* are chosen so that h is a whole number of q (den = 16, q = 1/128 nm).  <<mq, usq, k, extra>>:
NcLayouts == << <<0, 16, 4, 8>>, <<8, 16, 4, 4>>, <<24, 16, 4, 12>>, <<0, 32, 4, 16>>, <<16, 32, 4, 8>>, <<40, 12, 3, 6>>,
                <<16, 32, 1, 16>>, <<0, 16, 8, 8>> >>      \* the 7th has step > (max - min)/2: two bins
NcEff(c, stretch) ==
  [den |-> 16, mq |-> c[1], sq |-> IF stretch THEN (c[3] * c[2] + c[4]) \div c[3] ELSE c[2], n |-> c[3] + 1]
NcInter(r, c) == [r EXCEPT !.decoy = r.n] @@ [umaxq |-> c[1] + c[3] * c[2] + c[4], usq |-> c[2]]
ScenNc(s, stretch) ==
  LET NA == 5 + Pick(s, 1, 4)
      ND == 2                                      \* two B-B dimers
      F == NFrames(s)
      frames == [f \in 1..F |->
                   LET st == Sites(s, 100 * f, NA + ND, 216, {})
                       off == Offset(s, f, -8, 40)
                       rnd == [b \in 1..(NA + ND) |-> Coord(st[b], <<6, 6, 6>>, 2, off)]
                       dim == [b \in 1..(2 * ND) |->
                                 LET m == (b + 1) \div 2 IN
                                 IF b % 2 = 1 THEN rnd[NA + m]
                                 ELSE VAdd(rnd[NA + m], PickSeq(s, 100 * f + 10 * m + 1, DirSeq))]
                   IN [box |-> Box(s, f), pos |-> SubSeq(rnd, 1, NA) \o dim]]
      c1 == PickSeq(s, 20, NcLayouts)
      c2 == PickSeq(s, 21, NcLayouts)
      cb == PickSeq(s, 22, << <<8, 16, 2, 4>>, <<4, 8, 3, 6>>, <<12, 16, 1, 8>> >>)
  IN [kind |-> IF stretch THEN 9 ELSE 8, seed |-> s,
      mols |-> <<Single("MA", "A", NA),
                 [name |-> "DI", nmols |-> ND, beads |-> <<[name |-> "B1", type |-> "B"], [name |-> "B2", type |-> "B"]>>]>>,
      bonded |-> <<[kind |-> "bond", name |-> "bnd", mol |-> "DI", beads |-> << <<"B2", "B1">> >>]>>,
      inter |-> <<NcInter(Nb("A-A", "A", "A", NcEff(c1, stretch), "none", <<>>), c1),
                  NcInter(Nb("A-B", "A", "B", NcEff(c2, stretch), "none", <<>>), c2),
                  NcInter(Bonded("bnd", "bond", NcEff(cb, stretch), "none", <<>>), cb)>>,
      frames |-> frames, doimc |-> FALSE, intra |-> FALSE]

Scenario(k, s) ==
  CASE k = 1 -> ScenSame(s) [] k = 2 -> ScenTwo(s) [] k = 3 -> ScenMol(s) [] k = 4 -> ScenTb(s) [] k = 5 -> ScenProbe(s) [] k = 6 -> ScenTric(s) [] k = 7 -> ScenChain(s) [] k = 8 -> ScenNc(s, FALSE) [] k = 9 -> ScenNc(s, TRUE)
=============================================================================
