------------------------------ MODULE FrameHist ------------------------------
(* Property C04 - what one trajectory frame contributes: the per-frame histogram of every
   interaction of a csg_stat options file, computed from a lattice configuration by the
   *meaning* in the property statement (no neighbour grid, no floating point):

     non-bonded   number of non-excluded pairs whose minimum-image distance (brute force over a
                  cube of periodic images) is nearest to the bin centre
     bond/angle   the bond lengths / angles of the topology's bonded interactions, nearest centre
     3-body       the centre angles of all triples (i;j,k) with both centre distances below cut

   Lattice.  Positions and box vectors (orthorhombic, or triclinic in GROMACS form) are integers in u = 1/8 nm.  Bin layouts are
   integers in q = u/4 = 1/32 nm (1/32 rad for angles): mq = centre of bin 0, sq = bin width,
   n = number of bins.  Twice a bin edge, E2(k) = 2 mq + (2k-1) sq, is an integer, and a distance
   d = sqrt(d2) u = 4 sqrt(d2) q lies at/above the edge e iff e <= 0 or (2e)^2 <= 64 d2 - so the
   nearest-centre rule (upper bin on an exact edge, as floor(x + 1/2) defines it, cf. C13
   SpecBin) is decided by integer comparisons.
   Angles.  Only angles that are multiples of pi/12 are used (cos^2 in {0,1/4,1/2,3/4,1}, decided
   exactly from the integer dot product and squared norms); their bin is decided with the
   rational brackets 103993/33102 < pi < 355/113; if the two brackets disagree the value is
   "undecided" (-2) and the scenario is rejected by the spec (never happens on the layouts used). *)
EXTENDS Integers, Sequences, FiniteSets, CArith, Lattice3, TLC

Discard == -1
Undecided == -2

\* ---- topology expansion (the order the XML topology reader creates beads in) --------------
\* mols: sequence of [name, nmols, beads: sequence of [name, type]]
MolBeads(m, molid) ==
  [b \in 1..Len(m.beads) |-> [typ |-> m.beads[b].type, mol |-> molid, mname |-> m.name, bname |-> m.beads[b].name]]
RECURSIVE ExpandMols(_, _, _, _)
ExpandMols(mols, mi, c, molid) ==
  IF mi > Len(mols) THEN <<>>
  ELSE IF c > mols[mi].nmols THEN ExpandMols(mols, mi + 1, 1, molid)
  ELSE MolBeads(mols[mi], molid) \o ExpandMols(mols, mi, c + 1, molid + 1)
Beads(mols) == ExpandMols(mols, 1, 1, 1)

\* bonded: sequence of [kind, name, mol, beads: sequence of bead-name tuples]
\* instances: set of [grp, kind, ids] - one per tuple and per molecule of that kind
Instances(top, bonded) ==
  LET N == Len(top)
      molids(d) == {top[b].mol : b \in {b \in 1..N : top[b].mname = d.mol}}
      idof(m, nm) == CHOOSE b \in 1..N : top[b].mol = m /\ top[b].bname = nm
  IN UNION {UNION {{[grp |-> bonded[x].name, kind |-> bonded[x].kind,
                     ids |-> [p \in 1..Len(bonded[x].beads[t]) |-> idof(m, bonded[x].beads[t][p])]]
                    : m \in molids(bonded[x])}
                   : t \in 1..Len(bonded[x].beads)}
            : x \in 1..Len(bonded)}
SeqSet(s) == {s[i] : i \in 1..Len(s)}
\* ExclusionList::CreateExclusions: two beads are excluded iff they share a bonded interaction
Excluded(ias, i, j) == \E ia \in ias : i \in SeqSet(ia.ids) /\ j \in SeqSet(ia.ids)

\* ---- brute-force minimum image -----------------------------------------------------------------
\* A box is <<Lx, Ly, Lz>> (orthorhombic) or <<ax, by, cz, bx, cx, cy>> (triclinic, GROMACS form:
\* a = (ax,0,0), b = (bx,by,0), c = (cx,cy,cz); written as the 9-value box line of a .gro file).
\* The volume is box[1] * box[2] * box[3] in both cases (|det| of a triangular matrix).
IsTric(box) == Len(box) = 6
BoxA(box) == <<box[1], 0, 0>>
BoxB(box) == IF IsTric(box) THEN <<box[4], box[2], 0>> ELSE <<0, box[2], 0>>
BoxC(box) == IF IsTric(box) THEN <<box[5], box[6], box[3]>> ELSE <<0, 0, box[3]>>
\* Orthorhombic: all images r + (k1 Lx, k2 Ly, k3 Lz) with |k_c| <= floor(|r_c| / L_c) + 1 (the shortest
\* image of a component lies within one box length of the origin).
\* Triclinic: Reduced(r) (reduce z, then y, then x by the nearest multiple of c, b, a) is one of the
\* images, so the shortest image is no longer than R = |Reduced(r)| (rounded up); every image v with
\* |v| <= R has |k3| <= (|r3|+R)/cz, |k2| <= (|r2|+R+|k3 cy|)/by, |k1| <= (|r1|+R+|k2 bx|+|k3 cx|)/ax:
\* the cube below contains all of them, hence the true minimum over ALL periodic images.
ImgK(r, L, c) == LET m == Abs(r[c]) \div L[c] + 1 IN (-m)..m
Reduced(r, box) ==
  LET r1 == VSub(r, VScale(RoundHalfAway(r[3], box[3]), BoxC(box)))
      r2 == VSub(r1, VScale(RoundHalfAway(r1[2], box[2]), BoxB(box)))
  IN VSub(r2, VScale(RoundHalfAway(r2[1], box[1]), BoxA(box)))
TricK(r, box) ==
  LET R == Isqrt(Norm2(Reduced(r, box))) + 1
      m3 == (Abs(r[3]) + R) \div box[3] + 1
      m2 == (Abs(r[2]) + R + m3 * Abs(box[6])) \div box[2] + 1
      m1 == (Abs(r[1]) + R + m2 * Abs(box[4]) + m3 * Abs(box[5])) \div box[1] + 1
  IN ((-m1)..m1) \X ((-m2)..m2) \X ((-m3)..m3)
Images(r, L) ==
  IF IsTric(L)
  THEN {Comb3(r, k, BoxA(L), BoxB(L), BoxC(L)) : k \in TricK(r, L)}
  ELSE {<<r[1] + k[1] * L[1], r[2] + k[2] * L[2], r[3] + k[3] * L[3]>> : k \in ImgK(r, L, 1) \X ImgK(r, L, 2) \X ImgK(r, L, 3)}
MinD2(r, L) == MinOfSet({Norm2(v) : v \in Images(r, L)})
MinImages(r, L) == LET d == MinD2(r, L) IN {v \in Images(r, L) : Norm2(v) = d}
ASSUME /\ MinD2(<<70, 0, 0>>, <<160, 32, 32, 80, 0, 0>>) = 100 + 1024     \* minus b: (-10,-32,0)
       /\ MinD2(<<81, 31, 0>>, <<160, 32, 32, 80, 0, 0>>) = 2          \* minus b: (1,-1,0)
       /\ MinD2(<<85, 20, 0>>, <<160, 32, 32, 80, 0, 0>>) = 25 + 144    \* minus b: (5,-12,0)

\* per frame, for every pair i < j: squared minimum-image distance d2, one shortest image v of
\* pos[j] - pos[i], and whether there are several shortest images (amb)
PairMI(fr) ==
  LET N == Len(fr.pos)
  IN [i \in 1..N |-> [j \in 1..N |->
        IF i < j
        THEN LET I == Images(VSub(fr.pos[j], fr.pos[i]), fr.box)
                 d == MinOfSet({Norm2(v) : v \in I})
                 M == {v \in I : Norm2(v) = d}
             IN [d2 |-> d, v |-> CHOOSE v \in M : TRUE, amb |-> Cardinality(M) > 1]
        ELSE [d2 |-> 0, v |-> Zero3, amb |-> FALSE]]]
DD(W, i, j) == IF i < j THEN W[i][j].d2 ELSE W[j][i].d2
\* shortest connection from bead i to bead j
MV(W, i, j) == IF i < j THEN W[i][j].v ELSE VNeg(W[j][i].v)
Amb(W, i, j) == IF i < j THEN W[i][j].amb ELSE W[j][i].amb

\* ---- nearest-centre bin of a distance ------------------------------------------------------
\* A layout also carries den = number of q units per u (4: q = 1/32 nm, dyadic steps; 100: q = 1/800 nm,
\* decimal steps such as 0.1 or 0.05 nm).  A distance sqrt(d2) u = den sqrt(d2) q.
E2(h, k) == 2 * h.mq + (2 * k - 1) * h.sq              \* twice the lower edge of bin k (q units)
AtOrAbove(h, d2, e2) == e2 <= 0 \/ e2 * e2 <= 4 * h.den * h.den * d2     \* den sqrt(d2) >= e2 / 2
InBin(h, d2, k) == AtOrAbove(h, d2, E2(h, k)) /\ ~AtOrAbove(h, d2, E2(h, k + 1))
DistBin(h, d2) ==
  IF \E k \in 0..(h.n - 1) : InBin(h, d2, k) THEN CHOOSE k \in 0..(h.n - 1) : InBin(h, d2, k) ELSE Discard
OnEdge(h, d2) == \E k \in 0..h.n : E2(h, k) > 0 /\ E2(h, k) * E2(h, k) = 4 * h.den * h.den * d2

\* ---- angles on the pi/12 lattice --------------------------------------------------------
\* angle between integer vectors a, b in units of pi/12, or Discard if it is not such a multiple
AngU(a, b) ==
  LET p == Dot(a, b)
      q == Norm2(a) * Norm2(b)
  IN IF q = 0 THEN Discard
     ELSE IF p = 0 THEN 6
     ELSE IF 4 * p * p = 4 * q THEN (IF p > 0 THEN 0 ELSE 12)
     ELSE IF 4 * p * p = 3 * q THEN (IF p > 0 THEN 2 ELSE 10)
     ELSE IF 4 * p * p = 2 * q THEN (IF p > 0 THEN 3 ELSE 9)
     ELSE IF 4 * p * p = q THEN (IF p > 0 THEN 4 ELSE 8)
     ELSE Discard
PiLoN == 103993
PiLoD == 33102
PiHiN == 355
PiHiD == 113
\* floor((m pi/12 - min)/step + 1/2) with pi = PN/PD; min, step in 1/32 rad
AngIdx(h, m, PN, PD) == FloorDiv(16 * m * PN - (6 * h.mq - 3 * h.sq) * PD, 6 * h.sq * PD)
AngBin(h, m) ==
  LET a == AngIdx(h, m, PiLoN, PiLoD)
      b == AngIdx(h, m, PiHiN, PiHiD)
  IN IF m < 0 \/ a # b THEN Undecided ELSE IF a < 0 \/ a >= h.n THEN Discard ELSE a
ASSUME /\ PiLoN * 113 < 355 * PiLoD                      \* the brackets are ordered
       /\ AngU(<<1, 0, 0>>, <<1, 1, 0>>) = 3 /\ AngU(<<1, 1, 0>>, <<0, -1, -1>>) = 8
       /\ AngU(<<1, 1, 0>>, <<1, 2, 1>>) = 2 /\ AngU(<<1, 0, 0>>, <<1, 1, 1>>) = Discard
       /\ AngBin([mq |-> 0, sq |-> 4, n |-> 26], 12) = 25 /\ AngBin([mq |-> 0, sq |-> 4, n |-> 26], 0) = 0
       /\ AngBin([mq |-> 0, sq |-> 4, n |-> 26], 6) = 13  \* pi/2 = 1.5708 -> centre 1.625 (edges 1.5625, 1.6875)

\* ---- counting ------------------------------------------------------------------------------
\* histogram (sequence 1..n, entry k+1 = bin k) of a finite set of items with a bin function
CountHist(Items, binof, n) == [k \in 1..n |-> Cardinality({x \in Items : binof[x] = k - 1})]

\* beads selected by the k-th type pattern of an interaction: it.t[k] is the pattern as written in the
\* options file (a type name, or a wildcard such as "A*"), it.sel[k] the set of type names it matches
TypeSet(top, it, k) == {b \in 1..Len(top) : top[b].typ \in it.sel[k]}

\* pairs of a non-bonded interaction: within one list (i<j) or one bead of each list
NbPairs(top, ias, it, intra) ==
  LET T1 == TypeSet(top, it, 1)
      T2 == TypeSet(top, it, 2)
      cand == IF it.t[1] = it.t[2] THEN {p \in T1 \X T1 : p[1] < p[2]} ELSE T1 \X T2
  IN {p \in cand : intra \/ ~Excluded(ias, p[1], p[2])}

NbHist(top, ias, it, intra, W) ==
  LET P == NbPairs(top, ias, it, intra)
      b == [p \in P |-> DistBin(it, DD(W, p[1], p[2]))]
  IN CountHist(P, b, it.n)

\* triples (centre; j, k) of a 3-body interaction: both centre distances below cut (cutq in q:
\* 4 sqrt(d2) < cutq), no excluded pair among the three, {j,k} unordered when type2 = type3
Triples(top, ias, it, W) ==
  LET T1 == TypeSet(top, it, 1)
      T2 == TypeSet(top, it, 2)
      T3 == TypeSet(top, it, 3)
      close(i, j) == i # j /\ 16 * DD(W, i, j) < it.cutq * it.cutq /\ ~Excluded(ias, i, j)
      near(i, T) == {j \in T : close(i, j)}
  IN UNION {{<<i, p[1], p[2]>> : p \in {p \in near(i, T2) \X near(i, T3) :
                                         /\ p[1] # p[2]
                                         /\ (it.t[2] = it.t[3] => p[1] < p[2])
                                         /\ ~Excluded(ias, p[1], p[2])}}
            : i \in T1}
TripleAng(W, t) == AngU(MV(W, t[1], t[2]), MV(W, t[1], t[3]))
TbHist(top, ias, it, W) ==
  LET T == Triples(top, ias, it, W)
      b == [t \in T |-> AngBin(it, TripleAng(W, t))]
  IN CountHist(T, b, it.n)

BondHist(ias, it, W) ==
  LET I == {ia \in ias : ia.grp = it.name}
      b == [ia \in I |-> DistBin(it, DD(W, ia.ids[1], ia.ids[2]))]
  IN CountHist(I, b, it.n)
\* IAngle: angle at the second bead between the connections to the first and the third
IaAng(W, ia) == AngU(MV(W, ia.ids[2], ia.ids[1]), MV(W, ia.ids[2], ia.ids[3]))
AngleHist(ias, it, W) ==
  LET I == {ia \in ias : ia.grp = it.name}
      b == [ia \in I |-> AngBin(it, IaAng(W, ia))]
  IN CountHist(I, b, it.n)

\* IDihedral, IUPAC convention: beads 1-2-3-4, v1 = r2-r1, v2 = r3-r2, v3 = r4-r3, n1 = v1 x v2, n2 = v2 x v3;
\* |phi| = angle(n1, n2), phi > 0 iff v1.n2 > 0 (0 and pi are unsigned).  Value in units of pi/12
\* (-11..12), or 99 when the angle between the normals is not on the pi/12 lattice.
IaDih(W, ia) ==
  LET v1 == MV(W, ia.ids[1], ia.ids[2])
      v2 == MV(W, ia.ids[2], ia.ids[3])
      v3 == MV(W, ia.ids[3], ia.ids[4])
      n1 == Cross(v1, v2)
      n2 == Cross(v2, v3)
      m == AngU(n1, n2)
  IN IF m = Discard THEN 99 ELSE IF Dot(v1, n2) < 0 THEN -m ELSE m
\* bin of a signed multiple of pi/12 (negative minima allowed)
SignedAngBin(h, m) ==
  LET a == AngIdx(h, m, PiLoN, PiLoD)
      b == AngIdx(h, m, PiHiN, PiHiD)
  IN IF m = 99 \/ a # b THEN Undecided ELSE IF a < 0 \/ a >= h.n THEN Discard ELSE a
DihHist(ias, it, W) ==
  LET I == {ia \in ias : ia.grp = it.name}
      b == [ia \in I |-> SignedAngBin(it, IaDih(W, ia))]
  IN CountHist(I, b, it.n)
ASSUME /\ SignedAngBin([mq |-> -100, sq |-> 4, n |-> 51, den |-> 4], 12) = 50
       /\ SignedAngBin([mq |-> -100, sq |-> 4, n |-> 51, den |-> 4], -6) = 12     \* -1.5708 -> centre -1.625
       /\ SignedAngBin([mq |-> -100, sq |-> 4, n |-> 51, den |-> 4], 0) = 25

InterHist(top, ias, it, intra, W) ==
  CASE it.kind = "nb" -> NbHist(top, ias, it, intra, W)
    [] it.kind = "3b" -> TbHist(top, ias, it, W)
    [] it.kind = "bond" -> BondHist(ias, it, W)
    [] it.kind = "angle" -> AngleHist(ias, it, W)
    [] it.kind = "dihedral" -> DihHist(ias, it, W)

\* ---- vacuity guards (spec-internal): the scenario exercises the cases a wrong rule would hide in -----
\* distance just below the range of a layout with min > 0:
\*   W0 = [min - step/2, min)   belongs to bin 0 (nearest centre)
\*   W1 = (min - 3 step/2, min - step/2)   is discarded (a truncating index rule would count it in bin 0)
InW0(h, d2) == h.mq > 0 /\ AtOrAbove(h, d2, E2(h, 0)) /\ h.den * h.den * d2 < h.mq * h.mq
InW1(h, d2) == /\ E2(h, 0) > 0 /\ ~AtOrAbove(h, d2, E2(h, 0))
               /\ LET e == 2 * h.mq - 3 * h.sq IN e < 0 \/ e * e < 4 * h.den * h.den * d2
\* some non-bonded interaction with min > 0 has a (non-excluded) pair in W0 and one in W1
WindowExercised(sc, top, ias, W) ==
  \E x \in 1..Len(sc.inter) :
    LET it == sc.inter[x] IN
    /\ it.kind = "nb" /\ it.mq > 0
    /\ \E p \in NbPairs(top, ias, it, sc.intra) : InW0(it, DD(W, p[1], p[2])) /\ DistBin(it, DD(W, p[1], p[2])) = 0
    /\ \E p \in NbPairs(top, ias, it, sc.intra) : InW1(it, DD(W, p[1], p[2])) /\ DistBin(it, DD(W, p[1], p[2])) = Discard

\* Skewed box (triclinic with c along z): along b the box vector is longer than the box is wide
\* (|b| > by), likewise along a.  A search grid must be sized by the WIDTH; the guard demands a counted
\* pair that a grid sized by the LENGTH (N = floor(|b|/rc) >= 4 cells, more than floor(by/rc)) would put
\* two or more cells apart, i.e. would never compare.  rc = max + step (q units: rcq), s = fractional
\* coordinate along b = y/by, cell = floor(N s) mod N.
NLen(len2, rcq, den) == CHOOSE n \in 0..64 : n * n * rcq * rcq <= den * den * len2 /\ (n + 1) * (n + 1) * rcq * rcq > den * den * len2
CircDist(i, j, N) == LET d == MathMod(i - j, N) IN Min2(d, N - d)
SkewExercised(sc, top, ias, fr, W) ==
  IsTric(fr.box) /\ fr.box[5] = 0 /\ fr.box[6] = 0 /\
  \E x \in 1..Len(sc.inter) :
    LET it == sc.inter[x]
        rcq == it.mq + it.n * it.sq
        by == fr.box[2]
        N == NLen(fr.box[4] * fr.box[4] + by * by, rcq, it.den)
        cell(i) == MathMod(FloorDiv(N * fr.pos[i][2], by), N)
    IN /\ it.kind = "nb"
       /\ N >= 4 /\ N > NLen(by * by, rcq, it.den)
       /\ \E p \in NbPairs(top, ias, it, sc.intra) :
             DistBin(it, DD(W, p[1], p[2])) # Discard /\ CircDist(cell(p[1]), cell(p[2]), N) >= 2

\* Bead lists written in descending order.  The exclusion rule is order-free, so a pair must stay excluded
\* when every bonded line that contains it lists the higher-numbered bead first.  Guard: some non-bonded
\* interaction has such a pair among its (type-matching, excluded) candidates at a distance it would count.
PosIn(sq, b) == CHOOSE p \in 1..Len(sq) : sq[p] = b
OnlyDescending(ias, i, j) ==        \* i < j share an interaction, and in each one j is listed before i
  /\ Excluded(ias, i, j)
  /\ \A ia \in ias : (i \in SeqSet(ia.ids) /\ j \in SeqSet(ia.ids)) => PosIn(ia.ids, j) < PosIn(ia.ids, i)
DescExercised(sc, top, ias, W) ==
  \E x \in 1..Len(sc.inter) :
    LET it == sc.inter[x] IN
    /\ it.kind = "nb"
    /\ \E p \in NbPairs(top, ias, it, TRUE) :
          LET i == Min2(p[1], p[2]) j == Max2(p[1], p[2])
          IN OnlyDescending(ias, i, j) /\ DistBin(it, DD(W, i, j)) # Discard

\* some non-bonded interaction counts a pair in the outer quarter of its last bin (d >= max + step/4):
\* a neighbour search whose cut-off does not reach the upper edge max + step/2 of the last bin loses it
OuterExercised(sc, top, ias, W) ==
  \E x \in 1..Len(sc.inter) :
    LET it == sc.inter[x]
        e4 == 4 * (it.mq + (it.n - 1) * it.sq) + it.sq          \* 4 (max + step/4), q units
    IN /\ it.kind = "nb"
       /\ \E p \in NbPairs(top, ias, it, sc.intra) :
             /\ DistBin(it, DD(W, p[1], p[2])) = it.n - 1
             /\ e4 * e4 <= 16 * it.den * it.den * DD(W, p[1], p[2])

\* a dihedral distribution sees a negative and a positive value that are counted (not discarded)
DihExercised(sc, ias, W) ==
  \E x \in 1..Len(sc.inter) :
    LET it == sc.inter[x]
        I == {ia \in ias : ia.grp = it.name}
    IN /\ it.kind = "dihedral" /\ it.mq < 0
       /\ \E ia \in I : IaDih(W, ia) < 0 /\ SignedAngBin(it, IaDih(W, ia)) >= 0
       /\ \E ia \in I : IaDih(W, ia) \in 1..12 /\ SignedAngBin(it, IaDih(W, ia)) >= 0

\* max (+ step for a triclinic box) of every non-bonded range is at most half the smallest box height
\* (what BeginEvaluate demands of the first frame; asked of every frame because any may be first)
HalfBoxOK(it, box) ==
  IF IsTric(box)
  THEN LET lim == it.mq + it.n * it.sq IN           \* max + step, q units;  lim/den <= h/2
       /\ box[5] = 0 /\ box[6] = 0 /\ 2 * Abs(box[4]) <= box[1] /\ it.den = 4
       /\ lim <= 2 * box[2] /\ lim <= 2 * box[3]
       /\ lim * lim * (box[4] * box[4] + box[2] * box[2]) <= 4 * box[1] * box[1] * box[2] * box[2]
  ELSE \A c \in 1..3 : 2 * (it.mq + (it.n - 1) * it.sq) <= it.den * box[c]

\* ---- scenario admissibility (spec-internal: a generator that violates it is a spec bug) ------
\* every angle used is on the pi/12 lattice, has a decided bin, comes from unambiguous images
AnglesOK(sc, top, ias, W) ==
  \A x \in 1..Len(sc.inter) :
    LET it == sc.inter[x] IN
    CASE it.kind = "3b" ->
           \A t \in Triples(top, ias, it, W) :
              ~Amb(W, t[1], t[2]) /\ ~Amb(W, t[1], t[3]) /\ AngBin(it, TripleAng(W, t)) # Undecided
      [] it.kind = "angle" ->
           \A ia \in {ia \in ias : ia.grp = it.name} :
              ~Amb(W, ia.ids[2], ia.ids[1]) /\ ~Amb(W, ia.ids[2], ia.ids[3]) /\ AngBin(it, IaAng(W, ia)) # Undecided
      [] it.kind = "dihedral" ->
           \A ia \in {ia \in ias : ia.grp = it.name} :
              /\ ~Amb(W, ia.ids[1], ia.ids[2]) /\ ~Amb(W, ia.ids[2], ia.ids[3]) /\ ~Amb(W, ia.ids[3], ia.ids[4])
              /\ SignedAngBin(it, IaDih(W, ia)) # Undecided
      [] OTHER -> TRUE
\* some distance of the frame lies exactly on a bin edge of an interaction that bins distances
HasEdgeTie(sc, top, W) ==
  LET N == Len(top)
  IN \E x \in 1..Len(sc.inter) :
       LET it == sc.inter[x] IN
       /\ it.kind \in {"nb", "bond"}
       /\ \E i \in 1..N : \E j \in (i + 1)..N : OnEdge(it, W[i][j].d2)
\* no two beads on the same site, also not modulo the box
Distinct(top, W) == \A i \in 1..Len(top) : \A j \in (i + 1)..Len(top) : W[i][j].d2 > 0

\* everything the state machine needs from frame f:
\*   h[x] = histogram of interaction x, ok = admissible, tie = a distance exactly on a bin edge
FrameData(sc, top, ias, f) ==
  LET W == PairMI(sc.frames[f])
  IN [h |-> [x \in 1..Len(sc.inter) |-> InterHist(top, ias, sc.inter[x], sc.intra, W)],
      ok |-> AnglesOK(sc, top, ias, W) /\ Distinct(top, W),
      win |-> WindowExercised(sc, top, ias, W),
      dih |-> DihExercised(sc, ias, W),
      desc |-> DescExercised(sc, top, ias, W),
      outer |-> OuterExercised(sc, top, ias, W),
      skew |-> SkewExercised(sc, top, ias, sc.frames[f], W),
      tie |-> HasEdgeTie(sc, top, W),
      dectie |-> \E x \in 1..Len(sc.inter) : /\ sc.inter[x].den = 100 /\ sc.inter[x].kind \in {"nb", "bond"}
                                              /\ \E i \in 1..Len(top) : \E j \in (i + 1)..Len(top) : OnEdge(sc.inter[x], W[i][j].d2)]
=============================================================================
