\* the shipped ClearAverages() (volume average not restarted): TLC must find the
\* block-independence violation on the probe trajectory (boxes 4^3, 8^3 nm)
SPECIFICATION Spec
CONSTANTS
  Kinds <- MCKinds
  Seeds <- MCSeeds
  Blocks <- MCBlocks
  Firsts <- MCFirsts
  AltExtFirsts <- MCAltFirsts
  ClearVol = FALSE
  Emit = FALSE
INVARIANTS
  ScenarioOK
  RunningMean
  GmcSymmetric
  BlockIndependent
CHECK_DEADLOCK FALSE
