SPECIFICATION Spec
CONSTANTS
  Kinds <- MCKinds
  Seeds <- MCSeeds
  Blocks <- MCBlocks
  Firsts <- MCFirsts
  AltExtFirsts <- MCAltFirsts
  ClearVol = TRUE
  Emit = TRUE
INVARIANTS
  ScenarioOK
  RunningMean
  GmcSymmetric
  BlockIndependent
  FinalIsFresh
  CountsBounded
  EmitRun
CHECK_DEADLOCK FALSE
