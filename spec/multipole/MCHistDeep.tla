---- MODULE MCHistDeep ----
EXTENDS SiteHist
T(r, q, d, s) == [r |-> r, q |-> q, d |-> d, s |-> s]
\* one template per rank (every rank pair old -> new occurs at depth 2), dipoles/quadrupoles not symmetric under the rotations
MCTpls == << T(0, -2, Zero3, Zero5), T(1, 1, <<1, 2, -3>>, Zero5), T(2, -1, <<0, 3, 1>>, <<1, 2, -1, 3, 1>>) >>
MCRots == << GenZ4, GenC3, GenMz >>
MCInit == {3}
MCKinds == {0, 1}
====
