SPECIFICATION Spec
CONSTANTS
  Tpl <- MCTpl
  Vecs <- MCVecs
  PVecs <- MCPVecs
  WVecs <- MCWVecs
  Offs <- MCOffs
  Units <- MCUnits
  NG = 4
  NGT = 3
  Mults <- MCMults
  Damps <- MCDamps
  TholeTpl <- MCThin
  Fams <- MCFams
  Emit = TRUE
INVARIANTS Theorems Vector
CHECK_DEADLOCK FALSE
