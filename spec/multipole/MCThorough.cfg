SPECIFICATION Spec
CONSTANTS
  Tpl <- MCTpl
  Vecs <- MCVecs
  PVecs <- MCPVecs
  WVecs <- MCWVecs
  Offs <- MCOffs
  Units <- MCUnits
  NG = 12
  NGT = 6
  Mults <- MCMults
  Damps <- MCDamps
  TholeTpl <- MCThin
  Emit = TRUE
INVARIANTS Theorems Vector
CHECK_DEADLOCK FALSE
