---- MODULE MCGroupQuick ----
EXTENDS MCGroup
MCH == <<GenZ4, GenC3, GenInv, GenMz>>
====
