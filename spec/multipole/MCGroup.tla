------------------------------- MODULE MCGroup -------------------------------
(* Design-level theorems about the symmetry action itself (no real code involved):
   the 48 signed permutations are exactly the integer orthogonal matrices, form a group generated
   by Z4, C3 and the inversion; they act on vectors preserving scalar products; the action ActS on the
   five spherical quadrupole components is a group action, is the Cartesian conjugation Theta -> R Theta R^T,
   keeps the lattice, preserves tr(Theta^2), is linear, and has the stated closed forms on the generators. *)
EXTENDS Multipole
CONSTANT HList      \* second factors h of the composition theorems (all 48, or the generators)
VARIABLES n1, n2, ph
vars == <<n1, n2, ph>>
Init == n1 \in 0..47 /\ n2 \in 1..Len(HList) /\ ph = 0
Next == ph = 0 /\ ph' = 1 /\ UNCHANGED <<n1, n2>>      \* the theorems are evaluated on the successor (worker threads)
Spec == Init /\ [][Next]_vars

Vals == {-1, 0, 2}
VS == {<<x, y, z>> : x \in Vals, y \in Vals, z \in Vals}
\* a basis of the lattice, and mixed elements (the action is linear, checked below)
SS == {<<2, 0, 0, 0, 0>>, <<1, 0, 0, 1, 0>>, <<0, 1, 0, 0, 0>>, <<0, 0, 1, 0, 0>>, <<0, 0, 0, 2, 0>>, <<0, 0, 0, 0, 1>>,
       <<1, 0, 0, -1, 0>>, <<3, -1, 2, -1, 1>>, <<-3, 2, 2, 3, -1>>, <<0, 2, -1, 2, 2>>, <<2, 0, 0, 0, -1>>,
       <<-1, 1, 1, 1, 1>>, <<1, 2, -1, 3, 1>>, <<-2, 0, 3, 0, 1>>, <<0, -3, 0, -2, 2>>, <<4, 1, -2, 2, 0>>}
ASSUME \A s \in SS : QuadOK(s)

ASSUME G48 = Ortho
ASSUME Cardinality(G48) = 48 /\ Cardinality({g \in G48 : Proper(g)}) = 24
ASSUME Closure({Id3}, {GenZ4, GenC3, GenInv}) = G48
ASSUME Closure({Id3}, {GenZ4, GenC3}) = {g \in G48 : Proper(g)}
ASSUME GenMz \in G48 /\ ~Proper(GenMz) /\ ~Proper(GenInv)
ASSUME \A s \in SS : /\ ActS(GenZ4, s) = ActS_Z4(s)
                     /\ ActS(GenC3, s) = ActS_C3(s)
                     /\ ActS(GenInv, s) = ActS_Inv(s)
                     /\ ActS(GenMz, s) = ActS_Mz(s)
                     /\ ActS(Id3, s) = s
                     /\ Sph(M2(s)) = s
                     /\ Tr(M2(s)) = 0 /\ M2(s) = MT(M2(s))

g == GAt(n1)
h == HList[n2]
GroupThm == ph = 1 =>
  /\ MM(g, h) \in G48                                          \* closed
  /\ MT(g) \in G48 /\ MM(g, MT(g)) = Id3 /\ MM(MT(g), g) = Id3  \* inverse = transpose
  /\ Det(g) \in {-1, 1} /\ Det(MM(g, h)) = Det(g) * Det(h)
  /\ \A x \in VS : /\ MV(MM(g, h), x) = MV(g, MV(h, x))        \* action on vectors
                   /\ \A y \in VS : Dot(MV(g, x), MV(g, y)) = Dot(x, y)
  /\ \A s \in SS :
       /\ SphOK(Conj(g, M2(s)))                                 \* the image is on the lattice ...
       /\ QuadOK(ActS(g, s))
       /\ M2(ActS(g, s)) = Conj(g, M2(s))                       \* ... and is the conjugated tensor
       /\ ActS(MM(g, h), s) = ActS(g, ActS(h, s))               \* group action
       /\ ActS(MT(g), ActS(g, s)) = s
       /\ Frob(M2(ActS(g, s)), M2(ActS(g, s))) = Frob(M2(s), M2(s))
  /\ n2 = 1 => \A s \in SS, t \in SS : ActS(g, Add5(s, t)) = Add5(ActS(g, s), ActS(g, t))
  \* mixed-rank scalars: d.Theta.d', (Theta x).(Theta' x), tr(Theta Theta')
  /\ n2 = 1 => \A s \in {<<1, 0, 0, 1, 0>>, <<3, -1, 2, -1, 1>>, <<0, 2, -1, 2, 2>>}, t \in {<<-3, 2, 2, 3, -1>>, <<2, 0, 0, 0, -1>>},
                   x \in {<<1, 2, -3>>, <<0, 1, 2>>}, y \in {<<2, -1, 1>>} :
         /\ Quad(M2(ActS(g, s)), MV(g, x), MV(g, y)) = Quad(M2(s), x, y)
         /\ Dot(MV(M2(ActS(g, s)), MV(g, x)), MV(M2(ActS(g, t)), MV(g, x))) = Dot(MV(M2(s), x), MV(M2(t), x))
         /\ Frob(M2(ActS(g, s)), M2(ActS(g, t))) = Frob(M2(s), M2(t))
=============================================================================
