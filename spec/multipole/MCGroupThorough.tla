---- MODULE MCGroupThorough ----
EXTENDS MCGroup
MCH == [k \in 1..48 |-> GAt(k - 1)]
====
