SPECIFICATION Spec
CONSTANTS
  NSet <- MCN
  Threads <- MCThreads
  Reps = 10
  Damp = 39
  Emit = TRUE
INVARIANTS Theorems Vector
CHECK_DEADLOCK FALSE
