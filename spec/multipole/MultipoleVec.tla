----------------------------- MODULE MultipoleVec -----------------------------
(* Mode L, relational: one TLC state = one INSTANCE FAMILY MEMBER = a handful of sites on the
   lattice, the configurations (source sites -> target site) whose observations are related, the
   relations (integer linear equations between observations of the real code), exact values where the
   lattice makes them rational, and monotone bounds.  Families:

   "motion"   A, B and their images under selected lattice motions x -> g x + t (g one of the 48
              signed permutations, t an integer vector): E(A,B) = E(B,A)  and  E(gA+t, gB+t) = E(A,B);
              also StaticSite::Rotate(g, c) + Translate(t0) of the real site = the spec's image.
   "exact"    separation of integer length: E = sum of five exact rational orders (ENums);
              for two charges this is  q1 q2 / R.
   "bilinear" E(A1 + A2, B) = E(A1,B) + E(A2,B),  E(m A1, B) = m E(A1,B), in both argument positions.
   "field"    the vector accumulated on a polarisable site by ApplyStaticField is the derivative of the
              pair energy with respect to that site's dipole: V_k = E(A, B + e_k) - E(A, B)  (E is
              linear in the dipole; sign: V = +dE/d(dipole) = -field, see README); accumulation over
              two sources; both accumulators (V, V_noE); returned energy.
   "thole"    damped dipole-dipole tensor: T_ij = T_ji, T(A,B) = T(B,A), covariance under lattice
              motions, undamped tensor (huge damping parameter: the code switches the damping off
              for a u^3 >= 40) traceless and exactly (L2 delta_ij - 3 R_i R_j)/|R|^5 on integer-length
              separations, equal to it for a u^3 >= 80, off-diagonal elements monotone in the damping
              parameter and bounded by the undamped ones.
   "induced"  ApplyInducedField: V_k = d E_indu_indu / d(induced dipole_k) = sum_j T_jk mu_j;
              E_indu_stat = induced dipoles times the static-field accumulators; the off-diagonal blocks
              of the DipoleDipoleInteraction operator are the Thole tensor, the operator is symmetric
              and its product with a dipole vector is the induced field.                   *)
EXTENDS Multipole, Json, IOUtils

CONSTANTS Tpl,        \* sequence of moment templates [r, q, d, s]
          Vecs,       \* separation vectors (set) for the relational families
          PVecs,      \* separation vectors of integer length
          WVecs,      \* positions (relative) of a second source
          Offs,       \* offsets of the whole configuration
          Units,      \* exponents u: real position = p * 2^u
          NG,         \* group elements per "motion" record (48 = all)
          NGT,        \* group elements per "thole" record
          Mults,      \* integer multipliers
          Damps,      \* damping parameters (hundredths)
          TholeTpl,   \* template indices used in field/induced thinning
          Emit
VARIABLES c, ph
vars == <<c, ph>>
\* families to emit: all, or the one named in the environment (thorough tier: one TLC run per family, bounded memory)
Fams == IF "C15_FAM" \in DOMAIN IOEnv THEN {IOEnv.C15_FAM}
        ELSE {"motion", "exact", "bilinear", "field", "thole", "induced"}

NT == Len(Tpl)
TransList == << <<0, 0, 0>>, <<3, -1, 2>>, <<-5, 4, 0>>, <<1, 1, -7>> >>
RefList == << <<0, 0, 0>>, <<1, -2, 0>>, <<-1, 3, 2>> >>
PolList == << <<1, 1, 1>>, <<4, 4, 4>>, <<9, 9, 9>>, <<1, 4, 2>>, <<9, 1, 4>> >>
IndList == << <<1, 0, 0>>, <<0, -2, 1>>, <<2, 1, -3>>, <<-1, 1, 1>> >>
DBig == 1000000

Init == /\ ph = 0
        /\ \/ /\ "motion" \in Fams
              /\ \E ia \in 1..NT, ib \in 1..NT, v \in Vecs, o \in Offs, u \in Units :
                    c = [fam |-> "motion", ia |-> ia, ib |-> ib, v |-> v, o |-> o, u |-> u]
           \/ /\ "exact" \in Fams
              /\ \E ia \in 1..NT, ib \in 1..NT, v \in PVecs, o \in Offs, u \in Units :
                    c = [fam |-> "exact", ia |-> ia, ib |-> ib, v |-> v, o |-> o, u |-> u]
           \/ /\ "bilinear" \in Fams
              /\ \E ia \in 1..NT, ja \in 1..NT, ib \in TholeTpl, v \in Vecs, o \in Offs, u \in Units, m \in Mults :
                    /\ ia < ja
                    /\ c = [fam |-> "bilinear", ia |-> ia, ja |-> ja, ib |-> ib, v |-> v, o |-> o, u |-> u, m |-> m]
           \/ /\ "field" \in Fams
              /\ \E ia \in 1..NT, ib \in 1..NT, v \in Vecs \cup PVecs, o \in Offs, u \in Units :
                    c = [fam |-> "field", ia |-> ia, ib |-> ib, v |-> v, o |-> o, u |-> u]
           \/ /\ "thole" \in Fams
              /\ \E v \in Vecs \cup PVecs, o \in Offs, u \in Units, pa \in 1..Len(PolList), pb \in 1..Len(PolList), dm \in Damps :
                    /\ pa <= pb
                    /\ c = [fam |-> "thole", v |-> v, o |-> o, u |-> u, pa |-> pa, pb |-> pb, dm |-> dm]
           \/ /\ "induced" \in Fams
              /\ \E ia \in TholeTpl, ib \in TholeTpl, v \in Vecs, o \in Offs, u \in Units, pa \in {1, 4}, dm \in Damps :
                    c = [fam |-> "induced", ia |-> ia, ib |-> ib, v |-> v, o |-> o, u |-> u, pa |-> pa, dm |-> dm]
Next == ph = 0 /\ ph' = 1 /\ UNCHANGED c
Spec == Init /\ [][Next]_vars

\* ---------------------------------------------------------------- common
v == c.v
o == c.o
H == (7 * (IF "ia" \in DOMAIN c THEN c.ia ELSE c.pa) + 13 * (IF "ib" \in DOMAIN c THEN c.ib ELSE c.pb)
      + 3 * v[1] + 5 * v[2] + 11 * v[3] + o[1] + 17 * (c.u + 8)) % 48
SiteOf(ti, k, p, a) == LET t == Tpl[ti] IN Site(k, p, t.r, t.q, t.d, t.s, IF k = 1 THEN a ELSE Zero3, Zero3)
GIdx(j, n) == (H + 11 * (j - 1)) % 48                     \* 11 is coprime to 48: n <= 48 distinct elements
GOf(j) == GAt(GIdx(j, 48))
RefOf(j) == RefList[((H + j) % Len(RefList)) + 1]
T0Of(j) == TransList[((H \div 3 + j) % Len(TransList)) + 1]
MotionName(g, t) == IF g = Id3 THEN "motion:translation" ELSE IF Proper(g) THEN "motion:rotation" ELSE "motion:improper"
FlatM(g) == g[1] \o g[2] \o g[3]
Sq(x) == x * x
L2v == Norm2(v)
Lv == Isqrt0(L2v)
Pyth == IsSquare(L2v)

\* ---------------------------------------------------------------- motion
MoA == SiteOf(c.ia, H % 2, o, PolList[1])
MoB == SiteOf(c.ib, (H \div 2) % 2, Add(o, v), PolList[4])
MoShift(j) == ShiftOf(GOf(j), RefOf(j), T0Of(j))
MoSites == <<MoA, MoB>> \o FlattenSeq([j \in 1..NG |-> <<Act(GOf(j), MoShift(j), MoA), Act(GOf(j), MoShift(j), MoB)>>])
MoCfgs == [n \in 1..(2 * NG + 2) |-> IF n % 2 = 1 THEN Cfg(<<n>>, n + 1, 0) ELSE Cfg(<<n>>, n - 1, 0)]
MoRels == << Rel("exchange", <<1, 1, OE, -1, 2, OE>>),
             Rel("exchange:segments", <<1, 1, OSeg, -1, 2, OSeg>>),
             Rel("segment-energy=site-energy", <<1, 1, OSeg, -1, 1, OE>>) >>
          \o FlattenSeq([j \in 1..NG |->
               << Rel(MotionName(GOf(j), 0), <<1, 2 * j + 1, OE, -1, 1, OE>>),
                  Rel(MotionName(GOf(j), 0), <<1, 2 * j + 2, OE, -1, 2, OE>>) >>])
\* <<source site, expected site, g (9), reference point (3), translation (3)>>
MoRot == FlattenSeq([j \in 1..NG |->
            << <<1, 2 * j + 1>> \o FlatM(GOf(j)) \o RefOf(j) \o T0Of(j),
               <<2, 2 * j + 2>> \o FlatM(GOf(j)) \o RefOf(j) \o T0Of(j) >>])
MoTheorems ==
  \A j \in 1..NG :
     LET g == GOf(j)  t == MoShift(j)  A2 == Act(g, t, MoA)  B2 == Act(g, t, MoB) IN
     /\ g \in G48
     /\ WellFormed(A2) /\ WellFormed(B2)
     /\ Norm2(Sub(B2.p, A2.p)) = L2v                                  \* distances preserved
     /\ A2.p = Add(RefOf(j), Add(MV(g, Sub(MoA.p, RefOf(j))), T0Of(j)))  \* = rotate about c, then translate
     /\ A2.q = MoA.q /\ Norm2(A2.d) = Norm2(MoA.d)                    \* rank 0 / rank 1 invariants
     /\ Frob(M2(A2.s), M2(A2.s)) = Frob(M2(MoA.s), M2(MoA.s))         \* rank 2 invariant
     /\ M2(A2.s) = Conj(g, M2(MoA.s))
     /\ ENums(A2, B2) = ENums(MoA, MoB)                               \* every order of the energy is invariant
     /\ ENums(B2, A2) = ENums(MoA, MoB)                               \* and symmetric

\* ---------------------------------------------------------------- exact
ExA == SiteOf(c.ia, H % 2, o, PolList[1])
ExB == SiteOf(c.ib, (H \div 2) % 2, Add(o, v), PolList[1])
ExName == IF Tpl[c.ia].r = 0 /\ Tpl[c.ib].r = 0 THEN "coulomb:q1q2/R" ELSE "cartesian-energy"
ExExact == << <<ExName, 1, OE>> \o ExactTerms(ENums(ExA, ExB), Lv),
              <<ExName, 2, OE>> \o ExactTerms(ENums(ExB, ExA), Lv),
              <<ExName, 1, OSeg>> \o ExactTerms(ENums(ExA, ExB), Lv) >>
ExTheorems == /\ Pyth
              /\ ENums(ExA, ExB) = ENums(ExB, ExA)
              /\ (Tpl[c.ia].r = 0 /\ Tpl[c.ib].r = 0) => ENums(ExA, ExB) = <<ExA.q * ExB.q, 0, 0, 0, 0>>

\* ---------------------------------------------------------------- bilinear
BiA1 == SiteOf(c.ia, H % 2, o, PolList[2])
BiA2 == SiteOf(c.ja, H % 2, o, PolList[2])
BiB == SiteOf(c.ib, (H \div 2) % 2, Add(o, v), PolList[1])
BiSites == <<BiA1, BiA2, PlusSite(BiA1, BiA2), TimesSite(c.m, BiA1), BiB>>
BiCfgs == [n \in 1..8 |-> IF n <= 4 THEN Cfg(<<n>>, 5, 0) ELSE Cfg(<<5>>, n - 4, 0)]
BiRels == << Rel("bilinear:sum:source", <<1, 3, OE, -1, 1, OE, -1, 2, OE>>),
             Rel("bilinear:multiple:source", <<1, 4, OE, 0 - c.m, 1, OE>>),
             Rel("bilinear:sum:target", <<1, 7, OE, -1, 5, OE, -1, 6, OE>>),
             Rel("bilinear:multiple:target", <<1, 8, OE, 0 - c.m, 5, OE>>) >>
BiTheorems == /\ WellFormed(BiSites[3]) /\ WellFormed(BiSites[4])
              /\ ENums(BiSites[3], BiB) = [j \in 1..5 |-> ENums(BiA1, BiB)[j] + ENums(BiA2, BiB)[j]]
              /\ ENums(BiSites[4], BiB) = [j \in 1..5 |-> c.m * ENums(BiA1, BiB)[j]]
              /\ ENums(BiB, BiSites[3]) = [j \in 1..5 |-> ENums(BiB, BiA1)[j] + ENums(BiB, BiA2)[j]]

\* ---------------------------------------------------------------- field
FiKind == H % 2
FiA == SiteOf(c.ia, FiKind, o, PolList[1])
FiB == SiteOf(c.ib, 1, Add(o, v), PolList[(H % Len(PolList)) + 1])
FiBk(k) == [WithDipole(FiB, Add(FiB.d, Unit3(k))) EXCEPT !.k = (H \div 4) % 2]
FiW == CHOOSE w \in WVecs : w # v
FiA2 == SiteOf(((c.ia + c.ib) % NT) + 1, FiKind, Add(o, FiW), PolList[1])
FiSites == <<FiA, FiB, FiBk(1), FiBk(2), FiBk(3), FiA2>>
FiCfgs == << Cfg(<<1>>, 2, 0), Cfg(<<1>>, 3, 0), Cfg(<<1>>, 4, 0), Cfg(<<1>>, 5, 0), Cfg(<<6>>, 2, 0), Cfg(<<1, 6>>, 2, 0) >>
FiRels == FlattenSeq([k \in 1..3 |->
            << Rel("field=dE/ddipole", <<1, 1, OV(k), -1, 1 + k, OE, 1, 1, OE>>),
               Rel("field:noE-accumulator", <<1, 1, OVn(k), -1, 1, OV(k)>>),
               Rel("field:accumulates", <<1, 6, OV(k), -1, 1, OV(k), -1, 5, OV(k)>>) >>])
          \o << Rel("field:returned-energy", <<1, 1, ORet, -1, 1, OE>>),
                Rel("field:returned-energy", <<1, 1, ORetN, -1, 1, OE>>),
                Rel("field:returned-energy:accumulates", <<1, 6, ORet, -1, 1, OE, -1, 5, OE>>),
                Rel("segment-energy:accumulates", <<1, 6, OSeg, -1, 1, OE, -1, 5, OE>>) >>
FiExact == IF Pyth THEN [k \in 1..3 |-> <<"field:cartesian", 1, OV(k)>> \o
                           ExactTerms(Sub5(ENums(FiA, FiBk(k)), ENums(FiA, FiB)), Lv)]
           ELSE <<>>
FiTheorems == \A k \in 1..3 :
   \* linear in the dipole: the difference does not depend on the dipole B already carries
   Sub5(ENums(FiA, FiBk(k)), ENums(FiA, FiB))
     = ENums(FiA, [FiB EXCEPT !.r = 1, !.q = 0, !.d = Unit3(k), !.s = Zero5])

\* ---------------------------------------------------------------- thole
PolRoot(a) == Isqrt0(Max2(a[1], Max2(a[2], a[3])))
ThA == Site(1, o, 0, 1, Zero3, Zero5, PolList[c.pa], Zero3)
ThB == Site(1, Add(o, v), 0, -1, Zero3, Zero5, PolList[c.pb], Zero3)
ThShift(j) == ShiftOf(GOf(j), RefOf(j), T0Of(j))
ThSites == <<ThA, ThB>> \o FlattenSeq([j \in 1..NGT |-> <<Act(GOf(j), ThShift(j), ThA), Act(GOf(j), ThShift(j), ThB)>>])
Dm2 == 3 * c.dm
ThCfgs == << Cfg(<<1>>, 2, c.dm), Cfg(<<2>>, 1, c.dm), Cfg(<<1>>, 2, DBig), Cfg(<<1>>, 2, Dm2) >>
          \o [j \in 1..NGT |-> Cfg(<<2 * j + 1>>, 2 * j + 2, c.dm)]
Pairs9 == [n \in 1..9 |-> <<((n - 1) \div 3) + 1, ((n - 1) % 3) + 1>>]
\* column of the single non-zero entry of row i of a signed permutation
ColOf(g, i) == CHOOSE a \in 1..3 : g[i][a] # 0
\* a u^3 = (dm/100) |R|^3 / (ra rb) at unit exponent 0, decided with a factor-2 margin
UndampedSure == c.u = 0 /\ c.dm * Lv * Lv * Lv >= 8000 * PolRoot(ThA.a) * PolRoot(ThB.a)
ThRels ==
  << Rel("thole:symmetric", <<1, 1, OT(1, 2), -1, 1, OT(2, 1)>>),
     Rel("thole:symmetric", <<1, 1, OT(1, 3), -1, 1, OT(3, 1)>>),
     Rel("thole:symmetric", <<1, 1, OT(2, 3), -1, 1, OT(3, 2)>>),
     Rel("thole:undamped:traceless", <<1, 3, OT(1, 1), 1, 3, OT(2, 2), 1, 3, OT(3, 3)>>) >>
  \o [n \in 1..9 |-> Rel("thole:exchange", <<1, 1, OT(Pairs9[n][1], Pairs9[n][2]), -1, 2, OT(Pairs9[n][1], Pairs9[n][2])>>)]
  \o FlattenSeq([j \in 1..NGT |-> [n \in 1..9 |->
        LET g == GOf(j)  i == Pairs9[n][1]  jj == Pairs9[n][2]  a == ColOf(g, i)  b == ColOf(g, jj)
        IN Rel(MotionName(g, 0) \o ":thole", <<1, 4 + j, OT(i, jj), 0 - g[i][a] * g[jj][b], 1, OT(a, b)>>)]])
  \o (IF UndampedSure
      THEN [n \in 1..9 |-> Rel("thole:large-separation:equals-undamped",
                               <<1, 1, OT(Pairs9[n][1], Pairs9[n][2]), -1, 3, OT(Pairs9[n][1], Pairs9[n][2])>>)]
      ELSE <<>>)
ThExact == IF Pyth THEN [n \in 1..9 |-> <<"thole:undamped:value", 3, OT(Pairs9[n][1], Pairs9[n][2]), Lv,
                                          TholeUndampedNum(v, Pairs9[n][1], Pairs9[n][2]), 1, 5, 3>>]
           ELSE <<>>
\* <<clause, sign, cfg lo (0 = the constant zero), obs, cfg hi, obs>>:  sign*lo <= sign*hi
OffDiag == << <<1, 2>>, <<1, 3>>, <<2, 3>> >>
ThBnd == FlattenSeq([n \in 1..3 |->
           LET i == OffDiag[n][1]  j == OffDiag[n][2]  sg == 0 - Sgn(v[i] * v[j]) IN
           IF sg = 0 THEN <<>>
           ELSE << <<"thole:damping-sign", sg, 0, 0, 1, OT(i, j)>>,
                   <<"thole:damping-monotone", sg, 1, OT(i, j), 4, OT(i, j)>>,
                   <<"thole:bounded-by-undamped", sg, 4, OT(i, j), 3, OT(i, j)>> >>])
ThTheorems == /\ IsSquare(Max2(ThA.a[1], Max2(ThA.a[2], ThA.a[3])))
              /\ IsSquare(Max2(ThB.a[1], Max2(ThB.a[2], ThB.a[3])))
              /\ TholeUndampedNum(v, 1, 1) + TholeUndampedNum(v, 2, 2) + TholeUndampedNum(v, 3, 3) = 0
              /\ \A i \in 1..3, j \in 1..3 : TholeUndampedNum(v, i, j) = TholeUndampedNum(v, j, i)
              /\ \A j \in 1..NGT : LET g == GOf(j) IN
                   /\ PolRoot(DiagConj(g, ThA.a)) = PolRoot(ThA.a)        \* damping radius is invariant
                   /\ \A i \in 1..3, jj \in 1..3 :                         \* undamped tensor is covariant
                        TholeUndampedNum(MV(g, v), i, jj)
                          = g[i][ColOf(g, i)] * g[jj][ColOf(g, jj)] * TholeUndampedNum(v, ColOf(g, i), ColOf(g, jj))

\* ---------------------------------------------------------------- induced
InA == WithInduced(SiteOf(c.ia, 1, o, PolList[c.pa]), IndList[(H % 4) + 1])
InB == WithInduced(SiteOf(c.ib, 1, Add(o, v), PolList[2]), IndList[((H \div 4) % 4) + 1])
InSites == <<InA, InB, WithInduced(InB, Unit3(1)), WithInduced(InB, Unit3(2)), WithInduced(InB, Unit3(3))>>
InCfgs == << Cfg(<<1>>, 2, c.dm), Cfg(<<1>>, 3, c.dm), Cfg(<<1>>, 4, c.dm), Cfg(<<1>>, 5, c.dm), Cfg(<<2>>, 1, c.dm) >>
InRels == FlattenSeq([k \in 1..3 |->
            << Rel("induced-field=dE/ddipole", <<1, 1, OIV(k), -1, 1 + k, OII>>),
               Rel("induced-field=thole*dipole", <<1, 1, OIV(k), 0 - InA.i[1], 1, OT(1, k), 0 - InA.i[2], 1, OT(2, k),
                                                   0 - InA.i[3], 1, OT(3, k)>>) >>])
          \o << Rel("induced-energy:exchange", <<1, 1, OII, -1, 5, OII>>),
                Rel("induced-static-energy", <<1, 1, OIS, 0 - InB.i[1], 1, OV(1), 0 - InB.i[2], 1, OV(2), 0 - InB.i[3], 1, OV(3),
                                               0 - InA.i[1], 5, OV(1), 0 - InA.i[2], 5, OV(2), 0 - InA.i[3], 5, OV(3)>>) >>
          \o [k \in 1..3 |-> Rel("ddi:multiply=induced-field", <<1, 1, ODm(k), -1, 1, OIV(k)>>)]
          \o FlattenSeq([n \in 1..9 |-> LET i == Pairs9[n][1]  j == Pairs9[n][2] IN
                << Rel("ddi:block=thole", <<1, 1, ODa(i, j), -1, 1, OT(i, j)>>),
                   Rel("ddi:operator-symmetric", <<1, 1, ODb(i, j), -1, 1, ODa(j, i)>>) >>])

\* ---------------------------------------------------------------- theorems and export
FamSites == IF c.fam = "motion" THEN MoSites ELSE IF c.fam = "exact" THEN <<ExA, ExB>>
            ELSE IF c.fam = "bilinear" THEN BiSites ELSE IF c.fam = "field" THEN FiSites
            ELSE IF c.fam = "thole" THEN ThSites ELSE InSites
Theorems == ph = 1 =>
  /\ LET fs == TLCEval(FamSites) IN \A n \in 1..Len(fs) : WellFormed(fs[n])
  /\ v # Zero3
  /\ c.fam = "motion" => MoTheorems
  /\ c.fam = "exact" => ExTheorems
  /\ c.fam = "bilinear" => BiTheorems
  /\ c.fam = "field" => FiTheorems
  /\ c.fam = "thole" => ThTheorems

Rec(sites, cfgs, rels, exact, bnd, rot) ==
  LET ss == TLCEval(sites) IN
  [fam |-> c.fam, u |-> c.u, sites |-> [n \in 1..Len(ss) |-> Flat(ss[n])], cfg |-> cfgs,
   rel |-> rels, exact |-> exact, bnd |-> bnd, rot |-> rot]
Vector == (Emit /\ ph = 1) =>
  PrintT(ToJson(
    IF c.fam = "motion" THEN Rec(MoSites, MoCfgs, MoRels, <<>>, <<>>, MoRot)
    ELSE IF c.fam = "exact" THEN Rec(<<ExA, ExB>>, <<Cfg(<<1>>, 2, 0), Cfg(<<2>>, 1, 0)>>, <<>>, ExExact, <<>>, <<>>)
    ELSE IF c.fam = "bilinear" THEN Rec(BiSites, BiCfgs, BiRels, <<>>, <<>>, <<>>)
    ELSE IF c.fam = "field" THEN Rec(FiSites, FiCfgs, FiRels, FiExact, <<>>, <<>>)
    ELSE IF c.fam = "thole" THEN Rec(ThSites, ThCfgs, ThRels, ThExact, ThBnd, <<>>)
    ELSE Rec(InSites, InCfgs, InRels, <<>>, <<>>, <<>>)))
=============================================================================
