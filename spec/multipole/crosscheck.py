#!/usr/bin/env python3
"""Throw-away cross-check of the DERIVATIONS in Multipole.tla (not part of any registered check,
does not touch the code under test).  Transcribes M2/Sph/ActS and the closed forms, and ENums, and
compares them with first principles in exact rational / 60-digit arithmetic:

 1. the transformation of the five spherical quadrupole components under the 48 signed
    permutations against the DEFINITION of the real spherical moments of an explicit point-charge
    cluster (Q20 = sum q (3z^2-r^2)/2, Q21c = sqrt3 sum q xz, Q21s = sqrt3 sum q yz,
    Q22c = sqrt3/2 sum q (x^2-y^2), Q22s = sqrt3 sum q xy): move the cluster, recompute;
 2. the five exact orders of the energy (ENums) against the Coulomb energy of two explicit
    point-charge clusters realising (q, d, Theta) with arm length h -> 0 (error must fall as h^2).
"""
import itertools
import random
from decimal import Decimal, getcontext
from fractions import Fraction as F

getcontext().prec = 70


def M2(s):
    return [[s[3] - s[0], s[4], s[1]], [s[4], -s[0] - s[3], s[2]], [s[1], s[2], 2 * s[0]]]


def Sph(M):
    return [F(M[2][2], 2), M[0][2], M[1][2], F(M[0][0] - M[1][1], 2), M[0][1]]


def mm(A, B):
    return [[sum(A[i][k] * B[k][j] for k in range(3)) for j in range(3)] for i in range(3)]


def mt(A):
    return [[A[j][i] for j in range(3)] for i in range(3)]


def mv(A, v):
    return [sum(A[i][k] * v[k] for k in range(3)) for i in range(3)]


def ActS(R, s):
    return Sph(mm(mm(R, M2(s)), mt(R)))


def G48():
    out = []
    for pm in itertools.permutations(range(3)):
        for sg in itertools.product((1, -1), repeat=3):
            out.append([[sg[i] if j == pm[i] else 0 for j in range(3)] for i in range(3)])
    return out


Z4 = [[0, -1, 0], [1, 0, 0], [0, 0, 1]]
C3 = [[0, 0, 1], [1, 0, 0], [0, 1, 0]]
MZ = [[1, 0, 0], [0, 1, 0], [0, 0, -1]]
INV = [[-1, 0, 0], [0, -1, 0], [0, 0, -1]]
closed = {
    "Z4": (Z4, lambda s: [s[0], -s[2], s[1], -s[3], -s[4]]),
    "C3": (C3, lambda s: [F(-s[0] - s[3], 2), s[2], s[4], F(3 * s[0] - s[3], 2), s[1]]),
    "Mz": (MZ, lambda s: [s[0], -s[1], -s[2], s[3], s[4]]),
    "Inv": (INV, lambda s: list(s)),
}


def cluster_s(cl):
    """lattice components s = (Q20, sqrt3 Q21c, sqrt3 Q21s, sqrt3 Q22c, sqrt3 Q22s) from the definitions"""
    q20 = sum(q * F(3 * z * z - (x * x + y * y + z * z), 2) for q, (x, y, z) in cl)
    return [q20, 3 * sum(q * x * z for q, (x, y, z) in cl), 3 * sum(q * y * z for q, (x, y, z) in cl),
            F(3, 2) * sum(q * (x * x - y * y) for q, (x, y, z) in cl), 3 * sum(q * x * y for q, (x, y, z) in cl)]


def check_transformation():
    rnd = random.Random(15)
    n = 0
    for trial in range(40):
        cl = [(rnd.randint(-3, 3), tuple(rnd.randint(-2, 2) for _ in range(3))) for _ in range(7)]
        s = cluster_s(cl)
        for R in G48():
            moved = [(q, tuple(mv(R, list(p)))) for q, p in cl]
            assert cluster_s(moved) == ActS(R, s), (R, s)
            n += 1
        for name, (R, f) in closed.items():
            assert ActS(R, s) == f(s), name
    print("transformation of the spherical quadrupole components: %d cluster images agree with ActS; closed forms agree" % n)


def ENums(A, B):
    R = [B["p"][i] - A["p"][i] for i in range(3)]
    L2 = sum(x * x for x in R)
    MA, MB = M2(A["s"]), M2(B["s"])
    dot = lambda a, b: sum(x * y for x, y in zip(a, b))
    quad = lambda M, v, w: dot(v, mv(M, w))
    aM, bM = quad(MA, R, R), quad(MB, R, R)
    frob = sum(MA[i][j] * MB[i][j] for i in range(3) for j in range(3))
    return [A["q"] * B["q"],
            -(A["q"] * dot(R, B["d"]) - B["q"] * dot(R, A["d"])),
            A["q"] * bM + B["q"] * aM - 2 * (3 * dot(A["d"], R) * dot(B["d"], R) - L2 * dot(A["d"], B["d"])),
            5 * dot(A["d"], R) * bM - 2 * L2 * quad(MB, A["d"], R) - 5 * dot(B["d"], R) * aM + 2 * L2 * quad(MA, B["d"], R),
            35 * aM * bM - 20 * L2 * dot(mv(MA, R), mv(MB, R)) + 2 * L2 * L2 * frob], L2


DEN = [1, 1, 2, 2, 12]
POW = [1, 3, 5, 7, 9]


def spec_energy(A, B):
    nums, L2 = ENums(A, B)
    L = Decimal(L2).sqrt()
    return sum(Decimal(nums[k]) / (Decimal(DEN[k]) * L ** POW[k]) for k in range(5))


def cluster(S, h):
    """point charges realising exactly charge q, dipole d, quadrupole Theta = M2(s)/2 (and nothing of
    lower order spurious); higher moments are O(h^2) relative"""
    out = [(F(S["q"]), [F(x) for x in S["p"]])]
    p = S["p"]
    for k in range(3):
        if S["d"][k]:
            c = F(S["d"][k]) / (2 * h)
            for sg in (1, -1):
                pos = [F(x) for x in p]
                pos[k] += sg * h
                out.append((sg * c, pos))
    M = M2(S["s"])
    for a in range(3):             # diagonal: c_a at +-h e_a, c_a = Theta_aa / (3 h^2); sum c_a = 0 (traceless)
        if M[a][a]:
            c = F(M[a][a], 2) / (3 * h * h)
            for sg in (1, -1):
                pos = [F(x) for x in p]
                pos[a] += sg * h
                out.append((c, pos))
    for a in range(3):             # off-diagonal: +c at +-(h e_a + h e_b), -c at +-(h e_a - h e_b), c = Theta_ab / (6 h^2)
        for b in range(a + 1, 3):
            if M[a][b]:
                c = F(M[a][b], 2) / (6 * h * h)
                for sa, sb in ((1, 1), (-1, -1), (1, -1), (-1, 1)):
                    pos = [F(x) for x in p]
                    pos[a] += sa * h
                    pos[b] += sb * h
                    out.append((c * sa * sb, pos))
    return out


def dec(fr):
    return Decimal(fr.numerator) / Decimal(fr.denominator)


def coulomb(ca, cb):
    e = Decimal(0)
    for qa, pa in ca:
        for qb, pb in cb:
            d2 = sum((pa[i] - pb[i]) ** 2 for i in range(3))
            e += dec(qa * qb) / dec(d2).sqrt()
    return e


def check_energy():
    rnd = random.Random(7)
    worst = 0
    cases = 0
    basis = [[2, 0, 0, 0, 0], [0, 1, 0, 0, 0], [0, 0, 1, 0, 0], [0, 0, 0, 2, 0], [0, 0, 0, 0, 1], [1, 2, -1, 3, 1], [-2, 0, 3, 0, 1]]
    for trial in range(60):
        def site(p):
            r = rnd.randint(0, 2)
            s = rnd.choice(basis) if r == 2 else [0] * 5
            return dict(p=p, q=rnd.randint(-3, 3), d=[rnd.randint(-3, 3) for _ in range(3)] if r >= 1 else [0, 0, 0], s=s)
        A = site([0, 0, 0])
        B = site(rnd.choice([[1, 2, 2], [0, -3, 4], [2, 3, -6], [0, 0, 1], [1, 1, 0], [1, -2, 3], [-1, 1, 1]]))
        ref = spec_energy(A, B)
        errs = []
        for h in (F(1, 1000), F(1, 10000)):
            errs.append(abs(coulomb(cluster(A, h), cluster(B, h)) - ref))
        scale = max(abs(ref), Decimal(1))
        assert errs[0] < Decimal("1e-4") * scale, (A, B, ref, errs)
        assert errs[1] <= errs[0] * Decimal("0.011") + Decimal("1e-40"), (A, B, ref, errs)   # error falls as h^2
        worst = max(worst, errs[1] / scale)
        cases += 1
    print("energy orders (ENums): %d random site pairs, cluster energy -> spec value as h^2, worst rel. error at h=1e-4: %.2e"
          % (cases, worst))


if __name__ == "__main__":
    check_transformation()
    check_energy()
