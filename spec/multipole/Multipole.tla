----------------------------- MODULE Multipole -----------------------------
(* Property C15 (partial): classical multipole sites (charge, dipole, quadrupole) of
   votca::xtp::StaticSite / PolarSite on an INTEGER LATTICE, the action of the lattice
   motions (translations by integer vectors and the 48 signed permutation matrices = the
   symmetry group of the cube, 24 of them proper rotations) on sites, and builders for
   RELATIONS between observations of the real eeInteractor.

   A relation is a linear equation with integer coefficients between outputs of the real
   code,  sum_j coef_j * obs(cfg_j, o_j) = 0;  the spec only says WHICH instances are
   related and how.  Where the value itself is an exact rational on the lattice
   (separation vectors of integer length: (1,2,2), (0,3,4), (2,3,6), ...), the spec states
   it exactly (ENums / TholeUndampedNum).

   LATTICE.  position p in Z^3 (real position = p * 2^u bohr, u the record's unit exponent);
   charge q in Z; dipole d in Z^3 stored by the code as Q_(1..3) = (x, y, z);
   quadrupole: the code stores the five real spherical components
        Q20, Q21c, Q21s, Q22c, Q22s              (StaticSite::Q_(4..8))
   related to the traceless Cartesian tensor Theta (staticsite.cc CalculateCartesianMultipole) by
        Theta_zz = Q20,  Theta_xx = (-Q20 + sqrt3 Q22c)/2,  Theta_yy = (-Q20 - sqrt3 Q22c)/2,
        Theta_xy = sqrt3/2 Q22s,  Theta_xz = sqrt3/2 Q21c,  Theta_yz = sqrt3/2 Q21s.
   The lattice is  s = <<s0,s1,s2,s3,s4>> = <<Q20, sqrt3 Q21c, sqrt3 Q21s, sqrt3 Q22c, sqrt3 Q22s>>
   in Z^5 with s0 + s3 even  (i.e. Q20 = s0, Q2m = s_m / sqrt3: the unit of the four
   non-axial components is 1/sqrt3).  Then M = 2 Theta is an integer matrix (M2 below)
   and the lattice is closed under the 48 signed permutations (theorem QuadClosed).     *)
EXTENDS Integers, Sequences, FiniteSets, TLC

\* ---------------------------------------------------------------- vectors and matrices
Dot(a, b) == a[1] * b[1] + a[2] * b[2] + a[3] * b[3]
Add(a, b) == <<a[1] + b[1], a[2] + b[2], a[3] + b[3]>>
Sub(a, b) == <<a[1] - b[1], a[2] - b[2], a[3] - b[3]>>
Scal(m, a) == <<m * a[1], m * a[2], m * a[3]>>
Norm2(a) == Dot(a, a)
Zero3 == <<0, 0, 0>>
Unit3(k) == [i \in 1..3 |-> IF i = k THEN 1 ELSE 0]

Id3 == <<<<1, 0, 0>>, <<0, 1, 0>>, <<0, 0, 1>>>>
MV(R, v) == <<Dot(R[1], v), Dot(R[2], v), Dot(R[3], v)>>
MT(R) == [i \in 1..3 |-> [j \in 1..3 |-> R[j][i]]]
MM(A, B) == [i \in 1..3 |-> [j \in 1..3 |-> A[i][1] * B[1][j] + A[i][2] * B[2][j] + A[i][3] * B[3][j]]]
Conj(R, M) == MM(MM(R, M), MT(R))                  \* R M R^T : how a rank-2 tensor moves
Det(R) == R[1][1] * (R[2][2] * R[3][3] - R[2][3] * R[3][2])
        - R[1][2] * (R[2][1] * R[3][3] - R[2][3] * R[3][1])
        + R[1][3] * (R[2][1] * R[3][2] - R[2][2] * R[3][1])
Tr(M) == M[1][1] + M[2][2] + M[3][3]
Frob(A, B) == Dot(A[1], B[1]) + Dot(A[2], B[2]) + Dot(A[3], B[3])     \* sum_ij A_ij B_ij
Quad(M, v, w) == Dot(v, MV(M, w))                                     \* v^T M w

\* ---------------------------------------------------------------- the group of the cube
PermList == << <<1, 2, 3>>, <<2, 3, 1>>, <<3, 1, 2>>, <<2, 1, 3>>, <<1, 3, 2>>, <<3, 2, 1>> >>
SignOf(n, i) == IF (n \div (IF i = 1 THEN 1 ELSE IF i = 2 THEN 2 ELSE 4)) % 2 = 1 THEN -1 ELSE 1
\* element number n in 0..47: row i has the entry sign_i in column perm[i]  (x'_i = sign_i x_perm[i])
GAt(n) == LET pm == PermList[(n \div 8) + 1]
          IN  [i \in 1..3 |-> [j \in 1..3 |-> IF j = pm[i] THEN SignOf(n % 8, i) ELSE 0]]
G48 == {GAt(n) : n \in 0..47}
Proper(R) == Det(R) = 1
\* the declarative definition: integer matrices with R R^T = 1
Ortho == {R \in [1..3 -> [1..3 -> {-1, 0, 1}]] : MM(R, MT(R)) = Id3}

\* generators used for the closed-form table of the quadrupole action
GenZ4 == <<<<0, -1, 0>>, <<1, 0, 0>>, <<0, 0, 1>>>>      \* rotation by 90 degrees about z: x -> y, y -> -x
GenC3 == <<<<0, 0, 1>>, <<1, 0, 0>>, <<0, 1, 0>>>>       \* x -> y -> z -> x  (R e_x = e_y)
GenInv == <<<<-1, 0, 0>>, <<0, -1, 0>>, <<0, 0, -1>>>>   \* inversion
GenMz == <<<<1, 0, 0>>, <<0, 1, 0>>, <<0, 0, -1>>>>      \* mirror z -> -z
RECURSIVE Closure(_, _)
Closure(S, gens) == LET S2 == S \cup {MM(g, h) : g \in gens, h \in S}
                    IN IF S2 = S THEN S ELSE Closure(S2, gens)

\* ---------------------------------------------------------------- quadrupole lattice
QuadOK(s) == (s[1] + s[4]) % 2 = 0
\* M = 2 Theta (integer, symmetric, traceless)
M2(s) == << <<s[4] - s[1], s[5], s[2]>>,
            <<s[5], 0 - s[1] - s[4], s[3]>>,
            <<s[2], s[3], 2 * s[1]>> >>
\* inverse map (StaticSite::CalculateSphericalMultipole on the doubled tensor);
\* exact iff M33 and M11 - M22 are even
SphOK(M) == M[3][3] % 2 = 0 /\ (M[1][1] - M[2][2]) % 2 = 0
Sph(M) == <<M[3][3] \div 2, M[1][3], M[2][3], (M[1][1] - M[2][2]) \div 2, M[1][2]>>
\* THE ACTION on the five spherical components: through the Cartesian tensor, Theta' = R Theta R^T
ActS(R, s) == Sph(Conj(R, M2(s)))
\* closed forms for the generators (derived by hand from Theta' = R Theta R^T; TLC checks them
\* against ActS, and that the generators generate all 48 elements)
ActS_Z4(s) == <<s[1], 0 - s[3], s[2], 0 - s[4], 0 - s[5]>>
ActS_C3(s) == <<(0 - s[1] - s[4]) \div 2, s[3], s[5], (3 * s[1] - s[4]) \div 2, s[2]>>
ActS_Inv(s) == s
ActS_Mz(s) == <<s[1], 0 - s[2], 0 - s[3], s[4], s[5]>>

\* ---------------------------------------------------------------- sites
\* k: 0 StaticSite, 1 PolarSite;  p position;  r rank;  q charge;  d dipole (x,y,z);
\* s quadrupole lattice components;  a diagonal of the polarisability tensor (PolarSite);
\* i induced dipole (PolarSite)
Site(k, p, r, q, d, s, a, i) == [k |-> k, p |-> p, r |-> r, q |-> q, d |-> d, s |-> s, a |-> a, i |-> i]
Zero5 == <<0, 0, 0, 0, 0>>
WellFormed(S) == /\ S.r \in 0..2
                 /\ S.r < 1 => S.d = Zero3
                 /\ S.r < 2 => S.s = Zero5
                 /\ QuadOK(S.s)
DiagConj(R, a) == [i \in 1..3 |-> R[i][1] * R[i][1] * a[1] + R[i][2] * R[i][2] * a[2] + R[i][3] * R[i][3] * a[3]]
\* rigid lattice motion  x -> R x + t  of a site with everything attached to it
Act(R, t, S) == [S EXCEPT !.p = Add(MV(R, S.p), t), !.d = MV(R, S.d), !.s = ActS(R, S.s),
                          !.a = DiagConj(R, S.a), !.i = MV(R, S.i)]
\* rotation about a reference point c followed by a translation (StaticSite::Rotate, ::Translate)
ShiftOf(R, c, t0) == Add(Sub(c, MV(R, c)), t0)
Max2(a, b) == IF a >= b THEN a ELSE b
Add5(a, b) == [j \in 1..5 |-> a[j] + b[j]]
Scal5(m, a) == [j \in 1..5 |-> m * a[j]]
\* moments added / scaled (same position): the two operations of bilinearity
PlusSite(S, T) == [S EXCEPT !.r = Max2(S.r, T.r), !.q = S.q + T.q, !.d = Add(S.d, T.d), !.s = Add5(S.s, T.s)]
TimesSite(m, S) == [S EXCEPT !.q = m * S.q, !.d = Scal(m, S.d), !.s = Scal5(m, S.s)]
WithDipole(S, d) == [S EXCEPT !.r = Max2(S.r, 1), !.d = d]
WithInduced(S, i) == [S EXCEPT !.i = i]
Flat(S) == <<S.k>> \o S.p \o <<S.r, S.q>> \o S.d \o S.s \o S.a \o S.i

\* ---------------------------------------------------------------- exact energy on the lattice
(* Cartesian multipole expansion (Stone, The Theory of Intermolecular Forces, ch. 3), R = pB - pA,
   L2 = |R|^2, with operators  A: q - d.grad + (1/3) Theta:grad grad,  B: q + d.grad + (1/3) Theta:grad grad
   acting on 1/|R|.  With M = 2 Theta integer, every order is  num / (c * |R|^pow)  with an INTEGER num:
     order 1   qA qB / |R|
     order 2   -(qA (R.dB) - qB (R.dA)) / |R|^3
     order 3   [qA R'MB R + qB R'MA R - 2 (3 (dA.R)(dB.R) - L2 dA.dB)] / (2 |R|^5)
     order 4   [5 (dA.R) R'MB R - 2 L2 dA'MB R - 5 (dB.R) R'MA R + 2 L2 dB'MA R] / (2 |R|^7)
     order 5   [35 (R'MA R)(R'MB R) - 20 L2 (MA R).(MB R) + 2 L2^2 tr(MA MB)] / (12 |R|^9)
   This is the limit, named in the property statement, of the Coulomb energy of shrinking
   point-charge clusters realising the moments; the limit process is NOT part of the registered check
   (crosscheck.py compares these numerators once with explicit clusters in exact rational arithmetic). *)
ENums(A, B) ==
  LET R == Sub(B.p, A.p)
      L2 == Norm2(R)
      MA == M2(A.s)
      MB == M2(B.s)
      aM == Quad(MA, R, R)
      bM == Quad(MB, R, R)
  IN << A.q * B.q,
        0 - (A.q * Dot(R, B.d) - B.q * Dot(R, A.d)),
        A.q * bM + B.q * aM - 2 * (3 * Dot(A.d, R) * Dot(B.d, R) - L2 * Dot(A.d, B.d)),
        5 * Dot(A.d, R) * bM - 2 * L2 * Quad(MB, A.d, R) - 5 * Dot(B.d, R) * aM + 2 * L2 * Quad(MA, B.d, R),
        35 * aM * bM - 20 * L2 * Dot(MV(MA, R), MV(MB, R)) + 2 * L2 * L2 * Frob(MA, MB) >>
EDenC == <<1, 1, 2, 2, 12>>
EPow == <<1, 3, 5, 7, 9>>
Sub5(a, b) == [j \in 1..5 |-> a[j] - b[j]]

RECURSIVE IsqrtUp(_, _)
IsqrtUp(n, k) == IF (k + 1) * (k + 1) > n THEN k ELSE IsqrtUp(n, k + 1)
Isqrt0(n) == IsqrtUp(n, 0)                 \* floor(sqrt(n)), n small
IsSquare(n) == Isqrt0(n) * Isqrt0(n) = n
\* exact value as flat <<n, num_1, c_1, pow_1, order_1, ...>>: value = sum num * 2^(-u order) / (c L^pow)
ExactTerms(nums, L) == <<L>> \o [j \in 1..20 |-> LET t == ((j - 1) \div 4) + 1  f == (j - 1) % 4 IN
                                  IF f = 0 THEN nums[t] ELSE IF f = 1 THEN EDenC[t] ELSE IF f = 2 THEN EPow[t] ELSE t]

\* undamped dipole-dipole tensor T_ij = (L2 delta_ij - 3 R_i R_j) / |R|^5   (order 3)
TholeUndampedNum(R, i, j) == (IF i = j THEN Norm2(R) ELSE 0) - 3 * R[i] * R[j]
Sgn(x) == IF x > 0 THEN 1 ELSE IF x < 0 THEN -1 ELSE 0

\* ---------------------------------------------------------------- relations
\* observation numbers of a configuration (sources -> target, damping parameter d/100):
\*  0 CalcStaticEnergy_site(src1, tgt)          9 CalcStaticEnergy(seg{src..}, seg{tgt})
\*  1..3 V on tgt after ApplyStaticField<V>      4 its return value
\*  5..7 V_noE after ApplyStaticField<noE_V>     8 its return value
\*  10..18 FillTholeInteraction(src1, tgt) row-major
\*  19..21 V on tgt after ApplyInducedField<V>   22 CalcPolarEnergy(..).E_indu_indu   23 .E_indu_stat
\*  (24..44: see ODa/ODb/ODm below)
OE == 0
OV(k) == k
ORet == 4
OVn(k) == 4 + k
ORetN == 8
OSeg == 9
OT(i, j) == 10 + 3 * (i - 1) + (j - 1)
OIV(k) == 18 + k
OII == 22
OIS == 23
\*  DipoleDipoleInteraction over the two one-site segments {src1}, {tgt} (6 x 6 operator A):
\*  24..32 A(i, 3+j)   33..41 A(3+i, j)   42..44 (A * (induced dipole of src1, 0))[3+k]
ODa(i, j) == 24 + 3 * (i - 1) + (j - 1)
ODb(i, j) == 33 + 3 * (i - 1) + (j - 1)
ODm(k) == 41 + k
Cfg(srcs, tgt, damp) == <<srcs, tgt, damp>>
\* a relation: <<clause, coef, cfg, obs, coef, cfg, obs, ...>>
Rel(c, terms) == <<c>> \o terms
RECURSIVE FlattenSeq(_)
FlattenSeq(ss) == IF ss = <<>> THEN <<>> ELSE Head(ss) \o FlattenSeq(Tail(ss))
=============================================================================
