------------------------------ MODULE DdiFamily ------------------------------
(* Property C15, the many-site dipole-dipole operator (DipoleDipoleInteraction, the matrix-free
   operator of the induced-dipole solver whose off-diagonal blocks are the Thole tensors).
   TLC exports lattice families of N polarisable sites (positions on a perturbed cubic grid,
   isotropic polarisabilities 1, 4, 9, integer test vectors x and y) and states the RELATIONS between
   outputs of the real code:
     * thread independence:  op*x computed with 1 OpenMP thread = op*x computed with t threads
       (t from Threads, repeated Reps times) - the operator is a function of its arguments;
     * op*x = the dense product assembled from FillTholeInteraction(site_i, site_j) for every ordered
       pair i # j and getPInv() on the diagonal;
     * symmetry:  y.(op x) = x.(op y).
   Theorems on the spec: the N positions are pairwise distinct with distance^2 >= 4.                *)
EXTENDS Multipole, Json
CONSTANTS NSet, Threads, Reps, Damp, Emit
VARIABLES n, ph
vars == <<n, ph>>
Init == n \in NSet /\ ph = 0
Next == ph = 0 /\ ph' = 1 /\ UNCHANGED n
Spec == Init /\ [][Next]_vars

\* site number i in 0..n-1
Pos(i) == <<3 * (i % 8), 3 * ((i \div 8) % 8) + (i % 2), 3 * (i \div 64) + ((i \div 8) % 2)>>
PolOf(i) == IF i % 3 = 0 THEN 1 ELSE IF i % 3 = 1 THEN 4 ELSE 9
XOf(i, k) == ((7 * i + 3 * k) % 5) - 2
YOf(i, k) == ((3 * i + 5 * k + 1) % 7) - 3
Theorems == ph = 1 =>
  \A i \in 0..(n - 1), j \in 0..(n - 1) : i < j => Norm2(Sub(Pos(i), Pos(j))) >= 4
FlatN(f(_, _)) == [m \in 1..(3 * n) |-> f((m - 1) \div 3, ((m - 1) % 3) + 1)]
PosC(i, k) == Pos(i)[k]
Vector == (Emit /\ ph = 1) =>
  PrintT(ToJson([fam |-> "ddi", N |-> n, pos |-> FlatN(PosC), pol |-> [m \in 1..n |-> PolOf(m - 1)],
                 x |-> FlatN(XOf), y |-> FlatN(YOf), damp |-> Damp, threads |-> Threads, reps |-> Reps]))
=============================================================================
