------------------------------- MODULE SiteHist -------------------------------
(* Property C15, mode H layer: the SITE OBJECT as a sequential object with a history.
   Two long-lived site objects X1 (StaticSite or PolarSite) and X2 (PolarSite) are driven through
   call histories of the public API; the spec carries their ABSTRACT STATE
        position, rank, charge, dipole, quadrupole lattice components, and for polar sites the two
        field accumulators V and V_noE as the LIST OF CONTRIBUTIONS added since the last Reset()
   and after every call states what every observable must be:
     * getPos, getRank, Q(0..8), getDipole: exactly the abstract state (lattice numbers);
     * energies E(X1,X2), E(X2,X1), E(Xk,P), E(P,Xk) against a probe site P: those of FRESH sites
       constructed directly in the abstract state (relation between two outputs of the real code);
     * V, V_noE: the sum over the listed contributions of the field a FRESH source in the recorded
       source state puts on a FRESH target in the recorded target state (again real outputs).
   Calls: setMultipole (every rank pair old -> new), setCharge ("sets rank to 0 as well"), setPos,
   Translate, Rotate(g, centre) with the centre passed as a value (origin / other point) or as the
   REFERENCE returned by getPos() of the site itself or of the partner site, Reset,
   ApplyStaticField<V | noE_V>, ApplyInducedField<V | noE_V> from fixed sources or from the partner.
   TLC enumerates all histories up to Depth (BFS) or samples deeper ones (-simulate).               *)
EXTENDS Multipole, Json

CONSTANTS Depth,      \* length of the exported histories
          Rots,       \* sequence of group elements used by Rotate
          Tpls,       \* sequence of moment templates [r, q, d, s] used by setMultipole (one per rank at least)
          InitTpl,    \* set of template indices X1 starts with
          Kinds,      \* kinds of X1: subset of {0, 1}
          Emit
VARIABLES X1, X2, h
vars == <<X1, X2, h>>

\* fixed sources and the probe (fresh sites, never modified)
Probe == Site(0, <<1, 3, -2>>, 2, 1, <<1, -1, 2>>, <<1, 2, -1, 3, 1>>, Zero3, Zero3)
Src1 == Site(0, <<-2, 1, 0>>, 2, -2, <<0, 3, 1>>, <<-2, 0, 3, 0, 1>>, Zero3, Zero3)
Src2 == Site(1, <<0, -3, 1>>, 1, 1, <<1, 0, -1>>, Zero5, <<4, 4, 4>>, <<2, -1, 1>>)
PointC == <<1, -2, 0>>
NewPos == <<-3, 2, 2>>
Shift == <<3, -1, 2>>

Obj(k, p, t, a, i) == [k |-> k, p |-> p, r |-> t.r, q |-> t.q, d |-> t.d, s |-> t.s, a |-> a, i |-> i,
                       V |-> <<>>, Vn |-> <<>>]
AsSite(X) == Site(X.k, X.p, X.r, X.q, X.d, X.s, X.a, X.i)

InitX2 == Obj(1, <<3, 1, 5>>, Tpls[2], <<9, 9, 9>>, <<0, 1, 1>>)
StateJson(X) == [site |-> Flat(AsSite(X)), V |-> X.V, Vn |-> X.Vn]
\* the history starts with the construction of the two objects (step 0)
Init == \E k \in Kinds, t \in InitTpl :
          LET I1 == Obj(k, <<2, -1, 3>>, Tpls[t], IF k = 1 THEN <<1, 1, 1>> ELSE Zero3, IF k = 1 THEN <<1, 0, -2>> ELSE Zero3) IN
          /\ X1 = I1
          /\ X2 = InitX2
          /\ h = << [call |-> [op |-> "construct", x |-> 0], s1 |-> StateJson(I1), s2 |-> StateJson(InitX2)] >>

\* ---- abstract effect of the calls --------------------------------------------------------------
SetMultipole(X, t) == [X EXCEPT !.r = t.r, !.q = t.q, !.d = t.d, !.s = t.s]
SetCharge(X, q) == [X EXCEPT !.r = 0, !.q = q, !.d = Zero3, !.s = Zero5]      \* a pure charge
SetPos(X, p) == [X EXCEPT !.p = p]
Translate(X, t) == [X EXCEPT !.p = Add(X.p, t)]
\* rotation about the point c (a VALUE: whatever the centre argument denotes when the call is made)
Rotate(X, g, c) == [X EXCEPT !.p = Add(c, MV(g, Sub(X.p, c))), !.d = MV(g, X.d), !.s = ActS(g, X.s),
                             !.i = X.i]     \* the induced dipole is not a moment of the site: Rotate leaves it
Reset(X) == [X EXCEPT !.V = <<>>, !.Vn = <<>>]
\* <<kind (0 static field, 1 induced field)>> \o source state \o target state at the time of the call
Contribution(kind, S, X) == <<kind>> \o Flat(AsSite(S)) \o Flat(AsSite(X))
AddField(X, m, kind, S) == IF m = "V" THEN [X EXCEPT !.V = Append(X.V, Contribution(kind, S, X))]
                           ELSE [X EXCEPT !.Vn = Append(X.Vn, Contribution(kind, S, X))]

Centre(cm, X, Y) == IF cm = "origin" THEN Zero3 ELSE IF cm = "point" THEN PointC
                    ELSE IF cm = "own" THEN X.p ELSE Y.p
SrcOf(name, Y) == IF name = "S1" THEN Src1 ELSE IF name = "S2" THEN Src2 ELSE AsSite(Y)

\* a call on object x (1 or 2); X the object, Y its partner; returns the new X
Calls(X, Y) ==
     {[op |-> "setMultipole", t |-> t] : t \in 1..Len(Tpls)}
  \cup {[op |-> "setCharge", q |-> 3]}
  \cup {[op |-> "setPos", p |-> NewPos], [op |-> "translate", p |-> Shift]}
  \cup {[op |-> "rotate", g |-> g, cm |-> cm] : g \in 1..Len(Rots), cm \in {"origin", "point", "own", "partner"}}
  \cup (IF X.k = 1
        THEN {[op |-> "reset"]}
             \cup {[op |-> "staticField", src |-> s, m |-> m] : s \in {"S1", "S2", "partner"}, m \in {"V", "noE"}}
             \cup {[op |-> "inducedField", src |-> s, m |-> m] :
                     s \in (IF Y.k = 1 THEN {"S2", "partner"} ELSE {"S2"}), m \in {"V", "noE"}}
        ELSE {})
Effect(call, X, Y) ==
  IF call.op = "setMultipole" THEN SetMultipole(X, Tpls[call.t])
  ELSE IF call.op = "setCharge" THEN SetCharge(X, call.q)
  ELSE IF call.op = "setPos" THEN SetPos(X, call.p)
  ELSE IF call.op = "translate" THEN Translate(X, call.p)
  ELSE IF call.op = "rotate" THEN Rotate(X, Rots[call.g], Centre(call.cm, X, Y))
  ELSE IF call.op = "reset" THEN Reset(X)
  ELSE IF call.op = "staticField" THEN AddField(X, call.m, 0, SrcOf(call.src, Y))
  ELSE AddField(X, call.m, 1, SrcOf(call.src, Y))

\* JSON form of a call (the driver needs the numbers, not the indices)
CallJson(x, call) ==
  IF call.op = "setMultipole" THEN [op |-> call.op, x |-> x, r |-> Tpls[call.t].r,
                                    m |-> <<Tpls[call.t].q>> \o Tpls[call.t].d \o Tpls[call.t].s]
  ELSE IF call.op = "setCharge" THEN [op |-> call.op, x |-> x, q |-> call.q]
  ELSE IF call.op \in {"setPos", "translate"} THEN [op |-> call.op, x |-> x, p |-> call.p]
  ELSE IF call.op = "rotate" THEN [op |-> call.op, x |-> x, g |-> Rots[call.g][1] \o Rots[call.g][2] \o Rots[call.g][3],
                                   cm |-> call.cm, c |-> IF call.cm = "point" THEN PointC ELSE Zero3]
  ELSE IF call.op = "reset" THEN [op |-> call.op, x |-> x]
  ELSE [op |-> call.op, x |-> x, src |-> call.src, m |-> call.m]
Step(x, call, N1, N2) == [call |-> CallJson(x, call), s1 |-> StateJson(N1), s2 |-> StateJson(N2)]

Next == /\ Len(h) < Depth + 1
        /\ \/ \E call \in Calls(X1, X2) :
                LET N == Effect(call, X1, X2) IN
                /\ N.p # X2.p                                   \* sites stay at distinct positions
                /\ N.p # Probe.p /\ N.p # Src1.p /\ N.p # Src2.p
                /\ X1' = N /\ UNCHANGED X2
                /\ h' = Append(h, Step(1, call, N, X2))
           \/ \E call \in Calls(X2, X1) :
                LET N == Effect(call, X2, X1) IN
                /\ N.p # X1.p
                /\ N.p # Probe.p /\ N.p # Src1.p /\ N.p # Src2.p
                /\ X2' = N /\ UNCHANGED X1
                /\ h' = Append(h, Step(2, call, X1, N))
Spec == Init /\ [][Next]_vars

\* ---- theorems on the spec ------------------------------------------------------------------------
Theorems ==
  /\ WellFormed(AsSite(X1)) /\ WellFormed(AsSite(X2))
  /\ X1.p # X2.p
  \* a common rotation about ANY centre (also one of the two positions) keeps the pair's distance and every
  \* exact energy order; rotating about its own position keeps a site where it is
  /\ \A g \in 1..Len(Rots), cm \in {"origin", "point", "own", "partner"} :
       LET c == Centre(cm, X1, X2)
           N1 == Rotate(X1, Rots[g], c)
           N2 == Rotate(X2, Rots[g], c)
       IN /\ Norm2(Sub(N2.p, N1.p)) = Norm2(Sub(X2.p, X1.p))
          /\ ENums(AsSite(N1), AsSite(N2)) = ENums(AsSite(X1), AsSite(X2))
          /\ cm = "own" => N1.p = X1.p
          /\ cm = "partner" => N2.p = X2.p
  /\ Reset(X2).V = <<>> /\ Reset(X2).Vn = <<>>
  /\ \A t \in 1..Len(Tpls) : LET N == SetMultipole(X1, Tpls[t]) IN
        N.r = Tpls[t].r /\ (N.r = 0 => (N.d = Zero3 /\ N.s = Zero5))
  /\ LET N == SetCharge(X1, 3) IN ENums(AsSite(N), Probe) = <<3 * Probe.q, 0 - 3 * Dot(Sub(Probe.p, N.p), Probe.d),
                                                             3 * Quad(M2(Probe.s), Sub(Probe.p, N.p), Sub(Probe.p, N.p)), 0, 0>>

Vector == (Emit /\ Len(h) = Depth + 1) =>
  PrintT(ToJson([fam |-> "history", probe |-> Flat(Probe), S1 |-> Flat(Src1), S2 |-> Flat(Src2), steps |-> h]))
=============================================================================
