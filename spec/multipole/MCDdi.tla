---- MODULE MCDdi ----
EXTENDS DdiFamily
MCN == {50, 400}
MCThreads == <<2, 4, 8>>
====
