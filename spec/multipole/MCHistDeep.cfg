SPECIFICATION Spec
CONSTANTS
  Depth = 5
  Rots <- MCRots
  Tpls <- MCTpls
  InitTpl <- MCInit
  Kinds <- MCKinds
  Emit = TRUE
INVARIANTS Theorems Vector
CHECK_DEADLOCK FALSE
