---- MODULE MCHistThorough ----
EXTENDS SiteHist
T(r, q, d, s) == [r |-> r, q |-> q, d |-> d, s |-> s]
MCTpls == << T(0, -2, Zero3, Zero5), T(1, 1, <<1, 2, -3>>, Zero5), T(2, -1, <<0, 3, 1>>, <<1, 2, -1, 3, 1>>) >>
MCRots == << GenZ4, GenC3, GenMz, GenInv, GAt(13), GAt(22), GAt(29), GAt(43) >>
MCInit == {2, 3}
MCKinds == {0, 1}
====
