SPECIFICATION Spec
CONSTANTS
  Depth = 2
  Rots <- MCRots
  Tpls <- MCTpls
  InitTpl <- MCInit
  Kinds <- MCKinds
  Emit = TRUE
INVARIANTS Theorems Vector
CHECK_DEADLOCK FALSE
