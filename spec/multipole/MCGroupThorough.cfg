SPECIFICATION Spec
CONSTANTS
  HList <- MCH
INVARIANTS GroupThm
CHECK_DEADLOCK FALSE
