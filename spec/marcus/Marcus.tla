------------------------------- MODULE Marcus -------------------------------
(* C14, second half: Marcus rates obey detailed balance, are positive and linear in J^2.

   Log-lattice: every energy is an INTEGER in units of kT, so the logarithm of a rate is
       ln k = ln(2 pi/hbar) + ln J2 - 1/2 ln(4 pi lam kT) + X/(4 lam)       X = -(lam - G)^2
   with integer lam (total reorganisation energy of that direction) and integer G (driving
   force of that direction).  A rate is represented by the record
       [j2 |-> J2, lam |-> lam, xn |-> X, xd |-> 4 lam]
   (prefactor constants are common to both directions and cancel in every law below).

   Spec side (declarative, DESIGN 7.4): a carrier of charge q on site i at position r_i in
   a field F has energy U_i = E_i - q F.r_i.  Detailed balance:
       ln(k12/k21) = (U_1 - U_2)/kT = (E_1 - E_2) + q F.R,     R = r_2 - r_1
   q = -1 electron, +1 hole, 0 singlet/triplet.  E_i = site energy = electrostatic part +
   internal part.  Total reorganisation energy of a direction = inner-sphere part of that
   direction + the pair's outer-sphere part lambda_O (a property of the pair, the same in
   both directions).  The law is claimed where both totals are equal.

   Algo side: transcription of Rate_Engine::Rate / Marcusrate (xtp/src/libxtp/rate_engine.cc)
   with QMPair::getReorg12/getReorg21/getdE12 and Segment::getSiteEnergy.              *)
EXTENDS Integers, Sequences, TLC, Json

CONSTANTS Carriers,    \* subset of {"e","h","s","t"}
          EM1, EM2,    \* Segment::setEMpoles values (units kT) of segment 1 / 2
          UX1, UX2,    \* Segment::setU_xX_nN
          NSet, XSet,  \* Segment::setU_nX_nN / setU_xN_xX values (both segments)
          LOSet,       \* QMPair::setLambdaO
          RSet, FSet,  \* pair vector R (bohr) / field F (kT/bohr), integer 3-vectors
          JSet,        \* multipliers m: the rate is evaluated at J2 = J0 and at J2 = m J0
          TSet,        \* temperature index (the reals are chosen by the harness)
          EqualOnly,   \* TRUE: only vectors with equal forward/backward total reorganisation
          Emit

VARIABLES v
Dot(a, b) == a[1] * b[1] + a[2] * b[2] + a[3] * b[3]

Domain == [c : Carriers, em1 : EM1, em2 : EM2, ux1 : UX1, ux2 : UX2,
           n1 : NSet, x1 : XSet, n2 : NSet, x2 : XSet, lo : LOSet,
           R : RSet, F : FSet, jm : JSet, tk : TSet]

\* ------------------------------------------------------------------ Spec
Charge(c) == CASE c = "e" -> -1 [] c = "h" -> 1 [] OTHER -> 0
SiteE1(w) == w.em1 + w.ux1
SiteE2(w) == w.em2 + w.ux2
\* (U_1 - U_2)/kT with U_i = E_i - q F.r_i
SpecLnRatio(w) == (SiteE1(w) - SiteE2(w)) + Charge(w.c) * Dot(w.F, w.R)
SpecLam12(w) == (w.n1 + w.x2) + w.lo
SpecLam21(w) == (w.x1 + w.n2) + w.lo
SpecEqualReorg(w) == SpecLam12(w) = SpecLam21(w)
\* Marcus rate of a step with energy gain G (initial minus final) and reorganisation lam
SpecMarcus(j2, G, lam) == [j2 |-> j2, lam |-> lam, xn |-> -((lam - G) * (lam - G)), xd |-> 4 * lam]
SpecRate12(w, j2) == SpecMarcus(j2, SpecLnRatio(w), SpecLam12(w))
SpecRate21(w, j2) == SpecMarcus(j2, -SpecLnRatio(w), SpecLam21(w))

\* ln(a/b) * a.xd * b.xd for two rate records with equal j2 and lam (prefactors cancel)
LnRatioScaled(a, b) == a.xn * b.xd - b.xn * a.xd

\* ------------------------------------------------------------------ Algo (rate_engine.cc)
AlgoCharge(c) == IF c = "e" THEN -1 ELSE IF c = "h" THEN 1 ELSE 0
\* QMPair::getReorg12 = seg1.U_nX_nN + seg2.U_xN_xX ; getReorg21 = seg1.U_xN_xX + seg2.U_nX_nN
AlgoReorg12(w) == (w.n1 + w.x2) + w.lo
AlgoReorg21(w) == (w.x1 + w.n2) + w.lo
AlgoDGField(w) == IF AlgoCharge(w.c) # 0 THEN AlgoCharge(w.c) * Dot(w.R, w.F) ELSE 0
\* QMPair::getdE12 = seg1.getSiteEnergy - seg2.getSiteEnergy ; getSiteEnergy = site_eng + U_xX_nN
AlgoDGSite(w) == (w.em1 + w.ux1) - (w.em2 + w.ux2)
AlgoDG(w) == AlgoDGSite(w) + AlgoDGField(w)
\* Marcusrate(J2, deltaG, reorg): exponent -(deltaG - reorg)^2 / (4 reorg kT)
AlgoMarcus(j2, dG, reorg) == [j2 |-> j2, lam |-> reorg,
                              xn |-> -((dG - reorg) * (dG - reorg)), xd |-> 4 * reorg]
AlgoRate12(w, j2) == AlgoMarcus(j2, AlgoDG(w), AlgoReorg12(w))
AlgoRate21(w, j2) == AlgoMarcus(j2, -AlgoDG(w), AlgoReorg21(w))

\* ------------------------------------------------------------------ model
Init == v \in {w \in Domain : EqualOnly => SpecEqualReorg(w)}
Next == UNCHANGED v
Spec == Init /\ [][Next]_v

\* the transcription computes what the declarative side says
AlgoIsSpec == /\ AlgoRate12(v, 1) = SpecRate12(v, 1)
              /\ AlgoRate21(v, 1) = SpecRate21(v, 1)
\* the Marcus expression satisfies detailed balance when both reorganisation energies agree:
\* ln(k12/k21) = [-(lam-G)^2 + (lam+G)^2]/(4 lam) = G
DetailedBalance ==
  SpecEqualReorg(v) =>
    LET a == AlgoRate12(v, 1)
        b == AlgoRate21(v, 1)
    IN  /\ a.lam = b.lam /\ a.xd = b.xd
        \* ln(k12/k21) = (a.xn - b.xn)/xd   (common denominator; keeps TLC's 32-bit integers small)
        /\ a.xn - b.xn = SpecLnRatio(v) * a.xd
\* positive: J2 > 0 and a positive reorganisation energy under the square root
Positive == LET a == AlgoRate12(v, 1)
                b == AlgoRate21(v, 1)
            IN  a.j2 > 0 /\ b.j2 > 0 /\ a.lam > 0 /\ b.lam > 0
\* linear in J2: only the j2 factor changes
LinearInJ2 == /\ AlgoRate12(v, v.jm) = [AlgoRate12(v, 1) EXCEPT !.j2 = v.jm * @]
              /\ AlgoRate21(v, v.jm) = [AlgoRate21(v, 1) EXCEPT !.j2 = v.jm * @]
\* zero field or neutral excitation: the field term vanishes
\* the exponent vanishes exactly where the driving force equals the reorganisation energy and is
\* negative elsewhere (normal and inverted region): k <= k0
ExponentNonPositive == /\ SpecRate12(v, 1).xn <= 0 /\ SpecRate21(v, 1).xn <= 0
                       /\ (SpecRate12(v, 1).xn = 0 <=> SpecLnRatio(v) = SpecLam12(v))
\* Representability guard: a rate exp(-barrier) with barrier = -xn/xd (in kT) above about 690 is
\* below the smallest normal double.  The ratio law is asserted against the real code only where BOTH
\* barriers are at most 650 (rates > 1e-300 times the prefactor); outside nothing is asserted.  There is
\* no other threshold: a barrier of 600 kT (20 K, 1 eV) obeys the law like a barrier of 6 kT.
MaxBarrier == 650
Representable(w) == /\ -SpecRate12(w, 1).xn <= MaxBarrier * SpecRate12(w, 1).xd
                    /\ -SpecRate21(w, 1).xn <= MaxBarrier * SpecRate21(w, 1).xd
NeutralIgnoresField == Charge(v.c) = 0 => SpecLnRatio(v) = SiteE1(v) - SiteE2(v)
\* reversing the field direction or the carrier sign reverses the field term
FieldAntisymmetric ==
  LET w == [v EXCEPT !.F = <<-v.F[1], -v.F[2], -v.F[3]>>]
  IN  SpecLnRatio(v) + SpecLnRatio(w) = 2 * (SiteE1(v) - SiteE2(v))

Vector == Emit =>
  PrintT(ToJson([c |-> v.c, q |-> Charge(v.c), em1 |-> v.em1, em2 |-> v.em2, ux1 |-> v.ux1,
                 ux2 |-> v.ux2, n1 |-> v.n1, x1 |-> v.x1, n2 |-> v.n2, x2 |-> v.x2, lo |-> v.lo,
                 R |-> v.R, F |-> v.F, jm |-> v.jm, tk |-> v.tk,
                 eq |-> SpecEqualReorg(v), lnratio |-> SpecLnRatio(v),
                 fr |-> Dot(v.F, v.R), lin |-> v.jm,
                 \* each direction separately: ln(k/k0) = xn/xd where k0 is the rate of the same
                 \* pair at vanishing exponent (driving force = reorganisation energy l12 / l21)
                 rep |-> Representable(v),
                 l12 |-> SpecLam12(v), l21 |-> SpecLam21(v),
                 x12n |-> SpecRate12(v, 1).xn, x12d |-> SpecRate12(v, 1).xd,
                 x21n |-> SpecRate21(v, 1).xn, x21d |-> SpecRate21(v, 1).xd]))
=============================================================================
