---- MODULE MCMarcusThorough ----
EXTENDS Marcus
MCEM1 == {-2, 1}
MCEM2 == {-1, 3}
MCUX1 == {0, 1}
MCUX2 == {0, 2}
MCN == {1, 2, 4}
MCX == {1, 3}
MCLO == {0, 1, 2}
MCR == {<<5, 0, 0>>, <<-1, 2, 2>>, <<0, -3, 1>>}
MCF == {<<0, 0, 0>>, <<1, 0, 0>>, <<-1, 1, -2>>, <<0, 2, 1>>}
====
