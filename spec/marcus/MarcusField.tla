----------------------------- MODULE MarcusField -----------------------------
(* Detailed balance with respect to the field over 13 orders of magnitude of field strength.
   Lattice: the field is F = d * kT * 2^e per bohr (d a small integer direction vector,
   e = -33 .. +7, i.e. |F| from about 1e-13 to 1e-1 atomic units at kT = 2^-10 Ha), the pair
   vector R = r * 2^-rs bohr.  The field term of the driving force is then
        q F.R / kT = q (d.r) 2^(e-rs) = m * eps,        eps = 2^(e-rs) symbolic, m integer
   and ln(k12/k21) = dE + m eps is a DYADIC rational the harness can represent exactly.
   TLC integers are 32 bit, so the law is checked coefficient-wise in eps:
        -(lam - G)^2 + (lam + G)^2 = 4 lam G      for G = a + b eps
        eps^0: (lam+a)^2 - (lam-a)^2 = 4 lam a ;  eps^1: 2(lam+a)b + 2(lam-a)b = 4 lam b ;  eps^2: b^2 - b^2 = 0
   The statement holds for EVERY field: there is no threshold below which the field term may be
   dropped (a charged carrier in a weak field still obeys detailed balance with -qF.r).       *)
EXTENDS Integers, Sequences, TLC, Json
CONSTANTS Carriers, DESet, LamSet, DSet, RSet, RShift, ESet, TSet, MaxTerm, Emit
VARIABLE v
Dot(a, b) == a[1] * b[1] + a[2] * b[2] + a[3] * b[3]
Charge(c) == CASE c = "e" -> -1 [] c = "h" -> 1 [] OTHER -> 0
RECURSIVE Pow2(_)
Pow2(n) == IF n <= 0 THEN 1 ELSE 2 * Pow2(n - 1)

Domain == [c : Carriers, dE : DESet, lam : LamSet, d : DSet, r : RSet, rs : RShift, e : ESet, tk : TSet]
\* |q F.R|/kT = |m| 2^(e-rs) stays below MaxTerm (so that exp() neither under- nor overflows)
Bounded(w) == LET m == Dot(w.d, w.r) IN
              (w.e - w.rs > 0) => (IF m < 0 THEN -m ELSE m) * Pow2(w.e - w.rs) <= MaxTerm
Init == v \in {w \in Domain : Bounded(w)}
Next == UNCHANGED v
Spec == Init /\ [][Next]_v

\* Spec: ln(k12/k21) = a + b eps
SpecA == v.dE
SpecB == Charge(v.c) * Dot(v.d, v.r)
\* Algo (rate_engine.cc): dG = dG_Site + (charge != 0 ? charge * R.F : 0)
AlgoA == v.dE
AlgoB == IF Charge(v.c) # 0 THEN Charge(v.c) * Dot(v.r, v.d) ELSE 0
AlgoIsSpec == AlgoA = SpecA /\ AlgoB = SpecB
DetailedBalanceCoeff ==
  LET l == v.lam  a == AlgoA  b == AlgoB IN
  /\ (l + a) * (l + a) - (l - a) * (l - a) = 4 * l * SpecA
  /\ 2 * (l + a) * b + 2 * (l - a) * b = 4 * l * SpecB
  /\ b * b - b * b = 0
Vector == Emit => PrintT(ToJson([c |-> v.c, q |-> Charge(v.c), dE |-> v.dE, lam |-> v.lam, d |-> v.d,
                                 r |-> v.r, rs |-> v.rs, e |-> v.e, tk |-> v.tk,
                                 a |-> SpecA, m |-> SpecB]))
=============================================================================
