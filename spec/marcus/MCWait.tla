---- MODULE MCWait ----
EXTENDS Wait
====
