SPECIFICATION Spec
CONSTANTS
  Carriers = {"e", "h", "s"}
  EM1 <- MCEM1
  EM2 <- MCEM2
  UX1 <- MCUX1
  UX2 <- MCUX2
  NSet <- MCN
  XSet <- MCX
  LOSet <- MCLO
  RSet <- MCR
  FSet <- MCF
  JSet = {4}
  TSet = {1, 3}
  EqualOnly = TRUE
  Emit = TRUE
INVARIANTS AlgoIsSpec DetailedBalance ExponentNonPositive Positive LinearInJ2 NeutralIgnoresField FieldAntisymmetric Vector
CHECK_DEADLOCK FALSE
