SPECIFICATION Spec
CONSTANTS
  K = 12
  RateSet = {1, 3, 1000, 7000000}
  Emit = TRUE
INVARIANTS UInHalfOpenUnit Survival RawIsLatticePoint Vector
CHECK_DEADLOCK FALSE
