---- MODULE MCMarcusQuick ----
EXTENDS Marcus
MCEM1 == {-2}
MCEM2 == {0, 3}
MCUX1 == {0, 1}
MCUX2 == {2}
MCN == {1, 2}
MCX == {1, 3}
MCLO == {0, 2}
MCR == {<<5, 0, 0>>, <<-1, 2, 2>>}
MCF == {<<0, 0, 0>>, <<1, 0, 0>>, <<-1, 1, -2>>}
====
