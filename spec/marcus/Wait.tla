-------------------------------- MODULE Wait --------------------------------
(* C14, last clause: the waiting time of a KMC step is exponentially distributed with the
   total escape rate.  KMCCalculator::Promotetime(k_tot) draws r from [0,1) and returns
       dt = -1/k_tot * ln(1 - r)
   i.e. the inverse of F(t) = 1 - exp(-k_tot t) applied to a uniform variate (1 - r in (0,1]:
   ln 0 never occurs).

   Dyadic/log lattice: r = i / 2^K, i \in 0..2^K-1 are the equally likely raw draws; times
   are measured in units of ln2 / k_tot.  For u = 1 - r = 2^(-j) the law says
       dt * k_tot = j * ln 2                                        (point law, replayed)
   and, ln being monotone, dt >= j ln2/k_tot  <=>  u <= 2^(-j), so the survival function on
   the lattice is  P(dt >= j ln2/k_tot) = #{i : 2^K - i <= 2^(K-j)} / 2^K = 2^(-j)
   = exp(-k_tot t): exactly the exponential law (checked by TLC for every j).
   (The antithetic transform dt = -ln(r)/k_tot has the same law for r in (0,1) but takes
   ln 0 at r = 0; the harness admits its values too and demands a finite result for every
   lattice draw, r = 0 included.)                                                        *)
EXTENDS Integers, FiniteSets, TLC, Json
CONSTANTS K,        \* resolution of the raw uniform lattice: r = i/2^K
          RateSet,  \* total escape rates (integers; the harness scales them)
          Emit
VARIABLES j, m

RECURSIVE Pow2(_)
Pow2(n) == IF n = 0 THEN 1 ELSE 2 * Pow2(n - 1)

Init == j \in 0..K /\ m \in RateSet
Next == UNCHANGED <<j, m>>
Spec == Init /\ [][Next]_<<j, m>>

\* u = 1 - r as numerator over 2^K for raw draw i
U(i) == Pow2(K) - i
\* never the logarithm of zero, never above one
UInHalfOpenUnit == \A i \in 0..(Pow2(K) - 1) : U(i) >= 1 /\ U(i) <= Pow2(K)
\* survival function: P(dt * m >= j ln 2) = 2^-j
Survival == Cardinality({i \in 0..(Pow2(K) - 1) : U(i) <= Pow2(K - j)}) * Pow2(j) = Pow2(K)
\* the raw draw that gives u = 2^-j exactly
RawNum == Pow2(K) - Pow2(K - j)
RawIsLatticePoint == RawNum \in 0..(Pow2(K) - 1) /\ U(RawNum) * Pow2(j) = Pow2(K)

Vector == Emit => PrintT(ToJson([j |-> j, m |-> m, K |-> K, raw |-> RawNum, ln2units |-> j]))
=============================================================================
