SPECIFICATION Spec
CONSTANTS
  Carriers = {"e", "h", "s"}
  DESet <- MCDE
  LamSet = {2, 4}
  DSet <- MCD
  RSet <- MCR
  RShift = {0, 2}
  ESet <- MCE
  TSet = {1, 2}
  MaxTerm = 40
  Emit = TRUE
INVARIANTS AlgoIsSpec DetailedBalanceCoeff Vector
CHECK_DEADLOCK FALSE
