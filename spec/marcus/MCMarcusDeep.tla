---- MODULE MCMarcusDeep ----
(* barriers up to 650 kT: reorganisation energies 20..580 kT, site-energy offsets up to 400 kT
   (at kT = 2^-14 Ha = 19 K: lambda 0.03..1 eV, offsets up to 0.66 eV; at 308 K: up to 10 eV) *)
EXTENDS Marcus
MCEM1 == {-400, -230, -90, 120, 300}
MCEM2 == {0}
MCUX1 == {0}
MCUX2 == {0}
MCN == {10, 50, 290}
MCX == {10, 50, 290}
MCLO == {0}
MCR == {<<5, 0, 0>>}
MCF == {<<0, 0, 0>>, <<4, 0, 0>>}
====
