SPECIFICATION Spec
CONSTANTS
  Configs <- DemoConfigs
  NP = 2
  NT = 1
  LockMode = "sharable"
  MaxCrashes = 0
  CrashPlans <- AnyTime
  Emit = FALSE
INVARIANTS TypeOK AssignedOnce AtMostOnce AssignedOncePerRun AtMostOncePerRun FileOrBackupComplete CrashLosesOnlyInFlight NoLostJob RestartExact MutexInSync LockConsistent NoAbort
VIEW View
PROPERTY ResultsNotOverwritten
