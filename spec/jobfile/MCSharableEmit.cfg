SPECIFICATION Spec
CONSTANTS
  Configs <- DemoConfigs
  NP = 2
  NT = 1
  LockMode = "sharable"
  MaxCrashes = 0
  CrashPlans <- AnyTime
  Emit = TRUE
INVARIANTS TypeOK LockConsistent EmitBad
VIEW View

ACTION_CONSTRAINT StopAtBad
