SPECIFICATION TSpec
CONSTANTS
  Configs <- TraceConfigs
  NP = 3
  NT = 1
  LockMode = "sharable"
  MaxCrashes = 99
  CrashPlans <- AnyTime
  Emit = FALSE
INVARIANTS TypeOK LockConsistent
CONSTRAINT Progress
POSTCONDITION Report
CHECK_DEADLOCK FALSE
