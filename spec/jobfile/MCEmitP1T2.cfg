SPECIFICATION Spec
CONSTANTS
  Configs <- EmitP1T2Configs
  NP = 1
  NT = 2
  LockMode = "exclusive"
  MaxCrashes = 1
  CrashPlans <- AnyTime
  Emit = TRUE
INVARIANTS TypeOK AssignedOnce AtMostOnce AssignedOncePerRun AtMostOncePerRun FileOrBackupComplete CrashLosesOnlyInFlight NoLostJob RestartExact MutexInSync LockConsistent NoAbort EmitSchedule
VIEW View
PROPERTY ResultsNotOverwritten
