SPECIFICATION OSpec
CONSTANTS
  Configs <- ObsConfigs
  NP = 1
  NT = 1
  LockMode = "exclusive"
  MaxCrashes = 99
  CrashPlans <- AnyTime
  Emit = FALSE
INVARIANTS ObsWellFormed AssignedOnce AtMostOnce AtMostOncePerRun FileOrBackupComplete CrashLosesOnlyInFlight ObsResultsNotOverwritten NoLostJob RestartExact ObsMutexInSync ObsNoAbort
CHECK_DEADLOCK FALSE
