SPECIFICATION FairSpec
CONSTANTS
  Configs <- P3Configs
  NP = 3
  NT = 1
  LockMode = "exclusive"
  MaxCrashes = 0
  CrashPlans <- AnyTime
  Emit = FALSE
INVARIANTS TypeOK AssignedOnce AtMostOnce AssignedOncePerRun AtMostOncePerRun FileOrBackupComplete CrashLosesOnlyInFlight NoLostJob RestartExact MutexInSync LockConsistent NoAbort
VIEW View
PROPERTY ResultsNotOverwritten
PROPERTY TerminationClean
