SPECIFICATION SimSpec
CONSTANTS
  Configs <- P3Configs
  NP = 3
  NT = 1
  LockMode = "exclusive"
  MaxCrashes = 3
  CrashPlans <- TwoCrashes
  Emit = FALSE
INVARIANTS TypeOK AssignedOnce AtMostOnce AssignedOncePerRun AtMostOncePerRun FileOrBackupComplete CrashLosesOnlyInFlight NoLostJob RestartExact MutexInSync LockConsistent NoAbort
VIEW View
CHECK_DEADLOCK FALSE
