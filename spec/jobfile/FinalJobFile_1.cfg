SPECIFICATION FSpec
CONSTANTS
  Configs <- FinalConfigs
  NP = 1
  NT = 2
  LockMode = "exclusive"
  MaxCrashes = 0
  CrashPlans <- AnyTime
  Emit = FALSE
INVARIANTS NoLostJob AtMostOnce AtMostOncePerRun RestartExact FileOrBackupComplete
