---- MODULE MCJobFile ----
EXTENDS JobFile
Av == Rec("AVAILABLE", 0, 0)
Fresh(n) == [j \in 1..n |-> Av]
Cfg(init, cache, maxjobs, rstat, rhost, fail) ==
  [init |-> init, cache |-> cache, maxjobs |-> maxjobs, rstat |-> rstat, rhost |-> rhost, fail |-> fail]
Unl == 99      \* "no limit" for maxjobs
\* plain runs: all jobs available
Plain(maxn, caches, maxj) == {Cfg(Fresh(n), ca, mj, {}, {}, {}) : n \in 1..maxn, ca \in caches, mj \in maxj}
\* jobs that fail in the calculator (no restart pattern)
Failing == {Cfg(Fresh(3), 1, Unl, {}, {}, {2}), Cfg(Fresh(2), 2, Unl, {}, {}, {1, 2})}
\* job files left behind by an earlier run of hosts 8 and 9
Old3 == <<Rec("COMPLETE", 9, 9), Rec("FAILED", 9, 9), Av>>
Old4 == <<Rec("COMPLETE", 9, 9), Rec("FAILED", 8, 8), Rec("ASSIGNED", 8, 0), Av>>
Restart == {Cfg(Old3, 1, Unl, {"FAILED"}, {}, {}), Cfg(Old3, 2, Unl, {}, {9}, {}),
            Cfg(Old3, 1, Unl, {}, {}, {}), Cfg(Old3, 2, 1, {"FAILED"}, {9}, {})}
Restart4 == {Cfg(Old4, 1, Unl, {"FAILED"}, {}, {}), Cfg(Old4, 2, Unl, {}, {8}, {}), Cfg(Old4, 1, Unl, {"FAILED"}, {9}, {}),
             Cfg(Old4, 2, 2, {}, {8, 9}, {})}

\* a FINISHED earlier run: no AVAILABLE job at start-up; only a restart pattern can re-open anything
Done3 == <<Rec("COMPLETE", 9, 9), Rec("FAILED", 9, 9), Rec("ASSIGNED", 8, 0)>>
Done2F == <<Rec("FAILED", 9, 9), Rec("FAILED", 8, 8)>>
Finished == {Cfg(Done3, 1, Unl, {"FAILED"}, {}, {}),       \* stat(FAILED)
             Cfg(Done3, 2, Unl, {}, {9}, {}),              \* host(9): a COMPLETE and a FAILED job
             Cfg(Done3, 1, Unl, {"FAILED"}, {8}, {}),      \* both
             Cfg(Done3, 2, Unl, {}, {7}, {}),              \* a pattern that matches nothing
             Cfg(Done3, 1, Unl, {}, {}, {}),               \* no pattern: nothing to do
             Cfg(Done2F, 1, Unl, {"FAILED"}, {}, {}),      \* every job re-opened (a job failing AGAIN under stat(FAILED) is re-opened by the next process: excluded)
             Cfg(Done2F, 2, 1, {"FAILED"}, {}, {})}        \* maxjobs stops the processes
FinishedSmall == {Cfg(Done3, 1, Unl, {"FAILED"}, {8}, {}), Cfg(Done3, 2, Unl, {}, {9}, {}), Cfg(Done3, 1, Unl, {}, {7}, {})}
\* patterns naming a status that THIS run produces (only the per-run clauses apply across processes):
\* (a) stat(FAILED) while jobs fail, more startable jobs than the cache so that a full chunk is followed by another sync
LiveA1 == Cfg(Fresh(3), 1, Unl, {"FAILED"}, {}, {1, 2})
LiveA2 == Cfg(Fresh(4), 2, Unl, {"FAILED"}, {}, {2, 3})
LiveA3 == Cfg(<<Rec("FAILED", 9, 9), Av, Av>>, 1, Unl, {"FAILED"}, {}, {1})
\* (b) stat(ASSIGNED): re-open the jobs of a crashed run; with NT = 2 a worker still runs the last job of a full chunk
\* (ASSIGNED by this very process) when the other one syncs
LiveB1 == Cfg(<<Rec("ASSIGNED", 8, 0), Av, Av>>, 1, Unl, {"ASSIGNED"}, {}, {})
LiveB2 == Cfg(<<Rec("ASSIGNED", 8, 0), Av, Av, Av>>, 2, Unl, {"ASSIGNED"}, {}, {})
LiveB3 == Cfg(<<Rec("ASSIGNED", 8, 0), Rec("ASSIGNED", 9, 0), Rec("COMPLETE", 9, 9)>>, 1, Unl, {"ASSIGNED"}, {}, {})
LiveB0 == Cfg(<<Rec("ASSIGNED", 8, 0), Av>>, 1, Unl, {"ASSIGNED"}, {}, {})      \* smallest case of (b) for NT = 2
LiveA0 == Cfg(Fresh(2), 1, Unl, {"FAILED"}, {}, {1})                             \* smallest case of (a)
LiveSmall == {LiveA1, LiveA3, LiveB1, LiveB3}
Live == {LiveA1, LiveA2, LiveA3, LiveB1, LiveB2, LiveB3}
QuickConfigs == Plain(3, {1, 2}, {1, 2, Unl}) \cup Failing \cup Restart \cup Finished \cup LiveSmall
CrashConfigs == Plain(3, {1, 2}, {Unl}) \cup {Cfg(Fresh(3), 1, 1, {}, {}, {})} \cup {Cfg(Old3, 1, Unl, {"FAILED"}, {}, {})} \cup FinishedSmall \cup {LiveA1, LiveB1}
ThoroughConfigs == Plain(4, {1, 2, 3}, {1, 2, Unl}) \cup Failing \cup Restart \cup Restart4 \cup Finished \cup Live
P3Configs == {Cfg(Fresh(3), 1, Unl, {}, {}, {}), Cfg(Fresh(3), 2, Unl, {}, {}, {}), Cfg(Fresh(3), 1, 1, {}, {}, {}),
              Cfg(Done3, 1, Unl, {"FAILED"}, {8}, {})}
P3QuickConfigs == {Cfg(Fresh(1), 1, Unl, {}, {}, {}), Cfg(<<Rec("FAILED", 9, 9)>>, 1, Unl, {"FAILED"}, {}, {})}
T2Configs == Plain(3, {1, 2}, {Unl}) \cup {Cfg(Fresh(3), 1, 2, {}, {}, {}), Cfg(Old3, 1, Unl, {"FAILED"}, {}, {})} \cup FinishedSmall \cup {LiveB0, LiveA0}
DemoConfigs == {Cfg(Fresh(2), 1, Unl, {}, {}, {})}
GraphQuickConfigs == {Cfg(Fresh(1), 1, Unl, {}, {}, {})}
GraphThoroughConfigs == {Cfg(Fresh(2), 1, Unl, {}, {}, {}), Cfg(Fresh(2), 2, Unl, {}, {}, {})}
SimConfigs == Plain(4, {1, 2, 3}, {1, 2, Unl}) \cup Failing \cup Restart \cup Restart4 \cup Finished \cup Live
CrashThoroughConfigs == Plain(3, {1, 2}, {Unl, 2}) \cup Restart \cup Finished \cup Live \cup {Cfg(Fresh(4), 2, Unl, {}, {}, {})}
T2QuickConfigs == {Cfg(Fresh(2), 1, Unl, {}, {}, {}), Cfg(Fresh(2), 2, Unl, {}, {}, {}), Cfg(Done3, 1, Unl, {"FAILED"}, {8}, {}), LiveA0}
SimQuickConfigs == Plain(3, {1, 2}, {2, Unl}) \cup Failing \cup Restart \cup Finished \cup LiveSmall
AnyTime == {{}}
OneCrash == {{k} : k \in 2..70}
TwoCrashes == {{k, k + d} : k \in 2..60, d \in {1, 2, 5, 11, 23}} \cup OneCrash \cup {{1000}}
EmitCrashConfigs == Plain(2, {1, 2}, {Unl}) \cup {Cfg(Fresh(3), 1, Unl, {}, {}, {}), Cfg(Old3, 1, Unl, {"FAILED"}, {}, {})} \cup FinishedSmall \cup {LiveA1, LiveB1}
\* one process, two worker threads: a worker still runs the last job of a full chunk when the other one syncs
P1T2Configs == Live \cup {LiveA0, LiveB0} \cup Plain(3, {1, 2}, {Unl})
EmitP1T2Configs == {LiveB0, LiveB1, LiveA1, Cfg(Fresh(3), 2, Unl, {}, {}, {})}
SimT2Configs == T2Configs \cup {LiveB1}
====
