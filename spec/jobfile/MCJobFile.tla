---- MODULE MCJobFile ----
EXTENDS JobFile
Av == Rec("AVAILABLE", 0, 0)
Fresh(n) == [j \in 1..n |-> Av]
Cfg(init, cache, maxjobs, rstat, rhost, fail) ==
  [init |-> init, cache |-> cache, maxjobs |-> maxjobs, rstat |-> rstat, rhost |-> rhost, fail |-> fail]
Unl == 99      \* "no limit" for maxjobs
\* plain runs: all jobs available
Plain(maxn, caches, maxj) == {Cfg(Fresh(n), ca, mj, {}, {}, {}) : n \in 1..maxn, ca \in caches, mj \in maxj}
\* jobs that fail in the calculator (no restart pattern)
Failing == {Cfg(Fresh(3), 1, Unl, {}, {}, {2}), Cfg(Fresh(2), 2, Unl, {}, {}, {1, 2})}
\* job files left behind by an earlier run of hosts 8 and 9
Old3 == <<Rec("COMPLETE", 9, 9), Rec("FAILED", 9, 9), Av>>
Old4 == <<Rec("COMPLETE", 9, 9), Rec("FAILED", 8, 8), Rec("ASSIGNED", 8, 0), Av>>
Restart == {Cfg(Old3, 1, Unl, {"FAILED"}, {}, {}), Cfg(Old3, 2, Unl, {}, {9}, {}),
            Cfg(Old3, 1, Unl, {}, {}, {}), Cfg(Old3, 2, 1, {"FAILED"}, {9}, {})}
Restart4 == {Cfg(Old4, 1, Unl, {"FAILED"}, {}, {}), Cfg(Old4, 2, Unl, {}, {8}, {}), Cfg(Old4, 1, Unl, {"FAILED"}, {9}, {}),
             Cfg(Old4, 2, 2, {}, {8, 9}, {})}

QuickConfigs == Plain(3, {1, 2}, {1, 2, Unl}) \cup Failing \cup Restart
CrashConfigs == Plain(3, {1, 2}, {Unl}) \cup {Cfg(Fresh(3), 1, 1, {}, {}, {})} \cup {Cfg(Old3, 1, Unl, {"FAILED"}, {}, {})}
ThoroughConfigs == Plain(4, {1, 2, 3}, {1, 2, Unl}) \cup Failing \cup Restart \cup Restart4
P3Configs == {Cfg(Fresh(3), 1, Unl, {}, {}, {}), Cfg(Fresh(3), 2, Unl, {}, {}, {}), Cfg(Fresh(3), 1, 1, {}, {}, {})}
P3QuickConfigs == {Cfg(Fresh(1), 1, Unl, {}, {}, {})}
T2Configs == Plain(3, {1, 2}, {Unl}) \cup {Cfg(Fresh(3), 1, 2, {}, {}, {}), Cfg(Old3, 1, Unl, {"FAILED"}, {}, {})}
DemoConfigs == {Cfg(Fresh(2), 1, Unl, {}, {}, {})}
GraphQuickConfigs == {Cfg(Fresh(1), 1, Unl, {}, {}, {})}
GraphThoroughConfigs == {Cfg(Fresh(2), 1, Unl, {}, {}, {}), Cfg(Fresh(2), 2, Unl, {}, {}, {})}
SimConfigs == Plain(4, {1, 2, 3}, {1, 2, Unl}) \cup Failing \cup Restart \cup Restart4
CrashThoroughConfigs == Plain(3, {1, 2}, {Unl, 2}) \cup Restart \cup {Cfg(Fresh(4), 2, Unl, {}, {}, {})}
T2QuickConfigs == {Cfg(Fresh(2), 1, Unl, {}, {}, {}), Cfg(Fresh(2), 2, Unl, {}, {}, {})}
SimQuickConfigs == Plain(3, {1, 2}, {2, Unl}) \cup Failing \cup Restart
AnyTime == {{}}
OneCrash == {{k} : k \in 2..70}
TwoCrashes == {{k, k + d} : k \in 2..60, d \in {1, 2, 5, 11, 23}} \cup OneCrash \cup {{1000}}
EmitCrashConfigs == Plain(2, {1, 2}, {Unl}) \cup {Cfg(Fresh(3), 1, Unl, {}, {}, {}), Cfg(Old3, 1, Unl, {"FAILED"}, {}, {})}
====
