SPECIFICATION TSpec
CONSTANTS
  Configs <- TraceConfigs
  NP = 1
  NT = 1
  LockMode = "exclusive"
  MaxCrashes = 99
  CrashPlans <- AnyTime
  Emit = FALSE
INVARIANTS TypeOK AssignedOnce AtMostOnce AssignedOncePerRun AtMostOncePerRun FileOrBackupComplete CrashLosesOnlyInFlight NoLostJob RestartExact MutexInSync LockConsistent NoAbort
CONSTRAINT Progress
POSTCONDITION Report
CHECK_DEADLOCK FALSE
