SPECIFICATION SimSpec
CONSTANTS
  Configs <- T2Configs
  NP = 2
  NT = 2
  LockMode = "exclusive"
  MaxCrashes = 1
  CrashPlans <- TwoCrashes
  Emit = TRUE
INVARIANTS TypeOK AssignedOnce AtMostOnce FileOrBackupComplete CrashLosesOnlyInFlight NoLostJob RestartExact MutexInSync LockConsistent NoAbort EmitSchedule
VIEW View
CHECK_DEADLOCK FALSE
