SPECIFICATION SimSpec
CONSTANTS
  Configs <- SimT2Configs
  NP = 2
  NT = 2
  LockMode = "exclusive"
  MaxCrashes = 1
  CrashPlans <- TwoCrashes
  Emit = TRUE
INVARIANTS TypeOK AssignedOnce AtMostOnce AssignedOncePerRun AtMostOncePerRun FileOrBackupComplete CrashLosesOnlyInFlight NoLostJob RestartExact MutexInSync LockConsistent NoAbort EmitSchedule
VIEW View
CHECK_DEADLOCK FALSE
