SPECIFICATION SimSpec
CONSTANTS
  Configs <- SimConfigs
  NP = 2
  NT = 1
  LockMode = "exclusive"
  MaxCrashes = 2
  CrashPlans <- TwoCrashes
  Emit = TRUE
INVARIANTS TypeOK AssignedOnce AtMostOnce AssignedOncePerRun AtMostOncePerRun FileOrBackupComplete CrashLosesOnlyInFlight NoLostJob RestartExact MutexInSync LockConsistent NoAbort EmitSchedule
VIEW View
CHECK_DEADLOCK FALSE
