SPECIFICATION FairSpec
CONSTANTS
  Configs <- T2Configs
  NP = 2
  NT = 2
  LockMode = "exclusive"
  MaxCrashes = 0
  CrashPlans <- AnyTime
  Emit = FALSE
INVARIANTS TypeOK AssignedOnce AtMostOnce AssignedOncePerRun AtMostOncePerRun FileOrBackupComplete CrashLosesOnlyInFlight NoLostJob RestartExact MutexInSync LockConsistent NoAbort
VIEW View
PROPERTY ResultsNotOverwritten
PROPERTY TerminationClean
