---------------------------- MODULE FinalJobFile ----------------------------
(* Final-state check of free-running executions (no coordinator, NT threads per process):
   every record of the ndjson file IOEnv.TRACE describes the end of one execution of NP real
   processes that all ended cleanly - configuration, the job file and backup as parsed by the
   real LOAD_JOBS, and the EvalJob calls in the order the processes logged them.  Each record
   becomes one initial state on which TLC evaluates the end-state properties of JobFile.   *)
EXTENDS JobFile, IOUtils

VARIABLE i
TrFile == ndJsonDeserialize(IOEnv.TRACE)
ASSUME TLCSet(2, TrFile)
Tr == TLCGet(2)
ToSet(s) == {s[k] : k \in 1..Len(s)}
CfgOf(r) == [init |-> r.c.init, cache |-> r.c.cache, maxjobs |-> r.c.maxjobs,
             rstat |-> ToSet(r.c.rstat), rhost |-> ToSet(r.c.rhost), fail |-> ToSet(r.c.fail)]
AnyTime == {{}}
FinalConfigs == LET t == TrFile IN {CfgOf(t[k]) : k \in 1..Len(t)}

FInit == \E k \in 1..Len(Tr) :
           LET v == InitVals(CfgOf(Tr[k])) IN
           /\ i = k
           /\ c = CfgOf(Tr[k])
           /\ pc = [p \in Procs |-> [t \in Threads |-> IF t = 0 THEN "done" ELSE "ended"]]
           /\ phase = [p \in Procs |-> "final"]
           /\ file = Tr[k].file /\ backup = Tr[k].backup
           /\ execLog = Tr[k].execLog
           /\ started = Tr[k].started
           /\ lastFile = Tr[k].file.jobs
           /\ lock = v.lock /\ mem = v.mem /\ meta = v.meta /\ toProc = v.toProc /\ nextjit = v.nextjit
           /\ more = v.more /\ cur = v.cur /\ asg = v.asg /\ crashes = 0 /\ plan = {} /\ sched = <<>>
FNext == UNCHANGED <<vars, i>>
FSpec == FInit /\ [][FNext]_<<vars, i>>
=============================================================================
