------------------------------ MODULE JobFile ------------------------------
(* The shared job file protocol of the xtp job calculators:
   ProgObserver<std::vector<Job>> (xtp/src/libxtp/progressobserver.cc), LOAD_JOBS /
   WRITE_JOBS / UPDATE_JOBS / Job::UpdateFrom / Job::Reset (xtp/src/libxtp/job.cc) and
   the thread loop of ParallelXJobCalc (xtp/src/libxtp/parallelxjobcalc.cc).

   NP processes share one job file, its backup ("~") and a lock file.  Every process
   has a master thread (thread 0: InitFromProgFile, start/join the workers, final
   SyncWithProgFile) and NT worker threads (RequestNextJob -> EvalJob -> ReportJobDone).

   Grain: one action = the code between two consecutive hook points (VOTCA_VERIF events
   in progressobserver.cc / job.cc plus the driver's own events around the calculator
   loop).  pc[p][t] names the hook at which thread t of process p is parked, exactly
   what the process coordinator of the conformance harness knows.

   Hook points inside a synchronisation section (InitFromProgFile: phase "init",
   SyncWithProgFile called by RequestNextJob: worker thread, final SyncWithProgFile:
   phase "final"):
     lockreq   before flock_->lock...()         locked    lock obtained
     loaded    LOAD_JOBS (+UPDATE_JOBS) done    bopen     backup opened (truncated)
     bwritten  backup written and closed        assigned  assignment loop done
     fopen     job file opened (truncated)      fwritten  job file written and closed
     released  lock released
   InitFromProgFile has no assignment and no job file write (bwritten -> released).

   A job record is [st, host, out]: status, host (0 = none, p = process p, other
   numbers = hosts of an earlier run), out (0 = no output, h = output produced by h).
   A file is [ok, jobs]; ok = FALSE stands for every on-disk content that LOAD_JOBS
   cannot parse (missing, empty, truncated).                                         *)
EXTENDS Integers, Sequences, FiniteSets, TLC, Json

CONSTANTS NP,          \* number of processes
          NT,          \* worker threads per process
          Configs,     \* set of [init, cache, maxjobs, rstat, rhost, fail]
          LockMode,    \* "exclusive" | "sharable": what LockProgFile asks for
          MaxCrashes,  \* bound on the number of Crash steps
          CrashPlans,  \* set of sets of step numbers; {} = a crash may happen at any time (exhaustive checking),
                       \* {k, ..} = crashes only as step k+1 (spreads the crash points of random simulation)
          Emit

VARIABLE c             \* the configuration of this behaviour, chosen in Init
NJ == Len(c.init)
Jobs == 1..NJ
Procs == 1..NP
Workers == 1..NT
Threads == 0..NT

Rec(st, host, out) == [st |-> st, host |-> host, out |-> out]
Missing == [ok |-> FALSE, jobs |-> <<>>]
Whole(js) == [ok |-> TRUE, jobs |-> js]

VARIABLES pc,        \* [Procs -> [Threads -> hook name]]
          phase,     \* [Procs -> "init" | "run" | "final"] what the master is doing
          lock,      \* set of processes holding the file lock
          file, backup,
          mem,       \* jobs_ of every process
          meta,      \* metajit_ as an index 1..NJ+1
          toProc,    \* jobsToProc_ (job ids)
          nextjit,   \* nextjit_ as an index into toProc; 0 = stale (between clear() and the reset)
          more,      \* moreJobsAvailable_
          started,   \* startJobsCount_
          cur,       \* [Procs -> [Threads -> job being processed or 0]]
          execLog,   \* ghost: sequence of <<p, j>>: EvalJob calls
          asg,       \* ghost: per job the processes whose self-assignment of it reached the job file
          lastFile,  \* ghost: the last complete content of the job file
          crashes,
          plan,      \* the crash plan of this behaviour, chosen in Init, never changed
          sched      \* ghost (outside the VIEW): <<p, t, kind>> per step, kind 1 = crash

vars == <<c, pc, phase, lock, file, backup, mem, meta, toProc, nextjit, more, started, cur,
          execLog, asg, lastFile, crashes, plan, sched>>
View == <<c, pc, phase, lock, file, backup, mem, meta, toProc, nextjit, more, started, cur,
          execLog, asg, lastFile, crashes, plan>>

SectionPcs == {"lockreq", "locked", "loaded", "bopen", "bwritten", "assigned", "fopen", "fwritten", "released"}
Holding == {"locked", "loaded", "bopen", "bwritten", "assigned", "fopen", "fwritten"}
Stopped == {"done", "crashed", "aborted"}

InitPc == [t \in Threads |-> IF t = 0 THEN "start" ELSE "unborn"]
DeadPc(what) == [t \in Threads |-> what]
NoCur == [t \in Threads |-> 0]

\* initial values as a function of the configuration (the trace spec restarts with them)
InitVals(cf) ==
  [pc |-> [p \in Procs |-> InitPc], phase |-> [p \in Procs |-> "init"], lock |-> {},
   file |-> Whole(cf.init), backup |-> Missing, mem |-> [p \in Procs |-> <<>>], meta |-> [p \in Procs |-> 1],
   toProc |-> [p \in Procs |-> <<>>], nextjit |-> [p \in Procs |-> 1], more |-> [p \in Procs |-> FALSE],
   started |-> [p \in Procs |-> 0], cur |-> [p \in Procs |-> NoCur], execLog |-> <<>>,
   asg |-> [j \in 1..Len(cf.init) |-> <<>>], lastFile |-> cf.init, crashes |-> 0, sched |-> <<>>]

Init ==
  /\ c \in Configs
  /\ plan \in CrashPlans
  /\ LET v == InitVals(c) IN
       /\ pc = v.pc /\ phase = v.phase /\ lock = v.lock /\ file = v.file /\ backup = v.backup
       /\ mem = v.mem /\ meta = v.meta /\ toProc = v.toProc /\ nextjit = v.nextjit /\ more = v.more
       /\ started = v.started /\ cur = v.cur /\ execLog = v.execLog /\ asg = v.asg
       /\ lastFile = v.lastFile /\ crashes = v.crashes /\ sched = v.sched

\* ---- job.cc -----------------------------------------------------------------------
\* Job::UpdateFrom: status always; host/output only if the external record has one
UpdateFrom(int, ext) == Rec(ext.st, IF ext.host # 0 THEN ext.host ELSE int.host,
                            IF ext.out # 0 THEN ext.out ELSE int.out)
\* UPDATE_JOBS: take the external record iff it has a host and that host is not me
UpdateJobs(ext, int, me) ==
  [j \in 1..Len(int) |-> IF ext[j].host # 0 /\ ext[j].host # me THEN UpdateFrom(int[j], ext[j]) ELSE int[j]]

\* ---- the assignment loop of SyncWithProgFile -----------------------------------------
RestartMode == c.rstat # {} \/ c.rhost # {}
Startable(r) == r.st = "AVAILABLE" \/ (RestartMode /\ r.st \in c.rstat) \/ (RestartMode /\ r.host \in c.rhost)

RECURSIVE AssignLoop(_, _)
\* s = [mem, meta, toProc, started]
AssignLoop(p, s) ==
  IF Len(s.toProc) >= c.cache \/ s.meta > Len(s.mem) \/ s.started = c.maxjobs THEN s
  ELSE IF Startable(s.mem[s.meta])
       THEN AssignLoop(p, [mem |-> [s.mem EXCEPT ![s.meta] = Rec("ASSIGNED", p, 0)],
                           meta |-> s.meta + 1, toProc |-> Append(s.toProc, s.meta),
                           started |-> s.started + 1])
       ELSE AssignLoop(p, [s EXCEPT !.meta = s.meta + 1])

\* ---- helpers ---------------------------------------------------------------------------
Alive(p) == pc[p][0] \notin Stopped
MutexFree(p) == \A t \in Workers : pc[p][t] \notin SectionPcs    \* lockThread_ is held during a whole RequestNextJob
CanLock(p) == LockMode = "sharable" \/ lock = {}
Result(j) == IF j \in c.fail THEN "FAILED" ELSE "COMPLETE"

\* the process dies (exception out of LOAD_JOBS/UPDATE_JOBS, or a crash): the OS drops its lock
Die(p, what) ==
  /\ pc' = [pc EXCEPT ![p] = DeadPc(what)]
  /\ lock' = lock \ {p}
  /\ mem' = [mem EXCEPT ![p] = <<>>]
  /\ meta' = [meta EXCEPT ![p] = 1]
  /\ toProc' = [toProc EXCEPT ![p] = <<>>]
  /\ nextjit' = [nextjit EXCEPT ![p] = 1]
  /\ more' = [more EXCEPT ![p] = FALSE]
  /\ started' = [started EXCEPT ![p] = 0]
  /\ cur' = [cur EXCEPT ![p] = NoCur]
  /\ phase' = [phase EXCEPT ![p] = "init"]

\* tail of RequestNextJob once the chunk question is settled: take a job or return null
\* (nj, mo: the values of nextjit_, moreJobsAvailable_ to continue with)
Finish(p, t, nj, mo) ==
  /\ more' = [more EXCEPT ![p] = mo]
  /\ IF nj > Len(toProc[p])
     THEN /\ pc' = [pc EXCEPT ![p][t] = "ended"]
          /\ nextjit' = [nextjit EXCEPT ![p] = nj]
          /\ cur' = [cur EXCEPT ![p][t] = 0]
     ELSE /\ pc' = [pc EXCEPT ![p][t] = "took"]
          /\ nextjit' = [nextjit EXCEPT ![p] = nj + 1]
          /\ cur' = [cur EXCEPT ![p][t] = toProc[p][nj]]

\* ---- one step of thread t of process p ------------------------------------------------------
\* the nine section hooks; ph = "init" | "sync" | "final"
Section(p, t, ph) ==
  LET at == pc[p][t] IN
  CASE at = "lockreq" ->
         /\ CanLock(p)
         /\ lock' = lock \cup {p}
         /\ pc' = [pc EXCEPT ![p][t] = "locked"]
         /\ UNCHANGED <<phase, file, backup, mem, meta, toProc, nextjit, more, started, cur, execLog, asg, lastFile>>
    [] at = "locked" ->
         IF ~file.ok \/ (ph # "init" /\ Len(file.jobs) # Len(mem[p]))
         THEN /\ Die(p, "aborted")
              /\ UNCHANGED <<file, backup, execLog, asg, lastFile>>
         ELSE /\ mem' = [mem EXCEPT ![p] = IF ph = "init" THEN file.jobs ELSE UpdateJobs(file.jobs, mem[p], p)]
              /\ meta' = IF ph = "init" THEN [meta EXCEPT ![p] = 1] ELSE meta
              /\ pc' = [pc EXCEPT ![p][t] = "loaded"]
              /\ UNCHANGED <<phase, lock, file, backup, toProc, nextjit, more, started, cur, execLog, asg, lastFile>>
    [] at = "loaded" ->
         /\ backup' = Missing
         /\ pc' = [pc EXCEPT ![p][t] = "bopen"]
         /\ UNCHANGED <<phase, lock, file, mem, meta, toProc, nextjit, more, started, cur, execLog, asg, lastFile>>
    [] at = "bopen" ->
         /\ backup' = Whole(mem[p])
         /\ pc' = [pc EXCEPT ![p][t] = "bwritten"]
         /\ UNCHANGED <<phase, lock, file, mem, meta, toProc, nextjit, more, started, cur, execLog, asg, lastFile>>
    [] at = "bwritten" ->
         IF ph = "init"
         THEN /\ more' = [more EXCEPT ![p] = Len(mem[p]) > 0]
              /\ lock' = lock \ {p}
              /\ pc' = [pc EXCEPT ![p][t] = "released"]
              /\ UNCHANGED <<phase, file, backup, mem, meta, toProc, nextjit, started, cur, execLog, asg, lastFile>>
         ELSE LET s == AssignLoop(p, [mem |-> mem[p], meta |-> meta[p], toProc |-> <<>>, started |-> started[p]]) IN
              /\ mem' = [mem EXCEPT ![p] = s.mem]
              /\ meta' = [meta EXCEPT ![p] = s.meta]
              /\ toProc' = [toProc EXCEPT ![p] = s.toProc]
              /\ started' = [started EXCEPT ![p] = s.started]
              /\ nextjit' = [nextjit EXCEPT ![p] = 0]
              /\ pc' = [pc EXCEPT ![p][t] = "assigned"]
              /\ UNCHANGED <<phase, lock, file, backup, more, cur, execLog, asg, lastFile>>
    [] at = "assigned" ->
         /\ file' = Missing
         /\ pc' = [pc EXCEPT ![p][t] = "fopen"]
         /\ UNCHANGED <<phase, lock, backup, mem, meta, toProc, nextjit, more, started, cur, execLog, asg, lastFile>>
    [] at = "fopen" ->
         /\ file' = Whole(mem[p])
         /\ lastFile' = mem[p]
         \* an assignment counts once it has reached the job file
         /\ asg' = [j \in 1..Len(asg) |-> IF \E i \in 1..Len(toProc[p]) : toProc[p][i] = j THEN Append(asg[j], p) ELSE asg[j]]
         /\ pc' = [pc EXCEPT ![p][t] = "fwritten"]
         /\ UNCHANGED <<phase, lock, backup, mem, meta, toProc, nextjit, more, started, cur, execLog>>
    [] at = "fwritten" ->
         /\ lock' = lock \ {p}
         /\ pc' = [pc EXCEPT ![p][t] = "released"]
         /\ UNCHANGED <<phase, file, backup, mem, meta, toProc, nextjit, more, started, cur, execLog, asg, lastFile>>
    [] at = "released" ->
         CASE ph = "init" ->      \* master starts the workers and goes to join them
                /\ pc' = [pc EXCEPT ![p] = [u \in Threads |-> IF u = 0 THEN "join" ELSE "req"]]
                /\ phase' = [phase EXCEPT ![p] = "run"]
                /\ UNCHANGED <<lock, file, backup, mem, meta, toProc, nextjit, more, started, cur, execLog, asg, lastFile>>
           [] ph = "sync" ->      \* back in RequestNextJob: nextjit_ = begin; empty chunk => no more jobs
                /\ Finish(p, t, 1, IF toProc[p] = <<>> THEN FALSE ELSE more[p])
                /\ UNCHANGED <<phase, lock, file, backup, mem, meta, toProc, started, execLog, asg, lastFile>>
           [] ph = "final" ->
                /\ pc' = [pc EXCEPT ![p][t] = "done"]
                /\ UNCHANGED <<phase, lock, file, backup, mem, meta, toProc, nextjit, more, started, cur, execLog, asg, lastFile>>

MasterStep(p) ==
  LET at == pc[p][0] IN
  /\ at \notin Stopped
  /\ CASE at = "start" ->
            /\ pc' = [pc EXCEPT ![p][0] = "lockreq"]
            /\ UNCHANGED <<phase, lock, file, backup, mem, meta, toProc, nextjit, more, started, cur, execLog, asg, lastFile>>
       [] at = "join" ->
            /\ \A t \in Workers : pc[p][t] = "ended"
            /\ pc' = [pc EXCEPT ![p][0] = "lockreq"]
            /\ phase' = [phase EXCEPT ![p] = "final"]
            /\ UNCHANGED <<lock, file, backup, mem, meta, toProc, nextjit, more, started, cur, execLog, asg, lastFile>>
       [] OTHER -> Section(p, 0, phase[p])

WorkerStep(p, t) ==
  LET at == pc[p][t] IN
  /\ Alive(p)
  /\ CASE at = "req" ->          \* RequestNextJob: thread mutex, then a new chunk if needed
            /\ MutexFree(p)
            /\ IF nextjit[p] > Len(toProc[p]) /\ more[p]
               THEN /\ pc' = [pc EXCEPT ![p][t] = "lockreq"]
                    /\ UNCHANGED <<nextjit, more, cur>>
               ELSE Finish(p, t, nextjit[p], more[p])
            /\ UNCHANGED <<phase, lock, file, backup, mem, meta, toProc, started, execLog, asg, lastFile>>
       [] at = "took" ->         \* EvalJob
            /\ execLog' = Append(execLog, <<p, cur[p][t]>>)
            /\ pc' = [pc EXCEPT ![p][t] = "evaled"]
            /\ UNCHANGED <<phase, lock, file, backup, mem, meta, toProc, nextjit, more, started, cur, asg, lastFile>>
       [] at = "evaled" ->       \* ReportJobDone (in memory only)
            /\ MutexFree(p)
            /\ mem' = [mem EXCEPT ![p][cur[p][t]] = Rec(Result(cur[p][t]), p, p)]
            /\ cur' = [cur EXCEPT ![p][t] = 0]
            /\ pc' = [pc EXCEPT ![p][t] = "req"]
            /\ UNCHANGED <<phase, lock, file, backup, meta, toProc, nextjit, more, started, execLog, asg, lastFile>>
       [] at \in SectionPcs -> Section(p, t, "sync")
       [] OTHER -> FALSE         \* unborn, ended

Step(p, t) ==
  /\ IF t = 0 THEN MasterStep(p) ELSE WorkerStep(p, t)
  /\ UNCHANGED <<c, crashes, plan>>
  /\ sched' = Append(sched, <<p, t, 0>>)

Crash(p) ==
  /\ Alive(p)
  /\ crashes < MaxCrashes
  /\ plan = {} \/ Len(sched) \in plan
  /\ Die(p, "crashed")
  /\ crashes' = crashes + 1
  /\ sched' = Append(sched, <<p, 0, 1>>)
  /\ UNCHANGED <<c, plan, file, backup, execLog, asg, lastFile>>

AllStopped == \A p \in Procs : ~Alive(p)
AllDone == \A p \in Procs : pc[p][0] = "done"
Acts == (\E p \in Procs : Crash(p) \/ \E t \in Threads : Step(p, t))
Next == Acts \/ (AllStopped /\ UNCHANGED vars)
Spec == Init /\ [][Next]_vars
SimSpec == Init /\ [][Acts]_vars
FairSpec == Spec /\ \A p \in 1..NP : \A t \in 0..NT : WF_vars(Step(p, t))

\* ---- properties ------------------------------------------------------------------------------
ExecCount(j) == Cardinality({i \in 1..Len(execLog) : execLog[i][2] = j})
Executor(j) == execLog[CHOOSE i \in 1..Len(execLog) : execLog[i][2] = j][1]

\* A restart pattern that names a status which the processes of THIS run produce (ASSIGNED; COMPLETE; FAILED while
\* jobs fail) lets a process re-open, by the statement's last clause, a job that another live process has assigned or
\* finished.  Across processes a job may then be assigned/executed more than once; within one run (process) never:
\* the cursor of the assignment loop moves past every job it examines.
LivePattern == "ASSIGNED" \in c.rstat \/ "COMPLETE" \in c.rstat \/ ("FAILED" \in c.rstat /\ c.fail # {})
\* no job is assigned twice / executed twice ...
AssignedOnce == LivePattern \/ \A j \in Jobs : Len(asg[j]) <= 1
AtMostOnce == LivePattern \/ \A j \in Jobs : ExecCount(j) <= 1
\* ... and whatever the pattern, never twice by the same run
AssignedOncePerRun == \A j \in Jobs : \A i, k \in 1..Len(asg[j]) : asg[j][i] = asg[j][k] => i = k
AtMostOncePerRun == \A i, k \in 1..Len(execLog) : execLog[i] = execLog[k] => i = k
Executors(j) == {execLog[i][1] : i \in {k \in 1..Len(execLog) : execLog[k][2] = j}}

\* at every instant the job file or its backup is a complete job list ...
FileOrBackupComplete == file.ok \/ backup.ok
\* ... and what can be recovered from them has every result that ever reached the job file
Durable(r) == r.st \in {"COMPLETE", "FAILED"} /\ ~Startable(r)
Recoverable == IF file.ok THEN file.jobs ELSE backup.jobs
CrashLosesOnlyInFlight ==
  /\ FileOrBackupComplete => Len(Recoverable) = NJ
  /\ FileOrBackupComplete => \A j \in Jobs : Durable(lastFile[j]) => Recoverable[j] = lastFile[j]
\* a result in the job file is never changed by anybody (unless a restart pattern re-opens it)
ResultsNotOverwritten ==
  [][\A j \in Jobs : Durable(lastFile[j]) => lastFile'[j] = lastFile[j]]_vars

\* quiescence without crash/abort: every job listed once with its final state
MaxJobsStoppedAll == \A p \in Procs : started[p] = c.maxjobs
NoLostJob ==
  AllDone =>
    /\ file.ok /\ Len(file.jobs) = NJ
    /\ \A j \in Jobs :
         IF Startable(c.init[j])
         THEN \/ /\ ExecCount(j) = 1 \/ (LivePattern /\ ExecCount(j) >= 1)
                 /\ \E e \in Executors(j) : file.jobs[j] = Rec(Result(j), e, e)
              \/ ExecCount(j) = 0 /\ file.jobs[j] = c.init[j] /\ MaxJobsStoppedAll
         ELSE TRUE
\* jobs not named by the restart pattern (and not AVAILABLE) are never touched
RestartExact ==
  \A j \in Jobs : ~Startable(c.init[j]) =>
     /\ ExecCount(j) = 0 /\ asg[j] = <<>>
     /\ file.ok => file.jobs[j] = c.init[j]
     /\ backup.ok => backup.jobs[j] = c.init[j]
\* the inter-process lock really is a critical section
InSection(p) == \E t \in Threads : pc[p][t] \in Holding
MutexInSync == LockMode = "exclusive" => Cardinality({p \in Procs : InSection(p)}) <= 1
LockConsistent == lock = {p \in Procs : InSection(p)}
\* with an exclusive lock nobody ever aborts unless somebody crashed
NoAbort == (LockMode = "exclusive" /\ crashes = 0) => \A p \in Procs : pc[p][0] # "aborted"
TypeOK ==
  /\ \A p \in Procs : meta[p] \in 1..(NJ + 1) /\ started[p] \in 0..NJ /\ nextjit[p] \in 0..(NJ + 1)
  /\ \A p \in Procs : c.maxjobs >= started[p] /\ Len(toProc[p]) <= c.cache
Termination == <>AllStopped
TerminationClean == <>AllDone

\* ---- projection shared with the coordinator (harness/python/engines/c10_coord.py) ------------
SetToSeq(S) == LET RECURSIVE F(_) F(X) == IF X = {} THEN <<>> ELSE LET m == CHOOSE x \in X : \A y \in X : x <= y IN <<m>> \o F(X \ {m}) IN F(S)
CfgJson == [init |-> c.init, cache |-> c.cache, maxjobs |-> c.maxjobs,
            rstat |-> SelectSeq(<<"AVAILABLE", "ASSIGNED", "FAILED", "COMPLETE">>, LAMBDA x : x \in c.rstat),
            rhost |-> SetToSeq(c.rhost), fail |-> SetToSeq(c.fail)]
Proj == [pc |-> [p \in 1..NP |-> [t \in 1..(NT + 1) |-> pc[p][t - 1]]],
         phase |-> phase, lock |-> SetToSeq(lock), file |-> file, backup |-> backup, mem |-> mem, meta |-> meta,
         toProc |-> toProc, next |-> nextjit, more |-> more, started |-> started,
         cur |-> [p \in 1..NP |-> [t \in 1..(NT + 1) |-> cur[p][t - 1]]],
         execLog |-> execLog, crashes |-> crashes]
EmitTransition == (Emit /\ ~AllStopped) => PrintT(ToJson([c |-> CfgJson, from |-> Proj, to |-> Proj', act |-> sched'[Len(sched')]]))
\* export of counterexamples (LockMode = "sharable" demonstration): the states in which the job file and its backup are
\* both incomplete or a job has been executed twice, reached through states where neither is the case
BadState == ~FileOrBackupComplete \/ ~AtMostOnce     \* (the demonstration configurations have no restart pattern)
EmitBad == (Emit /\ BadState) =>
             PrintT(ToJson([c |-> CfgJson, sched |-> sched, fin |-> Proj,
                            bad |-> [files |-> ~FileOrBackupComplete, exec |-> ~AtMostOnce, assign |-> ~AssignedOnce]]))
StopAtBad == ~BadState     \* ACTION_CONSTRAINT: bad states are not expanded
EmitSchedule == (Emit /\ AllStopped) => PrintT(ToJson([c |-> CfgJson, sched |-> sched, fin |-> Proj]))
=============================================================================
