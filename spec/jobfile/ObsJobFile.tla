----------------------------- MODULE ObsJobFile -----------------------------
(* Property evaluation on OBSERVED states of the real worker processes, without the
   protocol: every record of the ndjson file IOEnv.TRACE is one initial state; TLC
   evaluates the property predicates of JobFile on each.  Used (a) on every state reached
   by the exhaustive schedule enumeration of the real code and (b) to decide whether an
   execution that is NOT a behaviour of the protocol spec (replay not followable, trace
   rejected, state graph differs) violates property C10 or merely shows that code and spec
   have drifted apart (DESIGN.md 12.2).

   A record is {c, s, h}: configuration, the coordinator's projected state (hook at which
   every thread is parked, lock holders = processes between their 'locked' and 'released'
   events, job file and backup as parsed by the real LOAD_JOBS, observer digests, EvalJob
   log, crash count) and three pure observations accumulated along the execution:
     h.asg[j]    the live processes p for which the job file was seen listing job j as
                 ASSIGNED to p (an assignment that reached the job file),
     h.lastFile  the last complete content of the job file seen so far,
     h.prevFile  the complete content seen before that.                                *)
EXTENDS JobFile, IOUtils

VARIABLES idx, prevFile
TrFile == ndJsonDeserialize(IOEnv.TRACE)
ASSUME TLCSet(2, TrFile)
Tr == TLCGet(2)
ToSet(s) == {s[k] : k \in 1..Len(s)}
CfgOf(r) == [init |-> r.c.init, cache |-> r.c.cache, maxjobs |-> r.c.maxjobs,
             rstat |-> ToSet(r.c.rstat), rhost |-> ToSet(r.c.rhost), fail |-> ToSet(r.c.fail)]
ObsConfigs == LET t == TrFile IN {CfgOf(t[k]) : k \in 1..Len(t)}
AnyTime == {{}}

OInit ==
  /\ idx \in 1..Len(Tr)
  /\ LET s == Tr[idx].s  h == Tr[idx].h IN
     /\ c = CfgOf(Tr[idx])
     /\ pc = [p \in Procs |-> [t \in Threads |-> s.pc[p][t + 1]]]
     /\ cur = [p \in Procs |-> [t \in Threads |-> s.cur[p][t + 1]]]
     /\ phase = s.phase
     /\ lock = ToSet(s.lock)
     /\ file = s.file /\ backup = s.backup
     /\ mem = s.mem /\ meta = s.meta /\ toProc = s.toProc /\ nextjit = s.next
     /\ more = s.more /\ started = s.started
     /\ execLog = s.execLog
     /\ crashes = s.crashes
     /\ asg = h.asg /\ lastFile = h.lastFile /\ prevFile = h.prevFile
     /\ plan = {} /\ sched = <<>>
ONext == UNCHANGED <<vars, idx, prevFile>>
OSpec == OInit /\ [][ONext]_<<vars, idx, prevFile>>

\* the lock section as observed: processes past 'locked' and not yet 'released' (or dead)
ObsMutexInSync == Cardinality(lock) <= 1
\* a durable result of the previously seen job file is still there in the next one
ObsResultsNotOverwritten ==
  \A j \in 1..Len(prevFile) : Durable(prevFile[j]) => (j <= Len(lastFile) /\ lastFile[j] = prevFile[j])
\* NoAbort without reference to LockMode: nobody gives up on an unparseable job file unless somebody crashed
ObsNoAbort == crashes = 0 => \A p \in Procs : pc[p][0] # "aborted"
\* RestartExact and CrashLosesOnlyInFlight index the files by job: guard against lists of the wrong length
ObsWellFormed == (file.ok => Len(file.jobs) = NJ) /\ (backup.ok => Len(backup.jobs) = NJ)
=============================================================================
