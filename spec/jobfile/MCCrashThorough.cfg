SPECIFICATION Spec
CONSTANTS
  Configs <- CrashThoroughConfigs
  NP = 2
  NT = 1
  LockMode = "exclusive"
  MaxCrashes = 2
  CrashPlans <- AnyTime
  Emit = FALSE
INVARIANTS TypeOK AssignedOnce AtMostOnce AssignedOncePerRun AtMostOncePerRun FileOrBackupComplete CrashLosesOnlyInFlight NoLostJob RestartExact MutexInSync LockConsistent NoAbort
VIEW View
PROPERTY ResultsNotOverwritten
