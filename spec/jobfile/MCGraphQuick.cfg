SPECIFICATION Spec
CONSTANTS
  Configs <- GraphQuickConfigs
  NP = 2
  NT = 1
  LockMode = "exclusive"
  MaxCrashes = 0
  CrashPlans <- AnyTime
  Emit = TRUE
INVARIANTS TypeOK MutexInSync
VIEW View
ACTION_CONSTRAINT EmitTransition
