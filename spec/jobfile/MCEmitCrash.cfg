SPECIFICATION Spec
CONSTANTS
  Configs <- EmitCrashConfigs
  NP = 2
  NT = 1
  LockMode = "exclusive"
  MaxCrashes = 2
  CrashPlans <- AnyTime
  Emit = TRUE
INVARIANTS TypeOK AssignedOnce AtMostOnce AssignedOncePerRun AtMostOncePerRun FileOrBackupComplete CrashLosesOnlyInFlight NoLostJob RestartExact MutexInSync LockConsistent NoAbort EmitSchedule
VIEW View
PROPERTY ResultsNotOverwritten
