---------------------------- MODULE TraceJobFile ----------------------------
(* Trace validation: executions of the real ProgObserver/Job code recorded by the process
   coordinator (harness/python/engines/c10_coord.py) must be behaviours of JobFile.  Every
   step record names the acting thread (or the crashed process) and carries the complete
   projected state after the step, so the search is linear.  Executions are concatenated;
   a "begin" record restarts the machine with that execution's configuration (and is itself
   compared with the initial state).  The highest trace position reached is kept in TLC
   register 1 and printed by the postcondition (run with -workers 1).                  *)
EXTENDS JobFile, IOUtils

VARIABLE l
TrFile == ndJsonDeserialize(IOEnv.TRACE)
ASSUME TLCSet(2, TrFile)          \* parse the file once
Tr == TLCGet(2)
ToSet(s) == {s[i] : i \in 1..Len(s)}
CfgOf(r) == [init |-> r.c.init, cache |-> r.c.cache, maxjobs |-> r.c.maxjobs,
             rstat |-> ToSet(r.c.rstat), rhost |-> ToSet(r.c.rhost), fail |-> ToSet(r.c.fail)]
TraceConfigs == LET t == TrFile IN {CfgOf(t[i]) : i \in {j \in 1..Len(t) : t[j].e = "begin"}}
ASSUME TLCSet(1, 0)
AnyTime == {{}}

\* v: record of spec values, s: logged projected state
Same(v, s) ==
  /\ \A p \in Procs : \A t \in Threads : v.pc[p][t] = s.pc[p][t + 1] /\ v.cur[p][t] = s.cur[p][t + 1]
  /\ v.phase = s.phase
  /\ v.lock = ToSet(s.lock)
  /\ v.file = s.file /\ v.backup = s.backup
  /\ v.mem = s.mem /\ v.meta = s.meta /\ v.toProc = s.toProc /\ v.nextjit = s.next
  /\ v.more = s.more /\ v.started = s.started
  /\ v.execLog = s.execLog
  /\ v.crashes = s.crashes
Now == [pc |-> pc, cur |-> cur, phase |-> phase, lock |-> lock, file |-> file, backup |-> backup, mem |-> mem,
        meta |-> meta, toProc |-> toProc, nextjit |-> nextjit, more |-> more, started |-> started,
        execLog |-> execLog, crashes |-> crashes]
After == [pc |-> pc', cur |-> cur', phase |-> phase', lock |-> lock', file |-> file', backup |-> backup', mem |-> mem',
          meta |-> meta', toProc |-> toProc', nextjit |-> nextjit', more |-> more', started |-> started',
          execLog |-> execLog', crashes |-> crashes']

TInit == /\ l = 2
         /\ Tr[1].e = "begin"
         /\ Init
         /\ c = CfgOf(Tr[1])
         /\ plan = {}
         /\ Same(Now, Tr[1].s)

TStep == /\ l <= Len(Tr) /\ Tr[l].e = "step"
         /\ IF Tr[l].k = 1 THEN Crash(Tr[l].p) ELSE Step(Tr[l].p, Tr[l].t)
         /\ Same(After, Tr[l].s)
         /\ l' = l + 1

TEnd == /\ l <= Len(Tr) /\ Tr[l].e = "end"
        /\ UNCHANGED vars
        /\ l' = l + 1

TReset == /\ l <= Len(Tr) /\ Tr[l].e = "begin"
          /\ LET cf == CfgOf(Tr[l])
                 v == InitVals(cf) IN
               /\ c' = cf /\ plan' = plan
               /\ pc' = v.pc /\ phase' = v.phase /\ lock' = v.lock /\ file' = v.file /\ backup' = v.backup
               /\ mem' = v.mem /\ meta' = v.meta /\ toProc' = v.toProc /\ nextjit' = v.nextjit /\ more' = v.more
               /\ started' = v.started /\ cur' = v.cur /\ execLog' = v.execLog /\ asg' = v.asg
               /\ lastFile' = v.lastFile /\ crashes' = v.crashes /\ sched' = v.sched
          /\ Same(After, Tr[l].s)
          /\ l' = l + 1

TNext == TStep \/ TEnd \/ TReset
TSpec == TInit /\ [][TNext]_<<vars, l>>

Progress == TLCSet(1, IF l > TLCGet(1) THEN l ELSE TLCGet(1))
Report == PrintT(<<"maxl", TLCGet(1), Len(Tr)>>)
=============================================================================
