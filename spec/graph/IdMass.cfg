SPECIFICATION Spec
CONSTANTS
  Lattice = {0, 1, 100000, 1000000, 12000000, 12000001, 12000002, 12000010, 12011000, 99999999, 123456780, 123456790, 1000000000, 2000000000}
  Emit = TRUE
INVARIANTS AtMost8Significant Vector
CHECK_DEADLOCK FALSE
