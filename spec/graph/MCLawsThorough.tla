---- MODULE MCLawsThorough ----
EXTENDS GraphVec
MCIds == <<2, 7, 100, 13, 58, 31, 44>>
MCPool == <<1000003, 31, 0, 999, 64, 4096, 12345, 77, 5, 2147483000>>
====
