------------------------------- MODULE IdMass -------------------------------
(* C16 - what the structure id promises about masses: GraphNode prints a mass with 8 significant
   digits (graphnode.cc sig_fig_).  Masses here are lattice values k * 10^-6; every value of the
   lattice has at most 8 significant digits (checked), so two different lattice masses print
   differently and single beads carrying them must be reported as different.  Masses that differ
   only beyond the 8th significant digit are outside what the id can promise and are not asserted. *)
EXTENDS Integers, TLC, Json
CONSTANTS Lattice, Emit
VARIABLES a, b
Init == a \in Lattice /\ b \in Lattice /\ a < b
Next == UNCHANGED <<a, b>>
Spec == Init /\ [][Next]_<<a, b>>
RECURSIVE Strip(_)
Strip(k) == IF k # 0 /\ k % 10 = 0 THEN Strip(k \div 10) ELSE k
RECURSIVE NDigits(_)
NDigits(k) == IF k < 10 THEN 1 ELSE 1 + NDigits(k \div 10)
AtMost8Significant == NDigits(Strip(a)) <= 8 /\ NDigits(Strip(b)) <= 8
Vector == Emit => PrintT(ToJson([ma |-> a, mb |-> b, unit |-> 1000000, exp |-> "F"]))
=============================================================================
