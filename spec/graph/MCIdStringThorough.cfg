SPECIFICATION Spec
CONSTANTS
  NameSet <- MCNames
  SimpleNames <- MCSimple
  Masses = {1, 2}
  Emit = TRUE
INVARIANTS IdTotalOrder SaneNamesInjective RepairedInjective Vector
CHECK_DEADLOCK FALSE
