------------------------------ MODULE GraphHist ------------------------------
(* C16, mode H for distance labelling: ONE tools::Graph object is explored several times
   with exploreGraph<GraphDistVisitor> (different and equal start vertices), possibly after
   its nodes already carry a "Dist" attribute.  "Breadth-first distance labelling assigns
   every reachable vertex its shortest-path hop count" must hold after EVERY exploration of
   the history, for the start vertex of that exploration.

   State: the graph, the label each node currently carries (None or a number), the history.
   Explore(s) is the summary of one sweep proved in GraphBFS.tla for every neighbour order
   and for arbitrary left-over labels (PreKinds "stale"): every vertex reachable from s gets
   SpecDist(s), the others keep what they had.  Expected observation: the labels of the
   reachable vertices; about unreachable ones the statement is silent (the record lists
   them separately as `keep`, used only for the transcription-conformance warning).       *)
EXTENDS GraphClasses, SequencesExt, Json

CONSTANTS PreSet,     \* subset of {"none", "all", "some"}: labels before the first exploration
          Depth, Emit
VARIABLES g, pre, lab, h, touched
vars == <<g, pre, lab, h, touched>>

V == g.v
E == g.e
\* arbitrary earlier labels: never a correct hop count in this domain (>= 9), vertex dependent
PreLabel(kind, v) == IF kind = "all" \/ (kind = "some" /\ ((v * 37 + 11) % 211) % 2 = 0) THEN 9 + (v % 4) ELSE None

Init == /\ g \in Domain /\ pre \in PreSet
        /\ lab = [v \in g.v |-> PreLabel(pre, v)]
        /\ h = <<>> /\ touched = {}
\* From the second sweep on, the Graph object may first be COPIED (cp: 0 copy-constructed, 1 assigned
\* to a fresh graph, 2 assigned over a used graph; -1 no copy; chosen from the two start vertices so the
\* number of histories does not grow) and the sweep then runs on the copy: the copy answers like the
\* original would, and the abandoned original keeps the labels the earlier sweeps gave it (`old`).
CopyMode(s) == IF h = <<>> THEN -1 ELSE ((s + h[Len(h)].s) % 4) - 1
Explore(s) ==
  LET d == SpecDist(V, E, s)
      new == [v \in V |-> IF d[v] # None THEN d[v] ELSE lab[v]]
      vo == SetToSeq(V)
      cp == CopyMode(s)
  IN /\ lab' = new
     /\ touched' = touched \cup {v \in V : d[v] # None}
     /\ h' = Append(h, [s |-> s, cp |-> cp,
                        d |-> SelectSeq([i \in 1..Len(vo) |-> <<vo[i], d[vo[i]]>>], LAMBDA p : p[2] # None),
                        keep |-> SelectSeq([i \in 1..Len(vo) |-> <<vo[i], lab[vo[i]]>>], LAMBDA p : d[p[1]] = None),
                        old |-> IF cp < 0 THEN <<>> ELSE
                                SelectSeq([i \in 1..Len(vo) |-> <<vo[i], lab[vo[i]]>>], LAMBDA p : p[1] \in touched)])
     /\ UNCHANGED <<g, pre>>
Next == Len(h) < Depth /\ \E s \in V : Explore(s)
Spec == Init /\ [][Next]_vars

\* after every exploration the reachable vertices carry the hop counts of THAT start
LastSweepShortest ==
  h = <<>> \/ LET s == h[Len(h)].s  d == SpecDist(V, E, s) IN
              \A v \in V : d[v] # None => lab[v] = d[v]
Leaf == (Emit /\ Len(h) = Depth) =>
          PrintT(ToJson([vs |-> SetToSeq(V), es |-> SetToSeq(E),
                         pre |-> LET vo == SetToSeq(V) IN
                                 SelectSeq([i \in 1..Len(vo) |-> <<vo[i], PreLabel(pre, vo[i])>>], LAMBDA p : p[2] # None),
                         h |-> h]))
=============================================================================
