---- MODULE MCHistThorough ----
EXTENDS GraphHist
MCIds == <<2, 7, 100, 13, 58, 31, 44>>
====
