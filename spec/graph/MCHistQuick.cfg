SPECIFICATION Spec
CONSTANTS
  Ids <- MCIds
  NSet = {1, 2, 3, 4}
  MaxN = 7
  PreSet = {"none", "some"}
  Depth = 2
  Emit = TRUE
INVARIANTS LastSweepShortest Leaf
CHECK_DEADLOCK FALSE
