----------------------------- MODULE MotifTrace -----------------------------
(* Trace validation for csg::breakIntoMotifs / breakIntoSimpleMotifs / BeadMotifConnector: the
   driver decomposed real bead structures (graphs of the TLC vector domain and larger random
   ones) and logged  tops: [{type, ids, motifs: [{id, type, ids, es}], conns: [{e, m}]}].
   Every record must satisfy Graph!IsMotifDecomposition per independent structure, and the
   independent structures must be the connected components.                              *)
EXTENDS Graph, Json, IOUtils, SequencesExt

Recs == ndJsonDeserialize(IOEnv.TRACE)
Chunk == 32
VARIABLES i, ph
vars == <<i, ph>>
NChunks == (Len(Recs) + Chunk - 1) \div Chunk
Init == ph = 0 /\ i \in 1..NChunks
Next == /\ ph = 0 /\ ph' = 1
        /\ i' \in {j \in ((i - 1) * Chunk + 1)..(i * Chunk) : j <= Len(Recs)}
Spec == Init /\ [][Next]_vars

EdSet(s) == {Ed(e[1], e[2]) : e \in ToSet(s)}
R == Recs[i]
V == ToSet(R.vs)
E == EdSet(R.es)
MotifSet(t) == {[id |-> m.id, type |-> m.type, v |-> ToSet(m.ids), e |-> EdSet(m.es)] : m \in ToSet(t.motifs)}
ConnSet(t) == {[e |-> Ed(c.e[1], c.e[2]), m |-> c.m] : c \in ToSet(t.conns)}

MotifWellFormed == ph = 0 \/ (Len(R.vs) = Cardinality(V) /\ Len(R.es) = Cardinality(E) /\ IsGraph(V, E))
\* breakIntoMotifs: the independent structures are exactly the connected components
MotifTops == ph = 0 \/
  ({ToSet(t.ids) : t \in ToSet(R.tops)} = SpecComponents(V, E) /\ Len(R.tops) = Cardinality(SpecComponents(V, E)))
\* nothing reported twice
MotifNoDuplicates == ph = 0 \/
  \A t \in ToSet(R.tops) :
     /\ Len(t.motifs) = Cardinality(MotifSet(t)) /\ Len(t.conns) = Cardinality(ConnSet(t))
     /\ \A m \in ToSet(t.motifs) : Len(m.ids) = Cardinality(ToSet(m.ids)) /\ Len(m.es) = Cardinality(EdSet(m.es))
MotifLossless == ph = 0 \/
  \A t \in ToSet(R.tops) :
     LET C == ToSet(t.ids) IN IsMotifDecomposition(C, CompEdges(E, C), MotifSet(t), ConnSet(t))
=============================================================================
