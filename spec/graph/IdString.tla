------------------------------ MODULE IdString ------------------------------
(* C16 - is the structure id, as a STRING, injective on (name, mass) multisets?
   tools::GraphNode builds a node string by plain concatenation, keys in alphabetical order:
        ["Dist" <int>] "Mass" <mass, 8 significant digits> "Name" <name>
   tools::Graph::calcId_ sorts the node strings and concatenates them; findStructureId takes the
   lexicographically largest id over the maximal-degree start vertices.  Strings are modelled as
   token sequences (tokens compare like their first character, no token is a prefix of another,
   so token-wise lexicographic order = character order); bead names are token sequences too, so
   a name may contain the tokens Dist / Mass / Name / digits.
   The statement demands: different (name, mass) multisets => different ids.  TLC enumerates a
   small family of structure pairs and prints every pair as a vector with the verdict the
   statement fixes ("F"); pairs whose ids COLLIDE in this model are marked `idcollide` - they are
   design-level counterexamples of the encoding (e.g. one bead named B Mass 1 Name A with mass 2
   against two unconnected beads (B,2), (A,1); 16 of the 1148 pairs of MCIdString).  The code
   compared ids only and reported those pairs as equivalent; see README "Defects found".    *)
EXTENDS Integers, Sequences, FiniteSets, TLC, Json

CONSTANTS NameSet,      \* names of the single bead of structure X (token sequences)
          SimpleNames,  \* names of the beads of structure Y
          Masses, Emit
VARIABLES x, y
vars == <<x, y>>

Rank(t) == CASE t = "0" -> 0 [] t = "1" -> 1 [] t = "2" -> 2 [] t = "3" -> 3 [] t = "A" -> 10 [] t = "B" -> 11
             [] t = "Dist" -> 13 [] t = "Mass" -> 22 [] t = "Name" -> 23
RECURSIVE SeqLess(_, _)
SeqLess(a, b) == IF a = <<>> THEN b # <<>>
                 ELSE IF b = <<>> THEN FALSE
                 ELSE IF Rank(Head(a)) # Rank(Head(b)) THEN Rank(Head(a)) < Rank(Head(b))
                 ELSE SeqLess(Tail(a), Tail(b))
Digit(n) == CASE n = 0 -> "0" [] n = 1 -> "1" [] n = 2 -> "2" [] n = 3 -> "3"
NodeString(d, bead) == (IF d >= 0 THEN <<"Dist", Digit(d)>> ELSE <<>>) \o <<"Mass", Digit(bead.m), "Name">> \o bead.n

\* a structure: sequence of 1 or 2 beads [n, m], joined by an edge or not
Beads(s) == s.b
Dists(s, start) == [i \in 1..Len(s.b) |-> IF i = start THEN 0 ELSE IF s.edge THEN 1 ELSE -1]
RECURSIVE Concat(_)
Concat(ss) == IF ss = <<>> THEN <<>> ELSE Head(ss) \o Concat(Tail(ss))
SortTwo(ss) == IF Len(ss) = 2 /\ SeqLess(ss[2], ss[1]) THEN <<ss[2], ss[1]>> ELSE ss
IdFromStart(s, start) == Concat(SortTwo([i \in 1..Len(s.b) |-> NodeString(Dists(s, start)[i], s.b[i])]))
\* all vertices of these structures have maximal degree (1 bead; 2 beads with or without the edge)
Cands(s) == {IdFromStart(s, st) : st \in 1..Len(s.b)}
Id(s) == CHOOSE c \in Cands(s) : \A o \in Cands(s) : o = c \/ SeqLess(o, c)
BagOfBeads(s) == [bd \in {s.b[i] : i \in 1..Len(s.b)} |-> Cardinality({i \in 1..Len(s.b) : s.b[i] = bd})]

XSet == {[b |-> <<[n |-> nm, m |-> ms]>>, edge |-> FALSE] : nm \in NameSet, ms \in Masses}
YSet == {[b |-> <<[n |-> n1, m |-> m1], [n |-> n2, m |-> m2]>>, edge |-> ed] :
            n1 \in SimpleNames, n2 \in SimpleNames, m1 \in Masses, m2 \in Masses, ed \in BOOLEAN}
        \cup {[b |-> <<[n |-> n1, m |-> m1]>>, edge |-> FALSE] : n1 \in SimpleNames, m1 \in Masses}
Init == x \in XSet /\ y \in YSet
Next == UNCHANGED vars
Spec == Init /\ [][Next]_vars

Differ == BagOfBeads(x) # BagOfBeads(y)
IdCollide == Differ /\ Id(x) = Id(y)            \* the id alone cannot tell them apart
\* BeadStructure::isStructureEquivalent (after fix C16-equivalence-bead-multiset): equal ids AND equal
\* multisets of per-bead strings "Mass" m "Name" n (kept as separate strings, not concatenated)
BeadString(bd) == <<"Mass", Digit(bd.m), "Name">> \o bd.n
StringBag(s) == [t \in {BeadString(s.b[i]) : i \in 1..Len(s.b)} |->
                   Cardinality({i \in 1..Len(s.b) : BeadString(s.b[i]) = t})]
AlgoEquivalent == Id(x) = Id(y) /\ StringBag(x) = StringBag(y)
Collide == Differ /\ AlgoEquivalent
\* the repaired comparison separates every pair of the family, whatever the names contain
RepairedInjective == ~Collide
\* with names free of keyword tokens already the id alone is injective on this family
SaneNamesInjective == (\A i \in 1..Len(x.b[1].n) : x.b[1].n[i] \notin {"Dist", "Mass", "Name"}) => ~IdCollide
IdTotalOrder == \A s \in {x, y} : \E c \in Cands(s) : \A o \in Cands(s) : o = c \/ SeqLess(o, c)
Vector == (Emit /\ Differ) => PrintT(ToJson([x |-> x, y |-> y, exp |-> "F", collide |-> Collide, idcollide |-> IdCollide]))
=============================================================================
