---- MODULE MCIdStringThorough ----
EXTENDS IdString
MCSimple == {<<"A">>, <<"B">>}
Tok == {"A", "Dist", "Mass", "Name", "1"}
AllUpTo4 == UNION {[1..n -> Tok] : n \in 1..4}
MCNames == MCSimple \cup AllUpTo4 \cup {<<a, "Mass", d, "Name", b>> : a \in {"A", "B"}, d \in {"1", "2"}, b \in {"A", "B"}}
====
