------------------------------- MODULE Graph -------------------------------
(* C16 - declarative meaning (Spec...) of the graph notions used by votca's structure
   comparison, plus transcriptions (Algo...) of those pieces of the code whose
   outcome is a pure function of the graph.  A graph is a pair (V, E): V a finite
   set of integer vertex ids (NOT 1..n), E a set of pairs <<a,b>> with a < b, both
   in V (tools::Edge stores min,max).  Node attributes are a function attr: V -> X.

   The queue discipline of tools::Graph_BF_Visitor is a state machine of its own
   (GraphBFS.tla); everything here is order free.                                  *)
EXTENDS Integers, Sequences, FiniteSets, TLC

Ed(a, b) == IF a < b THEN <<a, b>> ELSE <<b, a>>
AllPairs(V) == {<<a, b>> \in V \X V : a < b}
IsGraph(V, E) == IsFiniteSet(V) /\ E \subseteq AllPairs(V)
Ends(e) == {e[1], e[2]}
Other(e, v) == IF e[1] = v THEN e[2] ELSE e[1]       \* Edge::getOtherEndPoint
Nbrs(V, E, v) == {w \in V : Ed(v, w) \in E /\ w # v}
IncEdges(E, v) == {e \in E : v \in Ends(e)}          \* getNeighEdges as a set
Deg(E, v) == Cardinality(IncEdges(E, v))
VertsOf(S) == UNION {Ends(e) : e \in S}
None == -1                                           \* "no Dist label"

(* ---- reachability and hop distance: Bellman-style relaxation to a fixpoint ---- *)
RECURSIVE ReachFix(_, _, _)
ReachFix(V, E, S) == LET T == S \cup UNION {Nbrs(V, E, v) : v \in S}
                     IN IF T = S THEN S ELSE ReachFix(V, E, T)
Reach(V, E, s) == ReachFix(V, E, {s})

\* d is a function V -> Nat \cup {Inf}; one relaxation sweep lowers d[v] to 1 + min over neighbours
Inf(V) == Cardinality(V) + 1
GMin(S) == CHOOSE x \in S : \A y \in S : x <= y
GMax(S) == CHOOSE x \in S : \A y \in S : x >= y
Relax(V, E, d) == [v \in V |-> GMin({d[v]} \cup {d[w] + 1 : w \in Nbrs(V, E, v)})]
RECURSIVE DistFix(_, _, _)
DistFix(V, E, d) == LET n == Relax(V, E, d) IN IF n = d THEN d ELSE DistFix(V, E, n)
\* shortest hop count from s for every reachable vertex, None for the others
SpecDist(V, E, s) ==
  LET d == DistFix(V, E, [v \in V |-> IF v = s THEN 0 ELSE Inf(V)])
  IN [v \in V |-> IF d[v] >= Inf(V) THEN None ELSE d[v]]

\* independent characterisation used as a theorem about SpecDist (walks of length k)
RECURSIVE Ball(_, _, _, _)
Ball(V, E, s, k) == IF k = 0 THEN {s}
                    ELSE LET B == Ball(V, E, s, k - 1) IN B \cup UNION {Nbrs(V, E, v) : v \in B}
DistIsShortestWalk(V, E, s) ==
  LET d == SpecDist(V, E, s) IN
  /\ \A v \in V : (d[v] # None) <=> (v \in Reach(V, E, s))
  /\ \A v \in V : d[v] # None =>
        /\ v \in Ball(V, E, s, d[v])
        /\ (d[v] > 0 => v \notin Ball(V, E, s, d[v] - 1))

(* ---- connected components -------------------------------------------------------- *)
SpecComponents(V, E) == {Reach(V, E, v) : v \in V}             \* set of vertex sets
CompEdges(E, C) == {e \in E : Ends(e) \subseteq C}
SpecParts(V, E) == {[v |-> C, e |-> CompEdges(E, C)] : C \in SpecComponents(V, E)}
IsPartition(P, S) == /\ UNION P = S
                     /\ \A A \in P : A # {}
                     /\ \A A, B \in P : A # B => A \cap B = {}
ComponentsLaw(V, E) ==
  LET P == SpecComponents(V, E) IN
  /\ IsPartition(P, V)
  /\ IsPartition({CompEdges(E, C) : C \in P} \ {{}}, E)            \* every edge in exactly one part
  /\ \A e \in E : Cardinality({C \in P : e \in CompEdges(E, C)}) = 1
  /\ \A C \in P : \A v \in C : Reach(C, CompEdges(E, C), v) = C     \* each part is connected
  /\ \A C, D \in P : C # D => \A a \in C, b \in D : Ed(a, b) \notin E

\* decoupleIsolatedSubGraphs: walk the vertex vector (any order), flood-fill from the first
\* vertex not yet analysed, collect the edges incident to the explored vertices.
\* The explored set of the breadth-first visitor is Reach (theorem of GraphBFS.tla).
RECURSIVE AlgoDecoupleRec(_, _, _, _, _)
AlgoDecoupleRec(V, E, order, i, analysed) ==
  IF i > Len(order) THEN {}
  ELSE IF order[i] \in analysed THEN AlgoDecoupleRec(V, E, order, i + 1, analysed)
  ELSE LET X == Reach(V, E, order[i])
           part == [v |-> X, e |-> UNION {IncEdges(E, x) : x \in X}]
       IN {part} \cup AlgoDecoupleRec(V, E, order, i, analysed \cup X)
AlgoDecouple(V, E, order) == AlgoDecoupleRec(V, E, order, 1, {})

(* ---- single network ---------------------------------------------------------------- *)
Connected(V, E) == V # {} /\ \A v \in V : Reach(V, E, v) = V
SpecSingle(V, E) == Connected(V, E) /\ \A v \in V : Deg(E, v) > 0
\* singleNetwork(graph, visitor started at s): explored.size() == vertices.size() && no isolated nodes
AlgoSingle(V, E, s) == /\ Cardinality(Reach(V, E, s)) = Cardinality(V)
                       /\ {v \in V : Deg(E, v) = 0} = {}

(* ---- reduction to junction-to-junction chains ---------------------------------------
   Canonical decomposition: two edges belong to the same chain iff they are linked by a
   sequence of edges in which consecutive ones share a vertex of degree 2.              *)
Deg2(E) == {v \in VertsOf(E) : Deg(E, v) = 2}
Linked(E, e, f) == e # f /\ \E v \in Ends(e) \cap Ends(f) : Deg(E, v) = 2
\* closure of S under "shares a degree-2 vertex" (D2 = Deg2(E) is passed in to be computed once)
RECURSIVE ChainFix(_, _, _)
ChainFix(E, D2, S) == LET hinge == VertsOf(S) \cap D2
                          T == S \cup {f \in E : Ends(f) \cap hinge # {}}
                      IN IF T = S THEN S ELSE ChainFix(E, D2, T)
SpecChains(V, E) == LET D2 == Deg2(E) IN {ChainFix(E, D2, {e}) : e \in E}       \* set of edge sets
\* the closure really is the equivalence generated by Linked
ChainsAreLinkClasses(V, E) ==
  LET Cs == SpecChains(V, E) IN
  /\ \A e, f \in E : Linked(E, e, f) => \E C \in Cs : e \in C /\ f \in C
  /\ \A C \in Cs : \A X \in (SUBSET C) \ {{}, C} : \E e \in X, f \in C \ X : Linked(E, e, f)
DegIn(C, v) == Cardinality({e \in C : v \in Ends(e)})
ChainTips(C) == {v \in VertsOf(C) : DegIn(C, v) = 1}
\* one chain C of graph (V,E) obeys the end-point rule: it is a simple path whose two ends are
\* tips or junctions (degree # 2) and whose interior has degree 2, or it is a closed ring
\* with at most one vertex that is not of degree 2
IsChainOf(V, E, C) ==
  /\ C # {} /\ C \subseteq E
  /\ \A v \in VertsOf(C) : DegIn(C, v) \in {1, 2}
  /\ Reach(VertsOf(C), C, CHOOSE v \in VertsOf(C) : TRUE) = VertsOf(C)      \* connected, so a path or a cycle
  /\ \/ /\ Cardinality(ChainTips(C)) = 2
        /\ \A v \in ChainTips(C) : Deg(E, v) # 2
        /\ \A v \in VertsOf(C) \ ChainTips(C) : Deg(E, v) = 2
     \/ /\ Cardinality(ChainTips(C)) = 0
        /\ Cardinality({v \in VertsOf(C) : Deg(E, v) # 2}) <= 1
\* a set of chains is a lossless reduction of (V,E)
IsReduction(V, E, chains) ==
  /\ IsPartition(chains, E)
  /\ \A C \in chains : IsChainOf(V, E, C)
Expand(V, E, chains) == [v |-> VertsOf(UNION chains) \cup {x \in V : Deg(E, x) = 0},   \* isolated nodes are kept as nodes
                         e |-> UNION chains]
ReduceLaw(V, E) == /\ IsReduction(V, E, SpecChains(V, E))
                   /\ Expand(V, E, SpecChains(V, E)) = [v |-> V, e |-> E]
\* any reduction obeying the rule is the canonical one (so the binding may compare sets)
RECURSIVE Partitions(_)
Partitions(S) == IF S = {} THEN {{}}
                 ELSE LET x == CHOOSE y \in S : TRUE IN
                      UNION {{P \cup {T \cup {x}} : P \in Partitions(S \ (T \cup {x}))} : T \in SUBSET (S \ {x})}
ReduceUnique(V, E) == \A chains \in Partitions(E) : IsReduction(V, E, chains) => chains = SpecChains(V, E)



(* ---- exploreBranch(g, s, e): the part of the graph reached through edge e without passing
   through s again: all edges inside the component of e's far end in G - s, plus the edges
   between s and that component (graphalgorithm.h).  Graph_DF_Visitor on its own explores, like
   the breadth-first visitor, exactly Reach(start).                                          *)
SpecBranch(V, E, s, e) ==
  LET w == Other(e, s)
      C == Reach(V \ {s}, {f \in E : s \notin Ends(f)}, w)
  IN {f \in E : Ends(f) \subseteq C \cup {s} /\ Ends(f) \cap C # {}}
\* the branches at s are pairwise equal or disjoint and together make up the edges of s's component
BranchLaw(V, E, s) ==
  LET Bs == {SpecBranch(V, E, s, e) : e \in IncEdges(E, s)} IN
  /\ \A e \in IncEdges(E, s) : e \in SpecBranch(V, E, s, e)
  /\ \A A, B \in Bs : A = B \/ A \cap B = {}
  /\ UNION Bs = CompEdges(E, Reach(V, E, s))

(* ---- decomposition into simple motifs (csg::breakIntoMotifs + breakIntoSimpleMotifs) -----------
   Losslessness in the same sense as components/chains: the independent structures are the
   connected components; inside one component every bead lies in exactly one simple motif and
   every edge lies either inside exactly one motif or exactly once in the connector, where it
   joins the two motifs that own its end points.  A simple motif has one of the four documented
   shapes (beadmotif.h): single bead, line (a path), loop (a cycle), fused ring (connected, no
   vertex of degree < 2, at least one junction).  WHICH edges are cut at a junction is the
   code's policy (scenarios I-IV in beadmotifalgorithms.cc) and is not prescribed here.      *)
IsPathGraph(W, F) == /\ Cardinality(W) >= 2 /\ W = VertsOf(F)
                     /\ Reach(W, F, CHOOSE v \in W : TRUE) = W
                     /\ \A v \in W : Deg(F, v) \in {1, 2}
                     /\ Cardinality({v \in W : Deg(F, v) = 1}) = 2
IsCycleGraph(W, F) == /\ W # {} /\ W = VertsOf(F)
                      /\ Reach(W, F, CHOOSE v \in W : TRUE) = W
                      /\ \A v \in W : Deg(F, v) = 2
IsFusedShape(W, F) == /\ W # {} /\ W = VertsOf(F)
                      /\ Reach(W, F, CHOOSE v \in W : TRUE) = W
                      /\ \A v \in W : Deg(F, v) >= 2
                      /\ \E v \in W : Deg(F, v) >= 3
ShapeOK(type, W, F) == CASE type = "single_bead" -> Cardinality(W) = 1 /\ F = {}
                         [] type = "line" -> IsPathGraph(W, F)
                         [] type = "loop" -> IsCycleGraph(W, F)
                         [] type = "fused_ring" -> IsFusedShape(W, F)
                         [] OTHER -> FALSE          \* complex / undefined types must not be returned
\* motifs: set of records [id, type, v, e]; conns: set of records [e, m] (bead edge, pair of motif ids)
IsMotifDecomposition(C, EC, motifs, conns) ==
  /\ IsPartition({m.v : m \in motifs}, C)
  /\ \A m, k \in motifs : m # k => m.v # k.v
  /\ \A m \in motifs : m.e \subseteq EC /\ VertsOf(m.e) \subseteq m.v /\ ShapeOK(m.type, m.v, m.e)
  /\ (UNION {m.e : m \in motifs}) \cup {c.e : c \in conns} = EC
  /\ (UNION {m.e : m \in motifs}) \cap {c.e : c \in conns} = {}
  /\ \A c \in conns : \E m, k \in motifs :
        /\ {m.id, k.id} = {c.m[1], c.m[2]}
        /\ \/ (c.e[1] \in m.v /\ c.e[2] \in k.v)
           \/ (c.e[2] \in m.v /\ c.e[1] \in k.v)

(* ---- structure id --------------------------------------------------------------------
   findStructureId<GraphDistVisitor>: every vertex of maximal degree is a start candidate
   (the "greatest node string" filter in the code never selects anything because
   std::string("").compare(x) <= 0; all maximal-degree vertices are explored);  from each
   start the nodes get Dist labels, the graph id is the sorted concatenation of node
   strings (Dist, Mass, Name), and the lexicographically largest id wins.  A node string
   is modelled as the tuple <<dist, attr>>, the sorted concatenation as a bag, and the
   winner as a function of the *set* of candidate bags.                                  *)
RECURSIVE SumOver(_, _)
SumOver(S, f) == IF S = {} THEN 0 ELSE LET p == CHOOSE q \in S : TRUE IN f[p] + SumOver(S \ {p}, f)
BagOf(f, S) == LET vals == {f[x] : x \in S}
               IN [y \in vals |-> Cardinality({x \in S : f[x] = y})]
MaxDeg(V, E) == IF V = {} THEN 0 ELSE GMax({Deg(E, v) : v \in V})
Starts(V, E) == {v \in V : Deg(E, v) = MaxDeg(V, E)}
IdFrom(V, E, attr, s) == LET d == SpecDist(V, E, s)
                         IN BagOf([v \in V |-> <<d[v], attr[v]>>], V)
IdCands(V, E, attr) == {IdFrom(V, E, attr, s) : s \in Starts(V, E)}
AttrBag(V, attr) == BagOf(attr, V)
\* forgetting the Dist labels of an id gives back the (name,mass) multiset
ProjId(id) == LET as == {p[2] : p \in DOMAIN id}
              IN [a \in as |-> SumOver({p \in DOMAIN id : p[2] = a}, id)]

\* relabelling by an injective map pi on V
RelabV(V, pi) == {pi[v] : v \in V}
RelabE(E, pi) == {Ed(pi[e[1]], pi[e[2]]) : e \in E}
RelabAttr(V, attr, pi) == [w \in RelabV(V, pi) |-> attr[CHOOSE v \in V : pi[v] = w]]
=============================================================================
