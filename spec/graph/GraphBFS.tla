------------------------------ MODULE GraphBFS ------------------------------
(* C16 - transcription of tools::exploreGraph driven by tools::Graph_BF_Visitor with
   GraphDistVisitor's labelling, as a state machine, one action per loop iteration:

     initialize():  exploreNode(start)  [Dist = 0, explored]   ; addEdges_(start)
     while (!queEmpty()) { edge = nextEdge(graph); exec(graph, edge); }
     nextEdge():    edge = getEdge_()  [front of edge_que_[0]; pop the level when it runs empty]
                    u = getUnexploredVertex(edge); if (u.size()) addEdges_(u[0])
     exec():        u.size()==0: nothing; >1: throw; else exploreNode(u[0], edge)
                    [Dist(u0) = Dist(other end) + 1, explored]
     addEdges_(v):  neighbour edges of v whose other end is unexplored are appended, in
                    the iteration order of an unordered_map (here: ANY order), to
                    - a new first level            if the deque is empty
                    - a new second level           if the deque has exactly one level
                    - the existing second level    otherwise

   TLC explores every graph of the domain, every start vertex and every neighbour
   order, and checks that the labels are the shortest hop counts (Graph!SpecDist). *)
EXTENDS GraphClasses, SequencesExt

CONSTANTS PreKinds     \* subset of {"none", "stale"}: labels the nodes carry before the sweep (a Graph object may be
                       \* explored several times, or its nodes may already have a "Dist" attribute)
CONSTANTS SparseN, SparseMaxE   \* additionally all graphs on SparseN vertices with at most SparseMaxE edges (0: none)
VARIABLES V, E, start, sd, que, explored, dist, st, err, steps
vars == <<V, E, start, sd, que, explored, dist, st, err, steps>>

Orders(S) == LET base == SetToSeq(S)
             IN {[i \in 1..Len(base) |-> p[base[i]]] : p \in Permutations(S)}

Sparse == IF SparseN = 0 THEN {} ELSE
          {G(VSet(SparseN), X) : X \in {Y \in SUBSET AllPairs(VSet(SparseN)) : Cardinality(Y) <= SparseMaxE}}
\* an arbitrary left-over label: wrong for every sweep of the domain (hop counts are < 7)
StaleLabel(v) == 9 + (v % 3)
Init == /\ \E x \in Domain \cup Sparse : V = x.v /\ E = x.e
        /\ start \in V
        /\ sd = SpecDist(V, E, start)
        /\ que = <<>> /\ explored = {}
        /\ \E pre \in PreKinds : dist = [v \in V |-> IF pre = "stale" THEN StaleLabel(v) ELSE None]
        /\ st = "init" /\ err = FALSE /\ steps = 0

\* Graph_BF_Visitor::addEdges_
AddEdges(q, expl, v, ord) ==
  LET newest == SelectSeq(ord, LAMBDA e : Other(e, v) \notin expl) IN
  IF q = <<>> THEN (IF newest = <<>> THEN q ELSE <<newest>>)
  ELSE IF Len(q) = 1 THEN (IF newest = <<>> THEN q ELSE Append(q, newest))
  ELSE [q EXCEPT ![2] = @ \o newest]

Initialize ==
  /\ st = "init"
  /\ explored' = {start}
  /\ dist' = [dist EXCEPT ![start] = 0]
  /\ \E ord \in Orders(IncEdges(E, start)) : que' = AddEdges(que, explored', start, ord)
  /\ st' = "loop"
  /\ UNCHANGED <<V, E, start, sd, err, steps>>

Unexplored(e, expl) == (IF e[1] \notin expl THEN <<e[1]>> ELSE <<>>) \o
                       (IF e[2] \notin expl THEN <<e[2]>> ELSE <<>>)

Step ==
  /\ st = "loop" /\ que # <<>> /\ ~err
  /\ LET edge == Head(que[1])
         q1 == IF Len(que[1]) = 1 THEN Tail(que) ELSE [que EXCEPT ![1] = Tail(@)]
         un == Unexplored(edge, explored)
     IN /\ IF un = <<>> THEN que' = q1
           ELSE \E ord \in Orders(IncEdges(E, un[1])) : que' = AddEdges(q1, explored, un[1], ord)
        /\ IF un = <<>> THEN UNCHANGED <<explored, dist, err>>
           ELSE IF Len(un) > 1 THEN err' = TRUE /\ UNCHANGED <<explored, dist>>
           ELSE LET v == un[1]  prev == Other(edge, v) IN
                /\ dist' = [dist EXCEPT ![v] = (IF dist[prev] = None THEN 0 ELSE dist[prev]) + 1]
                /\ explored' = explored \cup {v}
                /\ UNCHANGED err
  /\ steps' = steps + 1
  /\ UNCHANGED <<V, E, start, sd, st>>

Finish == /\ st = "loop" /\ que = <<>> /\ st' = "done"
          /\ UNCHANGED <<V, E, start, sd, que, explored, dist, err, steps>>
Idle == st = "done" /\ UNCHANGED vars
Next == Initialize \/ Step \/ Finish \/ Idle
Spec == Init /\ [][Next]_vars

\* ---- properties -------------------------------------------------------------------
NoThrow == ~err
QueueShape == /\ Len(que) <= 2
              /\ \A i \in 1..Len(que) : que[i] # <<>>
QueuedEdgesTouchExplored ==
  st = "loop" => \A i \in 1..Len(que) : \A k \in 1..Len(que[i]) :
                    \E x \in Ends(que[i][k]) : x \in explored
\* GraphDistVisitor::exploreNode relabels a vertex when the *visitor* has not explored it yet
\* (explored_ is per sweep), never looking at an old label: whatever the nodes carried before,
\* every explored vertex ends with its hop count from THIS start.
LabelsAreShortest == \A v \in explored : dist[v] = sd[v]
UntouchedKeepLabel == \A v \in V \ explored : dist[v] = None \/ dist[v] = StaleLabel(v)
AtEnd == st = "done" => /\ explored = Reach(V, E, start)
                        /\ \A v \in explored : dist[v] = sd[v]
Terminates == steps <= 2 * Cardinality(E)     \* with deadlock checking on: every run reaches "done"
\* the two-level deque is observably one FIFO: the sources' labels never decrease along it
Flat == IF que = <<>> THEN <<>> ELSE IF Len(que) = 1 THEN que[1] ELSE que[1] \o que[2]
SrcDist(e) == LET ds == {dist[x] : x \in Ends(e) \cap explored} IN IF ds = {} THEN None ELSE GMin(ds)
=============================================================================
