---------------------------- MODULE GraphClasses ----------------------------
(* The graph domain of C16: all simple graphs on the first n ids of `Ids` and the
   named classes (chains, rings, stars, fused rings, theta graphs, spiro rings, rings
   with tails, trees, disconnected mixtures) on up to MaxN vertices.               *)
EXTENDS Graph
CONSTANTS Ids,      \* sequence of distinct vertex ids, deliberately not 1..n
          NSet,     \* vertex counts for which ALL graphs are taken
          MaxN      \* size limit of the named classes (<= Len(Ids))

Id(i) == Ids[i]
VSet(n) == {Ids[i] : i \in 1..n}
G(V, E) == [v |-> V, e |-> E]
PathE(s) == {Ed(s[i], s[i + 1]) : i \in 1..(Len(s) - 1)}
CycleE(s) == PathE(s) \cup {Ed(s[Len(s)], s[1])}
Rng(a, n) == [i \in 1..n |-> Ids[a + i - 1]]          \* n consecutive ids starting at position a
RngSet(a, n) == {Ids[a + i - 1] : i \in 1..n}

AllOn(n) == {G(VSet(n), E) : E \in SUBSET AllPairs(VSet(n))}

Chain(a, n) == G(RngSet(a, n), PathE(Rng(a, n)))
Ring(a, n) == G(RngSet(a, n), CycleE(Rng(a, n)))
Star(a, n) == G(RngSet(a, n), {Ed(Ids[a], Ids[a + i]) : i \in 1..(n - 1)})
\* two rings of sizes p and q sharing the edge Id(1)-Id(2)
Fused(p, q) == G(VSet(p + q - 2), CycleE(Rng(1, p)) \cup CycleE(<<Ids[2], Ids[1]>> \o Rng(p + 1, q - 2)))
\* two rings sharing the vertex Id(1)
Spiro(p, q) == G(VSet(p + q - 1), CycleE(Rng(1, p)) \cup CycleE(<<Ids[1]>> \o Rng(p + 1, q - 1)))
\* junctions Id(1), Id(2) joined by three paths with a, b, c interior vertices
Theta(a, b, c) == G(VSet(a + b + c + 2),
                    PathE(<<Ids[1]>> \o Rng(3, a) \o <<Ids[2]>>) \cup
                    PathE(<<Ids[1]>> \o Rng(3 + a, b) \o <<Ids[2]>>) \cup
                    PathE(<<Ids[1]>> \o Rng(3 + a + b, c) \o <<Ids[2]>>))
\* ring of p with a tail of t hanging off Id(1)
RingTail(p, t) == G(VSet(p + t), CycleE(Rng(1, p)) \cup PathE(<<Ids[1]>> \o Rng(p + 1, t)))
\* three fused rings in a row (anthracene skeleton squeezed: triangles)
Ladder(n) == G(VSet(n), PathE(Rng(1, n)) \cup {Ed(Ids[i], Ids[i + 2]) : i \in 1..(n - 2)})
TreeE(parent) == {Ed(Ids[i], Ids[parent[i]]) : i \in 2..Len(parent)}
Trees == { G(VSet(7), TreeE(<<0, 1, 1, 2, 2, 3, 3>>)),          \* binary tree
           G(VSet(7), TreeE(<<0, 1, 2, 3, 2, 3, 4>>)),          \* caterpillar
           G(VSet(7), TreeE(<<0, 1, 1, 1, 2, 3, 4>>)),          \* spider, legs 2,2,2
           G(VSet(7), TreeE(<<0, 1, 2, 3, 4, 4, 4>>)),          \* broom
           G(VSet(6), TreeE(<<0, 1, 1, 2, 2, 2>>)),
           G(VSet(7), TreeE(<<0, 1, 1, 1, 4, 4, 4>>)) }         \* two stars joined

\* disjoint unions: parts laid out on consecutive id ranges
Part(kind, a, n) == CASE kind = "c" -> Chain(a, n) [] kind = "r" -> Ring(a, n) [] kind = "s" -> Star(a, n)
Catalog == {<<"c", 1>>, <<"c", 2>>, <<"c", 3>>, <<"r", 3>>, <<"r", 4>>, <<"s", 4>>}
Union2(g, h) == G(g.v \cup h.v, g.e \cup h.e)
Mixtures ==
  {Union2(Part(p[1], 1, p[2]), Part(q[1], p[2] + 1, q[2])) :
      <<p, q>> \in {pq \in Catalog \X Catalog : pq[1][2] + pq[2][2] <= MaxN}} \cup
  {Union2(Union2(Part(p[1], 1, p[2]), Part(q[1], p[2] + 1, q[2])), Part(r[1], p[2] + q[2] + 1, r[2])) :
      <<p, q, r>> \in {t \in Catalog \X Catalog \X Catalog : t[1][2] + t[2][2] + t[3][2] <= MaxN}}

Named ==
  {Chain(1, n) : n \in 1..MaxN} \cup {Ring(1, n) : n \in 3..MaxN} \cup {Star(1, n) : n \in 3..MaxN} \cup
  {Fused(pq[1], pq[2]) : pq \in {x \in (3..6) \X (3..6) : x[1] + x[2] - 2 <= MaxN}} \cup
  {Spiro(pq[1], pq[2]) : pq \in {x \in (3..5) \X (3..5) : x[1] + x[2] - 1 <= MaxN}} \cup
  {Theta(t[1], t[2], t[3]) : t \in {x \in (0..3) \X (1..3) \X (1..3) : x[1] + x[2] + x[3] + 2 <= MaxN /\ x[1] <= x[2] /\ x[2] <= x[3]}} \cup
  {RingTail(pt[1], pt[2]) : pt \in {x \in (3..6) \X (1..4) : x[1] + x[2] <= MaxN}} \cup
  {Ladder(n) : n \in 4..MaxN} \cup
  {t \in Trees : Cardinality(t.v) <= MaxN} \cup Mixtures \cup
  {G(VSet(n), {}) : n \in 0..MaxN}

Domain == UNION {AllOn(n) : n \in NSet} \cup Named
=============================================================================
