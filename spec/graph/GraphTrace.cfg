SPECIFICATION Spec
INVARIANTS TraceWellFormed TraceDist TraceParts TraceSingle TraceChains TraceExpand TraceEquivalent TraceDifferent
CHECK_DEADLOCK FALSE
