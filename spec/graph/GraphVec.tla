------------------------------ MODULE GraphVec ------------------------------
(* Mode L for C16: every (graph, salt) point of the domain is one initial state.  TLC
   checks the order-free laws of Graph.tla on it and prints one test vector: the graph
   with a salt-chosen node order, edge insertion order and orientation, attribute
   assignment, a salt-chosen relabelling onto unrelated ids with another insertion
   order, a copy whose (name,mass) multiset differs, and every expected observation. *)
EXTENDS GraphClasses, SequencesExt, Json

CONSTANTS Salts,    \* set of naturals
          Pool,     \* sequence of target ids for relabelling (>= MaxN entries, distinct)
          Fresh,    \* an id used nowhere else (extra bead of the negative copy)
          Emit
VARIABLES g, salt, ph
vars == <<g, salt, ph>>

(* TLC computes initial states with one thread but successors with all workers, so the
   domain is enumerated in two levels: a seed fixes the vertex set and the edges at the
   first vertex (phase 0, no law evaluated), its successors add every choice of the
   remaining edges (phase 1 = the vectors).                                           *)
Seeds == {[v |-> VSet(n), e |-> F, open |-> AllPairs(VSet(n) \ {Ids[1]})] :
             <<n, F>> \in UNION {{<<m, F>> : F \in SUBSET {Ed(Ids[1], Ids[i]) : i \in 2..m}} : m \in NSet \ {0}}}
         \cup {[v |-> x.v, e |-> x.e, open |-> {}] : x \in Named}
Init == g \in Seeds /\ salt \in Salts /\ ph = 0
Next == /\ ph = 0 /\ ph' = 1 /\ salt' = salt
        /\ \E X \in SUBSET g.open : g' = [v |-> g.v, e |-> g.e \cup X, open |-> {}]
Spec == Init /\ [][Next]_vars

V == g.v
E == g.e
\* ---- salt-driven choices (all deterministic functions of (graph, salt)) ------------
KeyV(v, s) == (v * 37 + s * 101 + 7) % 211
KeyE(e, s) == (e[1] * 53 + e[2] * 97 + s * 29 + 3) % 223
LessV(a, b, s) == KeyV(a, s) < KeyV(b, s) \/ (KeyV(a, s) = KeyV(b, s) /\ a < b)
LessE(a, b, s) == KeyE(a, s) < KeyE(b, s) \/ (KeyE(a, s) = KeyE(b, s) /\ (a[1] < b[1] \/ (a[1] = b[1] /\ a[2] < b[2])))
VOrder(s) == SetToSortSeq(V, LAMBDA a, b : LessV(a, b, s))                      \* node / bead insertion order
EOrder(s) == LET q == SetToSortSeq(E, LAMBDA a, b : LessE(a, b, s))             \* edge insertion order, orientation flipped by key parity
             IN [i \in 1..Len(q) |-> IF KeyE(q[i], s + 1) % 2 = 0 THEN q[i] ELSE <<q[i][2], q[i][1]>>]
Attr == [v \in V |-> IF salt % 3 = 0 THEN 1
                     ELSE IF salt % 3 = 1 THEN 1 + (KeyV(v, salt) % 2)
                     ELSE 1 + (KeyV(v, salt) % 4)]          \* index into the (name,mass) palette
\* second attribute assignment from the palette of NON-dyadic masses (indices 11..19: 1.008, 12.011, 15.999,
\* 0.1, 0.2, 0.3, 0.001, 1e16, 1): sums of such masses depend on the order of summation
Attr2 == [v \in V |-> 11 + (KeyV(v, salt + 2) % 9)]
\* multigraph corner cases the edge container accepts: self edges <<v,v>> on salt-chosen vertices (isolated
\* ones included) and a second copy of salt-chosen edges
Loops == {v \in V : KeyV(v, salt + 11) % 3 = 0}
Dups == {e \in E : KeyE(e, salt + 12) % 3 = 0}
LoopEdges == {<<v, v>> : v \in Loops}
MParts == {[v |-> C, e |-> CompEdges(E, C) \cup {<<v, v>> : v \in Loops \cap C}] : C \in SpecComponents(V, E)}
Rank(v) == Cardinality({u \in V : LessV(u, v, salt + 5)})
Pi == [v \in V |-> Pool[((Rank(v) + salt) % Len(Pool)) + 1]]
\* negative copy: same graph, one attribute changed (even salt) or one extra isolated bead (odd salt / empty graph)
AltExtra == V = {} \/ salt % 2 = 1
AltV == IF AltExtra THEN V \cup {Fresh} ELSE V
AltVictim == CHOOSE v \in V : \A u \in V : LessV(v, u, salt + 9) \/ u = v
AltAttr == IF AltExtra THEN [v \in AltV |-> IF v = Fresh THEN 1 ELSE Attr[v]]
           ELSE [Attr EXCEPT ![AltVictim] = (@ % 4) + 1]

\* ---- laws (design level) -------------------------------------------------------------
WellFormed == ph = 0 \/ (IsGraph(V, E) /\ Fresh \notin V /\ \A v \in V : Pi[v] # Fresh)
DistLaw == ph = 0 \/ \A s \in V : DistIsShortestWalk(V, E, s)
CompLaw == ph = 0 \/ ComponentsLaw(V, E)
DecoupleLaw == ph = 0 \/ \A s \in {salt, salt + 1, salt + 2} :
                            AlgoDecouple(V, E, VOrder(s)) = SpecParts(V, E)
SingleLaw == ph = 0 \/
  ( /\ \A s \in V : AlgoSingle(V, E, s) = SpecSingle(V, E)
    /\ SpecSingle(V, E) = (Cardinality(SpecComponents(V, E)) = 1 /\ \A v \in V : Deg(E, v) # 0) )
RedLaw == ph = 0 \/ ReduceLaw(V, E)
\* with self edges / repeated edges: the parts are vertex-disjoint, connected, and the union of their edge SETS is the
\* graph's edge set including the self edges (hop counts and components do not depend on multiplicities)
MultiLaw == ph = 0 \/
  ( /\ UNION {p.e : p \in MParts} = E \cup LoopEdges
    /\ IsPartition({p.v : p \in MParts}, V)
    /\ \A p, q \in MParts : p # q => p.e \cap q.e = {}
    /\ \A p \in MParts : \A f \in p.e : Ends(f) \subseteq p.v )
IdInvariant2 == ph = 0 \/
  IdCands(V, E, Attr2) = IdCands(RelabV(V, Pi), RelabE(E, Pi), RelabAttr(V, Attr2, Pi))
BranchLaws == ph = 0 \/ \A s \in V : BranchLaw(V, E, s)
ChainClassLaw == ph = 0 \/ ChainsAreLinkClasses(V, E)
RedUniqueLaw == ph = 0 \/ Cardinality(E) > 7 \/ ReduceUnique(V, E)
PiInjective == ph = 0 \/ \A a, b \in V : a # b => Pi[a] # Pi[b]
\* label independence of the structure id, and separation of different attribute multisets
IdInvariant == ph = 0 \/
  IdCands(V, E, Attr) = IdCands(RelabV(V, Pi), RelabE(E, Pi), RelabAttr(V, Attr, Pi))
IdProjects == ph = 0 \/ \A c \in IdCands(V, E, Attr) : ProjId(c) = AttrBag(V, Attr)
IdSeparates == ph = 0 \/
  ( /\ AttrBag(AltV, AltAttr) # AttrBag(V, Attr)
    /\ IdCands(V, E, Attr) \cap IdCands(AltV, E, AltAttr) = {} )
IdExists == ph = 0 \/ V = {} \/ IdCands(V, E, Attr) # {}

\* ---- the vector -----------------------------------------------------------------------
SeqOfSet(S) == SetToSeq(S)
DistRows == LET vo == VOrder(salt) IN
            [i \in 1..Len(vo) |-> LET d == SpecDist(V, E, vo[i]) IN
                [s |-> vo[i], d |-> [k \in 1..Len(vo) |-> <<vo[k], d[vo[k]]>>]]]
Vector == (Emit /\ ph = 1) => PrintT(ToJson([
    n      |-> Cardinality(V), salt |-> salt,
    vs     |-> VOrder(salt),
    at     |-> LET vo == VOrder(salt) IN [i \in 1..Len(vo) |-> Attr[vo[i]]],
    es     |-> EOrder(salt),
    dist   |-> DistRows,
    parts  |-> SpecParts(V, E),
    single |-> SpecSingle(V, E),
    chains |-> SpecChains(V, E),
    exp    |-> Expand(V, E, SpecChains(V, E)),
    rvs    |-> LET vo == VOrder(salt + 3) IN [i \in 1..Len(vo) |-> Pi[vo[i]]],
    rat    |-> LET vo == VOrder(salt + 3) IN [i \in 1..Len(vo) |-> Attr[vo[i]]],
    res    |-> LET eo == EOrder(salt + 4) IN [i \in 1..Len(eo) |-> <<Pi[eo[i][1]], Pi[eo[i][2]]>>],
    avs    |-> LET vo == SetToSortSeq(AltV, LAMBDA a, b : LessV(a, b, salt + 6)) IN vo,
    aat    |-> LET vo == SetToSortSeq(AltV, LAMBDA a, b : LessV(a, b, salt + 6)) IN [i \in 1..Len(vo) |-> AltAttr[vo[i]]],
    branches |-> LET vo == SelectSeq(VOrder(salt + 7), LAMBDA v : Deg(E, v) > 0)
                     ss == IF Cardinality(V) <= 5 THEN {vo[i] : i \in 1..Len(vo)} ELSE {vo[i] : i \in 1..(IF Len(vo) < 2 THEN Len(vo) ELSE 2)}
                 IN {[s |-> s, e |-> e, b |-> SpecBranch(V, E, s, e)] : <<s, e>> \in {se \in ss \X E : se[1] \in Ends(se[2])}},
    at2    |-> LET vo == VOrder(salt) IN [i \in 1..Len(vo) |-> Attr2[vo[i]]],
    rat2   |-> LET vo == VOrder(salt + 3) IN [i \in 1..Len(vo) |-> Attr2[vo[i]]],
    rvs3   |-> LET vo == VOrder(salt + 13) IN [i \in 1..Len(vo) |-> Pi[vo[i]]],
    rat3   |-> LET vo == VOrder(salt + 13) IN [i \in 1..Len(vo) |-> Attr2[vo[i]]],
    mes    |-> EOrder(salt) \o SetToSortSeq(LoopEdges, LAMBDA a, b : a[1] < b[1]) \o SetToSortSeq(Dups, LAMBDA a, b : LessE(a, b, salt + 2)),
    mres   |-> LET m == EOrder(salt + 4) \o SetToSortSeq(Dups, LAMBDA a, b : LessE(a, b, salt + 5)) \o SetToSortSeq(LoopEdges, LAMBDA a, b : a[1] > b[1])
               IN [i \in 1..Len(m) |-> <<Pi[m[i][1]], Pi[m[i][2]]>>],
    mparts |-> MParts,
    nloops |-> Cardinality(Loops), ndups |-> Cardinality(Dups),
    cands  |-> IF Cardinality(V) > 5 /\ salt # 0 THEN {} ELSE {{<<p[1], p[2], c[p]>> : p \in DOMAIN c} : c \in IdCands(V, E, Attr)},
    equivRelabelled |-> TRUE,
    equivAltered    |-> FALSE ]))
=============================================================================
