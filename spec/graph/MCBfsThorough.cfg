SPECIFICATION Spec
CONSTANTS
  Ids <- MCIds
  NSet = {1, 2, 3, 4, 5, 6}
  MaxN = 7
INVARIANTS NoThrow QueueShape QueuedEdgesTouchExplored LabelsAreShortest AtEnd Terminates
CHECK_DEADLOCK TRUE
