SPECIFICATION Spec
CONSTANTS
  Ids <- MCIds
  NSet = {1, 2, 3, 4, 5}
  MaxN = 7
  PreKinds = {"none", "stale"}
  SparseN = 6
  SparseMaxE = 7
INVARIANTS UntouchedKeepLabel NoThrow QueueShape QueuedEdgesTouchExplored LabelsAreShortest AtEnd Terminates
CHECK_DEADLOCK TRUE
