SPECIFICATION Spec
CONSTANTS
  Ids <- MCIds
  Pool <- MCPool
  Fresh = 424242
  NSet = {0, 1, 2, 3, 4}
  MaxN = 7
  Salts = {0}
  Emit = FALSE
INVARIANTS ChainClassLaw RedUniqueLaw
CHECK_DEADLOCK FALSE
