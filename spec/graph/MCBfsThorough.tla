---- MODULE MCBfsThorough ----
EXTENDS GraphBFS
MCIds == <<2, 7, 100, 13, 58, 31, 44>>
====
