SPECIFICATION Spec
CONSTANTS
  Ids <- MCIds
  NSet = {1, 2, 3, 4, 5}
  MaxN = 7
  PreKinds = {"none", "stale"}
  SparseN = 0
  SparseMaxE = 0
INVARIANTS UntouchedKeepLabel NoThrow QueueShape QueuedEdgesTouchExplored LabelsAreShortest AtEnd Terminates
CHECK_DEADLOCK TRUE
