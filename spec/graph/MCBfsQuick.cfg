SPECIFICATION Spec
CONSTANTS
  Ids <- MCIds
  NSet = {1, 2, 3, 4, 5}
  MaxN = 7
  SparseN = 0
  SparseMaxE = 0
INVARIANTS NoThrow QueueShape QueuedEdgesTouchExplored LabelsAreShortest AtEnd Terminates
CHECK_DEADLOCK TRUE
