----------------------------- MODULE GraphTrace -----------------------------
(* Trace validation for C16: the driver ran the real graph code on larger random graphs
   (8-12 vertices, random ids, random insertion orders) and logged what it observed; every
   record is checked against the declarative operators of Graph.tla.
   Record: vs, at (palette index per vertex), es,
           starts: [{s, d: [[v,dist]..] labelled nodes, x: explored}],
           single: [[start, 0/1]..], parts: [{v, e}], chains: [[[a,b]..]..], expv, expe,
           pi: [[v,w]..] relabelling used for the copy, rvs/rat/res the copy as it was built,
           sideq: findStructureId equal for original and copy, equiv: isStructureEquivalent verdicts,
           avs/aat: altered copy (same edges on the original ids), equivalt: verdicts      *)
EXTENDS Graph, Json, IOUtils, SequencesExt

Recs == ndJsonDeserialize(IOEnv.TRACE)
Chunk == 32
VARIABLES i, ph
vars == <<i, ph>>
NChunks == (Len(Recs) + Chunk - 1) \div Chunk
Init == ph = 0 /\ i \in 1..NChunks
Next == /\ ph = 0 /\ ph' = 1
        /\ i' \in {j \in ((i - 1) * Chunk + 1)..(i * Chunk) : j <= Len(Recs)}
Spec == Init /\ [][Next]_vars

EdSet(s) == {Ed(e[1], e[2]) : e \in ToSet(s)}
R == Recs[i]
V == ToSet(R.vs)
E == EdSet(R.es)
Attr == [v \in V |-> R.at[CHOOSE j \in 1..Len(R.vs) : R.vs[j] = v]]

TraceWellFormed == ph = 0 \/
  (Len(R.vs) = Cardinality(V) /\ Len(R.es) = Cardinality(E) /\ IsGraph(V, E))
TraceDist == ph = 0 \/
  \A st \in ToSet(R.starts) :
     LET d == SpecDist(V, E, st.s)  lab == ToSet(st.d)  xs == ToSet(st.x) IN
     \A v \in V : d[v] # None => (<<v, d[v]>> \in lab /\ v \in xs)
TraceParts == ph = 0 \/
  LET P == {[v |-> ToSet(p.v), e |-> EdSet(p.e)] : p \in ToSet(R.parts)} IN
  P = SpecParts(V, E) /\ Len(R.parts) = Cardinality(P)
TraceSingle == ph = 0 \/
  \A x \in ToSet(R.single) : x[2] = (IF SpecSingle(V, E) THEN 1 ELSE 0)
TraceChains == ph = 0 \/
  LET C == {EdSet(c) : c \in ToSet(R.chains)} IN
  /\ Len(R.chains) = Cardinality(C)
  /\ \A c \in ToSet(R.chains) : Len(c) = Cardinality(EdSet(c))
  /\ IsReduction(V, E, C)
  /\ C = SpecChains(V, E)
TraceExpand == ph = 0 \/
  (ToSet(R.expv) = V /\ EdSet(R.expe) = E /\ Len(R.expe) = Cardinality(E))
\* the copy is a relabelling of the original (checked here, not believed), hence must be equivalent
PiMap == [v \in V |-> (CHOOSE p \in ToSet(R.pi) : p[1] = v)[2]]
CopyIsRelabelling ==
  /\ \A a, b \in V : a # b => PiMap[a] # PiMap[b]
  /\ ToSet(R.rvs) = RelabV(V, PiMap) /\ EdSet(R.res) = RelabE(E, PiMap) /\ Len(R.res) = Cardinality(E)
  /\ \A j \in 1..Len(R.rvs) : R.rat[j] = RelabAttr(V, Attr, PiMap)[R.rvs[j]]
TraceEquivalent == ph = 0 \/
  (CopyIsRelabelling /\ R.sideq = TRUE /\ \A x \in ToSet(R.equiv) : x = TRUE)
AltAttr == [v \in ToSet(R.avs) |-> R.aat[CHOOSE j \in 1..Len(R.avs) : R.avs[j] = v]]
TraceDifferent == ph = 0 \/
  (AttrBag(ToSet(R.avs), AltAttr) # AttrBag(V, Attr) => \A x \in ToSet(R.equivalt) : x = FALSE)
=============================================================================
