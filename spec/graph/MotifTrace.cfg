SPECIFICATION Spec
INVARIANTS MotifWellFormed MotifTops MotifNoDuplicates MotifLossless
CHECK_DEADLOCK FALSE
