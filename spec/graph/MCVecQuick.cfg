SPECIFICATION Spec
CONSTANTS
  Ids <- MCIds
  Pool <- MCPool
  Fresh = 424242
  NSet = {0, 1, 2, 3, 4, 5}
  MaxN = 7
  Salts = {0, 1, 2}
  Emit = TRUE
INVARIANTS MultiLaw IdInvariant2 BranchLaws WellFormed DistLaw CompLaw DecoupleLaw SingleLaw RedLaw PiInjective IdInvariant IdProjects IdSeparates IdExists Vector
CHECK_DEADLOCK FALSE
