---- MODULE MCIdString ----
EXTENDS IdString
MCSimple == {<<"A">>, <<"B">>}
\* adversarial names: <letter> Mass <digit> Name <letter>,  <letter> Dist <digit>, plus the simple ones
MCNames == MCSimple \cup {<<a, "Mass", d, "Name", b>> : a \in {"A", "B"}, d \in {"1", "2"}, b \in {"A", "B"}}
           \cup {<<a, "Dist", d>> : a \in {"A", "B"}, d \in {"0", "1"}} \cup {<<"Mass", "1", "Name", "A">>, <<"A", "Name", "B">>}
====
