SPECIFICATION Spec
CONSTANTS
  N = 10
  VecVals = {0,1,2,3,7}
  VecLen = 5
  TokVals = {0,1,2,3,4,6}
  TokLen = 3
  Emit = TRUE
INVARIANTS VecRoundTrip StrRoundTrip Canonical Vector
CHECK_DEADLOCK FALSE
