SPECIFICATION Spec
CONSTANTS
  PAlpha = {"a", "b", "*", "?"}
  SAlpha = {"a", "b", "*"}
  MaxLen = 4
  LemmaLen = 3
  Emit = TRUE
INVARIANTS Terminates NoNullDeref InBounds AlgoIsSpec DeclLemma Vector
CHECK_DEADLOCK FALSE
