\* the code as found: TLC must refute the enumerated sequence (negative stride)
SPECIFICATION Spec
CONSTANTS
  Exprs <- MCExprs
  NonNum <- MCNonNum
  MaxYield = 8
  Fixed = FALSE
  Emit = FALSE
CONSTRAINT Bounded
INVARIANTS PrefixOK ResultOK
CHECK_DEADLOCK FALSE
