---- MODULE MCRangeThorough ----
EXTENDS Range

MCNonNum == 99
Blocks(W) == {<<a>> : a \in W} \cup {<<a, b>> : a, b \in W} \cup {<<a, st, b>> : a, st, b \in W}
\* malformed blocks: non-numeric field in every position, four fields
BadBlocks == {<<MCNonNum>>, <<1, MCNonNum>>, <<MCNonNum, 2>>, <<MCNonNum, 1, 3>>, <<1, MCNonNum, 3>>,
              <<1, 1, MCNonNum>>, <<1, 1, 2, 3>>, <<1, 2, 3, 4>>, <<3, 0, 3>>, <<1, 0, 2>>, <<2, 0, 1>>}
\* blocks put before/after every block of the window: single value, the end sentinel -1 of the
\* iterator, ascending, strided, descending
Neighbours == {<<5>>, <<-1>>, <<2, 4>>, <<0, 2, 5>>, <<4, -2, 0>>, <<-1, -1, -3>>}
Singles(W) == {<<b>> : b \in Blocks(W) \cup BadBlocks}
Pairs(W)   == {<<b, f>> : b \in Blocks(W) \cup BadBlocks, f \in Neighbours}
              \cup {<<f, b>> : b \in Blocks(W) \cup BadBlocks, f \in Neighbours}
Triples(W) == {<<a, b, c>> : a, b, c \in Blocks(W)}

MCExprs == Singles(-3..6) \cup Pairs(-3..6) \cup Triples({-1, 0, 2})
====
