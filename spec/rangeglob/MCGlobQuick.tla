---- MODULE MCGlobQuick ----
EXTENDS Glob
====
