\* RangeParser::Add as found (no validation): TLC must refute
SPECIFICATION Spec
CONSTANTS
  NonNum <- MCNonNum
  ParseExprs <- MCParseExprs
  AddB <- MCAddB
  AddE <- MCAddE
  AddS <- MCAddS
  Depth = 2
  Fuel = 40
  FixedAdd = FALSE
  Emit = FALSE
INVARIANTS AlgoTerminates
CHECK_DEADLOCK FALSE
