SPECIFICATION Spec
CONSTANTS
  N = 7
  VecVals = {0,1,2,5}
  VecLen = 4
  TokVals = {0,1,2,3,5}
  TokLen = 3
  Emit = TRUE
INVARIANTS VecRoundTrip StrRoundTrip Canonical Vector
CHECK_DEADLOCK FALSE
