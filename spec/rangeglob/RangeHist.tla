------------------------------ MODULE RangeHist ------------------------------
(* C18, mode H layer: ONE tools::RangeParser object used several times.

   State = the blocks the object holds.  Calls:
     Parse(expr)           (tools/src/libtools/rangeparser.cc)  - the code appends the parsed
                           blocks to whatever the object already holds.  Nothing documents
                           whether a second Parse appends or replaces (every caller parses
                           into a fresh object), so the spec keeps both readings (heldA /
                           heldR) and the harness accepts a real object that follows either
                           one consistently.  A rejected Parse may leave the blocks parsed
                           before the bad one in the object (no exception-safety claim in the
                           statement): afterwards the content is `dirty` = not asserted; only
                           termination and print/parse consistency still are.
     Add(begin, end, stride)  (rangeparser.h) the programmatic way to add a block (csg_stat's
                           imc index).  It must reject exactly what Parse rejects: stride 0
                           (must reject), non-closed triple (reject, or accept as the empty
                           progression: content unchanged either way); otherwise the block is
                           appended.
   After every call the object is iterated to the end (observation) and printed with
   operator<<; the text is parsed into a FRESH object which must enumerate the same.

   Algo = transcription of Add / Parse / iteration of the real class (FixedAdd selects the
   repaired Add with the validation of ParseBlock, FALSE = Add as found, no validation);
   iteration is a recursive operator with fuel (fuel exhausted = does not terminate).
   TLC explores all call sequences up to Depth; invariants: the transcribed object always
   terminates, enumerates the concatenation of the denotations of the held blocks, gives
   the specified verdict, and print/parse into a fresh object preserves the sequence.
   Every history of length Depth is exported for replay into the real class.           *)
EXTENDS RangeSpec, TLC, Json

CONSTANTS ParseExprs,        \* expressions offered to Parse (no non-closed blocks)
          AddB, AddE, AddS,  \* values offered to Add(begin, end, stride)
          Depth, Fuel, FixedAdd, Emit

ASSUME \A x \in ParseExprs : ~AnyNonClosed(x)

\* held blocks are kept in the three-field form <<begin, stride, end>>
Norm(t)  == <<Beg(t), Str(t), End(t)>>
NormExpr(x) == [k \in 1..Len(x) |-> Norm(x[k])]

VARIABLES heldA,   \* Spec, Parse appends
          heldR,   \* Spec, Parse replaces
          dirty,   \* Spec: content unspecified (a Parse was rejected)
          algo,    \* blocks_ of the transcribed object
          h        \* history of call records
vars == <<heldA, heldR, dirty, algo, h>>

(* ------------------------------ Algo ------------------------------------- *)
BlockRejected(t) == Malformed(t) \/ Beg(t) * Str(t) > End(t) * Str(t)      \* ParseBlock (repaired)
\* Parse pushes block after block and throws at the first bad one
RECURSIVE ValidPrefix(_, _)
ValidPrefix(x, i) == IF i > Len(x) \/ BlockRejected(x[i]) THEN <<>>
                     ELSE <<Norm(x[i])>> \o ValidPrefix(x, i + 1)
AlgoParseRejects(x) == \E i \in 1..Len(x) : BlockRejected(x[i])
AlgoAddRejects(b, e, s) == FixedAdd /\ (s = 0 \/ b * s > e * s)

\* `for (Index i : rp)`: begin(), operator!=, operator*, operator++ (repaired end test)
RECURSIVE It(_, _, _, _, _)
It(bl, bi, cur, out, fuel) ==
  IF bi = Len(bl) + 1 /\ cur = -1 THEN [term |-> TRUE, seq |-> out]
  ELSE IF fuel = 0 THEN [term |-> FALSE, seq |-> out]
  ELSE LET c    == cur + bl[bi][2]
           past == IF bl[bi][2] > 0 THEN c > bl[bi][3] ELSE c < bl[bi][3]
       IN IF past
          THEN It(bl, bi + 1, IF bi + 1 <= Len(bl) THEN bl[bi + 1][1] ELSE -1, Append(out, cur), fuel - 1)
          ELSE It(bl, bi, c, Append(out, cur), fuel - 1)
AlgoIter(bl) == It(bl, 1, IF Len(bl) >= 1 THEN bl[1][1] ELSE -1, <<>>, Fuel)

\* operator<<
PrintBlock(t) == IF t[1] = t[3] THEN <<t[1]>> ELSE IF t[2] = 1 THEN <<t[1], t[3]>> ELSE t
AlgoPrint(bl) == [k \in 1..Len(bl) |-> PrintBlock(bl[k])]

(* ------------------------------ calls ------------------------------------ *)
Rec(op, x, verdict, d, a, r, av) ==
  [op |-> op, x |-> x, verdict |-> verdict, dirty |-> d,
   seqA |-> SpecDenote(a), seqR |-> SpecDenote(r), algoverdict |-> av]

Parse(x) ==
  /\ algo' = algo \o ValidPrefix(x, 1)
  /\ IF AnyMalformed(x)
     THEN /\ dirty' = TRUE /\ UNCHANGED <<heldA, heldR>>
          /\ h' = Append(h, Rec("parse", x, "reject", TRUE, heldA, heldR,
                                IF AlgoParseRejects(x) THEN "reject" ELSE "accept"))
     ELSE /\ heldA' = heldA \o NormExpr(x) /\ heldR' = NormExpr(x) /\ UNCHANGED dirty
          /\ h' = Append(h, Rec("parse", x, "accept", dirty, heldA \o NormExpr(x), NormExpr(x),
                                IF AlgoParseRejects(x) THEN "reject" ELSE "accept"))

Add(b, e, s) ==
  LET t  == <<b, s, e>>
      av == IF AlgoAddRejects(b, e, s) THEN "reject" ELSE "accept"
  IN /\ algo' = IF AlgoAddRejects(b, e, s) THEN algo ELSE Append(algo, t)
     /\ UNCHANGED dirty
     /\ IF s = 0 \/ ~Closed(t)
        THEN /\ UNCHANGED <<heldA, heldR>>
             /\ h' = Append(h, Rec("add", <<b, e, s>>, IF s = 0 THEN "reject" ELSE "either", dirty, heldA, heldR, av))
        ELSE /\ heldA' = Append(heldA, t) /\ heldR' = Append(heldR, t)
             /\ h' = Append(h, Rec("add", <<b, e, s>>, "accept", dirty, Append(heldA, t), Append(heldR, t), av))

Init == heldA = <<>> /\ heldR = <<>> /\ dirty = FALSE /\ algo = <<>> /\ h = <<>>
Next == /\ Len(h) < Depth
        /\ \/ \E x \in ParseExprs : Parse(x)
           \/ \E b \in AddB, e \in AddE, s \in AddS : Add(b, e, s)
Spec == Init /\ [][Next]_vars

(* ---------------------------- properties --------------------------------- *)
\* whatever was called, the object can be iterated to the end
AlgoTerminates == AlgoIter(algo).term
\* the (appending) code enumerates the concatenation of the denotations of the held blocks
AlgoIsSpec == ~dirty => AlgoIter(algo).seq = SpecDenote(heldA)
\* Add / Parse reject what the spec says (non-closed Add: the code documents rejection)
VerdictOK == Len(h) > 0 =>
   LET r == h[Len(h)] IN r.algoverdict = (IF r.verdict = "either" THEN "reject" ELSE r.verdict)
\* printing and parsing into a fresh object preserves the sequence (also when dirty)
PrintParse == LET p == AlgoPrint(algo)
              IN /\ SpecAccepts(p)
                 /\ AlgoIter(algo).term => SpecDenote(p) = AlgoIter(algo).seq
\* every held block is a closed block with non-zero stride
HeldValid == \A k \in 1..Len(algo) : ~Malformed(algo[k]) /\ Closed(algo[k])

Vector == (Emit /\ Len(h) = Depth) => PrintT(ToJson([h |-> h]))
=============================================================================
