---- MODULE MCSelect ----
EXTENDS Select
C(str) == str   \* readability only
MCBeads == << [type |-> <<"a">>,                name |-> <<"a", "b">>],
              [type |-> <<"b">>,                name |-> <<"a">>],
              [type |-> <<"a", "b">>,           name |-> <<"b">>],
              [type |-> <<"a">>,                name |-> <<"b", "a">>],
              [type |-> <<"b", "a">>,           name |-> <<"a", "b">>],
              [type |-> <<"n", "a", "m", "e">>, name |-> <<"a", "a", "b">>],
              [type |-> <<"a", "a", "b">>,      name |-> <<"n", "a", "m", "e">>],
              [type |-> <<"b", "b">>,           name |-> <<"a", ":", "a">>] >>
\* no prefix, the by-name prefix, and near misses that must stay type patterns
MCPrefixes == { <<>>, <<"n", "a", "m", "e", ":">>, <<"n", "a", "m", "e">>, <<"n", "a", "m", ":">>,
                <<"N", "a", "m", "e", ":">>, <<"*", ":">>, <<"n", "a", "m", "e", ":", "a", ":">> }
MCPos == << <<0, 0, 0>>, <<1, 0, 0>>, <<3, 0, 0>>, <<2, 2, 2>>, <<0, 3, 1>>, <<1, 1, 1>>, <<3, 3, 3>>, <<2, 0, 1>> >>
MCRefs == { <<0, 0, 0>>, <<3, 1, 0>> }
MCTree == << [n |-> <<"a">>,           k |-> << <<"a">>, <<"b">>, <<"a", "b">> >>],
             [n |-> <<"a", "b">>,      k |-> << <<"b">>, <<"b", "a">> >>],
             [n |-> <<"b">>,           k |-> << >>],
             [n |-> <<"a">>,           k |-> << <<"a", "a">>, <<"b">> >>],
             [n |-> <<"b", "a", "b">>, k |-> << <<"a">>, <<"a">> >>] >>
====
