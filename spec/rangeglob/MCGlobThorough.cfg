SPECIFICATION Spec
CONSTANTS
  PAlpha = {"a", "b", "*", "?"}
  SAlpha = {"a", "b", "*"}
  MaxLen = 5
  LemmaLen = 4
  Emit = TRUE
INVARIANTS Terminates NoNullDeref InBounds AlgoIsSpec DeclLemma Vector
CHECK_DEADLOCK FALSE
