---- MODULE MCRangeHistOrig ----
EXTENDS RangeHist

MCNonNum == 99
\* valid single / multi block, descending, the end sentinel -1, malformed (zero stride, non-numeric,
\* valid block followed by a bad one: the code keeps the valid prefix)
MCParseExprs == { <<<<2, 4>>>>, <<<<4, -1, 2>>>>, <<<<-1>>>>, <<<<1, 2, 5>>, <<7>>>>,
                  <<<<3, 0, 4>>>>, <<<<MCNonNum>>>>, <<<<1, 3>>, <<MCNonNum>>>>, <<<<6>>, <<2, 0, 2>>>> }
MCAddB == {-1, 2, 4}
MCAddE == {-1, 2, 4}
MCAddS == {-2, 0, 1, 2}
====
