---- MODULE MCGlobThorough ----
EXTENDS Glob
====
