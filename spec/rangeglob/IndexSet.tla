------------------------------ MODULE IndexSet ------------------------------
(* C18, part 3: index strings ("1 3:5 9") and index vectors.

   An index string is a sequence of tokens, a token is <<a>> (single index) or
   <<a, b>> (the run a..b); the harness renders tokens with ":" and joins them with
   blanks.  An index vector is a sequence of naturals.

   Spec  - DenoteStr: the set an index string denotes; SortedSeq: the sorted,
           duplicate-free vector of a set.
   Algo  - transcriptions of xtp::IndexParser::CreateIndexVector and
           CreateIndexString (xtp/src/libxtp/IndexParser.cc): expansion + std::set,
           and the adjacent_difference / range_started loop.

   mode = "vec": every vector of the domain (all sorted subsets of 0..N plus all
   short unsorted vectors with duplicates) -> string -> vector must give the sorted
   duplicate-free vector.  mode = "str": every token string of the domain -> vector
   must give the denoted set, sorted; and back to a string denoting the same set.   *)
EXTENDS Integers, Sequences, FiniteSets, TLC, Json

CONSTANTS N,        \* subsets of 0..N
          VecVals,  \* values of the short unsorted vectors
          VecLen,   \* their maximal length
          TokVals,  \* values used in token strings
          TokLen,   \* maximal number of tokens
          Emit

(* ------------------------------ Spec ------------------------------------- *)
DenoteTok(t) == IF Len(t) = 1 THEN {t[1]} ELSE t[1]..t[2]
DenoteStr(ts) == UNION {DenoteTok(ts[i]) : i \in 1..Len(ts)}
RangeOf(v) == {v[i] : i \in 1..Len(v)}

Min(S) == CHOOSE x \in S : \A y \in S : x <= y
RECURSIVE SortedSeq(_)
SortedSeq(S) == IF S = {} THEN <<>> ELSE <<Min(S)>> \o SortedSeq(S \ {Min(S)})

IsSortedUnique(v) == \A i \in 1..(Len(v) - 1) : v[i] < v[i + 1]

(* ------------------------------ Algo ------------------------------------- *)
\* CreateIndexVector: tokens with ':' expand start..stop, others are pushed; then
\* std::set removes duplicates and sorts
RECURSIVE Expand(_, _)
Expand(ts, i) == IF i > Len(ts) THEN <<>>
                 ELSE (IF Len(ts[i]) = 1 THEN <<ts[i][1]>>
                       ELSE [k \in 1..(ts[i][2] - ts[i][1] + 1) |-> ts[i][1] + k - 1]) \o Expand(ts, i + 1)
AlgoVector(ts) == SortedSeq(RangeOf(Expand(ts, 1)))

\* CreateIndexString: su = sorted unique; difference[0..n] with difference[k] = su[k]-su[k-1]
\* (0-based, difference[0] = su[0], difference[n] = 0); loop i = 0..n-1 looks at difference[i+1]
RECURSIVE Loop(_, _, _, _, _)
Loop(su, i, started, start, res) ==          \* i is 1-based here
  IF i > Len(su) THEN res
  ELSE LET dnext == IF i < Len(su) THEN su[i + 1] - su[i] ELSE 0
       IN IF dnext = 1
          THEN IF started THEN Loop(su, i + 1, started, start, res)
               ELSE Loop(su, i + 1, TRUE, su[i], res)
          ELSE IF started THEN Loop(su, i + 1, FALSE, start, Append(res, <<start, su[i]>>))
               ELSE Loop(su, i + 1, FALSE, start, Append(res, <<su[i]>>))
AlgoString(v) == Loop(SortedSeq(RangeOf(v)), 1, FALSE, 0, <<>>)

(* ------------------------------ domain ----------------------------------- *)
VARIABLES mode, v, ts
vars == <<mode, v, ts>>

SeqsUpTo(A, n) == UNION {[1..k -> A] : k \in 0..n}
Tokens == {<<a>> : a \in TokVals} \cup {<<a, b>> \in TokVals \X TokVals : a <= b}

Init == \/ /\ mode = "vec" /\ ts = <<>>
           /\ v \in {SortedSeq(S) : S \in SUBSET (0..N)} \cup SeqsUpTo(VecVals, VecLen)
        \/ /\ mode = "str" /\ v = <<>>
           /\ ts \in SeqsUpTo(Tokens, TokLen)
Next == UNCHANGED vars
Spec == Init /\ [][Next]_vars

(* ---------------------------- properties --------------------------------- *)
\* vector -> string -> vector is the identity on sets (sorted, duplicate free)
VecRoundTrip == mode = "vec" =>
   /\ DenoteStr(AlgoString(v)) = RangeOf(v)
   /\ AlgoVector(AlgoString(v)) = SortedSeq(RangeOf(v))
   /\ IsSortedUnique(AlgoVector(AlgoString(v)))
\* string -> vector gives the denoted set; -> string denotes it again
StrRoundTrip == mode = "str" =>
   /\ AlgoVector(ts) = SortedSeq(DenoteStr(ts))
   /\ IsSortedUnique(AlgoVector(ts))
   /\ DenoteStr(AlgoString(AlgoVector(ts))) = DenoteStr(ts)
\* the printed form is canonical: maximal runs, ascending, runs of >= 2 written a:b
Canonical == LET st == AlgoString(IF mode = "vec" THEN v ELSE AlgoVector(ts))
             IN \A i \in 1..Len(st) :
                  /\ (Len(st[i]) = 2 => st[i][1] < st[i][2])
                  /\ (i < Len(st) => st[i][Len(st[i])] + 1 < st[i + 1][1])

Vector == Emit => PrintT(ToJson(
   IF mode = "vec"
   THEN [mode |-> mode, v |-> v, set |-> SortedSeq(RangeOf(v)), str |-> AlgoString(v)]
   ELSE [mode |-> mode, ts |-> ts, set |-> SortedSeq(DenoteStr(ts)), str |-> AlgoString(AlgoVector(ts))]))
=============================================================================
