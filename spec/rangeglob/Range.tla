-------------------------------- MODULE Range --------------------------------
(* C18, part 2: range expressions  "a:s:b, c:d, e".

   An expression is a sequence of blocks, a block is a sequence of fields, a field
   is an integer or the token NonNum (a non-numeric field such as "x").  The
   rendering into text (":" between fields, "," between blocks, optional blanks)
   is done by the harness.

   Spec  - (module RangeSpec) SpecAccepts / SpecDenote: what the expression denotes according to the
           property statement: every block an arithmetic progression from its
           first to its last field (ascending for a positive, descending for a
           negative stride; default stride 1), blocks concatenated in order.
           Clearly malformed (must be rejected): a non-numeric field, more than
           three fields, stride 0.  Non-closed blocks ("5:1", "1:-1:5") denote
           nothing; the code documents them as errors ("do not form a closed
           interval"), so the transcription must reject them, while the harness
           admits "rejected" or "accepted as the empty progression" for the
           real code.
   Algo  - transcription of tools::RangeParser (tools/src/libtools/rangeparser.cc,
           tools/include/votca/tools/rangeparser.h): Parse/ParseBlock, begin(),
           operator!=, operator*, iterator::operator++ and operator<<, as a state
           machine: one step per parsed block, then one step per loop iteration of
           `for (Index i : rp)`.
           Fixed = TRUE  transcribes the repaired code (stride 0 rejected, end test
                         by the sign of the stride),
           Fixed = FALSE the code as found (used by MCRangeOrig, which TLC must refute).

   Every expression of the bounded domain is one initial state.  TLC checks:
   accepted <=> well formed and closed; iteration terminates (bound on the number of
   yielded values); what was yielded so far is a prefix of SpecDenote and equals it at
   the end; printing the parsed blocks and parsing again denotes the same sequence.   *)
EXTENDS RangeSpec, FiniteSets, TLC, Json

CONSTANTS Exprs,     \* set of expressions to check
          MaxYield,  \* a block never denotes more than this many values in the domain
          Fixed,     \* which version of the code is transcribed
          Emit

(* ------------------------------ Algo ------------------------------------- *)
VARIABLES e,        \* the expression (never changes)
          pc,       \* "parse", "iter", "done", "rejected"
          pi,       \* next block to parse
          blocks,   \* blocks_ : sequence of [b, e, s]
          bi,       \* iterator: block_ as index into blocks, Len(blocks)+1 = blocks_.end()
          cur,      \* iterator: current_
          out       \* values delivered by operator* so far

vars == <<e, pc, pi, blocks, bi, cur, out>>

Init == /\ e \in Exprs
        /\ pc = "parse" /\ pi = 1 /\ blocks = <<>> /\ bi = 0 /\ cur = 0 /\ out = <<>>

\* iterator(parent, block): current_ = block != end ? block->begin_ : -1
IterAt(bl, k) == IF k <= Len(bl) THEN bl[k].b ELSE -1

\* ParseBlock.  stoi throws on a non-numeric token; the order of the tests follows the code.
ParseBlockRejects(t) ==
  \/ Len(t) > 3 \/ Len(t) < 1
  \/ t[1] = NonNum
  \/ (Len(t) = 2 /\ t[2] = NonNum)
  \/ (Len(t) = 3 /\ (t[2] = NonNum \/ t[3] = NonNum))
  \/ (Fixed /\ Len(t) = 3 /\ t[2] = 0)
  \/ LET b == t[1]
         s == IF Len(t) = 3 THEN t[2] ELSE 1
         n == IF Len(t) = 1 THEN t[1] ELSE t[Len(t)]
     IN b * s > n * s

ParsedBlock(t) == [b |-> t[1],
                   s |-> IF Len(t) = 3 THEN t[2] ELSE 1,
                   e |-> IF Len(t) = 1 THEN t[1] ELSE t[Len(t)]]

ParseStep ==
  /\ pc = "parse"
  /\ IF pi > Len(e)
     THEN \* Parse returned; `for (Index i : rp)` calls begin()
          /\ pc' = "iter" /\ bi' = 1 /\ cur' = IterAt(blocks, 1)
          /\ UNCHANGED <<pi, blocks, out>>
     ELSE IF ParseBlockRejects(e[pi])
          THEN /\ pc' = "rejected" /\ UNCHANGED <<pi, blocks, bi, cur, out>>
          ELSE /\ blocks' = Append(blocks, ParsedBlock(e[pi])) /\ pi' = pi + 1
               /\ UNCHANGED <<pc, bi, cur, out>>

\* past the end of the block?  (original: current_ > end_ only)
Past(c, blk) == IF Fixed THEN IF blk.s > 0 THEN c > blk.e ELSE c < blk.e
                ELSE c > blk.e

IterStep ==
  /\ pc = "iter"
  /\ IF bi = Len(blocks) + 1 /\ cur = -1          \* !(it != end())
     THEN /\ pc' = "done" /\ UNCHANGED <<bi, cur, out>>
     ELSE /\ out' = Append(out, cur)               \* loop body sees *it
          /\ LET c == cur + blocks[bi].s           \* operator++
             IN IF Past(c, blocks[bi])
                THEN /\ bi' = bi + 1 /\ cur' = IterAt(blocks, bi + 1)
                ELSE /\ bi' = bi /\ cur' = c
          /\ UNCHANGED pc
  /\ UNCHANGED <<pi, blocks>>

Next == (ParseStep \/ IterStep) /\ UNCHANGED e
Spec == Init /\ [][Next]_vars

\* operator<< : the printed text, as an expression again
PrintBlock(blk) == IF blk.b = blk.e THEN <<blk.b>>
                   ELSE IF blk.s = 1 THEN <<blk.b, blk.e>>
                   ELSE <<blk.b, blk.s, blk.e>>
AlgoPrint(bl) == [k \in 1..Len(bl) |-> PrintBlock(bl[k])]

(* ---------------------------- properties --------------------------------- *)
YieldBound == MaxYield * Len(e)
\* explore one step beyond the bound only
Bounded == Len(out) <= YieldBound + 1

RejectOK   == pc = "rejected" => ~SpecAccepts(e)
AcceptOK   == pc \in {"iter", "done"} => SpecAccepts(e)
Terminates == Len(out) <= YieldBound
IsPrefix(a, b) == Len(a) <= Len(b) /\ \A k \in 1..Len(a) : a[k] = b[k]
PrefixOK   == (pc \in {"iter", "done"} /\ ~AnyMalformed(e)) => IsPrefix(out, SpecDenote(e))
ResultOK   == pc = "done" => out = SpecDenote(e)
PrintParse == pc = "done" => /\ ~AnyMalformed(AlgoPrint(blocks))
                             /\ SpecAccepts(AlgoPrint(blocks))
                             /\ SpecDenote(AlgoPrint(blocks)) = SpecDenote(e)
BlockLemma == pc = "parse" /\ pi = 1 => \A i \in 1..Len(e) : DenoteLemma(e[i])
IndexOK    == pc = "iter" => bi \in 1..(Len(blocks) + 1)

Final == pc \in {"done", "rejected"}
Vector == (Emit /\ pc = "parse" /\ pi = 1) =>
   PrintT(ToJson([e |-> e,
                  malformed |-> AnyMalformed(e),
                  nonclosed |-> AnyNonClosed(e),
                  seq |-> IF AnyMalformed(e) THEN <<>> ELSE SpecDenote(e),
                  \* what the transcription of operator<< prints (transcription conformance only)
                  printed |-> IF SpecAccepts(e) THEN AlgoPrint([k \in 1..Len(e) |-> ParsedBlock(e[k])]) ELSE <<>>]))
=============================================================================
