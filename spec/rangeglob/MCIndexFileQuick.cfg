SPECIFICATION Spec
CONSTANTS
  NonNum <- MCNonNum
  Exprs <- MCExprs
  Layouts <- MCLayouts
  FirstFieldOnly = FALSE
  Emit = TRUE
INVARIANTS TokensRoundTrip ReadOK WriteReadOK Vector
CHECK_DEADLOCK FALSE
