---- MODULE MCGlobDeep ----
EXTENDS Glob
====
