------------------------------ MODULE TraceGlob ------------------------------
(* Opposite direction for wildcmp: the harness runs the real tools::wildcmp on inputs
   outside the exhaustive domain (random longer patterns/strings, larger alphabet; in
   the thorough tier also every pattern over {a,b,*,?} of length 6 x every string over
   {a,b} up to length 6), logs which subjects matched (patterns and subjects as lists of
   one-character strings) to ndjson files, and TLC validates every record against SpecMatch.
   One initial state per record, so the work is spread over the workers.            *)
EXTENDS GlobSpec, TLC, Json, IOUtils

\* SUBJ: one line per subject group {s: [subject, ...]};
\* TRACE: one line per pattern {p: pattern, g: group number, m: [numbers of the subjects that matched]}
Groups  == ndJsonDeserialize(IOEnv.SUBJ)
Records == ndJsonDeserialize(IOEnv.TRACE)

VARIABLE i
Init == i \in 1..Len(Records)
Next == UNCHANGED i
Spec == Init /\ [][Next]_i

Conforms == LET rec  == Records[i]
                subj == Groups[rec.g].s
            IN {k \in 1..Len(subj) : SpecMatch(rec.p, subj[k])} = {rec.m[j] : j \in 1..Len(rec.m)}
\* on rejection print which record failed (TLC's own trace only shows i)
Report == Conforms \/ PrintT(ToJson([bad |-> Records[i]]))
=============================================================================
