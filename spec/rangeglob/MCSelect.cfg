SPECIFICATION Spec
CONSTANTS
  Beads <- MCBeads
  Prefixes <- MCPrefixes
  PAlpha = {"a", "b", "*", "?"}
  SelLen = 3
  Tree <- MCTree
  SegLen = 2
  Emit = TRUE
INVARIANTS ByNameIgnoresType StarSelectsAll Vector
CHECK_DEADLOCK FALSE
