SPECIFICATION Spec
CONSTANTS
  Beads <- MCBeads
  Prefixes <- MCPrefixes
  PAlpha = {"a", "b", "*", "?"}
  SelLen = 3
  BeadPos <- MCPos
  BoxL = 4
  Refs <- MCRefs
  R2s = {3, 5, 13}
  BigR2 = 99
  GeoLen = 2
  Tree <- MCTree
  SegLen = 2
  Emit = TRUE
INVARIANTS BigIsAll SphereIsSubset ByNameIgnoresType StarSelectsAll Vector
CHECK_DEADLOCK FALSE
