---- MODULE MCIndexFileThorough ----
EXTENDS IndexFile

MCNonNum == 99
W == {1, 4, 9}
MCBlocks(SS) == {<<a>> : a \in W} \cup {<<a, b>> \in W \X W : a <= b}
                \cup {<<a, s, b>> \in W \X SS \X W : (s > 0 /\ a <= b) \/ (s < 0 /\ a >= b)}
Small == {<<4>>, <<1, 4>>, <<1, 2, 9>>, <<9, -3, 1>>}
MCExprsOf(SS) == {<<b>> : b \in MCBlocks(SS)} \cup {<<b, c>> : b, c \in MCBlocks(SS)}
                 \cup {<<a, b, c>> : a, b, c \in Small}
MCLayouts == [comma : BOOLEAN, colon : BOOLEAN, sep : {1, 3}]

MCExprs == MCExprsOf({-3, -1, 1, 2, 4})
====
