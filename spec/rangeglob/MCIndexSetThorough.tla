---- MODULE MCIndexSetThorough ----
EXTENDS IndexSet
====
