SPECIFICATION Spec
CONSTANTS
  Exprs <- MCExprs
  NonNum <- MCNonNum
  MaxYield = 8
  Fixed = TRUE
  Emit = TRUE
CONSTRAINT Bounded
INVARIANTS RejectOK AcceptOK Terminates PrefixOK ResultOK PrintParse BlockLemma IndexOK Vector
CHECK_DEADLOCK FALSE
