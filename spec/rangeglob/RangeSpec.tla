------------------------------ MODULE RangeSpec ------------------------------
(* Meaning of range expressions (C18), no variables: shared by Range (mode L) and
   RangeHist (mode H).  A block is a sequence of 1..3 fields (a / a:b / a:s:b), a field
   an integer or NonNum; see Range.tla for the reading of the property statement.    *)
EXTENDS Integers, Sequences, CArith

CONSTANT NonNum    \* integer standing for a non-numeric field; outside every window

Numeric(b)    == \A i \in 1..Len(b) : b[i] # NonNum
WellFormed(b) == Len(b) \in 1..3 /\ Numeric(b)
Beg(b) == b[1]
Str(b) == IF Len(b) = 3 THEN b[2] ELSE 1
End(b) == b[Len(b)]
Malformed(b) == ~WellFormed(b) \/ Str(b) = 0
Closed(b) == \/ Str(b) > 0 /\ Beg(b) <= End(b)
             \/ Str(b) < 0 /\ Beg(b) >= End(b)

\* the integers Beg, Beg+Str, Beg+2 Str, ... that lie between Beg and End (inclusive), in that order
Denote(b) == IF ~Closed(b) THEN <<>>
             ELSE LET n == (Abs(End(b) - Beg(b)) \div Abs(Str(b))) + 1
                  IN  [k \in 1..n |-> Beg(b) + (k - 1) * Str(b)]

RECURSIVE Concat(_, _)
Concat(e, i) == IF i > Len(e) THEN <<>> ELSE Denote(e[i]) \o Concat(e, i + 1)

AnyMalformed(e) == \E i \in 1..Len(e) : Malformed(e[i])
AnyNonClosed(e) == \E i \in 1..Len(e) : ~Malformed(e[i]) /\ ~Closed(e[i])
SpecAccepts(e)  == ~AnyMalformed(e) /\ ~AnyNonClosed(e)
SpecDenote(e)   == Concat(e, 1)      \* meaningful when ~AnyMalformed(e)

\* declarative cross-check of Denote: consecutive differences equal the stride, first element
\* is Beg, all elements between Beg and End, and the progression cannot be extended
DenoteLemma(b) ==
  (~Malformed(b) /\ Closed(b)) =>
     LET q == Denote(b)
         lo == IF Beg(b) <= End(b) THEN Beg(b) ELSE End(b)
         hi == IF Beg(b) <= End(b) THEN End(b) ELSE Beg(b)
     IN /\ Len(q) >= 1 /\ q[1] = Beg(b)
        /\ \A k \in 1..(Len(q) - 1) : q[k + 1] - q[k] = Str(b)
        /\ \A k \in 1..Len(q) : q[k] \in lo..hi
        /\ (q[Len(q)] + Str(b)) \notin lo..hi
=============================================================================
