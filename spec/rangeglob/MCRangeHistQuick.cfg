SPECIFICATION Spec
CONSTANTS
  NonNum <- MCNonNum
  ParseExprs <- MCParseExprs
  AddB <- MCAddB
  AddE <- MCAddE
  AddS <- MCAddS
  Depth = 2
  Fuel = 40
  FixedAdd = TRUE
  Emit = TRUE
INVARIANTS AlgoTerminates AlgoIsSpec VerdictOK PrintParse HeldValid Vector
CHECK_DEADLOCK FALSE
