\* the code as found: TLC must refute termination (zero stride)
SPECIFICATION Spec
CONSTANTS
  Exprs <- MCExprs
  NonNum <- MCNonNum
  MaxYield = 8
  Fixed = FALSE
  Emit = FALSE
CONSTRAINT Bounded
INVARIANTS Terminates
CHECK_DEADLOCK FALSE
