-------------------------------- MODULE Glob --------------------------------
(* C18, part 1: wildcard matching.

   Characters are one-character TLA+ strings, patterns and subject strings are
   sequences of characters (TLC cannot index into a TLA+ string).

   SpecMatch   - (module GlobSpec) the glob meaning taken from the property
                 statement: '*' any run (possibly empty), '?' exactly one
                 character, everything else literal.  Two formulations: a recursive
                 one (used everywhere) and a purely declarative one by "cut points"
                 (SpecMatchDecl; invariant DeclLemma checks them equal up to LemmaLen).
   Algo        - transcription of tools::wildcmp (tools/src/libtools/tokenizer.cc,
                 Jack Handy's loop) as a state machine, one step per loop
                 iteration: C pointers wild/string/mp/cp become 1-based indices
                 w/t/mp/cp, nullptr is 0, the terminating NUL is Nul.

   Every (pattern, string) pair of the bounded domain is one initial state.  TLC
   checks: the loop terminates (step bound), never dereferences mp = nullptr, never
   reads beyond the terminating NUL, and returns SpecMatch.  One test vector is
   printed per pair when it reaches "done".                                       *)
EXTENDS GlobSpec, FiniteSets, TLC, Json

CONSTANTS PAlpha,   \* pattern alphabet, e.g. {"a","b","*","?"}
          SAlpha,   \* subject alphabet, e.g. {"a","b","*"}
          MaxLen,   \* maximal length of pattern and of subject
          LemmaLen, \* SpecMatch = SpecMatchDecl is checked for lengths up to this
          Emit      \* print vectors

(* ------------------------------ Algo ------------------------------------- *)
VARIABLES p, s,     \* inputs (never change)
          pc,       \* "L1" first loop, "L2" second loop, "L3" trailing stars, "done", "crash"
          w, t,     \* wild, string  (1-based; Len+1 is the NUL)
          mp, cp,   \* back-track point; 0 = nullptr
          ret,      \* return value 0/1, -1 while running
          steps

vars == <<p, s, pc, w, t, mp, cp, ret, steps>>

At(q, i) == IF i \in 1..Len(q) THEN q[i] ELSE Nul

Init == /\ p \in SeqsUpTo(PAlpha, MaxLen)
        /\ s \in SeqsUpTo(SAlpha, MaxLen)
        /\ pc = "L1" /\ w = 1 /\ t = 1 /\ mp = 0 /\ cp = 0 /\ ret = -1 /\ steps = 0

Ret(v) == /\ ret' = v /\ pc' = "done"

\* while ((*string) && (*wild != '*')) { if ((*wild != *string) && (*wild != '?')) return 0; wild++; string++; }
L1 == /\ pc = "L1"
      /\ IF At(s, t) # Nul /\ At(p, w) # Star
         THEN IF At(p, w) # At(s, t) /\ At(p, w) # QMark
              THEN Ret(0) /\ UNCHANGED <<w, t, mp, cp>>
              ELSE /\ w' = w + 1 /\ t' = t + 1
                   /\ UNCHANGED <<pc, mp, cp, ret>>
         ELSE /\ pc' = "L2" /\ UNCHANGED <<w, t, mp, cp, ret>>

\* while (*string) {
\*   if (*wild == '*') { if (!*++wild) return 1; mp = wild; cp = string + 1; }
\*   else if ((*wild == *string) || (*wild == '?')) { wild++; string++; }
\*   else { wild = mp; string = cp++; } }
L2 == /\ pc = "L2"
      /\ IF At(s, t) # Nul
         THEN IF At(p, w) = Star
              THEN IF At(p, w + 1) = Nul
                   THEN Ret(1) /\ w' = w + 1 /\ UNCHANGED <<t, mp, cp>>
                   ELSE /\ w' = w + 1 /\ mp' = w + 1 /\ cp' = t + 1
                        /\ UNCHANGED <<pc, t, ret>>
              ELSE IF At(p, w) = At(s, t) \/ At(p, w) = QMark
                   THEN /\ w' = w + 1 /\ t' = t + 1
                        /\ UNCHANGED <<pc, mp, cp, ret>>
                   ELSE IF mp = 0
                        THEN /\ pc' = "crash" /\ UNCHANGED <<w, t, mp, cp, ret>>   \* nullptr dereference next
                        ELSE /\ w' = mp /\ t' = cp /\ cp' = cp + 1
                             /\ UNCHANGED <<pc, mp, ret>>
         ELSE /\ pc' = "L3" /\ UNCHANGED <<w, t, mp, cp, ret>>

\* while (*wild == '*') wild++;  return !*wild;
L3 == /\ pc = "L3"
      /\ IF At(p, w) = Star
         THEN /\ w' = w + 1 /\ UNCHANGED <<pc, t, mp, cp, ret>>
         ELSE Ret(IF At(p, w) = Nul THEN 1 ELSE 0) /\ UNCHANGED <<w, t, mp, cp>>

Next == /\ (L1 \/ L2 \/ L3)
        /\ steps' = steps + 1
        /\ UNCHANGED <<p, s>>

Spec == Init /\ [][Next]_vars

(* ---------------------------- properties --------------------------------- *)
\* every loop iteration is one step; a generous polynomial bound proves termination
\* on the whole domain (a cycle would make steps grow without limit)
StepBound == (Len(p) + 2) * (Len(s) + 2) + 2
Terminates == steps <= StepBound

NoNullDeref == pc # "crash"
\* never reads beyond the NUL of either string
InBounds == /\ w \in 1..(Len(p) + 1)
            /\ t \in 1..(Len(s) + 1)
            /\ (mp # 0 => mp \in 1..(Len(p) + 1))

AlgoIsSpec == pc = "done" => (ret = 1) = SpecMatch(p, s)

\* the recursive and the cut-point formulation of the glob meaning agree
DeclLemma == (steps = 0 /\ Len(p) <= LemmaLen /\ Len(s) <= LemmaLen) =>
                SpecMatch(p, s) = SpecMatchDecl(p, s)

Vector == (Emit /\ pc = "done") =>
             PrintT(ToJson([p |-> p, s |-> s, m |-> SpecMatch(p, s), a |-> ret, n |-> steps]))
=============================================================================
