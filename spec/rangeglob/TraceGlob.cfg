SPECIFICATION Spec
INVARIANTS Report Conforms
CHECK_DEADLOCK FALSE
