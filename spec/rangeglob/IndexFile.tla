------------------------------ MODULE IndexFile ------------------------------
(* C18: the index-file layer on top of RangeParser: csg::imcio_write_index /
   csg::imcio_read_index (csg/src/libcsg/imcio.cc).  A file has one line per entry,
   "<name> <range expression>".

   A line is modelled at token level: the tokens of the expression (integers, COLON,
   COMMA) plus a layout saying where blanks are put: after commas (the form the property
   statement itself uses: 'a:s:b, c:d, e'), around colons, and how many blanks separate
   the name from the range.  (Tabs, comments and empty lines are not modelled: nothing
   specifies them.)

   Spec  - a line denotes SpecDenote of its expression: blanks are insignificant (that is
           what RangeParser::Parse does with such a text, so both entry points agree).
   Algo  - transcription of imcio_read_index: name = text before the first blank, range =
           EVERYTHING after it, handed to Parse, which deletes the blanks and tokenises on
           ',' and ':' dropping empty tokens.  FirstFieldOnly = TRUE models a reader that
           hands only the text up to the next blank to Parse (TLC must refute it:
           MCIndexFileFirst).  imcio_write_index = name, one blank, operator<<.
   TLC: reading gives the denoted sequence for every expression and layout; writing and
   reading back preserves it.  One vector per (expression, layout).                      *)
EXTENDS RangeSpec, TLC, Json

CONSTANTS Exprs,           \* valid expressions (accepted, closed)
          Layouts,         \* records [comma, colon : BOOLEAN, sep : Nat]
          FirstFieldOnly,
          Emit

ASSUME \A e \in Exprs : SpecAccepts(e)

COLON == 1000
COMMA == 1001

BlockToks(b) == IF Len(b) = 1 THEN <<b[1]>>
                ELSE IF Len(b) = 2 THEN <<b[1], COLON, b[2]>>
                ELSE <<b[1], COLON, b[2], COLON, b[3]>>
RECURSIVE ExprToksFrom(_, _)
ExprToksFrom(e, i) == IF i > Len(e) THEN <<>>
                      ELSE (IF i > 1 THEN <<COMMA>> ELSE <<>>) \o BlockToks(e[i]) \o ExprToksFrom(e, i + 1)
ExprToks(e) == ExprToksFrom(e, 1)

\* is there a blank between token i and token i+1 ?
BlankAfter(ts, i, lay) == \/ lay.comma /\ ts[i] = COMMA
                          \/ lay.colon /\ (ts[i] = COLON \/ ts[i + 1] = COLON)
\* the text up to the first blank inside the range
FirstChunk(ts, lay) ==
  LET cut == {i \in 1..(Len(ts) - 1) : BlankAfter(ts, i, lay)}
  IN IF cut = {} THEN ts ELSE SubSeq(ts, 1, CHOOSE i \in cut : \A j \in cut : i <= j)

\* boost char_separator: split at sep, empty tokens dropped
RECURSIVE SplitRec(_, _, _, _, _)
SplitRec(ts, i, sep, cur, acc) ==
  IF i > Len(ts) THEN (IF cur = <<>> THEN acc ELSE Append(acc, cur))
  ELSE IF ts[i] = sep THEN SplitRec(ts, i + 1, sep, <<>>, IF cur = <<>> THEN acc ELSE Append(acc, cur))
  ELSE SplitRec(ts, i + 1, sep, Append(cur, ts[i]), acc)
Split(ts, sep) == SplitRec(ts, 1, sep, <<>>, <<>>)
\* Parse: blocks at ',', fields at ':' (every field is one integer token here)
ParseToks(ts) == LET bl == Split(ts, COMMA)
                 IN [k \in 1..Len(bl) |-> LET f == Split(bl[k], COLON) IN [j \in 1..Len(f) |-> f[j][1]]]

\* imcio_read_index on the line (name handling is the identity: text before the first blank)
AlgoRead(e, lay) == LET ts   == ExprToks(e)
                        text == IF FirstFieldOnly THEN FirstChunk(ts, lay) ELSE ts
                        x    == ParseToks(text)
                    IN [ok |-> SpecAccepts(x), seq |-> IF SpecAccepts(x) THEN SpecDenote(x) ELSE <<>>]

\* operator<< on the parsed blocks
PrintBlock(b) == IF Beg(b) = End(b) THEN <<Beg(b)>>
                 ELSE IF Str(b) = 1 THEN <<Beg(b), End(b)>>
                 ELSE <<Beg(b), Str(b), End(b)>>
AlgoWrite(e) == [k \in 1..Len(e) |-> PrintBlock(e[k])]

VARIABLES e, lay
vars == <<e, lay>>
Init == e \in Exprs /\ lay \in Layouts
Next == UNCHANGED vars
Spec == Init /\ [][Next]_vars

TokensRoundTrip == ParseToks(ExprToks(e)) = e
ReadOK      == AlgoRead(e, lay).ok /\ AlgoRead(e, lay).seq = SpecDenote(e)
WriteReadOK == LET w == AlgoWrite(e)
               IN /\ AlgoRead(w, [comma |-> FALSE, colon |-> FALSE, sep |-> 1]).ok
                  /\ AlgoRead(w, [comma |-> FALSE, colon |-> FALSE, sep |-> 1]).seq = SpecDenote(e)

Vector == Emit => PrintT(ToJson([e |-> e, lay |-> lay, seq |-> SpecDenote(e), written |-> AlgoWrite(e)]))
=============================================================================
