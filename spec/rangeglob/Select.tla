------------------------------- MODULE Select -------------------------------
(* C18: selections built on the glob meaning (GlobSpec!SpecMatch).

   mode = "bead": csg::BeadList::Generate(top, select): `select` is a pattern on the
     bead type, or, when it starts with "name:", the rest is a pattern on the bead
     name; the result is exactly the set of beads that match.
   mode = "prop": tools::Property::Select("seg1.seg2"): level by level, the children
     whose name matches the segment pattern.

   There is no separate algorithm to transcribe here (the code is a loop around
   wildcmp, covered by Glob); TLC evaluates the meaning for every selection string of
   the domain and exports {input, expected set} vectors for replay into the real code. *)
EXTENDS GlobSpec, FiniteSets, TLC, Json

CONSTANTS Beads,     \* sequence of [type, name], both character sequences
          Prefixes,  \* set of character sequences put in front of a pattern
          PAlpha,    \* pattern alphabet
          SelLen,    \* maximal pattern length for bead selections
          Tree,      \* sequence of [n |-> name, k |-> sequence of names]
          SegLen,    \* maximal segment length of a property filter
          Emit

NamePrefix == <<"n", "a", "m", "e", ":">>
IsByName(sel) == Len(sel) >= 5 /\ SubSeq(sel, 1, 5) = NamePrefix

SpecBeads(sel) ==
  {i \in 1..Len(Beads) :
     IF IsByName(sel) THEN SpecMatch(SubSeq(sel, 6, Len(sel)), Beads[i].name)
     ELSE SpecMatch(sel, Beads[i].type)}

\* filter = sequence of 1 or 2 segments; result = set of paths <<i>> / <<i, j>>
SpecProps(f) ==
  LET lvl1 == {i \in 1..Len(Tree) : SpecMatch(f[1], Tree[i].n)}
  IN IF Len(f) = 1 THEN {<<i>> : i \in lvl1}
     ELSE UNION {{<<i, j>> : j \in {jj \in 1..Len(Tree[i].k) : SpecMatch(f[2], Tree[i].k[jj])}} : i \in lvl1}

VARIABLES mode, sel, flt
vars == <<mode, sel, flt>>

Segs == SeqsUpTo(PAlpha, SegLen) \ {<<>>}
Init == \/ /\ mode = "bead" /\ flt = <<>>
           /\ sel \in {pre \o pat : pre \in Prefixes, pat \in SeqsUpTo(PAlpha, SelLen)}
        \/ /\ mode = "prop" /\ sel = <<>>
           /\ flt \in {<<a>> : a \in Segs} \cup {<<a, b>> : a, b \in Segs}
Next == UNCHANGED vars
Spec == Init /\ [][Next]_vars

\* sanity of the meaning itself
ByNameIgnoresType == (mode = "bead" /\ IsByName(sel)) =>
   \A i, j \in 1..Len(Beads) : Beads[i].name = Beads[j].name => (i \in SpecBeads(sel) <=> j \in SpecBeads(sel))
StarSelectsAll == /\ SpecMatch(<<"*">>, <<>>)
                  /\ \A i \in 1..Len(Beads) : SpecMatch(<<"*">>, Beads[i].type)

SetToSeq(S) == LET RECURSIVE R(_)
                   R(T) == IF T = {} THEN <<>> ELSE LET x == CHOOSE y \in T : TRUE IN <<x>> \o R(T \ {x})
               IN R(S)

\* the fixed bead list and property tree, printed once for the harness
ASSUME PrintT(ToJson([beads |-> Beads, tree |-> Tree]))

Vector == Emit => PrintT(ToJson(
   IF mode = "bead"
   THEN [mode |-> mode, sel |-> sel, byname |-> IsByName(sel), ids |-> SetToSeq(SpecBeads(sel))]
   ELSE [mode |-> mode, flt |-> flt, paths |-> SetToSeq(SpecProps(flt))]))
=============================================================================
