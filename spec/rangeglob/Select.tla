------------------------------- MODULE Select -------------------------------
(* C18: selections built on the glob meaning (GlobSpec!SpecMatch).

   mode = "bead": csg::BeadList::Generate(top, select): `select` is a pattern on the
     bead type, or, when it starts with "name:", the rest is a pattern on the bead
     name; the result is exactly the set of beads that match.
   mode = "sphere": csg::BeadList::GenerateInSphericalSubvolume(top, select, ref, radius): the
     same selection, restricted to the beads whose minimum-image distance from `ref` is at
     most `radius`.  Bead positions, the cubic box edge and the reference points are lattice
     integers; radii are given as R2 = 2 r^2 with R2 odd, so that no bead lies exactly on the
     sphere (d^2 is an integer).  BigR2 is larger than the box diagonal: pure selection clause.
   mode = "prop": tools::Property::Select("seg1.seg2"): level by level, the children
     whose name matches the segment pattern.

   There is no separate algorithm to transcribe here (the code is a loop around
   wildcmp, covered by Glob); TLC evaluates the meaning for every selection string of
   the domain and exports {input, expected set} vectors for replay into the real code. *)
EXTENDS GlobSpec, FiniteSets, TLC, Json

CONSTANTS Beads,     \* sequence of [type, name], both character sequences
          Prefixes,  \* set of character sequences put in front of a pattern
          PAlpha,    \* pattern alphabet
          SelLen,    \* maximal pattern length for bead selections
          BeadPos,   \* sequence of <<x, y, z>>, one per bead, lattice integers inside the box
          BoxL,      \* edge of the cubic box
          Refs,      \* reference points
          R2s,       \* radii as 2 r^2 (odd) for the geometric clause
          BigR2,     \* 2 r^2 of a radius larger than the box diagonal
          GeoLen,    \* pattern length for the geometric clause (prefixes: none and "name:")
          Tree,      \* sequence of [n |-> name, k |-> sequence of names]
          SegLen,    \* maximal segment length of a property filter
          Emit

NamePrefix == <<"n", "a", "m", "e", ":">>
IsByName(sel) == Len(sel) >= 5 /\ SubSeq(sel, 1, 5) = NamePrefix

SpecBeads(sel) ==
  {i \in 1..Len(Beads) :
     IF IsByName(sel) THEN SpecMatch(SubSeq(sel, 6, Len(sel)), Beads[i].name)
     ELSE SpecMatch(sel, Beads[i].type)}

\* squared minimum-image distance in the cubic box: nearest of the periodic images per component
Sq(x) == x * x
MinSq(d) == LET S == {Sq(d + k * BoxL) : k \in -2..2} IN CHOOSE m \in S : \A n \in S : m <= n
MinImgD2(a, b) == MinSq(b[1] - a[1]) + MinSq(b[2] - a[2]) + MinSq(b[3] - a[3])
SpecSphere(sel, ref, r2) == {i \in SpecBeads(sel) : 2 * MinImgD2(ref, BeadPos[i]) < r2}

\* filter = sequence of 1 or 2 segments; result = set of paths <<i>> / <<i, j>>
SpecProps(f) ==
  LET lvl1 == {i \in 1..Len(Tree) : SpecMatch(f[1], Tree[i].n)}
  IN IF Len(f) = 1 THEN {<<i>> : i \in lvl1}
     ELSE UNION {{<<i, j>> : j \in {jj \in 1..Len(Tree[i].k) : SpecMatch(f[2], Tree[i].k[jj])}} : i \in lvl1}

VARIABLES mode, sel, flt, geo
vars == <<mode, sel, flt, geo>>
NoGeo == [ref |-> <<0, 0, 0>>, r2 |-> 0]

Segs == SeqsUpTo(PAlpha, SegLen) \ {<<>>}
Init == \/ /\ mode = "sphere" /\ flt = <<>>
           /\ \/ /\ sel \in {pre \o pat : pre \in Prefixes, pat \in SeqsUpTo(PAlpha, SelLen)}
                 /\ geo \in [ref : {CHOOSE r \in Refs : TRUE}, r2 : {BigR2}]
              \/ /\ sel \in {pre \o pat : pre \in {<<>>, NamePrefix}, pat \in SeqsUpTo(PAlpha, GeoLen)}
                 /\ geo \in [ref : Refs, r2 : R2s]
        \/ /\ mode = "bead" /\ flt = <<>> /\ geo = NoGeo
           /\ sel \in {pre \o pat : pre \in Prefixes, pat \in SeqsUpTo(PAlpha, SelLen)}
        \/ /\ mode = "prop" /\ sel = <<>> /\ geo = NoGeo
           /\ flt \in {<<a>> : a \in Segs} \cup {<<a, b>> : a, b \in Segs}
Next == UNCHANGED vars
Spec == Init /\ [][Next]_vars

\* sanity of the meaning itself
ByNameIgnoresType == (mode = "bead" /\ IsByName(sel)) =>
   \A i, j \in 1..Len(Beads) : Beads[i].name = Beads[j].name => (i \in SpecBeads(sel) <=> j \in SpecBeads(sel))
\* a radius beyond the box diagonal makes the subvolume the whole box
BigIsAll == (mode = "sphere" /\ geo.r2 = BigR2) => SpecSphere(sel, geo.ref, geo.r2) = SpecBeads(sel)
SphereIsSubset == mode = "sphere" => SpecSphere(sel, geo.ref, geo.r2) \subseteq SpecBeads(sel)
StarSelectsAll == /\ SpecMatch(<<"*">>, <<>>)
                  /\ \A i \in 1..Len(Beads) : SpecMatch(<<"*">>, Beads[i].type)

SetToSeq(S) == LET RECURSIVE R(_)
                   R(T) == IF T = {} THEN <<>> ELSE LET x == CHOOSE y \in T : TRUE IN <<x>> \o R(T \ {x})
               IN R(S)

\* the fixed bead list and property tree, printed once for the harness
ASSUME PrintT(ToJson([beads |-> Beads, tree |-> Tree, pos |-> BeadPos, box |-> BoxL]))

Vector == Emit => PrintT(ToJson(
   IF mode = "sphere"
   THEN [mode |-> mode, sel |-> sel, byname |-> IsByName(sel), ref |-> geo.ref, r2 |-> geo.r2,
         ids |-> SetToSeq(SpecSphere(sel, geo.ref, geo.r2))]
   ELSE IF mode = "bead"
   THEN [mode |-> mode, sel |-> sel, byname |-> IsByName(sel), ids |-> SetToSeq(SpecBeads(sel))]
   ELSE [mode |-> mode, flt |-> flt, paths |-> SetToSeq(SpecProps(flt))]))
=============================================================================
