\* a reader that hands only the first blank-separated field to Parse: TLC must refute
SPECIFICATION Spec
CONSTANTS
  NonNum <- MCNonNum
  Exprs <- MCExprs
  Layouts <- MCLayouts
  FirstFieldOnly = TRUE
  Emit = FALSE
INVARIANTS ReadOK
CHECK_DEADLOCK FALSE
