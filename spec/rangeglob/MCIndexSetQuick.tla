---- MODULE MCIndexSetQuick ----
EXTENDS IndexSet
====
