------------------------------ MODULE GlobSpec ------------------------------
(* The glob meaning of the property statement (C18): '*' any run, possibly empty,
   '?' exactly one character, everything else literal.  No variables: shared by
   Glob (wildcmp), Select (bead and property selection) and TraceGlob.
   Characters are one-character strings, patterns/subjects sequences of them.     *)
EXTENDS Integers, Sequences

Star == "*"
QMark == "?"
Nul  == "$"        \* the terminating NUL of a C string; not in any alphabet

SeqsUpTo(A, n) == UNION {[1..k -> A] : k \in 0..n}

\* does p[i..] match s[j..] ?
RECURSIVE SpecMatchFrom(_, _, _, _)
SpecMatchFrom(p, s, i, j) ==
  IF i > Len(p) THEN j > Len(s)
  ELSE IF p[i] = Star
       THEN \E k \in j..(Len(s) + 1) : SpecMatchFrom(p, s, i + 1, k)   \* the star eats s[j..k-1]
       ELSE /\ j <= Len(s)
            /\ (p[i] = QMark \/ p[i] = s[j])
            /\ SpecMatchFrom(p, s, i + 1, j + 1)

SpecMatch(p, s) == SpecMatchFrom(p, s, 1, 1)

\* Declarative: there are cut points 0 = c[0] <= c[1] <= ... <= c[Len(p)] = Len(s) such that
\* pattern element i consumes s[c[i-1]+1 .. c[i]]: any run for '*', exactly one character
\* for '?', exactly that character for a literal.
SpecMatchDecl(p, s) ==
  \E c \in [0..Len(p) -> 0..Len(s)] :
     /\ c[0] = 0
     /\ c[Len(p)] = Len(s)
     /\ \A i \in 1..Len(p) :
          IF p[i] = Star THEN c[i] >= c[i - 1]
          ELSE /\ c[i] = c[i - 1] + 1
               /\ (p[i] = QMark \/ p[i] = s[c[i]])
=============================================================================
