\* design level only (no vector export): the length the property statement names
SPECIFICATION Spec
CONSTANTS
  PAlpha = {"a", "b", "*", "?"}
  SAlpha = {"a", "b", "*"}
  MaxLen = 6
  LemmaLen = 0
  Emit = FALSE
INVARIANTS Terminates NoNullDeref InBounds AlgoIsSpec
CHECK_DEADLOCK FALSE
