SPECIFICATION Spec
INVARIANTS TraceAccepted
CHECK_DEADLOCK FALSE
