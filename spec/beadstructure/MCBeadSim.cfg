SPECIFICATION Spec
CONSTANTS
  BeadSeq <- MCBeadSeq
  AttrSeq <- MCAttrSeq
  Pool <- MCPool
  Fresh = 424242
  RefV <- MCRefV
  RefE <- MCRefE
  RefAttrSeq <- MCRefAttr
  Inits <- MCInits
  WithFork = TRUE
  WithSub = TRUE
  Depth = 10
  Emit = TRUE
INVARIANTS TypeOK AnswersFresh CacheCoherent CopyLaws Leaf
CHECK_DEADLOCK FALSE
