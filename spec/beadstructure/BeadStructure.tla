--------------------------- MODULE BeadStructure ---------------------------
(* C16, mode H: csg::BeadStructure as a state machine, one action per public call.

   Abstract state: the beads (ids; name/mass are a fixed function of the id, AttrOf) and
   the connections.  The code keeps three lazily refreshed caches guarded by flags
   (graphUpToDate / structureIdUpToDate / single_structureUpToDate_); they are variables
   here and every action transcribes what the code does to them:

     AddBead / ConnectBeads (when something was really inserted): all three flags := false
     InitializeGraph_():   if !graphUpToDate   { graph_ := Graph(beads, connections); flag := true }
     CalculateStructure_(): InitializeGraph_(); if !sidUp { structure_id_ := id(graph_); flag := true }
     isSingleStructure():  InitializeGraph_(); if !singleUp { compute on graph_; flag := true ONLY when the
                           answer is true }; return single_structure_
     isStructureEquivalent(o): if !sidUp CalculateStructure_(); same for o; compare ids
     getGraph():           InitializeGraph_(); return graph_
     breakIntoStructures(): isSingleStructure() ? {copy} : decouple(getGraph()) via getSubStructure
     getSubStructure(ids, edges): const; throws for unknown ids / edges

   Every query answer derived from the caches (`ans`) is compared with the answer
   recomputed from the current beads/connections with the Graph.tla operators (`exp`);
   `fresh` stays TRUE iff they always agree.  `h` is the history variable that is exported
   and replayed into the real class: each record carries the call, its arguments and the
   expected observation.                                                              *)
EXTENDS Graph, SequencesExt, Json

CONSTANTS BeadSeq,    \* sequence of the bead ids that may be added (not 1..n)
          AttrSeq,    \* AttrSeq[i] = palette index of BeadSeq[i]
          Pool,       \* target ids for relabelled copies (Len >= Len(BeadSeq), disjoint from Fresh)
          Fresh,      \* id of the extra bead of an altered copy
          RefV, RefE, RefAttrSeq,   \* persistent reference structure (ids sequence, edge set, palette indices)
          Inits,      \* set of initial structures [v |-> set, e |-> set]; built by a canonical call prefix
          WithSub,    \* include the getSubStructure calls in the alphabet
          WithFork,   \* include copying the object / probing the abandoned original
          Depth, Emit
VARIABLES beads, conns,                      \* abstract state
          gUp, sidUp, singleUp,              \* cache flags
          gSnap, sidSnap, singleVal,         \* what the caches hold (snapshots of the state they were computed from)
          refSidUp,                          \* structureIdUpToDate of the reference object
          act, orig,                         \* handle in use (slot 0 or 3); state the abandoned handle must still show
          fresh, k, h
vars == <<beads, conns, gUp, sidUp, singleUp, gSnap, sidSnap, singleVal, refSidUp, act, orig, fresh, k, h>>

BeadIds == {BeadSeq[i] : i \in 1..Len(BeadSeq)}
Idx(v) == CHOOSE i \in 1..Len(BeadSeq) : BeadSeq[i] = v
AttrOf(v) == AttrSeq[Idx(v)]
Cur == [v |-> beads, e |-> conns]
Empty == [v |-> {}, e |-> {}]
WithAttr(c) == [v |-> c.v, e |-> c.e, attr |-> [x \in c.v |-> AttrOf(x)]]
Ref == [v |-> {RefV[i] : i \in 1..Len(RefV)}, e |-> RefE,
        attr |-> [x \in {RefV[i] : i \in 1..Len(RefV)} |-> RefAttrSeq[CHOOSE i \in 1..Len(RefV) : RefV[i] = x]]]

\* ---- what the property statement fixes about an equivalence verdict ----------------
Iso(a, b) == /\ Cardinality(a.v) = Cardinality(b.v)
             /\ \E pi \in [a.v -> b.v] :
                   /\ \A x, y \in a.v : x # y => pi[x] # pi[y]
                   /\ RelabE(a.e, pi) = b.e
                   /\ \A x \in a.v : b.attr[pi[x]] = a.attr[x]
Verdict(a, b) == IF Iso(a, b) THEN "T"
                 ELSE IF AttrBag(a.v, a.attr) # AttrBag(b.v, b.attr) THEN "F"
                 ELSE "any"         \* same multiset, not a relabelling: the statement is silent

\* ---- salt-driven copies (salt = number of calls so far) --------------------------------
KeyV(v, s) == (v * 37 + s * 101 + 7) % 211
KeyE(e, s) == (e[1] * 53 + e[2] * 97 + s * 29 + 3) % 223
LessV(a, b, s) == KeyV(a, s) < KeyV(b, s) \/ (KeyV(a, s) = KeyV(b, s) /\ a < b)
LessE(a, b, s) == KeyE(a, s) < KeyE(b, s) \/ (KeyE(a, s) = KeyE(b, s) /\ (a[1] < b[1] \/ (a[1] = b[1] /\ a[2] < b[2])))
Pi(s) == [v \in BeadIds |-> Pool[((Idx(v) + s) % Len(Pool)) + 1]]
CopyDesc(c, s, alter) ==
  LET vo == SetToSortSeq(c.v, LAMBDA a, b : LessV(a, b, s))
      eo == SetToSortSeq(c.e, LAMBDA a, b : LessE(a, b, s))
      extra == alter /\ (c.v = {} \/ s % 2 = 1)
      victim == IF alter /\ ~extra THEN vo[1] ELSE Fresh
  IN [vs |-> [i \in 1..Len(vo) |-> Pi(s)[vo[i]]] \o (IF extra THEN <<Fresh>> ELSE <<>>),
      at |-> [i \in 1..Len(vo) |-> IF vo[i] = victim THEN (AttrOf(vo[i]) % 4) + 1 ELSE AttrOf(vo[i])]
             \o (IF extra THEN <<1>> ELSE <<>>),
      es |-> [i \in 1..Len(eo) |-> IF KeyE(eo[i], s + 1) % 2 = 0 THEN <<Pi(s)[eo[i][1]], Pi(s)[eo[i][2]]>>
                                   ELSE <<Pi(s)[eo[i][2]], Pi(s)[eo[i][1]]>>]]
\* the structure a copy descriptor denotes (to state the law about it)
DescStruct(d) == LET vs == {d.vs[i] : i \in 1..Len(d.vs)} IN
                 [v |-> vs, e |-> {Ed(d.es[i][1], d.es[i][2]) : i \in 1..Len(d.es)},
                  attr |-> [x \in vs |-> d.at[CHOOSE i \in 1..Len(d.vs) : d.vs[i] = x]]]

\* ---- canonical construction prefix of an initial structure ---------------------------------
AddRec(v, ok) == [a |-> "add", id |-> v, at |-> AttrOf(v), exp |-> IF ok THEN "ok" ELSE "exc"]
ConnRec(x, y, ok) == [a |-> "conn", x |-> x, y |-> y, exp |-> IF ok THEN "ok" ELSE "exc"]
Prefix(c) == LET vo == SetToSortSeq(c.v, LAMBDA a, b : a > b)
                 eo == SetToSortSeq(c.e, LAMBDA a, b : a[2] < b[2] \/ (a[2] = b[2] /\ a[1] > b[1]))
             IN [i \in 1..Len(vo) |-> AddRec(vo[i], TRUE)] \o [i \in 1..Len(eo) |-> ConnRec(eo[i][2], eo[i][1], TRUE)]

\* every logged call says on which handle it is made
Log(r) == Append(h, r @@ ("on" :> act))
Init == /\ \E c \in Inits : beads = c.v /\ conns = c.e /\ h = Prefix(c)
        /\ gUp = FALSE /\ sidUp = FALSE /\ singleUp = FALSE
        /\ gSnap = Empty /\ sidSnap = Empty /\ singleVal = FALSE
        /\ refSidUp = FALSE /\ fresh = TRUE /\ k = 0
        /\ act = 0 /\ orig = <<>>

\* ---- mutations ---------------------------------------------------------------------------------
Invalidate == gUp' = FALSE /\ sidUp' = FALSE /\ singleUp' = FALSE
AddBead(v) ==
  /\ IF v \in beads
       THEN UNCHANGED <<beads, gUp, sidUp, singleUp>>          \* invalid_argument, nothing changes
       ELSE beads' = beads \cup {v} /\ Invalidate
  /\ h' = Log(AddRec(v, v \notin beads))
  /\ UNCHANGED <<conns, gSnap, sidSnap, singleVal, refSidUp, fresh>>
ConnectBeads(x, y) ==
  LET bad == x \notin beads \/ y \notin beads \/ x = y IN
  /\ IF bad \/ Ed(x, y) \in conns
       THEN UNCHANGED <<conns, gUp, sidUp, singleUp>>         \* exception, or the set did not grow: flags kept
       ELSE conns' = conns \cup {Ed(x, y)} /\ Invalidate
  /\ h' = Log(ConnRec(x, y, ~bad))
  /\ UNCHANGED <<beads, gSnap, sidSnap, singleVal, refSidUp, fresh>>

\* ---- queries -----------------------------------------------------------------------------------
G1 == IF gUp THEN gSnap ELSE Cur                      \* graph_ after InitializeGraph_()
SingleAns == IF singleUp THEN singleVal ELSE SpecSingle(G1.v, G1.e)
IsSingle ==
  /\ gUp' = TRUE /\ gSnap' = G1
  /\ singleVal' = SingleAns
  /\ singleUp' = (singleUp \/ SingleAns)              \* only a TRUE answer is cached
  /\ fresh' = (fresh /\ SingleAns = SpecSingle(beads, conns))
  /\ h' = Log([a |-> "single", exp |-> SpecSingle(beads, conns), defined |-> beads # {}])
  /\ UNCHANGED <<beads, conns, sidUp, sidSnap, refSidUp>>

Sid1 == IF sidUp THEN sidSnap ELSE G1                 \* what structure_id_ describes after CalculateStructure_()
CalcSid == /\ sidUp' = TRUE /\ sidSnap' = Sid1
           /\ gUp' = (gUp \/ ~sidUp) /\ gSnap' = (IF sidUp THEN gSnap ELSE G1)
Equiv(kind) ==          \* kind: "copy" (relabelled), "alt" (different multiset), "ref" (persistent reference)
  LET d == CopyDesc(Cur, Len(h), kind = "alt")
      other == IF kind = "ref" THEN Ref ELSE DescStruct(d)
      exp == Verdict(WithAttr(Cur), other)
      ans == Verdict(WithAttr(Sid1), other)
  IN /\ CalcSid
     /\ refSidUp' = (refSidUp \/ kind = "ref")
     /\ fresh' = (fresh /\ ans = exp)
     /\ h' = Log([a |-> "equiv", kind |-> kind, exp |-> exp, other |-> IF kind = "ref" THEN <<>> ELSE <<d>>])
     /\ UNCHANGED <<beads, conns, singleUp, singleVal>>

GraphRec(c) == [v |-> c.v, e |-> c.e, at |-> LET vo == SetToSeq(c.v) IN [i \in 1..Len(vo) |-> <<vo[i], AttrOf(vo[i])>>]]
GetGraph ==
  /\ gUp' = TRUE /\ gSnap' = G1
  /\ fresh' = (fresh /\ G1 = Cur)
  /\ h' = Log([a |-> "graph", exp |-> GraphRec(Cur)])
  /\ UNCHANGED <<beads, conns, sidUp, sidSnap, singleUp, singleVal, refSidUp>>

Break ==
  LET ans == IF SingleAns THEN {[v |-> G1.v, e |-> G1.e]} ELSE SpecParts(G1.v, G1.e) IN
  /\ gUp' = TRUE /\ gSnap' = G1
  /\ singleVal' = SingleAns /\ singleUp' = (singleUp \/ SingleAns)
  /\ fresh' = (fresh /\ ans = SpecParts(beads, conns))
  /\ h' = Log([a |-> "break", exp |-> SpecParts(beads, conns)])
  /\ UNCHANGED <<beads, conns, sidUp, sidSnap, refSidUp>>

\* getSubStructure: "all" = everything; "drop" = without the smallest bead and its edges;
\* "bad" = everything plus a connection that does not exist (documented runtime_error)
Sub(kind) ==
  LET drop == IF beads = {} THEN {} ELSE {GMin(beads)}
      ids == IF kind = "drop" THEN beads \ drop ELSE IF kind = "badid" THEN beads \cup {Fresh} ELSE beads
      missing == AllPairs(beads) \ conns
      es == IF kind = "drop" THEN {e \in conns : Ends(e) \cap drop = {}}
            ELSE IF kind = "bad" THEN conns \cup {CHOOSE e \in missing : TRUE} ELSE conns
  IN /\ (kind = "bad" => missing # {})
     /\ h' = Log([a |-> "sub", ids |-> SetToSeq(ids), es |-> SetToSeq(es),
                        exp |-> IF kind \in {"bad", "badid"} THEN <<>> ELSE <<GraphRec([v |-> ids, e |-> es])>>])
     /\ UNCHANGED <<beads, conns, gUp, sidUp, singleUp, gSnap, sidSnap, singleVal, refSidUp, fresh>>

(* Two handles: Fork copies the object in use into the other slot (copy constructor when that slot
   is unused, copy assignment over the used object otherwise) and carries on with the COPY - a
   C++ copy carries the flags and cached values, so nothing changes in the model, which is exactly
   the claim "a copy answers like the original".  The abandoned original must keep showing the
   state it had at the fork (Probe), whatever is done to the copy afterwards.                  *)
Fork ==
  /\ act' = 3 - act /\ orig' = <<GraphRec(Cur)>>
  /\ h' = Log([a |-> "fork", to |-> 3 - act, mode |-> IF orig = <<>> THEN 0 ELSE 1])
  /\ UNCHANGED <<beads, conns, gUp, sidUp, singleUp, gSnap, sidSnap, singleVal, refSidUp, fresh>>
Probe ==
  /\ orig # <<>>
  /\ h' = Log([a |-> "probe", slot |-> 3 - act, exp |-> orig[1]])
  /\ UNCHANGED <<beads, conns, gUp, sidUp, singleUp, gSnap, sidSnap, singleVal, refSidUp, fresh, act, orig>>

NextCall ==
  \/ \E v \in BeadIds : AddBead(v)
  \/ \E x, y \in BeadIds : x < y /\ ConnectBeads(y, x)
  \/ ConnectBeads(BeadSeq[1], BeadSeq[1])
  \/ IsSingle \/ Equiv("copy") \/ Equiv("alt") \/ Equiv("ref") \/ GetGraph \/ Break
  \/ (WithSub /\ (Sub("all") \/ Sub("drop") \/ Sub("bad") \/ Sub("badid")))
Next == /\ k < Depth /\ k' = k + 1
        /\ \/ (WithFork /\ (Fork \/ Probe))
           \/ (UNCHANGED <<act, orig>> /\ NextCall)
Spec == Init /\ [][Next]_vars

\* ---- properties ------------------------------------------------------------------------------------
TypeOK == /\ beads \subseteq BeadIds /\ conns \subseteq AllPairs(beads)
\* every query answer equals the answer recomputed from the current beads/connections
AnswersFresh == fresh
\* the inductive reason: an up-to-date flag implies the cached value describes the current state
CacheCoherent == /\ gUp => gSnap = Cur
                 /\ sidUp => sidSnap = Cur
                 /\ singleUp => (singleVal /\ SpecSingle(beads, conns))
\* the copies are what they claim to be
CopyLaws == \A s \in {Len(h)} :
              /\ Verdict(WithAttr(Cur), DescStruct(CopyDesc(Cur, s, FALSE))) = "T"
              /\ Verdict(WithAttr(Cur), DescStruct(CopyDesc(Cur, s, TRUE))) = "F"
Leaf == (Emit /\ k = Depth) => PrintT(ToJson([h |-> h, ref |-> [vs |-> RefV, at |-> RefAttrSeq, es |-> SetToSeq(RefE)]]))
=============================================================================
