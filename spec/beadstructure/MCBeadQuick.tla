---- MODULE MCBeadQuick ----
EXTENDS BeadStructure
MCBeadSeq == <<7, 2, 100>>
MCAttrSeq == <<1, 1, 2>>
MCPool == <<1000003, 31, 0, 999, 64>>
MCRefV == <<4096, 12345, 5>>
MCRefAttr == <<1, 1, 2>>
MCRefE == {<<4096, 12345>>, <<5, 12345>>}
G(V, E) == [v |-> V, e |-> E]
MCInits == { G({}, {}), G({7, 2}, {<<2, 7>>}), G({7, 2, 100}, {<<2, 7>>, <<7, 100>>}), G({7, 2, 100}, {<<2, 100>>}) }
====
