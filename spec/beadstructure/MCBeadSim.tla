---- MODULE MCBeadSim ----
EXTENDS BeadStructure
MCBeadSeq == <<7, 2, 100, 13>>
MCAttrSeq == <<1, 1, 2, 1>>
MCPool == <<1000003, 31, 0, 999, 64, 2147483000>>
MCRefV == <<4096, 12345, 5, 77>>
MCRefAttr == <<1, 1, 2, 1>>
MCRefE == {<<4096, 12345>>, <<5, 12345>>, <<77, 4096>>}
MCInits == { [v |-> {}, e |-> {}] }
====
