------------------------------ MODULE BeadTrace ------------------------------
(* Trace validation for C16 / BeadStructure: long random call sequences were executed on
   the real class; the log (call, arguments, observation) is replayed here against the
   abstract state (beads with attributes, connections) and every observation is compared
   with the answer recomputed from that state with the Graph.tla operators.
   {"a":"reset"} starts a new object.                                                 *)
EXTENDS Graph, Json, IOUtils, SequencesExt

Recs == ndJsonDeserialize(IOEnv.TRACE)
VARIABLES j, beads, conns, okv
vars == <<j, beads, conns, okv>>      \* beads: function id -> palette index

EdSet(s) == {Ed(e[1], e[2]) : e \in ToSet(s)}
Ids == DOMAIN beads
Init == j = 0 /\ beads = <<>> /\ conns = {} /\ okv = TRUE

AttrFn(vs, at) == [v \in ToSet(vs) |-> at[CHOOSE m \in 1..Len(vs) : vs[m] = v]]
\* verdict the statement fixes for the logged copy: relabelling (pi given and verified) => equivalent,
\* different (name,mass) multisets => different, otherwise silent
CopyVerdict(r) ==
  LET cv == ToSet(r.cvs)  ce == EdSet(r.ces)  cat == AttrFn(r.cvs, r.cat) IN
  IF AttrBag(cv, cat) # AttrBag(Ids, beads) THEN "F"
  ELSE IF /\ Len(r.pi) = Cardinality(Ids)
          /\ \A v \in Ids : \E p \in ToSet(r.pi) : p[1] = v
       THEN LET pm == [v \in Ids |-> (CHOOSE p \in ToSet(r.pi) : p[1] = v)[2]] IN
            IF /\ \A a, b \in Ids : a # b => pm[a] # pm[b]
               /\ RelabV(Ids, pm) = cv /\ RelabE(conns, pm) = ce
               /\ \A v \in Ids : cat[pm[v]] = beads[v]
            THEN "T" ELSE "any"
       ELSE "any"
Bit(b) == IF b THEN 1 ELSE 0

Step ==
  /\ j < Len(Recs) /\ j' = j + 1
  /\ LET r == Recs[j + 1] IN
     CASE r.a = "reset" -> beads' = <<>> /\ conns' = {} /\ okv' = TRUE
       [] r.a = "add" ->
            IF r.id \in Ids THEN okv' = (r.r = "exc") /\ UNCHANGED <<beads, conns>>
            ELSE /\ beads' = [v \in Ids \cup {r.id} |-> IF v = r.id THEN r.at ELSE beads[v]]
                 /\ okv' = (r.r = "ok") /\ UNCHANGED conns
       [] r.a = "conn" ->
            IF r.x \notin Ids \/ r.y \notin Ids \/ r.x = r.y THEN okv' = (r.r = "exc") /\ UNCHANGED <<beads, conns>>
            ELSE conns' = conns \cup {Ed(r.x, r.y)} /\ okv' = (r.r = "ok") /\ UNCHANGED beads
       [] r.a = "single" ->
            /\ okv' = (Ids = {} \/ r.r = Bit(SpecSingle(Ids, conns)))
            /\ UNCHANGED <<beads, conns>>
       [] r.a = "graph" ->
            /\ okv' = /\ ToSet(r.v) = Ids /\ EdSet(r.e) = conns /\ Len(r.e) = Cardinality(conns)
                      /\ \A p \in ToSet(r.at) : p[1] \in Ids /\ beads[p[1]] = p[2]
                      /\ Len(r.at) = Cardinality(Ids)
            /\ UNCHANGED <<beads, conns>>
       [] r.a = "break" ->
            /\ okv' = LET P == {[v |-> ToSet(p.v), e |-> EdSet(p.e)] : p \in ToSet(r.parts)} IN
                      P = SpecParts(Ids, conns) /\ Len(r.parts) = Cardinality(P)
            /\ UNCHANGED <<beads, conns>>
       [] r.a = "equiv" ->
            /\ okv' = LET vd == CopyVerdict(r) IN
                      vd = "any" \/ \A x \in ToSet(r.r) : x = Bit(vd = "T")
            /\ UNCHANGED <<beads, conns>>
Spec == Init /\ [][Step]_vars
TraceAccepted == okv
=============================================================================
