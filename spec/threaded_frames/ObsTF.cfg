SPECIFICATION OSpec
CONSTANTS
  Configs <- ObsConfigs
  MaxW = 8
  Emit = FALSE
  FirstFrameFix = TRUE
INVARIANTS ObsReaderExclusive ObsMergeExclusive NoBadUnlock ReadInFileOrder EachFrameOnce Selected NoExtraFrame OrderedMerge UnorderedMerge MergedAll
CHECK_DEADLOCK FALSE
