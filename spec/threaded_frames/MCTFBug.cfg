SPECIFICATION Spec
CONSTANTS
  Configs <- BugConfigs
  MaxW = 8
  Emit = FALSE
  FirstFrameFix = FALSE
INVARIANTS Selected
VIEW View
