------------------------------- MODULE FaultTF -------------------------------
(* Error path of the frame dispatcher: an exception leaves the trajectory reader
   (truncated frame) or a worker's EvalConfiguration for one frame of the selection.

   What the code does: the exception is not caught anywhere between the throw and the
   thread function (tools/src/libtools/thread.cc: runwrapper), so std::terminate ends
   the whole process at the throw - every other thread stops where it is.  The model:
   the step that would have read / evaluated the faulty frame sets `aborted` instead of
   doing its work, and an aborted system takes no further step.

   The statement's "no interleaving deadlocks" on this path: whatever the interleaving,
   the run either completes (the faulty frame is not in the selection) or aborts -
   it never ends in a state where some thread still waits and nobody can move
   (a worker that disappears while it holds the reader mutex or the input token would
   do exactly that to its neighbours).  TLC checks it as deadlock freedom plus
   termination under fairness; the outcome is a function of the configuration alone
   (OutcomeIsDetermined), which is what the runner compares the real runs with.      *)
EXTENDS ThreadedFrames

CONSTANTS Faults        \* set of [f, at]: frame f (relative to the selection), at \in {"read", "eval"}
VARIABLES fault, aborted
fvars == <<vars, fault, aborted>>

\* frame 1 is pre-read by the seek loop: a read fault can only hit frames >= 2
FInit == Init /\ fault \in {x \in Faults : x.at = "eval" \/ x.f >= 2} /\ aborted = FALSE

\* the step of worker w that touches the faulty frame
Hits(w) ==
  LET p == pc[w + 1] IN
  \/ fault.at = "read" /\ p.k = "user" /\ p.o = "read" /\ pos + 1 = fault.f /\ pos + 1 <= K
  \/ fault.at = "eval" /\ p.k = "user" /\ p.o = "eval" /\ frameOf[w] = fault.f

FWorker(w) ==
  /\ ~aborted
  /\ IF Hits(w)
     THEN /\ Enabled(w + 1) /\ aborted' = TRUE /\ UNCHANGED <<vars, fault>>
     ELSE /\ WorkerStep(w) /\ UNCHANGED <<fault, aborted>>
FMain == ~aborted /\ MainStep /\ UNCHANGED <<fault, aborted>>
Over == aborted \/ AllDone
FNext == FMain \/ (\E w \in Workers : FWorker(w)) \/ (Over /\ UNCHANGED fvars)
FSpec == FInit /\ [][FNext]_fvars
FFairSpec == FSpec /\ WF_fvars(FMain) /\ \A w \in 0..(MaxW - 1) : WF_fvars(w \in Workers /\ FWorker(w))

\* ---- properties -------------------------------------------------------------------
\* the faulty frame is reached iff it belongs to the selection
Reached == fault.f <= Wanted
FaultTermination == <>Over
OutcomeIsDetermined == /\ (aborted => Reached)
                       /\ (AllDone => ~Reached)
AbortIsFinal == [][aborted => UNCHANGED vars]_fvars
\* up to the abort every safety property of the dispatcher holds as before
FSafety == ReaderExclusive /\ MergeExclusive /\ NoBadUnlock /\ ReadInFileOrder /\ EachFrameOnce /\ NoExtraFrame /\ OrderedMerge
\* nothing of the faulty frame or of a later one is merged in ordered mode
NoMergeFromFault == (Ordered /\ fault.at = "read") => \A i \in 1..Len(mergeLog) : mergeLog[i] < fault.f
FView == <<View, fault, aborted>>
\* one line per (configuration, fault): what the real runs must end with
EmitOutcome == (Emit /\ Over) =>
   PrintT(ToJson([c |-> c, f |-> fault.f, at |-> fault.at, outcome |-> IF aborted THEN "abort" ELSE "complete"]))
=============================================================================
