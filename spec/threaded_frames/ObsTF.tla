------------------------------- MODULE ObsTF -------------------------------
(* Property evaluation on OBSERVED states of the real dispatcher, without the
   protocol: every record of the ndjson file is one initial state; TLC evaluates
   the property predicates of ThreadedFrames on each.  Used (a) on every state
   reached by the exhaustive schedule enumeration of the real code and (b) to decide
   whether an execution that is NOT a behaviour of the protocol spec (TraceTF rejects
   it) violates the property or merely shows that code and spec have drifted apart. *)
EXTENDS ThreadedFrames, IOUtils

VARIABLE idx
TrFile == ndJsonDeserialize(IOEnv.TRACE)
ASSUME TLCSet(2, TrFile)
Tr == TLCGet(2)
ObsConfigs == LET t == TrFile IN {[nw |-> t[i].c.nw, k |-> t[i].c.k, b |-> t[i].c.b, ord |-> t[i].c.ord] : i \in 1..Len(t)}

OInit ==
  /\ idx \in 1..Len(Tr)
  /\ LET r == Tr[idx]  s == Tr[idx].s  cf == [nw |-> r.c.nw, k |-> r.c.k, b |-> r.c.b, ord |-> r.c.ord] IN
     /\ c = cf
     /\ pc = [t \in 0..cf.nw |-> [k |-> s.pc[t + 1].k, o |-> s.pc[t + 1].o, i |-> s.pc[t + 1].i]]
     /\ sem = [x \in SemNamesOf(cf) |-> s.sem[SemKey(x)]]
     /\ nframes = s.nframes /\ first = s.first /\ pos = s.pos
     /\ frameOf = [w \in 0..(cf.nw - 1) |-> s.frameOf[w + 1]]
     /\ readSeq = s.readSeq
     /\ evalLog = [i \in 1..Len(s.evalLog) |-> <<s.evalLog[i][1], s.evalLog[i][2]>>]
     /\ mergeLog = s.mergeLog
     /\ badUnlock = s.bad
     /\ mi = 1 /\ outcome = [w \in 0..(cf.nw - 1) |-> "go"] /\ sched = <<>>
ONext == UNCHANGED <<vars, idx>>
OSpec == OInit /\ [][ONext]_<<vars, idx>>

\* inside the reader / merge = parked at the harness yield point inside it
ObsReaderExclusive == Cardinality({t \in Threads : pc[t].k = "user" /\ pc[t].o = "read"}) <= 1
ObsMergeExclusive == Cardinality({t \in Threads : pc[t].k = "user" /\ pc[t].o \in {"merge", "mmerge"}}) <= 1
=============================================================================
