SPECIFICATION FFairSpec
CONSTANTS
  Configs <- FaultConfigs
  Faults <- FaultSet
  MaxW = 3
  FirstFrameFix = TRUE
  Emit = TRUE
VIEW FView
INVARIANTS FSafety OutcomeIsDetermined NoMergeFromFault EmitOutcome
PROPERTIES FaultTermination AbortIsFinal
CHECK_DEADLOCK TRUE
