SPECIFICATION Spec
CONSTANTS
  Configs <- GraphQuickConfigs
  MaxW = 8
  Emit = TRUE
  FirstFrameFix = TRUE
INVARIANTS ReaderExclusive MergeExclusive NoBadUnlock Selected
ACTION_CONSTRAINT EmitTransition
VIEW View
