SPECIFICATION Spec
CONSTANTS
  Configs <- ThoroughConfigs
  MaxW = 8
  Emit = FALSE
  FirstFrameFix = TRUE
INVARIANTS ReaderExclusive MergeExclusive NoBadUnlock ReadInFileOrder EachFrameOnce Selected NoExtraFrame OrderedMerge UnorderedMerge MergedAll
VIEW View
