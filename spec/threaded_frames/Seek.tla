-------------------------------- MODULE Seek --------------------------------
(* The frame-selection prologue of CsgApplication::Run: FirstFrame, then the loop
     for (bok = true; bok; bok = NextFrame) { if (first_frame > 1) { first_frame--; continue; } break; }
   and the --nframes budget.  Declarative meaning: the frames processed are
   first..min(total, first + budget - 1) with first = max(first_frame, 1); a file
   that ends before the first selected frame is an error.  One state per input.   *)
EXTENDS Integers, Sequences, TLC, Json
CONSTANTS MaxTotal, MaxFirst, Budgets, Emit
VARIABLES total, ff, b
Init == total \in 1..MaxTotal /\ ff \in 0..MaxFirst /\ b \in Budgets
Next == UNCHANGED <<total, ff, b>>
Spec == Init /\ [][Next]_<<total, ff, b>>
First == IF ff < 1 THEN 1 ELSE ff
Last == IF b < 0 THEN total ELSE IF First + b - 1 < total THEN First + b - 1 ELSE total
\* transcription of the loop: position after seeking, or 0 if the file ended
RECURSIVE Loop(_, _)
Loop(posn, left) == IF posn > total THEN 0 ELSE IF left > 1 THEN Loop(posn + 1, left - 1) ELSE posn
AlgoFirst == Loop(1, ff)
AlgoIsSpec == AlgoFirst = (IF First > total THEN 0 ELSE First)
Vector == Emit => PrintT(ToJson([total |-> total, ff |-> ff, b |-> b, err |-> First > total,
                                  lo |-> First, hi |-> Last]))
=============================================================================
