-------------------------------- MODULE Seek --------------------------------
(* The frame-selection prologue of CsgApplication::Run: FirstFrame, then the loop
     for (bok = true; bok; bok = NextFrame) { if ((has_begin && time < begin) || first_frame > 1) { first_frame--; continue; } break; }
   and the --nframes budget.  Declarative meaning: the frames processed are
   first..min(total, first + budget - 1) with first = max(first_frame, 1); a file
   that ends before the first selected frame is an error.  One state per input.   *)
EXTENDS Integers, Sequences, TLC, Json
CONSTANTS MaxTotal, MaxFirst, Budgets, Begins, Emit
VARIABLES total, ff, b, bg      \* bg: --begin (frame i carries time i in the harness' trajectory)
Init == total \in 1..MaxTotal /\ ff \in 0..MaxFirst /\ b \in Budgets /\ bg \in Begins
Next == UNCHANGED <<total, ff, b, bg>>
Spec == Init /\ [][Next]_<<total, ff, b, bg>>
\* declarative: the first frame that is neither before --begin nor before --first-frame
FirstByIndex == IF ff < 1 THEN 1 ELSE ff
FirstByTime == IF bg < 1 THEN 1 ELSE bg
First == IF FirstByIndex > FirstByTime THEN FirstByIndex ELSE FirstByTime
Last == IF b < 0 THEN total ELSE IF First + b - 1 < total THEN First + b - 1 ELSE total
\* transcription of the loop: position after seeking, or 0 if the file ended
RECURSIVE Loop(_, _)
Loop(posn, left) == IF posn > total THEN 0 ELSE IF posn < bg \/ left > 1 THEN Loop(posn + 1, left - 1) ELSE posn
AlgoFirst == Loop(1, ff)
AlgoIsSpec == AlgoFirst = (IF First > total THEN 0 ELSE First)
Vector == Emit => PrintT(ToJson([total |-> total, ff |-> ff, b |-> b, bg |-> bg, err |-> First > total,
                                  lo |-> First, hi |-> Last]))
=============================================================================
