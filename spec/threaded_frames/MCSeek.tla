---- MODULE MCSeek ----
EXTENDS Seek
MCBudgets == {-1, 0, 1, 2, 3, 7}
====
