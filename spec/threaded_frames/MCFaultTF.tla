---- MODULE MCFaultTF ----
EXTENDS FaultTF
FCfg(nw, k, b, ord) == [nw |-> nw, k |-> k, b |-> b, ord |-> ord]
\* ordered and unordered, 1..3 workers, the fault on the first / a middle / the last frame, inside and outside the budget
FaultConfigs == {FCfg(nw, k, b, o) : nw \in 1..3, k \in {3, 4}, b \in {-1, 2}, o \in BOOLEAN}
FaultSet == {[f |-> f, at |-> a] : f \in 1..4, a \in {"read", "eval"}}
====
