-------------------------- MODULE ThreadedFrames --------------------------
(* The frame dispatcher of every threaded csg tool:
   CsgApplication::Run (threaded part), Worker::Run, CsgApplication::ProcessData
   (csg/src/libcsg/csgapplication.cc).

   Grain: one action = one yield point of the real code (a tools::Mutex Lock/Unlock,
   a tools::Thread start/begin/end/join, or one of three harness yield points inside
   the trajectory reader, the worker's EvalConfiguration and MergeWorker) together
   with the straight-line code that follows it up to the next yield point.  pc[t]
   is the *pending* operation of thread t, exactly what the controlled scheduler of
   the conformance harness knows about the real thread, so the projection of the
   real state onto the spec state is the identity on (pc, mutexes, counters, logs).

   Threads: 0 is the main thread, w+1 is worker w (0..NW-1).
   Mutexes are used by the code as binary semaphores (locked by main, unlocked by a
   neighbour), so they are modelled as booleans without owner; unlocking an
   unlocked one sets badUnlock.

   Frames are numbered relative to the selection: frame 1 is the first selected
   frame, which the seek loop has already read into worker 0's topology; K frames
   are available from there to the end of the file.                               *)
EXTENDS Integers, Sequences, FiniteSets, TLC, Json

CONSTANTS Configs,       \* set of [nw, k, b, ord]: workers (--nt), frames available from the first
                         \* selected one (>= 1), --nframes budget (-1 = unlimited), SynchronizeThreads()
          MaxW,          \* upper bound of nw over Configs (for the fairness condition only)
          FirstFrameFix  \* TRUE: budget of the pre-read frame is reserved in Run (repaired code)

VARIABLE c               \* the configuration of this behaviour, chosen in Init, never changed
NW == c.nw
K == c.k
Budget == c.b
Ordered == c.ord

Workers == 0..(NW - 1)
Threads == 0..NW
Nxt(w) == (w + 1) % NW

Op(k, o, i) == [k |-> k, o |-> o, i |-> i]
Done == Op("done", "", 0)

\* ---- the main thread's straight-line program --------------------------------
RECURSIVE LockAll(_, _)
LockAll(cf, w) == IF w = cf.nw THEN <<>> ELSE <<Op("lock", "in", w), Op("lock", "out", w)>> \o LockAll(cf, w + 1)
RECURSIVE StartAll(_, _)
StartAll(cf, w) == IF w = cf.nw THEN <<>> ELSE <<Op("start", "w", w)>> \o StartAll(cf, w + 1)
RECURSIVE JoinAll(_, _)
JoinAll(cf, w) == IF w = cf.nw THEN <<>>
              ELSE (IF cf.ord THEN <<Op("join", "w", w)>>
                    ELSE <<Op("join", "w", w), Op("lock", "mm", 0), Op("user", "mmerge", w), Op("unlock", "mm", 0)>>)
                   \o JoinAll(cf, w + 1)
MainProgOf(cf) == (IF cf.ord THEN LockAll(cf, 0) ELSE <<>>) \o StartAll(cf, 0)
            \o (IF cf.ord THEN <<Op("unlock", "in", 0), Op("unlock", "out", 0)>> ELSE <<>>)
            \o JoinAll(cf, 0)

VARIABLES pc,        \* pending operation per thread
          mi,        \* main's position in MainProg
          sem,       \* [<<name, index>> -> BOOLEAN] locked?
          nframes, first, pos,
          frameOf,   \* frame currently in worker w's topology
          outcome,   \* per worker: "go" / "stop" decided inside the reader section
          readSeq,   \* frames returned by NextFrame, in order
          evalLog,   \* sequence of <<worker, frame>>
          mergeLog,  \* ordered mode: frames in merge order; unordered: workers merged by main
          badUnlock,
          sched      \* ghost: acting thread per step (hidden from the state space by VIEW View)

vars == <<sched, c, pc, mi, sem, nframes, first, pos, frameOf, outcome, readSeq, evalLog, mergeLog, badUnlock>>

MainProg == MainProgOf(c)
SemNamesOf(cf) == ({"in", "out"} \X (0..(cf.nw - 1))) \cup {<<"rdr", 0>>, <<"mm", 0>>}
SemNames == SemNamesOf(c)

\* initial values as a function of the configuration (also used by the trace spec to restart)
InitVals(cf) ==
  [pc |-> [t \in 0..cf.nw |-> IF t = 0 THEN MainProgOf(cf)[1] ELSE Op("unborn", "", 0)],
   sem |-> [s \in SemNamesOf(cf) |-> FALSE],
   nframes |-> IF FirstFrameFix /\ cf.b # 0 THEN cf.b - 1 ELSE cf.b,
   first |-> IF FirstFrameFix /\ cf.b = 0 THEN FALSE ELSE TRUE,
   frameOf |-> [w \in 0..(cf.nw - 1) |-> IF w = 0 THEN 1 ELSE 0],
   outcome |-> [w \in 0..(cf.nw - 1) |-> "go"]]

Init ==
  /\ c \in Configs
  /\ mi = 1
  /\ pc = InitVals(c).pc
  /\ sem = InitVals(c).sem
  /\ nframes = InitVals(c).nframes
  /\ first = InitVals(c).first
  /\ pos = 1
  /\ frameOf = InitVals(c).frameOf
  /\ outcome = InitVals(c).outcome
  /\ readSeq = <<>> /\ evalLog = <<>> /\ mergeLog = <<>>
  /\ badUnlock = FALSE
  /\ sched = <<>>

\* ---- enabledness of a pending operation ----------------------------------------
Enabled(t) ==
  LET p == pc[t] IN
  CASE p.k = "lock" -> ~sem[<<p.o, p.i>>]
    [] p.k = "join" -> pc[p.i + 1].k = "done"
    [] p.k = "done" -> FALSE
    [] p.k = "unborn" -> FALSE
    [] OTHER -> TRUE

\* ---- main ---------------------------------------------------------------------------
MainStep ==
  LET p == pc[0]
      np == IF mi = Len(MainProg) THEN Done ELSE MainProg[mi + 1] IN
  /\ Enabled(0)
  /\ sched' = Append(sched, 0)
  /\ mi' = mi + 1
  /\ sem' = CASE p.k = "lock" -> [sem EXCEPT ![<<p.o, p.i>>] = TRUE]
              [] p.k = "unlock" -> [sem EXCEPT ![<<p.o, p.i>>] = FALSE]
              [] OTHER -> sem
  /\ badUnlock' = (badUnlock \/ (p.k = "unlock" /\ ~sem[<<p.o, p.i>>]))
  /\ pc' = [pc EXCEPT ![0] = np,
                      ![IF p.k = "start" THEN p.i + 1 ELSE 0] =
                          IF p.k = "start" THEN Op("begin", "", 0) ELSE np]
  /\ mergeLog' = IF p.k = "user" THEN Append(mergeLog, p.i) ELSE mergeLog
  /\ UNCHANGED <<c, nframes, first, pos, frameOf, outcome, readSeq, evalLog>>

\* ---- worker w -------------------------------------------------------------------------
\* what the code does between "reader mutex acquired" and its next yield point
AfterLockRdr(w) ==
  LET reuse == first /\ w = 0 IN
  IF FirstFrameFix
  THEN IF reuse
       THEN /\ first' = FALSE /\ outcome' = [outcome EXCEPT ![w] = "go"]
            /\ pc' = [pc EXCEPT ![w + 1] = Op("unlock", "rdr", 0)]
            /\ UNCHANGED nframes
       ELSE IF nframes = 0
            THEN /\ outcome' = [outcome EXCEPT ![w] = "stop"]
                 /\ pc' = [pc EXCEPT ![w + 1] = Op("unlock", "rdr", 0)]
                 /\ UNCHANGED <<nframes, first>>
            ELSE /\ nframes' = nframes - 1
                 /\ pc' = [pc EXCEPT ![w + 1] = Op("user", "read", 0)]
                 /\ UNCHANGED <<first, outcome>>
  ELSE IF nframes = 0
       THEN /\ outcome' = [outcome EXCEPT ![w] = "stop"]
            /\ pc' = [pc EXCEPT ![w + 1] = Op("unlock", "rdr", 0)]
            /\ UNCHANGED <<nframes, first>>
       ELSE /\ nframes' = nframes - 1
            /\ IF ~reuse
               THEN /\ pc' = [pc EXCEPT ![w + 1] = Op("user", "read", 0)]
                    /\ UNCHANGED <<first, outcome>>
               ELSE /\ first' = FALSE /\ outcome' = [outcome EXCEPT ![w] = "go"]
                    /\ pc' = [pc EXCEPT ![w + 1] = Op("unlock", "rdr", 0)]

AfterSection(w) ==   \* reader section left, ring passed on: evaluate or leave
  IF outcome[w] = "go" THEN Op("user", "eval", 0) ELSE Op("end", "", 0)

WorkerStep(w) ==
  LET t == w + 1
      p == pc[t] IN
  /\ Enabled(t)
  /\ sched' = Append(sched, t)
  /\ UNCHANGED <<c, mi>>
  /\ CASE p.k = "begin" ->
            /\ pc' = [pc EXCEPT ![t] = IF Ordered THEN Op("lock", "in", w) ELSE Op("lock", "rdr", 0)]
            /\ UNCHANGED <<sem, nframes, first, pos, frameOf, outcome, readSeq, evalLog, mergeLog, badUnlock>>
       [] p.k = "lock" /\ p.o = "in" ->
            /\ sem' = [sem EXCEPT ![<<"in", w>>] = TRUE]
            /\ pc' = [pc EXCEPT ![t] = Op("lock", "rdr", 0)]
            /\ UNCHANGED <<nframes, first, pos, frameOf, outcome, readSeq, evalLog, mergeLog, badUnlock>>
       [] p.k = "lock" /\ p.o = "rdr" ->
            /\ sem' = [sem EXCEPT ![<<"rdr", 0>>] = TRUE]
            /\ AfterLockRdr(w)
            /\ UNCHANGED <<pos, frameOf, readSeq, evalLog, mergeLog, badUnlock>>
       [] p.k = "user" /\ p.o = "read" ->      \* inside TrajectoryReader::NextFrame
            /\ pos' = pos + 1
            /\ IF pos + 1 <= K
               THEN /\ frameOf' = [frameOf EXCEPT ![w] = pos + 1]
                    /\ readSeq' = Append(readSeq, pos + 1)
                    /\ outcome' = [outcome EXCEPT ![w] = "go"]
                    /\ first' = IF w = 0 THEN FALSE ELSE first
               ELSE /\ outcome' = [outcome EXCEPT ![w] = "stop"]
                    /\ UNCHANGED <<frameOf, readSeq, first>>
            /\ pc' = [pc EXCEPT ![t] = Op("unlock", "rdr", 0)]
            /\ UNCHANGED <<sem, nframes, evalLog, mergeLog, badUnlock>>
       [] p.k = "unlock" /\ p.o = "rdr" ->
            /\ sem' = [sem EXCEPT ![<<"rdr", 0>>] = FALSE]
            /\ badUnlock' = (badUnlock \/ ~sem[<<"rdr", 0>>])
            /\ pc' = [pc EXCEPT ![t] = IF Ordered THEN Op("unlock", "in", Nxt(w)) ELSE AfterSection(w)]
            /\ UNCHANGED <<nframes, first, pos, frameOf, outcome, readSeq, evalLog, mergeLog>>
       [] p.k = "unlock" /\ p.o = "in" ->
            /\ sem' = [sem EXCEPT ![<<"in", p.i>>] = FALSE]
            /\ badUnlock' = (badUnlock \/ ~sem[<<"in", p.i>>])
            /\ pc' = [pc EXCEPT ![t] = AfterSection(w)]
            /\ UNCHANGED <<nframes, first, pos, frameOf, outcome, readSeq, evalLog, mergeLog>>
       [] p.k = "user" /\ p.o = "eval" ->
            /\ evalLog' = Append(evalLog, <<w, frameOf[w]>>)
            /\ pc' = [pc EXCEPT ![t] = IF Ordered THEN Op("lock", "out", w) ELSE Op("lock", "rdr", 0)]
            /\ UNCHANGED <<sem, nframes, first, pos, frameOf, outcome, readSeq, mergeLog, badUnlock>>
       [] p.k = "lock" /\ p.o = "out" ->
            /\ sem' = [sem EXCEPT ![<<"out", w>>] = TRUE]
            /\ pc' = [pc EXCEPT ![t] = Op("user", "merge", 0)]
            /\ UNCHANGED <<nframes, first, pos, frameOf, outcome, readSeq, evalLog, mergeLog, badUnlock>>
       [] p.k = "user" /\ p.o = "merge" ->
            /\ mergeLog' = Append(mergeLog, frameOf[w])
            /\ pc' = [pc EXCEPT ![t] = Op("unlock", "out", Nxt(w))]
            /\ UNCHANGED <<sem, nframes, first, pos, frameOf, outcome, readSeq, evalLog, badUnlock>>
       [] p.k = "unlock" /\ p.o = "out" ->
            /\ sem' = [sem EXCEPT ![<<"out", p.i>>] = FALSE]
            /\ badUnlock' = (badUnlock \/ ~sem[<<"out", p.i>>])
            /\ pc' = [pc EXCEPT ![t] = Op("lock", "in", w)]
            /\ UNCHANGED <<nframes, first, pos, frameOf, outcome, readSeq, evalLog, mergeLog>>
       [] p.k = "end" ->
            /\ pc' = [pc EXCEPT ![t] = Done]
            /\ UNCHANGED <<sem, nframes, first, pos, frameOf, outcome, readSeq, evalLog, mergeLog, badUnlock>>

View == <<c, pc, mi, sem, nframes, first, pos, frameOf, outcome, readSeq, evalLog, mergeLog, badUnlock>>
AllDone == \A t \in Threads : pc[t].k = "done"
Next == MainStep \/ (\E w \in Workers : WorkerStep(w)) \/ (AllDone /\ UNCHANGED vars)
Spec == Init /\ [][Next]_vars
SimSpec == Init /\ [][MainStep \/ (\E w \in Workers : WorkerStep(w))]_vars   \* no final stuttering (simulation)
FairSpec == Spec /\ WF_vars(MainStep) /\ \A w \in 0..(MaxW - 1) : WF_vars(w \in Workers /\ WorkerStep(w))

\* ---- properties ------------------------------------------------------------------------------
InReader(w) == pc[w + 1] \in {Op("user", "read", 0), Op("unlock", "rdr", 0)}
InMerge(t) == pc[t].k = "user" /\ pc[t].o \in {"merge", "mmerge"}
ReaderExclusive == Cardinality({w \in Workers : InReader(w)}) <= 1
MergeExclusive == Cardinality({t \in Threads : InMerge(t)}) <= 1
NoBadUnlock == ~badUnlock
\* frames are read from the file in order, no gaps, no duplicates
ReadInFileOrder == \A i \in 1..Len(readSeq) : readSeq[i] = i + 1
EvalFrames == {evalLog[i][2] : i \in 1..Len(evalLog)}
EachFrameOnce == \A i, j \in 1..Len(evalLog) : evalLog[i][2] = evalLog[j][2] => i = j
Wanted == IF Budget < 0 THEN K ELSE IF Budget < K THEN Budget ELSE K
\* at termination exactly the first min(K, Budget) selected frames were evaluated
Selected == AllDone => EvalFrames = 1..Wanted
\* never evaluate a frame outside the selection (also before termination)
NoExtraFrame == EvalFrames \subseteq 1..Wanted
\* ordered mode: results are merged in frame order
OrderedMerge == Ordered => \A i \in 1..Len(mergeLog) : mergeLog[i] = i
\* unordered mode: main merges every worker once, after joining it
UnorderedMerge == (~Ordered /\ AllDone) => mergeLog = [i \in 1..NW |-> i - 1]
MergedAll == (Ordered /\ AllDone) => Len(mergeLog) = Wanted
Termination == <>AllDone
\* ---- projection shared with the conformance harness (identity on what the scheduler observes) ----
SemKey(x) == x[1] \o ":" \o ToString(x[2])
Proj == [c |-> c,
         pc |-> [t \in 1..(NW + 1) |-> pc[t - 1]],
         sem |-> [key \in {SemKey(x) : x \in SemNames} |-> sem[CHOOSE x \in SemNames : SemKey(x) = key]],
         nframes |-> nframes, first |-> first, pos |-> pos,
         frameOf |-> [w \in 1..NW |-> frameOf[w - 1]],
         readSeq |-> readSeq, evalLog |-> evalLog, mergeLog |-> mergeLog, bad |-> badUnlock]
\* export for the conformance harness
CONSTANT Emit
EmitTransition == (Emit /\ ~AllDone) => PrintT(ToJson([from |-> Proj, to |-> Proj']))
EmitSchedule == (Emit /\ AllDone) => PrintT(ToJson([c |-> c, sched |-> sched, evalLog |-> evalLog,
                                                     mergeLog |-> mergeLog, readSeq |-> readSeq]))
\* the only state without an enabled thread is the final one (deadlock freedom is TLC's own check)
=============================================================================
