------------------------------ MODULE TraceTF ------------------------------
(* Trace validation: executions of the real CsgApplication dispatcher recorded by the
   baton scheduler (harness/drivers/threaded_frames.cc) must be behaviours of
   ThreadedFrames.  Every step record names the acting thread and carries the full
   projected state after the step, so the search is linear.  Several executions are
   concatenated; a "begin" record restarts the machine with that execution's
   configuration.  The highest trace position reached is kept in TLC register 1 and
   printed by the postcondition (run with -workers 1).                            *)
EXTENDS ThreadedFrames, Json, IOUtils

VARIABLE l
TrFile == ndJsonDeserialize(IOEnv.TRACE)
ASSUME TLCSet(2, TrFile)          \* parse the file once (a plain definition is re-evaluated on every use)
Tr == TLCGet(2)
CfgOf(r) == [nw |-> r.nw, k |-> r.k, b |-> r.b, ord |-> r.ord]
TraceConfigs == LET t == TrFile IN {CfgOf(t[i]) : i \in {j \in 1..Len(t) : t[j].e = "begin"}}

ASSUME TLCSet(1, 0)

SeqOfPairs(s) == [i \in 1..Len(s) |-> <<s[i][1], s[i][2]>>]
MatchesNext(s) ==      \* the logged state is the state after the step (variables primed explicitly)
  /\ \A t \in Threads : pc'[t] = [k |-> s.pc[t + 1].k, o |-> s.pc[t + 1].o, i |-> s.pc[t + 1].i]
  /\ \A x \in SemNames : sem'[x] = s.sem[SemKey(x)]
  /\ nframes' = s.nframes /\ first' = s.first /\ pos' = s.pos
  /\ \A w \in Workers : frameOf'[w] = s.frameOf[w + 1]
  /\ readSeq' = s.readSeq
  /\ Len(evalLog') = Len(s.evalLog)
  /\ \A i \in 1..Len(s.evalLog) : evalLog'[i][1] = s.evalLog[i][1] /\ evalLog'[i][2] = s.evalLog[i][2]
  /\ mergeLog' = s.mergeLog
  /\ badUnlock' = s.bad

TInit == /\ l = 2
         /\ Tr[1].e = "begin"
         /\ Init
         /\ c = CfgOf(Tr[1])

TStep == /\ l <= Len(Tr) /\ Tr[l].e = "step"
         /\ IF Tr[l].t = 0 THEN MainStep ELSE WorkerStep(Tr[l].t - 1)
         /\ MatchesNext(Tr[l].s)
         /\ l' = l + 1

TEnd == /\ l <= Len(Tr) /\ Tr[l].e = "end"
        /\ AllDone
        /\ UNCHANGED vars
        /\ l' = l + 1

TReset == /\ l <= Len(Tr) /\ Tr[l].e = "begin"
          /\ LET cf == CfgOf(Tr[l]) IN
               /\ c' = cf /\ mi' = 1
               /\ pc' = InitVals(cf).pc /\ sem' = InitVals(cf).sem
               /\ nframes' = InitVals(cf).nframes /\ first' = InitVals(cf).first
               /\ pos' = 1 /\ frameOf' = InitVals(cf).frameOf /\ outcome' = InitVals(cf).outcome
               /\ sched' = <<>>
               /\ readSeq' = <<>> /\ evalLog' = <<>> /\ mergeLog' = <<>> /\ badUnlock' = FALSE
          /\ l' = l + 1

TNext == TStep \/ TEnd \/ TReset
TSpec == TInit /\ [][TNext]_<<vars, l>>

Progress == TLCSet(1, IF l > TLCGet(1) THEN l ELSE TLCGet(1))
Report == PrintT(<<"maxl", TLCGet(1), Len(Tr)>>)
=============================================================================
