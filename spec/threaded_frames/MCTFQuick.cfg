SPECIFICATION FairSpec
CONSTANTS
  Configs <- QuickConfigs
  MaxW = 8
  Emit = FALSE
  FirstFrameFix = TRUE
INVARIANTS ReaderExclusive MergeExclusive NoBadUnlock ReadInFileOrder EachFrameOnce Selected NoExtraFrame OrderedMerge UnorderedMerge MergedAll
PROPERTY Termination
VIEW View
