SPECIFICATION TSpec
CONSTANTS
  Configs <- TraceConfigs
  MaxW = 8
  Emit = FALSE
  FirstFrameFix = TRUE
INVARIANTS ReaderExclusive MergeExclusive NoBadUnlock ReadInFileOrder EachFrameOnce Selected NoExtraFrame OrderedMerge UnorderedMerge MergedAll
CONSTRAINT Progress
POSTCONDITION Report
CHECK_DEADLOCK FALSE
