SPECIFICATION Spec
CONSTANTS
  MaxTotal = 5
  MaxFirst = 6
  Budgets <- MCBudgets
  Begins = {0, 1, 2, 4, 7}
  Emit = TRUE
INVARIANTS AlgoIsSpec Vector
CHECK_DEADLOCK FALSE
