SPECIFICATION Spec
CONSTANTS
  MaxTotal = 5
  MaxFirst = 6
  Budgets <- MCBudgets
  Emit = TRUE
INVARIANTS AlgoIsSpec Vector
CHECK_DEADLOCK FALSE
