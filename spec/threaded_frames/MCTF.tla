---- MODULE MCTF ----
EXTENDS ThreadedFrames
\* quick: ordered up to 4 workers / 5 frames, unordered up to 3 workers / 4 frames
Budgets(k) == {-1, 0, 1, 2, k, k + 1}
CfgOrdered(maxw, maxk) == {[nw |-> w, k |-> kk, b |-> bb, ord |-> TRUE] : w \in 1..maxw, kk \in 1..maxk, bb \in UNION {Budgets(x) : x \in 1..maxk}}
CfgUnordered(maxw, maxk) == {[nw |-> w, k |-> kk, b |-> bb, ord |-> FALSE] : w \in 1..maxw, kk \in 1..maxk, bb \in UNION {Budgets(x) : x \in 1..maxk}}
Norm(S) == {x \in S : x.b <= x.k + 1}
QuickConfigs == Norm(CfgOrdered(4, 5)) \cup Norm(CfgUnordered(3, 3))
ThoroughConfigs == Norm(CfgOrdered(6, 6)) \cup Norm(CfgUnordered(3, 4))
BugConfigs == {[nw |-> 2, k |-> 3, b |-> 1, ord |-> FALSE]}
SmallConfigs == Norm(CfgOrdered(2, 3)) \cup Norm(CfgUnordered(2, 3))
GraphQuickConfigs == {x \in Norm(CfgOrdered(3, 3)) \cup Norm(CfgUnordered(2, 2)) : x.b \in {-1, 1, 2}}
GraphThoroughConfigs == Norm(CfgOrdered(4, 4)) \cup Norm(CfgUnordered(3, 3))
SimConfigs == Norm(CfgOrdered(8, 8)) \cup Norm(CfgUnordered(6, 6))
====
