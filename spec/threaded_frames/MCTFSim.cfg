SPECIFICATION SimSpec
CONSTANTS
  Configs <- SimConfigs
  MaxW = 8
  Emit = TRUE
  FirstFrameFix = TRUE
INVARIANTS ReaderExclusive MergeExclusive NoBadUnlock ReadInFileOrder EachFrameOnce Selected NoExtraFrame OrderedMerge UnorderedMerge MergedAll EmitSchedule
CHECK_DEADLOCK FALSE
