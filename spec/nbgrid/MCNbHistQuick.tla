---- MODULE MCNbHistQuick ----
(* frames: 4x4x4 cells at rc2 = 9 and 2x2x2 at rc2 = 36 / 2x2x2 cells / triclinic; the same 4 beads
   at other places, so that cell counts and the box type change between the calls *)
EXTENDS NbHist
MCFrames == << [B |-> MkBox(12, 0, 13, 0, 0, 14), pos |-> << <<0, 0, 0>>, <<2, 0, 0>>, <<-2, -1, 1>>, <<11, 1, 1>> >>],
               [B |-> MkBox(6, 0, 7, 0, 0, 8), pos |-> << <<5, 6, 7>>, <<0, 0, 0>>, <<1, 1, -1>>, <<3, 3, 4>> >>],
               [B |-> MkBox(12, 6, 10, -6, 5, 13), pos |-> << <<1, 1, 1>>, <<-1, 0, 2>>, <<13, 1, 1>>, <<2, 3, 1>> >>] >>
MCTop == [typ |-> <<1, 2, 2, 3>>, mol |-> <<1, 1, 1, 1>>, ias |-> << <<1, 2>> >>]
MCPRuns == {Run("p", <<0>>, FALSE), Run("p", <<1, 2>>, TRUE)}
MCTRuns == {Run("t", <<0>>, FALSE), Run("t", <<1, 2>>, TRUE)}
====
