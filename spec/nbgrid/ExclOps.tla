------------------------------- MODULE ExclOps -------------------------------
(* Pure operators about exclusions, shared by ExclusionList.tla (history spec) and
   NbGrid.tla (the neighbour searches consult IsExcluded).
   Beads are 1..n; `mol` is a sequence bead -> molecule id; an interaction is a
   sequence of 2..4 bead ids (bond, angle, dihedral); `ias` a sequence of them.      *)
EXTENDS Integers, Sequences, FiniteSets

SeqRange(s) == {s[k] : k \in 1..Len(s)}

\* the property statement: a pair is excluded iff it is an intramolecular pair of two
\* different beads that share an interaction
ShareInteraction(ias, i, j) == \E q \in 1..Len(ias) : {i, j} \subseteq SeqRange(ias[q])
SpecExcluded(mol, ias, i, j) == i # j /\ mol[i] = mol[j] /\ ShareInteraction(ias, i, j)

\* the same as a set of unordered pairs
ExclRel(mol, ias) ==
  {p \in {{i, j} : i, j \in 1..Len(mol)} : \E i, j \in p : i # j /\ SpecExcluded(mol, ias, i, j)}

\* every unordered pair of different members of a bead list (ExcludeList / Remove(list))
PairsOfList(l) == {{l[a], l[b]} : a, b \in 1..Len(l)} \ {{l[a]} : a \in 1..Len(l)}
=============================================================================
