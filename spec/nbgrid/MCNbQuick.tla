---- MODULE MCNbQuick ----
(* quick tier: rc = 3 lattice units (rc2 = 9).  Box edges per direction chosen so that the cell
   counts 1,2,3,4 occur in every combination, with exact quotients (6 = 2 rc, 9 = 3 rc, 12 = 4 rc)
   and inexact ones mixed.  Edge 4/5 gives one cell: beyond the statement's domain (rc > L/2). *)
EXTENDS NbGridMC, IOUtils

LA == {5, 6, 10, 12}
LB == {4, 7, 9, 13}
LC == {5, 8, 11, 14}
LL == LA \X LB \X LC
Rc2 == 9

\* sweeps along one axis: that axis takes all four edge lengths, the two passive axes run through a
\* Latin square of their cell counts (all 64 combinations are covered by the corner family)
Latin == {<<1, 3>>, <<2, 4>>, <<3, 2>>, <<4, 1>>}
Pick(S, k) == CHOOSE x \in S : Cardinality({y \in S : y < x}) = k - 1       \* k-th smallest
LLSweep == UNION {{<<Pick(LA, i), Pick(LB, p[1]), Pick(LC, p[2])>>, <<Pick(LA, p[2]), Pick(LB, i), Pick(LC, p[1])>>,
                   <<Pick(LA, p[1]), Pick(LB, p[2]), Pick(LC, i)>>} : i \in 1..4, p \in Latin}
Sweep == SweepInit(LLSweep, Rc2, LAMBDA L : {-L - 1, 2 * L + 1},
                    LAMBDA L : {-3, -2, -1, 1, 2, 3, L - 1, L + 1, 1 - L, -L - 1},
                    {<<-1, 1>>}, {<<0, 0>>, <<1, 2>>})
Diag == {d \in {-1, 0, 1} \X {-1, 0, 1} \X {-1, 0, 1} : Cardinality({q \in 1..3 : d[q] # 0}) >= 2}
Corners == CornerInit(LL, Rc2, LAMBDA bx : {-1, 0} \X {-1, 0} \X {-1, 0}, Diag)

TricBR == { [B |-> MkBox(12, 6, 10, -6, 5, 13), rc2 |-> 9],
            [B |-> MkBox(12, 6, 10, -6, 5, 13), rc2 |-> 4],
            [B |-> MkBox(8, 2, 7, 3, -3, 9), rc2 |-> 8],
            [B |-> MkBox(13, -4, 12, 5, 4, 6), rc2 |-> 5],
            [B |-> MkBox(16, 8, 14, 8, 7, 15), rc2 |-> 10] }
Cube(m) == (-m..m) \X (-m..m) \X (-m..m)
TricP1(B) == { <<-1, -1, -1>>, <<0, 0, 0>>, <<1, 2, 1>>, <<B.a[1] - 1, B.b[2] - 1, B.c[3] - 1>>,
               Add(B.a, Add(B.b, B.c)), <<B.a[1] \div 2, B.b[2] \div 2, B.c[3] \div 2>> }
TricD(B) == (Cube(2) \ {<<0, 0, 0>>})
            \cup {Add(d, v) : d \in {<<1, 0, 1>>, <<0, -1, -1>>, <<-2, 1, 0>>},
                              v \in {B.a, B.b, B.c, Sub(<<0, 0, 0>>, Add(B.a, Add(B.b, B.c))), Sub(B.b, B.c)}}
Tric == TricInit(TricBR, TricP1, TricD)

MultiBR == {             [B |-> MkBox(12, 0, 9, 0, 0, 7), rc2 |-> 9],      \* 4 3 2
             [B |-> MkBox(10, 0, 13, 0, 0, 11), rc2 |-> 10],   \* 3 4 3
             [B |-> MkBox(12, 6, 10, -6, 5, 13), rc2 |-> 9] }  \* triclinic
Cluster(B) == { <<0, 0, 0>>, <<2, 0, 0>>, <<-2, -1, 1>>, <<0, 3, 0>>, <<B.a[1] - 1, 1, 1>> }
Tops == { [typ |-> <<1, 2, 2, 3>>, mol |-> <<1, 1, 1, 1>>, ias |-> << <<1, 2>>, <<2, 3, 4>> >>],
          [typ |-> <<1, 1, 2, 3>>, mol |-> <<1, 1, 2, 2>>, ias |-> << <<1, 2>>, <<2, 3>>, <<3, 4>> >>],
          [typ |-> <<2, 1, 3, 2>>, mol |-> <<1, 1, 1, 2>>, ias |-> << <<3, 1>>, <<1, 4>> >>],
          [typ |-> <<1, 1, 1, 1>>, mol |-> <<1, 2, 3, 4>>, ias |-> <<>>],
          [typ |-> <<1, 2, 1, 2>>, mol |-> <<1, 1, 1, 1>>, ias |-> << <<1, 2, 3, 4>> >>] }
Cluster4(B) == { <<0, 0, 0>>, <<2, 0, 0>>, <<-2, -1, 1>>, <<B.a[1] - 1, 1, 1>> }
MultiBR4 == { [B |-> MkBox(12, 0, 9, 0, 0, 7), rc2 |-> 9], [B |-> MkBox(12, 6, 10, -6, 5, 13), rc2 |-> 9] }
Multi == MultiInit(MultiBR, Cluster, Tops, 3) \/ MultiInit(MultiBR4, Cluster4, {t \in Tops : t.ias # <<>> /\ Cardinality(SeqRange(t.typ)) = 3}, 4)
Tiny == TinyInit(MultiBR, Cluster)

\* the family is selected by the environment variable FAMILY (one TLC run per family)
Family == IF "FAMILY" \in DOMAIN IOEnv THEN IOEnv.FAMILY ELSE "all"
MCFamilies == CASE Family = "sweep" -> Sweep [] Family = "corners" -> Corners [] Family = "tric" -> Tric
                [] Family = "multi" -> Multi [] Family = "tiny" -> Tiny
                [] OTHER -> Sweep \/ Corners \/ Tric \/ Multi \/ Tiny
Init == ph = 0 /\ MCFamilies
====
