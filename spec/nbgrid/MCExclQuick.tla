---- MODULE MCExclQuick ----
EXTENDS ExclusionList
\* 3 beads.  beads 1,2,3 in one molecule with a bond 1-2 and an angle 3-1-2 / beads 1,2 in one
\* molecule and 3 in another with a bond 2-3 across molecules and a bond 2-1
MCInits == { [mol |-> <<1, 1, 1>>, ias |-> << <<1, 2>> >>],
             [mol |-> <<1, 1, 2>>, ias |-> << <<2, 3>>, <<2, 1>> >>] }
MCPairs == { <<1, 2>>, <<2, 1>>, <<2, 3>> }
MCLists == { <<3, 1, 2>> }
====
