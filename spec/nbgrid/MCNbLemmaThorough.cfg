INIT Init
NEXT Next
CONSTANTS
  Boxes <- MCBoxes
  R = 7
INVARIANTS Lemmas
CHECK_DEADLOCK FALSE
