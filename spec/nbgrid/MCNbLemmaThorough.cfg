INIT Init
NEXT Next
CONSTANTS
  Boxes <- MCBoxes
  R = 8
INVARIANTS Lemmas
CHECK_DEADLOCK FALSE
