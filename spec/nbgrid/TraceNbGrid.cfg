INIT Init
NEXT Next
INVARIANTS Validate
CHECK_DEADLOCK FALSE
