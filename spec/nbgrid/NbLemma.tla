------------------------------- MODULE NbLemma -------------------------------
(* Lemmas about the oracle of NbGrid (the image range is part of the spec, DESIGN C02/C03), checked
   by TLC for every displacement r of a cube and every box of a set:
     NestedIsFlat   the pruned enumeration WithinNested equals the plain cube filter WithinFlat
     RangeEnough    enlarging the image cube beyond MFor(r, B) finds no further image below the
                    largest admissible cutoff (rc = shortest height) - the +2 margin is enough
     MinStable      the same for the minimum-image distance itself
     AlgoIsMin      the code's sequential reduction (transcribed AlgoMI) returns a shortest image:
                    always for orthorhombic boxes, and for reduced triclinic boxes whenever the
                    true distance is below half the shortest height (the statement's domain)   *)
EXTENDS NbGrid

CONSTANTS Boxes, R
VARIABLES B, r, ph

Init == B \in Boxes /\ r \in (-R..R) \X (-R..R) \X (-R..R) /\ ph = 0
Next == ph = 0 /\ ph' = 1 /\ UNCHANGED <<B, r>>

NN == {N2(Normals(B).a), N2(Normals(B).b), N2(Normals(B).c)}
MaxRc2 == (Vol(B) * Vol(B)) \div (CHOOSE x \in NN : \A y \in NN : y <= x)       \* floor(h_min^2)
MinD2(M) == MinOf({N2(v) : v \in WithinNested(r, B, M, N2(r) + 1)})             \* r itself (k = 0) is in the set

Lemmas ==
  ph = 1 =>
  LET M == MFor(r, B)
      d2 == MinD2(M + 1) IN
  /\ Reduced(B)
  /\ \A b2 \in {MaxRc2, 6} : WithinNested(r, B, 3, b2) = WithinFlat(r, B, 3, b2)      \* NestedIsFlat
  /\ WithinNested(r, B, M, MaxRc2 + 1) = WithinNested(r, B, M + 3, MaxRc2 + 1)                    \* RangeEnough
  /\ d2 = MinD2(M + 4)                                                                            \* MinStable
  /\ (IsOrtho(B) \/ 4 * d2 * (CHOOSE x \in NN : \A y \in NN : y <= x) < Vol(B) * Vol(B))
        => N2(AlgoMI(r, B)) = d2                                                                  \* AlgoIsMin
=============================================================================
