INIT HInit
NEXT HNext
CONSTANTS
  Emit = TRUE
  Frames <- MCFrames
  Cuts = {9, 36}
  PRuns <- MCPRuns
  TRuns <- MCTRuns
  Top <- MCTop
  Depth = 3
  MaxGens = 2
INVARIANTS AlgoFreshIsSpec StoredIsUnion HLeaf
CHECK_DEADLOCK FALSE
