INIT Init
NEXT Next
CONSTANTS
  Emit = TRUE
INVARIANTS Check
CHECK_DEADLOCK FALSE
