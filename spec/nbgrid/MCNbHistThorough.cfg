INIT HInit
NEXT HNext
CONSTANTS
  Emit = TRUE
  Frames <- MCFrames
  Cuts = {9, 25, 36}
  PRuns <- MCPRuns
  TRuns <- MCTRuns
  Top <- MCTop
  Depth = 3
  MaxGens = 3
INVARIANTS AlgoFreshIsSpec StoredIsUnion HLeaf
CHECK_DEADLOCK FALSE
