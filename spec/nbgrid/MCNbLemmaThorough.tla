---- MODULE MCNbLemmaThorough ----
EXTENDS NbLemma
MCBoxes == { MkBox(5, 0, 6, 0, 0, 7), MkBox(4, 0, 9, 0, 0, 5), MkBox(6, 3, 6, -3, 3, 7), MkBox(7, -2, 5, 3, 2, 6),
             MkBox(8, 4, 6, -4, -3, 5), MkBox(9, -4, 8, 4, -4, 6), MkBox(6, 1, 7, 2, 3, 9), MkBox(10, 5, 4, -5, 2, 4),
             MkBox(5, 2, 5, -2, -2, 5), MkBox(7, 3, 9, 0, 4, 8) }
====
