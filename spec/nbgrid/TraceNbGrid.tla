---------------------------- MODULE TraceNbGrid ----------------------------
(* Trace validation (the direction real code -> TLC): a seeded random driver run produced, for
   every configuration, the observations of all list variants; TLC evaluates the Spec operators
   of NbGrid on each logged configuration and accepts or rejects each observation.
   A rejection is printed as a JSON record (the runner turns it into a violation); the invariant
   itself only fails if a logged configuration is outside the model (runner error).
   Record: [id, box, rc2, pos, typ, mol, ias, obs], obs = sequence of
     [k |-> "p", g |-> 1/0 (grid/simple), s |-> selectors, x |-> excl, calls, stored : <<f, s, rx, ry, rz, d2>>*]
     [k |-> "t", ..., stored : <<i, j, k>>*]                                               *)
EXTENDS NbGrid, Json, IOUtils

VARIABLES i, ph
Log == ndJsonDeserialize(IOEnv.TRACE)

Init == i \in 1..Len(Log) /\ ph = 0
Next == ph = 0 /\ ph' = 1 /\ UNCHANGED i

ConfOf(t) == [B |-> MkBox(t.box[1], t.box[2], t.box[3], t.box[4], t.box[5], t.box[6]), rc2 |-> t.rc2,
              pos |-> t.pos, typ |-> t.typ, mol |-> t.mol, ias |-> t.ias]

PairsOnce(rows, spec) ==
  Len(rows) = Cardinality(spec) /\ {{rows[q][1], rows[q][2]} : q \in 1..Len(rows)} = spec
RowVecOK(W, row) ==
  LET v == <<row[3], row[4], row[5]>> IN
  /\ row[1] # row[2]
  /\ v \in Shortest(W[row[1]][row[2]])       \* a shortest image of pos[second] - pos[first], below the cutoff
  /\ row[6] = N2(v)
TriplesOnce(rows, spec) ==
  Len(rows) = Cardinality(spec) /\ {<<rows[q][1], {rows[q][2], rows[q][3]}>> : q \in 1..Len(rows)} = spec

\* the reasons for rejecting one observation
Why(cc, W, X, e) ==
  LET L == [q \in 1..Len(e.s) |-> ListOf(cc, e.s[q])]
      L1 == L[1]
      L2 == IF Len(L) = 1 THEN L[1] ELSE L[2]
      L3 == IF Len(L) = 1 THEN L[1] ELSE IF Len(L) = 2 THEN L[2] ELSE L[3]
  IN IF e.k = "p"
     THEN LET spec == SpecPairs(W, X, e.x, L1, L2) IN
          (IF PairsOnce(e.calls, spec) THEN {} ELSE {"callback-multiset"}) \cup
          (IF PairsOnce(e.stored, spec) THEN {} ELSE {"stored-multiset"}) \cup
          (IF \A q \in 1..Len(e.calls) : {e.calls[q][1], e.calls[q][2]} \in spec => RowVecOK(W, e.calls[q])
           THEN {} ELSE {"callback-vector"}) \cup
          (IF \A q \in 1..Len(e.stored) : {e.stored[q][1], e.stored[q][2]} \in spec => RowVecOK(W, e.stored[q])
           THEN {} ELSE {"stored-vector"})
     ELSE IF TriplesOnce(e.stored, SpecTriples(W, X, e.x, L1, L2, L3)) THEN {} ELSE {"stored-triples"}

Validate ==
  ph = 1 =>
  LET t == Log[i]
      cc == ConfOf(t)
      W == SpecData(cc)
      X == TLCEval(ExclRel(cc.mol, cc.ias))
  IN /\ ValidConf(cc) /\ InDomain(cc.B, cc.rc2)
     /\ \A q \in 1..Len(t.obs) :
          LET why == Why(cc, W, X, t.obs[q]) IN
          why # {} => \A w \in why : PrintT(ToJson([reject |-> t.id, why |-> w,
                                                    run |-> [k |-> t.obs[q].k, g |-> t.obs[q].g, s |-> t.obs[q].s, x |-> t.obs[q].x]]))
=============================================================================
