---- MODULE MCExclThorough ----
EXTENDS ExclusionList
\* 4 beads: a 3-bead molecule + a single bead with a cross-molecule bond / two 2-bead molecules /
\* one molecule with a dihedral
MCInits == { [mol |-> <<1, 1, 1, 2>>, ias |-> << <<1, 2>>, <<2, 3>>, <<3, 4>> >>],
             [mol |-> <<1, 1, 2, 2>>, ias |-> << <<2, 1>>, <<4, 3>>, <<2, 3>> >>],
             [mol |-> <<1, 1, 1, 1>>, ias |-> << <<4, 2, 1, 3>> >>] }
MCPairs == { <<1, 2>>, <<2, 1>>, <<4, 3>>, <<2, 2>> }
MCLists == { <<3, 1, 2>> }
====
