---------------------------- MODULE ExclusionList ----------------------------
(* Mode H: csg::ExclusionList as a state machine (one action per public call).

   Spec state   ex  : the set of unordered bead pairs currently "inserted".
   Algo state   a   : transcription of the data structure of exclusionlist.cc/.h:
                      a.ent = beads that own an exclusion_t in the map excl_by_bead_,
                      a.lst = beads whose exclusion_t is in the list exclusions_,
                      a.by[b] = the exclude_ list of that entry (higher-id partners, in
                      insertion order).
   Meaning (property statement): IsExcluded(i,j) <=> i # j, same molecule, and the pair is
   inserted; after CreateExclusions alone: <=> same molecule and share an interaction.
   The history variable h records every call with the expected IsExcluded relation so
   that the behaviour can be replayed into the real object.

   FixedRemove = TRUE transcribes RemoveExclusion with the repair of
   pending_fixes/C03-exclusion-remove.patch (an emptied entry is erased from the map, too);
   FALSE transcribes the code as found: the entry leaves the list but stays in the map, so a
   later insert re-uses the orphan and a later remove cannot find it in the list any more
   (MCExclOrig.cfg shows the 4-call counterexample).                                       *)
EXTENDS ExclOps, TLC, Json

CONSTANTS NB,         \* number of beads
          Inits,      \* set of [mol |-> <<..>>, ias |-> <<..>>]
          OpPairs,    \* ordered bead pairs used as arguments of Insert/RemoveExclusion
          OpLists,    \* bead lists used as arguments of ExcludeList / Remove / InsertExclusion(bead, list)
          WithInsL,   \* whether InsertExclusion(bead, list) is among the calls
          Depth, Emit, FixedRemove
VARIABLES mol, ias, ex, a, h
vars == <<mol, ias, ex, a, h>>

Beads == 1..NB
Lo(i, j) == IF j < i THEN j ELSE i
Hi(i, j) == IF j < i THEN i ELSE j

\* ---- Spec ----------------------------------------------------------------------
SpecIsExcl(e, i, j) == i # j /\ mol[i] = mol[j] /\ {i, j} \in e

\* ---- Algo (transcription) --------------------------------------------------------
AIsExcl(s, b1, b2) ==
  IF mol[b1] # mol[b2] THEN FALSE
  ELSE LET lo == Lo(b1, b2)  hi == Hi(b1, b2)          \* swap so that id(bead1) <= id(bead2)
       IN lo \in s.ent /\ hi \in SeqRange(s.by[lo])      \* GetExclusions + std::find

AInsert(s, b1, b2) ==
  LET lo == Lo(b1, b2)  hi == Hi(b1, b2) IN
  IF lo = hi THEN s
  ELSE IF AIsExcl(s, lo, hi) THEN s
  ELSE IF lo \in s.ent
       THEN [s EXCEPT !.by[lo] = Append(@, hi)]
       ELSE [ent |-> s.ent \cup {lo}, lst |-> s.lst \cup {lo}, by |-> [s.by EXCEPT ![lo] = <<hi>>]]

ARemove(s, b1, b2) ==
  LET lo == Lo(b1, b2)  hi == Hi(b1, b2) IN
  IF lo = hi THEN s
  ELSE IF ~AIsExcl(s, lo, hi) THEN s
  ELSE IF lo \notin s.lst THEN s                         \* find_if over exclusions_ fails
  ELSE LET rest == SelectSeq(s.by[lo], LAMBDA x : x # hi) IN   \* list::remove(bead2)
       IF rest # <<>> THEN [s EXCEPT !.by[lo] = rest]
       ELSE IF FixedRemove
            THEN [ent |-> s.ent \ {lo}, lst |-> s.lst \ {lo}, by |-> [s.by EXCEPT ![lo] = <<>>]]
            ELSE [ent |-> s.ent, lst |-> s.lst \ {lo}, by |-> [s.by EXCEPT ![lo] = <<>>]]

\* for (i = begin..end) for (j = i..end) op(*i, *j)
RECURSIVE ApplyPairs(_, _, _, _, _)
ApplyPairs(ins, s, l, i, j) ==
  IF i > Len(l) THEN s
  ELSE IF j > Len(l) THEN ApplyPairs(ins, s, l, i + 1, i + 1)
  ELSE ApplyPairs(ins, IF ins THEN AInsert(s, l[i], l[j]) ELSE ARemove(s, l[i], l[j]), l, i, j + 1)
AExcludeList(s, l) == ApplyPairs(TRUE, s, l, 1, 1)
ARemoveList(s, l) == ApplyPairs(FALSE, s, l, 1, 1)
RECURSIVE AInsertList(_, _, _)
AInsertList(s, b, l) == IF l = <<>> THEN s ELSE AInsertList(AInsert(s, b, Head(l)), b, Tail(l))
RECURSIVE ACreate(_, _)
ACreate(s, ii) == IF ii = <<>> THEN s ELSE ACreate(AExcludeList(s, Head(ii)), Tail(ii))

\* ---- machine ---------------------------------------------------------------------
Obs(e) == {p \in Beads \X Beads : SpecIsExcl(e, p[1], p[2])}
Empty == [ent |-> {}, lst |-> {}, by |-> [b \in Beads |-> <<>>]]

Init == /\ \E c \in Inits : mol = c.mol /\ ias = c.ias
        /\ ex = {} /\ a = Empty /\ h = <<>>

Step(op, l, e2, a2) ==
  /\ ex' = e2 /\ a' = a2
  /\ h' = Append(h, [a |-> op, l |-> l, obs |-> Obs(e2)])
  /\ UNCHANGED <<mol, ias>>

Create == Step("create", <<>>, ex \cup UNION {PairsOfList(ias[q]) : q \in 1..Len(ias)}, ACreate(a, ias))
Ins(p) == Step("ins", p, IF p[1] = p[2] THEN ex ELSE ex \cup {{p[1], p[2]}}, AInsert(a, p[1], p[2]))
Rem(p) == Step("rem", p, ex \ {{p[1], p[2]}}, ARemove(a, p[1], p[2]))
ExL(l) == Step("exl", l, ex \cup PairsOfList(l), AExcludeList(a, l))
RemL(l) == Step("reml", l, ex \ PairsOfList(l), ARemoveList(a, l))
InsL(l) == Step("insl", l, ex \cup ({{l[1], l[k]} : k \in 2..Len(l)} \ {{l[1]}}), AInsertList(a, l[1], Tail(l)))

Next == /\ Len(h) < Depth
        /\ \/ Create
           \/ \E p \in OpPairs : Ins(p) \/ Rem(p)
           \/ \E l \in OpLists : ExL(l) \/ RemL(l) \/ (WithInsL /\ InsL(l))
Spec == Init /\ [][Next]_vars

\* ---- properties ------------------------------------------------------------------
\* the data structure answers IsExcluded exactly like the abstract relation, both argument orders
AlgoIsSpec == \A i, j \in Beads : AIsExcl(a, i, j) = SpecIsExcl(ex, i, j)
\* list and map stay consistent (fails for FixedRemove = FALSE)
ListIsMap == a.lst = a.ent
EntriesNonEmpty == \A b \in a.ent : a.by[b] # <<>>
\* partners are stored under the lower id only, each at most once for intramolecular pairs
LowerKeyed == \A b \in Beads : \A k \in 1..Len(a.by[b]) : a.by[b][k] > b
\* the statement: with only CreateExclusions called, excluded <=> same molecule and share an interaction
OnlyCreate == h # <<>> /\ \A k \in 1..Len(h) : h[k].a = "create"
CreateMeaning == OnlyCreate => \A i, j \in Beads : SpecIsExcl(ex, i, j) = SpecExcluded(mol, ias, i, j)
Symmetric == \A i, j \in Beads : SpecIsExcl(ex, i, j) = SpecIsExcl(ex, j, i)
Leaf == (Emit /\ Len(h) = Depth) => PrintT(ToJson([mol |-> mol, ias |-> ias, h |-> h]))
=============================================================================
