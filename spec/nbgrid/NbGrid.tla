------------------------------- MODULE NbGrid -------------------------------
(* Property C03, mode L (lattice transcription).

   Everything is an integer: positions and box vectors in lattice units (1/8 nm), the cutoff
   as rc2 = rc^2 (so irrational cutoffs need no reals), distances as d2 = d^2.

   Spec...  declarative meaning from the property statement: a pair is a neighbour pair iff
            some periodic image of the connecting vector is shorter than the cutoff (brute
            force over a cube of images, SpecImages); triples (centre,{j,k}) need both centre
            distances below the cutoff; excluded pairs are suppressed.
   Algo...  transcription of csg/src/libcsg nblistgrid.cc, nblist.cc, nblistgrid_3body.cc,
            nblist_3body.cc (and of BCShortestConnection of the orthorhombic/triclinic box),
            structured like the code: InitializeGrid, getCell, TestBead/TestCell, the two
            Generate variants, the simple loops.  C semantics for % and floor (CArith).

   A configuration c is a record
     B    box [a |-> <<ax,0,0>>, b |-> <<bx,by,0>>, c |-> <<cx,cy,cz>>]   (columns; ax,by,cz > 0)
     rc2  squared cutoff
     pos  sequence of bead positions (bead ids 1..n in topology order)
     typ  sequence of bead types 1..3 ("A","B","C")
     mol  sequence of molecule ids, ias sequence of bonded interactions (bead id sequences)
   A run r is a record [k |-> "p" | "t", s |-> <<type selectors>>, x |-> do_exclusions];
   selector 0 = all beads ("*"), t = beads of type t.                                      *)
EXTENDS Integers, Sequences, FiniteSets, CArith, ExclOps, TLC

\* ---- integer vectors --------------------------------------------------------------
Add(u, v) == <<u[1] + v[1], u[2] + v[2], u[3] + v[3]>>
Sub(u, v) == <<u[1] - v[1], u[2] - v[2], u[3] - v[3]>>
Scale(k, v) == <<k * v[1], k * v[2], k * v[3]>>
Dot(u, v) == u[1] * v[1] + u[2] * v[2] + u[3] * v[3]
Cross(u, v) == <<u[2] * v[3] - u[3] * v[2], u[3] * v[1] - u[1] * v[3], u[1] * v[2] - u[2] * v[1]>>
N2(v) == Dot(v, v)

MkBox(ax, bx, by, cx, cy, cz) == [a |-> <<ax, 0, 0>>, b |-> <<bx, by, 0>>, c |-> <<cx, cy, cz>>]
IsOrtho(B) == B.b[1] = 0 /\ B.c[1] = 0 /\ B.c[2] = 0
\* the class of triclinic boxes BCShortestConnection is written for (triclinicbox.cc)
Reduced(B) == /\ B.a[1] > 0 /\ B.b[2] > 0 /\ B.c[3] > 0
              /\ 2 * Abs(B.b[1]) <= B.a[1] /\ 2 * Abs(B.c[1]) <= B.a[1] /\ 2 * Abs(B.c[2]) <= B.b[2]
Img(B, k) == Add(Scale(k[1], B.a), Add(Scale(k[2], B.b), Scale(k[3], B.c)))
Normals(B) == [a |-> Cross(B.b, B.c), b |-> Cross(B.c, B.a), c |-> Cross(B.a, B.b)]
Vol(B) == Dot(B.a, Cross(B.b, B.c))
\* heights: h_i = V / |n_i|.  rc <= h_i / m  <=>  m^2 rc2 |n_i|^2 <= V^2
FitsAll(B, rc2, m) == \A n \in {Normals(B).a, Normals(B).b, Normals(B).c} : m * m * rc2 * N2(n) <= Vol(B) * Vol(B)
InDomain(B, rc2) == FitsAll(B, rc2, 2)        \* cutoff up to half the shortest box height
Sane(B, rc2) == FitsAll(B, rc2, 1)            \* cutoff up to the shortest box height (1 cell)

(* ---- Spec: brute-force minimum image -------------------------------------------------
   Images of r within the cutoff: { r + B k : k in cube(M), |r + B k|^2 < b2 }.
   The image range M is part of the spec: it must cover the displacement in box lengths,
   +2 (DESIGN C02/C03: a too small cube makes the oracle wrong).  MFor over-estimates the
   fractional coordinates of r: |s3| <= |r3|/cz, |s2| <= |r2|/by + |s3|, |s1| <= |r1|/ax + |s2| + |s3|
   (uses |cy| <= by, |bx|,|cx| <= ax), and an image shorter than rc <= h_min has fractional
   coordinates below 1 in absolute value.
   WithinFlat is the definition; WithinNested enumerates the same cube but discards a k3 (then
   a (k2,k3)) as soon as the z (then y,z) components alone reach the bound - possible because
   only c has a z component and only b, c have y components.  Equality of the two and
   independence of the result from a larger cube are checked by TLC in MCNbLemma.            *)
MFor(r, B) ==
  LET m3 == CeilDiv(Abs(r[3]), B.c[3])
      m2 == CeilDiv(Abs(r[2]), B.b[2]) + (IF B.c[2] # 0 THEN m3 ELSE 0)
      m1 == CeilDiv(Abs(r[1]), B.a[1]) + (IF B.b[1] # 0 THEN m2 ELSE 0) + (IF B.c[1] # 0 THEN m3 ELSE 0)
  IN Max2(m1, Max2(m2, m3)) + 2

WithinFlat(r, B, M, b2) ==
  {v \in {Add(r, Img(B, k)) : k \in (-M..M) \X (-M..M) \X (-M..M)} : N2(v) < b2}

WithinNested(r, B, M, b2) ==
  LET K == -M..M
      K3 == {k3 \in K : (r[3] + k3 * B.c[3]) * (r[3] + k3 * B.c[3]) < b2}
      K23 == {kk \in K \X K3 :
                LET y == r[2] + kk[1] * B.b[2] + kk[2] * B.c[2]
                    z == r[3] + kk[2] * B.c[3]
                IN y * y + z * z < b2}
  IN {v \in {Add(r, Img(B, <<k1, kk[1], kk[2]>>)) : k1 \in K, kk \in K23} : N2(v) < b2}

SpecImages(r, B, rc2) == WithinNested(r, B, MFor(r, B), rc2)
MinOf(S) == CHOOSE x \in S : \A y \in S : x <= y
\* the minimisers among the images below the cutoff (one element unless there is an exact tie)
Shortest(W) == {v \in W : \A u \in W : N2(v) <= N2(u)}

\* per configuration: W[i][j] = images of pos[j] - pos[i] shorter than the cutoff
SpecData(c) ==
  LET n == Len(c.pos) IN
  TLCEval([i \in 1..n |-> [j \in 1..n |->
             IF i = j THEN {} ELSE SpecImages(Sub(c.pos[j], c.pos[i]), c.B, c.rc2)]])
SpecClose(W, i, j) == W[i][j] # {}

Ids(c) == [i \in 1..Len(c.pos) |-> i]
ListOf(c, sel) == SelectSeq(Ids(c), LAMBDA i : sel = 0 \/ c.typ[i] = sel)

\* unordered pairs (one list: within the list; two disjoint lists: one bead of each)
SpecPairs(W, X, x, L1, L2) ==
  {p \in {{i, j} : i \in SeqRange(L1), j \in SeqRange(L2)} :
      \E i \in p : \E j \in p : i < j /\ SpecClose(W, i, j) /\ ~(x /\ {i, j} \in X)}
\* triples <<centre, {j,k}>>
SpecTriples(W, X, x, L1, L2, L3) ==
  {<<t[1], {t[2], t[3]}>> : t \in
     {t \in SeqRange(L1) \X SeqRange(L2) \X SeqRange(L3) :
        /\ t[1] # t[2] /\ t[1] # t[3] /\ t[2] # t[3]
        /\ SpecClose(W, t[1], t[2]) /\ SpecClose(W, t[1], t[3])
        /\ ~(x /\ ({t[1], t[2]} \in X \/ {t[1], t[3]} \in X \/ {t[2], t[3]} \in X))}}

(* ---- Algo: BCShortestConnection (orthorhombicbox.cc, triclinicbox.cc) -------------------- *)
AlgoMIOrtho(r, B) == <<r[1] - B.a[1] * RoundHalfAway(r[1], B.a[1]),
                       r[2] - B.b[2] * RoundHalfAway(r[2], B.b[2]),
                       r[3] - B.c[3] * RoundHalfAway(r[3], B.c[3])>>
AlgoMITric(r, B) ==
  LET rdp == Sub(r, Scale(RoundHalfAway(r[3], B.c[3]), B.c))
      rsp == Sub(rdp, Scale(RoundHalfAway(rdp[2], B.b[2]), B.b))
  IN Sub(rsp, Scale(RoundHalfAway(rsp[1], B.a[1]), B.a))
AlgoMI(r, B) == IF IsOrtho(B) THEN AlgoMIOrtho(r, B) ELSE AlgoMITric(r, B)

(* ---- Algo: NBListGrid::InitializeGrid / getCell ---------------------------------------------
   la = box_a . n_a/|n_a| = V/|n_a|;  N = Index(max(|la/cutoff|, 1)) = max(floor(sqrt(V^2/(rc2 |n|^2))), 1)
   norm_a = n_a/|n_a| / la * N = n_a N / V;   getCell: floor(r . norm_a) = floor(N (r . n_a) / V)       *)
Grid(B, rc2) ==
  LET n == Normals(B)
      V == Vol(B)
      Cnt(nn) == Max2(Isqrt((V * V) \div (rc2 * N2(nn))), 1)
  IN [n |-> n, V |-> V, N |-> <<Cnt(n.a), Cnt(n.b), Cnt(n.c)>>]

\* if (a < 0) a = N + a % N;  a %= N;      with C's %
CWrap(a, N) == CMod(IF a < 0 THEN N + CMod(a, N) ELSE a, N)
GetCell(r, G) == <<CWrap(FloorDiv(G.N[1] * Dot(r, G.n.a), G.V), G.N[1]),
                   CWrap(FloorDiv(G.N[2] * Dot(r, G.n.b), G.V), G.N[2]),
                   CWrap(FloorDiv(G.N[3] * Dot(r, G.n.c), G.V), G.N[3])>>
\* a1 = -1, a2 = 1;  if (N < 3) a2 = 0;  if (N < 2) a1 = 0;
NbLo(N) == IF N < 2 THEN 0 ELSE -1
NbHi(N) == IF N < 3 THEN 0 ELSE 1
\* the loop nest  for aa = a+a1..a+a2, bb = .., cc = ..  with a running from N to 2N-1 so that
\* aa >= 0 and % is harmless; in code order, including the cell itself
NeighAll(cell, G) ==
  LET la == NbHi(G.N[1]) - NbLo(G.N[1]) + 1
      lb == NbHi(G.N[2]) - NbLo(G.N[2]) + 1
      lc == NbHi(G.N[3]) - NbLo(G.N[3]) + 1
  IN [t \in 1..(la * lb * lc) |->
        <<CMod(cell[1] + G.N[1] + NbLo(G.N[1]) + ((t - 1) \div (lb * lc)), G.N[1]),
          CMod(cell[2] + G.N[2] + NbLo(G.N[2]) + (((t - 1) \div lc) % lb), G.N[2]),
          CMod(cell[3] + G.N[3] + NbLo(G.N[3]) + ((t - 1) % lc), G.N[3])>>]
\* pair grid: if (cell2 == &cell) continue;   3-body grid: every cell is a neighbour of its own
NeighPair(cell, G) == SelectSeq(NeighAll(cell, G), LAMBDA q : q # cell)

\* per configuration: grid, cell of every bead (and that cell's neighbour list), mi[i][j] = BCShortestConnection(pos_i, pos_j), exclusions
Ctx(c) ==
  LET n == Len(c.pos)
      G == Grid(c.B, c.rc2) IN
  [rc2 |-> c.rc2, G |-> G,
   cell |-> TLCEval([i \in 1..n |-> GetCell(c.pos[i], G)]),
   nb |-> TLCEval([i \in 1..n |-> NeighAll(GetCell(c.pos[i], G), G)]),     \* cell_t::neighbours_ of the bead's cell
   mi |-> TLCEval([i \in 1..n |-> [j \in 1..n |-> AlgoMI(Sub(c.pos[j], c.pos[i]), c.B)]]),
   X |-> TLCEval(ExclRel(c.mol, c.ias))]

RECURSIVE Flat(_)
Flat(ss) == IF ss = <<>> THEN <<>> ELSE Head(ss) \o Flat(Tail(ss))

\* d < cutoff, then the exclusion test (TestCell / the simple loop body); f, s = first, second bead
PHit(K, x, f, s) == N2(K.mi[f][s]) < K.rc2 /\ ~(x /\ {f, s} \in K.X)

(* NBListGrid::TestBead: the bead's own cell first, then the neighbour cells; in every cell the
   beads inserted so far, in insertion order.  A call is <<bead in the cell, tested bead>>; its
   connection vector is BCShortestConnection(pos[first], pos[second]) = mi[first][second].     *)
GTestBead(K, x, bead, inserted) ==
  LET cells == <<K.cell[bead]>> \o SelectSeq(K.nb[bead], LAMBDA q : q # K.cell[bead])   \* = NeighPair
  IN Flat([q \in 1..Len(cells) |->
        LET hits == SelectSeq(inserted, LAMBDA b : K.cell[b] = cells[q] /\ PHit(K, x, b, bead))
        IN [u \in 1..Len(hits) |-> <<hits[u], bead>>]])
\* Generate(list): for each bead { TestBead; insert }  -- test BEFORE insert
GridPair1(K, x, L) == Flat([t \in 1..Len(L) |-> GTestBead(K, x, L[t], SubSeq(L, 1, t - 1))])
\* Generate(list1, list2): insert all of list1, then TestBead for each bead of list2
GridPair2(K, x, L1, L2) ==
  IF L1 = <<>> \/ L2 = <<>> THEN <<>> ELSE Flat([t \in 1..Len(L2) |-> GTestBead(K, x, L2[t], L1)])

(* NBList::Generate(list1, list2): same = (&list1 == &list2) *)
SimplePair(K, x, L1, L2, same) ==
  IF L1 = <<>> \/ L2 = <<>> THEN <<>> ELSE
  Flat([t1 \in 1..Len(L1) |->
     LET st == IF same THEN t1 + 1 ELSE 1 IN
     IF st > Len(L2) THEN <<>>
     ELSE IF L1[t1] = L2[st] THEN <<>>
     ELSE LET hits == SelectSeq(SubSeq(L2, st, Len(L2)), LAMBDA b : PHit(K, x, L1[t1], b))
          IN [u \in 1..Len(hits) |-> <<L1[t1], hits[u]>>]])

\* if (!FindPair(a, b)) AddPair(..): FindPair is symmetric
RECURSIVE StoredPairs(_, _)
StoredPairs(calls, seen) ==
  IF calls = <<>> THEN <<>>
  ELSE LET p == {Head(calls)[1], Head(calls)[2]} IN
       IF p \in seen THEN StoredPairs(Tail(calls), seen)
       ELSE <<Head(calls)>> \o StoredPairs(Tail(calls), seen \cup {p})

\* (d12 < cutoff) && (d13 < cutoff), then the three exclusion tests
THit(K, x, i, j, k) ==
  /\ N2(K.mi[i][j]) < K.rc2 /\ N2(K.mi[i][k]) < K.rc2
  /\ ~(x /\ ({i, j} \in K.X \/ {i, k} \in K.X \/ {j, k} \in K.X))

(* NBListGrid_3Body: all beads are put into the cells first (beads1_/beads2_/beads3_), then
   TestBead for every bead of list1: two nested scans over the neighbour cells (own cell included) *)
Grid3(K, x, L1, L2, L3) ==
  IF L1 = <<>> \/ L2 = <<>> \/ L3 = <<>> THEN <<>> ELSE
  Flat([t \in 1..Len(L1) |->
    LET bead == L1[t]
        cells == K.nb[bead]                                                           \* = NeighAll
        C2 == Flat([q \in 1..Len(cells) |-> SelectSeq(L2, LAMBDA b : K.cell[b] = cells[q])])
        C3 == Flat([q \in 1..Len(cells) |-> SelectSeq(L3, LAMBDA b : K.cell[b] = cells[q])])
    IN Flat([u \in 1..Len(C2) |->
         IF C2[u] = bead THEN <<>>
         ELSE LET hits == SelectSeq(C3, LAMBDA k : k # bead /\ k # C2[u] /\ THit(K, x, bead, C2[u], k))
              IN [w \in 1..Len(hits) |-> <<bead, C2[u], hits[w]>>]])])

(* NBList_3Body::Generate(list1, list2, list3): same23 = (&list2 == &list3) *)
Simple3(K, x, L1, L2, L3, same23) ==
  IF L1 = <<>> \/ L2 = <<>> \/ L3 = <<>> THEN <<>> ELSE
  Flat([t1 \in 1..Len(L1) |-> Flat([t2 \in 1..Len(L2) |->
     IF L1[t1] = L2[t2] THEN <<>>
     ELSE LET st == IF same23 THEN t2 + 1 ELSE 1
              hits == SelectSeq(SubSeq(L3, st, Len(L3)),
                                LAMBDA k : k # L1[t1] /\ k # L2[t2] /\ THit(K, x, L1[t1], L2[t2], k))
          IN [w \in 1..Len(hits) |-> <<L1[t1], L2[t2], hits[w]>>]])])

\* FindTriple(i, j, k) also finds (i, k, j)
RECURSIVE StoredTriples(_, _)
StoredTriples(calls, seen) ==
  IF calls = <<>> THEN <<>>
  ELSE LET t == <<Head(calls)[1], {Head(calls)[2], Head(calls)[3]}>> IN
       IF t \in seen THEN StoredTriples(Tail(calls), seen)
       ELSE <<Head(calls)>> \o StoredTriples(Tail(calls), seen \cup {t})

(* ---- one run: Spec and Algo side by side --------------------------------------------------- *)
\* the BeadLists of a run; one selector: Generate(list); two: (l1, l2) resp. (l1, l2, l2); three: distinct objects
RunLists(c, r) == [q \in 1..Len(r.s) |-> ListOf(c, r.s[q])]

PairRun(c, K, W, r) ==
  LET L == RunLists(c, r)
      one == Len(L) = 1
      L1 == L[1]
      L2 == IF one THEN L[1] ELSE L[2]
      gc == IF one THEN GridPair1(K, r.x, L1) ELSE GridPair2(K, r.x, L1, L2)
      sc == SimplePair(K, r.x, L1, L2, one)
  IN [spec |-> SpecPairs(W, K.X, r.x, L1, L2), gcalls |-> gc, scalls |-> sc,
      gstored |-> StoredPairs(gc, {}), sstored |-> StoredPairs(sc, {})]

TripleRun(c, K, W, r) ==
  LET L == RunLists(c, r)
      L1 == L[1]
      L2 == IF Len(L) = 1 THEN L[1] ELSE L[2]
      L3 == IF Len(L) = 1 THEN L[1] ELSE IF Len(L) = 2 THEN L[2] ELSE L[3]
      gc == Grid3(K, r.x, L1, L2, L3)
      sc == Simple3(K, r.x, L1, L2, L3, Len(L) < 3)
  IN [spec |-> SpecTriples(W, K.X, r.x, L1, L2, L3), gcalls |-> gc, scalls |-> sc,
      gstored |-> StoredTriples(gc, {}), sstored |-> StoredTriples(sc, {})]

\* every element of the spec set exactly once, nothing else
OncePairs(calls, spec) ==
  Len(calls) = Cardinality(spec) /\ {{calls[q][1], calls[q][2]} : q \in 1..Len(calls)} = spec
OnceTriples(calls, spec) ==
  Len(calls) = Cardinality(spec) /\ {<<calls[q][1], {calls[q][2], calls[q][3]}>> : q \in 1..Len(calls)} = spec
\* the connection vector handed to the callback / stored is a shortest image of pos[second] - pos[first]
VecsOK(K, W, calls) == \A q \in 1..Len(calls) : K.mi[calls[q][1]][calls[q][2]] \in Shortest(W[calls[q][1]][calls[q][2]])

PairRunOK(K, W, R) ==
  /\ OncePairs(R.gcalls, R.spec) /\ OncePairs(R.scalls, R.spec)          \* callbacks: each pair exactly once
  /\ OncePairs(R.gstored, R.spec) /\ OncePairs(R.sstored, R.spec)        \* stored list
  /\ VecsOK(K, W, R.gcalls) /\ VecsOK(K, W, R.scalls)
TripleRunOK(R) ==
  /\ OnceTriples(R.gstored, R.spec) /\ OnceTriples(R.sstored, R.spec)    \* only the stored lists are specified
  /\ OnceTriples(R.scalls, R.spec)                                       \* (the simple search also calls once)

\* a configuration the model is meant for
ValidConf(c) ==
  /\ Reduced(c.B) /\ c.rc2 > 0 /\ Sane(c.B, c.rc2)
  /\ (IsOrtho(c.B) \/ InDomain(c.B, c.rc2))      \* beyond rc = h/2 the triclinic image search is not minimal
  /\ Len(c.typ) = Len(c.pos) /\ Len(c.mol) = Len(c.pos)
=============================================================================
