SPECIFICATION Spec
CONSTANTS
  NB = 4
  Inits <- MCInits
  OpPairs <- MCPairs
  OpLists <- MCLists
  Depth = 4
  WithInsL = TRUE
  Emit = TRUE
  FixedRemove = TRUE
INVARIANTS AlgoIsSpec ListIsMap EntriesNonEmpty LowerKeyed CreateMeaning Symmetric Leaf
CHECK_DEADLOCK FALSE
