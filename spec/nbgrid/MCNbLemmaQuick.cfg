INIT Init
NEXT Next
CONSTANTS
  Boxes <- MCBoxes
  R = 5
INVARIANTS Lemmas
CHECK_DEADLOCK FALSE
