INIT Init
NEXT Next
CONSTANTS
  Boxes <- MCBoxes
  R = 6
INVARIANTS Lemmas
CHECK_DEADLOCK FALSE
