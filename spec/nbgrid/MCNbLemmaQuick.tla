---- MODULE MCNbLemmaQuick ----
EXTENDS NbLemma
MCBoxes == { MkBox(5, 0, 6, 0, 0, 7), MkBox(6, 3, 6, -3, 3, 7), MkBox(8, 4, 6, -4, -3, 5) }
====
