---- MODULE MCExclQuick_TTrace_1790640725 ----
EXTENDS Sequences, TLCExt, Toolbox, Naturals, TLC, MCExclQuick

_expression ==
    LET MCExclQuick_TEExpression == INSTANCE MCExclQuick_TEExpression
    IN MCExclQuick_TEExpression!expression
----

_trace ==
    LET MCExclQuick_TETrace == INSTANCE MCExclQuick_TETrace
    IN MCExclQuick_TETrace!trace
----

_inv ==
    ~(
        TLCGet("level") = Len(_TETrace)
        /\
        a = ([ent |-> {1}, by |-> <<<<2>>, <<>>, <<>>>>, lst |-> {}])
        /\
        ex = ({})
        /\
        h = (<<[a |-> "create", l |-> <<>>, obs |-> {<<1, 2>>, <<2, 1>>}], [a |-> "rem", l |-> <<1, 2>>, obs |-> {}], [a |-> "create", l |-> <<>>, obs |-> {<<1, 2>>, <<2, 1>>}], [a |-> "rem", l |-> <<1, 2>>, obs |-> {}]>>)
        /\
        ias = (<<<<1, 2>>>>)
        /\
        mol = (<<1, 1, 1>>)
    )
----

_init ==
    /\ a = _TETrace[1].a
    /\ h = _TETrace[1].h
    /\ ex = _TETrace[1].ex
    /\ ias = _TETrace[1].ias
    /\ mol = _TETrace[1].mol
----

_next ==
    /\ \E i,j \in DOMAIN _TETrace:
        /\ \/ /\ j = i + 1
              /\ i = TLCGet("level")
        /\ a  = _TETrace[i].a
        /\ a' = _TETrace[j].a
        /\ h  = _TETrace[i].h
        /\ h' = _TETrace[j].h
        /\ ex  = _TETrace[i].ex
        /\ ex' = _TETrace[j].ex
        /\ ias  = _TETrace[i].ias
        /\ ias' = _TETrace[j].ias
        /\ mol  = _TETrace[i].mol
        /\ mol' = _TETrace[j].mol

\* Uncomment the ASSUME below to write the states of the error trace
\* to the given file in Json format. Note that you can pass any tuple
\* to `JsonSerialize`. For example, a sub-sequence of _TETrace.
    \* ASSUME
    \*     LET J == INSTANCE Json
    \*         IN J!JsonSerialize("MCExclQuick_TTrace_1790640725.json", _TETrace)

=============================================================================

 Note that you can extract this module `MCExclQuick_TEExpression`
  to a dedicated file to reuse `expression` (the module in the 
  dedicated `MCExclQuick_TEExpression.tla` file takes precedence 
  over the module `MCExclQuick_TEExpression` below).

---- MODULE MCExclQuick_TEExpression ----
EXTENDS Sequences, TLCExt, Toolbox, Naturals, TLC, MCExclQuick

expression == 
    [
        \* To hide variables of the `MCExclQuick` spec from the error trace,
        \* remove the variables below.  The trace will be written in the order
        \* of the fields of this record.
        a |-> a
        ,h |-> h
        ,ex |-> ex
        ,ias |-> ias
        ,mol |-> mol
        
        \* Put additional constant-, state-, and action-level expressions here:
        \* ,_stateNumber |-> _TEPosition
        \* ,_aUnchanged |-> a = a'
        
        \* Format the `a` variable as Json value.
        \* ,_aJson |->
        \*     LET J == INSTANCE Json
        \*     IN J!ToJson(a)
        
        \* Lastly, you may build expressions over arbitrary sets of states by
        \* leveraging the _TETrace operator.  For example, this is how to
        \* count the number of times a spec variable changed up to the current
        \* state in the trace.
        \* ,_aModCount |->
        \*     LET F[s \in DOMAIN _TETrace] ==
        \*         IF s = 1 THEN 0
        \*         ELSE IF _TETrace[s].a # _TETrace[s-1].a
        \*             THEN 1 + F[s-1] ELSE F[s-1]
        \*     IN F[_TEPosition - 1]
    ]

=============================================================================



Parsing and semantic processing can take forever if the trace below is long.
 In this case, it is advised to uncomment the module below to deserialize the
 trace from a generated binary file.

\*
\*---- MODULE MCExclQuick_TETrace ----
\*EXTENDS IOUtils, TLC, MCExclQuick
\*
\*trace == IODeserialize("MCExclQuick_TTrace_1790640725.bin", TRUE)
\*
\*=============================================================================
\*

---- MODULE MCExclQuick_TETrace ----
EXTENDS TLC, MCExclQuick

trace == 
    <<
    ([a |-> [ent |-> {}, by |-> <<<<>>, <<>>, <<>>>>, lst |-> {}],ex |-> {},h |-> <<>>,ias |-> <<<<1, 2>>>>,mol |-> <<1, 1, 1>>]),
    ([a |-> [ent |-> {1}, by |-> <<<<2>>, <<>>, <<>>>>, lst |-> {1}],ex |-> {{1, 2}},h |-> <<[a |-> "create", l |-> <<>>, obs |-> {<<1, 2>>, <<2, 1>>}]>>,ias |-> <<<<1, 2>>>>,mol |-> <<1, 1, 1>>]),
    ([a |-> [ent |-> {1}, by |-> <<<<>>, <<>>, <<>>>>, lst |-> {}],ex |-> {},h |-> <<[a |-> "create", l |-> <<>>, obs |-> {<<1, 2>>, <<2, 1>>}], [a |-> "rem", l |-> <<1, 2>>, obs |-> {}]>>,ias |-> <<<<1, 2>>>>,mol |-> <<1, 1, 1>>]),
    ([a |-> [ent |-> {1}, by |-> <<<<2>>, <<>>, <<>>>>, lst |-> {}],ex |-> {{1, 2}},h |-> <<[a |-> "create", l |-> <<>>, obs |-> {<<1, 2>>, <<2, 1>>}], [a |-> "rem", l |-> <<1, 2>>, obs |-> {}], [a |-> "create", l |-> <<>>, obs |-> {<<1, 2>>, <<2, 1>>}]>>,ias |-> <<<<1, 2>>>>,mol |-> <<1, 1, 1>>]),
    ([a |-> [ent |-> {1}, by |-> <<<<2>>, <<>>, <<>>>>, lst |-> {}],ex |-> {},h |-> <<[a |-> "create", l |-> <<>>, obs |-> {<<1, 2>>, <<2, 1>>}], [a |-> "rem", l |-> <<1, 2>>, obs |-> {}], [a |-> "create", l |-> <<>>, obs |-> {<<1, 2>>, <<2, 1>>}], [a |-> "rem", l |-> <<1, 2>>, obs |-> {}]>>,ias |-> <<<<1, 2>>>>,mol |-> <<1, 1, 1>>])
    >>
----


=============================================================================

---- CONFIG MCExclQuick_TTrace_1790640725 ----
CONSTANTS
    NB = 3
    Inits <- MCInits
    OpPairs <- MCPairs
    OpLists <- MCLists
    Depth = 4
    WithInsL = FALSE
    Emit = FALSE
    FixedRemove = FALSE

INVARIANT
    _inv

CHECK_DEADLOCK
    \* CHECK_DEADLOCK off because of PROPERTY or INVARIANT above.
    FALSE

INIT
    _init

NEXT
    _next

CONSTANT
    _TETrace <- _trace

ALIAS
    _expression
=============================================================================
\* Generated on Tue Sep 29 00:12:06 UTC 2026