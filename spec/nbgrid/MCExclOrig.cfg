SPECIFICATION Spec
CONSTANTS
  NB = 3
  Inits <- MCInits
  OpPairs <- MCPairs
  OpLists <- MCLists
  Depth = 4
  WithInsL = FALSE
  Emit = FALSE
  FixedRemove = FALSE
INVARIANTS AlgoIsSpec
CHECK_DEADLOCK FALSE
