------------------------------ MODULE NbGridMC ------------------------------
(* Mode L state machine for NbGrid: one initial state per configuration of the bounded
   lattice domain; TLC evaluates Spec and Algo side by side on each (invariant Check) and
   prints one test vector per configuration (expected pairs / triples per run) that the driver
   replays into the real NBListGrid / NBList / NBListGrid_3Body / NBList_3Body.

   The domain families (operators below, instantiated by the MC*.tla wrappers):
     SweepInit    2 beads, orthorhombic boxes with every combination of 1..4 cells per direction;
                  bead 1 next to every cell boundary (and outside the box), bead 2 displaced along
                  one axis by near, cutoff-tie and wrap-around offsets
     CornerInit   2 beads around a cell corner, displaced diagonally
     TricInit     2 beads in reduced triclinic boxes, cutoffs in the domain
     MultiInit    3..4 beads from a small cluster of points (coincident points included) with
                  bead types, molecules and bonded interactions; all pair and triple variants,
                  with and without exclusions
     TinyInit     0 and 1 bead                                                              *)
EXTENDS NbGrid, Json

CONSTANTS Emit
VARIABLES c, ph

\* ---- runs ------------------------------------------------------------------------------
Run(k, s, x) == [k |-> k, s |-> s, x |-> x]
GeoRuns == <<Run("p", <<0>>, FALSE), Run("p", <<1, 2>>, FALSE), Run("t", <<0>>, FALSE)>>
PairGeoRuns == <<Run("p", <<0>>, FALSE), Run("p", <<1, 2>>, FALSE)>>
FullRunsX(x) == <<Run("p", <<0>>, x), Run("p", <<1>>, x), Run("p", <<1, 2>>, x),
                  Run("t", <<0>>, x), Run("t", <<1, 2>>, x), Run("t", <<1, 2, 3>>, x), Run("t", <<1, 1, 2>>, x)>>
FullRuns == FullRunsX(FALSE) \o FullRunsX(TRUE)

Conf(B, rc2, pos, typ, mol, ias, runs) ==
  [B |-> B, rc2 |-> rc2, pos |-> pos, typ |-> typ, mol |-> mol, ias |-> ias, runs |-> runs]

\* ---- domain families ------------------------------------------------------------------------
\* first lattice point at or above every cell boundary k L / N, k = 0..N
Edges(L, N) == {CeilDiv(k * L, N) : k \in 0..N}
NearEdges(L, N) == UNION {{e - 1, e} : e \in Edges(L, N)}
CellsOf(L, rc2) == Max2(Isqrt((L * L) \div rc2), 1)
AxisVec(ax, x, o) == IF ax = 1 THEN <<x, o[1], o[2]>> ELSE IF ax = 2 THEN <<o[1], x, o[2]>> ELSE <<o[1], o[2], x>>

\* LL: set of <<La, Lb, Lc>>;  X1Extra(L), Offs(L): extra first coordinates and displacements;
\* Bases: other-axis coordinates of bead 1;  O2: other-axis displacements of bead 2
SweepInit(LL, rc2, X1Extra(_), Offs(_), Bases, O2) ==
  \E bx \in LL : \E ax \in 1..3 :
    LET L == bx[ax]
        N == CellsOf(L, rc2)
    IN \E x1 \in NearEdges(L, N) \cup X1Extra(L) : \E d \in Offs(L) : \E b \in Bases : \E o \in O2 :
         c = Conf(MkBox(bx[1], 0, bx[2], 0, 0, bx[3]), rc2,
                  <<AxisVec(ax, x1, b), AxisVec(ax, x1 + d, <<b[1] + o[1], b[2] + o[2]>>)>>,
                  <<1, 2>>, <<1, 2>>, <<>>, PairGeoRuns)

\* bead 1 on the corner points Corner(bx) (a set of positions), bead 2 displaced by Diag
CornerInit(LL, rc2, Corner(_), Diag) ==
  \E bx \in LL : \E p \in Corner(bx) : \E d \in Diag :
    c = Conf(MkBox(bx[1], 0, bx[2], 0, 0, bx[3]), rc2, <<p, Add(p, d)>>, <<1, 2>>, <<1, 2>>, <<>>, GeoRuns)

\* BR: set of [B, rc2];  P1(B): positions of bead 1;  D(B): displacements
TricInit(BR, P1(_), D(_)) ==
  \E br \in BR : \E p \in P1(br.B) : \E d \in D(br.B) :
    c = Conf(br.B, br.rc2, <<p, Add(p, d)>>, <<1, 2>>, <<1, 2>>, <<>>, GeoRuns)

\* Tops: set of [typ, mol, ias] for 4 beads, cut down to the first n; P(B): the cluster of points
MultiInit(BR, P(_), Tops, n) ==
  \E br \in BR : \E pos \in [1..n -> P(br.B)] : \E t \in Tops :
    c = Conf(br.B, br.rc2, [q \in 1..n |-> pos[q]], SubSeq(t.typ, 1, n), SubSeq(t.mol, 1, n),
             SelectSeq(t.ias, LAMBDA ia : \A q \in 1..Len(ia) : ia[q] <= n), FullRuns)

TinyInit(BR, P(_)) ==
  \E br \in BR :
    \/ c = Conf(br.B, br.rc2, <<>>, <<>>, <<>>, <<>>, FullRuns)
    \/ \E p \in P(br.B) : \E t \in 1..2 : c = Conf(br.B, br.rc2, <<p>>, <<t>>, <<1>>, <<>>, FullRuns)

\* ---- the machine ------------------------------------------------------------------------
(* The wrappers define the family predicate MCFamilies as a disjunction of families (cfg: INIT Init,
   NEXT Next).  TLC generates and checks initial states in one thread; the second phase exists
   only so that the expensive evaluation (Check) happens on successor states, i.e. in the
   worker threads: one configuration = the two states (c, 0) -> (c, 1).                         *)
Next == ph = 0 /\ ph' = 1 /\ UNCHANGED c

Results(cc) ==
  LET K == Ctx(cc)
      W == SpecData(cc)
  IN [K |-> K, W |-> W,
      \* TLCEval: evaluate once (a function constructor is lazy in TLC and would be re-evaluated per use)
      runs |-> TLCEval([q \in 1..Len(cc.runs) |->
                  IF cc.runs[q].k = "p" THEN PairRun(cc, K, W, cc.runs[q]) ELSE TripleRun(cc, K, W, cc.runs[q])])]

RunsOK(cc, R) == \A q \in 1..Len(cc.runs) :
  IF cc.runs[q].k = "p" THEN PairRunOK(R.K, R.W, R.runs[q]) ELSE TripleRunOK(R.runs[q])

\* a bead exactly on a cell boundary (floating point may put it on either side) /
\* a cell count that is an exact quotient (floating point may give N or N-1)
OnBoundary(cc, G) == \E i \in 1..Len(cc.pos) :
  \/ (G.N[1] * Dot(cc.pos[i], G.n.a)) % G.V = 0
  \/ (G.N[2] * Dot(cc.pos[i], G.n.b)) % G.V = 0
  \/ (G.N[3] * Dot(cc.pos[i], G.n.c)) % G.V = 0
CountTie(cc, G) ==
  \/ G.N[1] * G.N[1] * cc.rc2 * N2(G.n.a) = G.V * G.V
  \/ G.N[2] * G.N[2] * cc.rc2 * N2(G.n.b) = G.V * G.V
  \/ G.N[3] * G.N[3] * cc.rc2 * N2(G.n.c) = G.V * G.V

PairRows(W, spec) ==
  {LET i == MinOf(p)
       j == MinOf(p \ {i})
       S == Shortest(W[i][j])
       v == CHOOSE v \in S : TRUE
   IN <<i, j, v[1], v[2], v[3], N2(v), IF Cardinality(S) = 1 THEN 1 ELSE 0>> : p \in spec}
TripleRows(spec) ==
  {LET j == MinOf(t[2]) IN <<t[1], j, MinOf(t[2] \ {j})>> : t \in spec}

Vector(cc, R) ==
  [box |-> <<cc.B.a[1], cc.B.b[1], cc.B.b[2], cc.B.c[1], cc.B.c[2], cc.B.c[3]>>, rc2 |-> cc.rc2,
   pos |-> cc.pos, typ |-> cc.typ, mol |-> cc.mol, ias |-> cc.ias,
   dom |-> InDomain(cc.B, cc.rc2), N |-> R.K.G.N, cell |-> R.K.cell,
   bnd |-> OnBoundary(cc, R.K.G), ntie |-> CountTie(cc, R.K.G),
   runs |-> [q \in 1..Len(cc.runs) |->
     IF cc.runs[q].k = "p"
     THEN [k |-> "p", s |-> cc.runs[q].s, x |-> cc.runs[q].x,
           rows |-> PairRows(R.W, R.runs[q].spec), gc |-> R.runs[q].gcalls]
     ELSE [k |-> "t", s |-> cc.runs[q].s, x |-> cc.runs[q].x,
           rows |-> TripleRows(R.runs[q].spec), gn |-> Len(R.runs[q].gcalls)]]]

\* Algo = Spec on every configuration (design level), and the exported vector
Check ==
  ph = 1 =>
  LET R == Results(c) IN
  /\ ValidConf(c)
  /\ IF RunsOK(c, R) THEN TRUE ELSE PrintT(<<"Algo # Spec", c, R.runs>>) /\ FALSE
  /\ (Emit => PrintT(ToJson(Vector(c, R))))
=============================================================================
