------------------------------- MODULE NbHist -------------------------------
(* Mode H layer over NbGrid: ONE neighbour-list object (NBList / NBListGrid for kind "p",
   NBList_3Body / NBListGrid_3Body for kind "t") is used for several Generate calls while the
   topology's frame (box, positions), the cutoff and the bead lists change between the calls.

   The property quantifies over every configuration, so every Generate must report exactly the
   pairs / triples of the configuration it is called on - history independence:
     * the match callbacks of a Generate are those of a fresh object (pairs: each spec pair
       exactly once; they do not depend on what the list already stores);
     * after Cleanup() (or on a new object) the stored list is that of a fresh object;
     * without Cleanup() the list API accumulates (AddPair only if !FindPair): the stored
       identities are old + new; a list that would clear itself in Generate is admitted as well
       (two-valued, DESIGN 7.1), so the vector exported for such a step carries both `rows` (this
       configuration) and `old` (identities stored before the call).
   Spec state: cut (current cutoff), stored (identities in the list), clean (nothing generated
   since creation / Cleanup).  Every Generate step also re-checks Algo(fresh) = Spec on its
   configuration (RunsOK of NbGridMC), i.e. the transcriptions rebuild their grid per call; the
   real object is bound by replaying the history (harness: `obj new/cut/gen/clean`, `setbox`,
   `setpos`).

   MCNbHistOne: two Generate calls (with and without a Cleanup between them) over frames = boxes x
   position sets, so that every history in which exactly ONE thing changes between the calls -
   only the cutoff (up / down), only the positions, only the bead lists, only the box - occurs; the
   position set P1 has beads 5 lattice units apart, i.e. neighbours only for the larger cutoff and
   two cells apart in the 4-cell layout of the smaller one (a layout kept from the previous call
   misses them).
   Frames: sequence of [B, pos]; the topology (bead types, molecules, interactions) is fixed
   per history.  Only (frame, cutoff) combinations inside the statement's domain are generated. *)
EXTENDS NbGridMC

CONSTANTS Frames, Cuts, PRuns, TRuns, Top, Depth,
          MaxGens     \* at most this many Generate calls per history (= Depth: no restriction)
VARIABLES kind, cut, stored, clean, h
hvars == <<kind, cut, stored, clean, h, c, ph>>

ConfAt(f, rc2, r) == Conf(Frames[f].B, rc2, Frames[f].pos, Top.typ, Top.mol, Top.ias, <<r>>)
Admissible(f, rc2) == ValidConf(ConfAt(f, rc2, Run("p", <<0>>, FALSE))) /\ InDomain(Frames[f].B, rc2)

HInit == /\ kind \in {"p", "t"} /\ cut = 0 /\ stored = {} /\ clean = TRUE /\ h = <<>>
         /\ c = <<>> /\ ph = 1

Identities(R, k) == R.runs[1].spec           \* set of {i,j} resp. <<i,{j,k}>>
OldRows(k, st) == IF k = "p" THEN {LET i == MinOf(p) IN <<i, MinOf(p \ {i})>> : p \in st} ELSE TripleRows(st)

Gen(f, rc2, r) ==
  /\ r.k = kind /\ Admissible(f, rc2)
  /\ LET cc == ConfAt(f, rc2, r)
         R == Results(cc)
         spec == Identities(R, kind)
     IN /\ h' = Append(h, [a |-> "gen", f |-> f, box |-> Vector(cc, R).box, pos |-> cc.pos, rc2 |-> rc2,
                           s |-> r.s, x |-> r.x, N |-> R.K.G.N,
                           rows |-> IF kind = "p" THEN PairRows(R.W, spec) ELSE TripleRows(spec),
                           fresh |-> clean, old |-> OldRows(kind, stored),
                           ok |-> RunsOK(cc, R)])
        /\ stored' = stored \cup spec
  /\ cut' = rc2 /\ clean' = FALSE
  /\ UNCHANGED <<kind, c, ph>>

Clean ==
  /\ ~clean                                  \* a Cleanup of an empty list is not interesting
  /\ h' = Append(h, [a |-> "clean"])
  /\ stored' = {} /\ clean' = TRUE
  /\ UNCHANGED <<kind, cut, c, ph>>

NGens == Cardinality({q \in 1..Len(h) : h[q].a = "gen"})
HNext == /\ Len(h) < Depth /\ NGens < MaxGens
         /\ \/ \E f \in 1..Len(Frames), rc2 \in Cuts, r \in PRuns \cup TRuns : Gen(f, rc2, r)
            \/ Clean

\* ---- properties ----------------------------------------------------------------------------
\* the transcribed searches, which rebuild their grid on every call, agree with the Spec on every call
AlgoFreshIsSpec == \A q \in 1..Len(h) : h[q].a = "gen" => h[q].ok
\* what the list stores is the union of what was generated since the last Cleanup
StoredIsUnion ==
  LET RECURSIVE U(_)
      U(q) == IF q = 0 \/ h[q].a = "clean" THEN {}
              ELSE U(q - 1) \cup (IF kind = "p" THEN {<<w[1], w[2]>> : w \in h[q].rows} ELSE h[q].rows)
  IN OldRows(kind, stored) = U(Len(h))
\* a last step that is a Cleanup tells nothing new: export only histories ending in a Generate
HLeaf == (Emit /\ h # <<>> /\ h[Len(h)].a = "gen" /\ (Len(h) = Depth \/ NGens = MaxGens)) =>
           PrintT(ToJson([kind |-> kind, typ |-> Top.typ, mol |-> Top.mol, ias |-> Top.ias, h |-> h]))
=============================================================================
