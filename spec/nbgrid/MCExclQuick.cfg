SPECIFICATION Spec
CONSTANTS
  NB = 3
  Inits <- MCInits
  OpPairs <- MCPairs
  OpLists <- MCLists
  Depth = 4
  WithInsL = FALSE
  Emit = TRUE
  FixedRemove = TRUE
INVARIANTS AlgoIsSpec ListIsMap EntriesNonEmpty LowerKeyed CreateMeaning Symmetric Leaf
CHECK_DEADLOCK FALSE
