---- MODULE MCNbThorough ----
(* thorough tier: cutoffs rc2 = 8, 9, 10 (irrational, exact, irrational); for every cutoff four box
   edges per direction giving 1, 2, 3, 4 cells, all 64 combinations, for the sweeps as well; sweeps
   over every lattice point of the box (and a margin outside); all 26 neighbour displacements around
   a wrap corner and an inner cell corner; more triclinic boxes; 3 beads from 6 points, 4 beads from 5 points.       *)
EXTENDS NbGridMC, IOUtils

Family == IF "FAMILY" \in DOMAIN IOEnv THEN IOEnv.FAMILY ELSE "tiny"

\* edges per direction for the cutoff: {1 cell, 2, 3, 4 cells}
LAof(rc2) == IF rc2 = 8 THEN {5, 6, 9, 12} ELSE IF rc2 = 9 THEN {5, 6, 10, 12} ELSE {6, 7, 10, 13}
LBof(rc2) == IF rc2 = 8 THEN {3, 7, 10, 14} ELSE IF rc2 = 9 THEN {4, 7, 9, 13} ELSE {4, 8, 12, 15}
LCof(rc2) == IF rc2 = 8 THEN {4, 8, 11, 13} ELSE IF rc2 = 9 THEN {5, 8, 11, 14} ELSE {5, 9, 11, 14}
LLof(rc2) == LAof(rc2) \X LBof(rc2) \X LCof(rc2)

Sweep(rc2) == SweepInit(LLof(rc2), rc2, LAMBDA L : (-3..(L + 2)) \cup {-L - 1, -L, 2 * L, 2 * L + 1},
                        LAMBDA L : {-4, -3, -2, -1, 1, 2, 3, 4, L - 2, L - 1, L + 1, 2 - L, 1 - L, -L - 1},
                        {<<-1, 1>>}, {<<0, 0>>, <<1, 2>>})
Diag == ({-1, 0, 1} \X {-1, 0, 1} \X {-1, 0, 1}) \ {<<0, 0, 0>>}
InnerEdge(L, rc2) == CeilDiv(L, CellsOf(L, rc2))         \* first lattice point at or above the first inner cell boundary
Corners(rc2) == CornerInit(LLof(rc2), rc2,
                  LAMBDA bx : ({-1, 0} \X {-1, 0} \X {-1, 0}) \cup
                              ({InnerEdge(bx[1], rc2) - 1, InnerEdge(bx[1], rc2)} \X {InnerEdge(bx[2], rc2) - 1, InnerEdge(bx[2], rc2)}
                                 \X {InnerEdge(bx[3], rc2) - 1, InnerEdge(bx[3], rc2)}), Diag)

TricBR1 == { [B |-> MkBox(12, 6, 10, -6, 5, 13), rc2 |-> 9], [B |-> MkBox(12, 6, 10, -6, 5, 13), rc2 |-> 4],
             [B |-> MkBox(8, 2, 7, 3, -3, 9), rc2 |-> 8], [B |-> MkBox(13, -4, 12, 5, 4, 6), rc2 |-> 5],
             [B |-> MkBox(16, 8, 14, 8, 7, 15), rc2 |-> 10] }
TricBR2 == { [B |-> MkBox(9, -4, 8, 4, -4, 6), rc2 |-> 4], [B |-> MkBox(14, 7, 12, -7, -6, 10), rc2 |-> 8],
             [B |-> MkBox(14, 7, 12, -7, -6, 10), rc2 |-> 2], [B |-> MkBox(11, 0, 9, 5, 0, 12), rc2 |-> 13],
             [B |-> MkBox(10, 3, 15, 0, 0, 8), rc2 |-> 16], [B |-> MkBox(20, 10, 18, -10, 9, 16), rc2 |-> 17] }
Cube(m) == (-m..m) \X (-m..m) \X (-m..m)
TricP1(B) == { <<-1, -1, -1>>, <<0, 0, 0>>, <<1, 2, 1>>, <<B.a[1] - 1, B.b[2] - 1, B.c[3] - 1>>,
               Add(B.a, Add(B.b, B.c)), <<B.a[1] \div 2, B.b[2] \div 2, B.c[3] \div 2>>,
               Sub(<<2, 1, 0>>, Add(B.a, B.c)), <<B.b[1], B.b[2], 0>>, <<B.c[1] + 1, B.c[2], B.c[3] - 1>> }
TricD(B) == (Cube(3) \ {<<0, 0, 0>>})
            \cup {Add(d, v) : d \in Cube(1),
                              v \in {B.a, B.b, B.c, Sub(<<0, 0, 0>>, Add(B.a, Add(B.b, B.c))), Sub(B.b, B.c), Sub(B.a, B.b)}}

MultiBR == { [B |-> MkBox(6, 0, 7, 0, 0, 8), rc2 |-> 9], [B |-> MkBox(12, 0, 9, 0, 0, 7), rc2 |-> 9],
             [B |-> MkBox(10, 0, 13, 0, 0, 11), rc2 |-> 10], [B |-> MkBox(12, 6, 10, -6, 5, 13), rc2 |-> 9],
             [B |-> MkBox(7, 0, 14, 0, 0, 10), rc2 |-> 10], [B |-> MkBox(16, 8, 14, 8, 7, 15), rc2 |-> 10] }
MultiBRa == { [B |-> MkBox(6, 0, 7, 0, 0, 8), rc2 |-> 9], [B |-> MkBox(12, 0, 9, 0, 0, 7), rc2 |-> 9] }
MultiBRb == { [B |-> MkBox(10, 0, 13, 0, 0, 11), rc2 |-> 10], [B |-> MkBox(12, 6, 10, -6, 5, 13), rc2 |-> 9] }
Cluster(B) == { <<0, 0, 0>>, <<2, 0, 0>>, <<-2, -1, 1>>, <<0, 3, 0>>, <<B.a[1] - 1, 1, 1>>, <<1, 1, B.c[3] + 1>> }
Cluster5(B) == { <<0, 0, 0>>, <<2, 0, 0>>, <<-2, -1, 1>>, <<0, 3, 0>>, <<B.a[1] - 1, 1, 1>> }
Tops == { [typ |-> <<1, 2, 2, 3>>, mol |-> <<1, 1, 1, 1>>, ias |-> << <<1, 2>>, <<2, 3, 4>> >>],
          [typ |-> <<1, 1, 2, 3>>, mol |-> <<1, 1, 2, 2>>, ias |-> << <<1, 2>>, <<2, 3>>, <<3, 4>> >>],
          [typ |-> <<2, 1, 3, 2>>, mol |-> <<1, 1, 1, 2>>, ias |-> << <<3, 1>>, <<1, 4>> >>],
          [typ |-> <<1, 1, 1, 1>>, mol |-> <<1, 2, 3, 4>>, ias |-> <<>>],
          [typ |-> <<1, 2, 1, 2>>, mol |-> <<1, 1, 1, 1>>, ias |-> << <<1, 2, 3, 4>> >>] }

MCFamilies ==
  CASE Family = "sweep8" -> Sweep(8) [] Family = "sweep9" -> Sweep(9) [] Family = "sweep10" -> Sweep(10)
    [] Family = "corners8" -> Corners(8) [] Family = "corners9" -> Corners(9) [] Family = "corners10" -> Corners(10)
    [] Family = "tric" -> TricInit(TricBR1, TricP1, TricD) [] Family = "tric2" -> TricInit(TricBR2, TricP1, TricD)
    [] Family = "multi3" -> MultiInit(MultiBR, Cluster, Tops, 3)
    [] Family = "multi4a" -> MultiInit(MultiBRa, Cluster5, Tops, 4)
    [] Family = "multi4b" -> MultiInit(MultiBRb, Cluster5, Tops, 4)
    [] OTHER -> TinyInit(MultiBR, Cluster)
Init == ph = 0 /\ MCFamilies
====
