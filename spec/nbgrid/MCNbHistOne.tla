---- MODULE MCNbHistOne ----
(* "one thing changes": frames = 3 boxes x 2 position sets.  Box 1/2: 4 (4,4,5) cells per direction at
   rc2 = 9 and 2 at rc2 = 36; box 3 triclinic (rc2 = 9 only).  P1: beads 5 apart (pairs/triples only
   for rc2 = 36, two cells apart in the rc2 = 9 layout); P2: a cluster around the wrap corner. *)
EXTENDS NbHist
MCBoxes == << MkBox(12, 0, 13, 0, 0, 14), MkBox(13, 0, 12, 0, 0, 15), MkBox(12, 6, 10, -6, 5, 13) >>
MCPoss == << << <<1, 1, 1>>, <<6, 1, 1>>, <<1, 6, 2>>, <<6, 6, 1>> >>,
             << <<0, 0, 0>>, <<2, 0, 0>>, <<-2, -1, 1>>, <<11, 1, 1>> >> >>
MCFrames == [q \in 1..6 |-> [B |-> MCBoxes[((q - 1) \div 2) + 1], pos |-> MCPoss[((q - 1) % 2) + 1]]]
MCTop == [typ |-> <<1, 2, 2, 3>>, mol |-> <<1, 1, 1, 1>>, ias |-> << <<1, 2>> >>]
MCPRuns == {Run("p", <<0>>, FALSE), Run("p", <<1, 2>>, FALSE)}
MCTRuns == {Run("t", <<0>>, FALSE), Run("t", <<1, 2>>, FALSE)}
====
