------------------------------ MODULE PbcProbe ------------------------------
(* What the specification says about one probe displacement rr for a box b handled as type
   typ ("open" | "ortho" | "tric"): the mode-L expectation of Pbc.tla in the record format the
   runner's vector check uses.  Shared by the history layers PbcHist and PbcBcHist.   *)
EXTENDS Pbc
P0 == <<1, -2, 3>>            \* position of the first point of every probe

ProbeExp(b, typ, rr) ==
  LET per == typ # "open"
      mi == IF per THEN SpecMI(b, rr) ELSE [d2 |-> Norm2(rr), mins |-> {rr}, cert |-> TRUE, nimg |-> 1]
  IN [r |-> rr, d2 |-> mi.d2, mins |-> mi.mins, cert |-> mi.cert,
      tie |-> per /\ (Cardinality(mi.mins) > 1 \/ AlgoTie(b, typ, rr)),
      exact |-> (~per \/ typ = "ortho" \/ BelowHalfHeight(b, mi.d2)),
      pairs |-> << [i |-> P0, j |-> VAdd(P0, rr),
                    algo |-> AlgoMI(b, typ, rr), algob |-> AlgoMI(b, typ, VNeg(rr))] >>]

=============================================================================
