SPECIFICATION Spec
CONSTANTS
  Calls <- MCCallsAll
  Probes <- MCProbes
  Depth = 3
  Emit = TRUE
INVARIANTS InvCert InvMemoryless InvProbe Leaf
CHECK_DEADLOCK FALSE
