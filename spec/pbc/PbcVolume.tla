------------------------------ MODULE PbcVolume ------------------------------
(* Volume of the parallelepiped for general (also left-handed, also skew, also
   degenerate) integer box matrices: |det|.  One vector per box; the heights and the
   minimum image are not asserted here (outside the property's quantifier).       *)
EXTENDS Pbc, TLC, Json
CONSTANTS Vecs, Emit
VARIABLES a, b, c, ph
vars == <<a, b, c, ph>>
Init == ph = 0 /\ a \in Vecs /\ b = Zero3 /\ c = Zero3
Next == ph = 0 /\ ph' = 1 /\ a' = a /\ b' \in Vecs /\ c' \in Vecs
Spec == Init /\ [][Next]_vars
B == Box(a, b, c)
\* |det| is invariant under permutation of the box vectors and equals base area x height
VolSym == ph = 1 => /\ Volume(B) = Volume(Box(b, a, c))
                    /\ Volume(B) = Volume(Box(c, a, b))
                    /\ Volume(B) >= 0
                    /\ Volume(B) * Volume(B) <= Norm2(a) * Norm2(b) * Norm2(c)    \* Hadamard
Vector == (ph = 1 /\ Emit) => PrintT(ToJson([box |-> <<a, b, c>>, vol |-> Volume(B), det |-> DetB(B)]))
=============================================================================
