------------------------------- MODULE PbcHist -------------------------------
(* Mode H for C02: one Topology object receives a HISTORY of setBox calls (trajectory
   readers call setBox for every frame; boxes change kind and size between frames).
   State: the sequence of calls made so far.  The statement is about "any periodic box":
   after every call the Topology must behave exactly like a fresh Topology that was given
   the LAST (matrix, requested type) only - nothing of an earlier box (type, size) may
   survive.  So the expectation attached to each call is the mode-L expectation of
   Pbc.tla for that last box: effective type, volume, shortest height, and the shortest
   images / transcription result for a few probe displacements (both directions, getDist).
   Alphabet: zero matrix (open), diagonal and GROMACS-reduced triclinic matrices of
   different sizes, each with "auto" and with the explicit types that are consistent
   with the matrix, "ortho" on a triclinic matrix (documented part only) and
   Topology::Cleanup().  After every call the runner also probes a BoundaryCondition::Clone()
   of the boundary and a Topology filled by CopyTopologyData: both must answer like the
   original.  TLC enumerates every history up to Depth; deeper ones by simulation. *)
EXTENDS PbcProbe, TLC, Json, Sequences

CONSTANTS Calls,      \* set of [box, req]
          Probes,     \* set of displacements
          Depth, Emit
VARIABLES h
vars == <<h>>

\* An explicitly requested type that does not match the matrix ("ortho" on a non-diagonal
\* matrix): only what is documented is expected - the requested type is reported, the matrix is
\* stored, the volume is that of the parallelepiped; no connection vector or height is asserted.
Loose(c) == c.req = "ortho" /\ ~IsDiagonal(c.box)
\* what a fresh Topology with this box answers.  req = "cleanup" is Topology::Cleanup():
\* the boundary becomes open (the stored matrix is unspecified afterwards).
StepExp(c) ==
  LET typ == IF c.req = "cleanup" THEN "open" ELSE EffType(c.box, c.req)
  IN [box |-> <<c.box.a, c.box.b, c.box.c>>, req |-> c.req, typ |-> typ, loose |-> Loose(c),
      vol |-> Volume(c.box),
      hn2 |-> IF IsZeroBox(c.box) THEN 0 ELSE ShortN2(c.box),
      probes |-> IF Loose(c) THEN {} ELSE {ProbeExp(c.box, typ, rr) : rr \in Probes}]

Init == h = <<>>
Next == /\ Len(h) < Depth
        /\ \E c \in Calls : h' = Append(h, StepExp(c))
Spec == Init /\ [][Next]_vars

\* ---- properties of the specification itself --------------------------------------------------
Last == h[Len(h)]
InvCert == h # <<>> => \A p \in Last.probes : p.cert
\* the expectation of a call does not depend on the calls before it
InvMemoryless == \A n \in 1..Len(h) : \E c \in Calls : h[n] = StepExp(c)
\* the transcription agrees with the statement on the probes (as in PbcVectors)
InvProbe == h # <<>> => \A p \in Last.probes :
              /\ (Last.typ # "open" /\ p.exact) => p.pairs[1].algo \in p.mins
              /\ Last.typ = "open" => p.pairs[1].algo = p.r
              /\ ~p.tie => p.pairs[1].algob = VNeg(p.pairs[1].algo)
CallsOK == \A c \in Calls : /\ IsZeroBox(c.box) \/ Reduced(c.box)
                            /\ c.req \in {"auto", "open", "cleanup"} \/ ~IsZeroBox(c.box)
                            /\ c.req = "cleanup" => IsZeroBox(c.box)
ASSUME CallsOK

StepJson(s) == [box |-> s.box, req |-> s.req, typ |-> s.typ, loose |-> s.loose, vol |-> s.vol, hn2 |-> s.hn2,
                probes |-> {[r |-> p.r, d2 |-> p.d2, mins |-> p.mins, tie |-> p.tie, exact |-> p.exact,
                             pairs |-> p.pairs] : p \in s.probes}]
Leaf == (Emit /\ Len(h) = Depth) => PrintT(ToJson([h |-> [n \in 1..Len(h) |-> StepJson(h[n])]]))
=============================================================================
