SPECIFICATION Spec
CONSTANTS
  OrthoEdges = {2, 3, 4, 5, 8, 9}
  TricEdges = {2, 3, 4, 5, 8}
  SlicesO = 8
  SlicesT = 211
  XRowO = 6
  XRowT = 3
  ExplicitThin = 7
  Slice <- MCSlice
  Emit = TRUE
INVARIANTS DomainOK InvLattice InvShortest InvAntisym InvShift InvTieStable InvOpen InvWindow InvSpecShift InvSpecSym InvMins InvTricOnDiag InvHeights InvType Vector
CHECK_DEADLOCK FALSE
