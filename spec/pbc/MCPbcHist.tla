---- MODULE MCPbcHist ----
EXTENDS PbcHist
C(b, rq) == [box |-> b, req |-> rq]
O1 == TriBox(4, 0, 4, 0, 0, 4)
O2 == TriBox(6, 0, 3, 0, 0, 5)
T1 == TriBox(4, 2, 4, 0, 0, 4)
T2 == TriBox(6, -3, 5, 3, 2, 4)
T3 == TriBox(3, 0, 4, 0, -2, 3)
\* quick: the three kinds, two sizes of each periodic kind, auto + a few explicit types
MCCallsQ == {C(ZeroBox, "auto"), C(O1, "auto"), C(O2, "auto"), C(T1, "auto"), C(T2, "auto"),
             C(O1, "tric"), C(T2, "open"), C(O2, "ortho"), C(T1, "ortho"), C(ZeroBox, "cleanup")}
MCCallsAll == MCCallsQ \cup {C(T3, "auto"), C(T1, "tric"), C(ZeroBox, "open"), C(O1, "open"), C(O2, "tric")}
MCProbes == {<<1, 0, 0>>, <<3, 2, -1>>, <<-5, 4, 7>>, <<2, 2, 2>>, <<0, -3, 1>>}
====
