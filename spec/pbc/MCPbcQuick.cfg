SPECIFICATION Spec
CONSTANTS
  OrthoEdges = {2, 3, 6}
  TricEdges = {2, 3, 4, 6}
  SlicesO = 1
  SlicesT = 71
  XRowO = 3
  XRowT = 2
  ExplicitThin = 7
  Slice <- MCSlice
  Emit = TRUE
INVARIANTS DomainOK InvLattice InvShortest InvAntisym InvShift InvTieStable InvOpen InvWindow InvSpecShift InvSpecSym InvMins InvTricOnDiag InvHeights InvType Vector
CHECK_DEADLOCK FALSE
