SPECIFICATION Spec
CONSTANTS
  Classes <- MCClasses
  BoxesOf <- MCBoxesOfQ
  Probes <- MCProbes
  Depth = 4
  Emit = TRUE
INVARIANTS InvCert InvIndependent Leaf
CHECK_DEADLOCK FALSE
