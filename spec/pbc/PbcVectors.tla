----------------------------- MODULE PbcVectors -----------------------------
(* Mode L for C02: every selected (box, requested type, displacement r) of the bounded
   lattice domain is one initial state.  `e` holds what the specification says about
   that point (computed once); the invariants are the design-level theorems
   (Algo refines Spec) and `Vector` prints one JSON test vector per state.

   Domain: all orthorhombic boxes with edges in OrthoEdges, all GROMACS-reduced
   triclinic integer boxes with diagonal in TricEdges (off-diagonals up to half the
   edge, equality included), the zero matrix; r in a cube reaching 3/2 box edges + 1
   in every direction; thinned deterministically (boxes by slice, r_x per (r_y, r_z) row) so
   that the tiers can scale; every point also with two shifted copies of the pair of
   points (a near and a far image, up to 4000 boxes apart).                      *)
EXTENDS Pbc, TLC, Json

CONSTANTS OrthoEdges, TricEdges, SlicesO, SlicesT, XRowO, XRowT, ExplicitThin, Slice, Emit
VARIABLES B, req, r, e, ph
vars == <<B, req, r, e, ph>>

MaxOff == MaxOfSet(TricEdges) \div 2
OrthoBoxes == {TriBox(x, 0, y, 0, 0, z) : x \in OrthoEdges, y \in OrthoEdges, z \in OrthoEdges}
TricBoxes == {b \in {TriBox(ax, bx, by, cx, cy, cz) :
                       ax \in TricEdges, by \in TricEdges, cz \in TricEdges,
                       bx \in (-MaxOff)..MaxOff, cx \in (-MaxOff)..MaxOff, cy \in (-MaxOff)..MaxOff} :
                Reduced(b) /\ ~IsDiagonal(b)}
AllBoxes == OrthoBoxes \cup TricBoxes \cup {ZeroBox}

Reqs(b) == IF IsZeroBox(b) THEN {"auto", "open"}
           ELSE IF IsDiagonal(b) THEN {"auto", "ortho", "tric", "open"}
           ELSE {"auto", "tric", "open"}
Reach(n) == (3 * n) \div 2 + 1
Range(n) == (-Reach(n))..Reach(n)

\* Thinning (structural, so that nothing is enumerated only to be filtered out): boxes are
\* selected by a hash (one slice out of SlicesO / SlicesT); for a selected box every (r_y, r_z)
\* row of the displacement cube is visited and XRowO / XRowT values of r_x are taken per row at
\* hashed positions (all of them if the row is shorter).  Explicitly requested types are
\* visited on every ExplicitThin-th row.  Multipliers are primes; every term stays far below 2^31.
BoxHash(b) == (b.a[1] * 15485863 + b.b[1] * 3245291 + b.b[2] * 4997981 + b.c[1] * 2750159
               + b.c[2] * 5800079 + b.c[3] * 9999991 + 500000000) % 1000003
BoxSelected(b) == \/ IsZeroBox(b)
                  \/ IsDiagonal(b) /\ BoxHash(b) % SlicesO = Slice % SlicesO
                  \/ ~IsDiagonal(b) /\ BoxHash(b) % SlicesT = Slice % SlicesT
RowHash(b, y, z) == (BoxHash(b) + y * 104729 + z * 1299709 + (Slice % 100000) * 7919 + 500000000) % 1000003
XSet(b, y, z) ==
  LET R == Reach(b.a[1])
      w == 2 * R + 1
      n == IF IsDiagonal(b) THEN XRowO ELSE XRowT
      h == RowHash(b, y, z)
  IN IF IsZeroBox(b) THEN -2..2
     ELSE IF n >= w THEN (-R)..R
     ELSE {-R + ((h + t * (h \div 1000 + 1)) % w) : t \in 0..(n - 1)}
YSet(b) == IF IsZeroBox(b) THEN -2..2 ELSE Range(b.b[2])
ZSet(b) == IF IsZeroBox(b) THEN -2..2 ELSE Range(b.c[3])
\* used for the choice of placements below
Hash(b, rr) == (RowHash(b, rr[2], rr[3]) + rr[1] * 7919 + 100000) % 1000003

\* positions of point i, and (k_i, k_j) image shifts applied to the two points
Offsets == << <<0, 0, 0>>, <<1, -2, 3>>, <<-5, 4, -1>>, <<7, 7, -6>> >>
NearShifts == << <<Zero3, <<1, 0, 0>> >>, << <<0, -1, 0>>, Zero3 >>, << <<0, 0, 1>>, <<0, 0, -1>> >>,
                 << <<1, 1, 1>>, <<-1, 2, 0>> >>, << <<3, -3, 2>>, <<-2, 0, -3>> >> >>
FarShifts == << << <<2000, -2000, 2000>>, Zero3 >>, << Zero3, <<-2000, 1999, -1>> >>,
                << <<-1500, 2, 700>>, <<1200, -2000, -2000>> >>,
                << <<-2000, -2000, -2000>>, <<2000, 2000, 2000>> >> >>

Expect(b, rq, rr) ==
  LET typ == EffType(b, rq)
      per == typ # "open"
      mi == IF per THEN SpecMI(b, rr) ELSE [d2 |-> Norm2(rr), mins |-> {rr}, cert |-> TRUE, nimg |-> 1]
      h == Hash(b, rr)
      p0 == Offsets[(h % 4) + 1]
      sh == IF per THEN << <<Zero3, Zero3>>, NearShifts[((h \div 4) % 5) + 1], FarShifts[((h \div 20) % 4) + 1] >>
                   ELSE << <<Zero3, Zero3>> >>
      mk(n) == LET s == sh[n]
                   pi == Image(b, p0, s[1])
                   pj == Image(b, VAdd(p0, rr), s[2])
                   rp == VSub(pj, pi)
                   \* the specification evaluated on the shifted displacement itself (far image
                   \* included): its own shift invariance, checked on the far copy
                   smi == IF n = 3 THEN SpecMI(b, rp) ELSE mi
               IN [i |-> pi, j |-> pj, rp |-> rp,
                   algo |-> AlgoMI(b, typ, rp), algob |-> AlgoMI(b, typ, VNeg(rp)),
                   atie |-> AlgoTie(b, typ, rp),
                   specsame |-> (smi.mins = mi.mins /\ smi.cert)]
  IN [typ |-> typ, per |-> per, d2 |-> mi.d2, mins |-> mi.mins, cert |-> mi.cert, nimg |-> mi.nimg,
      tie |-> per /\ (Cardinality(mi.mins) > 1 \/ AlgoTie(b, typ, rr)),
      exact |-> (~per \/ typ = "ortho" \/ BelowHalfHeight(b, mi.d2)),
      pairs |-> [n \in 1..Len(sh) |-> mk(n)],
      vol |-> Volume(b),
      hn2 |-> IF IsZeroBox(b) THEN 0 ELSE ShortN2(b)]

\* Phase 0: one initial state per selected box.  Phase 1: its successors, one per visited
\* (req, r).  (TLC computes initial states with one thread but expands them with all workers.)
Init == /\ B \in AllBoxes /\ BoxSelected(B)
        /\ ph = 0 /\ req = "auto" /\ r = Zero3 /\ e = [typ |-> "none"]
Next == /\ ph = 0 /\ ph' = 1 /\ B' = B
        /\ \E y \in YSet(B), z \in ZSet(B) :
             \E rq \in Reqs(B) :
               /\ (rq = "auto" \/ IsZeroBox(B) \/ RowHash(B, y, z) % ExplicitThin = 0)
               /\ \E x \in XSet(B, y, z) :
                    /\ req' = rq
                    /\ r' = <<x, y, z>>
                    /\ e' = Expect(B, rq, <<x, y, z>>)
Spec == Init /\ [][Next]_vars

NP == Len(e.pairs)
V == ph = 1          \* the state is a vector
\* ---- design-level theorems ----------------------------------------------------------
DomainOK == IsZeroBox(B) \/ (Reduced(B) /\ DetB(B) > 0)
\* result - r is an integer combination of the box vectors
InvLattice == (V /\ e.per) => \A n \in 1..NP : /\ InLattice(B, VSub(e.pairs[n].algo, e.pairs[n].rp))
                                               /\ InLattice(B, VAdd(e.pairs[n].algob, e.pairs[n].rp))
\* shortest of all images: always for orthorhombic, below half the shortest height for triclinic
\* (on ties this says "equally short", nothing more)
InvShortest == (V /\ e.per /\ e.exact) => \A n \in 1..NP : /\ Norm2(e.pairs[n].algo) = e.d2
                                                              /\ Norm2(e.pairs[n].algob) = e.d2
                                                              /\ e.pairs[n].algo \in e.mins
\* swapping the points changes the sign (non-tie inputs)
InvAntisym == (V /\ ~e.tie) => \A n \in 1..NP : e.pairs[n].algob = VNeg(e.pairs[n].algo)
\* moving either point by whole box vectors changes nothing (non-tie inputs)
InvShift == (V /\ ~e.tie) => \A n \in 1..NP : e.pairs[n].algo = e.pairs[1].algo
InvTieStable == V => \A n \in 1..NP : e.pairs[n].atie = e.pairs[1].atie
InvOpen == (V /\ ~e.per) => (e.pairs[1].algo = r /\ e.pairs[1].algob = VNeg(r) /\ e.mins = {r})
\* the brute-force window provably contains every shortest image
InvWindow == V => e.cert
\* the specification's own symmetries (far images included)
InvSpecShift == V => \A n \in 1..NP : e.pairs[n].specsame
InvSpecSym == (V /\ e.per /\ Hash(B, r) % 5 = 0) => SpecMins(B, VNeg(r)) = {VNeg(v) : v \in e.mins}
InvMins == V => /\ e.mins # {}
                /\ e.d2 <= Norm2(r)
                /\ \A v \in e.mins : Norm2(v) = e.d2 /\ (e.per => InLattice(B, VSub(v, r)))
\* a diagonal matrix treated as triclinic behaves like the orthorhombic box
InvTricOnDiag == (V /\ IsDiagonal(B) /\ ~IsZeroBox(B)) => AlgoMITric(B, r) = AlgoMIOrtho(B, r)
\* heights: orthorhombic -> smallest edge; triangular -> height over the ab face is c_z
InvHeights == ~IsZeroBox(B) =>
                /\ FaceN2(B, 3) * B.c[3] * B.c[3] = Volume(B) * Volume(B)
                /\ (IsDiagonal(B) => (LET m == MinOfSet({B.a[1], B.b[2], B.c[3]})
                                       IN ShortN2(B) * m * m = Volume(B) * Volume(B)))
                /\ Volume(B) = B.a[1] * B.b[2] * B.c[3]
InvType == V => e.typ = (IF req # "auto" THEN req
                         ELSE IF B = ZeroBox THEN "open"
                         ELSE IF B.b[1] = 0 /\ B.c[1] = 0 /\ B.c[2] = 0 THEN "ortho" ELSE "tric")
\* vacuity guards, evaluated by the runner from the exported vectors: ties, non-exact
\* triclinic points and far shifts must all occur.

PairJson(p) == [i |-> p.i, j |-> p.j, algo |-> p.algo, algob |-> p.algob]
Vector == (V /\ Emit) =>
            PrintT(ToJson([box |-> <<B.a, B.b, B.c>>, req |-> req, typ |-> e.typ, r |-> r,
                           d2 |-> e.d2, mins |-> e.mins, tie |-> e.tie, exact |-> e.exact,
                           pairs |-> [n \in 1..NP |-> PairJson(e.pairs[n])],
                           vol |-> e.vol, hn2 |-> e.hn2, nimg |-> e.nimg]))
=============================================================================
