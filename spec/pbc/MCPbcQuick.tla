---- MODULE MCPbcQuick ----
EXTENDS PbcVectors, IOUtils
\* which slice of the thinned domain: chosen by the runner from the seed
MCSlice == atoi(IOEnv.C02_SLICE)
====
