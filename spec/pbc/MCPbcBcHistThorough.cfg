SPECIFICATION Spec
CONSTANTS
  Classes <- MCClasses
  BoxesOf <- MCBoxesOf
  Probes <- MCProbes
  Depth = 5
  Emit = TRUE
INVARIANTS InvCert InvIndependent Leaf
CHECK_DEADLOCK FALSE
