------------------------------ MODULE TracePbc ------------------------------
(* Opposite direction for C02: the real code ran on lattice inputs chosen by the
   runner (random boxes, points thousands of boxes apart; or vectors on which the
   code disagreed with the transcription) and logged what it observed.  TLC judges
   every record with the operators of Pbc.tla and prints one verdict per record:
       record:  id, box = <<a, b, c>>, typ (effective type: "ortho" | "tric" | "open"),
                r = r_j - r_i (lattice integers, may be far), d = observed connection vector
       verdict: id, inlat (d - r is an integer combination of the box vectors),
                exact (the statement promises the shortest image here),
                short (|d| is the length of the shortest image), tie, d2, algo
   No large number is squared: the shortest image is searched starting from the
   observed d (an image of r exactly when inlat holds), and d too large to be
   anywhere near shortest is rejected by the Big guard.                          *)
EXTENDS Pbc, TLC, Json, IOUtils

Recs == ndJsonDeserialize(IOEnv.TRACE)
Chunk == 64
VARIABLES i, ph
vars == <<i, ph>>
NChunks == (Len(Recs) + Chunk - 1) \div Chunk
Init == ph = 0 /\ i \in 1..NChunks
Next == /\ ph = 0 /\ ph' = 1
        /\ i' \in {j \in ((i - 1) * Chunk + 1)..(i * Chunk) : j <= Len(Recs)}
Spec == Init /\ [][Next]_vars

R == Recs[i]
BoxOf(x) == Box(x.box[1], x.box[2], x.box[3])
\* boxes of the trace have edges <= 16 lattice units (keeps every product below 2^31), so the shortest image has |component| <= 50
Big(v) == \E c \in 1..3 : Abs(v[c]) > 1000

Judge(x) ==
  LET b == BoxOf(x)
      per == x.typ # "open"
      big == Big(x.d)
      inlat == IF per THEN InLattice(b, VSub(x.d, x.r)) ELSE x.d = x.r
      mi == IF per /\ ~big THEN SpecMI(b, x.d) ELSE [d2 |-> 0, mins |-> {}, cert |-> TRUE, nimg |-> 0]
      exact == ~per \/ x.typ = "ortho" \/ (~big /\ BelowHalfHeight(b, mi.d2))
  IN [id |-> x.id, inlat |-> inlat, exact |-> exact,
      short |-> IF ~per THEN x.d = x.r ELSE (~big /\ Norm2(x.d) = mi.d2),
      tie |-> per /\ (Cardinality(mi.mins) > 1 \/ AlgoTie(b, x.typ, x.r)),
      cert |-> mi.cert, d2 |-> mi.d2, algo |-> AlgoMI(b, x.typ, x.r)]

WellFormed == ph = 0 \/ (R.typ = "open" \/ (Reduced(BoxOf(R)) /\ \A c \in 1..3 : Diag(BoxOf(R))[c] <= 16))
Certified == ph = 0 \/ Judge(R).cert
Verdict == ph = 0 \/ PrintT(ToJson(Judge(R)))
=============================================================================
