SPECIFICATION Spec
CONSTANTS
  Vecs <- MCVecs
  Emit = TRUE
INVARIANTS VolSym Vector
CHECK_DEADLOCK FALSE
