-------------------------------- MODULE Pbc --------------------------------
(* Periodic boundary conditions of votca::csg on an integer lattice.

   One lattice unit is 1/8 nm.  A box is a record [a, b, c] of its three box
   vectors (= the COLUMNS of BoundaryCondition::box_).  Everything is exact
   integer arithmetic.

   Two definitions of "connection vector from point i to point j":
     Spec...  the meaning in the property statement: the images r + B k (k in Z^3)
              of the plain difference r = r_j - r_i; the shortest ones (a set, more
              than one element on a tie), found by brute force over a window of
              images that provably contains every shortest image;
     Algo...  a transcription of OrthorhombicBox / TriclinicBox / OpenBox
              ::BCShortestConnection with std::round = round-half-away.          *)
EXTENDS Lattice3, FiniteSets

\* ---- boxes -------------------------------------------------------------------
Box(a, b, c) == [a |-> a, b |-> b, c |-> c]
\* GROMACS-style box: a along x, b in the xy plane
TriBox(ax, bx, by, cx, cy, cz) == Box(<<ax, 0, 0>>, <<bx, by, 0>>, <<cx, cy, cz>>)
ZeroBox == Box(Zero3, Zero3, Zero3)
Diag(B) == <<B.a[1], B.b[2], B.c[3]>>

IsZeroBox(B) == B.a = Zero3 /\ B.b = Zero3 /\ B.c = Zero3
IsDiagonal(B) == /\ B.a[2] = 0 /\ B.a[3] = 0
                 /\ B.b[1] = 0 /\ B.b[3] = 0
                 /\ B.c[1] = 0 /\ B.c[2] = 0
Triangular(B) == /\ B.a[2] = 0 /\ B.a[3] = 0 /\ B.b[3] = 0
                 /\ B.a[1] > 0 /\ B.b[2] > 0 /\ B.c[3] > 0
\* the GROMACS reduction conditions, equalities included
Reduced(B) == /\ Triangular(B)
              /\ 2 * Abs(B.b[1]) <= B.a[1]
              /\ 2 * Abs(B.c[1]) <= B.a[1]
              /\ 2 * Abs(B.c[2]) <= B.b[2]

\* Topology::setBox: requested type "auto" | "tric" | "ortho" | "open";
\* Topology::autoDetectBoxType: zero matrix -> open, diagonal -> orthorhombic, else triclinic
AutoType(B) == IF IsZeroBox(B) THEN "open" ELSE IF IsDiagonal(B) THEN "ortho" ELSE "tric"
EffType(B, req) == IF req = "auto" THEN AutoType(B) ELSE req

\* ---- volume and heights ------------------------------------------------------
DetB(B) == Det3(B.a, B.b, B.c)
Volume(B) == Abs(DetB(B))
\* (unnormalised) normal of the face spanned by the other two box vectors;
\* Normal(B,i) . (box vector j) = DetB * delta_ij
Normal(B, i) == CASE i = 1 -> Cross(B.b, B.c)
                  [] i = 2 -> Cross(B.c, B.a)
                  [] i = 3 -> Cross(B.a, B.b)
FaceN2(B, i) == Norm2(Normal(B, i))
\* height over face i is h_i = V / |n_i|, i.e. h_i^2 * FaceN2(B,i) = V^2; the shortest
\* height belongs to the largest normal:  hmin^2 * ShortN2(B) = Volume(B)^2
ShortN2(B) == MaxOfSet({FaceN2(B, i) : i \in 1..3})
\* a vector of squared length x2 is shorter than half the shortest box height
BelowHalfHeight(B, x2) == 4 * x2 * ShortN2(B) < Volume(B) * Volume(B)
AboveHalfHeight(B, x2) == 4 * x2 * ShortN2(B) > Volume(B) * Volume(B)

\* ---- the lattice ---------------------------------------------------------------
Image(B, r, k) == Comb3(r, k, B.a, B.b, B.c)
\* w = B k for an integer k  <=>  every k_i = (w . n_i) / det is an integer  (Cramer)
InLattice(B, w) == \A i \in 1..3 : Dot(w, Normal(B, i)) % Volume(B) = 0

\* ---- Spec: shortest images by brute force ------------------------------------------
\* (for boxes with DetB > 0)
\* s_i = (r . n_i) / det are the fractional coordinates of r.  Rounding them gives SOME image
\* of r; its squared length q is an upper bound on the minimum.  An image r + B k lies on a
\* lattice plane at distance |k_i + s_i| h_i from the plane through the origin, hence
\*        |r + B k|^2 >= (k_i det + r.n_i)^2 / |n_i|^2        for i = 1,2,3,
\* and only k with (k_i det + r.n_i)^2 <= q |n_i|^2 (i = 1,2,3) can be as short as q.  The
\* left side is convex in k_i, so the admissible k_i form an interval around -s_i; Pad bounds
\* the scan for it and `cert` states that both ends of the scan range were inadmissible, i.e.
\* the window contains EVERY image that can be shortest (the image range is part of the
\* specification: with too few images a brute-force oracle reports spurious mismatches).
Pad == 8
SpecMI(B, r) ==
  LET det == DetB(B)
      n == <<Normal(B, 1), Normal(B, 2), Normal(B, 3)>>
      fn == <<Dot(r, n[1]), Dot(r, n[2]), Dot(r, n[3])>>
      f2 == <<Norm2(n[1]), Norm2(n[2]), Norm2(n[3])>>
      k0 == <<-RoundHalfAway(fn[1], det), -RoundHalfAway(fn[2], det), -RoundHalfAway(fn[3], det)>>
      q == Norm2(Image(B, r, k0))
      ok(i, k) == LET t == k * det + fn[i] IN t * t <= q * f2[i]
      C(i) == {k \in (k0[i] - Pad)..(k0[i] + Pad) : ok(i, k)}
      C1 == C(1)
      C2 == C(2)
      C3 == C(3)
      S == {Image(B, r, <<k1, k2, k3>>) : k1 \in C1, k2 \in C2, k3 \in C3}
      m == MinOfSet({Norm2(v) : v \in S})
  IN  [d2 |-> m,                                  \* squared length of the shortest image(s)
       mins |-> {v \in S : Norm2(v) = m},         \* the set of shortest images
       cert |-> \A i \in 1..3 : /\ ~ok(i, k0[i] - Pad - 1) /\ ~ok(i, k0[i] + Pad + 1)
                                 /\ ok(i, k0[i]),
       nimg |-> Cardinality(S)]
SpecD2(B, r) == SpecMI(B, r).d2
SpecMins(B, r) == SpecMI(B, r).mins

\* ---- Algo: transcriptions ------------------------------------------------------
\* OrthorhombicBox: r_ij - box.diagonal * round(r_ij / box.diagonal), component-wise
AlgoMIOrtho(B, r) ==
  <<r[1] - B.a[1] * RoundHalfAway(r[1], B.a[1]),
    r[2] - B.b[2] * RoundHalfAway(r[2], B.b[2]),
    r[3] - B.c[3] * RoundHalfAway(r[3], B.c[3])>>
\* TriclinicBox: z, then y, then x reduction with the box columns
AlgoMITric(B, r) ==
  LET rdp == VSub(r, VScale(RoundHalfAway(r[3], B.c[3]), B.c))
      rsp == VSub(rdp, VScale(RoundHalfAway(rdp[2], B.b[2]), B.b))
  IN  VSub(rsp, VScale(RoundHalfAway(rsp[1], B.a[1]), B.a))
AlgoMIOpen(B, r) == r
AlgoMI(B, typ, r) == CASE typ = "open" -> AlgoMIOpen(B, r)
                       [] typ = "ortho" -> AlgoMIOrtho(B, r)
                       [] typ = "tric" -> AlgoMITric(B, r)

\* x / d is exactly half-integer (d > 0): the argument of a round() sits on a tie
HalfInt(x, d) == (2 * x) % (2 * d) = d
AlgoTie(B, typ, r) ==
  CASE typ = "open" -> FALSE
    [] typ = "ortho" -> HalfInt(r[1], B.a[1]) \/ HalfInt(r[2], B.b[2]) \/ HalfInt(r[3], B.c[3])
    [] typ = "tric" ->
         LET rdp == VSub(r, VScale(RoundHalfAway(r[3], B.c[3]), B.c))
             rsp == VSub(rdp, VScale(RoundHalfAway(rdp[2], B.b[2]), B.b))
         IN HalfInt(r[3], B.c[3]) \/ HalfInt(rdp[2], B.b[2]) \/ HalfInt(rsp[1], B.a[1])

ASSUME /\ HalfInt(3, 2) /\ HalfInt(-3, 2) /\ ~HalfInt(2, 2) /\ HalfInt(-1, 2) /\ ~HalfInt(-4, 3)
       /\ AlgoMITric(TriBox(4, 2, 4, 0, 0, 4), <<3, 3, 0>>) = <<1, -1, 0>>
       /\ SpecD2(TriBox(4, 2, 4, 0, 0, 4), <<3, 3, 0>>) = 2
       /\ SpecMins(TriBox(4, 0, 4, 0, 0, 4), <<2, 0, 0>>) = {<<2, 0, 0>>, <<-2, 0, 0>>}
=============================================================================
