------------------------------ MODULE PbcBcHist ------------------------------
(* Mode H on BoundaryCondition OBJECTS (Topology::setBox builds a new boundary object on every
   call, so the Topology-level histories of PbcHist never use one object twice).
   Two objects of one concrete class (OpenBox / OrthorhombicBox / TriclinicBox): `o`, created
   either directly or as a Clone() of a Topology's boundary, and `c`, a Clone() of `o` taken at
   some point.  Actions, all through the public API:
       SetBox(x, B)   x->setBox(B)   (NPT: a held boundary condition is updated per frame)
       Query(x)       getBoxType, BoxVolume, getBox, getShortestBoxDimension, BCShortestConnection
                      (both directions) for the probe displacements
       CloneO         c = o->Clone()
   The expectation of a query is the mode-L expectation for the LAST box set on THAT object with
   that object's class - nothing of an earlier box may survive (e.g. in a cache filled by an
   earlier query), and a clone is independent of its source in both directions.          *)
EXTENDS PbcProbe, TLC, Json, Sequences

CONSTANTS Classes,        \* subset of {"open", "ortho", "tric"}
          BoxesOf(_),     \* boxes an object of that class is given
          Probes, Depth, Emit
VARIABLES cls, how, o0, o, c, hasc, h
vars == <<cls, how, o0, o, c, hasc, h>>

B3(b) == <<b.a, b.b, b.c>>
QueryExp(x, b) ==
  [op |-> "query", obj |-> x, box |-> B3(b), typ |-> cls, req |-> cls,
   vol |-> Volume(b), hn2 |-> IF cls = "open" THEN 0 ELSE ShortN2(b),
   probes |-> {ProbeExp(b, cls, rr) : rr \in Probes}]

Init == /\ cls \in Classes
        /\ how \in {"new", "top"}          \* constructed directly / Clone() of a Topology's boundary
        /\ o \in BoxesOf(cls)
        /\ o0 = o /\ c = o /\ hasc = FALSE
        /\ h = <<>>
SetBox(x) == \E b \in BoxesOf(cls) :
               /\ IF x = "o" THEN o' = b /\ c' = c ELSE c' = b /\ o' = o
               /\ h' = Append(h, [op |-> "set", obj |-> x, box |-> B3(b)])
               /\ UNCHANGED hasc
Query(x) == /\ h' = Append(h, QueryExp(x, IF x = "o" THEN o ELSE c))
            /\ UNCHANGED <<o, c, hasc>>
CloneO == /\ c' = o /\ hasc' = TRUE
          /\ h' = Append(h, [op |-> "clone"])
          /\ UNCHANGED o
Objs == IF hasc THEN {"o", "c"} ELSE {"o"}
Next == /\ Len(h) < Depth
        /\ \/ \E x \in Objs : SetBox(x) \/ Query(x)
           \/ CloneO
        /\ UNCHANGED <<cls, how, o0>>
Spec == Init /\ [][Next]_vars

BoxesOK == \A k \in Classes : \A b \in BoxesOf(k) :
             /\ k = "ortho" => (IsDiagonal(b) /\ Reduced(b))
             /\ k = "tric" => Reduced(b)
             /\ k = "open" => (IsZeroBox(b) \/ Reduced(b))
ASSUME BoxesOK
InvCert == (h # <<>> /\ h[Len(h)].op = "query") => \A p \in h[Len(h)].probes : p.cert
\* a query of the clone answers for the clone's own last box even after the source changed
InvIndependent == (h # <<>> /\ h[Len(h)].op = "query") =>
                    h[Len(h)].box = B3(IF h[Len(h)].obj = "o" THEN o ELSE c)

OpJson(s) == IF s.op = "query"
             THEN [op |-> s.op, obj |-> s.obj, box |-> s.box, typ |-> s.typ, req |-> s.req, vol |-> s.vol,
                   hn2 |-> s.hn2,
                   probes |-> {[r |-> p.r, d2 |-> p.d2, mins |-> p.mins, tie |-> p.tie, exact |-> p.exact,
                                pairs |-> p.pairs] : p \in s.probes}]
             ELSE s
\* only histories that end with a query are worth replaying
Leaf == (Emit /\ Len(h) = Depth /\ h[Len(h)].op = "query") =>
          PrintT(ToJson([cls |-> cls, how |-> how, init |-> B3(o0), h |-> [n \in 1..Len(h) |-> OpJson(h[n])]]))
=============================================================================
