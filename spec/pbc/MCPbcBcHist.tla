---- MODULE MCPbcBcHist ----
EXTENDS PbcBcHist
O1 == TriBox(4, 0, 4, 0, 0, 4)
O2 == TriBox(6, 0, 3, 0, 0, 5)
O3 == TriBox(8, 0, 8, 0, 0, 2)
T1 == TriBox(4, 2, 4, 0, 0, 4)
T2 == TriBox(6, -3, 5, 3, 2, 4)
MCBoxesOfQ(k) == IF k = "ortho" THEN {O1, O2} ELSE IF k = "tric" THEN {T1, T2, O1} ELSE {ZeroBox, T1}
MCBoxesOf(k) == IF k = "ortho" THEN {O1, O2, O3} ELSE IF k = "tric" THEN {T1, T2, O1, O2} ELSE {ZeroBox, T1, O2}
MCClasses == {"open", "ortho", "tric"}
MCProbes == {<<1, 0, 0>>, <<3, 2, -1>>, <<-5, 4, 7>>, <<2, 2, 2>>}
====
