---------------------------- MODULE CArith ----------------------------
(* Integer arithmetic with the semantics of C/C++ (truncation toward zero) and the
   rounding functions the code uses, defined explicitly because TLA+'s own \div and %
   are floor-style ((-7) % 3 = 2, (-7) \div 2 = -4).                               *)
EXTENDS Integers

Abs(x) == IF x < 0 THEN -x ELSE x
Sgn(x) == IF x < 0 THEN -1 ELSE IF x > 0 THEN 1 ELSE 0
Min2(a, b) == IF a <= b THEN a ELSE b
Max2(a, b) == IF a >= b THEN a ELSE b

\* floor(a / b) for b # 0
FloorDiv(a, b) == IF b > 0 THEN a \div b ELSE (-a) \div (-b)
\* mathematical modulo, result in 0..|b|-1
MathMod(a, b) == a - Abs(b) * FloorDiv(a, Abs(b))
\* C: a / b truncates toward zero
CDiv(a, b) == Sgn(a) * Sgn(b) * (Abs(a) \div Abs(b))
\* C: a % b has the sign of a
CMod(a, b) == a - b * CDiv(a, b)
\* ceil(a / b)
CeilDiv(a, b) == -FloorDiv(-a, b)
\* std::round(a / b): half away from zero
RoundHalfAway(a, b) ==
  LET n == IF b > 0 THEN a ELSE -a
      d == Abs(b)
  IN  IF n >= 0 THEN (2 * n + d) \div (2 * d) ELSE -((2 * (-n) + d) \div (2 * d))
\* floor(a / b + 1/2)
FloorHalfUp(a, b) == FloorDiv(2 * a + b, 2 * b)

Gcd(a, b) == LET RECURSIVE G(_, _)
                 G(x, y) == IF y = 0 THEN x ELSE G(y, x % y)
             IN G(Abs(a), Abs(b))
Lcm(a, b) == IF a = 0 \/ b = 0 THEN 0 ELSE Abs(a * b) \div Gcd(a, b)

\* integer square root (floor), for small arguments
Isqrt(n) == CHOOSE r \in 0..(n + 1) : r * r <= n /\ (r + 1) * (r + 1) > n

ASSUME /\ CDiv(-7, 2) = -3 /\ CMod(-7, 3) = -1 /\ CMod(7, -3) = 1
       /\ FloorDiv(-7, 2) = -4 /\ MathMod(-7, 3) = 2
       /\ RoundHalfAway(5, 2) = 3 /\ RoundHalfAway(-5, 2) = -3 /\ RoundHalfAway(-3, 2) = -2
       /\ RoundHalfAway(7, 5) = 1 /\ RoundHalfAway(-7, 5) = -1
       /\ FloorHalfUp(-1, 2) = 0 /\ FloorHalfUp(1, 2) = 1 /\ FloorHalfUp(-3, 2) = -1
=======================================================================
