---------------------------- MODULE Lattice3 ----------------------------
(* Integer 3-vectors (tuples <<x,y,z>>), the usual products, and small folds.
   All quantities are exact integers; TLC integers are 32-bit, so callers keep
   every intermediate below 2^31 (TLC reports an overflow as an error, it does
   not wrap).                                                                  *)
EXTENDS Integers, Sequences, CArith

Zero3 == <<0, 0, 0>>
VAdd(u, v) == <<u[1] + v[1], u[2] + v[2], u[3] + v[3]>>
VSub(u, v) == <<u[1] - v[1], u[2] - v[2], u[3] - v[3]>>
VNeg(u) == <<-u[1], -u[2], -u[3]>>
VScale(k, u) == <<k * u[1], k * u[2], k * u[3]>>
Dot(u, v) == u[1] * v[1] + u[2] * v[2] + u[3] * v[3]
Cross(u, v) == <<u[2] * v[3] - u[3] * v[2], u[3] * v[1] - u[1] * v[3], u[1] * v[2] - u[2] * v[1]>>
Norm2(u) == Dot(u, u)
\* determinant of the matrix with columns a, b, c
Det3(a, b, c) == Dot(a, Cross(b, c))

\* a + k1*b1 + k2*b2 + k3*b3
Comb3(r, k, b1, b2, b3) ==
  <<r[1] + k[1] * b1[1] + k[2] * b2[1] + k[3] * b3[1],
    r[2] + k[1] * b1[2] + k[2] * b2[2] + k[3] * b3[2],
    r[3] + k[1] * b1[3] + k[2] * b2[3] + k[3] * b3[3]>>

\* minimum / maximum of a non-empty finite set of integers
MinOfSet(S) == CHOOSE x \in S : \A y \in S : x <= y
MaxOfSet(S) == CHOOSE x \in S : \A y \in S : x >= y

\* sum of f[i] for i in lo..hi (f any function / sequence of integers)
RECURSIVE SumRange(_, _, _)
SumRange(f, lo, hi) == IF lo > hi THEN 0 ELSE f[lo] + SumRange(f, lo + 1, hi)
\* component-wise sum of a sequence of vectors
RECURSIVE VSumRange(_, _, _)
VSumRange(f, lo, hi) == IF lo > hi THEN Zero3 ELSE VAdd(f[lo], VSumRange(f, lo + 1, hi))

ASSUME /\ Cross(<<1, 0, 0>>, <<0, 1, 0>>) = <<0, 0, 1>>
       /\ Det3(<<2, 0, 0>>, <<1, 3, 0>>, <<-1, 1, 5>>) = 30
       /\ Det3(<<0, 3, 0>>, <<2, 0, 0>>, <<0, 0, 5>>) = -30
=======================================================================
