------------------------------ MODULE TSCases ------------------------------
(* Mode L for C19.  One state = one case (script, options, input tables) chosen by TLC as a
   deterministic function of (op, n, seed) through the integer hash Rnd, so that TLC - not the
   test runner - decides every table entry.  For every case TLC checks the algebra of the
   documented operators (invariants below) and prints the case together with the expected
   output (Vector); harness/python/engines/c19.py runs the real script on exactly that input.   *)
EXTENDS TableScripts, TLC, Json

CONSTANTS OpSet, NSet, SeedSet, Emit
VARIABLES cs, ph
vars == <<cs, ph>>

\* ---- integer hash, all intermediates below 2^31 (same as spec/statimc) ----------------------
Rnd(s, i) ==
  LET a == (s * 257 + i * 8191 + 13) % 32749
      b == (a * a + 7 * a + 11) % 32749
  IN (b * 3571 + a) % 32749
Pick(s, i, n) == Rnd(s, i) % n                     \* 0..n-1
PickSeq(s, i, q) == q[1 + Pick(s, i, Len(q))]

Cyc(q, i) == q[1 + (i % Len(q))]       \* enumerated option values are cycled through (n + seed), so that every tier uses each
OpNames == <<"update_ibi_pot", "dist_boltzmann_invert", "table_linearop", "table_linearop_x", "table_combine",
             "table_combine_sum", "merge_tables", "add_POT", "table_scale", "table_integrate",
             "resample_derivative", "integrate_derivative", "potential_shift", "table_smooth",
             "table_extrapolate", "potential_extrapolate", "table_get_value", "table_change_flag",
             "table_dummy", "table_average", "dist_adjust", "table_switch_border", "resample_same", "average_linearop",
             "table_combine_die", "resample_spline">>
OpIdx(op) == CHOOSE i \in 1..Len(OpNames) : OpNames[i] = op

\* ---- generators ------------------------------------------------------------------------------
HOf(sd) == PickSeq(sd, 2, <<<<1, 4>>, <<1, 2>>, <<1, 1>>, <<1, 8>>>>)
YD(sd) == PickSeq(sd, 3, <<1, 2, 4>>)
RY(sd, salt, n) == [k \in 1..n |-> RN(Pick(sd, salt + k, 33) - 16, YD(sd))]
CoreA(sd, salt, n) == Pick(sd, salt + 1, 1 + (n - 1) \div 3)
CoreB(sd, salt, n) == Pick(sd, salt + 2, 1 + (n - 1) \div 3)
FlagFam(sd, salt, n, fam) ==
  CASE fam = 0 -> [k \in 1..n |-> "i"]
    [] fam = 1 -> [k \in 1..n |-> IF k <= CoreA(sd, salt, n) \/ k > n - CoreB(sd, salt, n) THEN "o" ELSE "i"]
    [] fam = 2 -> [k \in 1..n |-> PickSeq(sd, salt + 10 + k, <<"i", "i", "o">>)]
    [] fam = 3 -> [k \in 1..n |-> PickSeq(sd, salt + 10 + k, <<"i", "i", "i", "o", "u">>)]
RFlags(sd, salt, n) == FlagFam(sd, salt, n, Pick(sd, salt, 4))
RTab(sd, salt, n) == Tab(RY(sd, salt, n), RFlags(sd, salt + 500, n))
RndE(sd, salt, n) == [k \in 1..n |-> LET r == Pick(sd, salt + k, 9) IN IF r = 0 THEN Z ELSE r - 5]
CSeq == <<<<1, 1>>, <<2, 1>>, <<1, 2>>, <<3, 1>>, <<5, 2>>>>
Coef(sd, i) == PickSeq(sd, i, <<<<-1, 1>>, <<2, 1>>, <<1, 2>>, <<0, 1>>, <<-3, 4>>, <<1, 1>>, <<5, 2>>>>)

\* grid offsets: equidistant, or strictly increasing with gaps 1..3 (every second case)
RECURSIVE GapG(_, _)
GapG(sd, n) == IF n = 1 THEN <<0>> ELSE LET p == GapG(sd, n - 1) IN Append(p, p[n - 1] + 1 + Pick(sd, 1200 + n, 3))
GOf(sd, n) == IF Pick(sd, 11, 2) = 0 THEN UniformG(n) ELSE GapG(sd, n)
UniformOnly == {"table_switch_border", "table_dummy", "resample_same", "resample_spline"}
\* input-file variants that must not matter (CsgFunctions.pm readin_table: "the last column is the flag"):
\*   e4  : the input tables carry an error column, x y yerr flag (as written by table_average.sh / csg_fmatch), and the
\*         tool is run WITHOUT --with-errors: same result as for the 3-column table with the same x, y, flag
\*   zsp : how an exact zero is spelt in the input files
\*   twice: the operator is idempotent: the script is run again on its own output, script(script(t)) = script(t)
FourColOps == {"update_ibi_pot", "dist_boltzmann_invert", "table_linearop", "table_linearop_x", "table_combine",
               "table_combine_sum", "merge_tables", "add_POT", "table_scale", "table_integrate", "integrate_derivative",
               "potential_shift", "table_smooth", "table_extrapolate", "potential_extrapolate", "table_get_value",
               "table_average", "dist_adjust", "table_switch_border"}
IdemOps == {"potential_shift", "dist_adjust", "table_change_flag", "table_extrapolate", "potential_extrapolate", "merge_tables"}
PotL(type, lf) == IF lf # "" THEN lf ELSE IF type = "non-bonded" THEN "exponential" ELSE "linear"
PotR(type, rf) == IF rf # "" THEN rf ELSE PotDefaultR(type)
PotOK(t, xs, type, lf, rf, A) ==          \* the documented formulas are defined and stay in the range of doubles
  LET l == PotL(type, lf) r == PotR(type, rf) Ar == IF type = "non-bonded" THEN 1 ELSE A
  IN /\ l \in {"sasha", "exponential"} => ExtrapolateDefined(t, l, "left", A)
     /\ r \in {"sasha", "exponential"} => ExtrapolateDefined(t, r, "right", Ar)
     /\ r = "periodic" => l # "exponential"           \* the right side would end at an irrational value
     /\ \A p \in PotExtrapolate(t, xs, type, l, r, A, <<10000, 1>>).lg : RLe(RAbs(p[3]), RI(20))
\* exponential extrapolation is defined (y0 # 0) and stays in the range of doubles: |ln(y/y0)| <= 20 everywhere
ExpOK(t, xs, A) ==
  /\ ExtrapolateDefined(t, "exponential", "leftright", A)
  /\ \A p \in Extrapolate(t, xs, "exponential", "leftright", A, <<2, 1>>, TRUE).lg : RLe(RAbs(p[3]), RI(20))
Base(op, n, s, sd) == [op |-> op, n |-> n, seed |-> s, x0 |-> Pick(sd, 1, 3), h |-> HOf(sd),
                       g |-> IF op \in UniformOnly THEN UniformG(n) ELSE GOf(sd, n),
                       e4 |-> op \in FourColOps /\ Pick(sd, 14, 3) = 0, ye |-> RN(1 + Pick(sd, 15, 9), 4),
                       zsp |-> PickSeq(sd, 17, <<"0.0", "0", "-0", "0", "-0.0", "0e0">>),
                       twice |-> op \in IdemOps /\ Pick(sd, 16, 2) = 0]
XS(c) == XSeq(c.x0, c.h, c.g)

Case(op, n, s) ==
  LET sd == s * 97 + n * 7 + OpIdx(op)
      b == Base(op, n, s, sd)
  IN
  CASE op = "update_ibi_pot" ->
         LET lead == IF Pick(sd, 7, 2) = 1 THEN Pick(sd, 8, 1 + n \div 3) ELSE 0
             tg0 == RndE(sd, 100, n)
             cu0 == IF Pick(sd, 5, 5) = 0 THEN tg0 ELSE RndE(sd, 200, n)
         IN b @@ [tg |-> tg0, cu |-> [k \in 1..n |-> IF k <= lead THEN Z ELSE cu0[k]],
                  pot |-> Tab(RY(sd, 400, n), [k \in 1..n |-> PickSeq(sd, 300 + k, <<"i", "i", "i", "i", "o", "u">>)]),
                  c |-> PickSeq(sd, 6, CSeq)]
    [] op = "dist_boltzmann_invert" ->
         LET btype == Cyc(<<"non-bonded", "dihedral", "", "bond", "angle", "bond", "angle">>, n + s)
             normed == btype \in {"bond", "angle"}      \* the file holds 2^e * norm(x): norm = x^2 (bond), sin x (angle, 0 < x < pi)
             usemin == ~normed /\ Pick(sd, 5, 2) = 1
             mk == IF usemin THEN Pick(sd, 6, 3) - 2 ELSE -40
             lo == IF usemin THEN mk ELSE -4           \* defined exponents are lo+1..lo+6
             a == Pick(sd, 7, 3)
             z == Pick(sd, 8, 3)
             nn == n + 7 + a + z
             und(k) == IF usemin /\ Pick(sd, 600 + k, 2) = 1 THEN mk - Pick(sd, 700 + k, 2) ELSE Z
         IN [b EXCEPT !.n = nn, !.g = IF btype = "angle" THEN UniformG(nn) ELSE GOf(sd, nn),
                      !.h = IF btype = "angle" THEN <<1, 8>> ELSE b.h, !.x0 = IF normed THEN b.x0 + 1 ELSE b.x0] @@
            [e |-> [k \in 1..nn |-> IF k <= a \/ k > nn - z THEN und(k)
                                    ELSE IF k <= a + 10 \/ Pick(sd, 800 + k, 4) # 0 THEN lo + 1 + Pick(sd, 100 + k, 6)
                                    ELSE und(k)],
             usemin |-> usemin, mk |-> mk, c |-> PickSeq(sd, 9, CSeq),
             type |-> btype]
    [] op \in {"table_linearop", "table_linearop_x"} ->
         LET we == op = "table_linearop" /\ (n + 2 * s) % 4 = 0        \* --with-errors: 4-column input and output
         IN [b EXCEPT !.e4 = b.e4 \/ we] @@
            [t |-> Tab(RY(sd, 100, n), FlagFam(sd, 600, n, 2 + Pick(sd, 600, 2))), a |-> Coef(sd, 5), b |-> Coef(sd, 6),
             wf |-> Cyc(<<"", "i", "o", "u", "">>, n + s), we |-> we]
    [] op \in {"table_combine", "table_combine_sum"} ->
         LET o == Cyc(<<"+", "-", "x", "*", "/", "d", "d2", "=">>, n + s)
             var == IF op = "table_combine_sum" THEN Pick(sd, 6, 2) ELSE (n + 2 * s) % 4   \* 2: --withflag, 3: --no-flags
             t1 == RTab(sd, 100, n)
             y2r == RY(sd, 200, n)
             y2 == [k \in 1..n |-> IF o = "/" /\ y2r[k] = RZero THEN RI(1)
                                   ELSE IF o = "=" /\ Pick(sd, 900 + k, 2) = 0 THEN t1.y[k] ELSE y2r[k]]
         IN b @@ [t1 |-> t1, t2 |-> Tab(y2, IF var = 3 THEN RFlags(sd, 1500, n) ELSE t1.f), cop |-> o,
                  sc |-> PickSeq(sd, 8, <<<<1, 1>>, <<1, 1>>, <<1, 2>>, <<-2, 1>>>>),
                  wf |-> IF var = 2 THEN Cyc(<<"i", "o", "u">>, s) ELSE "", noflags |-> var = 3,
                  err |-> o = "="]           \* --error 0.001 (far below the lattice spacing)
    [] op = "merge_tables" ->
         LET ns == 1 + Pick(sd, 5, n)
         IN b @@ [src |-> RTab(sd, 100, ns), off |-> Pick(sd, 6, n - ns + 1), dst |-> RTab(sd, 200, n),
                  wf |-> Cyc(<<"", "i", "o", "u", "">>, n + s), noflags |-> (n + 2 * s) % 4 = 0, novalues |-> (n + 2 * s) % 4 = 2]
    [] op = "add_POT" ->
         b @@ [t1 |-> Tab(RY(sd, 100, n), FlagFam(sd, 600, n, 3)), t2 |-> Tab(RY(sd, 200, n), FlagFam(sd, 700, n, 3))]
    [] op = "table_scale" -> b @@ [t |-> RTab(sd, 100, n), p1 |-> Coef(sd, 5), p2 |-> Coef(sd, 6)]
    [] op = "table_integrate" ->
         LET mode == Cyc(<<"plain", "plain", "sphere", "S">>, n + s)
             we == (n + 2 * s) % 4 = 1
         IN [b EXCEPT !.x0 = IF mode = "S" THEN b.x0 + 1 ELSE b.x0, !.g = IF mode = "S" THEN UniformG(n) ELSE b.g,
                      !.e4 = b.e4 \/ we] @@
            [we |-> we, t |-> RTab(sd, 100, n), from |-> Cyc(<<"left", "right", "">>, n), mode |-> mode,
             kt |-> PickSeq(sd, 7, <<<<1, 1>>, <<5, 2>>, <<3, 4>>>>)]
    [] op = "resample_derivative" -> b @@ [t |-> Tab(RY(sd, 100, n), FlagFam(sd, 600, n, Pick(sd, 5, 3)))]
    [] op = "integrate_derivative" ->
         b @@ [t |-> Tab(RY(sd, 100, n), FlagFam(sd, 600, n, 0)), from |-> PickSeq(sd, 5, <<"left", "right">>)]
    [] op = "potential_shift" ->
         LET f0 == RFlags(sd, 600, n)
             ki == 1 + Pick(sd, 5, n)
             f1 == [f0 EXCEPT ![ki] = "i"]
             y0 == RY(sd, 100, n)
             pre == Pick(sd, 7, 2) = 0       \* an already shifted potential: the minimum of the 'i' points is exactly 0
             zi == MinY(Tab(y0, f1), TRUE, 1, n)
         IN b @@ [t |-> Tab(IF pre THEN [k \in 1..n |-> RSub(y0[k], zi)] ELSE y0, f1), pre |-> pre,
                  type |-> Cyc(<<"non-bonded", "", "bond", "angle", "dihedral", "bonded">>, n + s)]
    [] op \in {"table_smooth", "table_change_flag", "dist_adjust"} -> b @@ [t |-> RTab(sd, 100, n)]
    [] op = "table_extrapolate" ->
         LET f == FlagFam(sd, 600, n, 1)
             core == n - CoreA(sd, 600, n) - CoreB(sd, 600, n)
             A == Min2(1 + Pick(sd, 5, 3), core - 1)
             t == Tab(RY(sd, 100, n), f)
             fn0 == Cyc(<<"constant", "linear", "quadratic", "sasha", "periodic", "", "exponential", "exponential">>, n + s)
             reg == Cyc(<<"left", "right", "leftright", "">>, n + 3 * s)
             fn == IF fn0 = "sasha" /\ ~ExtrapolateDefined(t, "sasha", "leftright", A) THEN "linear"
                   ELSE IF fn0 = "exponential" /\ ~ExpOK(t, XSeq(b.x0, b.h, b.g), A) THEN "linear" ELSE fn0
         IN b @@ [t |-> t, A |-> A, defA |-> (A = 3 /\ Pick(sd, 10, 2) = 0), fn |-> fn,
                  region |-> reg,
                  C |-> PickSeq(sd, 8, <<<<10000, 1>>, <<2, 1>>, <<1, 2>>>>), fu |-> Pick(sd, 9, 3) # 0]
    [] op = "potential_extrapolate" ->
         LET f == FlagFam(sd, 600, n, 1)
             core == n - CoreA(sd, 600, n) - CoreB(sd, 600, n)
             t == Tab(RY(sd, 100, n), f)
             A == Min2(1 + Pick(sd, 5, 3), core - 1)
             ty == Cyc(<<"non-bonded", "bond", "angle", "dihedral">>, n)
             lf0 == Cyc(<<"linear", "constant", "quadratic", "exponential", "sasha", "", "">>, n + s)    \* "" = documented default
             rf0 == Cyc(<<"", "", "linear", "constant", "quadratic", "sasha", "exponential">>, n + 2 * s)
             ok == PotOK(t, XSeq(b.x0, b.h, b.g), ty, lf0, rf0, A)
         IN b @@ [t |-> t, A |-> A, type |-> ty, lf |-> IF ok THEN lf0 ELSE "linear", rf |-> IF ok THEN rf0 ELSE "constant",
                  clean |-> (n + s) % 3 = 0]
    [] op = "table_get_value" ->
         b @@ [t |-> RTab(sd, 100, n), X |-> RMul(RI(2 * b.x0 + Pick(sd, 5, 2 * b.g[n] + 1)), RMul(b.h, <<1, 2>>))]
    [] op = "table_dummy" -> b @@ [y1 |-> Coef(sd, 5), y2 |-> Coef(sd, 6), clean |-> (n + s) % 3 = 0]
    [] op = "table_average" ->
         LET c == 2 + Pick(sd, 5, 3)
         IN b @@ [ts |-> [j \in 1..c |-> Tab(RY(sd, 100 * j, n), [k \in 1..n |-> "i"])], clean |-> (n + s) % 3 = 0]
    [] op = "table_combine_die" ->        \* --die --op = (csg_call: "table compare"): exit status says whether the tables agree
         LET t1 == RTab(sd, 100, n)
             same == (n + s) % 2 = 0
             kd == 1 + Pick(sd, 6, n)
         IN b @@ [t1 |-> t1, t2 |-> Tab(IF same THEN t1.y ELSE [t1.y EXCEPT ![kd] = RAdd(t1.y[kd], <<1, 4>>)], t1.f)]
    [] op = "resample_spline" ->          \* csg_resample of a NON-equidistant table onto the unit lattice, all spline types
         LET ty == Cyc(<<"cubic", "cubic", "akima", "linear", "">>, n + s)
             isline == (n + 2 * s) % 3 = 0
             nn == IF ty = "cubic" /\ ~isline THEN Min2(n + 2, 5) ELSE n + 2
             pat == (n + 3 * s) % 4     \* 0: alternating 1,3 (0.05/0.15 for h = 1/20)  1: geometric  2: one very short interval  3: 1..3
             ks == 1 + Pick(sd, 7, nn - 1)
             gap(k) == CASE pat = 0 -> IF k % 2 = 1 THEN 1 ELSE 3
                         [] pat = 1 -> IF k <= 5 THEN 2 ^ (k - 1) ELSE 16
                         [] pat = 2 -> IF k = ks THEN 1 ELSE 8
                         [] pat = 3 -> 1 + Pick(sd, 1200 + k, 3)
             RECURSIVE G(_)
             G(k) == IF k = 1 THEN 0 ELSE G(k - 1) + gap(k - 1)
             gg == [k \in 1..nn |-> G(k)]
             hh == PickSeq(sd, 12, <<<<1, 20>>, <<1, 10>>, <<1, 4>>, <<1, 8>>, <<1, 20>>>>)
             xs == XSeq(b.x0, hh, gg)
             la == Coef(sd, 8) lb == Coef(sd, 9)
         IN [b EXCEPT !.n = nn, !.g = gg, !.h = hh] @@
            [t |-> Tab(IF isline THEN [k \in 1..nn |-> RAdd(RMul(la, xs[k]), lb)] ELSE RY(sd, 100, nn), RFlags(sd, 600, nn)),
             type |-> ty, isline |-> isline,
             \* --fitgrid x_1:(x_n-x_1)/fit:x_n (least-squares spline fit, cubic and linear): data on a straight line are fitted
             \* exactly by every spline space, so the expectation is the same line; 0 = interpolation
             fit |-> IF isline /\ ty \in {"cubic", "linear"} /\ nn >= 6 /\ s % 2 = 0 THEN 1 + (n % 2) ELSE 0]
    [] op = "table_switch_border" ->
         b @@ [t |-> Tab(RY(sd, 100, n), FlagFam(sd, 600, n, 0)), w |-> 1 + Pick(sd, 5, Min2(3, n - 1))]
    [] op = "average_linearop" ->         \* pipeline: table_average.sh writes x mean error flag, the next tool reads it
         LET c == 2 + Pick(sd, 5, 3)
         IN b @@ [ts |-> [j \in 1..c |-> Tab(RY(sd, 100 * j, n), [k \in 1..n |-> "i"])], a |-> Coef(sd, 6), b |-> Coef(sd, 7)]
    [] op = "resample_same" ->           \* >= 40 points, DECIMAL step, flag transitions i->o, i->u, u->i at late points
         LET nn == 40 + 5 * n + Pick(sd, 5, 21)
             p == 18 + Pick(sd, 6, nn - 26)
             r == 1 + Pick(sd, 7, 3)
             q == 1 + Pick(sd, 8, 4)
             pat == Pick(sd, 9, 3)
             lead == Pick(sd, 10, 3)
         IN [b EXCEPT !.n = nn, !.g = UniformG(nn),
                      !.h = PickSeq(sd, 12, <<<<1, 20>>, <<1, 10>>, <<1, 100>>, <<3, 100>>, <<7, 100>>, <<1, 50>>, <<1, 20>>>>)] @@
            [t |-> Tab(RY(sd, 100, nn),
                       [k \in 1..nn |-> IF k <= lead THEN "o" ELSE IF k <= p THEN "i"
                                        ELSE CASE pat = 0 -> "o"
                                               [] pat = 1 -> IF k <= p + r THEN "u" ELSE "i"
                                               [] pat = 2 -> IF k <= p + r THEN "u" ELSE IF k <= p + r + q THEN "i" ELSE "o"]),
             type |-> Cyc(<<"linear", "linear", "akima", "cubic", "">>, n + s)]

\* ---- expected output of a case -----------------------------------------------------------------
FnOf(c) == IF c.fn = "" THEN "quadratic" ELSE c.fn
RegOf(c) == IF c.region = "" THEN "leftright" ELSE c.region
FromOf(c) == IF c.from = "" THEN "right" ELSE c.from
TypeOf(c) == IF c.type = "" THEN "non-bonded" ELSE c.type
Expect(c) ==
  CASE c.op = "update_ibi_pot" -> UpdateIBI(c.tg, c.cu, c.pot.f, c.c)
    [] c.op = "dist_boltzmann_invert" -> BoltzmannInvert(c.e, c.c, c.mk)
    [] c.op = "table_linearop" -> LinearOp(c.t, c.a, c.b, c.wf)
    [] c.op = "table_linearop_x" -> Exact(c.t.y, c.t.f) @@ [x |-> LinearOpX(c.t, XS(c), c.a, c.b, c.wf)]
    [] c.op = "table_combine" -> Combine(c.t1, c.t2, c.cop, c.sc, c.wf)
    [] c.op = "table_combine_sum" -> CombineSum(c.t1, c.t2, c.cop, c.sc, c.wf)
    [] c.op = "merge_tables" -> Merge(c.src, c.off, c.dst, c.wf, c.noflags, c.novalues)
    [] c.op = "add_POT" -> AddPot(c.t1, c.t2)
    [] c.op = "table_scale" -> Scale(c.t, XS(c), c.p1, c.p2)
    [] c.op = "table_integrate" -> Integrate(c.t, XS(c), FromOf(c), c.mode, c.kt)
    [] c.op = "resample_derivative" -> Differentiate(c.t, XS(c), c.g)
    [] c.op = "resample_same" -> ResampleSame(c.t, XS(c))
    [] c.op = "integrate_derivative" ->
         Exact(OnHalfGrid(MidAvg(c.t.y), c.g), [j \in 1..c.g[c.n] |-> "i"])
    [] c.op = "potential_shift" -> Shift(c.t, TypeOf(c))
    [] c.op = "table_smooth" -> Smooth(c.t)
    [] c.op = "table_change_flag" -> ChangeFlag(c.t)
    [] c.op = "dist_adjust" -> DistAdjust(c.t)
    [] c.op = "table_extrapolate" -> Extrapolate(c.t, XS(c), FnOf(c), RegOf(c), c.A, c.C, c.fu)
    [] c.op = "potential_extrapolate" ->
         PotExtrapolate(c.t, XS(c), c.type, PotL(c.type, c.lf), PotR(c.type, c.rf), c.A, <<10000, 1>>)
    [] c.op = "table_get_value" -> GetValue(c.t, XS(c), c.X)
    [] c.op = "table_dummy" -> Dummy(c.n, c.y1, c.y2)
    [] c.op = "table_average" -> Average(c.ts)
    [] c.op = "table_switch_border" -> SwitchBorder(c.t, c.n - c.w, c.w)
    [] c.op = "table_combine_die" -> [kind |-> "exit", ok |-> c.t1.y = c.t2.y]
    [] c.op = "resample_spline" ->
         ResampleSpline(c.t, XS(c), c.g, c.x0, c.h, IF c.type = "" THEN "akima" ELSE c.type, c.isline)
    [] c.op = "average_linearop" ->       \* the averaged points are valid ('i'): --withflag i operates on all of them
         LinearOp(Tab(Average(c.ts).y, [k \in 1..c.n |-> "i"]), c.a, c.b, "i")

\* ---- state machine: phase 0 = chosen, phase 1 = evaluated (so that the workers, not the single
\* initial-state thread, do the work; README gotcha) ----------------------------------------------
Init == /\ ph = 0
        /\ \E op \in OpSet, n \in NSet, s \in SeedSet : cs = Case(op, n, s)
Next == ph = 0 /\ ph' = 1 /\ UNCHANGED cs
Spec == Init /\ [][Next]_vars

\* ---- algebra of the documented operators ----------------------------------------------------------
AddC(y, v) == [k \in 1..Len(y) |-> RAdd(y[k], v)]
Bump(y, k) == [y EXCEPT ![k] = RAdd(y[k], RI(1))]
AlgIbi(c) ==
  LET o == UpdateIBI(c.tg, c.cu, c.pot.f, c.c)
      n == c.n
  IN /\ IbiAccept(c.tg, c.cu, c.pot.f, c.c, o.y, o.f)                                 \* local form accepts the constructive one
     /\ (c.tg = c.cu) => \A k \in 1..n : o.y[k] = RZero /\ o.alt = {}                \* exactly zero when they coincide
     /\ \A k \in 1..n : (o.f[k] = "i") = IbiValid(c.tg, c.cu, c.pot.f, k)
     /\ \A k \in 1..n : IbiValid(c.tg, c.cu, c.pot.f, k) =>                           \* dU = F(tgt) - F(cur), F = -kT ln g
            o.y[k] = RSub(RMul(c.c, RI(-c.tg[k])), RMul(c.c, RI(-c.cu[k])))
     /\ \A k \in 1..n : IbiAccept(c.tg, c.cu, c.pot.f, c.c, Bump(o.y, k), o.f)        \* the local form is sharp
                          => RAdd(o.y[k], RI(1)) \in IbiAdm(c.tg, c.cu, c.pot.f, c.c, k)
     /\ \A p \in o.alt : IbiValid(c.tg, c.cu, c.pot.f, p[1]) = FALSE                  \* two-valued only at undefined points
AlgBi(c) ==
  LET o == BoltzmannInvert(c.e, c.c, c.mk)
      D == {k \in 1..c.n : BiDef(c.e, c.mk, k)}
  IN /\ BiAccept(c.e, c.c, c.mk, o.y, o.f)
     /\ BiAccept(c.e, c.c, c.mk, AddC(o.y, <<7, 2>>), o.f)                            \* up to a constant
     /\ (\E j, k \in D : c.e[j] # c.e[k]) => ~BiAccept(c.e, c.c, c.mk, [k \in 1..c.n |-> RNeg(o.y[k])], o.f)
     /\ \A k \in D : ~BiAccept(c.e, c.c, c.mk, Bump(o.y, k), o.f) \/ Cardinality(D) = 1
AlgLin(c) ==
  LET o == LinearOp(c.t, c.a, c.b, "")
      o2 == LinearOp(Tab(o.y, o.f), <<-3, 2>>, <<5, 4>>, "")
  IN /\ o2.y = LinearOp(c.t, RMul(c.a, <<-3, 2>>), RAdd(RMul(<<-3, 2>>, c.b), <<5, 4>>), "").y
     /\ LinearOp(c.t, RI(1), RZero, c.wf).y = c.t.y
     /\ LinearOp(c.t, c.a, c.b, c.wf).f = c.t.f
     /\ \A k \in 1..c.n : c.wf # "" /\ c.t.f[k] # c.wf => LinearOp(c.t, c.a, c.b, c.wf).y[k] = c.t.y[k]
AlgComb(c) ==
  LET plus == Combine(c.t1, c.t2, "+", RI(1), "")
      back == Combine(Tab(plus.y, c.t1.f), c.t2, "-", RI(1), "")
  IN /\ back.y = c.t1.y
     /\ plus.y = Combine(c.t2, c.t1, "+", RI(1), "").y
     /\ \A k \in 1..c.n : Combine(c.t1, c.t1, "-", c.sc, "").y[k] = RZero
     /\ Combine(c.t1, c.t2, "x", c.sc, "").y = Combine(c.t1, c.t2, "*", c.sc, "").y
     /\ \A k \in 1..c.n : Combine(c.t1, c.t2, "d2", RI(1), "").y[k] = RSq(Combine(c.t1, c.t2, "d", RI(1), "").y[k])
     /\ Combine(c.t1, c.t2, c.cop, c.sc, c.wf).f = c.t1.f
     /\ CombineSum(c.t1, c.t2, c.cop, c.sc, "").v
          = LET o == Combine(c.t1, c.t2, c.cop, c.sc, "") g(k) == o.y[k] IN RSum(g, 1, c.n)
AlgInt(c) ==
  LET xs == XS(c)
      g == IntPre(c.t, xs, c.mode, c.kt)
      L == IntegrateY(g, xs, "left")
      R == IntegrateY(g, xs, "right")
      n == c.n
  IN /\ IntegrateOK(g, xs, "left", L) /\ IntegrateOK(g, xs, "right", R)
     /\ \A k \in 1..n : RSub(L[k], R[k]) = L[n]                    \* the two zero points differ by a constant
     /\ DiffY(L, xs) = MidAvg(g) /\ DiffY(R, xs) = MidAvg(g)     \* differentiate o integrate = id (linear interpolant), any gaps
     /\ \A k \in 1..n : RAdd(c.t.y[1], CumSum(DiffY(c.t.y, xs), xs, k - 1)) = c.t.y[k]   \* integrate o differentiate = id
     /\ \A k \in 1..(n - 1) : ~IntegrateOK(g, xs, "left", Bump(L, k + 1))
     /\ Integrate(c.t, xs, FromOf(c), c.mode, c.kt).f = c.t.f
AlgShift(c) ==
  LET ty == TypeOf(c)
      o == Shift(c.t, ty)
      t1 == Tab(o.y, o.f)
      I == {k \in 1..c.n : c.t.f[k] = "i"}
  IN /\ o.f = c.t.f
     /\ ty = "non-bonded" => o.y[c.n] = RZero
     /\ ty # "non-bonded" => (\E k \in I : o.y[k] = RZero) /\ (\A k \in I : RLe(RZero, o.y[k]))
     /\ Shift(t1, ty).y = o.y                                                              \* idempotent
     /\ Shift(Tab(AddC(c.t.y, <<-9, 4>>), c.t.f), ty).y = o.y                              \* the constant drops out
     /\ \A j, k \in 1..c.n : RSub(o.y[j], o.y[k]) = RSub(c.t.y[j], c.t.y[k])              \* a pure shift
AlgSmooth(c) ==
  /\ SmoothOK(c.t, SmoothAlgo(c.t), c.t.f)                  \* the script's weights are a smoothing in the stated sense
  /\ (\E k \in 1..c.n : SmoothStrict(c.t, k) # 0) => ~SmoothOK(c.t, c.t.y, c.t.f)       \* the identity is not
  /\ LET ct == Tab([k \in 1..c.n |-> <<3, 2>>], [k \in 1..c.n |-> "i"])           \* constants are kept, nothing else is accepted
     IN SmoothOK(ct, ct.y, ct.f) /\ ~SmoothOK(ct, [k \in 1..c.n |-> <<33, 20>>], ct.f)
AlgExt(c) ==
  LET fn == FnOf(c)
      reg == RegOf(c)
      o == Extrapolate(c.t, XS(c), fn, reg, c.A, c.C, c.fu)
      fi == FirstI(c.t)
      la == LastI(c.t)
      small == c.C[1] < 100
      x(k) == XS(c)[k]
      ml == IF fn = "constant" THEN RZero ELSE RDiv(RSub(c.t.y[fi + c.A], c.t.y[fi]), RSub(x(fi + c.A), x(fi)))
  IN /\ ExtrapolateDefined(c.t, fn, reg, c.A)
     /\ \A k \in fi..la : o.y[k] = c.t.y[k] /\ o.f[k] = c.t.f[k]              \* nothing changes inside
     /\ \A k \in 1..c.n : o.f[k] # c.t.f[k] => (o.f[k] = "i" /\ c.fu /\ (k < fi \/ k > la))
     /\ ~c.fu => o.f = c.t.f
     /\ reg = "left" => \A k \in la..c.n : o.y[k] = c.t.y[k]
     /\ reg = "right" => \A k \in 1..fi : o.y[k] = c.t.y[k]
     /\ (small /\ reg # "right" /\ fn # "exponential") =>                   \* expanded form = help text literally
           \A k \in 1..(fi - 1) : o.y[k] = ExFDoc(fn, c.C, x(fi), c.t.y[fi], ml, x(k))
     /\ ExF(fn, c.C, c.t.y[fi], ml, RZero) = c.t.y[fi]                        \* continuous at the anchor
     /\ fn = "exponential" => /\ \A p \in o.lg : p[1] \in o.free /\ (p[1] < fi \/ p[1] > la) /\ p[2] # RZero
                              /\ \A p \in o.lg : RLe(RAbs(p[3]), RI(20))
                              /\ Cardinality(o.lg) = (IF reg # "right" THEN fi - 1 ELSE 0) + (IF reg # "left" THEN c.n - la ELSE 0)
     /\ fn # "exponential" => o.lg = {} /\ o.free = {}
     /\ (fn = "periodic" /\ reg # "left" /\ la < c.n) => o.y[c.n] = o.y[1]    \* ends at the first point of the left side
     /\ fn = "constant" => \A k \in 1..c.n : (k < fi /\ reg # "right" => o.y[k] = c.t.y[fi])
                                          /\ (k > la /\ reg # "left" => o.y[k] = c.t.y[la])
     /\ LET lin == Tab([k \in 1..c.n |-> RAdd(RMul(<<3, 2>>, x(k)), <<-1, 4>>)], c.t.f)   \* a straight line is reproduced
        IN Extrapolate(lin, XS(c), "linear", "leftright", c.A, c.C, TRUE).y = lin.y
AlgMisc(c) ==
  CASE c.op = "table_scale" ->
         /\ Scale(c.t, XS(c), c.p1, c.p1).y = LinearOp(c.t, c.p1, RZero, "").y
         /\ Scale(c.t, XS(c), c.p1, c.p2).y[1] = RMul(c.p1, c.t.y[1]) /\ Scale(c.t, XS(c), c.p1, c.p2).y[c.n] = RMul(c.p2, c.t.y[c.n])
         /\ Scale(c.t, XS(c), c.p1, c.p2).f = c.t.f
    [] c.op = "merge_tables" ->
         /\ Merge(c.dst, 0, c.dst, "", FALSE, FALSE) = Exact(c.dst.y, c.dst.f)
         /\ LET o == Merge(c.src, c.off, c.dst, c.wf, c.noflags, c.novalues)
            IN /\ Len(o.y) = c.n
               /\ \A k \in 1..c.n : (k <= c.off \/ k > c.off + Nn(c.src)) => o.y[k] = c.dst.y[k] /\ o.f[k] = c.dst.f[k]
               /\ (c.novalues /\ c.noflags) => o = Exact(c.dst.y, c.dst.f)
    [] c.op = "add_POT" ->
         LET o == AddPot(c.t1, c.t2)
         IN \A k \in 1..c.n : /\ (c.t1.f[k] = "u" /\ c.t2.f[k] = "u") => o.f[k] = "u" /\ ~\E p \in o.altf : p[1] = k
                              /\ (c.t1.f[k] # "u" /\ c.t2.f[k] # "u") => o.y[k] = RAdd(c.t1.y[k], c.t2.y[k]) /\ o.f[k] = c.t1.f[k]
    [] c.op = "table_get_value" ->
         LET o == GetValue(c.t, XS(c), c.X)
         IN /\ \E k \in 1..c.n : o.v = c.t.y[k]
            /\ \A k \in 1..c.n : GetValue(c.t, XS(c), XS(c)[k]) = [kind |-> "scalar", v |-> c.t.y[k], alt |-> {}]
    [] c.op = "resample_derivative" ->
         LET o == Differentiate(c.t, XS(c), c.g)
             unit == XSeq(c.x0, c.h, UniformG(c.g[c.n] + 1))      \* summing slope * h over the half-step grid gives the table back
         IN /\ Len(o.y) = c.g[c.n]
            /\ \A k \in 1..c.n : RAdd(c.t.y[1], CumSum(o.y, unit, c.g[k])) = c.t.y[k]
    [] c.op = "integrate_derivative" ->
         DiffY(IntegrateY(c.t.y, XS(c), c.from), XS(c)) = MidAvg(c.t.y)
    [] c.op = "resample_spline" ->
         LET ty == IF c.type = "" THEN "akima" ELSE c.type
             o == Expect(c)
             xs == [k \in 1..c.n |-> RI(c.x0 + c.g[k])]          \* in units of h
             G == c.g[c.n]
             X(j) == RMul(RI(c.x0 + j), c.h)
             M == NatSplineM(c.t.y, xs)
         IN /\ \A k \in 1..c.n : o.y[c.g[k] + 1] = c.t.y[k] /\ o.f[c.g[k] + 1] = c.t.f[k] /\ o.d.f[c.g[k] + 1] = c.t.f[k]  \* knots
            /\ \A k \in 1..c.n : c.g[k] + 1 \notin o.free
            /\ c.isline => \A p \in 1..(G + 1) :                                  \* a straight line is reproduced by every type
                  /\ RSub(o.y[p], o.y[1]) = RMul(o.d.y[1], RSub(X(p - 1), X(0))) /\ o.d.y[p] = o.d.y[1]
                  /\ o.free = {} /\ o.d.free = {} /\ o.d.alt = {}
            /\ (ty = "cubic" /\ ~c.isline) =>                         \* the natural cubic spline: C1 and C2 at the inner knots,
                  /\ M[1] = RZero /\ M[c.n] = RZero                               \* second derivative 0 at both ends
                  /\ \A k \in 2..(c.n - 1) :
                        /\ SplDer(c.t.y, xs, M, k - 1, xs[k]) = SplDer(c.t.y, xs, M, k, xs[k])
                        /\ SplVal(c.t.y, xs, M, k - 1, xs[k]) = c.t.y[k] /\ SplVal(c.t.y, xs, M, k, xs[k]) = c.t.y[k]
    [] c.op = "resample_same" ->
         LET o == ResampleSame(c.t, XS(c))
         IN /\ o.y = c.t.y /\ o.f = c.t.f /\ o.d.f = c.t.f
            /\ \E k \in 18..(c.n - 1) : c.t.f[k] # c.t.f[k + 1]                     \* a flag transition at a late point
            /\ \A k \in 1..(c.n - 1) : RMul(o.d.y[k], RSub(XS(c)[k + 1], XS(c)[k])) = RSub(c.t.y[k + 1], c.t.y[k])
            /\ \A p \in o.d.alt : RMul(p[2], RSub(XS(c)[p[1]], XS(c)[p[1] - 1])) = RSub(c.t.y[p[1]], c.t.y[p[1] - 1])
    [] c.op = "table_dummy" ->
         LET o == Dummy(c.n, c.y1, c.y2)
         IN o.y[1] = c.y1 /\ o.y[c.n] = c.y2 /\ \A k \in 2..(c.n - 1) : RSub(o.y[k + 1], o.y[k]) = RSub(o.y[k], o.y[k - 1])
    [] c.op = "table_average" ->
         LET o == Average(c.ts)
         IN /\ \A k \in 1..c.n : RLe(RZero, o.e2[k])
            /\ Average([j \in 1..Len(c.ts) |-> c.ts[1]]).y = c.ts[1].y
            /\ \A k \in 1..c.n : Average([j \in 1..Len(c.ts) |-> c.ts[1]]).e2[k] = RZero
    [] c.op = "table_switch_border" ->
         LET o == SwitchBorder(c.t, c.n - c.w, c.w)
         IN o.y2[c.n] = RZero /\ \A k \in 1..(c.n - c.w) : o.y2[k] = RSq(c.t.y[k])
    [] c.op = "potential_extrapolate" ->
         LET o == Expect(c)
         IN /\ \A k \in 1..c.n : o.f[k] = "i"
            /\ \A k \in FirstI(c.t)..LastI(c.t) : o.y[k] = c.t.y[k]
    [] c.op \in {"table_change_flag", "dist_adjust"} ->
         /\ ChangeFlag(c.t).y = c.t.y /\ \A k \in 1..c.n : ChangeFlag(c.t).f[k] # "o"
         /\ DistAdjust(c.t).f = c.t.f /\ \A k \in 1..c.n : RLe(RZero, DistAdjust(c.t).y[k])
    [] OTHER -> TRUE

Algebra ==
  ph = 1 =>
    CASE cs.op = "update_ibi_pot" -> AlgIbi(cs)
      [] cs.op = "dist_boltzmann_invert" -> AlgBi(cs)
      [] cs.op \in {"table_linearop", "table_linearop_x"} -> AlgLin(cs)
      [] cs.op \in {"table_combine", "table_combine_sum"} -> AlgComb(cs)
      [] cs.op = "table_integrate" -> AlgInt(cs)
      [] cs.op = "potential_shift" -> AlgShift(cs)
      [] cs.op = "table_smooth" -> AlgSmooth(cs)
      [] cs.op = "table_extrapolate" -> AlgExt(cs)
      [] OTHER -> AlgMisc(cs)

\* every table-valued expectation is on the grid of its input (derivative: the n-1 midpoints)
SameGrid ==
  ph = 1 =>
    LET o == Expect(cs)
        m == IF cs.op \in {"resample_derivative", "integrate_derivative"} THEN cs.g[cs.n]
             ELSE IF cs.op = "resample_spline" THEN cs.g[cs.n] + 1 ELSE cs.n
    IN CASE o.kind = "table" -> Len(o.y) = m /\ Len(o.f) = m /\ \A p \in o.alt : p[1] \in 1..m
         [] o.kind = "range" -> Len(o.lo) = m /\ Len(o.hi) = m /\ Len(o.f) = m
         [] o.kind = "squares" -> Len(o.y2) = m
         [] o.kind = "avg" -> Len(o.y) = m /\ Len(o.e2) = m
         [] OTHER -> TRUE

\* operators that are idempotent by their documented meaning: applying them to their own result changes nothing
\* (the check executes exactly this relation with the real scripts when cs.twice)
Again(c) == LET o == Expect(c) IN
            IF c.op = "merge_tables" THEN [c EXCEPT !.dst = Tab(o.y, o.f)] ELSE [c EXCEPT !.t = Tab(o.y, o.f)]
Idempotent ==
  (ph = 1 /\ cs.op \in IdemOps) =>
     LET o == Expect(cs) o2 == Expect(Again(cs)) IN o2.y = o.y /\ o2.f = o.f

\* the flag column only changes where the documentation says so
FlagsAsStated ==
  ph = 1 =>
    (cs.op \in {"table_linearop", "table_linearop_x", "table_scale", "table_integrate", "potential_shift", "table_smooth",
                "dist_adjust", "table_switch_border", "resample_same"}
       => Expect(cs).f = cs.t.f)

Vector == (ph = 1 /\ Emit) => PrintT(ToJson([c |-> cs, exp |-> Expect(cs)]))
=============================================================================
