------------------------------ MODULE TraceTS ------------------------------
(* Trace validation direction of C19: a seeded random driver (harness/python/engines/c19.py)
   builds LARGE lattice tables (up to 1000 points), runs the real scripts and logs one ndjson
   record per run: the input exactly as written to the files (integers/rationals) and the
   observed output snapped to the lattice.  Every record is judged here with the documented
   operators of TableScripts (linear-cost local forms where the constructive operator would be
   quadratic).  TLC prints one verdict per record; a rejected record is a violation.
   The file is parsed once (README gotcha): run with -workers 1.                            *)
EXTENDS TableScripts, TLC, Json, IOUtils

VARIABLE l
TrFile == ndJsonDeserialize(IOEnv.TRACE)
ASSUME TLCSet(2, TrFile)
Tr == TLCGet(2)
NRec == LET t == TrFile IN Len(t)

SetMinOr0(S) == IF S = {} THEN 0 ELSE CHOOSE x \in S : \A y \in S : x <= y
T(r) == Tab(r.y, r.f)

\* points rejected by a table expectation, and what is wrong at a point
FlagOK(o, of, k) == of[k] = o.f[k] \/ \E p \in o.altf : p[1] = k /\ \E i \in 1..Len(p[2]) : p[2][i] = of[k]
ClsTable(o, of, k) == IF k = 0 THEN "rows" ELSE IF FlagOK(o, of, k) THEN "value" ELSE "flag"

Judge(r) ==      \* <<set of rejected points (0 = wrong number of rows), class of a point, transcription drift>>
  LET oy == r.obs.y
      of == r.obs.f
      lenbad(n) == Len(oy) # n \/ Len(of) # n
  IN
  CASE r.op = "update_ibi_pot" ->
         LET M == IbiStarts(r.cu)
             m0 == SetMinOr0(M)
             badfor(m) == {k \in 1..r.n : ~IbiAt(r.tg, r.cu, r.pot.f, r.c, oy, of, m, k)}
             bad == IF lenbad(r.n) THEN {0}
                    ELSE IF \E m \in M : badfor(m) = {} THEN {} ELSE badfor(m0)
             k0 == SetMinOr0(bad)
         IN <<bad, IF k0 = 0 THEN "rows"
                   ELSE (IF IbiValid(r.tg, r.cu, r.pot.f, k0) THEN "valid" ELSE IF k0 = m0 - 1 THEN "corner" ELSE "continued")
                        \o (IF of[k0] # (IF IbiValid(r.tg, r.cu, r.pot.f, k0) THEN "i" ELSE "o") THEN ":flag" ELSE ":value"), FALSE>>
    [] r.op = "dist_boltzmann_invert" ->
         LET ref == BiFirstDef(r.e, r.mk, 1)
             bad == IF lenbad(r.n) THEN {0} ELSE {k \in 1..r.n : ~BiAt(r.e, r.c, r.mk, oy, of, ref, k)}
             k0 == SetMinOr0(bad)
             algo == BoltzmannInvert(r.e, r.c, r.mk)
         IN <<bad, IF k0 = 0 THEN "rows"
                   ELSE IF BiDef(r.e, r.mk, k0) THEN (IF of[k0] # "i" THEN "defined:flag" ELSE "defined:value")
                   ELSE "undefined:flag",
              ~lenbad(r.n) /\ \E k \in algo.free : RSub(oy[k], oy[ref]) # RSub(algo.y[k], algo.y[ref])>>
    [] r.op = "table_integrate" ->
         LET xs == XSeq(r.x0, r.h, r.g)
             g == IntPre(T(r.t), xs, r.mode, r.kt)
             z == IF r.from = "left" THEN 1 ELSE r.n
             bad == IF lenbad(r.n) THEN {0}
                    ELSE {k \in 1..r.n : \/ of[k] # r.t.f[k]
                                         \/ (k = z /\ oy[k] # RZero)
                                         \/ (k < r.n /\ RSub(oy[k + 1], oy[k]) # Trapez(g, xs, k))}
             k0 == SetMinOr0(bad)
         IN <<bad, IF k0 = 0 THEN "rows" ELSE IF of[k0] # r.t.f[k0] THEN "flag" ELSE "value", FALSE>>
    [] r.op = "table_smooth" ->
         LET t == T(r.t)
             bad == IF lenbad(r.n) THEN {0}
                    ELSE {k \in 1..r.n : ~ /\ of[k] = t.f[k]
                                           /\ RLe(SmoothLo(t, k), oy[k]) /\ RLe(oy[k], SmoothHi(t, k))
                                           /\ SmoothStrict(t, k) = 1 => RLt(oy[k], t.y[k])
                                           /\ SmoothStrict(t, k) = -1 => RLt(t.y[k], oy[k])}
             k0 == SetMinOr0(bad)
         IN <<bad, IF k0 = 0 THEN "rows" ELSE IF of[k0] # t.f[k0] THEN "flag" ELSE "value",
              ~lenbad(r.n) /\ oy # SmoothAlgo(t)>>
    [] OTHER ->
         LET o == CASE r.op = "table_linearop" -> LinearOp(T(r.t), r.a, r.b, r.wf)
                    [] r.op = "table_combine" -> Combine(T(r.t1), T(r.t2), r.cop, r.sc, r.wf)
                    [] r.op = "table_scale" -> Scale(T(r.t), XSeq(r.x0, r.h, r.g), r.p1, r.p2)
                    [] r.op = "resample_derivative" -> Differentiate(T(r.t), XSeq(r.x0, r.h, r.g), r.g)
                    [] r.op = "potential_shift" -> Shift(T(r.t), r.type)
                    [] r.op = "table_extrapolate" -> Extrapolate(T(r.t), XSeq(r.x0, r.h, r.g), r.fn, r.region, r.A, r.C, r.fu)
                    [] r.op = "merge_tables" -> Merge(T(r.src), r.off, T(r.dst), r.wf, r.noflags, r.novalues)
                    [] r.op = "add_POT" -> AddPot(T(r.t1), T(r.t2))
             bad == TableBad(o, oy, of)
         IN <<bad, ClsTable(o, of, SetMinOr0(bad)), FALSE>>

Init == l \in 1..NRec
Next == UNCHANGED l
Spec == Init /\ [][Next]_l

Verdict == LET r == Tr[l]
               j == Judge(r)
           IN PrintT(ToJson([id |-> r.id, ok |-> j[1] = {}, k |-> SetMinOr0(j[1]), nbad |-> Cardinality(j[1]),
                             cls |-> j[2], drift |-> j[3]]))
=============================================================================
