--------------------------- MODULE TableScripts ---------------------------
(* C19: what the table post-processing scripts of csg/share/scripts/inverse are DOCUMENTED to
   compute (help texts / property statement), written as operators over exact tables.

   A table is [y |-> Seq(Rat), f |-> Seq({"i","o","u"})] on the grid
   x_k = (x0 + g[k]) * h (k = 1..n, x0 and the offsets g integer, h rational; equidistant or not).  Distributions of the two
   logarithmic scripts live on the LOG LATTICE: a value is 2^e (e integer) or 0 (e = Z), and
   kT = c / ln 2 with c rational, so kT * ln(2^a / 2^b) = c * (a - b) exactly.

   Every operator returns an "expected output" record:
     kind "table"  : y, f  = the expected table;  alt = {<<k, v>>} further admissible values at
                     point k (the statement is two-valued there); free = points whose value the
                     documentation does not fix (y[k] is then only the transcription's value,
                     compared as a warning); altf = {<<k, <<flags>>>>} admissible flags where not
                     only f[k] is admissible; const = TRUE: values are specified up to one
                     additive constant
     kind "range"  : smoothing (see Smooth)
     kind "scalar" : a printed number
     kind "squares": y*y and sign(y) (irrational factor with rational square)
     kind "avg"    : mean and squared standard error                                     *)
EXTENDS Integers, Sequences, FiniteSets, TLC, CArith, Rat

Z == -1000                               \* exponent of the distribution value 0
Tab(y, f) == [y |-> y, f |-> f]
Nn(t) == Len(t.y)
\* abscissae: x_k = (x0 + g[k]) * h with integer offsets g (g[1] = 0, strictly increasing; uniform: g[k] = k-1,
\* non-uniform: gaps 1..3).  No help text restricts a table tool to equidistant tables.
XSeq(x0, h, g) == [k \in 1..Len(g) |-> RMul(RI(x0 + g[k]), h)]
UniformG(n) == [k \in 1..n |-> k - 1]
RECURSIVE ExpandIv(_, _, _)              \* position j (1..g[n]) of the unit lattice -> index of the interval that contains it
ExpandIv(g, lo, hi) == IF lo = hi THEN [i \in 1..(g[lo + 1] - g[lo]) |-> lo]
                       ELSE LET mid == (lo + hi) \div 2 IN ExpandIv(g, lo, mid) \o ExpandIv(g, mid + 1, hi)
SetMax(S) == CHOOSE x \in S : \A y \in S : y <= x
SetMin(S) == CHOOSE x \in S : \A y \in S : x <= y
RMinSet(S) == CHOOSE a \in S : \A b \in S : RLe(a, b)
RMaxSet(S) == CHOOSE a \in S : \A b \in S : RLe(b, a)
RAbs(a) == IF a[1] < 0 THEN RNeg(a) ELSE a

Out(y, f, alt, free, altf, const) ==
  [kind |-> "table", y |-> y, f |-> f, alt |-> alt, free |-> free, altf |-> altf, const |-> const]
Exact(y, f) == Out(y, f, {}, {}, {}, FALSE)

\* points of an observed table (oy, of) that an expectation of kind "table" (const = FALSE) rejects
TableBad(o, oy, of) ==
  IF Len(oy) # Len(o.y) \/ Len(of) # Len(o.f) THEN {0}
  ELSE {k \in 1..Len(o.y) :
          ~ /\ k \in o.free \/ oy[k] = o.y[k] \/ <<k, oy[k]>> \in o.alt
            /\ of[k] = o.f[k] \/ \E p \in o.altf : p[1] = k /\ \E i \in 1..Len(p[2]) : p[2][i] = of[k]}

(* ------------------------------------------------------------------------------------------
   update_ibi_pot.pl   "calcs dU out of two rdfs with the rules of inverse boltzmann ... do not
   update if one of the two rdf is undefined"; statement: dU = kT ln(g_cur/g_tgt) where both are
   positive, elsewhere the last valid value is continued with flag 'o'; script comments: "go
   from ndx_max_rdf to end/beginning of table and fill ... with the last valid value
   encountered".  A 'u' flag in the current potential makes the point undefined as well.
   Two-valued (DESIGN 7.3a / 7.1): several maxima of the current rdf (any of them may be the
   scan start); the undefined run directly left of the maximum (0 = nothing seen yet in the
   backward scan, or the value at the maximum).                                              *)
IbiValid(tg, cu, pf, k) == tg[k] # Z /\ cu[k] # Z /\ pf[k] # "u"
IbiVal(tg, cu, c, k) == RMul(c, RI(cu[k] - tg[k]))
IbiArgmax(cu) == {k \in 1..Len(cu) : \A j \in 1..Len(cu) : cu[j] <= cu[k]}
IbiCont(tg, cu, pf, c, m, k) ==
  IF k >= m
  THEN LET S == {j \in m..(k - 1) : IbiValid(tg, cu, pf, j)}
       IN IF S = {} THEN {RZero} ELSE {IbiVal(tg, cu, c, SetMax(S))}
  ELSE LET S == {j \in (k + 1)..(m - 1) : IbiValid(tg, cu, pf, j)}
       IN IF S # {} THEN {IbiVal(tg, cu, c, SetMin(S))}
          ELSE {RZero} \cup (IF IbiValid(tg, cu, pf, m) THEN {IbiVal(tg, cu, c, m)} ELSE {})
IbiAdm(tg, cu, pf, c, k) ==
  IF IbiValid(tg, cu, pf, k) THEN {IbiVal(tg, cu, c, k)}
  ELSE UNION {IbiCont(tg, cu, pf, c, m, k) : m \in IbiArgmax(cu)}
IbiMain(tg, cu, pf, c, k) ==
  IF IbiValid(tg, cu, pf, k) THEN IbiVal(tg, cu, c, k)
  ELSE LET S == IbiCont(tg, cu, pf, c, SetMin(IbiArgmax(cu)), k)
       IN IF RZero \in S THEN RZero ELSE CHOOSE v \in S : TRUE
UpdateIBI(tg, cu, pf, c) ==
  LET n == Len(cu)
      y == [k \in 1..n |-> IbiMain(tg, cu, pf, c, k)]
      f == [k \in 1..n |-> IF IbiValid(tg, cu, pf, k) THEN "i" ELSE "o"]
      alt == UNION {{<<k, v>> : v \in IbiAdm(tg, cu, pf, c, k) \ {y[k]}} : k \in 1..n}
  IN Out(y, f, alt, {}, {}, FALSE)

(* the same meaning as a LOCAL predicate over an observed output (linear cost: used to validate
   the outputs of large tables).  m = assumed scan start.                                     *)
IbiAt(tg, cu, pf, c, oy, of, m, k) ==
  IF IbiValid(tg, cu, pf, k) THEN oy[k] = IbiVal(tg, cu, c, k) /\ of[k] = "i"
  ELSE /\ of[k] = "o"
       /\ IF k = m THEN oy[k] = RZero
          ELSE IF k > m THEN oy[k] = oy[k - 1]
          ELSE IF k < m - 1 THEN oy[k] = oy[k + 1]
          ELSE oy[k] = RZero \/ (IbiValid(tg, cu, pf, m) /\ oy[k] = oy[m])
IbiLocalOK(tg, cu, pf, c, oy, of, m) == \A k \in 1..Len(cu) : IbiAt(tg, cu, pf, c, oy, of, m, k)
RECURSIVE MaxExp(_, _, _)
MaxExp(e, lo, hi) == IF lo = hi THEN e[lo]
                     ELSE LET mid == (lo + hi) \div 2 IN Max2(MaxExp(e, lo, mid), MaxExp(e, mid + 1, hi))
IbiStarts(cu) == LET mx == MaxExp(cu, 1, Len(cu)) IN {k \in 1..Len(cu) : cu[k] = mx}
IbiAccept(tg, cu, pf, c, oy, of) ==
  /\ Len(oy) = Len(cu) /\ Len(of) = Len(cu)
  /\ \E m \in IbiStarts(cu) : IbiLocalOK(tg, cu, pf, c, oy, of, m)

(* ------------------------------------------------------------------------------------------
   dist_boltzmann_invert.pl   F(x) = -kT ln g(x) ("up to a constant" in the statement) for
   g > min; "do not crash when calc log(0)": the other points are not 'i' (value not fixed by
   the help text; the script continues the neighbouring value, reported as transcription
   only).  Types non-bonded/dihedral: no normalisation.  mk: --min = 1.5 * 2^mk.              *)
BiDef(e, mk, k) == e[k] # Z /\ e[k] > mk
BoltzmannInvert(e, c, mk) ==
  LET n == Len(e)
      D == {k \in 1..n : BiDef(e, mk, k)}
      v(k) == RMul(c, RI(-e[k]))
      y == [k \in 1..n |-> IF k \in D THEN v(k)
                           ELSE LET L == {j \in D : j < k} IN
                                IF L # {} THEN v(SetMax(L)) ELSE v(SetMin(D))]
      f == [k \in 1..n |-> IF k \in D THEN "i" ELSE "o"]
  IN Out(y, f, {}, (1..n) \ D, {<<k, <<"o", "u">>>> : k \in (1..n) \ D}, TRUE)
RECURSIVE BiFirstDef(_, _, _)
BiFirstDef(e, mk, k) == IF k >= Len(e) \/ BiDef(e, mk, k) THEN k ELSE BiFirstDef(e, mk, k + 1)
BiAt(e, c, mk, oy, of, r, k) ==             \* r = first defined point: one common constant
  IF BiDef(e, mk, k) THEN of[k] = "i" /\ RSub(oy[k], oy[r]) = RMul(c, RI(e[r] - e[k]))
  ELSE of[k] \in {"o", "u"}
BiAccept(e, c, mk, oy, of) ==
  /\ Len(oy) = Len(e) /\ Len(of) = Len(e)
  /\ \A k \in 1..Len(e) : BiAt(e, c, mk, oy, of, BiFirstDef(e, mk, 1), k)

(* ------------------------------------------------------------------------------------------
   table_linearop.pl   y_new = a*y_old + b ; --withflag FL: only entries with that flag ;
   --on-x: the same on the x column                                                           *)
LinearOp(t, a, b, wf) ==
  Exact([k \in 1..Nn(t) |-> IF wf = "" \/ t.f[k] = wf THEN RAdd(RMul(a, t.y[k]), b) ELSE t.y[k]], t.f)
LinearOpX(t, xs, a, b, wf) ==
  [k \in 1..Nn(t) |-> IF wf = "" \/ t.f[k] = wf THEN RAdd(RMul(a, xs[k]), b) ELSE xs[k]]

(* ------------------------------------------------------------------------------------------
   table_combine.pl   "combines two tables with a certain operation": = + - * / d d2 x,
   --scale, --sum, --withflag ("only operate on entries with specific flag"), --no-flags.
   Entries that are not operated on: the help text does not say what is written (free), but
   the row must still be a table row.                                                         *)
CombVal(op, a, b) ==
  CASE op = "+" -> RAdd(a, b)
    [] op = "-" -> RSub(a, b)
    [] op \in {"x", "*"} -> RMul(a, b)
    [] op = "/" -> RDiv(a, b)
    [] op = "d" -> RAbs(RSub(a, b))
    [] op = "d2" -> RSq(RSub(a, b))
    [] op = "=" -> IF a = b THEN RZero ELSE RI(1)
Combine(t1, t2, op, sc, wf) ==
  LET n == Nn(t1)
      on(k) == wf = "" \/ t1.f[k] = wf
  IN Out([k \in 1..n |-> IF on(k) THEN RMul(sc, CombVal(op, t1.y[k], t2.y[k])) ELSE t1.y[k]], t1.f,
         {}, {k \in 1..n : ~on(k)}, {}, FALSE)
RECURSIVE RSum(_, _, _)
RSum(F(_), lo, hi) == IF lo > hi THEN RZero ELSE RAdd(F(lo), RSum(F, lo + 1, hi))
CombineSum(t1, t2, op, sc, wf) ==
  LET term(k) == IF wf = "" \/ t1.f[k] = wf THEN RMul(sc, CombVal(op, t1.y[k], t2.y[k])) ELSE RZero
  IN [kind |-> "scalar", v |-> RSum(term, 1, Nn(t1)), alt |-> {}]

(* merge_tables.pl  <source> <dest> <out>: entries of source replace those of dest on the
   common grid points; --withflag: only source entries with that flag; --noflags/--novalues *)
Merge(src, off, dst, wf, noflags, novalues) ==
  LET hit(k) == k - off \in 1..Nn(src) /\ (wf = "" \/ src.f[k - off] = wf)
  IN Exact([k \in 1..Nn(dst) |-> IF hit(k) /\ ~novalues THEN src.y[k - off] ELSE dst.y[k]],
           [k \in 1..Nn(dst) |-> IF hit(k) /\ ~noflags THEN src.f[k - off] ELSE dst.f[k]])

(* add_POT.pl  "adds up two potentials; if infile2 contains an undefined value, it uses the
   value from infile1; if value for infile1 and infile2 are both invalid, the result is also
   invalid".  infile1 undefined alone: nothing documented (free, any flag); infile2 undefined
   alone: value of infile1, flag of infile1 or 'u'.                                           *)
AddPot(t1, t2) ==
  LET n == Nn(t1)
  IN Out([k \in 1..n |-> IF t1.f[k] = "u" \/ t2.f[k] = "u" THEN t1.y[k] ELSE RAdd(t1.y[k], t2.y[k])],
         [k \in 1..n |-> IF t1.f[k] = "u" \/ t2.f[k] = "u" THEN "u" ELSE t1.f[k]],
         {}, {k \in 1..n : t1.f[k] = "u"},
         {<<k, <<"i", "o", "u">>>> : k \in {j \in 1..n : t1.f[j] = "u" /\ t2.f[j] # "u"}}
           \cup {<<k, <<t1.f[k], "u">>>> : k \in {j \in 1..n : t1.f[j] # "u" /\ t2.f[j] = "u"}}, FALSE)

(* table_scale.pl  "applies a prefactor ... interpolated linearly between prefactor1 and
   prefactor2" over the table                                                                 *)
Scale(t, xs, p1, p2) ==      \* "interpolated linearly": along the point index (script) or along x - the same on an
  LET n == Nn(t)            \* equidistant table, both admitted on a non-equidistant one
      byidx(k) == RMul(t.y[k], RAdd(RMul(p1, RN(n - k, n - 1)), RMul(p2, RN(k - 1, n - 1))))
      w(k) == RDiv(RSub(xs[k], xs[1]), RSub(xs[n], xs[1]))
      byx(k) == RMul(t.y[k], RAdd(RMul(p1, RSub(RI(1), w(k))), RMul(p2, w(k))))
  IN Out([k \in 1..n |-> byidx(k)], t.f, {<<k, byx(k)>> : k \in {j \in 1..n : byx(j) # byidx(j)}}, {}, {}, FALSE)

(* dist_adjust.pl  values smaller 0 are replaced with 0 *)
DistAdjust(t) == Exact([k \in 1..Nn(t) |-> IF t.y[k][1] < 0 THEN RZero ELSE t.y[k]], t.f)

(* table_change_flag.sh  "changes the flags": o -> i *)
ChangeFlag(t) == Exact(t.y, [k \in 1..Nn(t) |-> IF t.f[k] = "o" THEN "i" ELSE t.f[k]])

(* ------------------------------------------------------------------------------------------
   table_integrate.pl  "calculates the integral of a table", trapezoid rule, --from left|right
   "to define the zero point"; --sphere: integrand times r^2; --with-S: integrand + 2kT/r     *)
IntPre(t, xs, mode, kt) ==
  [k \in 1..Nn(t) |-> CASE mode = "plain" -> t.y[k]
                        [] mode = "sphere" -> RMul(t.y[k], RSq(xs[k]))
                        [] mode = "S" -> RAdd(t.y[k], RDiv(RMul(RI(2), kt), xs[k]))]
\* trapezoid of interval k for general gaps: (x_(k+1) - x_k) * (f_k + f_(k+1)) / 2
Trapez(f, xs, k) == RMul(RMul(RSub(xs[k + 1], xs[k]), <<1, 2>>), RAdd(f[k], f[k + 1]))
IntegrateY(f, xs, from) ==
  LET n == Len(f)
      RECURSIVE L(_), R(_)
      L(k) == IF k = 1 THEN RZero ELSE RAdd(L(k - 1), Trapez(f, xs, k - 1))
      R(k) == IF k = n THEN RZero ELSE RSub(R(k + 1), Trapez(f, xs, k))
  IN [k \in 1..n |-> IF from = "left" THEN L(k) ELSE R(k)]
Integrate(t, xs, from, mode, kt) == Exact(IntegrateY(IntPre(t, xs, mode, kt), xs, from), t.f)
\* local form: zero at the chosen end and trapezoid increments
IntegrateOK(f, xs, from, oy) ==
  /\ Len(oy) = Len(f)
  /\ oy[IF from = "left" THEN 1 ELSE Len(f)] = RZero
  /\ \A k \in 1..(Len(f) - 1) : RSub(oy[k + 1], oy[k]) = Trapez(f, xs, k)

(* csg_resample --type linear --derivative on the half-step grid (x0 + j - 1/2)*h, j = 1..g[n]
   (the output grid of csg_resample is equidistant; every such point lies strictly inside one
   interval of the input table, equidistant or not): slope of the piecewise linear interpolant
   on that interval.  Flag of such a point: the flag of one of the two ends of its interval.  *)
DiffY(y, xs) == [k \in 1..(Len(y) - 1) |-> RDiv(RSub(y[k + 1], y[k]), RSub(xs[k + 1], xs[k]))]
OnHalfGrid(v, g) == LET iv == ExpandIv(g, 1, Len(g) - 1) IN [j \in 1..Len(iv) |-> v[iv[j]]]
Differentiate(t, xs, g) ==
  LET iv == ExpandIv(g, 1, Len(g) - 1)
      d == DiffY(t.y, xs)
      m == Len(iv)
  IN Out([j \in 1..m |-> d[iv[j]]], [j \in 1..m |-> t.f[iv[j] + 1]], {}, {},
         {<<j, <<t.f[iv[j]], t.f[iv[j] + 1]>>>> : j \in {i \in 1..m : t.f[iv[i]] # t.f[iv[i] + 1]}}, FALSE)
(* csg_resample --grid <the grid of the input table> [--derivative]: "Change grid and interval of
   any sort of table files"; on the grid of the input nothing changes: values (interpolating
   splines pass through the knots) and, "preserve the flag column semantics", the flag of every
   point - whatever the step (decimal steps 0.05, 0.1, 0.01*k are not exact in binary, the output
   grid is accumulated).  Derivative of the linear spline at a knot: slope of either adjacent
   interval (two-valued), flags again the input's.                                            *)
ResampleSame(t, xs) ==
  LET n == Nn(t)
      d == DiffY(t.y, xs)
  IN Exact(t.y, t.f) @@
     [d |-> Out([k \in 1..n |-> IF k < n THEN d[k] ELSE d[n - 1]], t.f,
                {<<k, d[k - 1]>> : k \in {j \in 2..(n - 1) : d[j - 1] # d[j]}}, {}, {}, FALSE)]

(* csg_resample --type linear|cubic|akima --grid <unit lattice (x0+j)*h, j = 0..g[n]> --derivative on a NON-equidistant
   input table ("Change grid and interval of any sort of table files"; default boundaries: natural).
     linear: the piecewise linear interpolant; its derivative at an inner knot is two-valued
     cubic : THE natural cubic spline (C2, second derivative 0 at both ends) - a unique function with rational values on
             rational data: second derivatives M from the tridiagonal continuity equations (solved exactly), value and
             derivative from the standard form  S = A*y_k + B*y_(k+1) + ((A^3-A)*M_k + (B^3-B)*M_(k+1))*h^2/6
     akima : interpolates (value at every knot); data on a straight line are reproduced, otherwise the values between
             the knots are not asserted here (end-point conventions differ; see C12)
   All three reproduce a straight line exactly (value a*x+b, derivative a everywhere).
   Flags: a lattice point that is a knot keeps the knot's flag; between two knots the flag of either.          *)
NatSplineM(y, xs) ==
  LET n == Len(y)
      hh(k) == RSub(xs[k + 1], xs[k])
      a(k) == RMul(hh(k - 1), <<1, 6>>)
      b(k) == RMul(RAdd(hh(k - 1), hh(k)), <<1, 3>>)
      c(k) == RMul(hh(k), <<1, 6>>)
      d(k) == RSub(RDiv(RSub(y[k + 1], y[k]), hh(k)), RDiv(RSub(y[k], y[k - 1]), hh(k - 1)))
      RECURSIVE den(_), cp(_), dp(_), M(_)
      den(k) == IF k = 2 THEN b(2) ELSE RSub(b(k), RMul(a(k), cp(k - 1)))
      cp(k) == RDiv(c(k), den(k))
      dp(k) == IF k = 2 THEN RDiv(d(2), b(2)) ELSE RDiv(RSub(d(k), RMul(a(k), dp(k - 1))), den(k))
      M(k) == IF k = 1 \/ k = n THEN RZero ELSE IF k = n - 1 THEN dp(k) ELSE RSub(dp(k), RMul(cp(k), M(k + 1)))
  IN [k \in 1..n |-> M(k)]
SplVal(y, xs, M, k, x) ==
  LET h == RSub(xs[k + 1], xs[k])
      A == RDiv(RSub(xs[k + 1], x), h)
      B == RDiv(RSub(x, xs[k]), h)
      cub(u) == RSub(RMul(u, RSq(u)), u)
  IN RAdd(RAdd(RMul(A, y[k]), RMul(B, y[k + 1])),
          RMul(RAdd(RMul(cub(A), M[k]), RMul(cub(B), M[k + 1])), RMul(RSq(h), <<1, 6>>)))
SplDer(y, xs, M, k, x) ==
  LET h == RSub(xs[k + 1], xs[k])
      A == RDiv(RSub(xs[k + 1], x), h)
      B == RDiv(RSub(x, xs[k]), h)
      q(u) == RMul(RSub(RMul(RI(3), RSq(u)), RI(1)), RMul(h, <<1, 6>>))
  IN RAdd(RDiv(RSub(y[k + 1], y[k]), h), RSub(RMul(q(B), M[k + 1]), RMul(q(A), M[k])))
ResampleSpline(t, xs, g, x0, h, type, isline) ==
  LET n == Nn(t)
      G == g[n]
      iv == ExpandIv(g, 1, n - 1)
      K(j) == IF j = G THEN n - 1 ELSE iv[j + 1]                 \* an interval that contains lattice point j (0..G)
      us == [k \in 1..n |-> RI(x0 + g[k])]                     \* abscissae in units of h (integers: small numbers);
      X(j) == RI(x0 + j)                                         \* dS/dx = (dS/du)/h
      knot(j) == \E k \in 1..n : g[k] = j
      kn(j) == CHOOSE k \in 1..n : g[k] = j
      M == IF type = "cubic" /\ ~isline THEN NatSplineM(t.y, us) ELSE [k \in 1..n |-> RZero]     \* M = 0: piecewise linear
      open == type = "akima" /\ ~isline
      sl == DiffY(t.y, xs)
      P == 0..G
  IN Out([p \in 1..(G + 1) |-> SplVal(t.y, us, M, K(p - 1), X(p - 1))],
         [p \in 1..(G + 1) |-> IF knot(p - 1) THEN t.f[kn(p - 1)] ELSE t.f[K(p - 1) + 1]],
         {}, {p \in 1..(G + 1) : open /\ ~knot(p - 1)},
         {<<p, <<t.f[K(p - 1)], t.f[K(p - 1) + 1]>>>> : p \in {i \in 1..(G + 1) : ~knot(i - 1)}}, FALSE) @@
     [d |-> Out([p \in 1..(G + 1) |-> RDiv(SplDer(t.y, us, M, K(p - 1), X(p - 1)), h)],
                [p \in 1..(G + 1) |-> IF knot(p - 1) THEN t.f[kn(p - 1)] ELSE t.f[K(p - 1) + 1]],
                IF type = "linear" /\ ~isline          \* slope of the left interval at an inner knot
                THEN {<<p, sl[kn(p - 1) - 1]>> : p \in {i \in 2..G : knot(i - 1) /\ sl[kn(i - 1) - 1] # sl[kn(i - 1)]}} ELSE {},
                {p \in 1..(G + 1) : open},
                {<<p, <<t.f[K(p - 1)], t.f[K(p - 1) + 1]>>>> : p \in {i \in 1..(G + 1) : ~knot(i - 1)}}, FALSE)]

\* "integration and differentiation being inverse to each other": derivative of the integral of a
\* table = the table's linear interpolant at the midpoints, whatever the zero point
MidAvg(y) == [k \in 1..(Len(y) - 1) |-> RMul(<<1, 2>>, RAdd(y[k], y[k + 1]))]
RECURSIVE CumSum(_, _, _)
CumSum(d, xs, k) == IF k = 0 THEN RZero ELSE RAdd(CumSum(d, xs, k - 1), RMul(RSub(xs[k + 1], xs[k]), d[k]))

(* potential_shift.pl  "shifts the whole potential by minimum (bonded potentials) or last
   value (non-bonded potentials)".  Minimum: of the 'i' points (script) or of all points (the
   help text does not say) - both admitted where they differ.                                *)
RInf == <<1, 0>>                          \* larger than every rational under RLe
RECURSIVE MinY(_, _, _, _)
MinY(t, onlyI, lo, hi) ==
  IF lo = hi THEN (IF onlyI /\ t.f[lo] # "i" THEN RInf ELSE t.y[lo])
  ELSE LET mid == (lo + hi) \div 2 IN RMin(MinY(t, onlyI, lo, mid), MinY(t, onlyI, mid + 1, hi))
Shift(t, type) ==
  LET n == Nn(t)
  IN IF type = "non-bonded" THEN Exact([k \in 1..n |-> RSub(t.y[k], t.y[n])], t.f)
     ELSE LET zi == MinY(t, TRUE, 1, n)
              za == MinY(t, FALSE, 1, n)
          IN Out([k \in 1..n |-> RSub(t.y[k], zi)], t.f,
                 IF za = zi THEN {} ELSE {<<k, RSub(t.y[k], za)>> : k \in 1..n}, {}, {}, FALSE)

(* ------------------------------------------------------------------------------------------
   table_smooth.pl  "This script smoothes a table" - no formula documented.  Declarative
   meaning used for the verdict: same grid and flags; every output value lies within the range
   of the input over the point and its direct neighbours (so constants are kept and no new
   extrema appear); at an interior 'i' point that is a strict local extremum of the input the
   output moves strictly towards the neighbours.  The script's weights (1/4,1/2,1/4 inside,
   (2,1)/3 at the ends, non-'i' points untouched) are the transcription (warning only).      *)
SmoothAlgo(t) ==
  LET n == Nn(t) y == t.y
  IN [k \in 1..n |-> IF t.f[k] # "i" THEN y[k]
                     ELSE IF k = 1 THEN RMul(<<1, 3>>, RAdd(RMul(RI(2), y[1]), y[2]))
                     ELSE IF k = n THEN RMul(<<1, 3>>, RAdd(RMul(RI(2), y[n]), y[n - 1]))
                     ELSE RMul(<<1, 4>>, RAdd(RAdd(y[k - 1], RMul(RI(2), y[k])), y[k + 1]))]
Nbh(n, k) == {k - 1, k, k + 1} \cap (1..n)
SmoothLo(t, k) == RMinSet({t.y[j] : j \in Nbh(Nn(t), k)})
SmoothHi(t, k) == RMaxSet({t.y[j] : j \in Nbh(Nn(t), k)})
SmoothStrict(t, k) ==          \* 1: output < input required, -1: output > input required
  IF t.f[k] = "i" /\ 1 < k /\ k < Nn(t)
  THEN IF RLt(t.y[k - 1], t.y[k]) /\ RLt(t.y[k + 1], t.y[k]) THEN 1
       ELSE IF RLt(t.y[k], t.y[k - 1]) /\ RLt(t.y[k], t.y[k + 1]) THEN -1 ELSE 0
  ELSE 0
SmoothOK(t, oy, of) ==
  /\ Len(oy) = Nn(t) /\ of = t.f
  /\ \A k \in 1..Nn(t) : /\ RLe(SmoothLo(t, k), oy[k]) /\ RLe(oy[k], SmoothHi(t, k))
                         /\ SmoothStrict(t, k) = 1 => RLt(oy[k], t.y[k])
                         /\ SmoothStrict(t, k) = -1 => RLt(t.y[k], oy[k])
Smooth(t) ==
  [kind |-> "range", f |-> t.f, y |-> t.y, algo |-> SmoothAlgo(t),
   lo |-> [k \in 1..Nn(t) |-> SmoothLo(t, k)], hi |-> [k \in 1..Nn(t) |-> SmoothHi(t, k)],
   strict |-> [k \in 1..Nn(t) |-> SmoothStrict(t, k)]]

(* ------------------------------------------------------------------------------------------
   table_extrapolate.pl  help text:  m = dy/dx = (y[i+A]-y[i])/(x[i+A]-x[i])
     constant  y = y0                      linear  y = m*(x-x0) + y0
     sasha     y = a*(x-b)^2, b = x0 - 2*y0/m, a = m^2/(4*y0)
     quadratic y = C*(x+a)^2 + b, a = m/(2*C) - x0, b = y0 - m^2/(4*C)
     periodic  "same as linear, but extrapolates right side to end at first point of left side"
   region left/right/leftright; extrapolated points get flag 'i' unless --no-flagupdate.
   (x0,y0) = first / last point with flag 'i'.  ExF uses d = x - x0 and the expanded forms;
   ExFDoc is the help text literally (TLC checks that they agree).                          *)
RECURSIVE ScanI(_, _, _)
ScanI(f, k, step) == IF k < 1 \/ k > Len(f) \/ f[k] = "i" THEN k ELSE ScanI(f, k + step, step)
FirstI(t) == ScanI(t.f, 1, 1)             \* n+1 if there is none
LastI(t) == ScanI(t.f, Nn(t), -1)         \* 0 if there is none
ExF(fn, C, y0, m, d) ==
  CASE fn = "constant" -> y0
    [] fn \in {"linear", "periodic"} -> RAdd(RMul(m, d), y0)
    [] fn = "quadratic" -> RAdd(RAdd(RMul(C, RSq(d)), RMul(m, d)), y0)
    [] fn = "sasha" -> RDiv(RSq(RAdd(RMul(m, d), RMul(RI(2), y0))), RMul(RI(4), y0))
    [] fn = "exponential" -> y0      \* placeholder; the value is y0*exp(ExLog), see Extrapolate.lg
\* exponential: y = a*exp(b*x), a = y0*exp(-m*x0/y0), b = m/y0, i.e. ln(y/y0) = m*(x-x0)/y0: the logarithm is rational
ExLog(y0, m, d) == RDiv(RMul(m, d), y0)
ExFDoc(fn, C, x0, y0, m, x) ==
  CASE fn = "constant" -> y0
    [] fn \in {"linear", "periodic"} -> RAdd(RMul(m, x), RAdd(RNeg(RMul(m, x0)), y0))
    [] fn = "quadratic" -> LET a == RSub(RDiv(m, RMul(RI(2), C)), x0)
                               b == RSub(y0, RDiv(RSq(m), RMul(RI(4), C)))
                           IN RAdd(RMul(C, RSq(RAdd(x, a))), b)
    [] fn = "sasha" -> LET b == RSub(x0, RDiv(RMul(RI(2), y0), m))
                           a == RDiv(RSq(m), RMul(RI(4), y0))
                       IN RMul(a, RSq(RSub(x, b)))
Extrapolate(t, xs, fn, region, A, C, fu) ==
  LET n == Nn(t)
      fi == FirstI(t)
      la == LastI(t)
      doL == region \in {"left", "leftright"}
      doR == region \in {"right", "leftright"}
      ml == IF fn = "constant" THEN RZero ELSE RDiv(RSub(t.y[fi + A], t.y[fi]), RSub(xs[fi + A], xs[fi]))
      yl == [k \in 1..n |-> IF doL /\ k < fi THEN ExF(fn, C, t.y[fi], ml, RSub(xs[k], xs[fi])) ELSE t.y[k]]
      mr == IF fn = "constant" THEN RZero
            ELSE IF fn = "periodic"
                 THEN (IF la = n THEN RZero ELSE RDiv(RSub(yl[1], t.y[la]), RSub(xs[n], xs[la])))
                 ELSE RDiv(RSub(t.y[la], t.y[la - A]), RSub(xs[la], xs[la - A]))
      lg == IF fn # "exponential" THEN {}
            ELSE {<<k, t.y[fi], ExLog(t.y[fi], ml, RSub(xs[k], xs[fi]))>> : k \in {j \in 1..(fi - 1) : doL}}
                 \cup {<<k, t.y[la], ExLog(t.y[la], mr, RSub(xs[k], xs[la]))>> : k \in {j \in (la + 1)..n : doR}}
  IN Out([k \in 1..n |-> IF doR /\ k > la THEN ExF(fn, C, t.y[la], mr, RSub(xs[k], xs[la])) ELSE yl[k]],
         [k \in 1..n |-> IF fu /\ ((doL /\ k < fi) \/ (doR /\ k > la)) THEN "i" ELSE t.f[k]],
         {}, {p[1] : p \in lg}, {}, FALSE) @@ [lg |-> lg]     \* lg: <<point, y0, ln(y/y0)>> of exponentially extrapolated points
\* domain of the documented formulas
ExtrapolateDefined(t, fn, region, A) ==
  /\ \E k \in 1..Nn(t) : t.f[k] = "i"
  /\ LET fi == FirstI(t) la == LastI(t)
     IN /\ fi + A <= la
        /\ \A k \in fi..la : t.f[k] = "i"
        /\ fn = "sasha" => /\ t.y[fi] # RZero /\ t.y[la] # RZero
                           /\ t.y[fi + A] # t.y[fi] /\ t.y[la] # t.y[la - A]
        /\ fn = "exponential" => t.y[fi] # RZero /\ t.y[la] # RZero

(* potential_extrapolate.sh  "extrapolates a potential in the correct way depending on its
   type": left with lfct, then right with rfct; defaults exponential/constant (non-bonded,
   right with one average point), linear/linear (bond, angle), linear/periodic (dihedral)   *)
PotExtrapolate(t, xs, type, lf, rf, A, C) ==
  LET L == Extrapolate(t, xs, lf, "left", A, C, TRUE)
      t2 == Tab(L.y, L.f)
      R == Extrapolate(t2, xs, rf, "right", IF type = "non-bonded" THEN 1 ELSE A, C, TRUE)
  IN [R EXCEPT !.lg = R.lg \cup L.lg, !.free = R.free \cup L.free]
PotDefaultR(type) == CASE type = "non-bonded" -> "constant" [] type = "dihedral" -> "periodic" [] OTHER -> "linear"

(* table_get_value.pl  "print the y value of x, which is closest to X"; tie: either *)
GetValue(t, xs, X) ==
  LET n == Nn(t)
      dist(k) == RAbs(RSub(xs[k], X))
      best == {k \in 1..n : \A j \in 1..n : RLe(dist(k), dist(j))}
  IN [kind |-> "scalar", v |-> t.y[SetMax(best)], alt |-> {t.y[k] : k \in best} \ {t.y[SetMax(best)]}]

(* table_dummy.sh  "creates a zero table with grid min:step:max using linear interpolation",
   --y1/--y2 first/last value: "a linear instead of a constant table"; flags not documented  *)
Dummy(n, y1, y2) ==
  Out([k \in 1..n |-> RAdd(y1, RMul(RSub(y2, y1), RN(k - 1, n - 1)))], [k \in 1..n |-> "i"],
      {}, {}, {<<k, <<"i", "o", "u">>>> : k \in 1..n}, FALSE)

(* table_average.sh  "creates averages tables and also calculates the error": mean and
   standard error of the mean over the c tables (squared: rational)                          *)
Average(ts) ==
  LET c == Len(ts)
      n == Nn(ts[1])
      s1(k) == LET g(j) == ts[j].y[k] IN RSum(g, 1, c)
      s2(k) == LET g(j) == RSq(ts[j].y[k]) IN RSum(g, 1, c)
  IN [kind |-> "avg", y |-> [k \in 1..n |-> RMul(s1(k), RN(1, c))],
      e2 |-> [k \in 1..n |-> RMul(RSub(s2(k), RMul(RSq(s1(k)), RN(1, c))), RN(1, c * (c - 1)))]]

(* table_switch_border.pl  y = y*cos(pi*(x-x_switch)/(2*(x_end-x_switch))) beyond x_switch;
   with x_end - x_switch = w grid steps (w <= 3) cos^2 is rational                           *)
CosSq(j, w) == IF j = w THEN RZero
               ELSE CASE w = 2 -> <<1, 2>>
                      [] w = 3 -> IF j = 1 THEN <<3, 4>> ELSE <<1, 4>>
SwitchBorder(t, s, w) ==      \* all flags 'i', x_switch = x_s, x_end = x_(s+w) = last point
  [kind |-> "squares", f |-> t.f,
   y2 |-> [k \in 1..Nn(t) |-> IF k <= s THEN RSq(t.y[k]) ELSE RMul(RSq(t.y[k]), CosSq(k - s, w))],
   sg |-> [k \in 1..Nn(t) |-> Sgn(t.y[k][1])]]
=============================================================================
