SPECIFICATION XSpec
CONSTANTS
  OpSet <- MCOps
  NSet <- MCN
  SeedSet <- MCSeeds
  Emit <- MCEmit
INVARIANTS Algebra SameGrid Vector
CHECK_DEADLOCK FALSE
