------------------------------- MODULE Rat -------------------------------
(* Exact rationals <<n, d>> (d > 0, gcd = 1) over TLC's 32-bit integers.  Every table
   value of the C19 engine is such a pair; Python only converts n/d to a double.       *)
EXTENDS Integers, CArith

RN(n, d) == IF n = 0 THEN <<0, 1>>
            ELSE LET g == Gcd(n, d)
                     s == IF d < 0 THEN -1 ELSE 1
                 IN <<(s * n) \div g, (s * d) \div g>>
RI(k) == <<k, 1>>
RZero == <<0, 1>>
RNeg(a) == <<-a[1], a[2]>>
RAdd(a, b) == IF a[2] = b[2] THEN RN(a[1] + b[1], a[2])
              ELSE LET g == Gcd(a[2], b[2])                  \* over the least common denominator: keeps products small
                   IN RN(a[1] * (b[2] \div g) + b[1] * (a[2] \div g), (a[2] \div g) * b[2])
RSub(a, b) == RAdd(a, RNeg(b))
RMul(a, b) == LET g1 == Gcd(a[1], b[2]) g2 == Gcd(b[1], a[2])    \* cross-cancel first: keeps products small
                  h1 == IF g1 = 0 THEN 1 ELSE g1 h2 == IF g2 = 0 THEN 1 ELSE g2
              IN RN((a[1] \div h1) * (b[1] \div h2), (a[2] \div h2) * (b[2] \div h1))
RInv(a) == RN(a[2], a[1])                                   \* a # 0
RDiv(a, b) == RMul(a, RInv(b))
RLt(a, b) == a[1] * b[2] < b[1] * a[2]
RLe(a, b) == a[1] * b[2] <= b[1] * a[2]
RMin(a, b) == IF RLe(a, b) THEN a ELSE b
RMax(a, b) == IF RLe(a, b) THEN b ELSE a
RSq(a) == RMul(a, a)
RIsZero(a) == a[1] = 0

ASSUME /\ RN(6, -4) = <<-3, 2>> /\ RAdd(<<1, 2>>, <<1, 3>>) = <<5, 6>> /\ RSub(<<1, 2>>, <<1, 2>>) = <<0, 1>>
       /\ RMul(<<-3, 4>>, <<2, 9>>) = <<-1, 6>> /\ RDiv(<<1, 2>>, <<-1, 4>>) = <<-2, 1>>
       /\ RLt(<<-1, 2>>, <<1, 3>>) /\ ~RLt(<<1, 2>>, <<1, 2>>) /\ RLe(<<1, 2>>, <<2, 4>>)
=============================================================================
