SPECIFICATION Spec
CONSTANTS
  OpSet <- MCOps
  NSet <- MCN
  SeedSet <- MCSeeds
  Emit <- MCEmit
INVARIANTS Algebra SameGrid FlagsAsStated Idempotent Vector
CHECK_DEADLOCK FALSE
