------------------------------- MODULE MCExh -------------------------------
(* Exhaustive small domain for the two logarithmic scripts (the central clause of C19): every
   pair of target/current distributions over {0, 2^0, 2^2} and every i/u flag pattern of the
   current potential on C19_XLO..C19_XHI points, every distribution for the Boltzmann inversion.
   Same invariants as MCTS (AlgIbi / AlgBi: local form = constructive form, sharpness, exactly
   zero when the distributions coincide, dU = F(tgt) - F(cur)).                              *)
EXTENDS MCTS
XN == EnvInt("C19_XLO", 3)..EnvInt("C19_XHI", 3)
XE == {Z, 0, 2}
XInit ==
  /\ ph = 0
  /\ \E n \in XN :
       \/ \E tg \in [1..n -> XE], cu \in [1..n -> XE], pf \in [1..n -> {"i", "u"}] :
            cs = [op |-> "update_ibi_pot", n |-> n, seed |-> 0, x0 |-> 1, h |-> <<1, 4>>, g |-> UniformG(n), e4 |-> FALSE, ye |-> <<1, 4>>, zsp |-> "0.0", twice |-> FALSE, tg |-> tg, cu |-> cu,
                  pot |-> Tab([k \in 1..n |-> RI(k)], pf), c |-> <<1, 1>>]
       \/ \E e \in [1..n -> {Z, -1, 1, 2}] :
            /\ \E k \in 1..n : e[k] # Z
            /\ cs = [op |-> "dist_boltzmann_invert", n |-> n, seed |-> 0, x0 |-> 1, h |-> <<1, 4>>, g |-> UniformG(n), e4 |-> FALSE, ye |-> <<1, 4>>, zsp |-> "0.0", twice |-> FALSE, e |-> e,
                     usemin |-> FALSE, mk |-> -40, c |-> <<3, 2>>, type |-> ""]
XSpec == XInit /\ [][Next]_vars
=============================================================================
