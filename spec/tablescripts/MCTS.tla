------------------------------- MODULE MCTS -------------------------------
(* Model wrapper for TSCases: everything comes from the environment so that one module serves
   the quick and the thorough tier.  C19_OPS = "lo-hi" indices into OpNames (default all),
   C19_NLO/C19_NHI table sizes, C19_SEED0/C19_NSEED seeds.                                     *)
EXTENDS TSCases, IOUtils
EnvInt(name, dflt) == IF name \in DOMAIN IOEnv THEN atoi(IOEnv[name]) ELSE dflt
MCOps == {OpNames[i] : i \in EnvInt("C19_OPLO", 1)..EnvInt("C19_OPHI", Len(OpNames))}
MCN == EnvInt("C19_NLO", 3)..EnvInt("C19_NHI", 8)
MCSeeds == LET s0 == EnvInt("C19_SEED0", 1) n == EnvInt("C19_NSEED", 2) IN s0..(s0 + n - 1)
MCEmit == EnvInt("C19_EMIT", 1) = 1
=============================================================================
