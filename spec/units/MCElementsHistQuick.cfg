SPECIFICATION Spec
CONSTANTS
  Known <- QKnown
  KnownFull <- QFull
  Unknown <- QUnknown
  Calls <- QCalls
  Depth = 3
  InsertOnMiss = FALSE
  Emit = TRUE
INVARIANTS TypeOK NoTrace HistoryIndependent OnlyElements Export
CHECK_DEADLOCK FALSE
