SPECIFICATION Spec
CONSTANTS
  Known <- QKnown
  Unknown <- QUnknown
  Calls <- QCalls
  Depth = 3
  InsertOnMiss = FALSE
  Emit = TRUE
INVARIANTS TypeOK NoTrace HistoryIndependent OnlyElements Export
CHECK_DEADLOCK FALSE
